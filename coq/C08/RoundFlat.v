(* C08/RoundFlat.v — C09, enclosed ("%x% = #") and separated ("[ ] = #") style:
   element calls on printed text.  Values are read by the same mpt_parse_data as in
   the prefix style (the formats agree on escape, comment and end characters); option
   names go through mpt_parse_option, section names through the two name loops. *)
From Coq Require Import List ZArith Lia Bool.
From MptV Require Import C08.ParseModel C08.ParseBase C08.ParseProofs C08.PrintModel C08.RoundLex C08.RoundPre.
Import ListNotations.
Local Open Scope Z_scope.

Definition fe : format := mkFmt 37 37 0 61 0 34 39 0 35 0 0 0.
Definition fs : format := mkFmt 91 93 0 61 0 34 39 0 35 0 0 0.
Lemma fe_is : fst (parse_format (style_fmt StEnc)) = fe. Proof. reflexivity. Qed.
Lemma fs_is : fst (parse_format (style_fmt StSep)) = fs. Proof. reflexivity. Qed.

(* formats that agree with the default on what mpt_parse_data / nextvis look at *)
Definition dfmt (f : format) : Prop :=
  ostart f = 0 /\ assign f = 61 /\ oend f = 0 /\ esc0 f = 34 /\ esc1 f = 39 /\ esc2 f = 0 /\
  com0 f = 35 /\ com1 f = 0 /\ com2 f = 0 /\ com3 f = 0.
Lemma dfmt_fe : dfmt fe. Proof. unfold dfmt, fe. cbn. repeat split. Qed.
Lemma dfmt_fs : dfmt fs. Proof. unfold dfmt, fs. cbn. repeat split. Qed.

Section Ext.
  Variable f : format.
  Hypothesis DF : dfmt f.

  Lemma iscomment_ext c : iscomment f c = iscomment fd c.
  Proof. destruct DF as (_ & _ & _ & _ & _ & _ & A & B & C & D). unfold iscomment. now rewrite A, B, C, D. Qed.
  Lemma isescape_ext c : isescape f c = isescape fd c.
  Proof. destruct DF as (_ & _ & _ & A & B & C & _). unfold isescape. now rewrite A, B, C. Qed.
  Lemma oend_ext : oend f = oend fd. Proof. destruct DF as (_ & _ & A & _). exact A. Qed.

  Lemma nextvis_go_ext l : forall b s, nextvis_go f b l s = nextvis_go fd b l s.
  Proof.
    induction l as [|c l IH]; intros b s; [reflexivity|]. cbn [nextvis_go]. rewrite iscomment_ext, !IH. reflexivity.
  Qed.

  Lemma data_body_ext c s m la : data_body f c s m la = data_body fd c s m la.
  Proof. unfold data_body. now rewrite isescape_ext, iscomment_ext, oend_ext. Qed.

  Lemma data_loop_ext l : forall s m la, data_loop f l s m la = data_loop fd l s m la.
  Proof.
    induction l as [|c l IH]; intros s m la; [reflexivity|]. cbn [data_loop]. rewrite data_body_ext.
    destruct (c <? 0); [reflexivity|]. destruct (data_body fd c _ m la); [apply IH|reflexivity|reflexivity].
  Qed.

  Lemma parse_data_ext l s : parse_data f l s = parse_data fd l s.
  Proof. unfold parse_data. now rewrite data_loop_ext, oend_ext. Qed.

  (* ---------------------------------------------------------------- option names *)
  (* characters of a name without white space *)
  Definition onc (c : Z) : bool :=
    (0 <? c) && (c <? 256) && negb (isspace c) && negb (c =? 61) && negb (c =? 35) && negb (c =? 46).
  Lemma onc_spec c : onc c = true <-> (0 < c < 256 /\ isspace c = false /\ c <> 61 /\ c <> 35 /\ c <> 46).
  Proof. unfold onc. rewrite !andb_true_iff, !negb_true_iff, !Z.ltb_lt, !Z.eqb_neq. tauto. Qed.

  Variable take : Z.

  Lemma option_step_name c a0 l s :
    onc c = true -> 0 < a0 ->
    option_loop f take c (a0 :: l) s = option_loop f take a0 l (addch (tick (set_valid s) a0) a0).
  Proof.
    intros Hc P. apply onc_spec in Hc. destruct Hc as (B & SP & N1 & N2 & _).
    rewrite option_loop_eq. unfold option_body. rewrite SP.
    destruct DF as (_ & A & O & _). rewrite A, O, iscomment_ext, iscomment_fd. zb. reflexivity.
  Qed.
  Lemma option_step_blank c a0 l s :
    hspace c = true -> 0 < a0 ->
    option_loop f take c (a0 :: l) s = option_loop f take a0 l (addch (tick s a0) a0).
  Proof.
    intros Hc P. apply hspace_spec in Hc as Hc'. assert (SP : isspace c = true) by (apply isspace_spec; lia).
    rewrite option_loop_eq. unfold option_body. rewrite SP.
    destruct DF as (_ & A & O & _). rewrite A. zb. reflexivity.
  Qed.
  Lemma option_step_assign l s :
    option_loop f take 61 l s = option_assign f take MissingBuffer l s.
  Proof.
    rewrite option_loop_eq. unfold option_body. change (isspace 61) with false.
    destruct DF as (_ & A & _). rewrite A. reflexivity.
  Qed.

  (* name characters: appended, each one moves the valid length *)
  Lemma opt_scan : forall w c s d l E R F,
    Forall (fun x => onc x = true) (c :: w) -> 0 < d < 256 ->
    pth s = mkPath E (c :: R) (len (c :: R)) F true true -> len (c :: R) + len w < VALID_MOD ->
    exists s', option_loop f take c (w ++ d :: l) s = option_loop f take d l s' /\
               pth s' = mkPath E (d :: rev w ++ c :: R) (len (d :: rev w ++ c :: R)) F true true /\
               valid s' = len (rev w ++ c :: R) /\ pcurr s' = pcurr s.
  Proof.
    induction w as [|x w IH]; intros c s d l E R F FA PD HP HL.
    - inversion FA as [|? ? Hc _]; subst. cbn [app]. rewrite option_step_name by (assumption || lia).
      rewrite len_nil in HL. pose proof (len_nonneg R). rewrite len_cons in HL.
      destruct (set_valid_path s E c R _ F true HP) as [P1 V1]; [rewrite len_cons; lia|].
      eexists. split; [reflexivity|]. cbn [rev app].
      split; [rewrite pth_addch, pth_tick, P1; now rewrite addchar_keep by lia|].
      split; [now rewrite valid_addch, valid_tick|now autorewrite with pst].
    - inversion FA as [|? ? Hc FA']; subst. inversion FA' as [|? ? Hx _]; subst. apply onc_spec in Hx as Hx'.
      cbn [app]. rewrite option_step_name by (assumption || lia).
      rewrite !len_cons in HL. pose proof (len_nonneg R). pose proof (len_nonneg w).
      destruct (set_valid_path s E c R _ F true HP) as [P1 V1]; [rewrite len_cons; lia|].
      destruct (IH x (addch (tick (set_valid s) x) x) d l E (c :: R) F FA' PD) as (s' & E1 & P2 & V2 & C2).
      + rewrite pth_addch, pth_tick, P1. apply addchar_keep. lia.
      + rewrite !len_cons. lia.
      + exists s'. split; [exact E1|]. cbn [rev]. rewrite <- !app_assoc. cbn [app].
        split; [exact P2|]. split; [exact V2|]. rewrite C2. now autorewrite with pst.
  Qed.

  Lemma opt_scan_blanks : forall w c s d l E R F,
    Forall (fun x => hspace x = true) (c :: w) -> 0 < d < 256 ->
    pth s = mkPath E (c :: R) (len (c :: R)) F true true ->
    exists s', option_loop f take c (w ++ d :: l) s = option_loop f take d l s' /\
               pth s' = mkPath E (d :: rev w ++ c :: R) (len (d :: rev w ++ c :: R)) F true true /\
               valid s' = valid s /\ pcurr s' = pcurr s.
  Proof.
    induction w as [|x w IH]; intros c s d l E R F FA PD HP.
    - inversion FA as [|? ? Hc _]; subst. cbn [app]. rewrite option_step_blank by (assumption || lia).
      eexists. split; [reflexivity|]. cbn [rev app].
      split; [rewrite pth_addch, pth_tick, HP; now rewrite addchar_keep by lia|].
      split; now autorewrite with pst.
    - inversion FA as [|? ? Hc FA']; subst. inversion FA' as [|? ? Hx _]; subst. apply hspace_spec in Hx as Hx'.
      cbn [app]. rewrite option_step_blank by (assumption || lia).
      destruct (IH x (addch (tick s x) x) d l E (c :: R) F FA' PD) as (s' & E1 & P2 & V2 & C2).
      + rewrite pth_addch, pth_tick, HP. apply addchar_keep. lia.
      + exists s'. split; [exact E1|]. cbn [rev]. rewrite <- !app_assoc. cbn [app].
        split; [exact P2|]. autorewrite with pst in V2, C2. auto.
  Qed.

  (* ---------------------------------------------------------------- name finished, value follows *)
  Lemma path_add_nosep E J n F K :
    existsb (Z.eqb SEP) n = false ->
    exists p1, path_add (mkPath E (J ++ rev n) (len (J ++ rev n)) F K true) (len n) = (0, p1) /\
               pelems p1 = E ++ [n] /\ pbuf p1 = true.
  Proof.
    intros NS. unfold path_add. cbn [pbuf negb plen pelems].
    assert (L : len n <= len (J ++ rev n)) by (unfold len; rewrite app_length, rev_length; lia).
    pose proof (len_nonneg n). zb. cbn [orb].
    rewrite firstn_ppost, NS. eexists. split; [reflexivity|]. split; reflexivity.
  Qed.

  Lemma option_assign_value adderr d n v rest s E J F K :
    pth s = mkPath E (J ++ rev n) (len (J ++ rev n)) F K true -> valid s = len n -> n <> [] ->
    ncheck_go n true take = 0 -> existsb (Z.eqb SEP) n = false -> wf_value v = true ->
    exists s',
      option_assign f take adderr (hws (d_mid2 d) ++ print_value d v ++ hws (d_trail d) ++ tail_comment d ++ 10 :: rest) s
      = ((match v with [] => 3 | _ => 7 end), rest, s') /\
      pelems (pth s') = E ++ [n] /\ pcurr s' = pcurr s /\ valid s' = len v /\
      (v <> [] -> post_read s' (len v) = Some v).
  Proof.
    intros HP HV NE NK NS WV. unfold option_assign.
    rewrite (ncheck_name s _ _ _ _ _ take HP HV NE), NK. zb.
    rewrite HP, HV. destruct (path_add_nosep E J n F K NS) as (p1 & PA & PE & PB).
    rewrite PA. zb. rewrite (invalidate_buf p1 PB), PE.
    set (s4 := mkPst _ _ _ _ _). rewrite parse_data_ext.
    destruct (parse_data_value d v rest s4 (E ++ [n]) (pfirst p1) WV) as (s5 & E5 & Q1 & Q2 & Q3 & Q4 & Q5);
      [reflexivity|reflexivity|].
    rewrite E5. pose proof (len_nonneg v).
    exists s5. subst s4. cbn [pcurr] in Q3.
    destruct v as [|y v0].
    - change (len []) with 0. zb. repeat split; auto; try (intros X; now destruct X).
    - assert (LP : 0 < len (y :: v0)) by (rewrite len_cons; pose proof (len_nonneg v0); lia).
      zb. repeat split; auto.
  Qed.

  (* well-formed names of the styles without white space in names *)
  Record wfo (n : list Z) : Prop := mkWfo {
    wo_chars : Forall (fun c => onc c = true) n;
    wo_ne : n <> [];
    wo_check : ncheck_go n true take = 0;
    wo_len : len n <= IDENT_MAX }.

  Lemma onc_nosep n : Forall (fun c => onc c = true) n -> existsb (Z.eqb SEP) n = false.
  Proof.
    induction 1 as [|c n Hc _ IH]; [reflexivity|]. cbn [existsb]. rewrite IH, orb_false_r.
    apply onc_spec in Hc. unfold SEP. apply Z.eqb_neq. lia.
  Qed.

  (* option_loop from the second character of the name (or the assign character) on *)
  Lemma option_name_rest d n0 n' v rest s E F c1 :
    wfo (n0 :: n') -> wf_value v = true ->
    (* c1 is the current character: already stored behind n0 *)
    pth s = mkPath E [c1; n0] 2 F true true -> valid s = 1 ->
    forall tl0, tl0 = hws (d_mid2 d) ++ print_value d v ++ hws (d_trail d) ++ tail_comment d ++ 10 :: rest ->
    (n' = [] /\ c1 = 61 \/ exists n'', n' = c1 :: n'') ->
    forall l, (match n' with [] => l = tl0 | _ :: n'' => l = n'' ++ hws (d_mid1 d) ++ 61 :: tl0 end) ->
    exists s',
      option_loop f take c1 l s = ((match v with [] => 3 | _ => 7 end), rest, s') /\
      pelems (pth s') = E ++ [n0 :: n'] /\ pcurr s' = pcurr s /\ valid s' = len v /\
      (v <> [] -> post_read s' (len v) = Some v).
  Proof.
    intros [NC NE NK NLEN] WV HP HV tl0 ET CS l EL.
    pose proof (onc_nosep _ NC) as NS.
    destruct CS as [[-> ->]|[n'' ->]].
    - (* one character name, the assign character is current *)
      subst l. rewrite option_step_assign.
      destruct (option_assign_value MissingBuffer d [n0] v rest s E [61] F true) as (s' & E1 & Q); auto.
      subst tl0. exists s'. split; [exact E1|exact Q].
    - subst l. pose proof (Forall_inv NC) as H0. pose proof (Forall_inv_tail NC) as NC'. cbn beta in H0.
      rewrite !len_cons in NLEN. unfold IDENT_MAX in NLEN. pose proof (len_nonneg n'').
      assert (HP' : pth s = mkPath E (c1 :: [n0]) (len (c1 :: [n0])) F true true) by exact HP.
      destruct (hws (d_mid1 d)) as [|b0 bs] eqn:HB.
      + cbn [app].
        destruct (opt_scan n'' c1 s 61 tl0 E [n0] F NC') as (s2 & E2 & P2 & V2 & C2); [lia|exact HP'| |].
        { rewrite !len_cons, len_nil. unfold VALID_MOD. lia. }
        rewrite E2, option_step_assign.
        destruct (option_assign_value MissingBuffer d (n0 :: c1 :: n'') v rest s2 E [61] F true) as (s' & E1 & Q1 & Q2 & Q3); auto.
        * rewrite P2. cbn [rev app]. rewrite <- !app_assoc. reflexivity.
        * rewrite V2. unfold len. rewrite app_length, rev_length. cbn [length]. lia.
        * subst tl0. exists s'. split; [exact E1|]. split; [exact Q1|]. split; [congruence|exact Q3].
      + assert (FB : Forall (fun c => hspace c = true) (b0 :: bs)) by (rewrite <- HB; apply hws_hspaces).
        pose proof (Forall_inv FB) as Hb. cbn beta in Hb. apply hspace_spec in Hb as Hb'.
        cbn [app].
        destruct (opt_scan n'' c1 s b0 (bs ++ 61 :: tl0) E [n0] F NC') as (s2 & E2 & P2 & V2 & C2); [lia|exact HP'| |].
        { rewrite !len_cons, len_nil. unfold VALID_MOD. lia. }
        rewrite E2.
        destruct (opt_scan_blanks bs b0 s2 61 tl0 E (rev n'' ++ [c1; n0]) F FB) as (s3 & E3 & P3 & V3 & C3); [lia|exact P2|].
        rewrite E3, option_step_assign.
        destruct (option_assign_value MissingBuffer d (n0 :: c1 :: n'') v rest s3 E (61 :: rev bs ++ [b0]) F true) as (s' & E1 & Q1 & Q2 & Q3); auto.
        * rewrite P3. cbn [rev app]. rewrite <- !app_assoc. reflexivity.
        * rewrite V3, V2. unfold len. rewrite app_length, rev_length. cbn [length]. lia.
        * subst tl0. exists s'. split; [exact E1|]. split; [exact Q1|]. split; [congruence|exact Q3].
  Qed.

  (* mpt_parse_option entered with the first name character stored and valid *)
  Lemma option_core (a : allow) d n0 n' v rest s0 E F :
    take = aopt a -> wfo (n0 :: n') -> wf_value v = true ->
    pth s0 = mkPath E [n0] 1 F true true -> valid s0 = 1 ->
    exists s',
      parse_option f a (n' ++ hws (d_mid1 d) ++ 61 ::
                        hws (d_mid2 d) ++ print_value d v ++ hws (d_trail d) ++ tail_comment d ++ 10 :: rest) s0
      = ((match v with [] => 3 | _ => 7 end), rest, s') /\
      pelems (pth s') = E ++ [n0 :: n'] /\ pcurr s' = 11 /\ valid s' = len v /\
      (v <> [] -> post_read s' (len v) = Some v).
  Proof.
    intros ET WN WV HP HV.
    set (tl0 := hws (d_mid2 d) ++ print_value d v ++ hws (d_trail d) ++ tail_comment d ++ 10 :: rest).
    assert (OS : ostart f = 0) by (destruct DF as (A & _); exact A).
    unfold parse_option, nextvis. rewrite nextvis_go_ext.
    destruct n' as [|n1 n''].
    - cbn [app]. destruct (nv_ws fd _ (hws_spaces (d_mid1 d)) (61 :: tl0) s0) as (s1 & (S1 & S2 & S3) & E1).
      rewrite E1, nv_vis by (reflexivity || lia). zb. cbn [negb andb].
      rewrite <- ET.
      assert (P1 : pth (with_curr (addch (tick s1 61) 61) (Z.lor POption PName)) = mkPath E [61; n0] 2 F true true).
      { rewrite pth_with_curr, pth_addch, pth_tick, S1, HP. reflexivity. }
      assert (V1 : valid (with_curr (addch (tick s1 61) 61) (Z.lor POption PName)) = 1).
      { rewrite valid_with_curr, valid_addch, valid_tick, S2. exact HV. }
      destruct (option_name_rest d n0 [] v rest _ E F 61 WN WV P1 V1 tl0 eq_refl (or_introl (conj eq_refl eq_refl)) tl0 eq_refl)
        as (s' & E2 & Q1 & Q2 & Q3 & Q4).
      exists s'. rewrite pcurr_with_curr in Q2. auto.
    - cbn [app].
      pose proof (Forall_inv (Forall_inv_tail (wo_chars _ WN))) as H1. cbn beta in H1. apply onc_spec in H1 as H1'.
      rewrite nv_vis; [|lia|tauto|lia]. zb. cbn [negb andb].
      rewrite <- ET.
      assert (P1 : pth (with_curr (addch (tick s0 n1) n1) (Z.lor POption PName)) = mkPath E [n1; n0] 2 F true true).
      { rewrite pth_with_curr, pth_addch, pth_tick, HP.
        cbn [path_addchar pbuf rpost pkeep negb pelems plen pfirst]. now rewrite byte_of_small by lia. }
      assert (V1 : valid (with_curr (addch (tick s0 n1) n1) (Z.lor POption PName)) = 1).
      { now rewrite valid_with_curr, valid_addch, valid_tick. }
      destruct (option_name_rest d n0 (n1 :: n'') v rest _ E F n1 WN WV P1 V1 tl0 eq_refl
                  (or_intror (ex_intro _ n'' eq_refl)) (n'' ++ hws (d_mid1 d) ++ 61 :: tl0) eq_refl)
        as (s' & E2 & Q1 & Q2 & Q3 & Q4).
      exists s'. rewrite pcurr_with_curr in Q2. auto.
  Qed.

  (* the first name character, stored from the blank state, then valid *)
  Lemma first_char_state s E c :
    ready s E -> 0 < c < 256 ->
    pth (set_valid (addch s c)) = mkPath E [c] 1 (pfirst (pth s)) true true /\ valid (set_valid (addch s c)) = 1.
  Proof.
    intros RD B. pose proof (ready_addch s E c RD) as PA.
    destruct (set_valid_path (addch s c) E c [] 1 (pfirst (pth s)) false) as [P V]; [apply PA; lia|unfold VALID_MOD; lia|].
    auto.
  Qed.
End Ext.

(* ---------------------------------------------------------------- generic name bookkeeping *)
Lemma section_add_gen take s E J n F K cur rest :
  n <> [] -> ncheck_go n true take = 0 -> existsb (Z.eqb SEP) n = false ->
  pth s = mkPath E (J ++ rev n) (len (J ++ rev n)) F K true -> valid s = len n ->
  exists s', section_add take cur rest s = (PSection, rest, s') /\
             pelems (pth s') = E ++ [n] /\ pbuf (pth s') = true /\ pcurr s' = cur.
Proof.
  intros NE NK NS HP HV. unfold section_add.
  assert (P1 : pth (with_curr s cur) = mkPath E (J ++ rev n) (len (J ++ rev n)) F K true) by now rewrite pth_with_curr.
  assert (V1 : valid (with_curr s cur) = len n) by now rewrite valid_with_curr.
  rewrite (ncheck_name _ _ _ _ _ _ take P1 V1 NE), NK. zb.
  rewrite P1, V1. destruct (path_add_nosep E J n F K NS) as (p1 & PA & PE & PB). rewrite PA. zb.
  eexists. split; [reflexivity|]. autorewrite with pst. auto.
Qed.

Lemma name_end_spec d : exists w0, name_end d = [w0] /\ isspace w0 = true /\ 0 < w0 < 256.
Proof.
  unfold name_end. pose proof (ws_spaces (d_mid1 d)) as FW. destruct (ws (d_mid1 d)) as [|c r].
  - exists 10. repeat split; reflexivity || lia.
  - pose proof (Forall_inv FW) as Hc. cbn beta in Hc. exists c. split; [reflexivity|]. split; [exact Hc|].
    apply isspace_spec in Hc. lia.
Qed.

Lemma wf_name_wfo st take n : st = StEnc \/ st = StSep \/ st = StEncD -> wf_name st take n = true ->
  wfo take n /\ Forall (fun c => c <> 37 \/ st <> StEnc) n /\ Forall (fun c => (c <> 91 /\ c <> 93) \/ st = StEnc) n.
Proof.
  intros ST. unfold wf_name. destruct n as [|c0 n']; [discriminate|].
  rewrite !andb_true_iff, !negb_true_iff, Z.eqb_eq, Z.leb_le. intros ((((A & B) & C) & D) & E).
  assert (FA : Forall (fun c => name_char st c = true) (c0 :: n')) by (apply Forall_forall; now apply forallb_forall).
  split; [constructor; auto; try discriminate|].
  - eapply Forall_impl; [|exact FA]. intros c H. apply onc_spec. unfold name_char, byteb in H.
    destruct ST as [->|[->| ->]]; rewrite !andb_true_iff, !negb_true_iff, !Z.leb_le, !Z.eqb_neq in H;
      repeat split; try lia; tauto.
  - split; eapply Forall_impl; try exact FA; intros c H; unfold name_char in H;
      destruct ST as [->|[->| ->]]; rewrite !andb_true_iff, !negb_true_iff, !Z.eqb_neq in H;
      try (left; tauto); try (right; discriminate); try (right; reflexivity); try (left; lia).
Qed.

(* ---------------------------------------------------------------- enclosed style *)
Lemma enc_name_loop : forall w s d l E R F,
  Forall (fun c => onc c = true) w -> isspace d = true -> 0 < d < 256 -> R <> [] ->
  pth s = mkPath E R (len R) F true true -> valid s = len R -> len R + len w < VALID_MOD ->
  exists s', enc_loop fe (w ++ d :: l) s = (true, l, s') /\
             pth s' = mkPath E (d :: rev w ++ R) (len (d :: rev w ++ R)) F true true /\
             valid s' = len (rev w ++ R) /\ pcurr s' = pcurr s.
Proof.
  induction w as [|c w IH]; intros s d l E R F FA SD BD NR HP HV HL.
  - cbn [app enc_loop]. zb. rewrite SD. eexists. split; [reflexivity|]. cbn [rev app].
    split; [rewrite pth_addch, pth_tick, HP; now rewrite addchar_keep by lia|].
    split; now autorewrite with pst.
  - inversion FA as [|? ? Hc FA']; subst. apply onc_spec in Hc as Hc'. destruct Hc' as (B & SP & _ & N35 & _).
    cbn [app enc_loop]. zb. rewrite SP. unfold iscomment. cbn [fe com0 com1 com2 com3]. zb. cbn [negb orb andb].
    rewrite len_cons in HL. pose proof (len_nonneg w). pose proof (len_nonneg R).
    assert (PA : pth (addch (tick s c) c) = mkPath E (c :: R) (len (c :: R)) F true true).
    { rewrite pth_addch, pth_tick, HP. apply addchar_keep. lia. }
    destruct (set_valid_path _ _ _ _ _ _ _ PA) as [P1 V1]; [rewrite len_cons; lia|].
    destruct (IH (set_valid (addch (tick s c) c)) d l E (c :: R) F FA' SD BD) as (s' & E1 & P2 & V2 & C2);
      [discriminate|exact P1|exact V1|rewrite len_cons; lia|].
    exists s'. split; [exact E1|]. cbn [rev]. rewrite <- !app_assoc. cbn [app].
    split; [exact P2|]. split; [exact V2|]. rewrite C2. now autorewrite with pst.
Qed.

Section Enc.
  Variable a : allow.

  (* the section name behind the start character *)
  Lemma enc_section_name d n rest s E :
    wfo (asect a) n -> ready s E ->
    exists s', enc_section fe a (n ++ name_end d ++ rest) s = (PSection, rest, s') /\
               pelems (pth s') = E ++ [n] /\ pbuf (pth s') = true /\ pcurr s' = Z.lor PSection PName /\ valid s' = 0.
  Proof.
    intros [NC NE NK NLEN] RD. destruct n as [|n0 n']; [now destruct NE|].
    pose proof (Forall_inv NC) as H0. cbn beta in H0. apply onc_spec in H0 as H0'.
    pose proof (Forall_inv_tail NC) as NC'.
    destruct (name_end_spec d) as (w0 & -> & SW & BW).
    unfold enc_section, nextvis. rewrite (nextvis_go_ext fe dfmt_fe). cbn [app].
    rewrite nv_vis; [|lia|tauto|lia]. zb.
    set (s1 := with_curr (tick (with_curr s PSection) n0) (Z.lor PSection PName)).
    assert (RD1 : ready s1 E).
    { destruct RD as (R1 & R2 & R3 & R4 & R5). subst s1. unfold ready. autorewrite with pst. auto. }
    destruct (first_char_state s1 E n0 RD1) as [P2 V2]; [lia|].
    rewrite len_cons in NLEN. unfold IDENT_MAX in NLEN. pose proof (len_nonneg n').
    destruct (enc_name_loop n' (set_valid (addch s1 n0)) w0 rest E [n0] (pfirst (pth s1)) NC' SW BW) as (s3 & E3 & P3 & V3 & C3);
      [discriminate|exact P2|exact V2|rewrite len_cons, len_nil; unfold VALID_MOD; lia|].
    rewrite E3.
    assert (P3' : pth s3 = mkPath E ([w0] ++ rev (n0 :: n')) (len ([w0] ++ rev (n0 :: n'))) (pfirst (pth s1)) true true) by exact P3.
    assert (V3' : valid s3 = len (n0 :: n')).
    { rewrite V3. unfold len. rewrite app_length, rev_length. cbn [length]. lia. }
    rewrite (ncheck_name s3 _ _ _ _ _ (asect a) P3' V3'), NK by discriminate. zb.
    rewrite P3', V3'. destruct (path_add_nosep E [w0] (n0 :: n') (pfirst (pth s1)) true (onc_nosep _ NC)) as (p1 & PA & PE & PB).
    rewrite PA. zb. eexists. split; [reflexivity|]. cbn [pth pcurr valid].
    rewrite C3. subst s1. autorewrite with pst. auto.
  Qed.

  Lemma enc_option d n v rest s E prev :
    prev <> PSectEnd -> wfo (aopt a) n -> Forall (fun c => c <> 37) n -> wf_value v = true -> ready s E ->
    exists s',
      format_enc fe a prev (print_opt d n v ++ rest) s = ((match v with [] => 3 | _ => 7 end), rest, s') /\
      pelems (pth s') = E ++ [n] /\ pcurr s' = 11 /\ valid s' = len v /\
      (v <> [] -> post_read s' (len v) = Some v).
  Proof.
    intros PV WN N37 WV RD. unfold print_opt. rewrite <- !app_assoc.
    destruct n as [|n0 n']; [now destruct (wo_ne _ _ WN)|].
    pose proof (Forall_inv (wo_chars _ _ WN)) as H0. cbn beta in H0. apply onc_spec in H0 as H0'.
    pose proof (Forall_inv N37) as H37. cbn beta in H37.
    unfold format_enc. change (sstart fe =? send fe) with true. cbv iota.
    apply Z.eqb_neq in PV. rewrite PV.
    unfold nextvis. rewrite (nextvis_go_ext fe dfmt_fe). cbn [app].
    destruct (nv_lead d (n0 :: n' ++ hws (d_mid1 d) ++ 61 :: hws (d_mid2 d) ++ print_value d v ++
                         hws (d_trail d) ++ tail_comment d ++ 10 :: rest) s) as (s1 & (S1 & S2 & S3) & E1).
    rewrite E1. rewrite nv_vis; [|lia|tauto|lia]. zb.
    change (sstart fe) with 37. zb. rewrite andb_false_r. cbn [negb].
    unfold enc_other. change (negb (ostart fe =? 0)) with false. cbv iota.
    assert (RD1 : ready (tick s1 n0) E).
    { destruct RD as (R1 & R2 & R3 & R4 & R5). unfold ready. autorewrite with pst. rewrite S1, S2. auto. }
    destruct (first_char_state (tick s1 n0) E n0 RD1) as [P2 V2]; [lia|].
    cbn [app].
    destruct (option_core fe dfmt_fe (aopt a) a d n0 n' v rest _ E _ eq_refl WN WV P2 V2) as (s' & E2 & Q).
    exists s'. split; [exact E2|exact Q].
  Qed.

  (* a section start character while no section is open: the section starts *)
  Lemma enc_open d n rest s prev :
    prev <> PSectEnd -> wfo (asect a) n -> ready s [] ->
    exists s', format_enc fe a prev (lead d ++ [37] ++ n ++ name_end d ++ rest) s = (PSection, rest, s') /\
               pelems (pth s') = [n] /\ pbuf (pth s') = true /\ pcurr s' = Z.lor PSection PName.
  Proof.
    intros PV WN RD. unfold format_enc. change (sstart fe =? send fe) with true. cbv iota.
    apply Z.eqb_neq in PV. rewrite PV. unfold nextvis. rewrite (nextvis_go_ext fe dfmt_fe).
    destruct (nv_lead d ([37] ++ n ++ name_end d ++ rest) s) as (s1 & (S1 & S2 & S3) & E1).
    rewrite E1. cbn [app]. rewrite nv_vis by (reflexivity || lia). zb.
    assert (PE : pelems (pth (tick s1 37)) = []).
    { autorewrite with pst. rewrite S1. destruct RD as (R1 & _). exact R1. }
    rewrite PE. cbn [andb]. change (sstart fe) with 37. zb. cbn [negb].
    assert (RD1 : ready (tick s1 37) []).
    { destruct RD as (R1 & R2 & R3 & R4 & R5). unfold ready. autorewrite with pst. rewrite S1, S2. auto. }
    destruct (enc_section_name d n rest (tick s1 37) [] WN RD1) as (s' & E2 & Q1 & Q2 & Q3 & Q4).
    exists s'. auto.
  Qed.

  (* the same character while a section is open: that section ends, the name is still to be read *)
  Lemma enc_close d rest s E x prev :
    prev <> PSectEnd -> ready s (x :: E) ->
    exists s', format_enc fe a prev (lead d ++ [37] ++ rest) s = (PSectEnd, rest, s') /\
               pelems (pth s') = x :: E /\ pcurr s' = PSectEnd.
  Proof.
    intros PV RD. unfold format_enc. change (sstart fe =? send fe) with true. cbv iota.
    apply Z.eqb_neq in PV. rewrite PV. unfold nextvis. rewrite (nextvis_go_ext fe dfmt_fe).
    destruct (nv_lead d ([37] ++ rest) s) as (s1 & (S1 & S2 & S3) & E1).
    rewrite E1. cbn [app]. rewrite nv_vis by (reflexivity || lia). zb.
    assert (PE : pelems (pth (tick s1 37)) = x :: E).
    { autorewrite with pst. rewrite S1. destruct RD as (R1 & _). exact R1. }
    rewrite PE. change (sstart fe) with 37. zb. cbn [andb].
    eexists. split; [reflexivity|]. autorewrite with pst. rewrite S1. destruct RD as (R1 & _). auto.
  Qed.

  Lemma enc_reopen d n rest s :
    wfo (asect a) n -> ready s [] ->
    exists s', format_enc fe a PSectEnd (n ++ name_end d ++ rest) s = (PSection, rest, s') /\
               pelems (pth s') = [n] /\ pbuf (pth s') = true /\ pcurr s' = Z.lor PSection PName.
  Proof.
    intros WN RD. unfold format_enc. change (sstart fe =? send fe) with true. cbv iota.
    change (PSectEnd =? PSectEnd) with true. cbv iota.
    destruct (enc_section_name d n rest s [] WN RD) as (s' & E2 & Q1 & Q2 & Q3 & Q4). exists s'. auto.
  Qed.

  Lemma enc_eof final s prev :
    prev <> PSectEnd ->
    exists s', format_enc fe a prev (lead final) s = (0, [], s').
  Proof.
    intros PV. unfold format_enc. change (sstart fe =? send fe) with true. cbv iota.
    apply Z.eqb_neq in PV. rewrite PV. unfold nextvis. rewrite (nextvis_go_ext fe dfmt_fe).
    destruct (nv_lead final [] s) as (s1 & _ & E1). rewrite app_nil_r in E1. rewrite E1.
    cbn [nextvis_go]. zb. eexists. reflexivity.
  Qed.
End Enc.

(* ---------------------------------------------------------------- separated style *)
Section Sep.
  Variable a : allow.

  (* name characters of the separated style inside the brackets *)
  Definition snc (c : Z) : bool := onc c && negb (c =? 93).

  Lemma sep_step_name c a0 l s :
    snc c = true -> 0 < a0 ->
    sep_loop fs a c (a0 :: l) s = sep_loop fs a a0 l (addch (tick (set_valid s) a0) a0).
  Proof.
    intros Hc P. unfold snc in Hc. apply andb_true_iff in Hc. destruct Hc as [H1 H2].
    apply onc_spec in H1. destruct H1 as (B & SP & _ & N35 & _). apply negb_true_iff, Z.eqb_neq in H2.
    rewrite sep_loop_eq. unfold sep_body. change (send fs) with 93.
    unfold iscomment. cbn [fs com0 com1 com2 com3]. zb. cbn [negb orb andb]. rewrite SP. cbn [negb]. zb. reflexivity.
  Qed.
  Lemma sep_step_blank c a0 l s :
    hspace c = true -> 0 < a0 ->
    sep_loop fs a c (a0 :: l) s = sep_loop fs a a0 l (addch (tick s a0) a0).
  Proof.
    intros Hc P. apply hspace_spec in Hc as Hc'. assert (SP : isspace c = true) by (apply isspace_spec; lia).
    rewrite sep_loop_eq. unfold sep_body. change (send fs) with 93.
    unfold iscomment. cbn [fs com0 com1 com2 com3]. zb. cbn [negb orb andb]. rewrite SP. cbn [negb]. zb. reflexivity.
  Qed.
  Lemma sep_step_end l s :
    sep_loop fs a 93 l s = section_add (asect a) (Z.lor PSection PName) l s.
  Proof. rewrite sep_loop_eq. reflexivity. Qed.

  (* blanks in front of the name overwrite each other *)
  Lemma sep_lead : forall w c s d l E F,
    Forall (fun x => hspace x = true) (c :: w) -> 0 < d < 256 ->
    pth s = mkPath E [c] 1 F false true ->
    exists s', sep_loop fs a c (w ++ d :: l) s = sep_loop fs a d l s' /\
               pth s' = mkPath E [d] 1 F false true /\ valid s' = valid s /\ pcurr s' = pcurr s.
  Proof.
    induction w as [|x w IH]; intros c s d l E F FA PD HP.
    - pose proof (Forall_inv FA) as Hc. cbn beta in Hc. cbn [app]. rewrite sep_step_blank by (assumption || lia).
      eexists. split; [reflexivity|].
      split; [rewrite pth_addch, pth_tick, HP; cbn [path_addchar pbuf rpost pkeep negb pelems plen pfirst];
              now rewrite byte_of_small by lia|].
      split; now autorewrite with pst.
    - pose proof (Forall_inv FA) as Hc. pose proof (Forall_inv_tail FA) as FA'. cbn beta in Hc.
      pose proof (Forall_inv FA') as Hx. cbn beta in Hx. apply hspace_spec in Hx as Hx'.
      cbn [app]. rewrite sep_step_blank by (assumption || lia).
      destruct (IH x (addch (tick s x) x) d l E F FA' PD) as (s' & E1 & P2 & V2 & C2).
      + rewrite pth_addch, pth_tick, HP. cbn [path_addchar pbuf rpost pkeep negb pelems plen pfirst].
        now rewrite byte_of_small by lia.
      + exists s'. autorewrite with pst in V2, C2. auto.
  Qed.

  Lemma sep_scan : forall w c s d l E R F K,
    Forall (fun x => snc x = true) (c :: w) -> 0 < d < 256 ->
    pth s = mkPath E (c :: R) (len (c :: R)) F K true -> (K = true \/ R = []) -> len (c :: R) + len w < VALID_MOD ->
    exists s', sep_loop fs a c (w ++ d :: l) s = sep_loop fs a d l s' /\
               pth s' = mkPath E (d :: rev w ++ c :: R) (len (d :: rev w ++ c :: R)) F true true /\
               valid s' = len (rev w ++ c :: R) /\ pcurr s' = pcurr s.
  Proof.
    induction w as [|x w IH]; intros c s d l E R F K FA PD HP HK HL.
    - pose proof (Forall_inv FA) as Hc. cbn beta in Hc. cbn [app]. rewrite sep_step_name by (assumption || lia).
      rewrite len_nil in HL. pose proof (len_nonneg R). rewrite len_cons in HL.
      destruct (set_valid_path s E c R _ F K HP) as [P1 V1]; [rewrite len_cons; lia|].
      eexists. split; [reflexivity|]. cbn [rev app].
      split; [rewrite pth_addch, pth_tick, P1; now rewrite addchar_keep by lia|].
      split; [now rewrite valid_addch, valid_tick|now autorewrite with pst].
    - pose proof (Forall_inv FA) as Hc. pose proof (Forall_inv_tail FA) as FA'. cbn beta in Hc.
      pose proof (Forall_inv FA') as Hx. cbn beta in Hx.
      assert (Bx : 0 < x < 256).
      { unfold snc in Hx. apply andb_true_iff in Hx. destruct Hx as [H1 _]. apply onc_spec in H1. tauto. }
      cbn [app]. rewrite sep_step_name by (assumption || lia).
      rewrite !len_cons in HL. pose proof (len_nonneg R). pose proof (len_nonneg w).
      destruct (set_valid_path s E c R _ F K HP) as [P1 V1]; [rewrite len_cons; lia|].
      destruct (IH x (addch (tick (set_valid s) x) x) d l E (c :: R) F true FA' PD) as (s' & E1 & P2 & V2 & C2).
      + rewrite pth_addch, pth_tick, P1. apply addchar_keep. lia.
      + now left.
      + rewrite !len_cons. lia.
      + exists s'. split; [exact E1|]. cbn [rev]. rewrite <- !app_assoc. cbn [app].
        split; [exact P2|]. split; [exact V2|]. rewrite C2. now autorewrite with pst.
  Qed.

  Lemma sep_scan_blanks : forall w c s d l E R F,
    Forall (fun x => hspace x = true) (c :: w) -> 0 < d < 256 ->
    pth s = mkPath E (c :: R) (len (c :: R)) F true true ->
    exists s', sep_loop fs a c (w ++ d :: l) s = sep_loop fs a d l s' /\
               pth s' = mkPath E (d :: rev w ++ c :: R) (len (d :: rev w ++ c :: R)) F true true /\
               valid s' = valid s /\ pcurr s' = pcurr s.
  Proof.
    induction w as [|x w IH]; intros c s d l E R F FA PD HP.
    - pose proof (Forall_inv FA) as Hc. cbn beta in Hc. cbn [app]. rewrite sep_step_blank by (assumption || lia).
      eexists. split; [reflexivity|]. cbn [rev app].
      split; [rewrite pth_addch, pth_tick, HP; now rewrite addchar_keep by lia|].
      split; now autorewrite with pst.
    - pose proof (Forall_inv FA) as Hc. pose proof (Forall_inv_tail FA) as FA'. cbn beta in Hc.
      pose proof (Forall_inv FA') as Hx. cbn beta in Hx. apply hspace_spec in Hx as Hx'.
      cbn [app]. rewrite sep_step_blank by (assumption || lia).
      destruct (IH x (addch (tick s x) x) d l E (c :: R) F FA' PD) as (s' & E1 & P2 & V2 & C2).
      + rewrite pth_addch, pth_tick, HP. apply addchar_keep. lia.
      + exists s'. split; [exact E1|]. cbn [rev]. rewrite <- !app_assoc. cbn [app].
        split; [exact P2|]. autorewrite with pst in V2, C2. auto.
  Qed.

  Lemma getchar_pos c l s : 0 < c -> getchar (c :: l) s = (c, l, addch (tick s c) c).
  Proof. intros P. cbn [getchar]. zb. reflexivity. Qed.

  (* from the start bracket to the first character of the name *)
  Lemma sep_to_name blanks n0 tl0 s E :
    Forall (fun x => hspace x = true) blanks -> 0 < n0 < 256 -> ready s E ->
    exists s1, sep_first fs a (blanks ++ n0 :: tl0) s = sep_loop fs a n0 tl0 s1 /\
               pth s1 = mkPath E [n0] 1 (pfirst (pth s)) false true /\ valid s1 = 0 /\ pcurr s1 = pcurr s.
  Proof.
    intros FB B0 RD. unfold sep_first. change (negb (send fs =? sstart fs)) with true. cbv iota.
    destruct blanks as [|b0 bs].
    - cbn [app]. rewrite getchar_pos by lia. zb.
      eexists. split; [reflexivity|].
      assert (RT : ready (tick s n0) E) by (destruct RD as (R1 & R2 & R3 & R4 & R5); unfold ready; now autorewrite with pst).
      split; [rewrite (ready_addch _ _ n0 RT) by lia; now autorewrite with pst|].
      destruct RD as (_ & _ & _ & _ & V). split; now autorewrite with pst.
    - pose proof (Forall_inv FB) as Hb. cbn beta in Hb. apply hspace_spec in Hb as Hb'.
      cbn [app]. rewrite getchar_pos by lia. zb.
      assert (RT : ready (tick s b0) E) by (destruct RD as (R1 & R2 & R3 & R4 & R5); unfold ready; now autorewrite with pst).
      destruct (sep_lead bs b0 (addch (tick s b0) b0) n0 tl0 E (pfirst (pth s)) FB B0) as (s1 & E1 & P1 & V1 & C1).
      + rewrite (ready_addch _ _ b0 RT) by lia. now autorewrite with pst.
      + exists s1. split; [exact E1|]. split; [exact P1|].
        destruct RD as (_ & _ & _ & _ & V). autorewrite with pst in V1, C1. split; congruence.
  Qed.

  Record wfs (n : list Z) : Prop := mkWfs {
    ws_chars : Forall (fun c => snc c = true) n;
    ws_ne : n <> [];
    ws_check : ncheck_go n true (asect a) = 0;
    ws_len : len n <= IDENT_MAX }.

  Lemma snc_nosep n : Forall (fun c => snc c = true) n -> existsb (Z.eqb SEP) n = false.
  Proof.
    intros H. apply onc_nosep. eapply Forall_impl; [|exact H]. intros c X. unfold snc in X.
    now apply andb_true_iff in X.
  Qed.

  (* the section name between the brackets *)
  Lemma sep_section_name d n rest s E :
    wfs n -> ready s E ->
    exists s', sep_first fs a (hws (d_mid1 d) ++ n ++ hws (d_mid2 d) ++ 93 :: rest) s = (PSection, rest, s') /\
               pelems (pth s') = E ++ [n] /\ pbuf (pth s') = true /\ pcurr s' = Z.lor PSection PName.
  Proof.
    intros [NC NE NK NLEN] RD. destruct n as [|n0 n']; [now destruct NE|].
    pose proof (Forall_inv NC) as H0. cbn beta in H0.
    assert (B0 : 0 < n0 < 256).
    { unfold snc in H0. apply andb_true_iff in H0. destruct H0 as [H1 _]. apply onc_spec in H1. tauto. }
    cbn [app].
    destruct (sep_to_name (hws (d_mid1 d)) n0 (n' ++ hws (d_mid2 d) ++ 93 :: rest) s E (hws_hspaces _) B0 RD)
      as (s1 & E1 & P1 & V1 & C1).
    rewrite E1. rewrite len_cons in NLEN. unfold IDENT_MAX in NLEN. pose proof (len_nonneg n').
    assert (P1' : pth s1 = mkPath E (n0 :: []) (len (n0 :: [])) (pfirst (pth s)) false true) by exact P1.
    pose proof (snc_nosep _ NC) as NS.
    assert (LN : len (rev n' ++ [n0]) = len (n0 :: n')).
    { unfold len. rewrite app_length, rev_length. cbn [length]. lia. }
    destruct (hws (d_mid2 d)) as [|b0 bs] eqn:HB.
    - cbn [app].
      destruct (sep_scan n' n0 s1 93 rest E [] (pfirst (pth s)) false NC) as (s2 & E2 & P2 & V2 & C2);
        [lia|exact P1'|now right|rewrite len_cons, len_nil; unfold VALID_MOD; lia|].
      rewrite E2, sep_step_end.
      assert (NE0 : n0 :: n' <> []) by discriminate.
      assert (V2' : valid s2 = len (n0 :: n')) by (rewrite V2; exact LN).
      destruct (section_add_gen (asect a) s2 E [93] (n0 :: n') (pfirst (pth s)) true (Z.lor PSection PName) rest NE0 NK NS P2 V2')
        as (s' & E3 & Q).
      exists s'. auto.
    - assert (FB : Forall (fun c => hspace c = true) (b0 :: bs)) by (rewrite <- HB; apply hws_hspaces).
      pose proof (Forall_inv FB) as Hb. cbn beta in Hb. apply hspace_spec in Hb as Hb'.
      cbn [app].
      destruct (sep_scan n' n0 s1 b0 (bs ++ 93 :: rest) E [] (pfirst (pth s)) false NC) as (s2 & E2 & P2 & V2 & C2);
        [lia|exact P1'|now right|rewrite len_cons, len_nil; unfold VALID_MOD; lia|].
      rewrite E2.
      destruct (sep_scan_blanks bs b0 s2 93 rest E (rev n' ++ [n0]) (pfirst (pth s)) FB) as (s3 & E3 & P3 & V3 & C3); [lia|exact P2|].
      rewrite E3, sep_step_end.
      assert (NE0 : n0 :: n' <> []) by discriminate.
      assert (V3' : valid s3 = len (n0 :: n')) by (rewrite V3, V2; exact LN).
      assert (P3' : pth s3 = mkPath E ((93 :: rev bs ++ [b0]) ++ rev (n0 :: n')) (len ((93 :: rev bs ++ [b0]) ++ rev (n0 :: n')))
                                 (pfirst (pth s)) true true).
      { rewrite P3. cbn [rev app]. rewrite <- !app_assoc. reflexivity. }
      destruct (section_add_gen (asect a) s3 E (93 :: rev bs ++ [b0]) (n0 :: n') (pfirst (pth s)) true (Z.lor PSection PName) rest
                  NE0 NK NS P3' V3') as (s' & E4 & Q).
      exists s'. auto.
  Qed.

  (* ---- the elements through mpt_parse_format_sep ---- *)
  Lemma land15_ok prev : prev = 1 \/ prev = 9 \/ prev = 11 -> (Z.land prev 15 =? PSectEnd) = false.
  Proof. intros [->|[->| ->]]; reflexivity. Qed.

  Lemma sep_option d n v rest s E prev :
    prev = 1 \/ prev = 9 \/ prev = 11 -> wfo (aopt a) n -> Forall (fun c => c <> 91) n -> wf_value v = true -> ready s E ->
    exists s',
      format_sep fs a prev (print_opt d n v ++ rest) s = ((match v with [] => 3 | _ => 7 end), rest, s') /\
      pelems (pth s') = E ++ [n] /\ pcurr s' = 11 /\ valid s' = len v /\
      (v <> [] -> post_read s' (len v) = Some v).
  Proof.
    intros PV WN N91 WV RD. unfold print_opt. rewrite <- !app_assoc.
    destruct n as [|n0 n']; [now destruct (wo_ne _ _ WN)|].
    pose proof (Forall_inv (wo_chars _ _ WN)) as H0. cbn beta in H0. apply onc_spec in H0 as H0'.
    pose proof (Forall_inv N91) as H91. cbn beta in H91.
    unfold format_sep. rewrite (land15_ok prev PV).
    unfold nextvis. rewrite (nextvis_go_ext fs dfmt_fs). cbn [app].
    destruct (nv_lead d (n0 :: n' ++ hws (d_mid1 d) ++ 61 :: hws (d_mid2 d) ++ print_value d v ++
                         hws (d_trail d) ++ tail_comment d ++ 10 :: rest) s) as (s1 & (S1 & S2 & S3) & E1).
    rewrite E1. rewrite nv_vis; [|lia|tauto|lia]. zb.
    change (sstart fs) with 91. change (ostart fs) with 0. zb. cbn [negb].
    assert (RD1 : ready (with_curr (tick s1 n0) PName) E).
    { destruct RD as (R1 & R2 & R3 & R4 & R5). unfold ready. autorewrite with pst. rewrite S1, S2. auto. }
    destruct (first_char_state _ E n0 RD1) as [P2 V2]; [lia|].
    destruct (option_core fs dfmt_fs (aopt a) a d n0 n' v rest _ E _ eq_refl WN WV P2 V2) as (s' & E2 & Q).
    exists s'. split; [exact E2|exact Q].
  Qed.

  Lemma sep_open d n rest s prev :
    prev = 1 \/ prev = 9 \/ prev = 11 -> wfs n -> ready s [] ->
    exists s', format_sep fs a prev (lead d ++ [91] ++ hws (d_mid1 d) ++ n ++ hws (d_mid2 d) ++ [93] ++ rest) s
               = (PSection, rest, s') /\
               pelems (pth s') = [n] /\ pbuf (pth s') = true /\ pcurr s' = Z.lor PSection PName.
  Proof.
    intros PV WN RD. unfold format_sep. rewrite (land15_ok prev PV).
    unfold nextvis. rewrite (nextvis_go_ext fs dfmt_fs).
    destruct (nv_lead d ([91] ++ hws (d_mid1 d) ++ n ++ hws (d_mid2 d) ++ [93] ++ rest) s) as (s1 & (S1 & S2 & S3) & E1).
    rewrite E1. cbn [app]. rewrite nv_vis by (reflexivity || lia). zb.
    change (sstart fs) with 91. zb. cbn [negb].
    assert (PE : pelems (pth (tick s1 91)) = []).
    { autorewrite with pst. rewrite S1. destruct RD as (R1 & _). exact R1. }
    rewrite PE.
    assert (RD1 : ready (with_curr (tick s1 91) PSection) []).
    { destruct RD as (R1 & R2 & R3 & R4 & R5). unfold ready. autorewrite with pst. rewrite S1, S2. auto. }
    destruct (sep_section_name d n rest _ [] WN RD1) as (s' & E2 & Q). exists s'. auto.
  Qed.

  Lemma sep_close d rest s E x prev :
    prev = 1 \/ prev = 9 \/ prev = 11 -> ready s (x :: E) ->
    exists s', format_sep fs a prev (lead d ++ [91] ++ rest) s = (PSectEnd, rest, s') /\
               pelems (pth s') = x :: E /\ pcurr s' = PSectEnd.
  Proof.
    intros PV RD. unfold format_sep. rewrite (land15_ok prev PV).
    unfold nextvis. rewrite (nextvis_go_ext fs dfmt_fs).
    destruct (nv_lead d ([91] ++ rest) s) as (s1 & (S1 & S2 & S3) & E1).
    rewrite E1. cbn [app]. rewrite nv_vis by (reflexivity || lia). zb.
    change (sstart fs) with 91. zb. cbn [negb].
    assert (PE : pelems (pth (tick s1 91)) = x :: E).
    { autorewrite with pst. rewrite S1. destruct RD as (R1 & _). exact R1. }
    rewrite PE. eexists. split; [reflexivity|]. autorewrite with pst. rewrite S1. destruct RD as (R1 & _). auto.
  Qed.

  Lemma sep_reopen d n rest s :
    wfs n -> ready s [] ->
    exists s', format_sep fs a PSectEnd (hws (d_mid1 d) ++ n ++ hws (d_mid2 d) ++ [93] ++ rest) s = (PSection, rest, s') /\
               pelems (pth s') = [n] /\ pbuf (pth s') = true /\ pcurr s' = Z.lor PSection PName.
  Proof.
    intros WN RD. unfold format_sep. change (Z.land PSectEnd 15 =? PSectEnd) with true. cbv iota.
    assert (RD1 : ready (with_curr s PSection) []).
    { destruct RD as (R1 & R2 & R3 & R4 & R5). unfold ready. now autorewrite with pst. }
    destruct (sep_section_name d n rest _ [] WN RD1) as (s' & E2 & Q). exists s'. auto.
  Qed.

  Lemma sep_eof final s prev :
    prev = 1 \/ prev = 9 \/ prev = 11 ->
    exists s', format_sep fs a prev (lead final) s = (0, [], s').
  Proof.
    intros PV. unfold format_sep. rewrite (land15_ok prev PV).
    unfold nextvis. rewrite (nextvis_go_ext fs dfmt_fs).
    destruct (nv_lead final [] s) as (s1 & _ & E1). rewrite app_nil_r in E1. rewrite E1.
    cbn [nextvis_go]. zb. eexists. reflexivity.
  Qed.
End Sep.
