(* C08/RoundFlat.v — C09, enclosed ("%x% = #") and separated ("[ ] = #") style:
   element calls on printed text.  Values are read by the same mpt_parse_data as in
   the prefix style (the formats agree on escape, comment and end characters); option
   names go through mpt_parse_option, section names through the two name loops. *)
From Coq Require Import List ZArith Lia Bool.
From MptV Require Import C08.ParseModel C08.ParseBase C08.ParseProofs C08.PrintModel C08.RoundLex C08.RoundPre.
Import ListNotations.
Local Open Scope Z_scope.

Definition fe : format := mkFmt 37 37 0 61 0 34 39 0 35 0 0 0.
Definition fs : format := mkFmt 91 93 0 61 0 34 39 0 35 0 0 0.
Lemma fe_is : fst (parse_format (style_fmt StEnc)) = fe. Proof. reflexivity. Qed.
Lemma fs_is : fst (parse_format (style_fmt StSep)) = fs. Proof. reflexivity. Qed.

(* formats that agree with the default on what mpt_parse_data / nextvis look at *)
Definition dfmt (f : format) : Prop :=
  ostart f = 0 /\ assign f = 61 /\ oend f = 0 /\ esc0 f = 34 /\ esc1 f = 39 /\ esc2 f = 0 /\
  com0 f = 35 /\ com1 f = 0 /\ com2 f = 0 /\ com3 f = 0.
Lemma dfmt_fe : dfmt fe. Proof. unfold dfmt, fe. cbn. repeat split. Qed.
Lemma dfmt_fs : dfmt fs. Proof. unfold dfmt, fs. cbn. repeat split. Qed.

Section Ext.
  Variable f : format.
  Hypothesis DF : dfmt f.

  Lemma iscomment_ext c : iscomment f c = iscomment fd c.
  Proof. destruct DF as (_ & _ & _ & _ & _ & _ & A & B & C & D). unfold iscomment. now rewrite A, B, C, D. Qed.
  Lemma isescape_ext c : isescape f c = isescape fd c.
  Proof. destruct DF as (_ & _ & _ & A & B & C & _). unfold isescape. now rewrite A, B, C. Qed.
  Lemma oend_ext : oend f = oend fd. Proof. destruct DF as (_ & _ & A & _). exact A. Qed.

  Lemma nextvis_go_ext l : forall b s, nextvis_go f b l s = nextvis_go fd b l s.
  Proof.
    induction l as [|c l IH]; intros b s; [reflexivity|]. cbn [nextvis_go]. rewrite iscomment_ext, !IH. reflexivity.
  Qed.

  Lemma data_body_ext c s m la : data_body f c s m la = data_body fd c s m la.
  Proof. unfold data_body. now rewrite isescape_ext, iscomment_ext, oend_ext. Qed.

  Lemma data_loop_ext l : forall s m la, data_loop f l s m la = data_loop fd l s m la.
  Proof.
    induction l as [|c l IH]; intros s m la; [reflexivity|]. cbn [data_loop]. rewrite data_body_ext.
    destruct (c <? 0); [reflexivity|]. destruct (data_body fd c _ m la); [apply IH|reflexivity|reflexivity].
  Qed.

  Lemma parse_data_ext l s : parse_data f l s = parse_data fd l s.
  Proof. unfold parse_data. now rewrite data_loop_ext, oend_ext. Qed.

  (* ---------------------------------------------------------------- option names *)
  (* characters of a name without white space *)
  Definition onc (c : Z) : bool :=
    (0 <? c) && (c <? 256) && negb (isspace c) && negb (c =? 61) && negb (c =? 35) && negb (c =? 46).
  Lemma onc_spec c : onc c = true <-> (0 < c < 256 /\ isspace c = false /\ c <> 61 /\ c <> 35 /\ c <> 46).
  Proof. unfold onc. rewrite !andb_true_iff, !negb_true_iff, !Z.ltb_lt, !Z.eqb_neq. tauto. Qed.

  Variable take : Z.

  Lemma option_step_name c a0 l s :
    onc c = true -> 0 < a0 ->
    option_loop f take c (a0 :: l) s = option_loop f take a0 l (addch (tick (set_valid s) a0) a0).
  Proof.
    intros Hc P. apply onc_spec in Hc. destruct Hc as (B & SP & N1 & N2 & _).
    rewrite option_loop_eq. unfold option_body. rewrite SP.
    destruct DF as (_ & A & O & _). rewrite A, O, iscomment_ext, iscomment_fd. zb. reflexivity.
  Qed.
  Lemma option_step_blank c a0 l s :
    hspace c = true -> 0 < a0 ->
    option_loop f take c (a0 :: l) s = option_loop f take a0 l (addch (tick s a0) a0).
  Proof.
    intros Hc P. apply hspace_spec in Hc as Hc'. assert (SP : isspace c = true) by (apply isspace_spec; lia).
    rewrite option_loop_eq. unfold option_body. rewrite SP.
    destruct DF as (_ & A & O & _). rewrite A. zb. reflexivity.
  Qed.
  Lemma option_step_assign l s :
    option_loop f take 61 l s = option_assign f take MissingBuffer l s.
  Proof.
    rewrite option_loop_eq. unfold option_body. change (isspace 61) with false.
    destruct DF as (_ & A & _). rewrite A. reflexivity.
  Qed.

  (* name characters: appended, each one moves the valid length *)
  Lemma opt_scan : forall w c s d l E R F,
    Forall (fun x => onc x = true) (c :: w) -> 0 < d < 256 ->
    pth s = mkPath E (c :: R) (len (c :: R)) F true true -> len (c :: R) + len w < VALID_MOD ->
    exists s', option_loop f take c (w ++ d :: l) s = option_loop f take d l s' /\
               pth s' = mkPath E (d :: rev w ++ c :: R) (len (d :: rev w ++ c :: R)) F true true /\
               valid s' = len (rev w ++ c :: R) /\ pcurr s' = pcurr s.
  Proof.
    induction w as [|x w IH]; intros c s d l E R F FA PD HP HL.
    - inversion FA as [|? ? Hc _]; subst. cbn [app]. rewrite option_step_name by (assumption || lia).
      rewrite len_nil in HL. pose proof (len_nonneg R). rewrite len_cons in HL.
      destruct (set_valid_path s E c R _ F true HP) as [P1 V1]; [rewrite len_cons; lia|].
      eexists. split; [reflexivity|]. cbn [rev app].
      split; [rewrite pth_addch, pth_tick, P1; now rewrite addchar_keep by lia|].
      split; [now rewrite valid_addch, valid_tick|now autorewrite with pst].
    - inversion FA as [|? ? Hc FA']; subst. inversion FA' as [|? ? Hx _]; subst. apply onc_spec in Hx as Hx'.
      cbn [app]. rewrite option_step_name by (assumption || lia).
      rewrite !len_cons in HL. pose proof (len_nonneg R). pose proof (len_nonneg w).
      destruct (set_valid_path s E c R _ F true HP) as [P1 V1]; [rewrite len_cons; lia|].
      destruct (IH x (addch (tick (set_valid s) x) x) d l E (c :: R) F FA' PD) as (s' & E1 & P2 & V2 & C2).
      + rewrite pth_addch, pth_tick, P1. apply addchar_keep. lia.
      + rewrite !len_cons. lia.
      + exists s'. split; [exact E1|]. cbn [rev]. rewrite <- !app_assoc. cbn [app].
        split; [exact P2|]. split; [exact V2|]. rewrite C2. now autorewrite with pst.
  Qed.

  Lemma opt_scan_blanks : forall w c s d l E R F,
    Forall (fun x => hspace x = true) (c :: w) -> 0 < d < 256 ->
    pth s = mkPath E (c :: R) (len (c :: R)) F true true ->
    exists s', option_loop f take c (w ++ d :: l) s = option_loop f take d l s' /\
               pth s' = mkPath E (d :: rev w ++ c :: R) (len (d :: rev w ++ c :: R)) F true true /\
               valid s' = valid s /\ pcurr s' = pcurr s.
  Proof.
    induction w as [|x w IH]; intros c s d l E R F FA PD HP.
    - inversion FA as [|? ? Hc _]; subst. cbn [app]. rewrite option_step_blank by (assumption || lia).
      eexists. split; [reflexivity|]. cbn [rev app].
      split; [rewrite pth_addch, pth_tick, HP; now rewrite addchar_keep by lia|].
      split; now autorewrite with pst.
    - inversion FA as [|? ? Hc FA']; subst. inversion FA' as [|? ? Hx _]; subst. apply hspace_spec in Hx as Hx'.
      cbn [app]. rewrite option_step_blank by (assumption || lia).
      destruct (IH x (addch (tick s x) x) d l E (c :: R) F FA' PD) as (s' & E1 & P2 & V2 & C2).
      + rewrite pth_addch, pth_tick, HP. apply addchar_keep. lia.
      + exists s'. split; [exact E1|]. cbn [rev]. rewrite <- !app_assoc. cbn [app].
        split; [exact P2|]. autorewrite with pst in V2, C2. auto.
  Qed.

  (* ---------------------------------------------------------------- name finished, value follows *)
  Lemma path_add_nosep E J n F K :
    existsb (Z.eqb SEP) n = false ->
    exists p1, path_add (mkPath E (J ++ rev n) (len (J ++ rev n)) F K true) (len n) = (0, p1) /\
               pelems p1 = E ++ [n] /\ pbuf p1 = true.
  Proof.
    intros NS. unfold path_add. cbn [pbuf negb plen pelems].
    assert (L : len n <= len (J ++ rev n)) by (unfold len; rewrite app_length, rev_length; lia).
    pose proof (len_nonneg n). zb. cbn [orb].
    rewrite firstn_ppost, NS. eexists. split; [reflexivity|]. split; reflexivity.
  Qed.

  Lemma option_assign_value adderr d n v rest s E J F K :
    pth s = mkPath E (J ++ rev n) (len (J ++ rev n)) F K true -> valid s = len n -> n <> [] ->
    ncheck_go n true take = 0 -> existsb (Z.eqb SEP) n = false -> wf_value v = true ->
    exists s',
      option_assign f take adderr (hws (d_mid2 d) ++ print_value d v ++ hws (d_trail d) ++ tail_comment d ++ 10 :: rest) s
      = ((match v with [] => 3 | _ => 7 end), rest, s') /\
      pelems (pth s') = E ++ [n] /\ pcurr s' = pcurr s /\ valid s' = len v /\
      (v <> [] -> post_read s' (len v) = Some v).
  Proof.
    intros HP HV NE NK NS WV. unfold option_assign.
    rewrite (ncheck_name s _ _ _ _ _ take HP HV NE), NK. zb.
    rewrite HP, HV. destruct (path_add_nosep E J n F K NS) as (p1 & PA & PE & PB).
    rewrite PA. zb. rewrite (invalidate_buf p1 PB), PE.
    set (s4 := mkPst _ _ _ _ _). rewrite parse_data_ext.
    destruct (parse_data_value d v rest s4 (E ++ [n]) (pfirst p1) WV) as (s5 & E5 & Q1 & Q2 & Q3 & Q4 & Q5);
      [reflexivity|reflexivity|].
    rewrite E5. pose proof (len_nonneg v).
    exists s5. subst s4. cbn [pcurr] in Q3.
    destruct v as [|y v0].
    - change (len []) with 0. zb. repeat split; auto; try (intros X; now destruct X).
    - assert (LP : 0 < len (y :: v0)) by (rewrite len_cons; pose proof (len_nonneg v0); lia).
      zb. repeat split; auto.
  Qed.

  (* well-formed names of the styles without white space in names *)
  Record wfo (n : list Z) : Prop := mkWfo {
    wo_chars : Forall (fun c => onc c = true) n;
    wo_ne : n <> [];
    wo_check : ncheck_go n true take = 0;
    wo_len : len n <= IDENT_MAX }.

  Lemma onc_nosep n : Forall (fun c => onc c = true) n -> existsb (Z.eqb SEP) n = false.
  Proof.
    induction 1 as [|c n Hc _ IH]; [reflexivity|]. cbn [existsb]. rewrite IH, orb_false_r.
    apply onc_spec in Hc. unfold SEP. apply Z.eqb_neq. lia.
  Qed.

  (* option_loop from the second character of the name (or the assign character) on *)
  Lemma option_name_rest d n0 n' v rest s E F c1 :
    wfo (n0 :: n') -> wf_value v = true ->
    (* c1 is the current character: already stored behind n0 *)
    pth s = mkPath E [c1; n0] 2 F true true -> valid s = 1 ->
    forall tl0, tl0 = hws (d_mid2 d) ++ print_value d v ++ hws (d_trail d) ++ tail_comment d ++ 10 :: rest ->
    (n' = [] /\ c1 = 61 \/ exists n'', n' = c1 :: n'') ->
    forall l, (match n' with [] => l = tl0 | _ :: n'' => l = n'' ++ hws (d_mid1 d) ++ 61 :: tl0 end) ->
    exists s',
      option_loop f take c1 l s = ((match v with [] => 3 | _ => 7 end), rest, s') /\
      pelems (pth s') = E ++ [n0 :: n'] /\ pcurr s' = pcurr s /\ valid s' = len v /\
      (v <> [] -> post_read s' (len v) = Some v).
  Proof.
    intros [NC NE NK NLEN] WV HP HV tl0 ET CS l EL.
    pose proof (onc_nosep _ NC) as NS.
    destruct CS as [[-> ->]|[n'' ->]].
    - (* one character name, the assign character is current *)
      subst l. rewrite option_step_assign.
      destruct (option_assign_value MissingBuffer d [n0] v rest s E [61] F true) as (s' & E1 & Q); auto.
      subst tl0. exists s'. split; [exact E1|exact Q].
    - subst l. pose proof (Forall_inv NC) as H0. pose proof (Forall_inv_tail NC) as NC'. cbn beta in H0.
      rewrite !len_cons in NLEN. unfold IDENT_MAX in NLEN. pose proof (len_nonneg n'').
      assert (HP' : pth s = mkPath E (c1 :: [n0]) (len (c1 :: [n0])) F true true) by exact HP.
      destruct (hws (d_mid1 d)) as [|b0 bs] eqn:HB.
      + cbn [app].
        destruct (opt_scan n'' c1 s 61 tl0 E [n0] F NC') as (s2 & E2 & P2 & V2 & C2); [lia|exact HP'| |].
        { rewrite !len_cons, len_nil. unfold VALID_MOD. lia. }
        rewrite E2, option_step_assign.
        destruct (option_assign_value MissingBuffer d (n0 :: c1 :: n'') v rest s2 E [61] F true) as (s' & E1 & Q1 & Q2 & Q3); auto.
        * rewrite P2. cbn [rev app]. rewrite <- !app_assoc. reflexivity.
        * rewrite V2. unfold len. rewrite app_length, rev_length. cbn [length]. lia.
        * subst tl0. exists s'. split; [exact E1|]. split; [exact Q1|]. split; [congruence|exact Q3].
      + assert (FB : Forall (fun c => hspace c = true) (b0 :: bs)) by (rewrite <- HB; apply hws_hspaces).
        pose proof (Forall_inv FB) as Hb. cbn beta in Hb. apply hspace_spec in Hb as Hb'.
        cbn [app].
        destruct (opt_scan n'' c1 s b0 (bs ++ 61 :: tl0) E [n0] F NC') as (s2 & E2 & P2 & V2 & C2); [lia|exact HP'| |].
        { rewrite !len_cons, len_nil. unfold VALID_MOD. lia. }
        rewrite E2.
        destruct (opt_scan_blanks bs b0 s2 61 tl0 E (rev n'' ++ [c1; n0]) F FB) as (s3 & E3 & P3 & V3 & C3); [lia|exact P2|].
        rewrite E3, option_step_assign.
        destruct (option_assign_value MissingBuffer d (n0 :: c1 :: n'') v rest s3 E (61 :: rev bs ++ [b0]) F true) as (s' & E1 & Q1 & Q2 & Q3); auto.
        * rewrite P3. cbn [rev app]. rewrite <- !app_assoc. reflexivity.
        * rewrite V3, V2. unfold len. rewrite app_length, rev_length. cbn [length]. lia.
        * subst tl0. exists s'. split; [exact E1|]. split; [exact Q1|]. split; [congruence|exact Q3].
  Qed.

  (* mpt_parse_option entered with the first name character stored and valid *)
  Lemma option_core (a : allow) d n0 n' v rest s0 E F :
    take = aopt a -> wfo (n0 :: n') -> wf_value v = true ->
    pth s0 = mkPath E [n0] 1 F true true -> valid s0 = 1 ->
    exists s',
      parse_option f a (n' ++ hws (d_mid1 d) ++ 61 ::
                        hws (d_mid2 d) ++ print_value d v ++ hws (d_trail d) ++ tail_comment d ++ 10 :: rest) s0
      = ((match v with [] => 3 | _ => 7 end), rest, s') /\
      pelems (pth s') = E ++ [n0 :: n'] /\ pcurr s' = 11 /\ valid s' = len v /\
      (v <> [] -> post_read s' (len v) = Some v).
  Proof.
    intros ET WN WV HP HV.
    set (tl0 := hws (d_mid2 d) ++ print_value d v ++ hws (d_trail d) ++ tail_comment d ++ 10 :: rest).
    assert (OS : ostart f = 0) by (destruct DF as (A & _); exact A).
    unfold parse_option, nextvis. rewrite nextvis_go_ext.
    destruct n' as [|n1 n''].
    - cbn [app]. destruct (nv_ws fd _ (hws_spaces (d_mid1 d)) (61 :: tl0) s0) as (s1 & (S1 & S2 & S3) & E1).
      rewrite E1, nv_vis by (reflexivity || lia). zb. cbn [negb andb].
      rewrite <- ET.
      assert (P1 : pth (with_curr (addch (tick s1 61) 61) (Z.lor POption PName)) = mkPath E [61; n0] 2 F true true).
      { rewrite pth_with_curr, pth_addch, pth_tick, S1, HP. reflexivity. }
      assert (V1 : valid (with_curr (addch (tick s1 61) 61) (Z.lor POption PName)) = 1).
      { rewrite valid_with_curr, valid_addch, valid_tick, S2. exact HV. }
      destruct (option_name_rest d n0 [] v rest _ E F 61 WN WV P1 V1 tl0 eq_refl (or_introl (conj eq_refl eq_refl)) tl0 eq_refl)
        as (s' & E2 & Q1 & Q2 & Q3 & Q4).
      exists s'. rewrite pcurr_with_curr in Q2. auto.
    - cbn [app].
      pose proof (Forall_inv (Forall_inv_tail (wo_chars _ WN))) as H1. cbn beta in H1. apply onc_spec in H1 as H1'.
      rewrite nv_vis; [|lia|tauto|lia]. zb. cbn [negb andb].
      rewrite <- ET.
      assert (P1 : pth (with_curr (addch (tick s0 n1) n1) (Z.lor POption PName)) = mkPath E [n1; n0] 2 F true true).
      { rewrite pth_with_curr, pth_addch, pth_tick, HP.
        cbn [path_addchar pbuf rpost pkeep negb pelems plen pfirst]. now rewrite byte_of_small by lia. }
      assert (V1 : valid (with_curr (addch (tick s0 n1) n1) (Z.lor POption PName)) = 1).
      { now rewrite valid_with_curr, valid_addch, valid_tick. }
      destruct (option_name_rest d n0 (n1 :: n'') v rest _ E F n1 WN WV P1 V1 tl0 eq_refl
                  (or_intror (ex_intro _ n'' eq_refl)) (n'' ++ hws (d_mid1 d) ++ 61 :: tl0) eq_refl)
        as (s' & E2 & Q1 & Q2 & Q3 & Q4).
      exists s'. rewrite pcurr_with_curr in Q2. auto.
  Qed.

  (* the first name character, stored from the blank state, then valid *)
  Lemma first_char_state s E c :
    ready s E -> 0 < c < 256 ->
    pth (set_valid (addch s c)) = mkPath E [c] 1 (pfirst (pth s)) true true /\ valid (set_valid (addch s c)) = 1.
  Proof.
    intros RD B. pose proof (ready_addch s E c RD) as PA.
    destruct (set_valid_path (addch s c) E c [] 1 (pfirst (pth s)) false) as [P V]; [apply PA; lia|unfold VALID_MOD; lia|].
    auto.
  Qed.
End Ext.
