(* C08/RoundFlat.v — C09, enclosed ("%x% = #") and separated ("[ ] = #") style:
   element calls on printed text.  Values are read by the same mpt_parse_data as in
   the prefix style (the formats agree on escape, comment and end characters); option
   names go through mpt_parse_option, section names through the two name loops. *)
From Coq Require Import List ZArith Lia Bool.
From MptV Require Import C08.ParseModel C08.ParseBase C08.ParseProofs C08.PrintModel C08.RoundLex C08.RoundPre.
Import ListNotations.
Local Open Scope Z_scope.

Definition fe : format := mkFmt 37 37 0 61 0 34 39 0 35 0 0 0.
Definition fs : format := mkFmt 91 93 0 61 0 34 39 0 35 0 0 0.
Lemma fe_is : fst (parse_format (style_fmt StEnc)) = fe. Proof. reflexivity. Qed.
Lemma fs_is : fst (parse_format (style_fmt StSep)) = fs. Proof. reflexivity. Qed.

(* formats that agree with the default on what mpt_parse_data / nextvis look at *)
Definition dfmt (f : format) : Prop :=
  ostart f = 0 /\ assign f = 61 /\ oend f = 0 /\ esc0 f = 34 /\ esc1 f = 39 /\ esc2 f = 0 /\
  com0 f = 35 /\ com1 f = 0 /\ com2 f = 0 /\ com3 f = 0.
Lemma dfmt_fe : dfmt fe. Proof. unfold dfmt, fe. cbn. repeat split. Qed.
Lemma dfmt_fs : dfmt fs. Proof. unfold dfmt, fs. cbn. repeat split. Qed.

Section Ext.
  Variable f : format.
  Hypothesis DF : dfmt f.

  Lemma iscomment_ext c : iscomment f c = iscomment fd c.
  Proof. destruct DF as (_ & _ & _ & _ & _ & _ & A & B & C & D). unfold iscomment. now rewrite A, B, C, D. Qed.
  Lemma isescape_ext c : isescape f c = isescape fd c.
  Proof. destruct DF as (_ & _ & _ & A & B & C & _). unfold isescape. now rewrite A, B, C. Qed.
  Lemma oend_ext : oend f = oend fd. Proof. destruct DF as (_ & _ & A & _). exact A. Qed.

  Lemma nextvis_go_ext l : forall b s, nextvis_go f b l s = nextvis_go fd b l s.
  Proof.
    induction l as [|c l IH]; intros b s; [reflexivity|]. cbn [nextvis_go]. rewrite iscomment_ext, !IH. reflexivity.
  Qed.

  Lemma data_body_ext c s m la : data_body f c s m la = data_body fd c s m la.
  Proof. unfold data_body. now rewrite isescape_ext, iscomment_ext, oend_ext. Qed.

  Lemma data_loop_ext l : forall s m la, data_loop f l s m la = data_loop fd l s m la.
  Proof.
    induction l as [|c l IH]; intros s m la; [reflexivity|]. cbn [data_loop]. rewrite data_body_ext.
    destruct (c <? 0); [reflexivity|]. destruct (data_body fd c _ m la); [apply IH|reflexivity|reflexivity].
  Qed.

  Lemma parse_data_ext l s : parse_data f l s = parse_data fd l s.
  Proof. unfold parse_data. now rewrite data_loop_ext, oend_ext. Qed.

  (* ---------------------------------------------------------------- option names *)
  (* characters of an option name; white space other than the newline may stand inside *)
  Definition onb (c : Z) : bool :=
    (0 <? c) && (c <? 256) && negb (c =? 10) && negb (c =? 61) && negb (c =? 35) && negb (c =? 46).
  Lemma onb_spec c : onb c = true <-> (0 < c < 256 /\ c <> 10 /\ c <> 61 /\ c <> 35 /\ c <> 46).
  Proof. unfold onb. rewrite !andb_true_iff, !negb_true_iff, !Z.ltb_lt, !Z.eqb_neq. tauto. Qed.
  (* characters of a section name of the enclosed family: no white space; the assign character is an ordinary one *)
  Definition onc (c : Z) : bool :=
    (0 <? c) && (c <? 256) && negb (isspace c) && negb (c =? 35) && negb (c =? 46).
  Lemma onc_spec c : onc c = true <-> (0 < c < 256 /\ isspace c = false /\ c <> 35 /\ c <> 46).
  Proof. unfold onc. rewrite !andb_true_iff, !negb_true_iff, !Z.ltb_lt, !Z.eqb_neq. tauto. Qed.
  Lemma hspace_onb c : hspace c = true -> onb c = true.
  Proof. intros H. apply hspace_spec in H. apply onb_spec. lia. Qed.

  Variable take : Z.

  (* one character of the name (or a blank behind it) processed, the next one read *)
  Lemma option_step c a0 l s :
    onb c = true -> 0 < a0 ->
    option_loop f take c (a0 :: l) s
    = option_loop f take a0 l (addch (tick (if isspace c then s else set_valid s) a0) a0).
  Proof.
    intros Hc P. apply onb_spec in Hc. destruct Hc as (B & N10 & N61 & N35 & _).
    rewrite option_loop_eq. unfold option_body.
    destruct DF as (_ & A & O & _). rewrite A, O, iscomment_ext, iscomment_fd.
    destruct (isspace c); zb; reflexivity.
  Qed.
  Lemma option_step_assign l s :
    option_loop f take 61 l s = option_assign f take MissingBuffer l s.
  Proof.
    rewrite option_loop_eq. unfold option_body. change (isspace 61) with false.
    destruct DF as (_ & A & _). rewrite A. reflexivity.
  Qed.

  (* the state behind one step: the character is kept, the valid length follows the last non-blank *)
  Lemma opt_state c a0 s E R F :
    0 < c < 256 -> 0 < a0 < 256 ->
    pth s = mkPath E (c :: R) (len (c :: R)) F true true -> valid s = vlr R ->
    (isspace c = false -> len (c :: R) < VALID_MOD) ->
    let s1 := addch (tick (if isspace c then s else set_valid s) a0) a0 in
    pth s1 = mkPath E (a0 :: c :: R) (len (a0 :: c :: R)) F true true /\ valid s1 = vlr (c :: R) /\ pcurr s1 = pcurr s.
  Proof.
    intros Bc Ba HP HV HL. cbn zeta. cbn [vlr]. pose proof (len_nonneg R). rewrite len_cons in HL.
    destruct (isspace c).
    - split; [rewrite pth_addch, pth_tick, HP; now rewrite addchar_keep by lia|]. split; now autorewrite with pst.
    - specialize (HL eq_refl).
      destruct (set_valid_path s E c R _ F true HP) as [P1 V1]; [rewrite len_cons; lia|].
      split; [rewrite pth_addch, pth_tick, P1; now rewrite addchar_keep by lia|].
      split; [now rewrite valid_addch, valid_tick|now autorewrite with pst].
  Qed.

  Lemma vlr_ge P c R : isspace c = false -> len (c :: R) <= vlr (P ++ c :: R).
  Proof.
    intros SP. induction P as [|p P IH]; cbn [app vlr]; [rewrite SP; lia|].
    destruct (isspace p); [exact IH|]. unfold len in *. cbn [length]. rewrite app_length. cbn [length]. lia.
  Qed.

  (* name characters and blanks: appended, the valid length ends behind the last non-blank *)
  Lemma opt_scan_v : forall w c s d l E R F,
    Forall (fun x => onb x = true) (c :: w) -> 0 < d < 256 ->
    pth s = mkPath E (c :: R) (len (c :: R)) F true true -> valid s = vlr R ->
    vlr (rev w ++ c :: R) < VALID_MOD ->
    exists s', option_loop f take c (w ++ d :: l) s = option_loop f take d l s' /\
               pth s' = mkPath E (d :: rev w ++ c :: R) (len (d :: rev w ++ c :: R)) F true true /\
               valid s' = vlr (rev w ++ c :: R) /\ pcurr s' = pcurr s.
  Proof.
    induction w as [|x w IH]; intros c s d l E R F FA PD HP HV HL.
    - pose proof (Forall_inv FA) as Hc. cbn beta in Hc. apply onb_spec in Hc as Hc'.
      cbn [app]. rewrite option_step by (assumption || lia).
      destruct (opt_state c d s E R F) as (P1 & V1 & C1); [lia|lia|exact HP|exact HV| |].
      { intros SP. pose proof (vlr_ge [] c R SP). cbn [rev app] in *. lia. }
      eexists. split; [reflexivity|]. cbn [rev app]. auto.
    - pose proof (Forall_inv FA) as Hc. cbn beta in Hc. apply onb_spec in Hc as Hc'.
      pose proof (Forall_inv_tail FA) as FA'. pose proof (Forall_inv FA') as Hx. cbn beta in Hx. apply onb_spec in Hx as Hx'.
      cbn [app]. rewrite option_step by (assumption || lia).
      cbn [rev] in HL. rewrite <- app_assoc in HL. cbn [app] in HL.
      destruct (opt_state c x s E R F) as (P1 & V1 & C1); [lia|lia|exact HP|exact HV| |].
      { intros SP. pose proof (vlr_ge (rev w ++ [x]) c R SP) as G. rewrite <- app_assoc in G. cbn [app] in G. lia. }
      destruct (IH x _ d l E (c :: R) F FA' PD P1 V1 HL) as (s' & E1 & P2 & V2 & C2).
      exists s'. split; [exact E1|]. cbn [rev]. rewrite <- !app_assoc. cbn [app].
      split; [exact P2|]. split; [exact V2|]. now rewrite C2.
  Qed.

  (* ---------------------------------------------------------------- name finished, value follows *)
  Lemma path_add_nosep E J n F K :
    existsb (Z.eqb SEP) n = false ->
    exists p1, path_add (mkPath E (J ++ rev n) (len (J ++ rev n)) F K true) (len n) = (0, p1) /\
               pelems p1 = E ++ [n] /\ bufok p1.
  Proof.
    intros NS. unfold path_add. cbn [pbuf negb plen pelems pbin].
    assert (L : len n <= len (J ++ rev n)) by (unfold len; rewrite app_length, rev_length; lia).
    pose proof (len_nonneg n). zb. cbn [orb].
    rewrite firstn_ppost, NS. eexists. split; [reflexivity|]. split; [reflexivity|split; reflexivity].
  Qed.

  Lemma option_assign_value adderr d n v rest s E J F K :
    pth s = mkPath E (J ++ rev n) (len (J ++ rev n)) F K true -> valid s = len n -> n <> [] ->
    ncheck_go n true take = 0 -> existsb (Z.eqb SEP) n = false -> wf_value v = true ->
    exists s',
      option_assign f take adderr (hws (d_mid2 d) ++ print_value d v ++ hws (d_trail d) ++ tail_comment d ++ 10 :: rest) s
      = ((match v with [] => 3 | _ => 7 end), rest, s') /\
      pelems (pth s') = E ++ [n] /\ pcurr s' = pcurr s /\ valid s' = len v /\
      (v <> [] -> post_read s' (len v) = Some v) /\ pbin (pth s') = false.
  Proof.
    intros HP HV NE NK NS WV. unfold option_assign.
    rewrite (ncheck_name s _ _ _ _ _ take HP HV NE), NK. zb.
    rewrite HP, HV. destruct (path_add_nosep E J n F K NS) as (p1 & PA & PE & PB).
    rewrite PA. zb. rewrite (invalidate_buf p1 PB), PE.
    set (s4 := mkPst _ _ _ _ _). rewrite parse_data_ext.
    destruct (parse_data_value d v rest s4 (E ++ [n]) (pfirst p1) WV) as (s5 & E5 & Q1 & [Q2 QN] & Q3 & Q4 & Q5);
      [reflexivity|reflexivity|].
    rewrite E5. pose proof (len_nonneg v).
    exists s5. subst s4. cbn [pcurr] in Q3.
    destruct v as [|y v0].
    - change (len []) with 0. zb. repeat split; auto; try (intros X; now destruct X).
    - assert (LP : 0 < len (y :: v0)) by (rewrite len_cons; pose proof (len_nonneg v0); lia).
      zb. repeat split; auto.
  Qed.

  (* well-formed option names of the enclosed / separated family: white space may stand inside;
     for the code variant [raw] = false not directly behind the first character *)
  Record wfo (raw : bool) (n : list Z) : Prop := mkWfo {
    wo_chars : Forall (fun c => onb c = true) n;
    wo_ne : n <> [];
    wo_first : isspace (hd 0 n) = false;
    wo_last : isspace (last n 0) = false;
    wo_second : raw = false -> isspace (nth 1 n 0) = false;
    wo_check : ncheck_go n true take = 0;
    wo_len : len n <= IDENT_MAX }.

  (* section names of the enclosed family: no white space *)
  Record wfe (n : list Z) : Prop := mkWfe {
    we_chars : Forall (fun c => onc c = true) n;
    we_ne : n <> [];
    we_check : ncheck_go n true take = 0;
    we_len : len n <= IDENT_MAX }.

  Lemma onb_nosep n : Forall (fun c => onb c = true) n -> existsb (Z.eqb SEP) n = false.
  Proof.
    induction 1 as [|c n Hc _ IH]; [reflexivity|]. cbn [existsb]. rewrite IH, orb_false_r.
    apply onb_spec in Hc. unfold SEP. apply Z.eqb_neq. lia.
  Qed.
  Lemma onc_nosep n : Forall (fun c => onc c = true) n -> existsb (Z.eqb SEP) n = false.
  Proof.
    induction 1 as [|c n Hc _ IH]; [reflexivity|]. cbn [existsb]. rewrite IH, orb_false_r.
    apply onc_spec in Hc. unfold SEP. apply Z.eqb_neq. lia.
  Qed.

  (* collected name bytes with blanks behind: the valid length is the name *)
  Lemma vlr_name B n : Forall (fun c => hspace c = true) B -> n <> [] -> isspace (last n 0) = false ->
    vlr (rev B ++ rev n) = len n.
  Proof.
    intros FB NE NL. rewrite vlr_skip_blanks.
    - rewrite vlr_last; [unfold len; now rewrite rev_length| |now rewrite hd_rev_last].
      intros X. apply (f_equal (@length Z)) in X. rewrite rev_length in X. destruct n; [now destruct NE|discriminate].
    - apply Forall_rev. eapply Forall_impl; [|exact FB]. intros c H. apply hspace_spec in H. apply isspace_spec. lia.
  Qed.

  (* option_loop with the second character c1 of the line current (stored behind n0): the rest of
     the name, blanks, the assign character, the value *)
  Lemma option_cont raw d n0 n' B v rest s E F c1 l :
    wfo raw (n0 :: n') -> wf_value v = true -> Forall (fun c => hspace c = true) B ->
    pth s = mkPath E [c1; n0] 2 F true true -> valid s = 1 ->
    c1 :: l = (n' ++ B) ++ 61 :: hws (d_mid2 d) ++ print_value d v ++ hws (d_trail d) ++ tail_comment d ++ 10 :: rest ->
    exists s',
      option_loop f take c1 l s = ((match v with [] => 3 | _ => 7 end), rest, s') /\
      pelems (pth s') = E ++ [n0 :: n'] /\ pcurr s' = pcurr s /\ valid s' = len v /\
      (v <> [] -> post_read s' (len v) = Some v) /\ pbin (pth s') = false.
  Proof.
    intros [NC NE NF NL _ NK NLEN] WV FB HP HV EL.
    set (tl0 := hws (d_mid2 d) ++ print_value d v ++ hws (d_trail d) ++ tail_comment d ++ 10 :: rest) in *.
    pose proof (onb_nosep _ NC) as NS. cbn [hd] in NF.
    destruct (n' ++ B) as [|x X'] eqn:EX.
    - (* one character name, the assign character is current *)
      apply app_eq_nil in EX. destruct EX as [-> ->]. cbn [app] in EL. injection EL as -> ->.
      rewrite option_step_assign.
      destruct (option_assign_value MissingBuffer d [n0] v rest s E [61] F true) as (s' & E1 & Q); auto.
      exists s'. split; [exact E1|exact Q].
    - cbn [app] in EL. injection EL as -> ->.
      assert (FX : Forall (fun c => onb c = true) (x :: X')).
      { rewrite <- EX. apply Forall_app. split; [exact (Forall_inv_tail NC)|].
        eapply Forall_impl; [|exact FB]. intros c. apply hspace_onb. }
      rewrite len_cons in NLEN. unfold IDENT_MAX in NLEN. pose proof (len_nonneg n').
      assert (HP' : pth s = mkPath E (x :: [n0]) (len (x :: [n0])) F true true) by exact HP.
      assert (HV' : valid s = vlr [n0]) by (cbn [vlr]; rewrite NF; exact HV).
      assert (RV : rev X' ++ [x; n0] = rev B ++ rev (n0 :: n')).
      { change [x; n0] with ([x] ++ [n0]). rewrite app_assoc. change (rev X' ++ [x]) with (rev (x :: X')).
        rewrite <- EX, rev_app_distr. cbn [rev]. now rewrite app_assoc. }
      assert (VN : vlr (rev X' ++ [x; n0]) = len (n0 :: n')).
      { rewrite RV. apply vlr_name; [exact FB|discriminate|exact NL]. }
      destruct (opt_scan_v X' x s 61 tl0 E [n0] F FX) as (s2 & E2 & P2 & V2 & C2); [lia|exact HP'|exact HV'| |].
      { rewrite VN, len_cons. unfold VALID_MOD. lia. }
      rewrite E2, option_step_assign.
      destruct (option_assign_value MissingBuffer d (n0 :: n') v rest s2 E (61 :: rev B) F true) as (s' & E1 & Q1 & Q2 & Q3); auto.
      + rewrite P2, RV. cbn [app]. reflexivity.
      + rewrite V2. exact VN.
      + exists s'. split; [exact E1|]. split; [exact Q1|]. split; [congruence|exact Q3].
  Qed.

  Lemma getchar_pos c l s : 0 < c -> getchar (c :: l) s = (c, l, addch (tick s c) c).
  Proof. intros P. cbn [getchar]. zb. reflexivity. Qed.

  (* mpt_parse_option entered with the first name character stored and valid, both code variants *)
  Lemma option_core (a : allow) d n0 n' v rest s0 E F :
    take = aopt a -> wfo (araw a) (n0 :: n') -> wf_value v = true ->
    pth s0 = mkPath E [n0] 1 F true true -> valid s0 = 1 ->
    exists s',
      parse_option f a (n' ++ hws (d_mid1 d) ++ 61 ::
                        hws (d_mid2 d) ++ print_value d v ++ hws (d_trail d) ++ tail_comment d ++ 10 :: rest) s0
      = ((match v with [] => 3 | _ => 7 end), rest, s') /\
      pelems (pth s') = E ++ [n0 :: n'] /\ pcurr s' = 11 /\ valid s' = len v /\
      (v <> [] -> post_read s' (len v) = Some v) /\ pbin (pth s') = false.
  Proof.
    intros ET WN WV HP HV.
    set (tl0 := hws (d_mid2 d) ++ print_value d v ++ hws (d_trail d) ++ tail_comment d ++ 10 :: rest).
    assert (OS : ostart f = 0) by (destruct DF as (A & _); exact A).
    pose proof (hws_hspaces (d_mid1 d)) as FB.
    unfold parse_option. rewrite HV, OS. change (negb (1 =? 0)) with true. change (0 =? 0) with true.
    rewrite !andb_true_r. cbn [negb andb].
    destruct (araw a) eqn:RAW.
    - (* the next character as it comes *)
      rewrite app_assoc.
      destruct ((n' ++ hws (d_mid1 d)) ++ 61 :: tl0) as [|c1 l] eqn:EL; [now destruct (n' ++ hws (d_mid1 d))|].
      assert (B1 : 0 < c1 < 256).
      { destruct (n' ++ hws (d_mid1 d)) as [|y Y] eqn:EY; cbn [app] in EL; injection EL as <- _; [lia|].
        assert (FY : Forall (fun c => onb c = true) (y :: Y)).
        { rewrite <- EY. apply Forall_app. split; [exact (Forall_inv_tail (wo_chars _ _ WN))|].
          eapply Forall_impl; [|exact FB]. intros c. apply hspace_onb. }
        pose proof (Forall_inv FY) as Hy. cbn beta in Hy. apply onb_spec in Hy. lia. }
      rewrite getchar_pos by lia. zb. rewrite <- ET.
      assert (P1 : pth (with_curr (addch (tick s0 c1) c1) (Z.lor POption PName)) = mkPath E [c1; n0] 2 F true true).
      { rewrite pth_with_curr, pth_addch, pth_tick, HP.
        cbn [path_addchar pbuf rpost pkeep negb pelems plen pfirst]. now rewrite byte_of_small by lia. }
      assert (V1 : valid (with_curr (addch (tick s0 c1) c1) (Z.lor POption PName)) = 1).
      { now rewrite valid_with_curr, valid_addch, valid_tick. }
      destruct (option_cont true d n0 n' (hws (d_mid1 d)) v rest _ E F c1 l WN WV FB P1 V1 (eq_sym EL))
        as (s' & E2 & Q1 & Q2 & Q3 & Q4).
      exists s'. rewrite pcurr_with_curr in Q2. auto.
    - (* the next visible character *)
      unfold nextvis. rewrite nextvis_go_ext.
      destruct n' as [|n1 n''].
      + cbn [app]. destruct (nv_ws fd _ (hws_spaces (d_mid1 d)) (61 :: tl0) s0) as (s1 & (S1 & S2 & S3) & E1).
        rewrite E1, nv_vis by (reflexivity || lia). zb. rewrite <- ET.
        assert (P1 : pth (with_curr (addch (tick s1 61) 61) (Z.lor POption PName)) = mkPath E [61; n0] 2 F true true).
        { rewrite pth_with_curr, pth_addch, pth_tick, S1, HP. reflexivity. }
        assert (V1 : valid (with_curr (addch (tick s1 61) 61) (Z.lor POption PName)) = 1).
        { rewrite valid_with_curr, valid_addch, valid_tick, S2. exact HV. }
        destruct (option_cont false d n0 [] [] v rest _ E F 61 tl0 WN WV (Forall_nil _) P1 V1 eq_refl)
          as (s' & E2 & Q1 & Q2 & Q3 & Q4).
        exists s'. rewrite pcurr_with_curr in Q2. auto.
      + cbn [app].
        pose proof (Forall_inv (Forall_inv_tail (wo_chars _ _ WN))) as H1. cbn beta in H1. apply onb_spec in H1 as H1'.
        pose proof (wo_second _ _ WN eq_refl) as S2. cbn [nth] in S2.
        rewrite nv_vis; [|lia|exact S2|lia]. zb. rewrite <- ET.
        assert (P1 : pth (with_curr (addch (tick s0 n1) n1) (Z.lor POption PName)) = mkPath E [n1; n0] 2 F true true).
        { rewrite pth_with_curr, pth_addch, pth_tick, HP.
          cbn [path_addchar pbuf rpost pkeep negb pelems plen pfirst]. now rewrite byte_of_small by lia. }
        assert (V1 : valid (with_curr (addch (tick s0 n1) n1) (Z.lor POption PName)) = 1).
        { now rewrite valid_with_curr, valid_addch, valid_tick. }
        destruct (option_cont false d n0 (n1 :: n'') (hws (d_mid1 d)) v rest _ E F n1
                    (n'' ++ hws (d_mid1 d) ++ 61 :: tl0) WN WV FB P1 V1) as (s' & E2 & Q1 & Q2 & Q3 & Q4).
        { cbn [app]. now rewrite <- app_assoc. }
        exists s'. rewrite pcurr_with_curr in Q2. auto.
  Qed.

  (* the first name character, stored from the blank state, then valid *)
  Lemma first_char_state s E c :
    ready s E -> 0 < c < 256 ->
    pth (set_valid (addch s c)) = mkPath E [c] 1 (pfirst (pth s)) true true /\ valid (set_valid (addch s c)) = 1.
  Proof.
    intros RD B. pose proof (ready_addch s E c RD) as PA.
    destruct (set_valid_path (addch s c) E c [] 1 (pfirst (pth s)) false) as [P V]; [apply PA; lia|unfold VALID_MOD; lia|].
    auto.
  Qed.
End Ext.

(* ---------------------------------------------------------------- generic name bookkeeping *)
Lemma section_add_gen take s E J n F K cur rest :
  n <> [] -> ncheck_go n true take = 0 -> existsb (Z.eqb SEP) n = false ->
  pth s = mkPath E (J ++ rev n) (len (J ++ rev n)) F K true -> valid s = len n ->
  exists s', section_add take cur rest s = (PSection, rest, s') /\
             pelems (pth s') = E ++ [n] /\ bufok (pth s') /\ pcurr s' = cur.
Proof.
  intros NE NK NS HP HV. unfold section_add.
  assert (P1 : pth (with_curr s cur) = mkPath E (J ++ rev n) (len (J ++ rev n)) F K true) by now rewrite pth_with_curr.
  assert (V1 : valid (with_curr s cur) = len n) by now rewrite valid_with_curr.
  rewrite (ncheck_name _ _ _ _ _ _ take P1 V1 NE), NK. zb.
  rewrite P1, V1. destruct (path_add_nosep E J n F K NS) as (p1 & PA & PE & PB). rewrite PA. zb.
  eexists. split; [reflexivity|]. autorewrite with pst. auto.
Qed.

(* the two ways a section name of the enclosed style ends *)
Definition name_stop (t : Z) (tl : list Z) : Prop :=
  0 < t < 256 /\ (isspace t = true /\ tl = [] \/ t = 35 /\ exists c, tl = ctext c ++ [10]).
Lemma name_end_spec d : exists w0 tl, name_end d = w0 :: tl /\ name_stop w0 tl.
Proof.
  unfold name_end, name_stop. destruct (d_tcomment d) as [c|].
  - exists 35, (ctext c ++ [10]). split; [reflexivity|]. split; [lia|]. right. eauto.
  - pose proof (ws_spaces (d_mid1 d)) as FW. destruct (ws (d_mid1 d)) as [|c r].
    + exists 10, []. split; [reflexivity|]. split; [lia|]. left. split; reflexivity.
    + pose proof (Forall_inv FW) as Hc. cbn beta in Hc. exists c, []. split; [reflexivity|].
      apply isspace_spec in Hc as Hc'. split; [lia|]. left. auto.
Qed.

Lemma wf_name_inv st r raw take n : wf_name st r raw take n = true ->
  chars_ok st r n = true /\ n <> [] /\ isspace (hd 0 n) = false /\ isspace (last n 0) = false /\
  ncheck_go n true take = 0 /\ len n <= IDENT_MAX /\ blanks_ok st r raw n = true.
Proof.
  unfold wf_name. destruct n as [|c0 n']; [discriminate|].
  rewrite !andb_true_iff, !negb_true_iff, Z.eqb_eq, Z.leb_le. intros (((((A & B) & C) & D) & E) & G).
  split; [exact A|]. split; [discriminate|]. auto.
Qed.

Lemma name_char_onb st c : name_char st c = true -> onb c = true.
Proof.
  unfold name_char, byteb. rewrite !andb_true_iff, !negb_true_iff, !Z.leb_le, !Z.eqb_neq.
  intros H. apply onb_spec. lia.
Qed.

(* option names of the three styles: the characters, and the line does not begin with the section start character *)
Lemma wf_name_wfo st raw take n : st = StEnc \/ st = StSep \/ st = StEncD -> wf_name st ROpt raw take n = true ->
  wfo take raw n /\ hd 0 n <> (match st with StEnc => 37 | _ => 91 end).
Proof.
  intros ST W. destruct (wf_name_inv _ _ _ _ _ W) as (CO & NE & HF & HL & NK & NL & BO).
  assert (FA : forallb (name_char st) n = true /\ hd 0 n <> (match st with StEnc => 37 | _ => 91 end)).
  { destruct ST as [->|[->| ->]]; cbn [chars_ok] in CO; apply andb_true_iff in CO; destruct CO as [A B];
      apply negb_true_iff, Z.eqb_neq in B; auto. }
  destruct FA as [FA H0]. split; [|exact H0]. constructor; auto.
  - apply Forall_forall. intros c IN. apply (name_char_onb st). rewrite forallb_forall in FA. now apply FA.
  - intros ->. destruct ST as [->|[->| ->]]; cbn [blanks_ok orb] in BO; now apply negb_true_iff in BO.
Qed.

(* section names of the enclosed family *)
Lemma wf_name_wfe st raw take n : st = StEnc \/ st = StEncD -> wf_name st RSec raw take n = true -> wfe take n.
Proof.
  intros ST W. destruct (wf_name_inv _ _ _ _ _ W) as (CO & NE & HF & HL & NK & NL & BO).
  constructor; auto.
  assert (NS : forallb (fun c => negb (isspace c)) n = true) by (destruct ST as [->| ->]; exact BO).
  assert (FA : forallb (sname_char st) n = true) by (destruct ST as [->| ->]; exact CO).
  rewrite forallb_forall in NS, FA. apply Forall_forall. intros c IN.
  specialize (NS c IN). specialize (FA c IN). apply negb_true_iff in NS. apply onc_spec.
  unfold sname_char, byteb in FA. rewrite !andb_true_iff, !negb_true_iff, !Z.leb_le, !Z.eqb_neq in FA.
  repeat split; try lia; exact NS.
Qed.

(* ---------------------------------------------------------------- enclosed style *)
Lemma enc_name_loop : forall w s d tl l E R F,
  Forall (fun c => onc c = true) w -> name_stop d tl -> R <> [] ->
  pth s = mkPath E R (len R) F true true -> valid s = len R -> len R + len w < VALID_MOD ->
  exists s', enc_loop fe (w ++ d :: tl ++ l) s = (true, l, s') /\
             pth s' = mkPath E (d :: rev w ++ R) (len (d :: rev w ++ R)) F true true /\
             valid s' = len (rev w ++ R) /\ pcurr s' = pcurr s.
Proof.
  induction w as [|c w IH]; intros s d tl l E R F FA [BD ST] NR HP HV HL.
  - cbn [app enc_loop]. zb.
    assert (PA : pth (addch (tick s d) d) = mkPath E (d :: R) (len (d :: R)) F true true).
    { rewrite pth_addch, pth_tick, HP. apply addchar_keep. lia. }
    destruct ST as [[SD ->]|[-> [c ->]]].
    + rewrite SD. eexists. split; [reflexivity|]. cbn [rev app]. split; [exact PA|]. split; now autorewrite with pst.
    + change (isspace 35) with false. unfold iscomment. cbn [fe com0 com1 com2 com3]. cbn [negb orb andb Z.eqb].
      rewrite <- app_assoc. cbn [app].
      destruct (endline_text (ctext c) (ctext_ok c) l (addch (tick s 35) 35)) as (s' & (S1 & S2 & S3) & E1).
      rewrite E1. exists s'. split; [reflexivity|]. cbn [rev app]. rewrite S1, S2, S3.
      split; [exact PA|]. split; now autorewrite with pst.
  - inversion FA as [|? ? Hc FA']; subst. apply onc_spec in Hc as Hc'. destruct Hc' as (B & SP & N35 & _).
    cbn [app enc_loop]. zb. rewrite SP. unfold iscomment. cbn [fe com0 com1 com2 com3]. zb. cbn [negb orb andb].
    rewrite len_cons in HL. pose proof (len_nonneg w). pose proof (len_nonneg R).
    assert (PA : pth (addch (tick s c) c) = mkPath E (c :: R) (len (c :: R)) F true true).
    { rewrite pth_addch, pth_tick, HP. apply addchar_keep. lia. }
    destruct (set_valid_path _ _ _ _ _ _ _ PA) as [P1 V1]; [rewrite len_cons; lia|].
    destruct (IH (set_valid (addch (tick s c) c)) d tl l E (c :: R) F FA' (conj BD ST)) as (s' & E1 & P2 & V2 & C2);
      [discriminate|exact P1|exact V1|rewrite len_cons; lia|].
    exists s'. split; [exact E1|]. cbn [rev]. rewrite <- !app_assoc. cbn [app].
    split; [exact P2|]. split; [exact V2|]. rewrite C2. now autorewrite with pst.
Qed.

Section Enc.
  Variable a : allow.

  (* the section name behind the start character *)
  Lemma enc_section_name d n rest s E :
    wfe (asect a) n -> ready s E ->
    exists s', enc_section fe a (n ++ name_end d ++ rest) s = (PSection, rest, s') /\
               pelems (pth s') = E ++ [n] /\ bufok (pth s') /\ pcurr s' = Z.lor PSection PName /\ valid s' = 0.
  Proof.
    intros [NC NE NK NLEN] RD. destruct n as [|n0 n']; [now destruct NE|].
    pose proof (Forall_inv NC) as H0. cbn beta in H0. apply onc_spec in H0 as H0'.
    pose proof (Forall_inv_tail NC) as NC'.
    destruct (name_end_spec d) as (w0 & tl & -> & ST).
    unfold enc_section, nextvis. rewrite (nextvis_go_ext fe dfmt_fe). cbn [app].
    rewrite nv_vis; [|lia|tauto|lia]. zb.
    set (s1 := with_curr (tick (with_curr s PSection) n0) (Z.lor PSection PName)).
    assert (RD1 : ready s1 E).
    { destruct RD as (R1 & R2 & R3 & R4 & R5). subst s1. unfold ready. autorewrite with pst. auto. }
    destruct (first_char_state s1 E n0 RD1) as [P2 V2]; [lia|].
    rewrite len_cons in NLEN. unfold IDENT_MAX in NLEN. pose proof (len_nonneg n').
    destruct (enc_name_loop n' (set_valid (addch s1 n0)) w0 tl rest E [n0] (pfirst (pth s1)) NC' ST) as (s3 & E3 & P3 & V3 & C3);
      [discriminate|exact P2|exact V2|rewrite len_cons, len_nil; unfold VALID_MOD; lia|].
    rewrite E3.
    assert (P3' : pth s3 = mkPath E ([w0] ++ rev (n0 :: n')) (len ([w0] ++ rev (n0 :: n'))) (pfirst (pth s1)) true true) by exact P3.
    assert (V3' : valid s3 = len (n0 :: n')).
    { rewrite V3. unfold len. rewrite app_length, rev_length. cbn [length]. lia. }
    rewrite (ncheck_name s3 _ _ _ _ _ (asect a) P3' V3'), NK by discriminate. zb.
    rewrite P3', V3'. destruct (path_add_nosep E [w0] (n0 :: n') (pfirst (pth s1)) true (onc_nosep _ NC)) as (p1 & PA & PE & PB).
    rewrite PA. zb. eexists. split; [reflexivity|]. cbn [pth pcurr valid].
    rewrite C3. subst s1. autorewrite with pst. auto.
  Qed.

  Lemma enc_option d n v rest s E prev :
    prev <> PSectEnd -> wfo (aopt a) (araw a) n -> hd 0 n <> 37 -> wf_value v = true -> ready s E ->
    exists s',
      format_enc fe a prev (print_opt d n v ++ rest) s = ((match v with [] => 3 | _ => 7 end), rest, s') /\
      pelems (pth s') = E ++ [n] /\ pcurr s' = 11 /\ valid s' = len v /\
      (v <> [] -> post_read s' (len v) = Some v) /\ pbin (pth s') = false.
  Proof.
    intros PV WN N37 WV RD. unfold print_opt. rewrite <- !app_assoc.
    destruct n as [|n0 n']; [now destruct (wo_ne _ _ _ WN)|].
    pose proof (Forall_inv (wo_chars _ _ _ WN)) as H0. cbn beta in H0. apply onb_spec in H0 as H0'.
    pose proof (wo_first _ _ _ WN) as HS0. cbn [hd] in HS0.
    pose proof N37 as H37. cbn [hd] in H37.
    unfold format_enc. change (sstart fe =? send fe) with true. cbv iota.
    apply Z.eqb_neq in PV. rewrite PV.
    unfold nextvis. rewrite (nextvis_go_ext fe dfmt_fe). cbn [app].
    destruct (nv_lead d (n0 :: n' ++ hws (d_mid1 d) ++ 61 :: hws (d_mid2 d) ++ print_value d v ++
                         hws (d_trail d) ++ tail_comment d ++ 10 :: rest) s) as (s1 & (S1 & S2 & S3) & E1).
    rewrite E1. rewrite nv_vis; [|lia|tauto|lia]. zb.
    change (sstart fe) with 37. zb. rewrite andb_false_r. cbn [negb].
    unfold enc_other. change (negb (ostart fe =? 0)) with false. cbv iota.
    assert (RD1 : ready (tick s1 n0) E).
    { destruct RD as (R1 & R2 & R3 & R4 & R5). unfold ready. autorewrite with pst. rewrite S1, S2. auto. }
    destruct (first_char_state (tick s1 n0) E n0 RD1) as [P2 V2]; [lia|].
    cbn [app].
    destruct (option_core fe dfmt_fe (aopt a) a d n0 n' v rest _ E _ eq_refl WN WV P2 V2) as (s' & E2 & Q).
    exists s'. split; [exact E2|exact Q].
  Qed.

  (* a section start character while no section is open: the section starts *)
  Lemma enc_open d n rest s prev :
    prev <> PSectEnd -> wfe (asect a) n -> ready s [] ->
    exists s', format_enc fe a prev (lead d ++ [37] ++ n ++ name_end d ++ rest) s = (PSection, rest, s') /\
               pelems (pth s') = [n] /\ bufok (pth s') /\ pcurr s' = Z.lor PSection PName.
  Proof.
    intros PV WN RD. unfold format_enc. change (sstart fe =? send fe) with true. cbv iota.
    apply Z.eqb_neq in PV. rewrite PV. unfold nextvis. rewrite (nextvis_go_ext fe dfmt_fe).
    destruct (nv_lead d ([37] ++ n ++ name_end d ++ rest) s) as (s1 & (S1 & S2 & S3) & E1).
    rewrite E1. cbn [app]. rewrite nv_vis by (reflexivity || lia). zb.
    assert (PE : pelems (pth (tick s1 37)) = []).
    { autorewrite with pst. rewrite S1. destruct RD as (R1 & _). exact R1. }
    rewrite PE. cbn [andb]. change (sstart fe) with 37. zb. cbn [negb].
    assert (RD1 : ready (tick s1 37) []).
    { destruct RD as (R1 & R2 & R3 & R4 & R5). unfold ready. autorewrite with pst. rewrite S1, S2. auto. }
    destruct (enc_section_name d n rest (tick s1 37) [] WN RD1) as (s' & E2 & Q1 & Q2 & Q3 & Q4).
    exists s'. auto.
  Qed.

  (* the same character while a section is open: that section ends, the name is still to be read *)
  Lemma enc_close d rest s E x prev :
    prev <> PSectEnd -> ready s (x :: E) ->
    exists s', format_enc fe a prev (lead d ++ [37] ++ rest) s = (PSectEnd, rest, s') /\
               pelems (pth s') = x :: E /\ pcurr s' = PSectEnd /\ pbin (pth s') = false.
  Proof.
    intros PV RD. unfold format_enc. change (sstart fe =? send fe) with true. cbv iota.
    apply Z.eqb_neq in PV. rewrite PV. unfold nextvis. rewrite (nextvis_go_ext fe dfmt_fe).
    destruct (nv_lead d ([37] ++ rest) s) as (s1 & (S1 & S2 & S3) & E1).
    rewrite E1. cbn [app]. rewrite nv_vis by (reflexivity || lia). zb.
    assert (PE : pelems (pth (tick s1 37)) = x :: E).
    { autorewrite with pst. rewrite S1. destruct RD as (R1 & _). exact R1. }
    rewrite PE. change (sstart fe) with 37. zb. cbn [andb].
    eexists. split; [reflexivity|]. autorewrite with pst. rewrite S1. destruct RD as (R1 & _ & _ & (_ & RN) & _). auto.
  Qed.

  Lemma enc_reopen d n rest s :
    wfe (asect a) n -> ready s [] ->
    exists s', format_enc fe a PSectEnd (n ++ name_end d ++ rest) s = (PSection, rest, s') /\
               pelems (pth s') = [n] /\ bufok (pth s') /\ pcurr s' = Z.lor PSection PName.
  Proof.
    intros WN RD. unfold format_enc. change (sstart fe =? send fe) with true. cbv iota.
    change (PSectEnd =? PSectEnd) with true. cbv iota.
    destruct (enc_section_name d n rest s [] WN RD) as (s' & E2 & Q1 & Q2 & Q3 & Q4). exists s'. auto.
  Qed.

  Lemma enc_eof final s prev :
    prev <> PSectEnd ->
    exists s', format_enc fe a prev (lead final) s = (0, [], s').
  Proof.
    intros PV. unfold format_enc. change (sstart fe =? send fe) with true. cbv iota.
    apply Z.eqb_neq in PV. rewrite PV. unfold nextvis. rewrite (nextvis_go_ext fe dfmt_fe).
    destruct (nv_lead final [] s) as (s1 & _ & E1). rewrite app_nil_r in E1. rewrite E1.
    cbn [nextvis_go]. zb. eexists. reflexivity.
  Qed.
End Enc.

(* ---------------------------------------------------------------- separated style *)
Section Sep.
  Variable a : allow.

  (* name characters of the separated style inside the brackets; white space other than the newline may stand
     inside, the assign character is an ordinary one *)
  Definition snc (c : Z) : bool :=
    (0 <? c) && (c <? 256) && negb (c =? 10) && negb (c =? 35) && negb (c =? 46) && negb (c =? 93).
  Lemma snc_spec c : snc c = true <-> (0 < c < 256 /\ c <> 10 /\ c <> 35 /\ c <> 46 /\ c <> 93).
  Proof. unfold snc. rewrite !andb_true_iff, !negb_true_iff, !Z.ltb_lt, !Z.eqb_neq. tauto. Qed.

  Lemma sep_step c a0 l s :
    snc c = true -> 0 < a0 ->
    sep_loop fs a c (a0 :: l) s = sep_loop fs a a0 l (addch (tick (if isspace c then s else set_valid s) a0) a0).
  Proof.
    intros Hc P. apply snc_spec in Hc. destruct Hc as (B & N10 & N35 & _ & N93).
    rewrite sep_loop_eq. unfold sep_body. change (send fs) with 93.
    unfold iscomment. cbn [fs com0 com1 com2 com3]. zb. cbn [negb orb andb].
    destruct (isspace c); cbn [negb]; zb; reflexivity.
  Qed.
  Lemma sep_step_blank c a0 l s :
    hspace c = true -> 0 < a0 ->
    sep_loop fs a c (a0 :: l) s = sep_loop fs a a0 l (addch (tick s a0) a0).
  Proof.
    intros Hc P. apply hspace_spec in Hc as Hc'. assert (SP : isspace c = true) by (apply isspace_spec; lia).
    rewrite sep_step; [now rewrite SP|apply snc_spec; lia|exact P].
  Qed.
  Lemma sep_step_end l s :
    sep_loop fs a 93 l s = section_add (asect a) (Z.lor PSection PName) l s.
  Proof. rewrite sep_loop_eq. reflexivity. Qed.

  (* blanks in front of the name overwrite each other *)
  Lemma sep_lead : forall w c s d l E F,
    Forall (fun x => hspace x = true) (c :: w) -> 0 < d < 256 ->
    pth s = mkPath E [c] 1 F false true ->
    exists s', sep_loop fs a c (w ++ d :: l) s = sep_loop fs a d l s' /\
               pth s' = mkPath E [d] 1 F false true /\ valid s' = valid s /\ pcurr s' = pcurr s.
  Proof.
    induction w as [|x w IH]; intros c s d l E F FA PD HP.
    - pose proof (Forall_inv FA) as Hc. cbn beta in Hc. cbn [app]. rewrite sep_step_blank by (assumption || lia).
      eexists. split; [reflexivity|].
      split; [rewrite pth_addch, pth_tick, HP; cbn [path_addchar pbuf rpost pkeep negb pelems plen pfirst];
              now rewrite byte_of_small by lia|].
      split; now autorewrite with pst.
    - pose proof (Forall_inv FA) as Hc. pose proof (Forall_inv_tail FA) as FA'. cbn beta in Hc.
      pose proof (Forall_inv FA') as Hx. cbn beta in Hx. apply hspace_spec in Hx as Hx'.
      cbn [app]. rewrite sep_step_blank by (assumption || lia).
      destruct (IH x (addch (tick s x) x) d l E F FA' PD) as (s' & E1 & P2 & V2 & C2).
      + rewrite pth_addch, pth_tick, HP. cbn [path_addchar pbuf rpost pkeep negb pelems plen pfirst].
        now rewrite byte_of_small by lia.
      + exists s'. autorewrite with pst in V2, C2. auto.
  Qed.

  (* the state behind one step of the name loop *)
  Lemma sep_state c a0 s E R F K :
    0 < c < 256 -> 0 < a0 < 256 ->
    pth s = mkPath E (c :: R) (len (c :: R)) F K true -> (K = true \/ isspace c = false) -> valid s = vlr R ->
    (isspace c = false -> len (c :: R) < VALID_MOD) ->
    let s1 := addch (tick (if isspace c then s else set_valid s) a0) a0 in
    pth s1 = mkPath E (a0 :: c :: R) (len (a0 :: c :: R)) F true true /\ valid s1 = vlr (c :: R) /\ pcurr s1 = pcurr s.
  Proof.
    intros Bc Ba HP HK HV HL. cbn zeta. cbn [vlr]. pose proof (len_nonneg R). rewrite len_cons in HL.
    destruct (isspace c) eqn:SP.
    - destruct HK as [->|HK]; [|discriminate].
      split; [rewrite pth_addch, pth_tick, HP; now rewrite addchar_keep by lia|]. split; now autorewrite with pst.
    - specialize (HL eq_refl).
      destruct (set_valid_path s E c R _ F K HP) as [P1 V1]; [rewrite len_cons; lia|].
      split; [rewrite pth_addch, pth_tick, P1; now rewrite addchar_keep by lia|].
      split; [now rewrite valid_addch, valid_tick|now autorewrite with pst].
  Qed.

  (* name characters and blanks inside the brackets: appended, the valid length ends behind the last non-blank *)
  Lemma sep_scan_v : forall w c s d l E R F K,
    Forall (fun x => snc x = true) (c :: w) -> 0 < d < 256 ->
    pth s = mkPath E (c :: R) (len (c :: R)) F K true -> (K = true \/ isspace c = false) -> valid s = vlr R ->
    vlr (rev w ++ c :: R) < VALID_MOD ->
    exists s', sep_loop fs a c (w ++ d :: l) s = sep_loop fs a d l s' /\
               pth s' = mkPath E (d :: rev w ++ c :: R) (len (d :: rev w ++ c :: R)) F true true /\
               valid s' = vlr (rev w ++ c :: R) /\ pcurr s' = pcurr s.
  Proof.
    induction w as [|x w IH]; intros c s d l E R F K FA PD HP HK HV HL.
    - pose proof (Forall_inv FA) as Hc. cbn beta in Hc. apply snc_spec in Hc as Hc'.
      cbn [app]. rewrite sep_step by (assumption || lia).
      destruct (sep_state c d s E R F K) as (P1 & V1 & C1); [lia|lia|exact HP|exact HK|exact HV| |].
      { intros SP. pose proof (vlr_ge [] c R SP). cbn [rev app] in *. lia. }
      eexists. split; [reflexivity|]. cbn [rev app]. auto.
    - pose proof (Forall_inv FA) as Hc. cbn beta in Hc. apply snc_spec in Hc as Hc'.
      pose proof (Forall_inv_tail FA) as FA'. pose proof (Forall_inv FA') as Hx. cbn beta in Hx. apply snc_spec in Hx as Hx'.
      cbn [app]. rewrite sep_step by (assumption || lia).
      cbn [rev] in HL. rewrite <- app_assoc in HL. cbn [app] in HL.
      destruct (sep_state c x s E R F K) as (P1 & V1 & C1); [lia|lia|exact HP|exact HK|exact HV| |].
      { intros SP. pose proof (vlr_ge (rev w ++ [x]) c R SP) as G. rewrite <- app_assoc in G. cbn [app] in G. lia. }
      destruct (IH x _ d l E (c :: R) F true FA' PD P1 (or_introl eq_refl) V1 HL) as (s' & E1 & P2 & V2 & C2).
      exists s'. split; [exact E1|]. cbn [rev]. rewrite <- !app_assoc. cbn [app].
      split; [exact P2|]. split; [exact V2|]. now rewrite C2.
  Qed.

  (* from the start bracket to the first character of the name *)
  Lemma sep_to_name blanks n0 tl0 s E :
    Forall (fun x => hspace x = true) blanks -> 0 < n0 < 256 -> ready s E ->
    exists s1, sep_first fs a (blanks ++ n0 :: tl0) s = sep_loop fs a n0 tl0 s1 /\
               pth s1 = mkPath E [n0] 1 (pfirst (pth s)) false true /\ valid s1 = 0 /\ pcurr s1 = pcurr s.
  Proof.
    intros FB B0 RD. unfold sep_first. change (negb (send fs =? sstart fs)) with true. cbv iota.
    destruct blanks as [|b0 bs].
    - cbn [app]. rewrite getchar_pos by lia. zb.
      eexists. split; [reflexivity|].
      assert (RT : ready (tick s n0) E) by (destruct RD as (R1 & R2 & R3 & R4 & R5); unfold ready; now autorewrite with pst).
      split; [rewrite (ready_addch _ _ n0 RT) by lia; now autorewrite with pst|].
      destruct RD as (_ & _ & _ & _ & V). split; now autorewrite with pst.
    - pose proof (Forall_inv FB) as Hb. cbn beta in Hb. apply hspace_spec in Hb as Hb'.
      cbn [app]. rewrite getchar_pos by lia. zb.
      assert (RT : ready (tick s b0) E) by (destruct RD as (R1 & R2 & R3 & R4 & R5); unfold ready; now autorewrite with pst).
      destruct (sep_lead bs b0 (addch (tick s b0) b0) n0 tl0 E (pfirst (pth s)) FB B0) as (s1 & E1 & P1 & V1 & C1).
      + rewrite (ready_addch _ _ b0 RT) by lia. now autorewrite with pst.
      + exists s1. split; [exact E1|]. split; [exact P1|].
        destruct RD as (_ & _ & _ & _ & V). autorewrite with pst in V1, C1. split; congruence.
  Qed.

  Record wfs (n : list Z) : Prop := mkWfs {
    ws_chars : Forall (fun c => snc c = true) n;
    ws_ne : n <> [];
    ws_first : isspace (hd 0 n) = false;
    ws_last : isspace (last n 0) = false;
    ws_check : ncheck_go n true (asect a) = 0;
    ws_len : len n <= IDENT_MAX }.

  Lemma snc_nosep n : Forall (fun c => snc c = true) n -> existsb (Z.eqb SEP) n = false.
  Proof.
    induction 1 as [|c n Hc _ IH]; [reflexivity|]. cbn [existsb]. rewrite IH, orb_false_r.
    apply snc_spec in Hc. unfold SEP. apply Z.eqb_neq. lia.
  Qed.

  (* the section name between the brackets *)
  Lemma sep_section_name d n rest s E :
    wfs n -> ready s E ->
    exists s', sep_first fs a (hws (d_mid1 d) ++ n ++ hws (d_mid2 d) ++ 93 :: rest) s = (PSection, rest, s') /\
               pelems (pth s') = E ++ [n] /\ bufok (pth s') /\ pcurr s' = Z.lor PSection PName.
  Proof.
    intros [NC NE NF NL NK NLEN] RD. destruct n as [|n0 n']; [now destruct NE|]. cbn [hd] in NF.
    pose proof (Forall_inv NC) as H0. cbn beta in H0. apply snc_spec in H0 as H0'.
    assert (B0 : 0 < n0 < 256) by lia.
    cbn [app].
    destruct (sep_to_name (hws (d_mid1 d)) n0 (n' ++ hws (d_mid2 d) ++ 93 :: rest) s E (hws_hspaces _) B0 RD)
      as (s1 & E1 & P1 & V1 & C1).
    rewrite E1. rewrite len_cons in NLEN. unfold IDENT_MAX in NLEN. pose proof (len_nonneg n').
    assert (P1' : pth s1 = mkPath E (n0 :: []) (len (n0 :: [])) (pfirst (pth s)) false true) by exact P1.
    pose proof (snc_nosep _ NC) as NS.
    set (B := hws (d_mid2 d)). pose proof (hws_hspaces (d_mid2 d)) as FB. fold B in FB.
    assert (FW : Forall (fun c => snc c = true) (n0 :: n' ++ B)).
    { constructor; [exact H0|]. apply Forall_app. split; [exact (Forall_inv_tail NC)|].
      eapply Forall_impl; [|exact FB]. intros c Hh. apply hspace_spec in Hh. apply snc_spec. lia. }
    assert (RV : rev (n' ++ B) ++ [n0] = rev B ++ rev (n0 :: n')).
    { rewrite rev_app_distr. cbn [rev]. now rewrite app_assoc. }
    assert (VN : vlr (rev (n' ++ B) ++ [n0]) = len (n0 :: n')).
    { rewrite RV. apply vlr_name; [exact FB|discriminate|exact NL]. }
    rewrite app_assoc.
    destruct (sep_scan_v (n' ++ B) n0 s1 93 rest E [] (pfirst (pth s)) false FW) as (s2 & E2 & P2 & V2 & C2);
      [lia|exact P1'|now right|exact V1| |].
    { rewrite VN, len_cons. unfold VALID_MOD. lia. }
    rewrite E2, sep_step_end.
    assert (NE0 : n0 :: n' <> []) by discriminate.
    assert (V2' : valid s2 = len (n0 :: n')) by (rewrite V2; exact VN).
    assert (P2' : pth s2 = mkPath E ((93 :: rev B) ++ rev (n0 :: n')) (len ((93 :: rev B) ++ rev (n0 :: n')))
                               (pfirst (pth s)) true true).
    { rewrite P2, RV. reflexivity. }
    destruct (section_add_gen (asect a) s2 E (93 :: rev B) (n0 :: n') (pfirst (pth s)) true (Z.lor PSection PName) rest
                NE0 NK NS P2' V2') as (s' & E3 & Q).
    exists s'. auto.
  Qed.

  (* ---- the elements through mpt_parse_format_sep ---- *)
  Lemma land15_ok prev : prev = 1 \/ prev = 9 \/ prev = 11 -> (Z.land prev 15 =? PSectEnd) = false.
  Proof. intros [->|[->| ->]]; reflexivity. Qed.

  Lemma sep_option d n v rest s E prev :
    prev = 1 \/ prev = 9 \/ prev = 11 -> wfo (aopt a) (araw a) n -> hd 0 n <> 91 -> wf_value v = true -> ready s E ->
    exists s',
      format_sep fs a prev (print_opt d n v ++ rest) s = ((match v with [] => 3 | _ => 7 end), rest, s') /\
      pelems (pth s') = E ++ [n] /\ pcurr s' = 11 /\ valid s' = len v /\
      (v <> [] -> post_read s' (len v) = Some v) /\ pbin (pth s') = false.
  Proof.
    intros PV WN N91 WV RD. unfold print_opt. rewrite <- !app_assoc.
    destruct n as [|n0 n']; [now destruct (wo_ne _ _ _ WN)|].
    pose proof (Forall_inv (wo_chars _ _ _ WN)) as H0. cbn beta in H0. apply onb_spec in H0 as H0'.
    pose proof (wo_first _ _ _ WN) as HS0. cbn [hd] in HS0.
    pose proof N91 as H91. cbn [hd] in H91.
    unfold format_sep. rewrite (land15_ok prev PV).
    unfold nextvis. rewrite (nextvis_go_ext fs dfmt_fs). cbn [app].
    destruct (nv_lead d (n0 :: n' ++ hws (d_mid1 d) ++ 61 :: hws (d_mid2 d) ++ print_value d v ++
                         hws (d_trail d) ++ tail_comment d ++ 10 :: rest) s) as (s1 & (S1 & S2 & S3) & E1).
    rewrite E1. rewrite nv_vis; [|lia|tauto|lia]. zb.
    change (sstart fs) with 91. change (ostart fs) with 0. zb. cbn [negb].
    assert (RD1 : ready (with_curr (tick s1 n0) PName) E).
    { destruct RD as (R1 & R2 & R3 & R4 & R5). unfold ready. autorewrite with pst. rewrite S1, S2. auto. }
    destruct (first_char_state _ E n0 RD1) as [P2 V2]; [lia|].
    destruct (option_core fs dfmt_fs (aopt a) a d n0 n' v rest _ E _ eq_refl WN WV P2 V2) as (s' & E2 & Q).
    exists s'. split; [exact E2|exact Q].
  Qed.

  Lemma sep_open d n rest s prev :
    prev = 1 \/ prev = 9 \/ prev = 11 -> wfs n -> ready s [] ->
    exists s', format_sep fs a prev (lead d ++ [91] ++ hws (d_mid1 d) ++ n ++ hws (d_mid2 d) ++ [93] ++ rest) s
               = (PSection, rest, s') /\
               pelems (pth s') = [n] /\ bufok (pth s') /\ pcurr s' = Z.lor PSection PName.
  Proof.
    intros PV WN RD. unfold format_sep. rewrite (land15_ok prev PV).
    unfold nextvis. rewrite (nextvis_go_ext fs dfmt_fs).
    destruct (nv_lead d ([91] ++ hws (d_mid1 d) ++ n ++ hws (d_mid2 d) ++ [93] ++ rest) s) as (s1 & (S1 & S2 & S3) & E1).
    rewrite E1. cbn [app]. rewrite nv_vis by (reflexivity || lia). zb.
    change (sstart fs) with 91. zb. cbn [negb].
    assert (PE : pelems (pth (tick s1 91)) = []).
    { autorewrite with pst. rewrite S1. destruct RD as (R1 & _). exact R1. }
    rewrite PE.
    assert (RD1 : ready (with_curr (tick s1 91) PSection) []).
    { destruct RD as (R1 & R2 & R3 & R4 & R5). unfold ready. autorewrite with pst. rewrite S1, S2. auto. }
    destruct (sep_section_name d n rest _ [] WN RD1) as (s' & E2 & Q). exists s'. auto.
  Qed.

  Lemma sep_close d rest s E x prev :
    prev = 1 \/ prev = 9 \/ prev = 11 -> ready s (x :: E) ->
    exists s', format_sep fs a prev (lead d ++ [91] ++ rest) s = (PSectEnd, rest, s') /\
               pelems (pth s') = x :: E /\ pcurr s' = PSectEnd /\ pbin (pth s') = false.
  Proof.
    intros PV RD. unfold format_sep. rewrite (land15_ok prev PV).
    unfold nextvis. rewrite (nextvis_go_ext fs dfmt_fs).
    destruct (nv_lead d ([91] ++ rest) s) as (s1 & (S1 & S2 & S3) & E1).
    rewrite E1. cbn [app]. rewrite nv_vis by (reflexivity || lia). zb.
    change (sstart fs) with 91. zb. cbn [negb].
    assert (PE : pelems (pth (tick s1 91)) = x :: E).
    { autorewrite with pst. rewrite S1. destruct RD as (R1 & _). exact R1. }
    rewrite PE. eexists. split; [reflexivity|]. autorewrite with pst. rewrite S1. destruct RD as (R1 & _ & _ & (_ & RN) & _). auto.
  Qed.

  Lemma sep_reopen d n rest s :
    wfs n -> ready s [] ->
    exists s', format_sep fs a PSectEnd (hws (d_mid1 d) ++ n ++ hws (d_mid2 d) ++ [93] ++ rest) s = (PSection, rest, s') /\
               pelems (pth s') = [n] /\ bufok (pth s') /\ pcurr s' = Z.lor PSection PName.
  Proof.
    intros WN RD. unfold format_sep. change (Z.land PSectEnd 15 =? PSectEnd) with true. cbv iota.
    assert (RD1 : ready (with_curr s PSection) []).
    { destruct RD as (R1 & R2 & R3 & R4 & R5). unfold ready. now autorewrite with pst. }
    destruct (sep_section_name d n rest _ [] WN RD1) as (s' & E2 & Q). exists s'. auto.
  Qed.

  Lemma sep_eof final s prev :
    prev = 1 \/ prev = 9 \/ prev = 11 ->
    exists s', format_sep fs a prev (lead final) s = (0, [], s').
  Proof.
    intros PV. unfold format_sep. rewrite (land15_ok prev PV).
    unfold nextvis. rewrite (nextvis_go_ext fs dfmt_fs).
    destruct (nv_lead final [] s) as (s1 & _ & E1). rewrite app_nil_r in E1. rewrite E1.
    cbn [nextvis_go]. zb. eexists. reflexivity.
  Qed.
End Sep.
