(* C08/RoundTree.v — C09, prefix style: the mpt_parse_config loop with mpt_node_append on a
   printed forest rebuilds exactly that forest (induction over the decorated items). *)
From Coq Require Import List ZArith Lia Bool.
From MptV Require Import C08.ParseModel C08.ParseBase C08.ParseProofs C08.ParseConfig
  C08.PrintModel C08.RoundLex C08.RoundPre.
Import ListNotations.
Local Open Scope Z_scope.

(* ---------------------------------------------------------------- induction over nested items *)
Lemma ditem_ind2 (P : ditem -> Prop) :
  (forall d n v, P (DOpt d n v)) ->
  (forall d n ks dc, Forall P ks -> P (DSec d n ks dc)) ->
  forall i, P i.
Proof.
  intros H1 H2. fix IH 1. intros [d n v|d n ks dc]; [apply H1|]. apply H2.
  induction ks as [|k ks IHks]; constructor; [apply IH|exact IHks].
Qed.

Lemma item_ind2 (P : item -> Prop) :
  (forall n v, P (Opt n v)) ->
  (forall n ks, Forall P ks -> P (Sec n ks)) ->
  forall i, P i.
Proof.
  intros H1 H2. fix IH 1. intros [n v|n ks]; [apply H1|]. apply H2.
  induction ks as [|k ks IHks]; constructor; [apply IH|exact IHks].
Qed.

(* ---------------------------------------------------------------- fuel is only a bound *)
Section Mono.
  Variable H : Type.
  Variable save : H -> event -> option (H + unit).

  Lemma config_loop_mono fam f a : forall n prev l s h,
    c_ret (config_loop save n fam f a prev l s h) <> ROutOfFuel ->
    forall m, (n <= m)%nat -> config_loop save m fam f a prev l s h = config_loop save n fam f a prev l s h.
  Proof.
    induction n as [|n IH]; intros prev l s h NF m LE.
    - cbn in NF. now destruct NF.
    - destruct m as [|m]; [lia|]. cbn [config_loop] in *.
      destruct (next_elem fam f a prev l s) as [[ret r] s1].
      destruct (ret <=? 0); [reflexivity|].
      destruct (if negb (Z.land ret PData =? 0) then post_read s1 (valid s1) else Some []) as [vb|]; [|reflexivity].
      destruct (save h _) as [[h1|[]]|]; [|reflexivity..].
      destruct (negb (Z.land ret PSectEnd =? 0)).
      + destruct (path_del (pth s1)) as [d p1]. destruct (d <? 0); [reflexivity|].
        apply IH; [exact NF|lia].
      + apply IH; [exact NF|lia].
  Qed.
End Mono.

(* ---------------------------------------------------------------- the builder *)
Definition se (prev : Z) : bool := negb (Z.land prev PSectEnd =? 0).

(* the open sections with all finished children folded in *)
Definition lb (prev : Z) (b : builder) : builder :=
  if se prev then match b with f :: p :: rest => close_frame f p :: rest | _ => b end else b.

Definition add_kid (t : tree) (b : builder) : builder :=
  match b with p :: rest => mkFrame (fname p) (fval p) (t :: fkids p) :: rest | [] => [] end.

Definition okb (prev : Z) (b : builder) : Prop :=
  prev <> 0 /\ b <> [] /\ (se prev = true -> exists f p rest, b = f :: p :: rest).

Lemma lb_nonempty prev b : okb prev b -> exists p rest, lb prev b = p :: rest.
Proof.
  intros (_ & NE & S). unfold lb. destruct (se prev).
  - destruct (S eq_refl) as (f & p & rest & ->). eauto.
  - destruct b; [now destruct NE|eauto].
Qed.

Lemma fold_add_kid ts : forall p rest,
  fold_left (fun b t => add_kid t b) ts (p :: rest) = mkFrame (fname p) (fval p) (rev ts ++ fkids p) :: rest.
Proof.
  induction ts as [|t ts IH]; intros p rest; [destruct p; reflexivity|].
  cbn [fold_left add_kid]. rewrite IH. cbn [fname fval fkids rev]. now rewrite <- app_assoc.
Qed.

(* mpt_node_append for an element with a name (section, option) *)
Lemma node_append_named b ret prev E n first vo :
  okb prev b -> ret = 1 \/ ret = 3 \/ ret = 7 -> len n <= IDENT_MAX ->
  node_append b (mkEv ret prev (E ++ [n]) first vo) = Some (inl (mkFrame n vo [] :: lb prev b)).
Proof.
  intros (P0 & NE & S) R L. unfold node_append. cbn [ev_ret ev_prev ev_path ev_val].
  assert (C1 : (Z.land ret 15 =? 0) = false) by (destruct R as [->|[->| ->]]; reflexivity).
  assert (C2 : (ret =? PSectEnd) = false) by (destruct R as [->|[->| ->]]; reflexivity).
  assert (C3 : negb (Z.land ret PSection =? 0) = true) by (destruct R as [->|[->| ->]]; reflexivity).
  rewrite C1, C2, C3.
  destruct (E ++ [n]) as [|x es] eqn:EE; [now destruct (app_cons_not_nil E [] n)|]. rewrite <- EE, last_last.
  assert (MV : (match vo with None => Some None
                | Some v => option_map (fun kv => Some (snd kv)) (meta_new v) end) = Some vo).
  { destruct vo as [v|]; [|reflexivity]. unfold meta_new. destruct (_ <=? 249); reflexivity. }
  rewrite MV. fold (len n). replace (IDENT_MAX <? len n) with false by (symmetry; apply Z.ltb_ge; lia).
  unfold lb, se in *. apply Z.eqb_neq in P0. rewrite P0. cbn [negb andb].
  destruct (Z.land prev PSectEnd =? 0); cbn [negb] in *; [reflexivity|].
  destruct (S eq_refl) as (f & p & rest & ->). reflexivity.
Qed.

Lemma node_append_end b prev E first :
  okb prev b -> node_append b (mkEv PSectEnd prev E first None) = Some (inl (lb prev b)).
Proof.
  intros (P0 & NE & S). unfold node_append. cbn [ev_ret ev_prev]. change (Z.land PSectEnd 15 =? 0) with false.
  change (PSectEnd =? PSectEnd) with true. cbv iota. unfold lb, se in *.
  destruct (Z.land prev PSectEnd =? 0); cbn [negb] in *; [reflexivity|].
  destruct (S eq_refl) as (f & p & rest & ->). reflexivity.
Qed.

(* ---------------------------------------------------------------- the loop on printed items *)
Fixpoint steps (i : ditem) : nat :=
  match i with
  | DOpt _ _ _ => 1
  | DSec _ _ ks _ => S (fold_right (fun k acc => steps k + acc)%nat 1%nat ks)
  end.
Definition steps_list (ks : list ditem) : nat := fold_right (fun k acc => steps k + acc)%nat 0%nat ks.

Lemma steps_sec ks : fold_right (fun k acc => steps k + acc)%nat 1%nat ks = (steps_list ks + 1)%nat.
Proof. unfold steps_list. induction ks as [|k ks IH]; cbn [fold_right]; [reflexivity|]. rewrite IH. lia. Qed.

Lemma ready_next p E ln ca :
  pelems p = E -> rpost p = [] -> plen p = 0 -> pkeep p = false -> pbin p = false -> ready (mkPst ln ca p 0 0) E.
Proof. unfold ready. cbn. intuition auto. Qed.

Lemma removelast_app1 {A} (l : list A) x : removelast (l ++ [x]) = l.
Proof. apply removelast_last. Qed.

Section Run.
  Variable a : allow.

  Definition loop := config_loop node_append.

  (* what processing one item achieves *)
  Definition item_ok (i : ditem) : Prop :=
    forall depth, wf_item StPre a depth (strip i) = true ->
    forall k s prev b fuel E, ready s E -> okb prev b ->
    exists s' prev' b',
      loop (steps i + fuel)%nat FamPre fd a prev (print_pre i ++ k) s b = loop fuel FamPre fd a prev' k s' b' /\
      ready s' E /\ okb prev' b' /\ se prev' = true /\
      lb prev' b' = add_kid (abs_item (strip i)) (lb prev b).

  Lemma opt_ok d n v : item_ok (DOpt d n v).
  Proof.
    intros depth WF k s prev b fuel E RD OK. cbn [strip wf_item] in WF. apply andb_true_iff in WF. destruct WF as [WN WV].
    apply wf_name_wfn in WN.
    destruct (option_line a d n v k s E WN WV RD) as (s1 & E1 & Q1 & Q2 & Q3 & Q4 & QB).
    cbn [steps print_pre Nat.add]. unfold loop. cbn [config_loop next_elem]. rewrite E1.
    assert (R37 : (match v with [] => 3 | _ => 7 end) = 3 /\ v = [] \/ (match v with [] => 3 | _ => 7 end) = 7 /\ v <> []).
    { destruct v; [left|right]; split; auto; discriminate. }
    set (ret := match v with [] => 3 | _ => 7 end) in *.
    assert (RP : (ret <=? 0) = false) by (destruct R37 as [[-> _]|[-> _]]; reflexivity). rewrite RP.
    assert (HD : (if negb (Z.land ret PData =? 0) then post_read s1 (valid s1) else Some [])
                 = Some (match v with [] => [] | _ => v end)).
    { destruct R37 as [[-> ->]|[-> NV]]; [reflexivity|]. change (negb (Z.land 7 PData =? 0)) with true. cbv iota.
      rewrite Q3, (Q4 NV). destruct v; [now destruct NV|reflexivity]. }
    rewrite HD.
    assert (VO : (if negb (Z.land ret PData =? 0) then Some (match v with [] => [] | _ => v end) else None)
                 = match v with [] => None | _ => Some v end).
    { destruct R37 as [[-> ->]|[-> NV]]; [reflexivity|]. destruct v; [now destruct NV|reflexivity]. }
    rewrite VO, Q1.
    destruct WN as [NC NE NF NL NK NLEN].
    rewrite (node_append_named b ret prev E n _ _ OK); [|destruct R37 as [[-> _]|[-> _]]; auto|exact NLEN].
    assert (SE : negb (Z.land ret PSectEnd =? 0) = true) by (destruct R37 as [[-> _]|[-> _]]; reflexivity).
    rewrite SE.
    destruct (path_del (pth s1)) as [dd p1] eqn:PD.
    destruct (path_del_spec _ _ _ PD) as [(_ & _ & X)|(DP & NE1 & PE1 & PL1 & PR1 & PB1)].
    { rewrite Q1 in X. now destruct (app_cons_not_nil E [] n). }
    replace (dd <? 0) with false by (symmetry; apply Z.ltb_ge; lia).
    rewrite Q2. eexists _, 11, _. split; [reflexivity|].
    split.
    { apply ready_next; auto; [rewrite PE1, Q1; apply removelast_app1|eapply path_del_keep; eassumption|
                                rewrite (pbin_del _ _ _ PD); exact QB]. }
    destruct (lb_nonempty _ _ OK) as (p & rest & LB). rewrite LB.
    split; [|split; [reflexivity|]].
    - split; [discriminate|]. split; [discriminate|]. intros _. eauto.
    - unfold lb at 1. change (se 11) with true. cbv iota. cbn [close_frame fname fval fkids rev add_kid abs_item strip].
      destruct v; reflexivity.
  Qed.

  (* a list of items inside one section *)
  Definition items_ok (ks : list ditem) : Prop :=
    forall depth, forallb (wf_item StPre a depth) (map strip ks) = true ->
    forall k s prev b fuel E, ready s E -> okb prev b ->
    exists s' prev' b',
      loop (steps_list ks + fuel)%nat FamPre fd a prev (concat (map print_pre ks) ++ k) s b = loop fuel FamPre fd a prev' k s' b' /\
      ready s' E /\ okb prev' b' /\
      lb prev' b' = fold_left (fun b t => add_kid t b) (map abs_item (map strip ks)) (lb prev b).

  Lemma items_ok_of ks : Forall item_ok ks -> items_ok ks.
  Proof.
    induction 1 as [|i ks Hi _ IH]; intros depth WF k s prev b fuel E RD OK.
    - exists s, prev, b. cbn. auto.
    - cbn [map forallb] in WF. apply andb_true_iff in WF. destruct WF as [W1 W2].
      cbn [map concat steps_list fold_right]. fold (steps_list ks). rewrite <- app_assoc, <- Nat.add_assoc.
      destruct (Hi depth W1 (concat (map print_pre ks) ++ k) s prev b (steps_list ks + fuel)%nat E RD OK)
        as (s1 & prev1 & b1 & E1 & R1 & O1 & _ & L1).
      destruct (IH depth W2 k s1 prev1 b1 fuel E R1 O1) as (s2 & prev2 & b2 & E2 & R2 & O2 & L2).
      exists s2, prev2, b2. unfold loop in *. rewrite E1, E2. split; [reflexivity|]. split; [exact R2|]. split; [exact O2|].
      rewrite L2, L1. reflexivity.
  Qed.

  Lemma sec_ok d n ks dc : Forall item_ok ks -> item_ok (DSec d n ks dc).
  Proof.
    intros HK depth WF k s prev b fuel E RD OK.
    cbn [strip wf_item] in WF. apply andb_true_iff in WF. destruct WF as [WN WK].
    apply wf_name_wfn in WN. pose proof (items_ok_of ks HK) as IK.
    cbn [print_pre]. rewrite <- !app_assoc.
    destruct (section_head a d n (concat (map print_pre ks) ++ lead dc ++ hws (d_trail dc) ++ [125] ++ k) s E WN RD)
      as (s1 & E1 & Q1 & Q2 & Q3).
    cbn [steps]. rewrite steps_sec. unfold loop. cbn [Nat.add config_loop next_elem].
    replace ((if d_brace_nl d then [10] ++ ws (d_mid2 d) else []) ++ [123] ++
             concat (map print_pre ks) ++ lead dc ++ hws (d_trail dc) ++ [125] ++ k)
      with ((if d_brace_nl d then [10] ++ ws (d_mid2 d) else []) ++ 123 ::
             concat (map print_pre ks) ++ lead dc ++ hws (d_trail dc) ++ [125] ++ k) by reflexivity.
    rewrite E1. change (PSection <=? 0) with false. change (negb (Z.land PSection PData =? 0)) with false.
    cbv iota. rewrite Q1.
    destruct WN as [NC NE NF NL NK NLEN].
    rewrite (node_append_named b PSection prev E n _ None OK); [|left; reflexivity|exact NLEN].
    change (negb (Z.land PSection PSectEnd =? 0)) with false. cbv iota. rewrite Q3.
    set (s2 := mkPst _ _ _ _ _). set (b1 := _ :: lb prev b).
    assert (R2 : ready s2 (E ++ [n])).
    { subst s2. rewrite (invalidate_buf _ Q2). apply ready_next; auto. }
    assert (O2 : okb (Z.lor PSection PName) b1).
    { split; [discriminate|]. split; [discriminate|]. intros X. discriminate. }
    rewrite <- Nat.add_assoc.
    destruct (IK depth WK (lead dc ++ hws (d_trail dc) ++ [125] ++ k) s2 (Z.lor PSection PName) b1 (1 + fuel)%nat (E ++ [n]) R2 O2)
      as (s3 & prev3 & b3 & E3 & R3 & O3 & L3).
    fold loop. rewrite E3. unfold loop. cbn [Nat.add config_loop next_elem].
    destruct (section_end a dc k s3 (E ++ [n]) R3) as (s4 & E4 & P4 & C4 & QB4).
    change ([125] ++ k) with (125 :: k). rewrite E4.
    change (PSectEnd <=? 0) with false. change (negb (Z.land PSectEnd PData =? 0)) with false. cbv iota.
    rewrite (node_append_end b3 prev3 _ _ O3).
    change (negb (Z.land PSectEnd PSectEnd =? 0)) with true. cbv iota.
    destruct (path_del (pth s4)) as [dd p1] eqn:PD.
    destruct (path_del_spec _ _ _ PD) as [(_ & _ & X)|(DP & NE1 & PE1 & PL1 & PR1 & PB1)].
    { rewrite P4 in X. now destruct (app_cons_not_nil E [] n). }
    replace (dd <? 0) with false by (symmetry; apply Z.ltb_ge; lia).
    rewrite C4. eexists _, PSectEnd, _. split; [reflexivity|].
    split.
    { apply ready_next; auto; [rewrite PE1, P4; apply removelast_app1|eapply path_del_keep; eassumption|
                                rewrite (pbin_del _ _ _ PD); exact QB4]. }
    (* the builder *)
    destruct (lb_nonempty _ _ OK) as (p & rest & LB).
    assert (L4 : lb prev3 b3 = mkFrame n None (rev (map abs_item (map strip ks))) :: p :: rest).
    { rewrite L3. change (lb (Z.lor PSection PName) b1) with b1. subst b1. rewrite fold_add_kid, LB. cbn [fname fval fkids].
      now rewrite app_nil_r. }
    rewrite L4. split; [|split; [reflexivity|]].
    - split; [discriminate|]. split; [discriminate|]. intros _. eauto.
    - unfold lb at 1. change (se PSectEnd) with true. cbv iota. rewrite LB.
      unfold close_frame, add_kid. cbn [fname fval fkids]. rewrite rev_involutive. reflexivity.
  Qed.

  Lemma all_items_ok i : item_ok i.
  Proof. induction i using ditem_ind2; [apply opt_ok|now apply sec_ok]. Qed.

  Lemma all_lists_ok ks : items_ok ks.
  Proof. apply items_ok_of. apply Forall_forall. intros; apply all_items_ok. Qed.
End Run.
