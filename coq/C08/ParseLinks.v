(* C08/ParseLinks.v — mpt_parse_node never reaches the model's fault code: the current
   operation noted by an element call matches its return code, so mpt_node_append never
   has to append a sibling to the temporary root (and never walks above it). *)
From Coq Require Import List ZArith Lia Bool.
From MptV Require Import C08.ParseModel C08.ParseSpec C08.ParseBase C08.ParseProofs C08.ParseConfig.
Import ListNotations.
Local Open Scope Z_scope.

(* parse->curr after a positive return *)
Definition curok (ret c : Z) : Prop :=
  (ret = 1 -> c = 1 \/ c = 9) /\ (ret = 2 -> c = 2) /\ (ret = 3 \/ ret = 7 -> c = 11) /\ (ret = 4 -> c = 4).

Definition cur_el (x : R) : Prop := let '(ret, _, s') := x in 0 < ret -> curok ret (pcurr s').
(* inside the option functions the caller has already noted Option|Name *)
Definition cur_opt (s : pst) (x : R) : Prop :=
  let '(ret, _, s') := x in 0 < ret -> (ret = 4 /\ pcurr s' = 4) \/ ((ret = 3 \/ ret = 7) /\ pcurr s' = pcurr s).

Lemma curok_opt s x : pcurr s = 11 -> cur_opt s x -> cur_el x.
Proof.
  destruct x as [[ret r] s']. intros P H R. destruct (H R) as [[-> C]|[[->| ->] C]]; unfold curok; rewrite C, ?P;
    repeat split; intros; try lia; auto.
Qed.

Lemma cur_stop ret r s' : ret <= 0 -> cur_el (ret, r, s').
Proof. intros A B. lia. Qed.
Lemma cur_opt_stop s ret r s' : ret <= 0 -> cur_opt s (ret, r, s').
Proof. intros A B. lia. Qed.

Lemma option_assign_cur f take adderr l s : adderr <= 0 -> cur_opt s (option_assign f take adderr l s).
Proof.
  intros A. unfold option_assign.
  destruct (_ <? 0); [apply cur_opt_stop; destruct (_ =? RFault); codes; lia|].
  destruct (path_add _ _) as [ad p1]. destruct (ad <? 0); [now apply cur_opt_stop|].
  set (s1 := mkPst _ _ _ _ _). pose proof (parse_data_dl f l s1) as D. destruct (parse_data f l s1) as [[d r] s2].
  destruct D as (_ & _ & _ & V).
  destruct (d <? 0) eqn:DN; [apply Z.ltb_lt in DN; now apply cur_opt_stop; lia|].
  apply Z.ltb_ge in DN. destruct V as [->|[_ C]]; [codes; lia|].
  destruct (d =? 0); intros _; right; (split; [codes; cbn; auto|exact C]).
Qed.

Lemma option_tail_cur take l s : cur_opt s (option_tail take l s).
Proof.
  unfold option_tail. destruct (negb _); [apply cur_opt_stop; codes; lia|].
  intros _. left. split; [reflexivity|now autorewrite with pst].
Qed.

Lemma cur_opt_keep s s1 x : pcurr s1 = pcurr s -> cur_opt s1 x -> cur_opt s x.
Proof. destruct x as [[ret r] s']. intros P H R. rewrite <- P. auto. Qed.

Lemma option_body_cur f take c l s next :
  (forall s1, pcurr s1 = pcurr s -> cur_opt s (next s1)) -> cur_opt s (option_body f take c l s next).
Proof.
  intros NX. unfold option_body.
  destruct (isspace c).
  - destruct (assign f =? 0); [apply option_assign_cur; codes; lia|].
    destruct (c =? 10); [|now apply NX].
    destruct (_ && _); [apply cur_opt_stop; codes; lia|apply option_tail_cur].
  - destruct (c =? assign f); [apply option_assign_cur; codes; lia|].
    destruct (c =? oend f); [apply option_tail_cur|].
    destruct (iscomment f c); [|apply NX; now autorewrite with pst].
    destruct (negb _); [apply cur_opt_stop; codes; lia|].
    pose proof (endline_rd l s) as X. destruct (endline l s) as [[c2 r2] s2].
    eapply cur_opt_keep; [|apply option_tail_cur]. apply (rd_curr _ _ _ _ _ X).
Qed.

Lemma option_loop_cur f take l : forall c s, cur_opt s (option_loop f take c l s).
Proof.
  induction l as [|a l IH]; intros c s; rewrite option_loop_eq; apply option_body_cur; intros s1 P.
  - apply cur_opt_stop. codes; lia.
  - destruct (a <? 0); [apply cur_opt_stop; destruct (a =? -2); codes; lia|].
    eapply cur_opt_keep; [|apply IH]. destruct (a =? 0); autorewrite with pst; exact P.
Qed.

Lemma parse_option_cur f a l s : cur_el (parse_option f a l s).
Proof.
  unfold parse_option. set (named := araw a && negb (valid s =? 0) && (ostart f =? 0)).
  destruct (if named then getchar l s else nextvis f l s) as [[c r] s1].
  clearbody named. destruct (c <? 0).
  - destruct (negb (c =? -2)); [apply cur_stop; codes; lia|]. apply cur_stop. destruct (pelems _); codes; lia.
  - destruct (negb (ostart f =? 0) && negb (c =? ostart f) && negb (valid s1 =? 0)); [apply cur_stop; codes; lia|].
    eapply curok_opt; [|apply option_loop_cur]. destruct named; now autorewrite with pst.
Qed.

Lemma section_add_cur take cur l s : (cur = 1 \/ cur = 9) -> cur_el (section_add take cur l s).
Proof.
  intros C. unfold section_add. destruct (_ <? 0); [apply cur_stop; destruct (_ =? RFault); codes; lia|].
  destruct (path_add _ _) as [ad p1]. destruct (ad <? 0); [apply cur_stop; codes; lia|].
  intros _. unfold curok. autorewrite with pst. codes. repeat split; intros; try lia; auto.
Qed.

Lemma pre_tail_cur f a c l s : cur_el (pre_tail f a c l s).
Proof.
  unfold pre_tail. destruct (_ && (c =? sstart f)); [apply section_add_cur; right; reflexivity|].
  destruct (_ && (c =? oend f)); [|apply cur_stop; codes; lia].
  destruct (_ <? 0); [apply cur_stop; codes; lia|].
  intros _. unfold curok. autorewrite with pst. codes. repeat split; intros; try lia; auto.
Qed.

Lemma pre_body_cur f a c l s next :
  (forall s1, cur_el (next s1)) -> cur_el (pre_body f a c l s next).
Proof.
  intros NX. unfold pre_body.
  destruct (c <? 0); [apply cur_stop; codes; lia|].
  destruct (c =? send f).
  { intros _. unfold curok. autorewrite with pst. codes. repeat split; intros; try lia; auto. }
  destruct (c =? sstart f); [apply pre_tail_cur|].
  destruct (c =? ostart f); [apply parse_option_cur|].
  destruct (c =? assign f).
  { eapply curok_opt; [|apply option_assign_cur; codes; lia]. now autorewrite with pst. }
  destruct (c =? oend f); [apply pre_tail_cur|].
  destruct (iscomment f c); [destruct (endline l s) as [[c2 r2] s2]; apply pre_tail_cur|].
  destruct (negb (isspace c)); [apply NX|].
  destruct (c =? 10); [|apply NX].
  destruct (nextvis f l _) as [[c2 r2] s2]. apply pre_tail_cur.
Qed.

Lemma pre_loop_cur f a l : forall c s, cur_el (pre_loop f a c l s).
Proof.
  induction l as [|x l IH]; intros c s; rewrite pre_loop_eq; apply pre_body_cur; intros s1.
  - apply pre_tail_cur.
  - destruct (x <? 0); [apply pre_tail_cur|apply IH].
Qed.

Lemma format_pre_cur f a l s : cur_el (format_pre f a l s).
Proof.
  unfold format_pre. destruct (nextvis f l s) as [[c r] s1].
  destruct (c <? 0); [apply cur_stop; destruct (pelems _); codes; lia|].
  destruct (c =? sstart f); [apply section_add_cur; left; reflexivity|apply pre_loop_cur].
Qed.

Lemma enc_section_cur f a l s : cur_el (enc_section f a l s).
Proof.
  unfold enc_section. destruct (nextvis f l _) as [[c r] s1].
  destruct (c <=? 0); [apply cur_stop; codes; lia|].
  set (s2 := set_valid _).
  pose proof (enc_loop_dl f r s2) as D. destruct (enc_loop f r s2) as [[ok r3] s3].
  destruct D as (_ & _ & _ & C).
  destruct ok; [|apply cur_stop; codes; lia].
  cbv zeta. destruct (_ <? 0); [apply cur_stop; destruct (_ =? RFault); codes; lia|].
  destruct (path_add _ _) as [ad p1]. destruct (ad <? 0); [apply cur_stop; codes; lia|].
  intros _. unfold curok. cbn [pcurr]. rewrite C. subst s2. autorewrite with pst. codes.
  repeat split; intros; try lia; auto.
Qed.

Lemma enc_other_cur f a c l s : cur_el (enc_other f a c l s).
Proof.
  unfold enc_other. destruct (negb _).
  - destruct (negb _); [apply cur_stop; codes; lia|apply parse_option_cur].
  - apply parse_option_cur.
Qed.

Lemma format_enc_cur f a prev l s : cur_el (format_enc f a prev l s).
Proof.
  unfold format_enc. destruct (sstart f =? send f).
  - destruct (prev =? PSectEnd); [apply enc_section_cur|].
    destruct (nextvis f l s) as [[c r] s1].
    destruct (c <? 0); [apply cur_stop; lia|].
    destruct (_ && (c =? sstart f)).
    { intros _. unfold curok. autorewrite with pst. codes. repeat split; intros; try lia; auto. }
    destruct (negb _); [apply enc_other_cur|apply enc_section_cur].
  - destruct (nextvis f l s) as [[c r] s1].
    destruct (c <? 0); [apply cur_stop; destruct (pelems _); [destruct (c =? -2)|]; codes; lia|].
    destruct (negb _); [apply enc_other_cur|apply enc_section_cur].
Qed.

Lemma sep_body_cur f a c l s next :
  (forall s1, cur_el (next s1)) -> cur_el (sep_body f a c l s next).
Proof.
  intros NX. unfold sep_body.
  destruct (c =? send f); [apply section_add_cur; right; reflexivity|].
  destruct (iscomment f c); [apply cur_stop; codes; lia|].
  destruct (negb (isspace c)); [apply NX|].
  destruct (c =? 10); [apply cur_stop; codes; lia|apply NX].
Qed.

Lemma sep_loop_cur f a l : forall c s, cur_el (sep_loop f a c l s).
Proof.
  induction l as [|x l IH]; intros c s; rewrite sep_loop_eq; apply sep_body_cur; intros s1.
  - apply cur_stop. codes; lia.
  - destruct (x <? 0); [apply cur_stop; codes; lia|apply IH].
Qed.

Lemma sep_first_cur f a l s : cur_el (sep_first f a l s).
Proof.
  unfold sep_first. destruct (negb _); [|apply sep_loop_cur].
  destruct (getchar l s) as [[c r] s1].
  destruct (c <? 0); [apply cur_stop; destruct (c =? -2); codes; lia|apply sep_loop_cur].
Qed.

Lemma format_sep_cur f a prev l s : cur_el (format_sep f a prev l s).
Proof.
  unfold format_sep. destruct (_ =? PSectEnd); [apply sep_first_cur|].
  destruct (nextvis f l s) as [[c r] s1].
  destruct (c <? 0); [destruct (c =? -2); apply cur_stop; codes; lia|].
  destruct (negb (c =? sstart f)).
  - destruct (negb _); apply parse_option_cur.
  - destruct (pelems (pth s1)); [apply sep_first_cur|].
    intros _. unfold curok. autorewrite with pst. codes. repeat split; intros; try lia; auto.
Qed.

Lemma next_elem_cur fam f a prev l s : cur_el (next_elem fam f a prev l s).
Proof.
  destruct fam; cbn [next_elem];
    [apply format_pre_cur|apply format_enc_cur|apply format_sep_cur|apply parse_option_cur].
Qed.

(* ---------------------------------------------------------------- the node builder *)
Definition seb (prev : Z) : bool := negb (Z.land prev PSectEnd =? 0).
Definition lenb (b : builder) : Z := Z.of_nat (length b).
Definition depth (s : pst) : Z := Z.of_nat (length (pelems (pth s))).

(* the cursor lies at least as deep as the open sections (one deeper after a finished child) *)
Definition binv (prev : Z) (b : builder) (s : pst) : Prop :=
  prev <> 0 /\ lenb b - 1 >= depth s + (if seb prev then 1 else 0).

Lemma node_append_cases b ret prev path first vo :
  prev <> 0 -> (seb prev = true -> 2 <= lenb b) -> ret = 1 \/ ret = 2 \/ ret = 3 \/ ret = 4 \/ ret = 7 ->
  node_append b (mkEv ret prev path first vo) = None \/
  exists b', node_append b (mkEv ret prev path first vo) = Some (inl b') /\
    lenb b' = lenb b + (if ret =? 2 then (if seb prev then -1 else 0) else (if seb prev then 0 else 1)).
Proof.
  intros P0 SB R. unfold node_append. cbn [ev_ret ev_prev ev_path ev_val].
  assert (C1 : (Z.land ret 15 =? 0) = false) by (destruct R as [->|[->|[->|[->| ->]]]]; reflexivity).
  rewrite C1. unfold seb in *.
  destruct (ret =? PSectEnd) eqn:R2.
  - apply Z.eqb_eq in R2. subst ret. change (PSectEnd =? 2) with true. cbv iota.
    destruct (negb (Z.land prev PSectEnd =? 0)).
    + destruct b as [|f0 [|p rest]]; [left; reflexivity|left; reflexivity|].
      right. eexists. split; [reflexivity|]. unfold lenb. cbn [length]. lia.
    + right. eexists. split; [reflexivity|]. lia.
  - assert (R2' : (ret =? 2) = false) by exact R2. rewrite R2'.
    destruct (if negb (Z.land ret PSection =? 0) then _ else Some []) as [n|]; [|left; reflexivity].
    destruct (match vo with None => Some None | Some v => _ end) as [mv|]; [|left; reflexivity].
    destruct (IDENT_MAX <? _); [left; reflexivity|].
    apply Z.eqb_neq in P0. rewrite P0. cbn [negb andb].
    destruct (Z.land prev PSectEnd =? 0); cbn [negb] in *.
    + right. eexists. split; [reflexivity|]. unfold lenb. cbn [length]. lia.
    + destruct b as [|f0 [|p rest]].
      * specialize (SB eq_refl). unfold lenb in SB. cbn in SB. lia.
      * specialize (SB eq_refl). unfold lenb in SB. cbn in SB. lia.
      * right. eexists. split; [reflexivity|]. unfold lenb. cbn [length]. lia.
Qed.

Lemma removelast_length {A} (l : list A) : l <> [] -> Z.of_nat (length (removelast l)) = Z.of_nat (length l) - 1.
Proof.
  intros NE. destruct (exists_last NE) as (l' & x & ->). rewrite removelast_last, app_length. cbn. lia.
Qed.

Lemma node_loop_no_fault fam f a : forall fuel prev l s b,
  sinv s -> binv prev b s ->
  c_ret (config_loop node_append fuel fam f a prev l s b) <> RFault.
Proof.
  induction fuel as [|fuel IH]; intros prev l s b SI [P0 BI]; [cbn; codes; lia|].
  cbn [config_loop].
  pose proof (next_elem_el fam f a prev l s) as EL.
  pose proof (next_elem_cur fam f a prev l s) as CU.
  destruct (next_elem fam f a prev l s) as [[ret r] s1].
  destruct EL as (_ & (OK & E1 & E2) & SA). destruct (SA SI) as (NF & PI & VB).
  destruct (ret <=? 0) eqn:RN; [cbn; codes; lia|]. apply Z.leb_gt in RN.
  assert (R5 : ret = 1 \/ ret = 2 \/ ret = 3 \/ ret = 4 \/ ret = 7) by (unfold okret in OK; lia).
  specialize (CU RN). destruct CU as (C1 & C2 & C3 & C4).
  assert (PR : exists vb, (if negb (Z.land ret PData =? 0) then post_read s1 (valid s1) else Some []) = Some vb).
  { destruct (negb (Z.land ret PData =? 0)) eqn:HD; [|eexists; reflexivity].
    assert (ret = 4 \/ ret = 7).
    { destruct R5 as [->|[->|[->|[->| ->]]]]; cbn in HD; try discriminate; auto. }
    rewrite post_read_ok; [eexists; reflexivity|]. split; auto. }
  destruct PR as [vb PRE]. rewrite PRE.
  assert (SB : seb prev = true -> 2 <= lenb b).
  { intros X. rewrite X in BI. unfold depth in BI. lia. }
  destruct (node_append_cases b ret prev (pelems (pth s1)) (pfirst (pth s1))
              (if negb (Z.land ret PData =? 0) then Some vb else None) P0 SB R5) as [NA|(b' & NA & LB)];
    rewrite NA; [cbn; codes; lia|].
  destruct (negb (Z.land ret PSectEnd =? 0)) eqn:SE.
  - destruct (path_del (pth s1)) as [d p1] eqn:PD.
    destruct (path_del_pinv _ _ _ PI PD) as [PI1 PL1].
    destruct (path_del_elems _ _ _ PD) as [[DN _]|(DP & NE1 & PE1)].
    { replace (d <? 0) with true by (symmetry; apply Z.ltb_lt; lia). cbn. codes; lia. }
    replace (d <? 0) with false by (symmetry; apply Z.ltb_ge; lia).
    apply IH; [apply sinv_next; auto|].
    assert (D1 : depth (mkPst (line s1) (calls s1) p1 0 0) = Z.of_nat (length (pelems (pth s1))) - 1).
    { unfold depth. cbn [pth]. rewrite PE1. now apply removelast_length. }
    assert (RS : ret = 2 \/ ret = 3 \/ ret = 7).
    { destruct R5 as [->|[->|[->|[->| ->]]]]; cbn in SE; try discriminate; auto. }
    unfold binv. rewrite D1. unfold depth in BI.
    destruct RS as [->|RS].
    + rewrite (C2 eq_refl). split; [discriminate|]. change (seb 2) with true. cbv iota.
      rewrite (E2 (or_introl eq_refl)). change (2 =? 2) with true in LB. cbv iota in LB.
      destruct (seb prev); lia.
    + rewrite (C3 RS). split; [discriminate|]. change (seb 11) with true. cbv iota.
      destruct (E1 (or_intror RS)) as [n En]. rewrite En, app_length. cbn [length].
      replace (ret =? 2) with false in LB by (destruct RS as [->| ->]; reflexivity).
      destruct (seb prev); lia.
  - apply IH; [apply sinv_next; [now apply pinv2_invalidate|now apply plen_invalidate]|].
    assert (D1 : depth (mkPst (line s1) (calls s1) (path_invalidate (pth s1)) 0 0) = Z.of_nat (length (pelems (pth s1)))).
    { unfold depth. cbn [pth]. now rewrite pelems_invalidate. }
    assert (RS : ret = 1 \/ ret = 4).
    { destruct R5 as [->|[->|[->|[->| ->]]]]; cbn in SE; try discriminate; auto. }
    unfold binv. rewrite D1. unfold depth in BI.
    replace (ret =? 2) with false in LB by (destruct RS as [->| ->]; reflexivity).
    destruct RS as [->| ->].
    + split; [destruct (C1 eq_refl) as [-> | ->]; discriminate|].
      assert (SF : seb (pcurr s1) = false) by (destruct (C1 eq_refl) as [-> | ->]; reflexivity).
      rewrite SF. destruct (E1 (or_introl eq_refl)) as [n En]. rewrite En, app_length. cbn [length].
      destruct (seb prev); lia.
    + rewrite (C4 eq_refl). split; [discriminate|]. change (seb 4) with false. cbv iota.
      rewrite (E2 (or_intror eq_refl)). destruct (seb prev); lia.
Qed.

Lemma parse_node_no_fault target fmt a l : n_ret (parse_node target fmt a l) <> RFault.
Proof.
  unfold parse_node. destruct (parse_format fmt) as [f code].
  destruct (next_fcn code) as [fam|]; [|cbn; codes; lia].
  assert (NF : c_ret (config_loop node_append (config_fuel l) fam f a PSection l pst_init builder_init) <> RFault).
  { apply node_loop_no_fault; [apply sinv_init|]. split; [discriminate|]. cbn. lia. }
  destruct (c_ret _ <? 0); cbn; exact NF.
Qed.
