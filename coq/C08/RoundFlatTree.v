(* C08/RoundFlatTree.v — C09, enclosed and separated style: the mpt_parse_config loop with
   mpt_node_append on a printed forest (options first, then one level of sections holding
   options) rebuilds exactly that forest.  Generic in the element lemmas of the style. *)
From Coq Require Import List ZArith Lia Bool.
From MptV Require Import C08.ParseModel C08.ParseBase C08.ParseProofs C08.ParseConfig
  C08.PrintModel C08.RoundLex C08.RoundPre C08.RoundTree C08.RoundMain C08.RoundFlat.
Import ListNotations.
Local Open Scope Z_scope.

Definition pok (prev : Z) : Prop := prev = 1 \/ prev = 9 \/ prev = 11.
Definition ret37 (v : list Z) : Z := match v with [] => 3 | _ => 7 end.

(* what the closed builder holds *)
Definition val (L : builder) : list tree := close_all L.

Lemma close_all_lb' prev b : okb prev b -> close_all b = close_all (lb prev b).
Proof.
  intros (_ & NE & S). unfold lb. destruct (se prev); [|reflexivity].
  destruct (S eq_refl) as (f & p & rest & ->). reflexivity.
Qed.

Section Flat.
  Variable a : allow.
  Variable fam : family.
  Variable f : format.
  Variable head head2 : deco -> list Z -> list Z.
  Variable wfsec wfopt : list Z -> Prop.

  Hypothesis H_opt : forall d n v rest s E prev,
    pok prev -> wfopt n -> wf_value v = true -> ready s E ->
    exists s', next_elem fam f a prev (print_opt d n v ++ rest) s = (ret37 v, rest, s') /\
      pelems (pth s') = E ++ [n] /\ pcurr s' = 11 /\ valid s' = len v /\
      (v <> [] -> post_read s' (len v) = Some v) /\ pbin (pth s') = false.
  Hypothesis H_open : forall d n rest s prev,
    pok prev -> wfsec n -> ready s [] ->
    exists s', next_elem fam f a prev (head d n ++ rest) s = (PSection, rest, s') /\
      pelems (pth s') = [n] /\ bufok (pth s') /\ pcurr s' = Z.lor PSection PName.
  Hypothesis H_close : forall d n rest s x prev,
    pok prev -> ready s [x] ->
    exists s', next_elem fam f a prev (head d n ++ rest) s = (PSectEnd, head2 d n ++ rest, s') /\
      pelems (pth s') = [x] /\ pcurr s' = PSectEnd /\ pbin (pth s') = false.
  Hypothesis H_reopen : forall d n rest s,
    wfsec n -> ready s [] ->
    exists s', next_elem fam f a PSectEnd (head2 d n ++ rest) s = (PSection, rest, s') /\
      pelems (pth s') = [n] /\ bufok (pth s') /\ pcurr s' = Z.lor PSection PName.
  Hypothesis H_eof : forall final s prev, pok prev -> exists s', next_elem fam f a prev (lead final) s = (0, [], s').
  Hypothesis H_seclen : forall n, wfsec n -> len n <= IDENT_MAX.
  Hypothesis H_optlen : forall n, wfopt n -> len n <= IDENT_MAX.

  Definition floop := config_loop node_append.

  (* ---- one option ---- *)
  Lemma flat_opt d n v k s prev b E :
    pok prev -> wfopt n -> wf_value v = true -> ready s E -> okb prev b ->
    exists s' b',
      (forall fuel, floop (S fuel) fam f a prev (print_opt d n v ++ k) s b = floop fuel fam f a 11 k s' b') /\
      ready s' E /\ okb 11 b' /\ lb 11 b' = add_kid (abs_item (Opt n v)) (lb prev b).
  Proof.
    intros PV WN WV RD OK.
    destruct (H_opt d n v k s E prev PV WN WV RD) as (s1 & E1 & Q1 & Q2 & Q3 & Q4 & QB).
    unfold ret37 in *.
    assert (R37 : (match v with [] => 3 | _ => 7 end) = 3 /\ v = [] \/ (match v with [] => 3 | _ => 7 end) = 7 /\ v <> []).
    { destruct v; [left|right]; split; auto; discriminate. }
    set (ret := match v with [] => 3 | _ => 7 end) in *.
    assert (RP : (ret <=? 0) = false) by (destruct R37 as [[-> _]|[-> _]]; reflexivity).
    assert (HD : (if negb (Z.land ret PData =? 0) then post_read s1 (valid s1) else Some [])
                 = Some (match v with [] => [] | _ => v end)).
    { destruct R37 as [[-> ->]|[-> NV]]; [reflexivity|]. change (negb (Z.land 7 PData =? 0)) with true. cbv iota.
      rewrite Q3, (Q4 NV). destruct v; [now destruct NV|reflexivity]. }
    assert (VO : (if negb (Z.land ret PData =? 0) then Some (match v with [] => [] | _ => v end) else None)
                 = match v with [] => None | _ => Some v end).
    { destruct R37 as [[-> ->]|[-> NV]]; [reflexivity|]. destruct v; [now destruct NV|reflexivity]. }
    assert (NA : node_append b (mkEv ret prev (E ++ [n]) (pfirst (pth s1)) (match v with [] => None | _ => Some v end))
                 = Some (inl (mkFrame n (match v with [] => None | _ => Some v end) [] :: lb prev b))).
    { apply node_append_named; [exact OK|destruct R37 as [[-> _]|[-> _]]; auto|now apply H_optlen]. }
    assert (SE : negb (Z.land ret PSectEnd =? 0) = true) by (destruct R37 as [[-> _]|[-> _]]; reflexivity).
    destruct (path_del (pth s1)) as [dd p1] eqn:PD.
    destruct (path_del_spec _ _ _ PD) as [(_ & _ & X)|(DP & NE1 & PE1 & PL1 & PR1 & PB1)].
    { rewrite Q1 in X. now destruct (app_cons_not_nil E [] n). }
    exists (mkPst (line s1) (calls s1) p1 0 0), (mkFrame n (match v with [] => None | _ => Some v end) [] :: lb prev b).
    split.
    { intros fuel. unfold floop. cbn [config_loop]. rewrite E1, RP, HD, VO, Q1, NA, SE, PD.
      replace (dd <? 0) with false by (symmetry; apply Z.ltb_ge; lia). now rewrite Q2. }
    split.
    { apply ready_next; auto; [rewrite PE1, Q1; apply removelast_app1|eapply path_del_keep; eassumption|
                                rewrite (pbin_del _ _ _ PD); exact QB]. }
    destruct (lb_nonempty _ _ OK) as (p & rest & LB). rewrite LB.
    split.
    - split; [discriminate|]. split; [discriminate|]. intros _. eauto.
    - unfold lb at 1. change (se 11) with true. cbv iota. unfold close_frame, add_kid. cbn [fname fval fkids rev abs_item].
      destruct v; reflexivity.
  Qed.

  (* options of one section (or at top level): decorated options only *)
  Definition is_dopt (i : ditem) : bool := match i with DOpt _ _ _ => true | DSec _ _ _ _ => false end.
  Definition wf_dopt (i : ditem) : Prop :=
    match i with DOpt _ n v => wfopt n /\ wf_value v = true | DSec _ _ _ _ => False end.

  Variable pr : ditem -> list Z.    (* the printer of the style *)
  Hypothesis pr_opt : forall d n v, pr (DOpt d n v) = print_opt d n v.
  Hypothesis pr_sec : forall d n ks dc, pr (DSec d n ks dc) = head d n ++ concat (map pr ks).

  Lemma flat_opts : forall ks k s prev b E,
    Forall wf_dopt ks -> pok prev -> ready s E -> okb prev b ->
    exists s' prev' b',
      (forall fuel, floop (length ks + fuel)%nat fam f a prev (concat (map pr ks) ++ k) s b = floop fuel fam f a prev' k s' b') /\
      ready s' E /\ okb prev' b' /\ pok prev' /\
      lb prev' b' = fold_left (fun b t => add_kid t b) (map abs_item (map strip ks)) (lb prev b).
  Proof.
    induction ks as [|i ks IH]; intros k s prev b E FA PV RD OK.
    - exists s, prev, b. split; [intros fuel; reflexivity|]. cbn. auto.
    - pose proof (Forall_inv FA) as Hi. pose proof (Forall_inv_tail FA) as FA'.
      destruct i as [d n v|]; [|now destruct Hi]. destruct Hi as [WN WV].
      cbn [map concat]. rewrite pr_opt, <- app_assoc.
      assert (PV11 : pok 11) by (right; right; reflexivity).
      destruct (flat_opt d n v (concat (map pr ks) ++ k) s prev b E PV WN WV RD OK) as (s1 & b1 & E1 & R1 & O1 & L1).
      destruct (IH k s1 11 b1 E FA' PV11 R1 O1) as (s2 & prev2 & b2 & E2 & R2 & O2 & P2 & L2).
      exists s2, prev2, b2. split.
      { intros fuel. cbn [length Nat.add]. rewrite E1. apply E2. }
      split; [exact R2|]. split; [exact O2|]. split; [exact P2|].
      rewrite L2, L1. reflexivity.
  Qed.

  Definition wf_dsec (i : ditem) : Prop :=
    match i with DSec _ n ks _ => wfsec n /\ Forall wf_dopt ks | DOpt _ _ _ => False end.

  Lemma pok9 : pok (Z.lor PSection PName). Proof. right; left; reflexivity. Qed.

  (* a section while none is open *)
  Lemma flat_sec_fresh d n ks dc k s prev b :
    pok prev -> wfsec n -> Forall wf_dopt ks -> ready s [] -> okb prev b ->
    exists s' prev' b',
      (forall fuel, floop (S (length ks) + fuel)%nat fam f a prev (pr (DSec d n ks dc) ++ k) s b
                    = floop fuel fam f a prev' k s' b') /\
      ready s' [n] /\ okb prev' b' /\ pok prev' /\
      lb prev' b' = mkFrame n None (rev (map abs_item (map strip ks))) :: lb prev b.
  Proof.
    intros PV WN WK RD OK. rewrite pr_sec, <- app_assoc.
    destruct (H_open d n (concat (map pr ks) ++ k) s prev PV WN RD) as (s1 & E1 & Q1 & Q2 & Q3).
    assert (NA : node_append b (mkEv PSection prev ([] ++ [n]) (pfirst (pth s1)) None)
                 = Some (inl (mkFrame n None [] :: lb prev b))).
    { apply node_append_named; [exact OK|left; reflexivity|now apply H_seclen]. }
    set (s2 := mkPst (line s1) (calls s1) (path_invalidate (pth s1)) 0 0).
    set (b1 := mkFrame n None [] :: lb prev b).
    assert (R2 : ready s2 [n]).
    { subst s2. rewrite (invalidate_buf _ Q2). apply ready_next; auto. }
    assert (O2 : okb (Z.lor PSection PName) b1).
    { split; [discriminate|]. split; [discriminate|]. intros X. discriminate. }
    destruct (flat_opts ks k s2 (Z.lor PSection PName) b1 [n] WK pok9 R2 O2) as (s3 & prev3 & b3 & E3 & R3 & O3 & P3 & L3).
    exists s3, prev3, b3. split.
    { intros fuel. unfold floop. cbn [Nat.add config_loop]. rewrite E1.
      change (PSection <=? 0) with false. change (negb (Z.land PSection PData =? 0)) with false. cbv iota.
      rewrite Q1. change [n] with ([] ++ [n]). rewrite NA.
      change (negb (Z.land PSection PSectEnd =? 0)) with false. cbv iota. rewrite Q3. apply E3. }
    split; [exact R3|]. split; [exact O3|]. split; [exact P3|].
    rewrite L3. change (lb (Z.lor PSection PName) b1) with b1. subst b1.
    rewrite fold_add_kid. cbn [fname fval fkids]. now rewrite app_nil_r.
  Qed.

  (* a section while another one is open: that one ends first *)
  Lemma flat_sec_switch d n ks dc k s prev b x sec0 p rest :
    pok prev -> wfsec n -> Forall wf_dopt ks -> ready s [x] -> okb prev b -> lb prev b = sec0 :: p :: rest ->
    exists s' prev' b',
      (forall fuel, floop (S (S (length ks)) + fuel)%nat fam f a prev (pr (DSec d n ks dc) ++ k) s b
                    = floop fuel fam f a prev' k s' b') /\
      ready s' [n] /\ okb prev' b' /\ pok prev' /\
      lb prev' b' = mkFrame n None (rev (map abs_item (map strip ks))) :: close_frame sec0 p :: rest.
  Proof.
    intros PV WN WK RD OK LB. rewrite pr_sec, <- app_assoc.
    destruct (H_close d n (concat (map pr ks) ++ k) s x prev PV RD) as (s1 & E1 & Q1 & Q2 & QB).
    assert (NA1 : node_append b (mkEv PSectEnd prev [x] (pfirst (pth s1)) None) = Some (inl (lb prev b))).
    { now apply node_append_end. }
    destruct (path_del (pth s1)) as [dd p1] eqn:PD.
    destruct (path_del_spec _ _ _ PD) as [(_ & _ & X)|(DP & NE1 & PE1 & PL1 & PR1 & PB1)].
    { rewrite Q1 in X. discriminate. }
    set (s2 := mkPst (line s1) (calls s1) p1 0 0).
    assert (R2 : ready s2 []).
    { subst s2. apply ready_next; auto; [now rewrite PE1, Q1|eapply path_del_keep; eassumption|
                                          rewrite (pbin_del _ _ _ PD); exact QB]. }
    destruct (H_reopen d n (concat (map pr ks) ++ k) s2 WN R2) as (s3 & E3 & T1 & T2 & T3).
    assert (O2 : okb PSectEnd (lb prev b)).
    { rewrite LB. split; [discriminate|]. split; [discriminate|]. intros _. eauto. }
    assert (NA2 : node_append (lb prev b) (mkEv PSection PSectEnd ([] ++ [n]) (pfirst (pth s3)) None)
                  = Some (inl (mkFrame n None [] :: lb PSectEnd (lb prev b)))).
    { apply node_append_named; [exact O2|left; reflexivity|now apply H_seclen]. }
    set (s4 := mkPst (line s3) (calls s3) (path_invalidate (pth s3)) 0 0).
    set (b1 := mkFrame n None [] :: lb PSectEnd (lb prev b)).
    assert (R4 : ready s4 [n]).
    { subst s4. rewrite (invalidate_buf _ T2). apply ready_next; auto. }
    assert (O4 : okb (Z.lor PSection PName) b1).
    { split; [discriminate|]. split; [discriminate|]. intros X. discriminate. }
    destruct (flat_opts ks k s4 (Z.lor PSection PName) b1 [n] WK pok9 R4 O4) as (s5 & prev5 & b5 & E5 & R5 & O5 & P5 & L5).
    exists s5, prev5, b5. split.
    { intros fuel. unfold floop. cbn [Nat.add config_loop]. rewrite E1.
      change (PSectEnd <=? 0) with false. change (negb (Z.land PSectEnd PData =? 0)) with false. cbv iota.
      rewrite Q1, NA1. change (negb (Z.land PSectEnd PSectEnd =? 0)) with true. cbv iota. rewrite PD.
      replace (dd <? 0) with false by (symmetry; apply Z.ltb_ge; lia). rewrite Q2.
      fold s2. rewrite E3.
      change (PSection <=? 0) with false. change (negb (Z.land PSection PData =? 0)) with false. cbv iota.
      rewrite T1. change [n] with ([] ++ [n]). rewrite NA2.
      change (negb (Z.land PSection PSectEnd =? 0)) with false. cbv iota. rewrite T3. apply E5. }
    split; [exact R5|]. split; [exact O5|]. split; [exact P5|].
    rewrite L5. change (lb (Z.lor PSection PName) b1) with b1. subst b1.
    rewrite fold_add_kid. cbn [fname fval fkids]. rewrite app_nil_r.
    rewrite LB. reflexivity.
  Qed.

  (* the two shapes of the folded builder: top level, or inside a section *)
  Definition shape (E : list (list Z)) (L : builder) : Prop :=
    (E = [] /\ exists R0, L = [mkFrame [] None R0]) \/
    (exists x nm Rk R0, E = [x] /\ L = [mkFrame nm None Rk; mkFrame [] None R0]).

  Lemma flat_secs : forall secs k s prev b E,
    Forall wf_dsec secs -> pok prev -> ready s E -> okb prev b -> shape E (lb prev b) ->
    exists m s' prev' b' E',
      (forall fuel, floop (m + fuel)%nat fam f a prev (concat (map pr secs) ++ k) s b = floop fuel fam f a prev' k s' b') /\
      ready s' E' /\ okb prev' b' /\ pok prev' /\ shape E' (lb prev' b') /\
      val (lb prev' b') = val (lb prev b) ++ map abs_item (map strip secs).
  Proof.
    induction secs as [|i secs IH]; intros k s prev b E FA PV RD OK SH.
    - exists 0%nat, s, prev, b, E. split; [intros; reflexivity|]. cbn [map]. rewrite app_nil_r. auto.
    - pose proof (Forall_inv FA) as Hi. pose proof (Forall_inv_tail FA) as FA'.
      destruct i as [|d n ks dc]; [now destruct Hi|]. destruct Hi as [WN WK].
      cbn [map concat]. rewrite <- app_assoc.
      destruct SH as [[-> [R0 LB]]|(x & nm & Rk & R0 & -> & LB)].
      + destruct (flat_sec_fresh d n ks dc (concat (map pr secs) ++ k) s prev b PV WN WK RD OK)
          as (s1 & prev1 & b1 & E1 & R1 & O1 & P1 & L1).
        assert (SH1 : shape [n] (lb prev1 b1)).
        { right. rewrite L1, LB. eauto 10. }
        destruct (IH k s1 prev1 b1 [n] FA' P1 R1 O1 SH1) as (m & s2 & prev2 & b2 & E2' & E2 & R2 & O2 & P2 & S2 & V2).
        exists (S (length ks) + m)%nat, s2, prev2, b2, E2'. split.
        { intros fuel. rewrite <- Nat.add_assoc, E1. apply E2. }
        split; [exact R2|]. split; [exact O2|]. split; [exact P2|]. split; [exact S2|].
        rewrite V2, L1, LB. unfold val. cbn [close_all close_into close_frame fname fval fkids rev app strip abs_item map].
        rewrite rev_involutive, <- app_assoc. reflexivity.
      + destruct (flat_sec_switch d n ks dc (concat (map pr secs) ++ k) s prev b x _ _ _ PV WN WK RD OK LB)
          as (s1 & prev1 & b1 & E1 & R1 & O1 & P1 & L1).
        assert (SH1 : shape [n] (lb prev1 b1)).
        { right. rewrite L1. unfold close_frame. cbn [fname fval fkids]. eauto 10. }
        destruct (IH k s1 prev1 b1 [n] FA' P1 R1 O1 SH1) as (m & s2 & prev2 & b2 & E2' & E2 & R2 & O2 & P2 & S2 & V2).
        exists (S (S (length ks)) + m)%nat, s2, prev2, b2, E2'. split.
        { intros fuel. rewrite <- Nat.add_assoc, E1. apply E2. }
        split; [exact R2|]. split; [exact O2|]. split; [exact P2|]. split; [exact S2|].
        rewrite V2, L1, LB. unfold val. cbn [close_all close_into close_frame fname fval fkids rev app strip abs_item map].
        rewrite rev_involutive, <- !app_assoc. reflexivity.
  Qed.

  (* ---- the whole text ---- *)
  Variable st : style.
  Variable code : Z.
  Hypothesis H_st : st = StEnc \/ st = StSep.
  Hypothesis H_fmt : parse_format (style_fmt st) = (f, code) /\ next_fcn code = Some fam.
  Hypothesis H_pr : forall i, print_ditem st i = pr i.
  Hypothesis H_wfo : forall n, wf_name st ROpt (araw a) (aopt a) n = true -> wfopt n.
  Hypothesis H_wfs : forall n, wf_name st RSec (araw a) (asect a) n = true -> wfsec n.

  Lemma wf_dopt_of depth i : is_opt (strip i) = true -> wf_item st a depth (strip i) = true -> wf_dopt i.
  Proof.
    destruct i as [d n v|]; [|discriminate]. intros _ W. cbn [strip wf_item] in W.
    apply andb_true_iff in W. destruct W as [W1 W2]. split; [now apply H_wfo|exact W2].
  Qed.

  Lemma wf_dsec_of i : is_opt (strip i) = false -> wf_item st a O (strip i) = true -> wf_dsec i.
  Proof.
    destruct i as [|d n ks dc]; [discriminate|]. intros _ W. cbn [strip wf_item] in W.
    apply andb_true_iff in W. destruct W as [W1 W2]. split; [now apply H_wfs|].
    assert (W3 : forallb (fun k => match k with Opt _ _ => wf_item st a 1 k | Sec _ _ => false end) (map strip ks) = true)
      by (destruct H_st as [-> | ->]; exact W2).
    clear W2. induction ks as [|k ks IH]; [constructor|].
    cbn [map forallb] in W3. apply andb_true_iff in W3. destruct W3 as [A B].
    constructor; [|now apply IH].
    destruct (strip k) eqn:SK; [|discriminate]. apply (wf_dopt_of 1); rewrite SK; [reflexivity|exact A].
  Qed.

  Lemma split_secs : forall dl,
    forallb (wf_item st a O) (map strip dl) = true -> opts_first (map strip dl) true = true ->
    Forall wf_dsec dl.
  Proof.
    induction dl as [|i dl IH]; intros W O1; [constructor|].
    cbn [map forallb] in W. apply andb_true_iff in W. destruct W as [W1 W2].
    cbn [map opts_first] in O1. destruct (strip i) eqn:SI.
    - cbn in O1. discriminate.
    - constructor; [apply wf_dsec_of; rewrite SI; [reflexivity|exact W1]|now apply IH].
  Qed.

  Lemma split_flat : forall dl,
    forallb (wf_item st a O) (map strip dl) = true -> opts_first (map strip dl) false = true ->
    exists dopts dsecs, dl = dopts ++ dsecs /\ Forall wf_dopt dopts /\ Forall wf_dsec dsecs.
  Proof.
    induction dl as [|i dl IH]; intros W O1.
    - exists [], []. repeat split; constructor.
    - cbn [map forallb] in W. apply andb_true_iff in W. destruct W as [W1 W2].
      cbn [map opts_first] in O1. destruct (strip i) eqn:SI.
      + cbn [negb andb] in O1. destruct (IH W2 O1) as (dopts & dsecs & -> & F1 & F2).
        exists (i :: dopts), dsecs. split; [reflexivity|]. split; [|exact F2].
        constructor; [|exact F1]. apply (wf_dopt_of O); rewrite SI; [reflexivity|exact W1].
      + exists [], (i :: dl). split; [reflexivity|]. split; [constructor|].
        constructor; [apply wf_dsec_of; rewrite SI; [reflexivity|exact W1]|now apply split_secs].
  Qed.

  Theorem flat_roundtrip ds items :
    wf_items st a items = true ->
    parse_tree st a (print st ds items) = (0, abs_items items).
  Proof.
    intros WF. unfold wf_items in WF. apply andb_true_iff in WF. destruct WF as [WF OF].
    assert (OF' : opts_first items false = true) by (destruct H_st as [-> | ->]; exact OF). clear OF.
    unfold print. pose proof (decorate_list_strip items ds) as ST.
    destruct (decorate_list ds items) as [dl r]. cbn [fst] in ST.
    set (final := fst (take_deco r)). unfold print_ditems.
    replace (map (print_ditem st) dl) with (map pr dl) by (apply map_ext; intros; symmetry; apply H_pr).
    set (text := concat (map pr dl) ++ lead final).
    rewrite <- ST in WF, OF'.
    destruct (split_flat dl WF OF') as (dopts & dsecs & EQ & F1 & F2).
    (* options, then sections, then the end *)
    assert (PS : pok PSection) by (left; reflexivity).
    assert (TX : text = concat (map pr dopts) ++ concat (map pr dsecs) ++ lead final).
    { subst text. rewrite EQ, map_app, concat_app, <- app_assoc. reflexivity. }
    destruct (flat_opts dopts (concat (map pr dsecs) ++ lead final) pst_init PSection builder_init []
                F1 PS ready_init okb_init) as (s1 & prev1 & b1 & E1 & R1 & O1 & P1 & L1).
    assert (SH1 : shape [] (lb prev1 b1)).
    { left. split; [reflexivity|]. rewrite L1. change (lb PSection builder_init) with builder_init.
      unfold builder_init. rewrite fold_add_kid. eauto. }
    destruct (flat_secs dsecs (lead final) s1 prev1 b1 [] F2 P1 R1 O1 SH1)
      as (m & s2 & prev2 & b2 & E2' & E2 & R2 & O2 & P2 & S2 & V2).
    destruct (H_eof final s2 prev2 P2) as (s3 & E3).
    assert (RN : floop (length dopts + (m + 1)) fam f a PSection text pst_init builder_init = mkCres 0 [] s3 prev2 b2).
    { rewrite TX, E1, E2. unfold floop. cbn [config_loop]. rewrite E3. reflexivity. }
    unfold parse_tree, parse_node. destruct H_fmt as [HF1 HF2]. rewrite HF1, HF2.
    set (run := fun n => config_loop node_append n fam f a PSection text pst_init builder_init).
    assert (RF : run (config_fuel text) = mkCres 0 [] s3 prev2 b2).
    { pose proof (config_loop_ok builder node_append fam f a (config_fuel text) PSection text pst_init
                                 builder_init sinv_init (config_fuel_enough text)) as [NF _].
      set (N := (length dopts + (m + 1))%nat) in *.
      pose proof (config_loop_mono builder node_append fam f a (config_fuel text) PSection text pst_init
                                   builder_init NF (Nat.max N (config_fuel text)) (Nat.le_max_r _ _)) as M1.
      assert (NF2 : c_ret (floop N fam f a PSection text pst_init builder_init) <> ROutOfFuel)
        by (rewrite RN; cbn; codes; lia).
      pose proof (config_loop_mono builder node_append fam f a N PSection text pst_init
                                   builder_init NF2 (Nat.max N (config_fuel text)) (Nat.le_max_l _ _)) as M2.
      unfold run. rewrite <- M1. unfold floop in *. rewrite M2. exact RN. }
    unfold run in RF. rewrite RF. cbn [c_ret c_rest c_st c_h]. change (0 <? 0) with false. cbv iota. cbn [n_ret n_tree].
    f_equal.
    rewrite (close_all_lb' prev2 b2 O2). fold (val (lb prev2 b2)). rewrite V2, L1.
    change (lb PSection builder_init) with builder_init. unfold builder_init. rewrite fold_add_kid.
    unfold val. cbn [close_all close_into fkids]. rewrite app_nil_r, rev_involutive.
    rewrite <- map_app, <- map_app, <- EQ, ST. apply norm_abs_items.
  Qed.
End Flat.
