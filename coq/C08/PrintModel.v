(* C08/PrintModel.v — C09: trees of named sections and name=value options, the
   printer for the three section styles with arbitrary decoration, and the
   well-formedness conditions (executable, NO proofs; extracted for the driver).

   print style deco items  IS the "written out in any of the supported section
   styles with arbitrary insignificant whitespace, blank lines and comment lines"
   of the property: [deco] is a list of decoration records, one is consumed per
   item (pre-order; a default when the list runs out).  Whatever bytes a record
   holds, the printer only uses its white space as white space and its comment
   text without newlines, so EVERY deco value is an insignificant decoration. *)
From Coq Require Import List ZArith Bool.
From MptV Require Import C08.ParseModel.
Import ListNotations.
Local Open Scope Z_scope.

(* ---------------------------------------------------------------- trees *)
Inductive item :=
| Opt (name : list Z) (value : list Z)       (* name = value; [] = empty value *)
| Sec (name : list Z) (kids : list item).

(* the node tree an item denotes: an empty value is no value *)
Fixpoint abs_item (i : item) : tree :=
  match i with
  | Opt n v => T n (match v with [] => None | _ => Some v end) []
  | Sec n ks => T n None (map abs_item ks)
  end.
Definition abs_items (l : list item) : list tree := map abs_item l.

(* empty value and no value are the same observation *)
Fixpoint norm_tree (t : tree) : tree :=
  match t with
  | T n v ks => T n (match v with Some [] => None | _ => v end) (map norm_tree ks)
  end.

(* ---------------------------------------------------------------- styles *)
(* StEncD: the enclosed family with distinct start / end characters; the code has no way to
   close a section there, so it only carries option lists *)
Inductive style := StPre | StEnc | StSep | StEncD.

(* the format description strings the styles are used with *)
Definition style_fmt (st : style) : option (list Z) :=
  match st with
  | StPre => None                                   (* default: braces, equal sign, comment hash, double and single quote *)
  | StEnc => Some [37; 120; 37; 32; 61; 32; 35]     (* percent x percent blank equal blank hash *)
  | StSep => Some [91; 32; 93; 32; 61; 32; 35]      (* bracket blank bracket blank equal blank hash *)
  | StEncD => Some [91; 120; 93; 32; 61; 32; 35]    (* bracket x bracket blank equal blank hash *)
  end.

(* ---------------------------------------------------------------- decoration *)
Record deco := mkDeco {
  d_lead : list Z;              (* white space (blank lines) before the item *)
  d_comments : list (list Z);   (* comment lines before the item *)
  d_indent : list Z;            (* white space between the comments and the item *)
  d_mid1 : list Z;              (* blanks between name and delimiter *)
  d_mid2 : list Z;              (* blanks behind the delimiter *)
  d_quote : Z;                  (* 0: plain if possible; 34 / 39: quoted with that character *)
  d_trail : list Z;             (* blanks behind the value / in front of a closing delimiter *)
  d_tcomment : option (list Z); (* comment behind the value *)
  d_brace_nl : bool }.          (* prefix style: opening brace on the next line *)
Definition deco_default := mkDeco [] [] [] [32] [32] 0 [] None false.

Definition byteb (c : Z) : bool := (1 <=? c) && (c <=? 255).
Definition hspace (c : Z) : bool := isspace c && negb (c =? 10).
Definition ws (l : list Z) : list Z := filter isspace l.
Definition hws (l : list Z) : list Z := filter hspace l.
Definition ctext (l : list Z) : list Z := filter (fun c => byteb c && negb (c =? 10)) l.
Definition comment_line (c : list Z) : list Z := [35] ++ ctext c ++ [10].
Definition lead (d : deco) : list Z :=
  ws (d_lead d) ++ concat (map comment_line (d_comments d)) ++ ws (d_indent d).

(* ---------------------------------------------------------------- values *)
Definition plain_char (c : Z) : bool := byteb c && negb (c =? 10) && negb (c =? 34) && negb (c =? 39).
(* no comment character directly behind white space *)
Fixpoint no_ws_hash (v : list Z) : bool :=
  match v with
  | a :: ((b :: _) as r) => negb (isspace a && (b =? 35)) && no_ws_hash r
  | _ => true
  end.
Definition plain_ok (v : list Z) : bool :=
  match v with
  | [] => false
  | c0 :: _ => forallb plain_char v && negb (isspace c0) && negb (c0 =? 35) && negb (isspace (last v 0)) && no_ws_hash v
  end.
Definition quotable (v : list Z) : bool := negb (last v 0 =? 92).

Definition escape (q : Z) (v : list Z) : list Z :=
  flat_map (fun c => if c =? q then [92; q] else [c]) v.

Definition print_value (d : deco) (v : list Z) : list Z :=
  let q := if d_quote d =? 39 then 39 else 34 in
  match v with
  | [] => if d_quote d =? 0 then [] else [q; q]
  | _ => if plain_ok v && ((d_quote d =? 0) || negb (quotable v)) then v
         else [q] ++ escape q v ++ [q]
  end.

Definition tail_comment (d : deco) : list Z :=
  match d_tcomment d with
  | None => []
  | Some c => [32; 35] ++ ctext c
  end.

(* name = value line, the same in all styles *)
Definition print_opt (d : deco) (n v : list Z) : list Z :=
  lead d ++ n ++ hws (d_mid1 d) ++ [61] ++ hws (d_mid2 d) ++ print_value d v ++ hws (d_trail d)
  ++ tail_comment d ++ [10].

(* ---------------------------------------------------------------- decorated items *)
Inductive ditem :=
| DOpt (d : deco) (name value : list Z)
| DSec (d : deco) (name : list Z) (kids : list ditem) (dclose : deco).

Fixpoint strip (i : ditem) : item :=
  match i with
  | DOpt _ n v => Opt n v
  | DSec _ n ks _ => Sec n (map strip ks)
  end.

Definition take_deco (ds : list deco) : deco * list deco :=
  match ds with [] => (deco_default, []) | d :: r => (d, r) end.

(* hand the decoration records to the items in pre-order (a section takes a second
   one for its closing delimiter) *)
Fixpoint decorate (ds : list deco) (i : item) {struct i} : ditem * list deco :=
  match i with
  | Opt n v => let (d, r) := take_deco ds in (DOpt d n v, r)
  | Sec n ks =>
    let (d, r) := take_deco ds in
    let (dks, r2) :=
      (fix go (ks : list item) (ds : list deco) {struct ks} : list ditem * list deco :=
         match ks with
         | [] => ([], ds)
         | k :: ks' => let (dk, r1) := decorate ds k in
                       let (dr, r2) := go ks' r1 in (dk :: dr, r2)
         end) ks r in
    let (dc, r3) := take_deco r2 in
    (DSec d n dks dc, r3)
  end.
Fixpoint decorate_list (ds : list deco) (l : list item) : list ditem * list deco :=
  match l with
  | [] => ([], ds)
  | k :: ks => let (dk, r1) := decorate ds k in
               let (dr, r2) := decorate_list r1 ks in (dk :: dr, r2)
  end.

(* ---------------------------------------------------------------- the three printers *)
(* prefix style:  name { ... }  *)
Fixpoint print_pre (i : ditem) : list Z :=
  match i with
  | DOpt d n v => print_opt d n v
  | DSec d n ks dc =>
    lead d ++ n ++ hws (d_mid1 d)
    ++ (if d_brace_nl d then [10] ++ ws (d_mid2 d) else [])
    ++ [123] ++ concat (map print_pre ks) ++ lead dc ++ hws (d_trail dc) ++ [125]
  end.

(* what ends a section name of the enclosed style: one white space character, or a comment
   directly behind the name (it runs to the end of the line) *)
Definition name_end (d : deco) : list Z :=
  match d_tcomment d with
  | Some c => [35] ++ ctext c ++ [10]
  | None => match ws (d_mid1 d) with [] => [10] | c :: _ => [c] end
  end.

(* enclosed style with one delimiter:  %name  options ...  (the next % or the end closes) *)
Fixpoint print_enc (i : ditem) : list Z :=
  match i with
  | DOpt d n v => print_opt d n v
  | DSec d n ks _ => lead d ++ [37] ++ n ++ name_end d ++ concat (map print_enc ks)
  end.

(* separated style:  [ name ]  options ... *)
Fixpoint print_sep (i : ditem) : list Z :=
  match i with
  | DOpt d n v => print_opt d n v
  | DSec d n ks _ => lead d ++ [91] ++ hws (d_mid1 d) ++ n ++ hws (d_mid2 d) ++ [93] ++ concat (map print_sep ks)
  end.

Definition print_ditem (st : style) (i : ditem) : list Z :=
  match st with StPre => print_pre i | StEnc => print_enc i | StSep => print_sep i | StEncD => print_enc i end.

Definition print_ditems (st : style) (l : list ditem) (final : deco) : list Z :=
  concat (map (print_ditem st) l) ++ lead final.

(* print style deco items *)
Definition print (st : style) (ds : list deco) (l : list item) : list Z :=
  let (dl, r) := decorate_list ds l in
  print_ditems st dl (fst (take_deco r)).

(* ---------------------------------------------------------------- well-formed trees *)
(* characters a name can be written with: no newline, comment character or path separator; white
   space other than the newline may stand inside a name.  Prefix style and the option names of
   the other styles: no assign character either; prefix style: no brace. *)
Definition name_char (st : style) (c : Z) : bool :=
  byteb c && negb (c =? 10) && negb (c =? 35) && negb (c =? 46) && negb (c =? 61) &&
  match st with
  | StPre => negb (c =? 123) && negb (c =? 125)
  | _ => true
  end.
(* section names of the other styles: the assign character is an ordinary character there; the
   closing bracket ends a name of the separated style *)
Definition sname_char (st : style) (c : Z) : bool :=
  byteb c && negb (c =? 10) && negb (c =? 35) && negb (c =? 46) &&
  match st with
  | StSep => negb (c =? 93)
  | _ => true
  end.

(* where the white space inside a name may stand.  Section names of the enclosed family end at the
   first white space character, so they hold none.  Option names of the enclosed / separated family:
   the code before docs/C09_option_name_blank.diff ([raw] = false, see [allow]) drops white space that
   follows the FIRST name character, so the second character must not be white space there. *)
Inductive role := ROpt | RSec.
Definition blanks_ok (st : style) (r : role) (raw : bool) (n : list Z) : bool :=
  match st, r with
  | StPre, _ => true
  | StSep, RSec => true
  | StEnc, RSec => forallb (fun c => negb (isspace c)) n
  | StEncD, RSec => forallb (fun c => negb (isspace c)) n
  | _, ROpt => raw || negb (isspace (nth 1 n 0))
  end.

(* the characters of a name by style and role; an option line of the other styles must not begin
   with the section start character *)
Definition chars_ok (st : style) (r : role) (n : list Z) : bool :=
  match st, r with
  | StPre, _ => forallb (name_char StPre) n
  | _, RSec => forallb (sname_char st) n
  | StEnc, ROpt => forallb (name_char st) n && negb (hd 0 n =? 37)
  | _, ROpt => forallb (name_char st) n && negb (hd 0 n =? 91)
  end.

Definition wf_name (st : style) (r : role) (raw : bool) (take : Z) (n : list Z) : bool :=
  match n with
  | [] => false
  | c0 :: _ => chars_ok st r n && negb (isspace c0) && negb (isspace (last n 0))
               && (ncheck_go n true take =? 0) && (Z.of_nat (length n) <=? IDENT_MAX) && blanks_ok st r raw n
  end.

(* value lengths stay inside the int the C code counts the post data with *)
Definition VALUE_MAX : Z := 2147483647.
Definition wf_value (v : list Z) : bool :=
  forallb byteb v && (plain_ok v || quotable v) && (Z.of_nat (length v) <? VALUE_MAX).

Fixpoint wf_item (st : style) (a : allow) (depth : nat) (i : item) : bool :=
  match i with
  | Opt n v => wf_name st ROpt (araw a) (aopt a) n && wf_value v
  | Sec n ks =>
    wf_name st RSec (araw a) (asect a) n &&
    match st, depth with
    | StPre, _ => forallb (wf_item st a depth) ks
    | _, O => forallb (fun k => match k with Opt _ _ => wf_item st a (S O) k | Sec _ _ => false end) ks
    | _, S _ => false
    end
  end.

Definition is_opt (i : item) : bool := match i with Opt _ _ => true | Sec _ _ => false end.
(* options first, then sections (one level): what the enclosed / separated style can express *)
Fixpoint opts_first (l : list item) (seen_sec : bool) : bool :=
  match l with
  | [] => true
  | Opt _ _ :: r => negb seen_sec && opts_first r false
  | Sec _ _ :: r => opts_first r true
  end.

Definition wf_items (st : style) (a : allow) (l : list item) : bool :=
  forallb (wf_item st a O) l &&
  match st with StPre => true | StEncD => forallb is_opt l | _ => opts_first l false end.

(* ---------------------------------------------------------------- parse *)
Definition parse_tree (st : style) (a : allow) (l : list Z) : Z * list tree :=
  let n := parse_node [] (style_fmt st) a l in (n_ret n, map norm_tree (n_tree n)).
