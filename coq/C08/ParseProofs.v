(* C08/ParseProofs.v — what one element call does, for every input, format and flag set:
   it consumes a prefix of the input (every character once), reports the end of input
   at most once, changes the path elements only as its return code says, keeps the
   post-data invariant and never reads outside the post data. *)
From Coq Require Import List ZArith Lia Bool.
From MptV Require Import C08.ParseModel C08.ParseBase.
Import ListNotations.
Local Open Scope Z_scope.

Ltac codes := unfold BadArgument, BadValue, BadType, BadOperation, MissingData, MissingBuffer, SaveFailed,
  RFault, ROutOfFuel, PSection, PSectEnd, POption, PData, PName in *.

(* end-of-input reports between two states: calls made minus characters taken *)
Definition eofs (l : list Z) (s : pst) (r : list Z) (s' : pst) : Z :=
  calls s' - calls s - (len l - len r).

(* consumption of a terminal piece of work *)
Definition tm (l : list Z) (s : pst) (r : list Z) (s' : pst) : Prop :=
  suffix r l /\ len r <= len l /\ 0 <= eofs l s r s' <= 1 /\ (eofs l s r s' = 1 -> r = []).

Definition okret (ret : Z) : Prop := ret <= 0 \/ ret = 1 \/ ret = 2 \/ ret = 3 \/ ret = 4 \/ ret = 7.

(* effect on the path elements *)
Definition eff (s : pst) (ret : Z) (s' : pst) : Prop :=
  okret ret /\
  (ret = 1 \/ ret = 3 \/ ret = 7 -> exists n, pelems (pth s') = pelems (pth s) ++ [n]) /\
  (ret = 2 \/ ret = 4 -> pelems (pth s') = pelems (pth s)).

(* no read outside the post data: the code is none of the two model-only codes
   (RFault, ROutOfFuel, both below -9000) *)
Definition safe (s : pst) (ret : Z) (s' : pst) : Prop :=
  sinv s -> -9000 < ret /\ pinv2 (pth s') /\ (ret = 4 \/ ret = 7 -> 0 <= valid s' <= plen (pth s')).

Definition el (l : list Z) (s : pst) (x : R) : Prop :=
  let '(ret, r, s') := x in tm l s r s' /\ eff s ret s' /\ safe s ret s'.

(* a prefix of work that read characters only (no end of input) and left the elements alone *)
Definition pre_ok (l : list Z) (s : pst) (r : list Z) (s1 : pst) : Prop :=
  suffix r l /\ len r <= len l /\ eofs l s r s1 = 0 /\
  pelems (pth s1) = pelems (pth s) /\ (sinv s -> sinv s1).

Lemma el_pre l s r s1 x : pre_ok l s r s1 -> el r s1 x -> el l s x.
Proof.
  destruct x as [[ret r2] s2]. unfold el, pre_ok, tm, eff, safe, eofs.
  intros (A1 & A2 & A3 & A4 & A5) ((B1 & B2 & B3 & B4) & (C1 & C2 & C3) & D).
  split; [|split].
  - split; [eapply suffix_trans; eassumption|]. split; [lia|]. split; [lia|]. intros. apply B4. lia.
  - split; [assumption|]. split.
    + intros H. destruct (C2 H) as [n Hn]. exists n. now rewrite Hn, A4.
    + intros H. now rewrite (C3 H), A4.
  - intros H. apply D. auto.
Qed.

Lemma pre_ok_refl l s : pre_ok l s l s.
Proof. unfold pre_ok, eofs. split; [auto with sfx|]. split; [lia|]. split; [lia|]. split; auto. Qed.

(* state tweaks that neither read nor touch the elements *)
Lemma pre_ok_tweak l s r s1 s2 :
  pre_ok l s r s1 -> calls s2 = calls s1 -> pelems (pth s2) = pelems (pth s1) -> (sinv s1 -> sinv s2) ->
  pre_ok l s r s2.
Proof.
  unfold pre_ok, eofs. intros (A1 & A2 & A3 & A4 & A5) B C D.
  split; [assumption|]. split; [lia|]. split; [lia|]. split; [congruence|auto].
Qed.
Lemma pre_ok_with_curr l s r s1 c : pre_ok l s r s1 -> pre_ok l s r (with_curr s1 c).
Proof. intros H. eapply pre_ok_tweak; [exact H| | |]; autorewrite with pst; auto using sinv_with_curr. Qed.
Lemma pre_ok_addch l s r s1 c : pre_ok l s r s1 -> pre_ok l s r (addch s1 c).
Proof. intros H. eapply pre_ok_tweak; [exact H| | |]; autorewrite with pst; auto using sinv_addch. Qed.
Lemma pre_ok_set_valid l s r s1 : pre_ok l s r s1 -> pre_ok l s r (set_valid s1).
Proof.
  intros H. eapply pre_ok_tweak; [exact H| | |]; autorewrite with pst; auto.
  intros G. apply sinv_set_valid. now apply sinv_pinv2.
Qed.
(* one character taken *)
Lemma pre_ok_tick c r s : pre_ok (c :: r) s r (tick s c).
Proof.
  unfold pre_ok, eofs. autorewrite with pst.
  split; [auto with sfx|]. split; [lia|]. split; [lia|]. split; [reflexivity|apply sinv_tick].
Qed.
Lemma pre_ok_tick_raw c r s : pre_ok (c :: r) s r (tick_raw s).
Proof.
  unfold pre_ok, eofs. autorewrite with pst.
  split; [auto with sfx|]. split; [lia|]. split; [lia|]. split; [reflexivity|apply sinv_tick_raw].
Qed.
Lemma pre_ok_trans l s r1 s1 r2 s2 : pre_ok l s r1 s1 -> pre_ok r1 s1 r2 s2 -> pre_ok l s r2 s2.
Proof.
  unfold pre_ok, eofs. intros (A1 & A2 & A3 & A4 & A5) (B1 & B2 & B3 & B4 & B5).
  split; [eapply suffix_trans; eassumption|]. split; [lia|]. split; [lia|]. split; [congruence|auto].
Qed.
#[export] Hint Resolve pre_ok_refl pre_ok_with_curr pre_ok_addch pre_ok_set_valid pre_ok_tick pre_ok_tick_raw : pre.

(* a result that stops here: negative code, nothing read since the prefix *)
Lemma eff_stop s ret s' : ret <= 0 -> eff s ret s'.
Proof. intros A. unfold eff, okret. split; [lia|]. split; intros; exfalso; lia. Qed.
Lemma safe_stop s ret s' : ret <= 0 -> -9000 < ret -> (sinv s -> pinv2 (pth s')) -> safe s ret s'.
Proof. intros A B D H. split; [assumption|]. split; [auto|]. intros; exfalso; lia. Qed.

Lemma safe_stop' s ret s' : ret <= 0 -> (sinv s -> -9000 < ret /\ pinv2 (pth s')) -> safe s ret s'.
Proof. intros A D H. destruct (D H). split; [assumption|]. split; [auto|]. intros; exfalso; lia. Qed.

Lemma tm_refl l s s' : calls s' = calls s -> tm l s l s'.
Proof. intros C. unfold tm, eofs. split; [auto with sfx|]. split; [lia|]. split; [lia|]. intros; lia. Qed.
Lemma tm_calls l s s1 r s2 : calls s1 = calls s -> tm l s1 r s2 -> tm l s r s2.
Proof. unfold tm, eofs. intros C (A1 & A2 & A3 & A4). rewrite <- C. auto. Qed.

(* a result that stops here: no positive code, nothing read since the prefix *)
Lemma el_stop l s ret s' :
  ret <= 0 -> calls s' = calls s -> (sinv s -> -9000 < ret /\ pinv2 (pth s')) -> el l s (ret, l, s').
Proof.
  intros A C D. unfold el. split; [now apply tm_refl|split; [now apply eff_stop|now apply safe_stop']].
Qed.
(* the same after the end of input was reported *)
Lemma el_stop_eof s ret s' :
  ret <= 0 -> calls s' = calls s + 1 -> (sinv s -> -9000 < ret /\ pinv2 (pth s')) -> el [] s (ret, [], s').
Proof.
  intros A C D. unfold el. split; [|split; [now apply eff_stop|now apply safe_stop']].
  unfold tm, eofs. autorewrite with pst. split; [auto with sfx|]. split; [lia|]. split; [lia|]. reflexivity.
Qed.

(* ---------------------------------------------------------------- character readers *)
Record rd (l : list Z) (s : pst) (c : Z) (r : list Z) (s' : pst) : Prop := mkRd {
  rd_tm : tm l s r s';
  rd_ch : 0 <= c -> eofs l s r s' = 0 /\ len r < len l;
  rd_elems : pelems (pth s') = pelems (pth s);
  rd_inv : sinv s -> sinv s';
  rd_curr : pcurr s' = pcurr s;
  rd_valid : valid s' = valid s }.

Lemma rd_pre l s c r s' : rd l s c r s' -> 0 <= c -> pre_ok l s r s'.
Proof.
  intros [(A1 & A2 & A3 & A4) B C D _ _] H. destruct (B H). unfold pre_ok.
  split; [assumption|]. split; [assumption|]. split; [assumption|]. split; assumption.
Qed.

Ltac rd_leaf :=
  constructor;
  [ unfold tm, eofs; autorewrite with pst; (split; [auto with sfx|]); (split; [lia|]); (split; [lia|]);
    intros; first [reflexivity | lia]
  | unfold eofs; autorewrite with pst; intros; split; lia
  | autorewrite with pst; reflexivity
  | auto using sinv_tick, sinv_tick_raw, sinv_tick_eof
  | autorewrite with pst; reflexivity
  | autorewrite with pst; reflexivity ].

Lemma rd_step c0 r0 s c r s' s0 :
  rd r0 s0 c r s' -> calls s0 = calls s + 1 -> pelems (pth s0) = pelems (pth s) -> (sinv s -> sinv s0) ->
  pcurr s0 = pcurr s -> valid s0 = valid s ->
  rd (c0 :: r0) s c r s'.
Proof.
  intros [(A1 & A2 & A3 & A4) B C D E F] G1 G2 G3 G4 G5.
  constructor; unfold tm, eofs in *; autorewrite with pst in *.
  - split; [auto with sfx|]. split; [lia|]. split; [lia|]. intros. apply A4. lia.
  - intros H. destruct (B H). split; lia.
  - congruence.
  - auto.
  - congruence.
  - congruence.
Qed.

Lemma endline_rd l : forall s, let '(c, r, s') := endline l s in rd l s c r s'.
Proof.
  induction l as [|a l IH]; intros s; cbn [endline].
  - rd_leaf.
  - destruct (a =? 10); [rd_leaf|]. destruct (a <? 0) eqn:E; [apply Z.ltb_lt in E; rd_leaf|].
    specialize (IH (tick_raw s)). destruct (endline l (tick_raw s)) as [[c r] s'].
    eapply rd_step; [exact IH|..]; autorewrite with pst; auto using sinv_tick_raw.
Qed.

Lemma nextvis_go_rd f l : forall b s, let '(c, r, s') := nextvis_go f b l s in rd l s c r s'.
Proof.
  induction l as [|a l IH]; intros b s; cbn [nextvis_go].
  - rd_leaf.
  - destruct b.
    + destruct (a =? 10).
      * specialize (IH false (tick s a)). destruct (nextvis_go f false l (tick s a)) as [[c r] s'].
        eapply rd_step; [exact IH|..]; autorewrite with pst; auto using sinv_tick.
      * destruct (a <? 0) eqn:E; [apply Z.ltb_lt in E; rd_leaf|].
        specialize (IH true (tick_raw s)). destruct (nextvis_go f true l (tick_raw s)) as [[c r] s'].
        eapply rd_step; [exact IH|..]; autorewrite with pst; auto using sinv_tick_raw.
    + destruct (a <=? 0) eqn:E; [apply Z.leb_le in E; rd_leaf|].
      destruct (isspace a).
      * specialize (IH false (tick s a)). destruct (nextvis_go f false l (tick s a)) as [[c r] s'].
        eapply rd_step; [exact IH|..]; autorewrite with pst; auto using sinv_tick.
      * destruct (iscomment f a).
        -- specialize (IH true (tick s a)). destruct (nextvis_go f true l (tick s a)) as [[c r] s'].
           eapply rd_step; [exact IH|..]; autorewrite with pst; auto using sinv_tick.
        -- rd_leaf.
Qed.

Lemma nextvis_rd f l s : let '(c, r, s') := nextvis f l s in rd l s c r s'.
Proof. apply nextvis_go_rd. Qed.

Lemma getchar_rd l s : let '(c, r, s') := getchar l s in rd l s c r s'.
Proof.
  destruct l as [|a l]; cbn [getchar]; [rd_leaf|].
  destruct (a <=? 0) eqn:E; [apply Z.leb_le in E; rd_leaf|].
  apply Z.leb_gt in E.
  constructor;
  [ unfold tm, eofs; autorewrite with pst; (split; [auto with sfx|]); (split; [lia|]); (split; [lia|]); intros; lia
  | unfold eofs; autorewrite with pst; intros; split; lia
  | autorewrite with pst; reflexivity
  | auto using sinv_tick, sinv_addch
  | autorewrite with pst; reflexivity
  | autorewrite with pst; reflexivity ].
Qed.

(* ---------------------------------------------------------------- mpt_parse_data *)
(* state change without reading *)
Definition keeps (s s' : pst) : Prop :=
  calls s' = calls s /\ pelems (pth s') = pelems (pth s) /\ (sinv s -> sinv s') /\ pcurr s' = pcurr s.

Lemma keeps_refl s : keeps s s.
Proof. unfold keeps. auto. Qed.
Lemma keeps_set_valid s : keeps s (set_valid s).
Proof.
  unfold keeps. autorewrite with pst. split; [reflexivity|]. split; [reflexivity|]. split; [|reflexivity].
  intros H. apply sinv_set_valid. now apply sinv_pinv2.
Qed.

Lemma data_body_keeps f c s m la :
  match data_body f c s m la with
  | Cont s2 _ _ => keeps s s2
  | Brk s2 => keeps s s2
  | BrkEndline s2 => keeps s s2
  end.
Proof.
  unfold data_body.
  destruct (negb (m =? 0)).
  - unfold keeps. autorewrite with pst.
    destruct (c =? m); [|split; [reflexivity|split; [reflexivity|split; [|reflexivity]]];
                          intros H; apply sinv_set_valid; now apply sinv_pinv2].
    destruct (negb (la =? 92)); autorewrite with pst;
      (split; [reflexivity|split; [reflexivity|split; [|reflexivity]]]);
      intros H; apply sinv_set_valid; autorewrite with pst;
      auto using pinv2_delchar, pinv2_addchar, sinv_pinv2.
  - destruct (isescape f c); [apply keeps_refl|].
    destruct (c =? oend f); [apply keeps_refl|].
    destruct (c =? 10); [apply keeps_refl|].
    destruct ((oend f =? 0) && iscomment f c && isspace la); [apply keeps_refl|].
    destruct (negb (isspace c)); [apply keeps_set_valid|apply keeps_refl].
Qed.

(* result of a data loop *)
Definition dl (l : list Z) (s : pst) (r : list Z) (s' : pst) : Prop :=
  tm l s r s' /\ pelems (pth s') = pelems (pth s) /\ (sinv s -> sinv s') /\ pcurr s' = pcurr s.

Lemma dl_pre l s r s1 r2 s2 :
  pre_ok l s r s1 -> pcurr s1 = pcurr s -> dl r s1 r2 s2 -> dl l s r2 s2.
Proof.
  unfold dl, pre_ok, tm, eofs.
  intros (A1 & A2 & A3 & A4 & A5) A6 ((B1 & B2 & B3 & B4) & C1 & C2 & C3).
  split; [|split; [congruence|split; [auto|congruence]]].
  split; [eapply suffix_trans; eassumption|]. split; [lia|]. split; [lia|]. intros. apply B4. lia.
Qed.

Lemma dl_of_rd l s c r s' : rd l s c r s' -> dl l s r s'.
Proof. intros [A B C D E F]. unfold dl. auto. Qed.

Lemma dl_stop l s s' : keeps s s' -> dl l s l s'.
Proof.
  intros (A & B & C & D). unfold dl, tm, eofs.
  split; [|auto]. split; [auto with sfx|]. split; [lia|]. split; [lia|]. intros; lia.
Qed.

Lemma data_loop_dl f l : forall s m la, let '(c, r, s') := data_loop f l s m la in dl l s r s'.
Proof.
  induction l as [|a l IH]; intros s m la; cbn [data_loop].
  - apply (dl_of_rd [] s (-2)). rd_leaf.
  - destruct (a <? 0) eqn:E.
    + apply Z.ltb_lt in E. apply (dl_of_rd _ s a). rd_leaf.
    + set (s1 := if a =? 0 then tick_raw s else addch (tick s a) a).
      assert (P : pre_ok (a :: l) s l s1 /\ pcurr s1 = pcurr s).
      { subst s1. destruct (a =? 0); autorewrite with pst; auto with pre. }
      destruct P as [P Pc].
      pose proof (data_body_keeps f a s1 m la) as K.
      destruct (data_body f a s1 m la) as [s2 m2 l2|s2|s2].
      * specialize (IH s2 m2 l2). destruct (data_loop f l s2 m2 l2) as [[c r] s'].
        destruct K as (K1 & K2 & K3 & K4).
        eapply dl_pre; [| |exact IH]; [|congruence].
        eapply pre_ok_tweak; [exact P|..]; auto.
      * destruct K as (K1 & K2 & K3 & K4).
        eapply dl_pre; [exact P|exact Pc|]. apply dl_stop. unfold keeps. auto.
      * pose proof (endline_rd l s2) as X. destruct (endline l s2) as [[c2 r2] s3].
        destruct K as (K1 & K2 & K3 & K4).
        eapply dl_pre; [| |apply (dl_of_rd _ _ _ _ _ X)]; [|congruence].
        eapply pre_ok_tweak; [exact P|..]; auto.
Qed.

(* mpt_parse_data: the code is BadValue or the valid length *)
Lemma parse_data_dl f l s :
  let '(d, r, s') := parse_data f l s in
  tm l s r s' /\ pelems (pth s') = pelems (pth s) /\ (sinv s -> sinv s') /\
  (d = BadValue \/ (d = valid s' /\ pcurr s' = pcurr s)).
Proof.
  unfold parse_data. pose proof (data_loop_dl f l s 0 (-1)) as X.
  destruct (data_loop f l s 0 (-1)) as [[c r] s1]. destruct X as (A & B & C & D).
  destruct (negb (oend f =? 0) && negb (c =? oend f)).
  - unfold tm, eofs in *. autorewrite with pst. split; [exact A|]. split; [exact B|].
    split; [|left; reflexivity]. intros H. apply sinv_with_curr. auto.
  - split; [exact A|]. split; [exact B|]. split; [exact C|]. right. auto.
Qed.

(* ---------------------------------------------------------------- name check *)
Lemma ncheck_go_codes cs b take : ncheck_go cs b take = 0 \/ ncheck_go cs b take = BadType \/ ncheck_go cs b take = BadValue.
Proof.
  revert b. induction cs as [|c cs IH]; intros b; cbn [ncheck_go]; [auto|].
  repeat match goal with |- context [if ?x then _ else _] => destruct x end; auto.
Qed.

Lemma ncheck_safe s take : sinv s -> ncheck s (valid s) take <> RFault.
Proof.
  intros [P V]. unfold ncheck, post_read.
  destruct (valid s =? 0); [destruct (flag take NFEmpty); codes; lia|].
  destruct (negb (pbuf (pth s))); [codes; lia|].
  replace ((0 <=? valid s) && (valid s <=? plen (pth s))) with true
    by (symmetry; apply andb_true_iff; split; apply Z.leb_le; lia).
  destruct (ncheck_go_codes (firstn (Z.to_nat (valid s)) (ppost (pth s))) true take) as [H|[H|H]];
    rewrite H; codes; lia.
Qed.

Lemma ncheck_zero_safe s take : ncheck s 0 take <> RFault.
Proof. unfold ncheck. change (0 =? 0) with true. cbv iota. destruct (flag take NFEmpty); codes; lia. Qed.

(* ---------------------------------------------------------------- option *)
Ltac stop_leaf :=
  apply el_stop; [codes; try lia | autorewrite with pst; try reflexivity
                 | intros ?H; split; [codes; try lia | autorewrite with pst; auto using sinv_pinv2] ].

Lemma option_assign_el f take adderr l s :
  adderr <= 0 -> -9000 < adderr -> el l s (option_assign f take adderr l s).
Proof.
  intros A1 A2. unfold option_assign.
  destruct (ncheck s (valid s) take <? 0) eqn:N.
  - apply el_stop; [destruct (_ =? RFault); codes; lia|reflexivity|].
    intros H. split; [|now apply sinv_pinv2].
    pose proof (ncheck_safe s take H) as X. apply Z.eqb_neq in X. rewrite X. codes; lia.
  - destruct (path_add (pth s) (valid s)) as [a p1] eqn:PA.
    destruct (a <? 0) eqn:AN.
    + apply el_stop; [assumption|reflexivity|]. intros H. split; [assumption|now apply sinv_pinv2].
    + apply Z.ltb_ge in AN.
      destruct (path_add_elems _ _ _ _ PA) as [[X _]|[_ PE]]; [lia|].
      set (s1 := mkPst (line s) (calls s) (path_invalidate p1) 0 (pcurr s)).
      pose proof (parse_data_dl f l s1) as D. destruct (parse_data f l s1) as [[d r] s2].
      destruct D as (T & E & I & V).
      assert (T' : tm l s r s2) by (eapply tm_calls; [|exact T]; reflexivity).
      assert (E' : pelems (pth s2) = pelems (pth s) ++ [firstn (Z.to_nat (valid s)) (ppost (pth s))]).
      { rewrite E. subst s1. cbn [pth]. now rewrite pelems_invalidate. }
      assert (I' : sinv s -> sinv s2).
      { intros H. apply I. subst s1. split; cbn [pth valid].
        - apply pinv2_invalidate. eapply path_add_pinv; [|exact PA]. now apply sinv_pinv2.
        - rewrite plen_invalidate; [lia|]. eapply path_add_pinv; [|exact PA]. now apply sinv_pinv2. }
      destruct (d <? 0) eqn:DN; [|destruct (d =? 0) eqn:DZ].
      * apply Z.ltb_lt in DN. unfold el. split; [exact T'|]. split; [apply eff_stop; lia|].
        apply safe_stop'; [lia|]. intros H. specialize (I' H). split; [|now apply sinv_pinv2].
        destruct V as [->|[-> _]]; [codes; lia|]. destruct I' as [_ ?]. lia.
      * unfold el. split; [exact T'|]. split.
        -- unfold eff, okret. codes. split; [lia|]. split; [intros _; eexists; exact E'|intros; exfalso; lia].
        -- intros H. specialize (I' H). codes. split; [lia|]. split; [now apply sinv_pinv2|]. intros; exfalso; lia.
      * unfold el. split; [exact T'|]. split.
        -- unfold eff, okret. codes. cbn. split; [lia|]. split; [intros _; eexists; exact E'|intros; exfalso; lia].
        -- intros H. specialize (I' H). codes. cbn. split; [lia|]. split; [now apply sinv_pinv2|].
           intros _. destruct I' as [_ ?]. assumption.
Qed.

Lemma option_tail_el take l s : el l s (option_tail take l s).
Proof.
  unfold option_tail. destruct (negb (flag take NFEmpty)).
  - stop_leaf.
  - unfold el. autorewrite with pst. split; [apply tm_refl; now autorewrite with pst|]. split.
    + unfold eff, okret. codes. autorewrite with pst. split; [lia|]. split; [intros; exfalso; lia|reflexivity].
    + intros H. codes. autorewrite with pst. split; [lia|]. split; [now apply sinv_pinv2|]. intros _. apply H.
Qed.

(* work that does not read *)
Definition noread (r : list Z) (s1 : pst) (x : R) : Prop := snd (fst x) = r /\ calls (snd x) = calls s1.

(* a reader (possibly ending at the end of input) followed by work that does not read *)
Lemma el_after l s c r s1 x : rd l s c r s1 -> el r s1 x -> noread r s1 x -> el l s x.
Proof.
  destruct x as [[ret r2] s2]. intros [T _ E I _ _] (T2 & (C1 & C2 & C3) & S) [N1 N2]. cbn in N1, N2. subst r2.
  unfold el. split; [|split].
  - unfold tm, eofs in *. rewrite N2. exact T.
  - split; [assumption|]. split.
    + intros H. destruct (C2 H) as [n Hn]. exists n. now rewrite Hn, E.
    + intros H. now rewrite (C3 H), E.
  - intros H. apply S. auto.
Qed.

Lemma option_tail_noread take l s : noread l s (option_tail take l s).
Proof. unfold option_tail, noread. destruct (negb (flag take NFEmpty)); cbn; autorewrite with pst; auto. Qed.

(* the loop body with the continuation abstracted *)
Definition option_body (f : format) (take : Z) (c : Z) (l : list Z) (s : pst) (next : pst -> R) : R :=
  if isspace c then
    if assign f =? 0 then option_assign f take MissingBuffer l s
    else if c =? 10 then
      (if negb (oend f =? 0) && negb (c =? oend f) then (BadValue, l, s) else option_tail take l s)
    else next s
  else if c =? assign f then option_assign f take MissingBuffer l s
  else if c =? oend f then option_tail take l s
  else if iscomment f c then
    (if negb (oend f =? 0) then (BadValue, l, s)
     else let '(_, r2, s2) := endline l s in option_tail take r2 s2)
  else next (set_valid s).

Lemma option_loop_eq f take c l s :
  option_loop f take c l s =
  option_body f take c l s (fun s1 =>
    match l with
    | [] => (MissingData, [], tick_eof s1)
    | c' :: r =>
      if c' <? 0 then ((if c' =? -2 then MissingData else BadArgument), r, tick_raw s1)
      else option_loop f take c' r (if c' =? 0 then tick_raw s1 else addch (tick s1 c') c')
    end).
Proof. destruct l; reflexivity. Qed.

Lemma option_body_el f take c l s next :
  (forall s1, keeps s s1 -> el l s (next s1)) -> el l s (option_body f take c l s next).
Proof.
  intros NX. unfold option_body.
  destruct (isspace c).
  - destruct (assign f =? 0); [apply option_assign_el; codes; lia|].
    destruct (c =? 10); [|apply NX, keeps_refl].
    destruct (negb (oend f =? 0) && negb (c =? oend f)); [stop_leaf|apply option_tail_el].
  - destruct (c =? assign f); [apply option_assign_el; codes; lia|].
    destruct (c =? oend f); [apply option_tail_el|].
    destruct (iscomment f c); [|apply NX, keeps_set_valid].
    destruct (negb (oend f =? 0)); [stop_leaf|].
    pose proof (endline_rd l s) as X. destruct (endline l s) as [[c2 r2] s2].
    eapply el_after; [exact X|apply option_tail_el|apply option_tail_noread].
Qed.

(* continuation of the name loops: one more character *)
Lemma loop_next_el (loop : Z -> list Z -> pst -> R) (err : Z -> Z) a l s s1 :
  keeps s s1 -> (forall c s2, el l s2 (loop c l s2)) -> (forall c, err c <= 0 /\ -9000 < err c) ->
  el (a :: l) s (if a <? 0 then (err a, l, tick_raw s1)
                 else loop a l (if a =? 0 then tick_raw s1 else addch (tick s1 a) a)).
Proof.
  intros (K1 & K2 & K3 & K4) IH ER.
  assert (P0 : pre_ok (a :: l) s (a :: l) s1).
  { eapply pre_ok_tweak; [apply pre_ok_refl|..]; auto. }
  destruct (a <? 0).
  - eapply el_pre; [eapply pre_ok_trans; [exact P0|apply pre_ok_tick_raw]|].
    destruct (ER a) as [ER1 ER2]. apply el_stop; [assumption|reflexivity|].
    intros HS. split; [assumption|now apply sinv_pinv2].
  - eapply el_pre; [|apply IH].
    destruct (a =? 0).
    + eapply pre_ok_trans; [exact P0|apply pre_ok_tick_raw].
    + apply pre_ok_addch. eapply pre_ok_trans; [exact P0|apply pre_ok_tick].
Qed.
Lemma loop_eof_el ret s s1 :
  keeps s s1 -> ret <= 0 -> -9000 < ret -> el [] s (ret, [], tick_eof s1).
Proof.
  intros (K1 & K2 & K3 & K4) A B. apply el_stop_eof; [assumption|autorewrite with pst; lia|].
  intros H. split; [assumption|]. autorewrite with pst. apply sinv_pinv2. auto.
Qed.

Lemma option_loop_el f take l : forall c s, el l s (option_loop f take c l s).
Proof.
  induction l as [|a l IH]; intros c s; rewrite option_loop_eq; apply option_body_el; intros s1 K.
  - apply loop_eof_el; [assumption|codes; lia|codes; lia].
  - apply (loop_next_el (option_loop f take) (fun c' => if c' =? -2 then MissingData else BadArgument));
      [assumption|exact IH|]. intros x. destruct (x =? -2); codes; lia.
Qed.

Lemma parse_option_el f a l s : el l s (parse_option f a l s).
Proof.
  unfold parse_option. set (named := araw a && negb (valid s =? 0) && (ostart f =? 0)).
  assert (X : let '(c, r, s1) := (if named then getchar l s else nextvis f l s) in rd l s c r s1)
    by (destruct named; [apply getchar_rd|apply nextvis_rd]).
  destruct (if named then getchar l s else nextvis f l s) as [[c r] s1].
  destruct (c <? 0) eqn:CN.
  - destruct (negb (c =? -2)).
    + eapply el_after; [exact X| |split; cbn; now autorewrite with pst]. stop_leaf.
    + eapply el_after; [exact X| |split; cbn; now autorewrite with pst].
      apply el_stop; [destruct (pelems _); codes; lia|now autorewrite with pst|].
      intros H. split; [destruct (pelems _); codes; lia|autorewrite with pst; now apply sinv_pinv2].
  - apply Z.ltb_ge in CN. pose proof (rd_pre _ _ _ _ _ X CN) as P.
    eapply el_pre; [exact P|].
    destruct (negb (ostart f =? 0) && negb (c =? ostart f) && negb (valid s1 =? 0)); [stop_leaf|].
    eapply el_pre; [|apply option_loop_el]. destruct named; auto with pre.
Qed.

(* ---------------------------------------------------------------- sections, prefix style *)
Lemma el_after' l s r s1 x :
  tm l s r s1 -> pelems (pth s1) = pelems (pth s) -> (sinv s -> sinv s1) ->
  el r s1 x -> noread r s1 x -> el l s x.
Proof.
  destruct x as [[ret r2] s2]. intros T E I (T2 & (C1 & C2 & C3) & S) [N1 N2]. cbn in N1, N2. subst r2.
  unfold el. split; [|split].
  - unfold tm, eofs in *. rewrite N2. exact T.
  - split; [assumption|]. split.
    + intros H. destruct (C2 H) as [n Hn]. exists n. now rewrite Hn, E.
    + intros H. now rewrite (C3 H), E.
  - intros H. apply S. auto.
Qed.

Lemma tm_eof s s1 : calls s1 = calls s -> tm [] s [] (tick_eof s1).
Proof.
  intros C. unfold tm, eofs. autorewrite with pst.
  split; [auto with sfx|]. split; [lia|]. split; [lia|]. reflexivity.
Qed.

(* results that keep the elements: section end (2) and data (4) *)
Lemma el_keep l s ret s' :
  ret = 2 \/ ret = 4 -> calls s' = calls s -> pelems (pth s') = pelems (pth s) -> (sinv s -> sinv s') ->
  el l s (ret, l, s').
Proof.
  intros A C E I. unfold el. split; [now apply tm_refl|]. split.
  - unfold eff, okret. split; [lia|]. split; [intros; exfalso; lia|auto].
  - intros H. destruct (I H) as [P V]. split; [codes; lia|]. split; [assumption|]. auto.
Qed.

Lemma section_add_el take cur l s : el l s (section_add take cur l s).
Proof.
  unfold section_add. set (s1 := with_curr s cur).
  assert (K1 : calls s1 = calls s) by (subst s1; now autorewrite with pst).
  assert (K2 : pelems (pth s1) = pelems (pth s)) by (subst s1; now autorewrite with pst).
  assert (K3 : sinv s -> sinv s1) by (subst s1; apply sinv_with_curr).
  destruct (ncheck s1 (valid s1) take <? 0) eqn:N.
  - apply el_stop; [destruct (_ =? RFault); codes; lia|assumption|].
    intros H. split; [|apply sinv_pinv2; auto].
    pose proof (ncheck_safe s1 take (K3 H)) as X. apply Z.eqb_neq in X. rewrite X. codes; lia.
  - destruct (path_add (pth s1) (valid s1)) as [a p1] eqn:PA.
    destruct (a <? 0) eqn:AN.
    + apply el_stop; [codes; lia|assumption|]. intros H. split; [codes; lia|apply sinv_pinv2; auto].
    + apply Z.ltb_ge in AN. destruct (path_add_elems _ _ _ _ PA) as [[X _]|[_ PE]]; [lia|].
      unfold el. split; [apply tm_refl; now autorewrite with pst|]. split.
      * unfold eff, okret. codes. autorewrite with pst. split; [lia|]. split; [|intros; exfalso; lia].
        intros _. eexists. rewrite PE, K2. reflexivity.
      * intros H. codes. autorewrite with pst. split; [lia|]. split; [|intros; exfalso; lia].
        eapply path_add_pinv; [|exact PA]. apply sinv_pinv2; auto.
Qed.
Lemma section_add_noread take cur l s : noread l s (section_add take cur l s).
Proof.
  unfold section_add, noread.
  destruct (_ <? 0); [cbn; now autorewrite with pst|].
  destruct (path_add _ _) as [a p1]. destruct (a <? 0); cbn; now autorewrite with pst.
Qed.

Lemma pre_tail_el f a c l s : el l s (pre_tail f a c l s).
Proof.
  unfold pre_tail.
  destruct (negb (sstart f =? 0) && (c =? sstart f)); [apply section_add_el|].
  destruct (negb (oend f =? 0) && (c =? oend f)); [|stop_leaf].
  destruct (ncheck (with_curr s PData) 0 (aopt a) <? 0).
  - stop_leaf.
  - apply el_keep; [codes; auto|now autorewrite with pst|now autorewrite with pst|apply sinv_with_curr].
Qed.
Lemma pre_tail_noread f a c l s : noread l s (pre_tail f a c l s).
Proof.
  unfold pre_tail.
  destruct (negb (sstart f =? 0) && (c =? sstart f)); [apply section_add_noread|].
  destruct (negb (oend f =? 0) && (c =? oend f)); [|split; cbn; now autorewrite with pst].
  destruct (_ <? 0); split; cbn; now autorewrite with pst.
Qed.

Definition pre_body (f : format) (a : allow) (c : Z) (l : list Z) (s : pst) (next : pst -> R) : R :=
  if c <? 0 then (MissingData, l, s)
  else if c =? send f then (PSectEnd, l, with_curr s PSectEnd)
  else if c =? sstart f then pre_tail f a c l s
  else if c =? ostart f then parse_option f a l s
  else if c =? assign f then option_assign f (aopt a) BadOperation l (with_curr s (Z.lor POption PName))
  else if c =? oend f then pre_tail f a c l s
  else if iscomment f c then let '(_, r2, s2) := endline l s in pre_tail f a c r2 s2
  else
    let s1 := with_curr s PName in
    if negb (isspace c) then next (set_valid s1)
    else if c =? 10 then
      let '(c2, r2, s2) := nextvis f l s1 in
      pre_tail f a c2 r2 (addch s2 c2)
    else next s1.

Lemma pre_loop_eq f a c l s :
  pre_loop f a c l s =
  pre_body f a c l s (fun s1 =>
    match l with
    | [] => pre_tail f a (-2) [] (tick_eof s1)
    | c' :: r =>
      if c' <? 0 then pre_tail f a c' r (tick_raw s1)
      else pre_loop f a c' r (if c' =? 0 then tick_raw s1 else addch (tick s1 c') c')
    end).
Proof. destruct l; reflexivity. Qed.

Lemma pre_body_el f a c l s next :
  (forall s1, calls s1 = calls s -> pelems (pth s1) = pelems (pth s) -> (sinv s -> sinv s1) -> el l s (next s1)) ->
  el l s (pre_body f a c l s next).
Proof.
  intros NX. unfold pre_body.
  destruct (c <? 0); [stop_leaf|].
  destruct (c =? send f).
  { apply el_keep; [codes; auto|now autorewrite with pst|now autorewrite with pst|apply sinv_with_curr]. }
  destruct (c =? sstart f); [apply pre_tail_el|].
  destruct (c =? ostart f); [apply parse_option_el|].
  destruct (c =? assign f).
  { eapply el_pre; [|apply option_assign_el; codes; lia]. auto with pre. }
  destruct (c =? oend f); [apply pre_tail_el|].
  destruct (iscomment f c).
  { pose proof (endline_rd l s) as X. destruct (endline l s) as [[c2 r2] s2].
    eapply el_after; [exact X|apply pre_tail_el|apply pre_tail_noread]. }
  destruct (negb (isspace c)).
  { apply NX; autorewrite with pst; auto.
    intros H. apply sinv_set_valid. autorewrite with pst. now apply sinv_pinv2. }
  destruct (c =? 10).
  - pose proof (nextvis_rd f l (with_curr s PName)) as X.
    destruct (nextvis f l (with_curr s PName)) as [[c2 r2] s2].
    destruct X as [T _ E I _ _].
    eapply (el_after' l s r2 (addch s2 c2)).
    + unfold tm, eofs in *. autorewrite with pst in *. exact T.
    + autorewrite with pst in *. exact E.
    + intros H. apply sinv_addch. apply I. now apply sinv_with_curr.
    + apply pre_tail_el.
    + apply pre_tail_noread.
  - apply NX; autorewrite with pst; auto using sinv_with_curr.
Qed.

Lemma pre_loop_el f a l : forall c s, el l s (pre_loop f a c l s).
Proof.
  induction l as [|x l IH]; intros c s; rewrite pre_loop_eq; apply pre_body_el; intros s1 K1 K2 K3.
  - eapply (el_after' [] s [] (tick_eof s1)); [now apply tm_eof|now autorewrite with pst| |apply pre_tail_el|apply pre_tail_noread].
    intros H. apply sinv_tick_eof. auto.
  - assert (P0 : pre_ok (x :: l) s (x :: l) s1).
    { eapply pre_ok_tweak; [apply pre_ok_refl|..]; auto. }
    destruct (x <? 0).
    + eapply el_pre; [eapply pre_ok_trans; [exact P0|apply pre_ok_tick_raw]|apply pre_tail_el].
    + eapply el_pre; [|apply IH].
      destruct (x =? 0).
      * eapply pre_ok_trans; [exact P0|apply pre_ok_tick_raw].
      * apply pre_ok_addch. eapply pre_ok_trans; [exact P0|apply pre_ok_tick].
Qed.

Lemma format_pre_el f a l s : el l s (format_pre f a l s).
Proof.
  unfold format_pre. pose proof (nextvis_rd f l s) as X. destruct (nextvis f l s) as [[c r] s1].
  destruct (c <? 0) eqn:CN.
  - eapply el_after; [exact X| |split; reflexivity].
    apply el_stop; [destruct (pelems _); codes; lia|reflexivity|].
    intros H. split; [destruct (pelems _); codes; lia|now apply sinv_pinv2].
  - apply Z.ltb_ge in CN. pose proof (rd_pre _ _ _ _ _ X CN) as P.
    eapply el_pre; [exact P|].
    destruct (c =? sstart f); [apply section_add_el|].
    eapply el_pre; [|apply pre_loop_el]. auto with pre.
Qed.

(* ---------------------------------------------------------------- enclosed style *)
Lemma tm_pre l s r s1 r2 s2 : pre_ok l s r s1 -> tm r s1 r2 s2 -> tm l s r2 s2.
Proof.
  unfold pre_ok, tm, eofs. intros (A1 & A2 & A3 & A4 & A5) (B1 & B2 & B3 & B4).
  split; [eapply suffix_trans; eassumption|]. split; [lia|]. split; [lia|]. intros. apply B4. lia.
Qed.

Lemma enc_loop_dl f l : forall s, let '(ok, r, s') := enc_loop f l s in dl l s r s'.
Proof.
  induction l as [|a l IH]; intros s; cbn [enc_loop].
  - apply (dl_of_rd [] s (-2)). rd_leaf.
  - destruct (a <=? 0) eqn:E.
    + apply Z.leb_le in E. apply (dl_of_rd _ s (-1)). rd_leaf.
    + set (s1 := addch (tick s a) a).
      assert (P : pre_ok (a :: l) s l s1) by (subst s1; auto with pre).
      assert (Pc : pcurr s1 = pcurr s) by (subst s1; now autorewrite with pst).
      destruct (isspace a).
      * eapply dl_pre; [exact P|exact Pc|]. apply dl_stop, keeps_refl.
      * destruct (iscomment f a).
        -- pose proof (endline_rd l s1) as X. destruct (endline l s1) as [[c2 r2] s2].
           eapply dl_pre; [exact P|exact Pc|]. eapply dl_of_rd; exact X.
        -- specialize (IH (set_valid s1)). destruct (enc_loop f l (set_valid s1)) as [[ok r] s'].
           eapply dl_pre; [| |exact IH]; [auto with pre|now autorewrite with pst].
Qed.

(* readers started from a tweaked state *)
Record rdw (l : list Z) (s : pst) (c : Z) (r : list Z) (s' : pst) : Prop := mkRdw {
  w_tm : tm l s r s';
  w_ch : 0 <= c -> eofs l s r s' = 0 /\ len r < len l;
  w_elems : pelems (pth s') = pelems (pth s);
  w_inv : sinv s -> sinv s' }.

Lemma rd_w l s c r s' : rd l s c r s' -> rdw l s c r s'.
Proof. intros [A B C D _ _]. constructor; assumption. Qed.
Lemma rdw_rebase l s0 s c r s1 :
  rdw l s0 c r s1 -> calls s0 = calls s -> pelems (pth s0) = pelems (pth s) -> (sinv s -> sinv s0) ->
  rdw l s c r s1.
Proof.
  intros [T C E I] K1 K2 K3. constructor.
  - unfold tm, eofs in *. rewrite <- K1. exact T.
  - unfold eofs in *. rewrite <- K1. exact C.
  - congruence.
  - auto.
Qed.
Lemma rdw_pre l s c r s' : rdw l s c r s' -> 0 <= c -> pre_ok l s r s'.
Proof.
  intros [(A1 & A2 & A3 & A4) B C D] H. destruct (B H). unfold pre_ok.
  split; [assumption|]. split; [assumption|]. split; [assumption|]. split; assumption.
Qed.
Lemma el_after_w l s c r s1 x : rdw l s c r s1 -> el r s1 x -> noread r s1 x -> el l s x.
Proof. intros [T _ E I]. now apply el_after'. Qed.

(* nextvis after the current operation was noted *)
Lemma nextvis_curr_rdw f l s k :
  let '(c, r, s1) := nextvis f l (with_curr s k) in rdw l s c r s1.
Proof.
  pose proof (nextvis_rd f l (with_curr s k)) as X.
  destruct (nextvis f l (with_curr s k)) as [[c r] s1].
  eapply rdw_rebase; [apply rd_w; exact X|..]; autorewrite with pst; auto using sinv_with_curr.
Qed.

(* name finished: check, add; used after the name loop of the enclosed style *)
Lemma enc_finish_el (a : allow) r s :
  el r s (let nc := ncheck s (valid s) (asect a) in
          if nc <? 0 then ((if nc =? RFault then RFault else BadType), r, s)
          else let (ad, p1) := path_add (pth s) (valid s) in
               if ad <? 0 then (BadOperation, r, s)
               else (PSection, r, mkPst (line s) (calls s) p1 0 (pcurr s))).
Proof.
  cbv zeta.
  destruct (ncheck s (valid s) (asect a) <? 0) eqn:N.
  - apply el_stop; [destruct (_ =? RFault); codes; lia|reflexivity|].
    intros H. split; [|now apply sinv_pinv2].
    pose proof (ncheck_safe s (asect a) H) as X. apply Z.eqb_neq in X. rewrite X. codes; lia.
  - destruct (path_add (pth s) (valid s)) as [ad p1] eqn:PA.
    destruct (ad <? 0) eqn:AN.
    + apply el_stop; [codes; lia|reflexivity|]. intros H. split; [codes; lia|now apply sinv_pinv2].
    + apply Z.ltb_ge in AN. destruct (path_add_elems _ _ _ _ PA) as [[X _]|[_ PE]]; [lia|].
      unfold el. split; [apply tm_refl; reflexivity|]. split.
      * unfold eff, okret. codes. cbn [pth]. split; [lia|]. split; [|intros; exfalso; lia].
        intros _. eexists. exact PE.
      * intros H. codes. cbn [pth]. split; [lia|]. split; [|intros; exfalso; lia].
        eapply path_add_pinv; [|exact PA]. now apply sinv_pinv2.
Qed.
Lemma enc_finish_noread (a : allow) r s :
  noread r s (let nc := ncheck s (valid s) (asect a) in
          if nc <? 0 then ((if nc =? RFault then RFault else BadType), r, s)
          else let (ad, p1) := path_add (pth s) (valid s) in
               if ad <? 0 then (BadOperation, r, s)
               else (PSection, r, mkPst (line s) (calls s) p1 0 (pcurr s))).
Proof.
  cbv zeta. unfold noread. destruct (_ <? 0); [split; reflexivity|].
  destruct (path_add _ _) as [ad p1]. destruct (ad <? 0); split; reflexivity.
Qed.

Lemma enc_section_el f a l s : el l s (enc_section f a l s).
Proof.
  unfold enc_section.
  pose proof (nextvis_curr_rdw f l s PSection) as X.
  destruct (nextvis f l (with_curr s PSection)) as [[c r] s1].
  destruct (c <=? 0) eqn:CN.
  - eapply el_after_w; [exact X| |split; reflexivity]. stop_leaf.
  - apply Z.leb_gt in CN. assert (C0 : 0 <= c) by lia.
    pose proof (rdw_pre _ _ _ _ _ X C0) as P.
    set (s2 := set_valid (addch (with_curr s1 (Z.lor PSection PName)) c)).
    assert (P2 : pre_ok l s r s2) by (subst s2; auto with pre).
    pose proof (enc_loop_dl f r s2) as D. destruct (enc_loop f r s2) as [[ok r3] s3].
    destruct D as (T & E & I & _).
    destruct P2 as (Q1 & Q2 & Q3 & Q4 & Q5).
    eapply (el_after' l s r3 s3).
    + eapply tm_pre; [|exact T]. unfold pre_ok. auto.
    + congruence.
    + auto.
    + destruct ok; [apply enc_finish_el|stop_leaf].
    + destruct ok; [apply enc_finish_noread|split; reflexivity].
Qed.

Lemma enc_other_el f a c l s : el l s (enc_other f a c l s).
Proof.
  unfold enc_other. destruct (negb (ostart f =? 0)).
  - destruct (negb (c =? ostart f)).
    + apply el_stop; [codes; lia|now autorewrite with pst|].
      intros H. split; [codes; lia|]. autorewrite with pst. apply pinv2_addchar. now apply sinv_pinv2.
    + eapply el_pre; [|apply parse_option_el]. auto with pre.
  - eapply el_pre; [|apply parse_option_el]. auto with pre.
Qed.

Lemma format_enc_el f a prev l s : el l s (format_enc f a prev l s).
Proof.
  unfold format_enc. destruct (sstart f =? send f).
  - destruct (prev =? PSectEnd); [apply enc_section_el|].
    pose proof (nextvis_rd f l s) as X. destruct (nextvis f l s) as [[c r] s1].
    destruct (c <? 0) eqn:CN.
    + eapply el_after; [exact X| |split; cbn; now autorewrite with pst]. stop_leaf.
    + apply Z.ltb_ge in CN. pose proof (rd_pre _ _ _ _ _ X CN) as P.
      eapply el_pre; [exact P|].
      destruct (_ && (c =? sstart f)).
      * apply el_keep; [codes; auto|now autorewrite with pst|now autorewrite with pst|apply sinv_with_curr].
      * destruct (negb (c =? sstart f)); [apply enc_other_el|apply enc_section_el].
  - pose proof (nextvis_rd f l s) as X. destruct (nextvis f l s) as [[c r] s1].
    destruct (c <? 0) eqn:CN.
    + eapply el_after; [exact X| |split; cbn; now autorewrite with pst].
      apply el_stop; [destruct (pelems _); [destruct (c =? -2)|]; codes; lia|now autorewrite with pst|].
      intros H. split; [destruct (pelems _); [destruct (c =? -2)|]; codes; lia|].
      autorewrite with pst. now apply sinv_pinv2.
    + apply Z.ltb_ge in CN. pose proof (rd_pre _ _ _ _ _ X CN) as P.
      eapply el_pre; [exact P|].
      destruct (negb (c =? sstart f)); [apply enc_other_el|apply enc_section_el].
Qed.

(* ---------------------------------------------------------------- separated style *)
Definition sep_fail (r : list Z) (s1 : pst) : R := (BadValue, r, with_curr s1 PSection).

Definition sep_body (f : format) (a : allow) (c : Z) (l : list Z) (s : pst) (next : pst -> R) : R :=
  if c =? send f then section_add (asect a) (Z.lor PSection PName) l s
  else if iscomment f c then sep_fail l s
  else if negb (isspace c) then next (set_valid s)
  else if c =? 10 then sep_fail l s
  else next s.

Lemma sep_loop_eq f a c l s :
  sep_loop f a c l s =
  sep_body f a c l s (fun s1 =>
    match l with
    | [] => sep_fail [] (tick_eof s1)
    | c' :: r =>
      if c' <? 0 then sep_fail r (tick_raw s1)
      else sep_loop f a c' r (if c' =? 0 then tick_raw s1 else addch (tick s1 c') c')
    end).
Proof. destruct l; reflexivity. Qed.

Lemma sep_fail_el r s : el r s (sep_fail r s).
Proof. unfold sep_fail. stop_leaf. Qed.
Lemma sep_fail_noread r s : noread r s (sep_fail r s).
Proof. unfold sep_fail. split; cbn; now autorewrite with pst. Qed.

Lemma sep_body_el f a c l s next :
  (forall s1, keeps s s1 -> el l s (next s1)) -> el l s (sep_body f a c l s next).
Proof.
  intros NX. unfold sep_body.
  destruct (c =? send f); [apply section_add_el|].
  destruct (iscomment f c); [apply sep_fail_el|].
  destruct (negb (isspace c)); [apply NX, keeps_set_valid|].
  destruct (c =? 10); [apply sep_fail_el|apply NX, keeps_refl].
Qed.

Lemma sep_loop_el f a l : forall c s, el l s (sep_loop f a c l s).
Proof.
  induction l as [|x l IH]; intros c s; rewrite sep_loop_eq; apply sep_body_el; intros s1 (K1 & K2 & K3 & K4).
  - eapply (el_after' [] s [] (tick_eof s1)); [now apply tm_eof|now autorewrite with pst| |apply sep_fail_el|apply sep_fail_noread].
    intros H. apply sinv_tick_eof. auto.
  - assert (P0 : pre_ok (x :: l) s (x :: l) s1).
    { eapply pre_ok_tweak; [apply pre_ok_refl|..]; auto. }
    destruct (x <? 0).
    + eapply el_pre; [eapply pre_ok_trans; [exact P0|apply pre_ok_tick_raw]|apply sep_fail_el].
    + eapply el_pre; [|apply IH].
      destruct (x =? 0).
      * eapply pre_ok_trans; [exact P0|apply pre_ok_tick_raw].
      * apply pre_ok_addch. eapply pre_ok_trans; [exact P0|apply pre_ok_tick].
Qed.

Lemma sep_first_el f a l s : el l s (sep_first f a l s).
Proof.
  unfold sep_first. destruct (negb (send f =? sstart f)); [|apply sep_loop_el].
  pose proof (getchar_rd l s) as X. destruct (getchar l s) as [[c r] s1].
  destruct (c <? 0) eqn:CN.
  - eapply el_after; [exact X| |split; reflexivity].
    apply el_stop; [destruct (c =? -2); codes; lia|reflexivity|].
    intros H. split; [destruct (c =? -2); codes; lia|now apply sinv_pinv2].
  - apply Z.ltb_ge in CN. eapply el_pre; [eapply rd_pre; eassumption|apply sep_loop_el].
Qed.

Lemma format_sep_el f a prev l s : el l s (format_sep f a prev l s).
Proof.
  unfold format_sep. destruct (Z.land prev 15 =? PSectEnd).
  - eapply el_pre; [|apply sep_first_el]. auto with pre.
  - pose proof (nextvis_rd f l s) as X. destruct (nextvis f l s) as [[c r] s1].
    destruct (c <? 0) eqn:CN.
    + destruct (c =? -2).
      * eapply el_after; [exact X| |split; reflexivity].
        apply el_stop; [lia|reflexivity|]. intros H. split; [codes; lia|now apply sinv_pinv2].
      * eapply el_after; [exact X| |split; cbn; now autorewrite with pst]. stop_leaf.
    + apply Z.ltb_ge in CN. pose proof (rd_pre _ _ _ _ _ X CN) as P.
      eapply el_pre; [exact P|].
      destruct (negb (c =? sstart f)).
      * destruct (negb (c =? ostart f)); [|apply parse_option_el].
        eapply el_pre; [|apply parse_option_el]. auto with pre.
      * destruct (pelems (pth s1)) eqn:PE.
        -- eapply el_pre; [|apply sep_first_el]. auto with pre.
        -- apply el_keep; [codes; auto|now autorewrite with pst|now autorewrite with pst|apply sinv_with_curr].
Qed.

Lemma next_elem_el fam f a prev l s : el l s (next_elem fam f a prev l s).
Proof.
  destruct fam; cbn [next_elem];
    [apply format_pre_el|apply format_enc_el|apply format_sep_el|apply parse_option_el].
Qed.
