(* C08/ParseProofs.v — what one element call does, for every input, format and flag set:
   it consumes a prefix of the input (every character once), reports the end of input
   at most once, changes the path elements only as its return code says, keeps the
   post-data invariant and never reads outside the post data. *)
From Coq Require Import List ZArith Lia Bool.
From MptV Require Import C08.ParseModel C08.ParseBase.
Import ListNotations.
Local Open Scope Z_scope.

(* end-of-input reports between two states: calls made minus characters taken *)
Definition eofs (l : list Z) (s : pst) (r : list Z) (s' : pst) : Z :=
  calls s' - calls s - (len l - len r).

(* consumption of a terminal piece of work *)
Definition tm (l : list Z) (s : pst) (r : list Z) (s' : pst) : Prop :=
  suffix r l /\ len r <= len l /\ 0 <= eofs l s r s' <= 1 /\ (eofs l s r s' = 1 -> r = []).

Definition okret (ret : Z) : Prop := ret <= 0 \/ ret = 1 \/ ret = 2 \/ ret = 3 \/ ret = 4 \/ ret = 7.

(* effect on the path elements *)
Definition eff (s : pst) (ret : Z) (s' : pst) : Prop :=
  okret ret /\
  (ret = 1 \/ ret = 3 \/ ret = 7 -> exists n, pelems (pth s') = pelems (pth s) ++ [n]) /\
  (ret = 2 \/ ret = 4 -> pelems (pth s') = pelems (pth s)).

(* no read outside the post data *)
Definition safe (s : pst) (ret : Z) (s' : pst) : Prop :=
  sinv s -> ret <> RFault /\ pinv2 (pth s') /\ (ret = 4 \/ ret = 7 -> 0 <= valid s' <= plen (pth s')).

Definition el (l : list Z) (s : pst) (x : R) : Prop :=
  let '(ret, r, s') := x in tm l s r s' /\ eff s ret s' /\ safe s ret s'.

(* a prefix of work that read characters only (no end of input) and left the elements alone *)
Definition pre_ok (l : list Z) (s : pst) (r : list Z) (s1 : pst) : Prop :=
  suffix r l /\ len r <= len l /\ eofs l s r s1 = 0 /\
  pelems (pth s1) = pelems (pth s) /\ (sinv s -> sinv s1).

Lemma el_pre l s r s1 x : pre_ok l s r s1 -> el r s1 x -> el l s x.
Proof.
  destruct x as [[ret r2] s2]. unfold el, pre_ok, tm, eff, safe, eofs.
  intros (A1 & A2 & A3 & A4 & A5) ((B1 & B2 & B3 & B4) & (C1 & C2 & C3) & D).
  repeat split; try lia.
  - eapply suffix_trans; eassumption.
  - intros. apply B4. lia.
  - assumption.
  - intros H. destruct (C2 H) as [n Hn]. exists n. now rewrite Hn, A4.
  - intros H. now rewrite (C3 H), A4.
  - apply D. auto.
  - apply D. auto.
  - apply D; auto.
  - apply D; auto.
Qed.

Lemma pre_ok_refl l s : pre_ok l s l s.
Proof. unfold pre_ok, eofs. repeat split; auto with sfx; lia. Qed.

(* state tweaks that neither read nor touch the elements *)
Lemma pre_ok_tweak l s r s1 s2 :
  pre_ok l s r s1 -> calls s2 = calls s1 -> pelems (pth s2) = pelems (pth s1) -> (sinv s1 -> sinv s2) ->
  pre_ok l s r s2.
Proof.
  unfold pre_ok, eofs. intros (A1 & A2 & A3 & A4 & A5) B C D.
  repeat split; auto; try lia. congruence.
Qed.
Lemma pre_ok_with_curr l s r s1 c : pre_ok l s r s1 -> pre_ok l s r (with_curr s1 c).
Proof. intros H. eapply pre_ok_tweak; [exact H| | |]; autorewrite with pst; auto using sinv_with_curr. Qed.
Lemma pre_ok_addch l s r s1 c : pre_ok l s r s1 -> pre_ok l s r (addch s1 c).
Proof. intros H. eapply pre_ok_tweak; [exact H| | |]; autorewrite with pst; auto using sinv_addch. Qed.
Lemma pre_ok_set_valid l s r s1 : pre_ok l s r s1 -> pre_ok l s r (set_valid s1).
Proof.
  intros H. eapply pre_ok_tweak; [exact H| | |]; autorewrite with pst; auto.
  intros G. apply sinv_set_valid. now apply sinv_pinv2.
Qed.
(* one character taken *)
Lemma pre_ok_tick c r s : pre_ok (c :: r) s r (tick s c).
Proof. unfold pre_ok, eofs. autorewrite with pst. repeat split; auto with sfx; try lia. apply sinv_tick. Qed.
Lemma pre_ok_tick_raw c r s : pre_ok (c :: r) s r (tick_raw s).
Proof. unfold pre_ok, eofs. autorewrite with pst. repeat split; auto with sfx; try lia. apply sinv_tick_raw. Qed.
Lemma pre_ok_trans l s r1 s1 r2 s2 : pre_ok l s r1 s1 -> pre_ok r1 s1 r2 s2 -> pre_ok l s r2 s2.
Proof.
  unfold pre_ok, eofs. intros (A1 & A2 & A3 & A4 & A5) (B1 & B2 & B3 & B4 & B5).
  repeat split; auto; try lia; try congruence. eapply suffix_trans; eassumption.
Qed.
#[export] Hint Resolve pre_ok_refl pre_ok_with_curr pre_ok_addch pre_ok_set_valid pre_ok_tick pre_ok_tick_raw : pre.

(* a result that stops here: negative code, nothing read since the prefix *)
Lemma el_stop l s ret s' :
  ret <= 0 -> ret <> RFault -> calls s' = calls s -> (sinv s -> pinv2 (pth s')) -> el l s (ret, l, s').
Proof.
  intros A B C D. unfold el, tm, eff, safe, okret, eofs.
  repeat split; auto with sfx; try lia; intros; try lia. all: try (exfalso; lia). auto.
Qed.
(* the same after the end of input was reported *)
Lemma el_stop_eof s ret s' :
  ret <= 0 -> ret <> RFault -> calls s' = calls s + 1 -> (sinv s -> pinv2 (pth s')) -> el [] s (ret, [], s').
Proof.
  intros A B C D. unfold el, tm, eff, safe, okret, eofs. autorewrite with pst.
  repeat split; auto with sfx; try lia; intros; try lia. all: try (exfalso; lia). auto.
Qed.

(* ---------------------------------------------------------------- character readers *)
Record rd (l : list Z) (s : pst) (c : Z) (r : list Z) (s' : pst) : Prop := mkRd {
  rd_tm : tm l s r s';
  rd_ch : 0 <= c -> eofs l s r s' = 0 /\ len r < len l;
  rd_elems : pelems (pth s') = pelems (pth s);
  rd_inv : sinv s -> sinv s';
  rd_curr : pcurr s' = pcurr s;
  rd_valid : valid s' = valid s }.

Lemma rd_pre l s c r s' : rd l s c r s' -> 0 <= c -> pre_ok l s r s'.
Proof.
  intros [(A1 & A2 & A3 & A4) B C D _ _] H. destruct (B H). unfold pre_ok. repeat split; auto.
Qed.

Ltac rd_leaf :=
  constructor; unfold tm, eofs; autorewrite with pst;
  repeat split; auto with sfx; try lia; intros; try lia;
  auto using sinv_tick, sinv_tick_raw, sinv_tick_eof.

Lemma rd_step c0 r0 s c r s' s0 :
  rd r0 s0 c r s' -> calls s0 = calls s + 1 -> pelems (pth s0) = pelems (pth s) -> (sinv s -> sinv s0) ->
  pcurr s0 = pcurr s -> valid s0 = valid s ->
  rd (c0 :: r0) s c r s'.
Proof.
  intros [(A1 & A2 & A3 & A4) B C D E F] G1 G2 G3 G4 G5.
  constructor; unfold tm, eofs in *; autorewrite with pst in *.
  - repeat split; auto with sfx; try lia. intros. apply A4. lia.
  - intros H. destruct (B H). lia.
  - congruence.
  - auto.
  - congruence.
  - congruence.
Qed.

Lemma endline_rd l : forall s, let '(c, r, s') := endline l s in rd l s c r s'.
Proof.
  induction l as [|a l IH]; intros s; cbn [endline].
  - rd_leaf.
  - destruct (a =? 10); [rd_leaf|]. destruct (a <? 0) eqn:E; [apply Z.ltb_lt in E; rd_leaf|].
    specialize (IH (tick_raw s)). destruct (endline l (tick_raw s)) as [[c r] s'].
    eapply rd_step; [exact IH|..]; autorewrite with pst; auto using sinv_tick_raw.
Qed.

Lemma nextvis_go_rd f l : forall b s, let '(c, r, s') := nextvis_go f b l s in rd l s c r s'.
Proof.
  induction l as [|a l IH]; intros b s; cbn [nextvis_go].
  - rd_leaf.
  - destruct b.
    + destruct (a =? 10).
      * specialize (IH false (tick s a)). destruct (nextvis_go f false l (tick s a)) as [[c r] s'].
        eapply rd_step; [exact IH|..]; autorewrite with pst; auto using sinv_tick.
      * destruct (a <? 0) eqn:E; [apply Z.ltb_lt in E; rd_leaf|].
        specialize (IH true (tick_raw s)). destruct (nextvis_go f true l (tick_raw s)) as [[c r] s'].
        eapply rd_step; [exact IH|..]; autorewrite with pst; auto using sinv_tick_raw.
    + destruct (a <=? 0) eqn:E; [apply Z.leb_le in E; rd_leaf|].
      destruct (isspace a).
      * specialize (IH false (tick s a)). destruct (nextvis_go f false l (tick s a)) as [[c r] s'].
        eapply rd_step; [exact IH|..]; autorewrite with pst; auto using sinv_tick.
      * destruct (iscomment f a).
        -- specialize (IH true (tick s a)). destruct (nextvis_go f true l (tick s a)) as [[c r] s'].
           eapply rd_step; [exact IH|..]; autorewrite with pst; auto using sinv_tick.
        -- rd_leaf.
Qed.

Lemma nextvis_rd f l s : let '(c, r, s') := nextvis f l s in rd l s c r s'.
Proof. apply nextvis_go_rd. Qed.
