(* C08/RoundLex.v — C09, prefix style with the default format: what the element
   functions do on printed text (symbolic execution lemmas).
   Decoration is skipped, a name is collected with its trailing blanks cut off,
   a value is collected plain or quoted. *)
From Coq Require Import List ZArith Lia Bool.
From MptV Require Import C08.ParseModel C08.ParseBase C08.ParseProofs C08.PrintModel.
Import ListNotations.
Local Open Scope Z_scope.

Definition fd : format := fmt_default.

(* decide comparisons the context settles *)
Ltac zb :=
  repeat match goal with
  | |- context [?a =? ?b] =>
    first [rewrite (proj2 (Z.eqb_eq a b)) by lia | rewrite (proj2 (Z.eqb_neq a b)) by lia]
  | |- context [?a <? ?b] =>
    first [rewrite (proj2 (Z.ltb_lt a b)) by lia | rewrite (proj2 (Z.ltb_ge a b)) by lia]
  | |- context [?a <=? ?b] =>
    first [rewrite (proj2 (Z.leb_le a b)) by lia | rewrite (proj2 (Z.leb_gt a b)) by lia]
  end.

(* same path, valid length and current operation (line and call counters differ) *)
Definition same (s s' : pst) : Prop := pth s' = pth s /\ valid s' = valid s /\ pcurr s' = pcurr s.
Lemma same_refl s : same s s. Proof. unfold same. auto. Qed.
Lemma same_trans a b c : same a b -> same b c -> same a c.
Proof. unfold same. intros (A1 & A2 & A3) (B1 & B2 & B3). repeat split; congruence. Qed.
Lemma same_tick s c : same s (tick s c). Proof. unfold same. now autorewrite with pst. Qed.
Lemma same_tick_raw s : same s (tick_raw s). Proof. unfold same. now autorewrite with pst. Qed.
Lemma same_tick_eof s : same s (tick_eof s). Proof. unfold same. now autorewrite with pst. Qed.

Lemma isspace_spec c : isspace c = true <-> (9 <= c <= 13 \/ c = 32).
Proof.
  unfold isspace. rewrite orb_true_iff, andb_true_iff, !Z.leb_le, Z.eqb_eq. tauto.
Qed.
Lemma isspace_false c : isspace c = false <-> ~ (9 <= c <= 13 \/ c = 32).
Proof. rewrite <- isspace_spec. destruct (isspace c); split; intros; try discriminate; auto. now destruct H. Qed.

Lemma iscomment_fd c : iscomment fd c = (c =? 35).
Proof.
  unfold iscomment, fd, fmt_default. cbn [com0 com1 com2 com3].
  destruct (Z.eqb_spec c 35) as [->|N]; [reflexivity|]. destruct (c =? 0); reflexivity.
Qed.
Lemma isescape_fd c : isescape fd c = ((c =? 34) || (c =? 39)).
Proof.
  unfold isescape, fd, fmt_default. cbn [esc0 esc1 esc2].
  destruct (Z.eqb_spec c 34) as [->|N1]; [reflexivity|]. destruct (Z.eqb_spec c 39) as [->|N2]; [reflexivity|].
  destruct (c =? 0); reflexivity.
Qed.

(* ---------------------------------------------------------------- decoration is skipped *)
Lemma nv_ws f w : Forall (fun c => isspace c = true) w ->
  forall l s, exists s', same s s' /\ nextvis_go f false (w ++ l) s = nextvis_go f false l s'.
Proof.
  induction 1 as [|c w Hc Hw IH]; intros l s; [exists s; split; [apply same_refl|reflexivity]|].
  cbn [app nextvis_go]. apply isspace_spec in Hc as Hc'. zb. rewrite Hc.
  destruct (IH l (tick s c)) as (s' & S & E). exists s'. split; [|exact E].
  eapply same_trans; [apply same_tick|exact S].
Qed.

Lemma nv_incomment f t : Forall (fun c => 0 <= c /\ c <> 10) t ->
  forall l s, exists s', same s s' /\ nextvis_go f true (t ++ 10 :: l) s = nextvis_go f false l s'.
Proof.
  induction 1 as [|c t Hc Ht IH]; intros l s.
  - cbn [app nextvis_go]. zb. exists (tick s 10). split; [apply same_tick|reflexivity].
  - cbn [app nextvis_go]. zb. destruct (IH l (tick_raw s)) as (s' & S & E). exists s'. split; [|exact E].
    eapply same_trans; [apply same_tick_raw|exact S].
Qed.

Lemma Forall_filter {A} (p : A -> bool) (P : A -> Prop) l :
  (forall x, p x = true -> P x) -> Forall P (filter p l).
Proof.
  intros H. induction l as [|x l IH]; cbn; [constructor|]. destruct (p x) eqn:E; [constructor; auto|exact IH].
Qed.

Lemma ws_spaces l : Forall (fun c => isspace c = true) (ws l).
Proof. apply Forall_filter. auto. Qed.
Lemma hws_spaces l : Forall (fun c => isspace c = true) (hws l).
Proof. apply Forall_filter. unfold hspace. intros x H. now apply andb_true_iff in H. Qed.
Lemma hws_hspaces l : Forall (fun c => hspace c = true) (hws l).
Proof. apply Forall_filter. auto. Qed.
Lemma ctext_ok l : Forall (fun c => 0 <= c /\ c <> 10) (ctext l).
Proof.
  apply Forall_filter. unfold byteb. intros x H. apply andb_true_iff in H. destruct H as [H1 H2].
  apply andb_true_iff in H1. destruct H1 as [H1 _]. apply Z.leb_le in H1. apply negb_true_iff, Z.eqb_neq in H2. lia.
Qed.

Lemma nv_comment_line t l s :
  exists s', same s s' /\ nextvis_go fd false (comment_line t ++ l) s = nextvis_go fd false l s'.
Proof.
  unfold comment_line. cbn [app nextvis_go]. rewrite iscomment_fd. change (isspace 35) with false.
  change (35 <=? 0) with false. change (35 =? 35) with true. cbv iota.
  rewrite <- app_assoc. cbn [app].
  destruct (nv_incomment fd (ctext t) (ctext_ok t) l (tick s 35)) as (s' & S & E).
  exists s'. split; [|exact E]. eapply same_trans; [apply same_tick|exact S].
Qed.

Lemma nv_comment_lines cs : forall l s,
  exists s', same s s' /\ nextvis_go fd false (concat (map comment_line cs) ++ l) s = nextvis_go fd false l s'.
Proof.
  induction cs as [|t cs IH]; intros l s; [exists s; split; [apply same_refl|reflexivity]|].
  cbn [map concat]. rewrite <- app_assoc.
  destruct (nv_comment_line t (concat (map comment_line cs) ++ l) s) as (s1 & S1 & E1).
  destruct (IH l s1) as (s2 & S2 & E2). exists s2. split; [eapply same_trans; eassumption|].
  now rewrite E1, E2.
Qed.

Lemma nv_lead d l s :
  exists s', same s s' /\ nextvis_go fd false (lead d ++ l) s = nextvis_go fd false l s'.
Proof.
  unfold lead. rewrite <- !app_assoc.
  destruct (nv_ws fd _ (ws_spaces (d_lead d)) (concat (map comment_line (d_comments d)) ++ ws (d_indent d) ++ l) s) as (s1 & S1 & E1).
  destruct (nv_comment_lines (d_comments d) (ws (d_indent d) ++ l) s1) as (s2 & S2 & E2).
  destruct (nv_ws fd _ (ws_spaces (d_indent d)) l s2) as (s3 & S3 & E3).
  exists s3. split; [eapply same_trans; [exact S1|eapply same_trans; eassumption]|].
  now rewrite E1, E2, E3.
Qed.

(* a visible character that is no comment character ends the search *)
Lemma nv_vis c l s : 0 < c -> isspace c = false -> c <> 35 ->
  nextvis_go fd false (c :: l) s = (c, l, tick s c).
Proof.
  intros P S N. cbn [nextvis_go]. zb. rewrite S, iscomment_fd. zb. reflexivity.
Qed.

(* ---------------------------------------------------------------- names *)
(* valid length as a function of the post bytes (last byte first): up to the last non-blank *)
Fixpoint vlr (R : list Z) : Z :=
  match R with [] => 0 | c :: R' => if isspace c then vlr R' else len R end.

(* characters the name loop of the prefix style just collects *)
Definition nmc (c : Z) : bool :=
  (0 <? c) && (c <? 256) && negb (c =? 125) && negb (c =? 123) && negb (c =? 61) && negb (c =? 35) && negb (c =? 10).
Lemma nmc_spec c : nmc c = true <-> (0 < c < 256 /\ c <> 125 /\ c <> 123 /\ c <> 61 /\ c <> 35 /\ c <> 10).
Proof.
  unfold nmc. rewrite !andb_true_iff, !negb_true_iff, !Z.ltb_lt, !Z.eqb_neq. tauto.
Qed.
Lemma byte_of_small c : 0 <= c < 256 -> byte_of c = c.
Proof. intros H. unfold byte_of. now apply Z.mod_small. Qed.

Lemma set_valid_path s E c R L F K :
  pth s = mkPath E (c :: R) L F K true -> 0 <= L < VALID_MOD ->
  pth (set_valid s) = mkPath E (c :: R) L F true true /\ valid (set_valid s) = L.
Proof.
  intros H B. autorewrite with pst. rewrite H. cbn. split; [reflexivity|]. apply Z.mod_small. assumption.
Qed.

Section Names.
  Variable a : allow.

  (* the name loop on name characters: they are appended, the valid length follows the last non-blank *)
  Lemma pre_scan : forall w c s d l E R F K,
    Forall (fun x => nmc x = true) (c :: w) -> 0 < d < 256 ->
    pth s = mkPath E (c :: R) (len (c :: R)) F K true -> (K = true \/ isspace c = false) ->
    valid s = vlr R -> len (c :: R) + len w < VALID_MOD ->
    exists s', pre_loop fd a c (w ++ d :: l) s = pre_loop fd a d l s' /\
               pth s' = mkPath E (d :: rev w ++ c :: R) (len (d :: rev w ++ c :: R)) F true true /\
               valid s' = vlr (rev w ++ c :: R) /\ pcurr s' = PName.
  Proof.
    induction w as [|x w IH]; intros c s d l E R F K FA PD HP HK HV HL.
    - (* last name character: process it, read the delimiter *)
      inversion FA as [|? ? Hc _]; subst. apply nmc_spec in Hc.
      cbn [app]. rewrite pre_loop_eq. unfold pre_body. cbn [fd fmt_default send sstart ostart assign oend].
      rewrite iscomment_fd. zb. cbv iota.
      destruct (isspace c) eqn:SP; cbn [negb]; zb.
      + destruct HK as [->|HK]; [|discriminate].
        eexists. split; [reflexivity|]. autorewrite with pst. rewrite HP. cbn [path_addchar pbuf rpost pkeep negb pelems plen pfirst]; rewrite ?byte_of_small by lia.
        split; [f_equal; cbn [rev app]; rewrite ?len_cons; lia|].
        split; [cbn [rev app vlr]; rewrite SP; assumption|reflexivity].
      + pose proof (len_nonneg R). rewrite len_cons in HL. rewrite len_nil in HL.
        destruct (set_valid_path (with_curr s PName) E c R (len (c :: R)) F K) as [P1 V1];
          [rewrite pth_with_curr; exact HP|rewrite len_cons; lia|].
        eexists. split; [reflexivity|]. autorewrite with pst in *. rewrite P1.
        cbn [path_addchar pbuf rpost pkeep negb pelems plen pfirst]; rewrite ?byte_of_small by lia.
        split; [f_equal; cbn [rev app]; rewrite ?len_cons; lia|].
        split; [cbn [rev app vlr]; rewrite SP, ?len_cons; exact V1|reflexivity].
    - inversion FA as [|? ? Hc FA']; subst. apply nmc_spec in Hc.
      inversion FA' as [|? ? Hx _]; subst. apply nmc_spec in Hx as Hx'.
      cbn [app]. rewrite pre_loop_eq. unfold pre_body. cbn [fd fmt_default send sstart ostart assign oend].
      rewrite iscomment_fd. zb. cbv iota.
      rewrite !len_cons in HL. pose proof (len_nonneg w). pose proof (len_nonneg R).
      destruct (isspace c) eqn:SP; cbn [negb]; zb.
      + destruct HK as [->|HK]; [|discriminate].
        edestruct (IH x (addch (tick (with_curr s PName) x) x) d l E (c :: R) F true) as (s' & E1 & P1 & V1 & C1);
          [exact FA'|exact PD| | | | |].
        * autorewrite with pst. rewrite HP. cbn [path_addchar pbuf rpost pkeep negb pelems plen pfirst]; rewrite ?byte_of_small by lia. f_equal; rewrite ?len_cons; lia.
        * now left.
        * autorewrite with pst. cbn [vlr]. now rewrite SP.
        * rewrite ?len_cons in *. lia.
        * exists s'. split; [exact E1|]. cbn [rev]. rewrite <- !app_assoc. cbn [app]. auto.
      + destruct (set_valid_path (with_curr s PName) E c R (len (c :: R)) F K) as [P0 V0];
          [rewrite pth_with_curr; exact HP|rewrite len_cons; lia|].
        edestruct (IH x (addch (tick (set_valid (with_curr s PName)) x) x) d l E (c :: R) F true) as (s' & E1 & P1 & V1 & C1);
          [exact FA'|exact PD| | | | |].
        * autorewrite with pst in *. rewrite P0. cbn [path_addchar pbuf rpost pkeep negb pelems plen pfirst]; rewrite ?byte_of_small by lia. f_equal; rewrite ?len_cons; lia.
        * now left.
        * autorewrite with pst in *. cbn [vlr]. rewrite SP, ?len_cons. exact V0.
        * rewrite ?len_cons in *. lia.
        * exists s'. split; [exact E1|]. cbn [rev]. rewrite <- !app_assoc. cbn [app]. auto.
  Qed.
End Names.

(* ---------------------------------------------------------------- values *)
Lemma hspace_spec c : hspace c = true <-> (c = 9 \/ 11 <= c <= 13 \/ c = 32).
Proof.
  unfold hspace. rewrite andb_true_iff, negb_true_iff, Z.eqb_neq, isspace_spec. lia.
Qed.

Lemma data_loop_cons f c l s m la :
  0 < c -> data_loop f (c :: l) s m la =
  match data_body f c (addch (tick s c) c) m la with
  | Cont s2 m2 l2 => data_loop f l s2 m2 l2
  | Brk s2 => (c, l, s2)
  | BrkEndline s2 => let '(_, r2, s3) := endline l s2 in (c, r2, s3)
  end.
Proof. intros P. cbn [data_loop]. zb. reflexivity. Qed.

(* blank state: at most one (overwritable) byte of post data *)
Definition small (R : list Z) : Prop := R = [] \/ exists x, R = [x].

Lemma addchar_small E R F c : small R -> 0 <= c < 256 ->
  path_addchar (mkPath E R (len R) F false true) c = mkPath E [c] (len [c]) F false true.
Proof.
  intros [->|[x ->]] B; cbn [path_addchar pbuf rpost pkeep negb pelems plen pfirst]; rewrite byte_of_small by lia; reflexivity.
Qed.

Lemma addchar_keep E R F c : 0 <= c < 256 ->
  path_addchar (mkPath E R (len R) F true true) c = mkPath E (c :: R) (len (c :: R)) F true true.
Proof.
  intros B. destruct R; cbn [path_addchar pbuf rpost pkeep negb pelems plen pfirst]; rewrite byte_of_small by lia;
    f_equal; rewrite ?len_cons, ?len_nil; lia.
Qed.

(* leading blanks of a value are overwritten one by the other *)
Lemma data_lead_blanks : forall w s l la E F R0,
  Forall (fun c => hspace c = true) w -> pth s = mkPath E R0 (len R0) F false true -> small R0 ->
  exists s' la' R1, data_loop fd (w ++ l) s 0 la = data_loop fd l s' 0 la' /\
    pth s' = mkPath E R1 (len R1) F false true /\ small R1 /\ valid s' = valid s /\ pcurr s' = pcurr s /\
    (w <> [] -> isspace la' = true) /\ (w = [] -> la' = la).
Proof.
  induction w as [|b w IH]; intros s l la E F R0 FA HP SM.
  - exists s, la, R0. cbn [app]. repeat split; auto; intros X; now destruct X.
  - inversion FA as [|? ? Hb FA']; subst. apply hspace_spec in Hb as Hb'.
    assert (SPB : isspace b = true) by (apply isspace_spec; lia).
    cbn [app]. rewrite data_loop_cons by lia.
    unfold data_body. change (0 =? 0) with true. cbn [negb]. rewrite isescape_fd, iscomment_fd.
    cbn [fd fmt_default oend]. zb. cbn [orb andb]. rewrite SPB. cbn [negb].
    destruct (IH (addch (tick s b) b) l b E F [b]) as (s' & la' & R1 & E1 & P1 & S1 & V1 & C1 & L1 & L2); auto.
    + autorewrite with pst. rewrite HP. apply addchar_small; [assumption|lia].
    + right. eexists; reflexivity.
    + exists s', la', R1. autorewrite with pst in V1, C1. repeat split; auto.
      * intros _. destruct w; [rewrite L2; auto|apply L1; discriminate].
      * discriminate.
Qed.

(* blanks behind collected data are appended, the valid length stays *)
Lemma data_hblanks : forall w s l la E F R,
  Forall (fun c => hspace c = true) w -> pth s = mkPath E R (len R) F true true ->
  exists s' la', data_loop fd (w ++ l) s 0 la = data_loop fd l s' 0 la' /\
    pth s' = mkPath E (rev w ++ R) (len (rev w ++ R)) F true true /\ valid s' = valid s /\ pcurr s' = pcurr s /\
    (w <> [] -> isspace la' = true) /\ (w = [] -> la' = la).
Proof.
  induction w as [|b w IH]; intros s l la E F R FA HP.
  - exists s, la. cbn [app rev]. repeat split; auto; intros X; now destruct X.
  - inversion FA as [|? ? Hb FA']; subst. apply hspace_spec in Hb as Hb'.
    assert (SPB : isspace b = true) by (apply isspace_spec; lia).
    cbn [app]. rewrite data_loop_cons by lia.
    unfold data_body. change (0 =? 0) with true. cbn [negb]. rewrite isescape_fd, iscomment_fd.
    cbn [fd fmt_default oend]. zb. cbn [orb andb]. rewrite SPB. cbn [negb].
    destruct (IH (addch (tick s b) b) l b E F (b :: R)) as (s' & la' & E1 & P1 & V1 & C1 & L1 & L2); auto.
    + rewrite pth_addch, pth_tick, HP. apply addchar_keep. lia.
    + exists s', la'. autorewrite with pst in V1, C1. cbn [rev]. rewrite <- app_assoc. cbn [app].
      repeat split; auto.
      * intros _. destruct w; [rewrite L2; auto|apply L1; discriminate].
      * discriminate.
Qed.

Lemma last_cons {A} (c : A) w d : last (c :: w) d = last w c.
Proof.
  revert c d. induction w as [|x w IH]; intros c d; [reflexivity|].
  change (last (c :: x :: w) d) with (last (x :: w) d). rewrite IH. symmetry. apply IH.
Qed.

(* characters of a plain value *)
Lemma plain_char_spec c : plain_char c = true <-> (1 <= c <= 255 /\ c <> 10 /\ c <> 34 /\ c <> 39).
Proof.
  unfold plain_char, byteb. rewrite !andb_true_iff, !negb_true_iff, !Z.leb_le, !Z.eqb_neq. tauto.
Qed.

(* no comment character directly behind white space, [la] being the character in front *)
Fixpoint nwh (la : Z) (w : list Z) : bool :=
  match w with [] => true | c :: r => negb (isspace la && (c =? 35)) && nwh c r end.

Lemma data_plain_loop : forall w s l la E F R,
  Forall (fun c => plain_char c = true) w -> nwh la w = true ->
  pth s = mkPath E R (len R) F true true -> valid s = vlr R -> len R + len w < VALID_MOD ->
  exists s', data_loop fd (w ++ l) s 0 la = data_loop fd l s' 0 (last w la) /\
    pth s' = mkPath E (rev w ++ R) (len (rev w ++ R)) F true true /\ valid s' = vlr (rev w ++ R) /\ pcurr s' = pcurr s.
Proof.
  induction w as [|c w IH]; intros s l la E F R FA NW HP HV HL.
  - exists s. cbn [app rev last]. auto.
  - inversion FA as [|? ? Hc FA']; subst. apply plain_char_spec in Hc as Hc'.
    cbn [nwh] in NW. apply andb_true_iff in NW. destruct NW as [NW1 NW2].
    rewrite len_cons in HL. pose proof (len_nonneg w). pose proof (len_nonneg R).
    cbn [app]. rewrite data_loop_cons by lia.
    unfold data_body. change (0 =? 0) with true. cbn [negb]. rewrite isescape_fd, iscomment_fd.
    cbn [fd fmt_default oend]. zb. cbn [orb]. change (0 =? 0) with true. cbn [andb].
    assert (CM : (c =? 35) && isspace la = false).
    { apply negb_true_iff in NW1. rewrite andb_comm. exact NW1. }
    rewrite CM.
    assert (PA : pth (addch (tick s c) c) = mkPath E (c :: R) (len (c :: R)) F true true).
    { rewrite pth_addch, pth_tick, HP. apply addchar_keep. lia. }
    destruct (isspace c) eqn:SP; cbn [negb].
    + destruct (IH (addch (tick s c) c) l c E F (c :: R)) as (s' & E1 & P1 & V1 & C1); auto.
      * autorewrite with pst. cbn [vlr]. now rewrite SP.
      * rewrite len_cons. lia.
      * exists s'. autorewrite with pst in C1. cbn [rev]. rewrite <- !app_assoc. cbn [app].
        rewrite last_cons. auto.
    + destruct (set_valid_path (addch (tick s c) c) E c R (len (c :: R)) F true PA) as [P0 V0]; [rewrite len_cons; lia|].
      destruct (IH (set_valid (addch (tick s c) c)) l c E F (c :: R)) as (s' & E1 & P1 & V1 & C1); auto.
      * cbn [vlr]. now rewrite SP.
      * rewrite len_cons. lia.
      * exists s'. autorewrite with pst in C1. cbn [rev]. rewrite <- !app_assoc. cbn [app].
        rewrite last_cons. auto.
Qed.
