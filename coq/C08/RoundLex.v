(* C08/RoundLex.v — C09, prefix style with the default format: what the element
   functions do on printed text (symbolic execution lemmas).
   Decoration is skipped, a name is collected with its trailing blanks cut off,
   a value is collected plain or quoted. *)
From Coq Require Import List ZArith Lia Bool.
From MptV Require Import C08.ParseModel C08.ParseBase C08.ParseProofs C08.PrintModel.
Import ListNotations.
Local Open Scope Z_scope.

Definition fd : format := fmt_default.

(* decide comparisons the context settles *)
Ltac zb :=
  repeat match goal with
  | |- context [?a =? ?b] =>
    first [rewrite (proj2 (Z.eqb_eq a b)) by lia | rewrite (proj2 (Z.eqb_neq a b)) by lia]
  | |- context [?a <? ?b] =>
    first [rewrite (proj2 (Z.ltb_lt a b)) by lia | rewrite (proj2 (Z.ltb_ge a b)) by lia]
  | |- context [?a <=? ?b] =>
    first [rewrite (proj2 (Z.leb_le a b)) by lia | rewrite (proj2 (Z.leb_gt a b)) by lia]
  end.

(* same path, valid length and current operation (line and call counters differ) *)
Definition same (s s' : pst) : Prop := pth s' = pth s /\ valid s' = valid s /\ pcurr s' = pcurr s.
Lemma same_refl s : same s s. Proof. unfold same. auto. Qed.
Lemma same_trans a b c : same a b -> same b c -> same a c.
Proof. unfold same. intros (A1 & A2 & A3) (B1 & B2 & B3). repeat split; congruence. Qed.
Lemma same_tick s c : same s (tick s c). Proof. unfold same. now autorewrite with pst. Qed.
Lemma same_tick_raw s : same s (tick_raw s). Proof. unfold same. now autorewrite with pst. Qed.
Lemma same_tick_eof s : same s (tick_eof s). Proof. unfold same. now autorewrite with pst. Qed.

Lemma isspace_spec c : isspace c = true <-> (9 <= c <= 13 \/ c = 32).
Proof.
  unfold isspace. rewrite orb_true_iff, andb_true_iff, !Z.leb_le, Z.eqb_eq. tauto.
Qed.
Lemma isspace_false c : isspace c = false <-> ~ (9 <= c <= 13 \/ c = 32).
Proof. rewrite <- isspace_spec. destruct (isspace c); split; intros; try discriminate; auto. now destruct H. Qed.

Lemma iscomment_fd c : iscomment fd c = (c =? 35).
Proof.
  unfold iscomment, fd, fmt_default. cbn [com0 com1 com2 com3].
  destruct (Z.eqb_spec c 35) as [->|N]; [reflexivity|]. destruct (c =? 0); reflexivity.
Qed.
Lemma isescape_fd c : isescape fd c = ((c =? 34) || (c =? 39)).
Proof.
  unfold isescape, fd, fmt_default. cbn [esc0 esc1 esc2].
  destruct (Z.eqb_spec c 34) as [->|N1]; [reflexivity|]. destruct (Z.eqb_spec c 39) as [->|N2]; [reflexivity|].
  destruct (c =? 0); reflexivity.
Qed.

(* ---------------------------------------------------------------- decoration is skipped *)
Lemma nv_ws f w : Forall (fun c => isspace c = true) w ->
  forall l s, exists s', same s s' /\ nextvis_go f false (w ++ l) s = nextvis_go f false l s'.
Proof.
  induction 1 as [|c w Hc Hw IH]; intros l s; [exists s; split; [apply same_refl|reflexivity]|].
  cbn [app nextvis_go]. apply isspace_spec in Hc as Hc'. zb. rewrite Hc.
  destruct (IH l (tick s c)) as (s' & S & E). exists s'. split; [|exact E].
  eapply same_trans; [apply same_tick|exact S].
Qed.

Lemma nv_incomment f t : Forall (fun c => 0 <= c /\ c <> 10) t ->
  forall l s, exists s', same s s' /\ nextvis_go f true (t ++ 10 :: l) s = nextvis_go f false l s'.
Proof.
  induction 1 as [|c t Hc Ht IH]; intros l s.
  - cbn [app nextvis_go]. zb. exists (tick s 10). split; [apply same_tick|reflexivity].
  - cbn [app nextvis_go]. zb. destruct (IH l (tick_raw s)) as (s' & S & E). exists s'. split; [|exact E].
    eapply same_trans; [apply same_tick_raw|exact S].
Qed.

Lemma Forall_filter {A} (p : A -> bool) (P : A -> Prop) l :
  (forall x, p x = true -> P x) -> Forall P (filter p l).
Proof.
  intros H. induction l as [|x l IH]; cbn; [constructor|]. destruct (p x) eqn:E; [constructor; auto|exact IH].
Qed.

Lemma ws_spaces l : Forall (fun c => isspace c = true) (ws l).
Proof. apply Forall_filter. auto. Qed.
Lemma hws_spaces l : Forall (fun c => isspace c = true) (hws l).
Proof. apply Forall_filter. unfold hspace. intros x H. now apply andb_true_iff in H. Qed.
Lemma hws_hspaces l : Forall (fun c => hspace c = true) (hws l).
Proof. apply Forall_filter. auto. Qed.
Lemma ctext_ok l : Forall (fun c => 0 <= c /\ c <> 10) (ctext l).
Proof.
  apply Forall_filter. unfold byteb. intros x H. apply andb_true_iff in H. destruct H as [H1 H2].
  apply andb_true_iff in H1. destruct H1 as [H1 _]. apply Z.leb_le in H1. apply negb_true_iff, Z.eqb_neq in H2. lia.
Qed.

Lemma nv_comment_line t l s :
  exists s', same s s' /\ nextvis_go fd false (comment_line t ++ l) s = nextvis_go fd false l s'.
Proof.
  unfold comment_line. cbn [app nextvis_go]. rewrite iscomment_fd. change (isspace 35) with false.
  change (35 <=? 0) with false. change (35 =? 35) with true. cbv iota.
  rewrite <- app_assoc. cbn [app].
  destruct (nv_incomment fd (ctext t) (ctext_ok t) l (tick s 35)) as (s' & S & E).
  exists s'. split; [|exact E]. eapply same_trans; [apply same_tick|exact S].
Qed.

Lemma nv_comment_lines cs : forall l s,
  exists s', same s s' /\ nextvis_go fd false (concat (map comment_line cs) ++ l) s = nextvis_go fd false l s'.
Proof.
  induction cs as [|t cs IH]; intros l s; [exists s; split; [apply same_refl|reflexivity]|].
  cbn [map concat]. rewrite <- app_assoc.
  destruct (nv_comment_line t (concat (map comment_line cs) ++ l) s) as (s1 & S1 & E1).
  destruct (IH l s1) as (s2 & S2 & E2). exists s2. split; [eapply same_trans; eassumption|].
  now rewrite E1, E2.
Qed.

Lemma nv_lead d l s :
  exists s', same s s' /\ nextvis_go fd false (lead d ++ l) s = nextvis_go fd false l s'.
Proof.
  unfold lead. rewrite <- !app_assoc.
  destruct (nv_ws fd _ (ws_spaces (d_lead d)) (concat (map comment_line (d_comments d)) ++ ws (d_indent d) ++ l) s) as (s1 & S1 & E1).
  destruct (nv_comment_lines (d_comments d) (ws (d_indent d) ++ l) s1) as (s2 & S2 & E2).
  destruct (nv_ws fd _ (ws_spaces (d_indent d)) l s2) as (s3 & S3 & E3).
  exists s3. split; [eapply same_trans; [exact S1|eapply same_trans; eassumption]|].
  now rewrite E1, E2, E3.
Qed.

(* a visible character that is no comment character ends the search *)
Lemma nv_vis c l s : 0 < c -> isspace c = false -> c <> 35 ->
  nextvis_go fd false (c :: l) s = (c, l, tick s c).
Proof.
  intros P S N. cbn [nextvis_go]. zb. rewrite S, iscomment_fd. zb. reflexivity.
Qed.

(* ---------------------------------------------------------------- names *)
(* valid length as a function of the post bytes (last byte first): up to the last non-blank *)
Fixpoint vlr (R : list Z) : Z :=
  match R with [] => 0 | c :: R' => if isspace c then vlr R' else len R end.

(* characters the name loop of the prefix style just collects *)
Definition nmc (c : Z) : bool :=
  (0 <? c) && (c <? 256) && negb (c =? 125) && negb (c =? 123) && negb (c =? 61) && negb (c =? 35) && negb (c =? 10).
Lemma nmc_spec c : nmc c = true <-> (0 < c < 256 /\ c <> 125 /\ c <> 123 /\ c <> 61 /\ c <> 35 /\ c <> 10).
Proof.
  unfold nmc. rewrite !andb_true_iff, !negb_true_iff, !Z.ltb_lt, !Z.eqb_neq. tauto.
Qed.
Lemma byte_of_small c : 0 <= c < 256 -> byte_of c = c.
Proof. intros H. unfold byte_of. now apply Z.mod_small. Qed.

Lemma set_valid_path s E c R L F K :
  pth s = mkPath E (c :: R) L F K true -> 0 <= L < VALID_MOD ->
  pth (set_valid s) = mkPath E (c :: R) L F true true /\ valid (set_valid s) = L.
Proof.
  intros H B. autorewrite with pst. rewrite H. cbn. split; [reflexivity|]. apply Z.mod_small. assumption.
Qed.

Section Names.
  Variable a : allow.

  (* the name loop on name characters: they are appended, the valid length follows the last non-blank *)
  Lemma pre_scan : forall w c s d l E R F K,
    Forall (fun x => nmc x = true) (c :: w) -> 0 < d < 256 ->
    pth s = mkPath E (c :: R) (len (c :: R)) F K true -> (K = true \/ isspace c = false) ->
    valid s = vlr R -> len (c :: R) + len w < VALID_MOD ->
    exists s', pre_loop fd a c (w ++ d :: l) s = pre_loop fd a d l s' /\
               pth s' = mkPath E (d :: rev w ++ c :: R) (len (d :: rev w ++ c :: R)) F true true /\
               valid s' = vlr (rev w ++ c :: R) /\ pcurr s' = PName.
  Proof.
    induction w as [|x w IH]; intros c s d l E R F K FA PD HP HK HV HL.
    - (* last name character: process it, read the delimiter *)
      inversion FA as [|? ? Hc _]; subst. apply nmc_spec in Hc.
      cbn [app]. rewrite pre_loop_eq. unfold pre_body. cbn [fd fmt_default send sstart ostart assign oend].
      rewrite iscomment_fd. zb. cbv iota.
      destruct (isspace c) eqn:SP; cbn [negb]; zb.
      + destruct HK as [->|HK]; [|discriminate].
        eexists. split; [reflexivity|]. autorewrite with pst. rewrite HP. cbn [path_addchar pbuf rpost pkeep negb pelems plen pfirst]; rewrite ?byte_of_small by lia.
        split; [f_equal; cbn [rev app]; rewrite ?len_cons; lia|].
        split; [cbn [rev app vlr]; rewrite SP; assumption|reflexivity].
      + pose proof (len_nonneg R). rewrite len_cons in HL. rewrite len_nil in HL.
        destruct (set_valid_path (with_curr s PName) E c R (len (c :: R)) F K) as [P1 V1];
          [rewrite pth_with_curr; exact HP|rewrite len_cons; lia|].
        eexists. split; [reflexivity|]. autorewrite with pst in *. rewrite P1.
        cbn [path_addchar pbuf rpost pkeep negb pelems plen pfirst]; rewrite ?byte_of_small by lia.
        split; [f_equal; cbn [rev app]; rewrite ?len_cons; lia|].
        split; [cbn [rev app vlr]; rewrite SP, ?len_cons; exact V1|reflexivity].
    - inversion FA as [|? ? Hc FA']; subst. apply nmc_spec in Hc.
      inversion FA' as [|? ? Hx _]; subst. apply nmc_spec in Hx as Hx'.
      cbn [app]. rewrite pre_loop_eq. unfold pre_body. cbn [fd fmt_default send sstart ostart assign oend].
      rewrite iscomment_fd. zb. cbv iota.
      rewrite !len_cons in HL. pose proof (len_nonneg w). pose proof (len_nonneg R).
      destruct (isspace c) eqn:SP; cbn [negb]; zb.
      + destruct HK as [->|HK]; [|discriminate].
        edestruct (IH x (addch (tick (with_curr s PName) x) x) d l E (c :: R) F true) as (s' & E1 & P1 & V1 & C1);
          [exact FA'|exact PD| | | | |].
        * autorewrite with pst. rewrite HP. cbn [path_addchar pbuf rpost pkeep negb pelems plen pfirst]; rewrite ?byte_of_small by lia. f_equal; rewrite ?len_cons; lia.
        * now left.
        * autorewrite with pst. cbn [vlr]. now rewrite SP.
        * rewrite ?len_cons in *. lia.
        * exists s'. split; [exact E1|]. cbn [rev]. rewrite <- !app_assoc. cbn [app]. auto.
      + destruct (set_valid_path (with_curr s PName) E c R (len (c :: R)) F K) as [P0 V0];
          [rewrite pth_with_curr; exact HP|rewrite len_cons; lia|].
        edestruct (IH x (addch (tick (set_valid (with_curr s PName)) x) x) d l E (c :: R) F true) as (s' & E1 & P1 & V1 & C1);
          [exact FA'|exact PD| | | | |].
        * autorewrite with pst in *. rewrite P0. cbn [path_addchar pbuf rpost pkeep negb pelems plen pfirst]; rewrite ?byte_of_small by lia. f_equal; rewrite ?len_cons; lia.
        * now left.
        * autorewrite with pst in *. cbn [vlr]. rewrite SP, ?len_cons. exact V0.
        * rewrite ?len_cons in *. lia.
        * exists s'. split; [exact E1|]. cbn [rev]. rewrite <- !app_assoc. cbn [app]. auto.
  Qed.
End Names.

(* ---------------------------------------------------------------- values *)
Lemma hspace_spec c : hspace c = true <-> (c = 9 \/ 11 <= c <= 13 \/ c = 32).
Proof.
  unfold hspace. rewrite andb_true_iff, negb_true_iff, Z.eqb_neq, isspace_spec. lia.
Qed.

Lemma data_loop_cons f c l s m la :
  0 < c -> data_loop f (c :: l) s m la =
  match data_body f c (addch (tick s c) c) m la with
  | Cont s2 m2 l2 => data_loop f l s2 m2 l2
  | Brk s2 => (c, l, s2)
  | BrkEndline s2 => let '(_, r2, s3) := endline l s2 in (c, r2, s3)
  end.
Proof. intros P. cbn [data_loop]. zb. reflexivity. Qed.

(* blank state: at most one (overwritable) byte of post data *)
Definition small (R : list Z) : Prop := R = [] \/ exists x, R = [x].

Lemma addchar_small E R F c : small R -> 0 <= c < 256 ->
  path_addchar (mkPath E R (len R) F false true) c = mkPath E [c] (len [c]) F false true.
Proof.
  intros [->|[x ->]] B; cbn [path_addchar pbuf rpost pkeep negb pelems plen pfirst]; rewrite byte_of_small by lia; reflexivity.
Qed.

Lemma addchar_keep E R F c : 0 <= c < 256 ->
  path_addchar (mkPath E R (len R) F true true) c = mkPath E (c :: R) (len (c :: R)) F true true.
Proof.
  intros B. destruct R; cbn [path_addchar pbuf rpost pkeep negb pelems plen pfirst]; rewrite byte_of_small by lia;
    f_equal; rewrite ?len_cons, ?len_nil; lia.
Qed.

(* leading blanks of a value are overwritten one by the other *)
Lemma data_lead_blanks : forall w s l la E F R0,
  Forall (fun c => hspace c = true) w -> pth s = mkPath E R0 (len R0) F false true -> small R0 ->
  exists s' la' R1, data_loop fd (w ++ l) s 0 la = data_loop fd l s' 0 la' /\
    pth s' = mkPath E R1 (len R1) F false true /\ small R1 /\ valid s' = valid s /\ pcurr s' = pcurr s /\
    (w <> [] -> isspace la' = true) /\ (w = [] -> la' = la).
Proof.
  induction w as [|b w IH]; intros s l la E F R0 FA HP SM.
  - exists s, la, R0. cbn [app]. repeat split; auto; intros X; now destruct X.
  - inversion FA as [|? ? Hb FA']; subst. apply hspace_spec in Hb as Hb'.
    assert (SPB : isspace b = true) by (apply isspace_spec; lia).
    cbn [app]. rewrite data_loop_cons by lia.
    unfold data_body. change (0 =? 0) with true. cbn [negb]. rewrite isescape_fd, iscomment_fd.
    cbn [fd fmt_default oend]. zb. cbn [orb andb]. rewrite SPB. cbn [negb].
    destruct (IH (addch (tick s b) b) l b E F [b]) as (s' & la' & R1 & E1 & P1 & S1 & V1 & C1 & L1 & L2); auto.
    + autorewrite with pst. rewrite HP. apply addchar_small; [assumption|lia].
    + right. eexists; reflexivity.
    + exists s', la', R1. autorewrite with pst in V1, C1. repeat split; auto.
      * intros _. destruct w; [rewrite L2; auto|apply L1; discriminate].
      * discriminate.
Qed.

(* blanks behind collected data are appended, the valid length stays *)
Lemma data_hblanks : forall w s l la E F R,
  Forall (fun c => hspace c = true) w -> pth s = mkPath E R (len R) F true true ->
  exists s' la', data_loop fd (w ++ l) s 0 la = data_loop fd l s' 0 la' /\
    pth s' = mkPath E (rev w ++ R) (len (rev w ++ R)) F true true /\ valid s' = valid s /\ pcurr s' = pcurr s /\
    (w <> [] -> isspace la' = true) /\ (w = [] -> la' = la).
Proof.
  induction w as [|b w IH]; intros s l la E F R FA HP.
  - exists s, la. cbn [app rev]. repeat split; auto; intros X; now destruct X.
  - inversion FA as [|? ? Hb FA']; subst. apply hspace_spec in Hb as Hb'.
    assert (SPB : isspace b = true) by (apply isspace_spec; lia).
    cbn [app]. rewrite data_loop_cons by lia.
    unfold data_body. change (0 =? 0) with true. cbn [negb]. rewrite isescape_fd, iscomment_fd.
    cbn [fd fmt_default oend]. zb. cbn [orb andb]. rewrite SPB. cbn [negb].
    destruct (IH (addch (tick s b) b) l b E F (b :: R)) as (s' & la' & E1 & P1 & V1 & C1 & L1 & L2); auto.
    + rewrite pth_addch, pth_tick, HP. apply addchar_keep. lia.
    + exists s', la'. autorewrite with pst in V1, C1. cbn [rev]. rewrite <- app_assoc. cbn [app].
      repeat split; auto.
      * intros _. destruct w; [rewrite L2; auto|apply L1; discriminate].
      * discriminate.
Qed.

Lemma last_cons {A} (c : A) w d : last (c :: w) d = last w c.
Proof.
  revert c d. induction w as [|x w IH]; intros c d; [reflexivity|].
  change (last (c :: x :: w) d) with (last (x :: w) d). rewrite IH. symmetry. apply IH.
Qed.

(* characters of a plain value *)
Lemma plain_char_spec c : plain_char c = true <-> (1 <= c <= 255 /\ c <> 10 /\ c <> 34 /\ c <> 39).
Proof.
  unfold plain_char, byteb. rewrite !andb_true_iff, !negb_true_iff, !Z.leb_le, !Z.eqb_neq. tauto.
Qed.

(* no comment character directly behind white space, [la] being the character in front *)
Fixpoint nwh (la : Z) (w : list Z) : bool :=
  match w with [] => true | c :: r => negb (isspace la && (c =? 35)) && nwh c r end.

Lemma data_plain_loop : forall w s l la E F R,
  Forall (fun c => plain_char c = true) w -> nwh la w = true ->
  pth s = mkPath E R (len R) F true true -> valid s = vlr R -> len R + len w < VALID_MOD ->
  exists s', data_loop fd (w ++ l) s 0 la = data_loop fd l s' 0 (last w la) /\
    pth s' = mkPath E (rev w ++ R) (len (rev w ++ R)) F true true /\ valid s' = vlr (rev w ++ R) /\ pcurr s' = pcurr s.
Proof.
  induction w as [|c w IH]; intros s l la E F R FA NW HP HV HL.
  - exists s. cbn [app rev last]. auto.
  - inversion FA as [|? ? Hc FA']; subst. apply plain_char_spec in Hc as Hc'.
    cbn [nwh] in NW. apply andb_true_iff in NW. destruct NW as [NW1 NW2].
    rewrite len_cons in HL. pose proof (len_nonneg w). pose proof (len_nonneg R).
    cbn [app]. rewrite data_loop_cons by lia.
    unfold data_body. change (0 =? 0) with true. cbn [negb]. rewrite isescape_fd, iscomment_fd.
    cbn [fd fmt_default oend]. zb. cbn [orb]. change (0 =? 0) with true. cbn [andb].
    assert (CM : (c =? 35) && isspace la = false).
    { apply negb_true_iff in NW1. rewrite andb_comm. exact NW1. }
    rewrite CM.
    assert (PA : pth (addch (tick s c) c) = mkPath E (c :: R) (len (c :: R)) F true true).
    { rewrite pth_addch, pth_tick, HP. apply addchar_keep. lia. }
    destruct (isspace c) eqn:SP; cbn [negb].
    + destruct (IH (addch (tick s c) c) l c E F (c :: R)) as (s' & E1 & P1 & V1 & C1); auto.
      * autorewrite with pst. cbn [vlr]. now rewrite SP.
      * rewrite len_cons. lia.
      * exists s'. autorewrite with pst in C1. cbn [rev]. rewrite <- !app_assoc. cbn [app].
        rewrite last_cons. auto.
    + destruct (set_valid_path (addch (tick s c) c) E c R (len (c :: R)) F true PA) as [P0 V0]; [rewrite len_cons; lia|].
      destruct (IH (set_valid (addch (tick s c) c)) l c E F (c :: R)) as (s' & E1 & P1 & V1 & C1); auto.
      * cbn [vlr]. now rewrite SP.
      * rewrite len_cons. lia.
      * exists s'. autorewrite with pst in C1. cbn [rev]. rewrite <- !app_assoc. cbn [app].
        rewrite last_cons. auto.
Qed.

(* first character of a plain value: it replaces the pending blank *)
Lemma data_first_plain c l s la E F R0 :
  plain_char c = true -> isspace c = false -> c <> 35 ->
  pth s = mkPath E R0 (len R0) F false true -> small R0 ->
  exists s', data_loop fd (c :: l) s 0 la = data_loop fd l s' 0 c /\
    pth s' = mkPath E [c] (len [c]) F true true /\ valid s' = 1 /\ pcurr s' = pcurr s.
Proof.
  intros Hc SP NC HP SM. apply plain_char_spec in Hc.
  rewrite data_loop_cons by lia.
  unfold data_body. change (0 =? 0) with true. cbn [negb]. rewrite isescape_fd, iscomment_fd.
  cbn [fd fmt_default oend]. zb. cbn [orb andb]. rewrite SP. cbn [negb].
  assert (PA : pth (addch (tick s c) c) = mkPath E [c] (len [c]) F false true).
  { rewrite pth_addch, pth_tick, HP. apply addchar_small; [assumption|lia]. }
  destruct (set_valid_path _ _ _ _ _ _ _ PA) as [P0 V0]; [cbn; unfold VALID_MOD; lia|].
  exists (set_valid (addch (tick s c) c)). split; [reflexivity|]. split; [exact P0|]. split; [exact V0|].
  now autorewrite with pst.
Qed.

(* end of a value: newline *)
Lemma data_end_nl l s la :
  data_loop fd (10 :: l) s 0 la = (10, l, addch (tick s 10) 10).
Proof.
  rewrite data_loop_cons by lia. unfold data_body. change (0 =? 0) with true. cbn [negb].
  rewrite isescape_fd. cbn [fd fmt_default oend]. reflexivity.
Qed.

Lemma endline_text t : Forall (fun c => 0 <= c /\ c <> 10) t ->
  forall l s, exists s', same s s' /\ endline (t ++ 10 :: l) s = (0, l, s').
Proof.
  induction 1 as [|c t Hc Ht IH]; intros l s; cbn [app endline].
  - exists (tick s 10). split; [apply same_tick|reflexivity].
  - zb. destruct (IH l (tick_raw s)) as (s' & S & E). exists s'. split; [|exact E].
    eapply same_trans; [apply same_tick_raw|exact S].
Qed.

(* end of a value: comment behind white space *)
Lemma data_end_comment t l s la :
  isspace la = true ->
  exists s', data_loop fd (35 :: ctext t ++ 10 :: l) s 0 la = (35, l, s') /\ same (addch (tick s 35) 35) s'.
Proof.
  intros SP. rewrite data_loop_cons by lia. unfold data_body. change (0 =? 0) with true. cbn [negb].
  rewrite isescape_fd, iscomment_fd. cbn [fd fmt_default oend]. change (35 =? 34) with false.
  change (35 =? 39) with false. change (35 =? 0) with false. change (35 =? 10) with false.
  change (0 =? 0) with true. change (35 =? 35) with true. cbn [orb andb]. rewrite SP.
  destruct (endline_text (ctext t) (ctext_ok t) l (addch (tick s 35) 35)) as (s' & S & E).
  rewrite E. exists s'. split; [reflexivity|exact S].
Qed.

(* ---- quoted values ---- *)
Definition quote_char (q : Z) : Prop := q = 34 \/ q = 39.

(* state while the decoded prefix v1 of a quoted value has been collected *)
Definition qs (s : pst) (E : list (list Z)) (F q : Z) (v1 : list Z) : Prop :=
  match v1 with
  | [] => pth s = mkPath E [q] 1 F false true /\ valid s = 0
  | _ => pth s = mkPath E (rev v1) (len v1) F true true /\ valid s = len v1
  end.

Lemma delchar_cons E x R L F K : path_delchar (mkPath E (x :: R) L F K true) = mkPath E R (L - 1) F K true.
Proof. reflexivity. Qed.

Lemma data_open_quote q l s la E F R0 :
  quote_char q -> pth s = mkPath E R0 (len R0) F false true -> small R0 -> valid s = 0 ->
  exists s', data_loop fd (q :: l) s 0 la = data_loop fd l s' q q /\ qs s' E F q [] /\ pcurr s' = pcurr s.
Proof.
  intros Q HP SM HV. assert (0 < q < 256) by (destruct Q; lia).
  rewrite data_loop_cons by lia. unfold data_body. change (0 =? 0) with true. cbn [negb].
  rewrite isescape_fd. replace ((q =? 34) || (q =? 39)) with true by (destruct Q; subst; reflexivity).
  exists (addch (tick s q) q). split; [reflexivity|]. split; [|now autorewrite with pst].
  unfold qs. split; [|now autorewrite with pst].
  rewrite pth_addch, pth_tick, HP. apply addchar_small; [assumption|lia].
Qed.

(* one ordinary character inside the quotes *)
Lemma data_quoted_char q x l s la E F v1 :
  quote_char q -> 1 <= x <= 255 -> x <> q -> qs s E F q v1 -> len v1 + 2 < VALID_MOD ->
  exists s', data_loop fd (x :: l) s q la = data_loop fd l s' q x /\ qs s' E F q (v1 ++ [x]) /\ pcurr s' = pcurr s.
Proof.
  intros Q Bx NQ HQ HL. assert (0 < q < 256) by (destruct Q; lia).
  rewrite data_loop_cons by lia. unfold data_body.
  replace (negb (q =? 0)) with true by (destruct Q; subst; reflexivity). zb.
  cbn [andb]. exists (set_valid (addch (tick s x) x)). split; [reflexivity|].
  split; [|now autorewrite with pst].
  unfold qs in *. destruct v1 as [|y v1].
  - destruct HQ as [HP HV]. cbn [app].
    assert (PA : pth (addch (tick s x) x) = mkPath E [x] 1 F false true).
    { rewrite pth_addch, pth_tick, HP. cbn [path_addchar pbuf rpost pkeep negb pelems plen pfirst].
      now rewrite byte_of_small by lia. }
    destruct (set_valid_path _ _ _ _ _ _ _ PA) as [P0 V0]; [unfold VALID_MOD; lia|].
    cbn [rev app]. split; assumption.
  - destruct HQ as [HP HV]. pose proof (len_nonneg (y :: v1)).
    assert (NE : (y :: v1) ++ [x] <> []) by (destruct v1; discriminate).
    destruct ((y :: v1) ++ [x]) eqn:EQ; [now destruct NE|]. rewrite <- EQ. clear EQ NE.
    assert (PA : pth (addch (tick s x) x) = mkPath E (x :: rev (y :: v1)) (len (x :: rev (y :: v1))) F true true).
    { rewrite pth_addch, pth_tick, HP.
      replace (len (y :: v1)) with (len (rev (y :: v1))) by (unfold len; now rewrite rev_length).
      apply addchar_keep. lia. }
    assert (LR : len (x :: rev (y :: v1)) = len (y :: v1) + 1) by (rewrite len_cons; unfold len; now rewrite rev_length).
    destruct (set_valid_path _ _ _ _ _ _ _ PA) as [P0 V0]; [rewrite LR; lia|].
    rewrite rev_app_distr. cbn [rev app] in *. rewrite P0, V0.
    assert (LL : len (x :: rev v1 ++ [y]) = len (y :: v1 ++ [x])).
    { unfold len. cbn [length]. rewrite !app_length, rev_length. cbn [length]. lia. }
    rewrite LL. split; reflexivity.
Qed.

(* an escaped quote inside the quotes: the backslash is dropped, the quote kept *)
Lemma data_quoted_escape q l s la E F v1 :
  quote_char q -> qs s E F q v1 -> len v1 + 3 < VALID_MOD ->
  exists s', data_loop fd (92 :: q :: l) s q la = data_loop fd l s' q q /\ qs s' E F q (v1 ++ [q]) /\ pcurr s' = pcurr s.
Proof.
  intros Q HQ HL. assert (0 < q < 256) by (destruct Q; lia). assert (q <> 92) by (destruct Q; lia).
  destruct (data_quoted_char q 92 (q :: l) s la E F v1 Q) as (s1 & E1 & Q1 & C1); [lia|lia|assumption|lia|].
  rewrite E1. clear E1.
  (* now the quote with last = 92 *)
  rewrite data_loop_cons by lia. unfold data_body.
  replace (negb (q =? 0)) with true by (destruct Q; subst; reflexivity). zb.
  cbn [negb andb]. eexists. split; [reflexivity|]. split; [|autorewrite with pst; exact C1].
  unfold qs in Q1. destruct (v1 ++ [92]) as [|y w] eqn:EQ; [destruct v1; discriminate|].
  rewrite <- EQ in Q1. clear EQ y w. destruct Q1 as [HP HV].
  assert (RV : rev (v1 ++ [92]) = 92 :: rev v1) by (rewrite rev_app_distr; reflexivity).
  assert (LV : len (v1 ++ [92]) = len v1 + 1) by (unfold len; rewrite app_length; cbn; lia).
  rewrite RV, LV in HP.
  assert (PA : pth (with_path (addch (tick s1 q) q)
                 (path_addchar (path_delchar (path_delchar (pth (addch (tick s1 q) q)))) q))
               = mkPath E (q :: rev v1) (len v1 + 1) F true true).
  { rewrite pth_with_path, pth_addch, pth_tick, HP.
    cbn [path_addchar pbuf rpost pkeep negb pelems plen pfirst]. rewrite !byte_of_small by lia.
    rewrite !delchar_cons.
    replace (len v1 + 1 + 1 - 1 - 1) with (len (rev v1)) by (unfold len; rewrite rev_length; lia).
    rewrite addchar_keep by lia. f_equal. rewrite len_cons. unfold len. rewrite rev_length. lia. }
  pose proof (len_nonneg v1).
  destruct (set_valid_path _ _ _ _ _ _ _ PA) as [P0 V0]; [lia|].
  unfold qs. destruct (v1 ++ [q]) as [|y w] eqn:EQ; [destruct v1; discriminate|]. rewrite <- EQ. clear EQ y w.
  rewrite rev_app_distr. cbn [rev app].
  assert (LQ : len (v1 ++ [q]) = len v1 + 1) by (unfold len; rewrite app_length; cbn; lia).
  rewrite LQ. split; assumption.
Qed.

(* the whole escaped text *)
Lemma data_quoted_loop q : quote_char q -> forall v l s la E F v1,
  Forall (fun c => byteb c = true) v -> qs s E F q v1 -> len v1 + len v + 3 < VALID_MOD ->
  exists s', data_loop fd (escape q v ++ l) s q la = data_loop fd l s' q (last v la) /\
             qs s' E F q (v1 ++ v) /\ pcurr s' = pcurr s.
Proof.
  intros Q. induction v as [|x v IH]; intros l s la E F v1 FA HQ HL.
  - exists s. cbn [escape flat_map app last]. rewrite app_nil_r. auto.
  - inversion FA as [|? ? Hx FA']; subst. unfold byteb in Hx. apply andb_true_iff in Hx. destruct Hx as [X1 X2].
    apply Z.leb_le in X1, X2. rewrite len_cons in HL. pose proof (len_nonneg v). pose proof (len_nonneg v1).
    change (escape q (x :: v)) with ((if x =? q then [92; q] else [x]) ++ escape q v).
    rewrite last_cons.
    assert (LA : len (v1 ++ [x]) = len v1 + 1) by (unfold len; rewrite app_length; cbn; lia).
    destruct (Z.eqb_spec x q) as [->|NE].
    + cbn [app]. destruct (data_quoted_escape q (escape q v ++ l) s la E F v1 Q HQ) as (s1 & E1 & Q1 & C1); [lia|].
      destruct (IH l s1 q E F (v1 ++ [q]) FA' Q1) as (s2 & E2 & Q2 & C2); [lia|].
      exists s2. rewrite E1, E2. rewrite <- app_assoc in Q2. cbn [app] in Q2. split; [reflexivity|].
      split; [exact Q2|congruence].
    + cbn [app]. destruct (data_quoted_char q x (escape q v ++ l) s la E F v1 Q) as (s1 & E1 & Q1 & C1); [lia|assumption|assumption|lia|].
      destruct (IH l s1 x E F (v1 ++ [x]) FA' Q1) as (s2 & E2 & Q2 & C2); [lia|].
      exists s2. rewrite E1, E2. rewrite <- app_assoc in Q2. cbn [app] in Q2. split; [reflexivity|].
      split; [exact Q2|congruence].
Qed.

(* the closing quote (the character in front is no backslash) *)
Lemma data_close_quote q l s la E F v :
  quote_char q -> la <> 92 -> qs s E F q v ->  len v + 2 < VALID_MOD ->
  exists s', data_loop fd (q :: l) s q la = data_loop fd l s' 0 q /\ pcurr s' = pcurr s /\ valid s' = len v /\
    match v with
    | [] => pth s' = mkPath E [] 0 F false true
    | _ => pth s' = mkPath E (rev v) (len v) F true true
    end.
Proof.
  intros Q NL HQ HL. assert (0 < q < 256) by (destruct Q; lia).
  rewrite data_loop_cons by lia. unfold data_body.
  replace (negb (q =? 0)) with true by (destruct Q; subst; reflexivity). zb.
  cbn [negb andb]. eexists. split; [reflexivity|]. split; [now autorewrite with pst|].
  unfold qs in HQ. destruct v as [|y v].
  - destruct HQ as [HP HV]. autorewrite with pst. rewrite HP.
    cbn [path_addchar pbuf rpost pkeep negb pelems plen pfirst path_delchar path_valid fst snd].
    cbn. split; reflexivity.
  - destruct HQ as [HP HV]. pose proof (len_nonneg (y :: v)).
    assert (PA : pth (with_path (addch (tick s q) q) (path_delchar (pth (addch (tick s q) q))))
                 = mkPath E (rev (y :: v)) (len (y :: v)) F true true).
    { rewrite pth_with_path, pth_addch, pth_tick, HP.
      replace (len (y :: v)) with (len (rev (y :: v))) by (unfold len; now rewrite rev_length).
      rewrite addchar_keep by lia. rewrite delchar_cons. f_equal. rewrite len_cons. lia. }
    destruct (rev (y :: v)) as [|z R] eqn:ER.
    { apply (f_equal (@length Z)) in ER. rewrite rev_length in ER. discriminate. }
    destruct (set_valid_path _ _ _ _ _ _ _ PA) as [P0 V0]; [lia|]. split; assumption.
Qed.

(* ---- what follows the value: blanks, optional comment, newline ---- *)
Lemma tail_split d rest :
  hws (d_trail d) ++ tail_comment d ++ 10 :: rest =
  match d_tcomment d with
  | None => hws (d_trail d) ++ 10 :: rest
  | Some t => (hws (d_trail d) ++ [32]) ++ 35 :: ctext t ++ 10 :: rest
  end.
Proof.
  unfold tail_comment. destruct (d_tcomment d); [|reflexivity].
  rewrite <- !app_assoc. reflexivity.
Qed.

Lemma hws_32 l : Forall (fun c => hspace c = true) (hws l ++ [32]).
Proof. apply Forall_app. split; [apply hws_hspaces|constructor; [reflexivity|constructor]]. Qed.

Lemma data_tail_keep d rest s la E F R :
  pth s = mkPath E R (len R) F true true ->
  exists s' c J, data_loop fd (hws (d_trail d) ++ tail_comment d ++ 10 :: rest) s 0 la = (c, rest, s') /\
    pth s' = mkPath E (J ++ R) (len (J ++ R)) F true true /\ valid s' = valid s /\ pcurr s' = pcurr s.
Proof.
  intros HP. rewrite tail_split. destruct (d_tcomment d) as [t|].
  - destruct (data_hblanks _ s (35 :: ctext t ++ 10 :: rest) la E F R (hws_32 (d_trail d)) HP) as (s1 & la1 & E1 & P1 & V1 & C1 & L1 & _).
    assert (SP : isspace la1 = true) by (apply L1; destruct (hws (d_trail d)); discriminate).
    destruct (data_end_comment t rest s1 la1 SP) as (s2 & E2 & (S1 & S2 & S3)).
    exists s2, 35, (35 :: rev (hws (d_trail d) ++ [32])). rewrite E1, E2. split; [reflexivity|].
    autorewrite with pst in S1, S2, S3. rewrite S1, S2, S3, P1.
    split; [|split; assumption].
    rewrite addchar_keep by lia. reflexivity.
  - destruct (data_hblanks _ s (10 :: rest) la E F R (hws_hspaces (d_trail d)) HP) as (s1 & la1 & E1 & P1 & V1 & C1 & _).
    exists (addch (tick s1 10) 10), 10, (10 :: rev (hws (d_trail d))). rewrite E1, data_end_nl.
    split; [reflexivity|]. autorewrite with pst. rewrite P1.
    split; [|split; assumption]. rewrite addchar_keep by lia. reflexivity.
Qed.

(* from the blank state (nothing collected) *)
Lemma data_tail_small d pre rest s la E F R0 :
  Forall (fun c => hspace c = true) pre ->
  pth s = mkPath E R0 (len R0) F false true -> small R0 ->
  exists s' c, data_loop fd (pre ++ hws (d_trail d) ++ tail_comment d ++ 10 :: rest) s 0 la = (c, rest, s') /\
    pelems (pth s') = E /\ bufok (pth s') /\ valid s' = valid s /\ pcurr s' = pcurr s.
Proof.
  intros FP HP SM. rewrite tail_split. destruct (d_tcomment d) as [t|].
  - rewrite app_assoc.
    assert (FA : Forall (fun c => hspace c = true) (pre ++ hws (d_trail d) ++ [32])).
    { apply Forall_app. split; [assumption|apply hws_32]. }
    destruct (data_lead_blanks _ s (35 :: ctext t ++ 10 :: rest) la E F R0 FA HP SM)
      as (s1 & la1 & R1 & E1 & P1 & S1 & V1 & C1 & L1 & _).
    assert (SP : isspace la1 = true).
    { apply L1. destruct pre; [destruct (hws (d_trail d))|]; discriminate. }
    destruct (data_end_comment t rest s1 la1 SP) as (s2 & E2 & (T1 & T2 & T3)).
    exists s2, 35. rewrite E1, E2. split; [reflexivity|].
    autorewrite with pst in T1, T2, T3. rewrite T1, T2, T3, P1, addchar_small by (assumption || lia).
    cbn [pelems pbuf pbin]. auto.
  - rewrite app_assoc.
    assert (FA : Forall (fun c => hspace c = true) (pre ++ hws (d_trail d))).
    { apply Forall_app. split; [assumption|apply hws_hspaces]. }
    destruct (data_lead_blanks _ s (10 :: rest) la E F R0 FA HP SM)
      as (s1 & la1 & R1 & E1 & P1 & S1 & V1 & C1 & _).
    exists (addch (tick s1 10) 10), 10. rewrite E1, data_end_nl. split; [reflexivity|].
    autorewrite with pst. rewrite P1, addchar_small by (assumption || lia). cbn [pelems pbuf pbin]. auto.
Qed.

(* the bytes handed to the handler *)
Lemma post_read_value s E J v F K :
  pth s = mkPath E (J ++ rev v) (len (J ++ rev v)) F K true ->
  post_read s (len v) = Some v.
Proof.
  intros HP. unfold post_read. rewrite HP. cbn [plen].
  assert (L : len v <= len (J ++ rev v)).
  { unfold len. rewrite app_length, rev_length. lia. }
  pose proof (len_nonneg v).
  replace ((0 <=? len v) && (len v <=? len (J ++ rev v))) with true
    by (symmetry; apply andb_true_iff; split; apply Z.leb_le; lia).
  f_equal. rewrite ppost_rev. cbn [rpost]. rewrite rev_app_distr, rev_involutive.
  unfold len. rewrite Nat2Z.id. rewrite firstn_app, Nat.sub_diag, firstn_all. cbn. apply app_nil_r.
Qed.

(* ---------------------------------------------------------------- a printed value is read back *)
Lemma plain_ok_inv v : plain_ok v = true ->
  exists c0 v', v = c0 :: v' /\ Forall (fun c => plain_char c = true) v /\ isspace c0 = false /\ c0 <> 35 /\
                isspace (last v 0) = false /\ no_ws_hash v = true.
Proof.
  destruct v as [|c0 v']; [discriminate|]. unfold plain_ok.
  rewrite !andb_true_iff, !negb_true_iff, Z.eqb_neq. intros ((((A & B) & C) & D) & E).
  exists c0, v'. repeat split; auto. apply Forall_forall. now apply forallb_forall.
Qed.

Lemma no_ws_hash_nwh c v : no_ws_hash (c :: v) = nwh c v.
Proof.
  revert c. induction v as [|x v IH]; intros c; [reflexivity|].
  change (no_ws_hash (c :: x :: v)) with (negb (isspace c && (x =? 35)) && no_ws_hash (x :: v)).
  cbn [nwh]. now rewrite IH.
Qed.

(* vlr of collected data whose last character is no blank *)
Lemma vlr_last R : R <> [] -> isspace (hd 0 R) = false -> vlr R = len R.
Proof. destruct R as [|c R]; [intros X; now destruct X|]. cbn [hd vlr]. intros _ ->. reflexivity. Qed.

Lemma hd_rev_last (v : list Z) d : hd d (rev v) = last v d.
Proof.
  induction v as [|x v IH] using rev_ind; [reflexivity|]. rewrite rev_app_distr. cbn [rev app hd].
  now rewrite last_last.
Qed.

Lemma parse_data_eq l s :
  parse_data fd l s = let '(c, r, s1) := data_loop fd l s 0 (-1) in (valid s1, r, s1).
Proof. unfold parse_data. destruct (data_loop fd l s 0 (-1)) as [[c r] s1]. reflexivity. Qed.

Lemma parse_data_value d v rest s E F :
  wf_value v = true -> pth s = mkPath E [] 0 F false true -> valid s = 0 ->
  exists s', parse_data fd (hws (d_mid2 d) ++ print_value d v ++ hws (d_trail d) ++ tail_comment d ++ 10 :: rest) s
             = (len v, rest, s') /\
    pelems (pth s') = E /\ bufok (pth s') /\ pcurr s' = pcurr s /\ valid s' = len v /\
    (v <> [] -> post_read s' (len v) = Some v).
Proof.
  intros WF HP HV. unfold wf_value in WF. apply andb_true_iff in WF. destruct WF as [WF WL].
  apply andb_true_iff in WF. destruct WF as [WB WQ].
  apply Z.ltb_lt in WL. fold (len v) in WL. unfold VALUE_MAX in WL.
  assert (FB : Forall (fun c => byteb c = true) v) by (apply Forall_forall; now apply forallb_forall).
  assert (SM0 : small []) by (now left).
  rewrite parse_data_eq.
  unfold print_value. set (q := if d_quote d =? 39 then 39 else 34).
  assert (Q : quote_char q) by (subst q; destruct (d_quote d =? 39); [right|left]; reflexivity).
  destruct v as [|y v0].
  - (* empty value *)
    destruct (d_quote d =? 0).
    + cbn [app]. destruct (data_tail_small d (hws (d_mid2 d)) rest s (-1) E F [] (hws_hspaces _) HP SM0)
        as (s' & c & E1 & P1 & [B1 BN1] & V1 & C1).
      rewrite E1. exists s'. rewrite V1, HV. repeat split; auto; try (intros X; now destruct X).
    + destruct (data_lead_blanks _ s ([q; q] ++ hws (d_trail d) ++ tail_comment d ++ 10 :: rest) (-1) E F []
                  (hws_hspaces (d_mid2 d)) HP SM0) as (s1 & la1 & R1 & E1 & P1 & S1 & V1 & C1 & _).
      rewrite E1. cbn [app].
      destruct (data_open_quote q (q :: hws (d_trail d) ++ tail_comment d ++ 10 :: rest) s1 la1 E F R1 Q P1 S1)
        as (s2 & E2 & Q2 & C2); [congruence|]. rewrite E2.
      destruct (data_close_quote q (hws (d_trail d) ++ tail_comment d ++ 10 :: rest) s2 q E F [] Q) as (s3 & E3 & C3 & V3 & P3);
        [destruct Q; lia|exact Q2|cbn; unfold VALID_MOD; lia|]. rewrite E3.
      destruct (data_tail_small d [] rest s3 q E F [] (Forall_nil _) P3 SM0) as (s' & c & E4 & P4 & [B4 BN4] & V4 & C4).
      cbn [app] in E4. rewrite E4. exists s'. rewrite V4, V3. repeat split; auto; try congruence; try (intros X; now destruct X).
  - set (v := y :: v0) in *.
    destruct (plain_ok v && ((d_quote d =? 0) || negb (quotable v))) eqn:PL.
    + (* plain *)
      apply andb_true_iff in PL. destruct PL as [PL _].
      destruct (plain_ok_inv v PL) as (c0 & v' & EV & FP & SP0 & NC & SPL & NW).
      assert (c0 = y /\ v' = v0) as [-> ->] by (subst v; inversion EV; auto). clear EV.
      destruct (data_lead_blanks _ s (v ++ hws (d_trail d) ++ tail_comment d ++ 10 :: rest) (-1) E F []
                  (hws_hspaces (d_mid2 d)) HP SM0) as (s1 & la1 & R1 & E1 & P1 & S1 & V1 & C1 & _).
      rewrite E1. subst v. cbn [app].
      inversion FP as [|? ? Hy FP']; subst.
      destruct (data_first_plain y (v0 ++ hws (d_trail d) ++ tail_comment d ++ 10 :: rest) s1 la1 E F R1 Hy SP0 NC P1 S1)
        as (s2 & E2 & P2 & V2 & C2). rewrite E2.
      rewrite no_ws_hash_nwh in NW. rewrite len_cons in WL. pose proof (len_nonneg v0).
      destruct (data_plain_loop v0 s2 (hws (d_trail d) ++ tail_comment d ++ 10 :: rest) y E F [y] FP' NW P2)
        as (s3 & E3 & P3 & V3 & C3); [cbn [vlr]; rewrite SP0; exact V2|rewrite len_cons, len_nil; unfold VALID_MOD; lia|].
      rewrite E3.
      destruct (data_tail_keep d rest s3 (last v0 y) E F (rev v0 ++ [y]) P3) as (s' & c & J & E4 & P4 & V4 & C4).
      rewrite E4. exists s'.
      assert (RV : rev v0 ++ [y] = rev (y :: v0)) by reflexivity.
      assert (VL : vlr (rev v0 ++ [y]) = len (y :: v0)).
      { rewrite RV, vlr_last.
        - unfold len. now rewrite rev_length.
        - intros X. apply (f_equal (@length Z)) in X. rewrite rev_length in X. discriminate.
        - rewrite hd_rev_last. exact SPL. }
      rewrite V4, V3, VL, P4. cbn [pelems pbuf pbin]. repeat split; auto; try congruence.
      intros _. rewrite RV in P4. eapply post_read_value. exact P4.
    + (* quoted *)
      assert (QT : quotable v = true).
      { apply orb_true_iff in WQ. destruct WQ as [WQ|WQ]; [|exact WQ].
        rewrite WQ in PL. cbn [andb] in PL. apply orb_false_iff in PL. destruct PL as [_ PL].
        now apply negb_false_iff in PL. }
      unfold quotable in QT. apply negb_true_iff, Z.eqb_neq in QT.
      destruct (data_lead_blanks _ s (([q] ++ escape q v ++ [q]) ++ hws (d_trail d) ++ tail_comment d ++ 10 :: rest) (-1) E F []
                  (hws_hspaces (d_mid2 d)) HP SM0) as (s1 & la1 & R1 & E1 & P1 & S1 & V1 & C1 & _).
      rewrite E1. rewrite <- !app_assoc. cbn [app].
      destruct (data_open_quote q (escape q v ++ q :: hws (d_trail d) ++ tail_comment d ++ 10 :: rest) s1 la1 E F R1 Q P1 S1)
        as (s2 & E2 & Q2 & C2); [congruence|]. rewrite E2.
      pose proof (len_nonneg v).
      destruct (data_quoted_loop q Q v (q :: hws (d_trail d) ++ tail_comment d ++ 10 :: rest) s2 q E F [] FB Q2)
        as (s3 & E3 & Q3 & C3); [rewrite len_nil; unfold VALID_MOD; lia|]. rewrite E3. cbn [app] in Q3.
      assert (LQ : last v q <> 92).
      { subst v. rewrite last_cons. rewrite last_cons in QT. exact QT. }
      destruct (data_close_quote q (hws (d_trail d) ++ tail_comment d ++ 10 :: rest) s3 (last v q) E F v Q LQ Q3)
        as (s4 & E4 & C4 & V4 & P4); [unfold VALID_MOD; lia|]. rewrite E4.
      subst v.
      destruct (data_tail_keep d rest s4 q E F (rev (y :: v0))) as (s' & c & J & E5 & P5 & V5 & C5).
      { replace (len (rev (y :: v0))) with (len (y :: v0)) by (unfold len; now rewrite rev_length). exact P4. }
      rewrite E5. exists s'. rewrite V5, V4, P5. cbn [pelems pbuf pbin]. repeat split; auto; try congruence.
      intros _. eapply post_read_value. exact P5.
Qed.

(* blanks behind a name: appended, the valid length stays (no bound on their number) *)
Lemma pre_scan_blanks (a : allow) : forall w c s d l E R F,
  Forall (fun x => hspace x = true) (c :: w) -> 0 < d < 256 ->
  pth s = mkPath E (c :: R) (len (c :: R)) F true true ->
  exists s', pre_loop fd a c (w ++ d :: l) s = pre_loop fd a d l s' /\
             pth s' = mkPath E (d :: rev w ++ c :: R) (len (d :: rev w ++ c :: R)) F true true /\
             valid s' = valid s /\ pcurr s' = PName.
Proof.
  induction w as [|x w IH]; intros c s d l E R F FA PD HP.
  - inversion FA as [|? ? Hc _]; subst. apply hspace_spec in Hc as Hc'.
    assert (SP : isspace c = true) by (apply isspace_spec; lia).
    cbn [app]. rewrite pre_loop_eq. unfold pre_body. cbn [fd fmt_default send sstart ostart assign oend].
    rewrite iscomment_fd. zb. cbv iota. rewrite SP. cbn [negb]. zb.
    eexists. split; [reflexivity|].
    split; [rewrite pth_addch, pth_tick, pth_with_curr, HP; cbn [rev app]; now rewrite addchar_keep by lia|].
    split; now autorewrite with pst.
  - inversion FA as [|? ? Hc FA']; subst. apply hspace_spec in Hc as Hc'.
    inversion FA' as [|? ? Hx _]; subst. apply hspace_spec in Hx as Hx'.
    assert (SP : isspace c = true) by (apply isspace_spec; lia).
    cbn [app]. rewrite pre_loop_eq. unfold pre_body. cbn [fd fmt_default send sstart ostart assign oend].
    rewrite iscomment_fd. zb. cbv iota. rewrite SP. cbn [negb]. zb.
    destruct (IH x (addch (tick (with_curr s PName) x) x) d l E (c :: R) F FA' PD) as (s' & E1 & P1 & V1 & C1).
    + rewrite pth_addch, pth_tick, pth_with_curr, HP. apply addchar_keep. lia.
    + exists s'. split; [exact E1|]. cbn [rev]. rewrite <- !app_assoc. cbn [app].
      rewrite valid_addch, valid_tick, valid_with_curr in V1. auto.
Qed.
