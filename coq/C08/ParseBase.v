(* C08/ParseBase.v — basic facts about the state transformers of ParseModel:
   projections of every transformer, the path invariant, suffix / counting relation. *)
From Coq Require Import List ZArith Lia Bool.
From MptV Require Import C08.ParseModel.
Import ListNotations.
Local Open Scope Z_scope.

Definition len (l : list Z) : Z := Z.of_nat (length l).
Lemma len_nil : len [] = 0. Proof. reflexivity. Qed.
Lemma len_cons c l : len (c :: l) = len l + 1.
Proof. unfold len. cbn [length]. lia. Qed.
Lemma len_nonneg l : 0 <= len l. Proof. unfold len. lia. Qed.
Lemma len_zero l : len l = 0 -> l = [].
Proof. destruct l; [auto|]. rewrite len_cons. pose proof (len_nonneg l). lia. Qed.

Definition suffix (r l : list Z) : Prop := exists p, p ++ r = l.
Lemma suffix_refl l : suffix l l. Proof. exists []. reflexivity. Qed.
Lemma suffix_cons c r l : suffix r l -> suffix r (c :: l).
Proof. intros [p H]. exists (c :: p). cbn. now f_equal. Qed.
Lemma suffix_tail c r : suffix r (c :: r). Proof. apply suffix_cons, suffix_refl. Qed.
Lemma suffix_trans a b c : suffix a b -> suffix b c -> suffix a c.
Proof. intros [p H] [q G]. exists (q ++ p). rewrite <- app_assoc. now rewrite H. Qed.
Lemma suffix_nil l : suffix [] l. Proof. exists l. apply app_nil_r. Qed.
Lemma suffix_len r l : suffix r l -> len r <= len l.
Proof. intros [p H]. subst l. unfold len. rewrite app_length. lia. Qed.
Create HintDb sfx.
#[export] Hint Resolve suffix_refl suffix_cons suffix_tail suffix_nil : sfx.

(* ---------------------------------------------------------------- path *)
Definition pinv (p : path) : Prop := plen p = len (rpost p).

Lemma pelems_addchar p v : pelems (path_addchar p v) = pelems p.
Proof. unfold path_addchar. destruct (pbuf p), (rpost p), (pkeep p); reflexivity. Qed.
Lemma pelems_delchar p : pelems (path_delchar p) = pelems p.
Proof. unfold path_delchar. destruct (pbuf p), (rpost p); reflexivity. Qed.
Lemma pelems_valid p : pelems (snd (path_valid p)) = pelems p.
Proof. unfold path_valid. destruct (pbuf p), (rpost p); reflexivity. Qed.
Lemma pelems_invalidate p : pelems (path_invalidate p) = pelems p.
Proof. unfold path_invalidate. destruct (pbuf p); reflexivity. Qed.

Lemma pinv_addchar p v : pinv p -> pinv (path_addchar p v).
Proof.
  unfold pinv, path_addchar. intros H.
  destruct (pbuf p); cbn; [|reflexivity].
  destruct (rpost p) eqn:E; cbn; [reflexivity|].
  destruct (pkeep p); cbn [plen rpost]; rewrite H, !len_cons; lia.
Qed.
(* without a buffer there is no post data *)
Definition pinv2 (p : path) : Prop := pinv p /\ (pbuf p = false -> rpost p = []).

(* a path with buffer and without SepBinary: the path of mpt_parse_config once a character was stored *)
Notation bufok p := (pbuf p = true /\ pbin p = false).
Lemma pbin_add p n c p' : path_add p n = (c, p') -> pbin p' = pbin p.
Proof.
  unfold path_add. destruct (negb (pbuf p)); [now inversion 1|].
  destruct ((n <? 0) || (plen p <? n)); [now inversion 1|].
  destruct (pbin p) eqn:B.
  - destruct (255 <? n); inversion 1; subst; first [exact B|reflexivity].
  - destruct (existsb _ _); inversion 1; subst; first [exact B|reflexivity].
Qed.
Lemma pbin_del p c p' : path_del p = (c, p') -> pbin p' = pbin p.
Proof. unfold path_del. destruct (pelems p); inversion 1; reflexivity. Qed.
Lemma pbin_invalidate p : pbin (path_invalidate p) = pbin p.
Proof. unfold path_invalidate. destruct (negb (pbuf p)); reflexivity. Qed.
Lemma pbin_addchar p v : pbin (path_addchar p v) = pbin p.
Proof. unfold path_addchar. destruct (pbuf p), (rpost p), (pkeep p); reflexivity. Qed.
Lemma pbin_delchar p : pbin (path_delchar p) = pbin p.
Proof. unfold path_delchar. destruct (pbuf p), (rpost p); reflexivity. Qed.
Lemma pbin_valid p : pbin (snd (path_valid p)) = pbin p.
Proof. unfold path_valid. destruct (pbuf p), (rpost p); reflexivity. Qed.

Lemma pinv2_init : pinv2 path_init. Proof. split; [reflexivity|auto]. Qed.
Lemma pinv2_init_b bin : pinv2 (path_init_b bin). Proof. split; [reflexivity|auto]. Qed.
Lemma pinv2_addchar p v : pinv2 p -> pinv2 (path_addchar p v).
Proof.
  intros [H G]. split; [now apply pinv_addchar|].
  unfold path_addchar. destruct (pbuf p); [|cbn; discriminate].
  destruct (rpost p); [cbn; discriminate|]. destruct (pkeep p); cbn; discriminate.
Qed.
Lemma plen_addchar_ge p v : pinv2 p -> plen p <= plen (path_addchar p v).
Proof.
  intros [H G]. unfold pinv in H. unfold path_addchar.
  destruct (pbuf p); cbn.
  - destruct (rpost p) eqn:E; cbn.
    + rewrite H, len_nil. lia.
    + destruct (pkeep p); cbn [plen]; lia.
  - rewrite H, G by reflexivity. rewrite len_nil. lia.
Qed.
Lemma pinv2_delchar p : pinv2 p -> pinv2 (path_delchar p).
Proof.
  intros [H G]. unfold path_delchar.
  destruct (pbuf p) eqn:B; cbn; [|split; auto].
  destruct (rpost p) eqn:E; [split; auto|].
  split; [|cbn; discriminate]. unfold pinv in *. cbn. rewrite H, E, len_cons. lia.
Qed.
Lemma pinv2_valid p : pinv2 p -> pinv2 (snd (path_valid p)).
Proof.
  intros [H G]. unfold path_valid. destruct (pbuf p) eqn:B; cbn; [|split; auto].
  destruct (rpost p) eqn:E; cbn; [split; auto|].
  split; [unfold pinv in *; cbn; now rewrite H, E|cbn; discriminate].
Qed.
Lemma path_valid_fst p : pinv2 p -> fst (path_valid p) = plen p.
Proof.
  intros [H G]. unfold pinv in H. unfold path_valid. destruct (pbuf p) eqn:B; cbn.
  - destruct (rpost p) eqn:E; cbn; [|reflexivity]. now rewrite H, len_nil.
  - now rewrite H, G, len_nil.
Qed.
Lemma plen_valid p : plen (snd (path_valid p)) = plen p.
Proof. unfold path_valid. destruct (pbuf p), (rpost p); reflexivity. Qed.
Lemma pinv2_invalidate p : pinv2 p -> pinv2 (path_invalidate p).
Proof.
  intros [H G]. unfold path_invalidate. destruct (pbuf p) eqn:B; [|split; auto].
  split; [reflexivity|cbn; discriminate].
Qed.
Lemma plen_invalidate p : pinv2 p -> plen (path_invalidate p) = 0.
Proof.
  intros [H G]. unfold pinv in H. unfold path_invalidate. destruct (pbuf p); [reflexivity|].
  cbn. now rewrite H, G, len_nil.
Qed.

Lemma rev_append_rev {A} (a b : list A) : rev_append a b = rev a ++ b.
Proof. revert b; induction a; intros; cbn; [reflexivity|]. rewrite IHa, <- app_assoc. reflexivity. Qed.
Lemma ppost_rev p : ppost p = rev (rpost p).
Proof. unfold ppost. rewrite rev_append_rev. apply app_nil_r. Qed.
Lemma len_ppost p : len (ppost p) = len (rpost p).
Proof. rewrite ppost_rev. unfold len. now rewrite rev_length. Qed.

(* mpt_path_add *)
Lemma path_add_spec p n c p' :
  pinv2 p -> path_add p n = (c, p') ->
  (c < 0 /\ p' = p) \/
  (c = 0 /\ 0 <= n <= plen p /\ pelems p' = pelems p ++ [firstn (Z.to_nat n) (ppost p)] /\ pinv2 p').
Proof.
  intros [H G] E. unfold pinv in H. unfold path_add in E.
  destruct (pbuf p) eqn:B; cbn [negb] in E; [|inversion E; left; split; [reflexivity|auto]].
  destruct ((n <? 0) || (plen p <? n)) eqn:C; [inversion E; left; split; [reflexivity|auto]|].
  apply orb_false_iff in C. destruct C as [C1 C2]. apply Z.ltb_ge in C1, C2.
  pose proof (len_ppost p) as LP. unfold len in LP, H.
  destruct (pbin p).
  - destruct (255 <? n); inversion E; subst; [left; split; [reflexivity|auto]|].
    right. split; [reflexivity|]. split; [lia|]. split; [reflexivity|].
    split; [|cbn [pbuf]; discriminate].
    unfold pinv. cbn [plen rpost].
    change (match ppost p with _ :: _ :: l => skipn (Z.to_nat n) l | _ => [] end) with (skipn (S (S (Z.to_nat n))) (ppost p)).
    rewrite rev_append_rev, app_nil_r. unfold len. rewrite rev_length, skipn_length.
    destruct (Z.leb_spec (plen p) (n + 1)); lia.
  - destruct (existsb _ _); inversion E; subst; [left; split; [reflexivity|auto]|].
    right. split; [reflexivity|]. split; [lia|]. split; [reflexivity|].
    split; [|cbn [pbuf]; discriminate].
    unfold pinv. cbn [plen rpost].
    change (match ppost p with [] => [] | _ :: l => skipn (Z.to_nat n) l end) with (skipn (S (Z.to_nat n)) (ppost p)).
    rewrite rev_append_rev, app_nil_r. unfold len. rewrite rev_length, skipn_length.
    destruct (Z.leb_spec (plen p) n); lia.
Qed.

Lemma path_del_spec p c p' :
  path_del p = (c, p') ->
  (c < 0 /\ p' = p /\ pelems p = []) \/
  (0 <= c /\ pelems p <> [] /\ pelems p' = removelast (pelems p) /\ plen p' = 0 /\ rpost p' = [] /\ pbuf p' = pbuf p).
Proof.
  unfold path_del. destruct (pelems p) eqn:E; intros X; inversion X; subst.
  - left. split; [reflexivity|auto].
  - right. split; [lia|]. split; [discriminate|]. cbn. auto.
Qed.

(* ---------------------------------------------------------------- parser state projections *)
Lemma calls_tick s c : calls (tick s c) = calls s + 1. Proof. reflexivity. Qed.
Lemma calls_tick_raw s : calls (tick_raw s) = calls s + 1. Proof. reflexivity. Qed.
Lemma calls_tick_eof s : calls (tick_eof s) = calls s + 1. Proof. reflexivity. Qed.
Lemma calls_addch s c : calls (addch s c) = calls s. Proof. reflexivity. Qed.
Lemma calls_with_path s p : calls (with_path s p) = calls s. Proof. reflexivity. Qed.
Lemma calls_with_curr s c : calls (with_curr s c) = calls s. Proof. reflexivity. Qed.
Lemma calls_with_valid s c : calls (with_valid s c) = calls s. Proof. reflexivity. Qed.
Lemma calls_set_valid s : calls (set_valid s) = calls s.
Proof. unfold set_valid. destruct (path_valid (pth s)). reflexivity. Qed.

Lemma pth_tick s c : pth (tick s c) = pth s. Proof. reflexivity. Qed.
Lemma pth_tick_raw s : pth (tick_raw s) = pth s. Proof. reflexivity. Qed.
Lemma pth_tick_eof s : pth (tick_eof s) = pth s. Proof. reflexivity. Qed.
Lemma pth_addch s c : pth (addch s c) = path_addchar (pth s) c. Proof. reflexivity. Qed.
Lemma pth_with_path s p : pth (with_path s p) = p. Proof. reflexivity. Qed.
Lemma pth_with_curr s c : pth (with_curr s c) = pth s. Proof. reflexivity. Qed.
Lemma pth_with_valid s c : pth (with_valid s c) = pth s. Proof. reflexivity. Qed.
Lemma pth_set_valid s : pth (set_valid s) = snd (path_valid (pth s)).
Proof. unfold set_valid. destruct (path_valid (pth s)). reflexivity. Qed.

Lemma valid_tick s c : valid (tick s c) = valid s. Proof. reflexivity. Qed.
Lemma valid_tick_raw s : valid (tick_raw s) = valid s. Proof. reflexivity. Qed.
Lemma valid_tick_eof s : valid (tick_eof s) = valid s. Proof. reflexivity. Qed.
Lemma valid_addch s c : valid (addch s c) = valid s. Proof. reflexivity. Qed.
Lemma valid_with_path s p : valid (with_path s p) = valid s. Proof. reflexivity. Qed.
Lemma valid_with_curr s c : valid (with_curr s c) = valid s. Proof. reflexivity. Qed.
Lemma valid_with_valid s c : valid (with_valid s c) = c. Proof. reflexivity. Qed.
Lemma valid_set_valid s : valid (set_valid s) = fst (path_valid (pth s)) mod VALID_MOD.
Proof. unfold set_valid. destruct (path_valid (pth s)). reflexivity. Qed.

Lemma pcurr_tick s c : pcurr (tick s c) = pcurr s. Proof. reflexivity. Qed.
Lemma pcurr_tick_raw s : pcurr (tick_raw s) = pcurr s. Proof. reflexivity. Qed.
Lemma pcurr_tick_eof s : pcurr (tick_eof s) = pcurr s. Proof. reflexivity. Qed.
Lemma pcurr_addch s c : pcurr (addch s c) = pcurr s. Proof. reflexivity. Qed.
Lemma pcurr_with_path s p : pcurr (with_path s p) = pcurr s. Proof. reflexivity. Qed.
Lemma pcurr_with_curr s c : pcurr (with_curr s c) = c. Proof. reflexivity. Qed.
Lemma pcurr_with_valid s c : pcurr (with_valid s c) = pcurr s. Proof. reflexivity. Qed.
Lemma pcurr_set_valid s : pcurr (set_valid s) = pcurr s.
Proof. unfold set_valid. destruct (path_valid (pth s)). reflexivity. Qed.

Create HintDb pst.
#[export] Hint Rewrite calls_tick calls_tick_raw calls_tick_eof calls_addch calls_with_path calls_with_curr
  calls_with_valid calls_set_valid pth_tick pth_tick_raw pth_tick_eof pth_addch pth_with_path pth_with_curr
  pth_with_valid pth_set_valid valid_tick valid_tick_raw valid_tick_eof valid_addch valid_with_path
  valid_with_curr valid_with_valid valid_set_valid pcurr_tick pcurr_tick_raw pcurr_tick_eof pcurr_addch
  pcurr_with_path pcurr_with_curr pcurr_with_valid pcurr_set_valid
  pelems_addchar pelems_delchar pelems_valid pelems_invalidate plen_valid
  pbin_addchar pbin_delchar pbin_valid pbin_invalidate
  len_nil len_cons : pst.

(* the transformers are used through these lemmas only *)
Global Opaque tick tick_raw tick_eof addch with_path with_curr with_valid set_valid.

(* ---------------------------------------------------------------- state invariant *)
(* path well formed and the valid length lies inside the post data *)
Definition sinv (s : pst) : Prop := pinv2 (pth s) /\ 0 <= valid s <= plen (pth s).

Lemma mod_le_self a : 0 <= a -> 0 <= a mod VALID_MOD <= a.
Proof.
  intros H. split.
  - apply Z.mod_pos_bound. reflexivity.
  - apply Z.mod_le; [assumption|reflexivity].
Qed.

Lemma pinv2_plen_nonneg p : pinv2 p -> 0 <= plen p.
Proof. intros [H _]. unfold pinv in H. rewrite H. apply len_nonneg. Qed.

Lemma sinv_tick s c : sinv s -> sinv (tick s c).
Proof. unfold sinv. now autorewrite with pst. Qed.
Lemma sinv_tick_raw s : sinv s -> sinv (tick_raw s).
Proof. unfold sinv. now autorewrite with pst. Qed.
Lemma sinv_tick_eof s : sinv s -> sinv (tick_eof s).
Proof. unfold sinv. now autorewrite with pst. Qed.
Lemma sinv_with_curr s c : sinv s -> sinv (with_curr s c).
Proof. unfold sinv. now autorewrite with pst. Qed.
Lemma sinv_addch s c : sinv s -> sinv (addch s c).
Proof.
  unfold sinv. autorewrite with pst. intros [H V]. split; [now apply pinv2_addchar|].
  pose proof (plen_addchar_ge (pth s) c H). lia.
Qed.
(* set_valid re-establishes the bound whatever the old valid was *)
Lemma sinv_set_valid s : pinv2 (pth s) -> sinv (set_valid s).
Proof.
  unfold sinv. autorewrite with pst. intros H. split; [now apply pinv2_valid|].
  rewrite path_valid_fst by assumption. apply mod_le_self. now apply pinv2_plen_nonneg.
Qed.
Lemma sinv_pinv2 s : sinv s -> pinv2 (pth s). Proof. now intros [H _]. Qed.
Lemma sinv_init : sinv pst_init.
Proof. split; [apply pinv2_init|cbn; lia]. Qed.
Lemma sinv_init_b bin : sinv (pst_init_b bin).
Proof. split; [apply pinv2_init_b|cbn; lia]. Qed.

(* unconditional part of mpt_path_add *)
Lemma path_add_elems p n c p' :
  path_add p n = (c, p') ->
  (c < 0 /\ p' = p) \/ (c = 0 /\ pelems p' = pelems p ++ [firstn (Z.to_nat n) (ppost p)]).
Proof.
  unfold path_add. intros E.
  destruct (negb (pbuf p)); [inversion E; left; split; [reflexivity|auto]|].
  destruct ((n <? 0) || (plen p <? n)); [inversion E; left; split; [reflexivity|auto]|].
  destruct (pbin p).
  - destruct (255 <? n); inversion E; subst; [left; split; [reflexivity|auto]|]. right. split; reflexivity.
  - destruct (existsb _ _); inversion E; subst; [left; split; [reflexivity|auto]|].
    right. split; reflexivity.
Qed.
Lemma path_add_pinv p n c p' : pinv2 p -> path_add p n = (c, p') -> pinv2 p'.
Proof.
  intros H E. destruct (path_add_spec p n c p' H E) as [[_ ->]|(_ & _ & _ & G)]; assumption.
Qed.
Lemma path_del_elems p c p' :
  path_del p = (c, p') -> (c < 0 /\ p' = p) \/ (0 <= c /\ pelems p <> [] /\ pelems p' = removelast (pelems p)).
Proof.
  intros E. destruct (path_del_spec p c p' E) as [(A & B & _)|(A & B & C & _)]; [left|right]; auto.
Qed.
Lemma path_del_pinv p c p' : pinv2 p -> path_del p = (c, p') -> pinv2 p' /\ (0 <= c -> plen p' = 0).
Proof.
  intros H E. destruct (path_del_spec p c p' E) as [(A & -> & _)|(A & B & C & D & F & G)].
  - split; [assumption|lia].
  - split; [|auto]. split; [unfold pinv; now rewrite D, F|intros; assumption].
Qed.
Lemma path_del_keep p c p' : path_del p = (c, p') -> pelems p <> [] -> pkeep p' = false.
Proof.
  unfold path_del. destruct (pelems p); intros X NE; [now destruct NE|]. inversion X. reflexivity.
Qed.
