(* C09 — Configuration text is read back faithfully.
   Only theorem statements (closed by [exact]), non-vacuity examples, Print Assumptions.

   Reading guide (definitions in C08/PrintModel.v, C08/MetaModel.v, C08/ShapeFlat.v, all executable):
   * [item]: Opt name value | Sec name children — a tree of named sections and
     name=value options; [abs_items] is the node forest it denotes (an empty value is
     no value); [parse_tree st a text] is mpt_parse_node into an empty target with the
     format of style [st] and name flags [a]: (return code, resulting forest).
   * [a : allow] holds the name flags AND the variant of mpt_parse_option ([araw a]):
     false = /repo before docs/C09_option_name_blank.diff, true = with it.  Every theorem
     is stated for all [a], that is for both variants.
   * [print st deco items] writes the forest in style [st]; [deco] is ANY list of
     decoration records (blank lines, indentation, comment lines, blanks around the
     delimiters, trailing blanks and comments, quoting choice, brace placement) — the
     printer uses their white space as white space and their comment text without
     newlines, so every value of [deco] is an insignificant decoration.
   * [wf_items st a items]: every name is non-empty, accepted by the name flags [a]
     (mpt_parse_ncheck), free of newline / comment character / path separator, without
     blanks at its ends, at most 65534 bytes, and free of the characters that end it in its
     style and role (prefix style: braces and the assign character; option names of the other
     styles: the assign character, and the line must not begin with the section start character;
     section names: white space in the enclosed family, the closing bracket in the separated
     style); white space other than the newline may stand inside names wherever the code reads
     it back (for [araw a = false] not directly behind the first character of an option name of
     the enclosed / separated family: the defect, see C09_option_name_blank_refuted); every
     value consists of bytes 1..255, can be written plain or does not end in a backslash, and
     is shorter than 2^31 bytes.  Values of ANY such length: no 255 / 65535 limit.
     Enclosed and separated style in addition: options first, then sections holding options
     only; "[x] = #": options only.  C09_*_flat_only below show that these are exactly the
     shapes those styles can carry. *)
From Coq Require Import List ZArith.
From MptV Require Import C08.ParseModel C08.PrintModel C08.RoundMain C08.RoundFlatMain
  C08.ShapeFlat C08.RoundWitness C08.MetaModel C08.MetaProofs.
Import ListNotations.
Local Open Scope Z_scope.

(* Prefix style '*' (default format  name { ... }  name = value, comment #, double and single quote):
   every well-formed tree of ANY depth and fan-out, ANY decoration list, ANY name flags:
   parsing the printed text succeeds and yields exactly the tree — same nesting, order,
   names and values byte for byte, quotes removed, escaped quotes kept. *)
Theorem C09_print_parse_roundtrip :
  forall a deco items,
    wf_items StPre a items = true ->
    parse_tree StPre a (print StPre deco items) = (0, abs_items items).
Proof. exact pre_roundtrip. Qed.

(* Adding or removing insignificant white space or comments never changes the result. *)
Theorem C09_decoration_irrelevant :
  forall a deco1 deco2 items,
    wf_items StPre a items = true ->
    parse_tree StPre a (print StPre deco1 items) = parse_tree StPre a (print StPre deco2 items).
Proof. exact pre_decoration_irrelevant. Qed.

(* Enclosed style ("%x% = #": a section runs from  %name  to the next % or the end) and
   separated style ("[ ] = #":  [ name ]  ...): the same for every tree these styles can
   carry — options first, then sections holding options only (C09_enc_flat_only /
   C09_sep_flat_only: NO text yields another shape) — with names that hold white space, the
   assign character (section names) and the section delimiters wherever the code reads them back. *)
Theorem C09_print_parse_roundtrip_enc :
  forall a deco items,
    wf_items StEnc a items = true ->
    parse_tree StEnc a (print StEnc deco items) = (0, abs_items items).
Proof. exact enc_roundtrip. Qed.

Theorem C09_print_parse_roundtrip_sep :
  forall a deco items,
    wf_items StSep a items = true ->
    parse_tree StSep a (print StSep deco items) = (0, abs_items items).
Proof. exact sep_roundtrip. Qed.

(* Enclosed family with distinct delimiters ("[x] = #"): the code cannot end a section in this
   variant (C09_encd_options_only), so it carries option lists only; those are read back. *)
Theorem C09_print_parse_roundtrip_encd :
  forall a deco items,
    wf_items StEncD a items = true ->
    parse_tree StEncD a (print StEncD deco items) = (0, abs_items items).
Proof. exact encd_roundtrip. Qed.

Theorem C09_decoration_irrelevant_enc :
  forall a deco1 deco2 items,
    wf_items StEnc a items = true ->
    parse_tree StEnc a (print StEnc deco1 items) = parse_tree StEnc a (print StEnc deco2 items).
Proof. exact enc_decoration_irrelevant. Qed.

Theorem C09_decoration_irrelevant_sep :
  forall a deco1 deco2 items,
    wf_items StSep a items = true ->
    parse_tree StSep a (print StSep deco1 items) = parse_tree StSep a (print StSep deco2 items).
Proof. exact sep_decoration_irrelevant. Qed.

(* ---- what the enclosed / separated styles cannot carry ----
   [flat_forest ts]: ts = options ++ sections, every option a leaf, every section without value and
   with leaves as children.  Whatever the text (ANY byte string, not only printed ones), whatever
   the flags as long as nameless data lines are refused (name flag "empty" off for options; with it
   a nameless data line adopts the next element as a child, ShapeFlat.sep_empty_name_nests), a
   successful or failed mpt_parse_node builds a flat forest.  Hence a tree with nesting below a
   section, or with an option behind a section, is the parse of NO text in these styles. *)
Theorem C09_enc_flat_only :
  forall a text, flag (aopt a) NFEmpty = false -> flat_forest (snd (parse_tree StEnc a text)) = true.
Proof. exact enc_flat. Qed.

Theorem C09_sep_flat_only :
  forall a text, flag (aopt a) NFEmpty = false -> flat_forest (snd (parse_tree StSep a text)) = true.
Proof. exact sep_flat. Qed.

Theorem C09_encd_options_only :
  forall a text, flag (aopt a) NFEmpty = false -> forallb leaf (snd (parse_tree StEncD a text)) = true.
Proof. exact encd_leaves. Qed.

Theorem C09_enc_inexpressible :
  forall a text ts, flag (aopt a) NFEmpty = false -> flat_forest ts = false -> snd (parse_tree StEnc a text) <> ts.
Proof. exact enc_inexpressible. Qed.

Theorem C09_sep_inexpressible :
  forall a text ts, flag (aopt a) NFEmpty = false -> flat_forest ts = false -> snd (parse_tree StSep a text) <> ts.
Proof. exact sep_inexpressible. Qed.

(* what the printer's text of such a tree is read as: the inner section start ends the outer section
   (the prefix style reads the same tree back); an option behind a section joins that section *)
Theorem C09_nested_sections_flattened :
  forall st, st = StEnc \/ st = StSep ->
    parse_tree st a_patched (print st [] w_nested) = (0, [T [97] None []; T [98] None [T [107] (Some [49]) []]]) /\
    parse_tree StPre a_patched (print StPre [] w_nested) = (0, abs_items w_nested).
Proof. exact nested_flattened. Qed.

Theorem C09_option_after_section_joins :
  forall st, st = StEnc \/ st = StSep ->
    parse_tree st a_patched (print st [] w_after) = (0, [T [97] None [T [107] (Some [49]) []]]) /\
    parse_tree StPre a_patched (print StPre [] w_after) = (0, abs_items w_after).
Proof. exact option_after_section. Qed.

(* a section name of the enclosed style ends at the first white space (the separated style reads it back) *)
Theorem C09_enc_section_name_blank_differs :
  parse_tree StEnc a_patched (print StEnc [] w_encsec) = (0, [T [97] None [T [98; 32; 107] (Some [49]) []]]) /\
  parse_tree StEnc a_asis (print StEnc [] w_encsec) = (0, [T [97] None [T [98; 107] (Some [49]) []]]) /\
  forall a, a = a_asis \/ a = a_patched -> parse_tree StEnc a (print StEnc [] w_encsec) <> (0, abs_items w_encsec).
Proof. exact enc_section_blank. Qed.

(* ---- the defect (docs/C09_option_name_blank.diff) ----
   Full statement wanted for the code as it is: the three round trip theorems above with the names
   that are well formed for the patched variant.  Refuted: the option  a b = 1  is read back as "ab"
   in all three styles by the code as it is (and exactly by the patched variant). *)
Theorem C09_option_name_blank_refuted :
  exists st items deco,
    wf_items st a_patched items = true /\
    parse_tree st a_asis (print st deco items) <> (0, abs_items items).
Proof. exact option_name_blank_refuted. Qed.

Theorem C09_option_name_blank_witness :
  forall st, st = StEnc \/ st = StSep \/ st = StEncD ->
    wf_items st a_patched w_blank = true /\
    parse_tree st a_patched (print st [] w_blank) = (0, abs_items w_blank) /\
    parse_tree st a_asis (print st [] w_blank) = (0, [T [97; 98] (Some [49]) []]).
Proof. exact option_name_blank_asis. Qed.

(* ---- the value store behind a node (mpt_meta_new, basic and buffer metatype) ----
   For every text (any length: 249 bytes and less in the basic metatype, more in a buffer metatype),
   every history of creations (mpt_meta_new from a vector or a string, mpt_meta_geninfo, mpt_meta_buffer), conversions (type list, string, vector of char, iterator, metatype,
   buffer), addref and clone: every view that is answered shows exactly the text stored last — the
   string view the text, the vector view the text and at most one terminator, the iterator the text as
   its only element — and a clone holds the same text (AS PATCHED by docs/C09_geninfo_clone.diff). *)
Theorem C09_value_views_faithful :
  forall v ops, spec_run v None None ops = meta_run v None ops.
Proof. exact meta_views_faithful0. Qed.

Theorem C09_value_reads_text :
  forall v k t op, is_new op = false -> obs_ok t (snd (meta_step v (Some (k, t)) op)) = true.
Proof. exact meta_reads_text. Qed.

Theorem C09_clone_keeps_text :
  forall v k t, exists k', fst (meta_step v (Some (k, t)) OClone) = Some (k', t).
Proof. exact meta_clone_text. Qed.

(* ---- non-vacuity ---- *)
Definition tree1 : list item :=
  [Opt [116;111;112] [49];
   Sec [115;101;99] [Opt [107] [118;32;34;113;34;32;119]; Sec [105;110] []; Opt [101] []];
   Sec [115;101;99] [Opt [97;32;98] [32;108;101;97;100]]].
Definition deco1 : list deco :=
  [mkDeco [10;10] [[99;111;109]; [35;35;10;120]] [32;32] [9] [] 39 [32;32] (Some [116;99]) false;
   mkDeco [10] [] [9] [32;32] [10;32] 0 [] None true].

Example C09_ex_wf : wf_items StPre allow_init tree1 = true.
Proof. vm_compute. reflexivity. Qed.

Example C09_ex_text_differs : print StPre deco1 tree1 <> print StPre [] tree1.
Proof. vm_compute. discriminate. Qed.

Example C09_ex_roundtrip :
  parse_tree StPre allow_init (print StPre deco1 tree1) =
  (0, [T [116;111;112] (Some [49]) [];
       T [115;101;99] None [T [107] (Some [118;32;34;113;34;32;119]) []; T [105;110] None []; T [101] None []];
       T [115;101;99] None [T [97;32;98] (Some [32;108;101;97;100]) []]]).
Proof. vm_compute. reflexivity. Qed.

(* a value of 3000 bytes (beyond the 255 byte limit of the basic metatype), quoted *)
Example C09_ex_long :
  let v := repeat 118 (Z.to_nat 3000) in
  parse_tree StPre allow_init (print StPre [mkDeco [] [] [] [] [] 34 [] None false] [Opt [107] v]) = (0, [T [107] (Some v) []]).
Proof. vm_compute. reflexivity. Qed.

(* the other styles on an example *)
Example C09_ex_enc :
  parse_tree StEnc allow_init (print StEnc deco1 [Opt [116] [49]; Sec [115] [Opt [107;107] [118;32;119]]; Sec [117] []]) =
  (0, abs_items [Opt [116] [49]; Sec [115] [Opt [107;107] [118;32;119]]; Sec [117] []]).
Proof. vm_compute. reflexivity. Qed.
Example C09_ex_sep :
  parse_tree StSep allow_init (print StSep deco1 [Opt [116] [49]; Sec [115] [Opt [107;107] [118;32;119]]; Sec [117] []]) =
  (0, abs_items [Opt [116] [49]; Sec [115] [Opt [107;107] [118;32;119]]; Sec [117] []]).
Proof. vm_compute. reflexivity. Qed.

(* names with white space, delimiter and assign characters inside, code as it is *)
Example C09_ex_rich_sep :
  wf_items StSep a_asis w_rich_sep = true /\
  parse_tree StSep a_asis (print StSep [] w_rich_sep) = (0, abs_items w_rich_sep).
Proof. exact rich_names_sep. Qed.
Example C09_ex_rich_enc :
  wf_items StEnc a_asis w_rich_enc = true /\
  parse_tree StEnc a_asis (print StEnc [] w_rich_enc) = (0, abs_items w_rich_enc).
Proof. exact rich_names_enc. Qed.

(* flat forests: two sections are one; a nameless data line shows why the hypothesis on the flag is there *)
Example C09_ex_flat :
  flat_forest (snd (parse_tree StSep allow_named text_sep2)) = true /\
  flat_forest (snd (parse_tree StSep allow_init text_sep_bad)) = false.
Proof. vm_compute. split; reflexivity. Qed.

(* the value store: 249 bytes stay in the basic metatype also when cloned, 250 bytes live in a buffer *)
Example C09_ex_store :
  let v := repeat 118 249%nat in
  meta_run v None [ONewV; OKind; OClone; OKind; OStr] =
    [BNew true; BKind 0 [115]; BClone true; BKind 0 [115]; BStr (inr v)] /\
  meta_run (118 :: v) None [ONewV; OKind; OStr; OIter] =
    [BNew true; BKind 256 [134; 11; 67]; BStr (inl BadType); BIter (inr ([(true, 118 :: v)], 0, 115))] /\
  meta_run (118 :: v) None [ONewG; OVec; ONewB; OVec; OIter] =
    [BNew false; BNone; BNew true; BVec 250 (118 :: v); BIter (inr ([(false, 118 :: v)], 0, 67))].
Proof. vm_compute. repeat split; reflexivity. Qed.

Print Assumptions C09_print_parse_roundtrip.
Print Assumptions C09_decoration_irrelevant.
Print Assumptions C09_print_parse_roundtrip_enc.
Print Assumptions C09_print_parse_roundtrip_sep.
Print Assumptions C09_print_parse_roundtrip_encd.
Print Assumptions C09_decoration_irrelevant_enc.
Print Assumptions C09_decoration_irrelevant_sep.
Print Assumptions C09_enc_flat_only.
Print Assumptions C09_sep_flat_only.
Print Assumptions C09_encd_options_only.
Print Assumptions C09_enc_inexpressible.
Print Assumptions C09_sep_inexpressible.
Print Assumptions C09_nested_sections_flattened.
Print Assumptions C09_option_after_section_joins.
Print Assumptions C09_enc_section_name_blank_differs.
Print Assumptions C09_option_name_blank_refuted.
Print Assumptions C09_option_name_blank_witness.
Print Assumptions C09_value_views_faithful.
Print Assumptions C09_value_reads_text.
Print Assumptions C09_clone_keeps_text.
