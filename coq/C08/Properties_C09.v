(* C09 — Configuration text is read back faithfully.
   Only theorem statements (closed by [exact]), non-vacuity examples, Print Assumptions.

   Reading guide (definitions in C08/PrintModel.v, all executable):
   * [item]: Opt name value | Sec name children — a tree of named sections and
     name=value options; [abs_items] is the node forest it denotes (an empty value is
     no value); [parse_tree st a text] is mpt_parse_node into an empty target with the
     format of style [st] and name flags [a]: (return code, resulting forest).
   * [print st deco items] writes the forest in style [st]; [deco] is ANY list of
     decoration records (blank lines, indentation, comment lines, blanks around the
     delimiters, trailing blanks and comments, quoting choice, brace placement) — the
     printer uses their white space as white space and their comment text without
     newlines, so every value of [deco] is an insignificant decoration.
   * [wf_items st a items]: every name is non-empty, accepted by the name flags [a]
     (mpt_parse_ncheck), free of newline / delimiters / comment character / path
     separator, without blanks at its ends, at most 65534 bytes; every value consists
     of bytes 1..255, can be written plain or does not end in a backslash, and is
     shorter than 2^31 bytes.  Values of ANY such length: no 255 / 65535 limit. *)
From Coq Require Import List ZArith.
From MptV Require Import C08.ParseModel C08.PrintModel C08.RoundMain C08.RoundFlatMain.
Import ListNotations.
Local Open Scope Z_scope.

(* Prefix style '*' (default format  name { ... }  name = value, comment #, double and single quote):
   every well-formed tree of ANY depth and fan-out, ANY decoration list, ANY name flags:
   parsing the printed text succeeds and yields exactly the tree — same nesting, order,
   names and values byte for byte, quotes removed, escaped quotes kept. *)
Theorem C09_print_parse_roundtrip :
  forall a deco items,
    wf_items StPre a items = true ->
    parse_tree StPre a (print StPre deco items) = (0, abs_items items).
Proof. exact pre_roundtrip. Qed.

(* Adding or removing insignificant white space or comments never changes the result. *)
Theorem C09_decoration_irrelevant :
  forall a deco1 deco2 items,
    wf_items StPre a items = true ->
    parse_tree StPre a (print StPre deco1 items) = parse_tree StPre a (print StPre deco2 items).
Proof. exact pre_decoration_irrelevant. Qed.

(* Enclosed style ("%x% = #": a section runs from  %name  to the next % or the end) and
   separated style ("[ ] = #":  [ name ]  ...).  Full statement wanted: as above for every
   tree.  Proved: the statement for every tree these styles can express at all
   — options first, then sections holding options only (one level: the next section start ends
   the open one, mptcore/parse/parse_format_sep.c documents "depth is limited to one") —
   with names free of white space (a first name character followed by a blank is read
   through mpt_parse_nextvis, which drops the blank).  Those conditions are part of
   [wf_items StEnc / StSep]; everything else (decoration, values, flags) is as general as above. *)
Theorem C09_print_parse_roundtrip_enc_partial :
  forall a deco items,
    wf_items StEnc a items = true ->
    parse_tree StEnc a (print StEnc deco items) = (0, abs_items items).
Proof. exact enc_roundtrip. Qed.

Theorem C09_print_parse_roundtrip_sep_partial :
  forall a deco items,
    wf_items StSep a items = true ->
    parse_tree StSep a (print StSep deco items) = (0, abs_items items).
Proof. exact sep_roundtrip. Qed.

(* Enclosed family with distinct delimiters ("[x] = #"): the code cannot end a section in this
   variant, so it carries option lists only; those are read back. *)
Theorem C09_print_parse_roundtrip_encd_partial :
  forall a deco items,
    wf_items StEncD a items = true ->
    parse_tree StEncD a (print StEncD deco items) = (0, abs_items items).
Proof. exact encd_roundtrip. Qed.

Theorem C09_decoration_irrelevant_enc_partial :
  forall a deco1 deco2 items,
    wf_items StEnc a items = true ->
    parse_tree StEnc a (print StEnc deco1 items) = parse_tree StEnc a (print StEnc deco2 items).
Proof. exact enc_decoration_irrelevant. Qed.

Theorem C09_decoration_irrelevant_sep_partial :
  forall a deco1 deco2 items,
    wf_items StSep a items = true ->
    parse_tree StSep a (print StSep deco1 items) = parse_tree StSep a (print StSep deco2 items).
Proof. exact sep_decoration_irrelevant. Qed.

(* ---- non-vacuity ---- *)
Definition tree1 : list item :=
  [Opt [116;111;112] [49];
   Sec [115;101;99] [Opt [107] [118;32;34;113;34;32;119]; Sec [105;110] []; Opt [101] []];
   Sec [115;101;99] [Opt [97;32;98] [32;108;101;97;100]]].
Definition deco1 : list deco :=
  [mkDeco [10;10] [[99;111;109]; [35;35;10;120]] [32;32] [9] [] 39 [32;32] (Some [116;99]) false;
   mkDeco [10] [] [9] [32;32] [10;32] 0 [] None true].

Example C09_ex_wf : wf_items StPre allow_init tree1 = true.
Proof. vm_compute. reflexivity. Qed.

Example C09_ex_text_differs : print StPre deco1 tree1 <> print StPre [] tree1.
Proof. vm_compute. discriminate. Qed.

Example C09_ex_roundtrip :
  parse_tree StPre allow_init (print StPre deco1 tree1) =
  (0, [T [116;111;112] (Some [49]) [];
       T [115;101;99] None [T [107] (Some [118;32;34;113;34;32;119]) []; T [105;110] None []; T [101] None []];
       T [115;101;99] None [T [97;32;98] (Some [32;108;101;97;100]) []]]).
Proof. vm_compute. reflexivity. Qed.

(* a value of 3000 bytes (beyond the 255 byte limit of the basic metatype), quoted *)
Example C09_ex_long :
  let v := repeat 118 (Z.to_nat 3000) in
  parse_tree StPre allow_init (print StPre [mkDeco [] [] [] [] [] 34 [] None false] [Opt [107] v]) = (0, [T [107] (Some v) []]).
Proof. vm_compute. reflexivity. Qed.

(* the other styles on an example *)
Example C09_ex_enc :
  parse_tree StEnc allow_init (print StEnc deco1 [Opt [116] [49]; Sec [115] [Opt [107;107] [118;32;119]]; Sec [117] []]) =
  (0, abs_items [Opt [116] [49]; Sec [115] [Opt [107;107] [118;32;119]]; Sec [117] []]).
Proof. vm_compute. reflexivity. Qed.
Example C09_ex_sep :
  parse_tree StSep allow_init (print StSep deco1 [Opt [116] [49]; Sec [115] [Opt [107;107] [118;32;119]]; Sec [117] []]) =
  (0, abs_items [Opt [116] [49]; Sec [115] [Opt [107;107] [118;32;119]]; Sec [117] []]).
Proof. vm_compute. reflexivity. Qed.

Print Assumptions C09_print_parse_roundtrip.
Print Assumptions C09_decoration_irrelevant.
Print Assumptions C09_print_parse_roundtrip_enc_partial.
Print Assumptions C09_print_parse_roundtrip_sep_partial.
Print Assumptions C09_print_parse_roundtrip_encd_partial.
Print Assumptions C09_decoration_irrelevant_enc_partial.
Print Assumptions C09_decoration_irrelevant_sep_partial.
