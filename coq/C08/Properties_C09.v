(* C09 property theorems (under construction). *)
From MptV Require Import C08.ParseModel C08.PrintModel.
From Coq Require Import List ZArith.
Import ListNotations.
Local Open Scope Z_scope.
Example C09_example_runs :
  parse_tree StPre allow_init (print StPre [] [Sec [97] [Opt [98] [49]]]) = (0, abs_items [Sec [97] [Opt [98] [49]]]).
Proof. vm_compute. reflexivity. Qed.
