(* C08/ParseSpec.v — abstract specification of C08: the event grammar
     Section n | SectEnd | Option n v | Data v
   and what "well nested" means.  Plain functions on lists; no reference to the
   parser mechanism except the record [event] the path handler is called with. *)
From Coq Require Import List ZArith Bool.
From MptV Require Import C08.ParseModel.
Import ListNotations.
Local Open Scope Z_scope.

Inductive sevent :=
| Section (n : list Z)
| SectEnd
| Option (n : list Z) (v : option (list Z))
| Data (v : list Z).

(* the abstract event a handler call stands for (the operation code decides) *)
Definition abs_event (e : event) : option sevent :=
  let r := ev_ret e in
  if r =? 1 then Some (Section (last (ev_path e) []))
  else if r =? 2 then Some SectEnd
  else if r =? 3 then Some (Option (last (ev_path e) []) None)
  else if r =? 7 then match ev_val e with Some v => Some (Option (last (ev_path e) []) (Some v)) | None => None end
  else if r =? 4 then match ev_val e with Some v => Some (Data v) | None => None end
  else None.

Fixpoint names_eqb (a b : list (list Z)) : bool :=
  match a, b with
  | [], [] => true
  | x :: a', y :: b' => list_eqb x y && names_eqb a' b'
  | _, _ => false
  end.

(* Well nested, with the open sections named: [stack] = names of the sections that are
   open; a Section event reports stack ++ [its name] and opens it; a SectEnd needs an
   open section, reports the stack and closes the innermost one; an Option reports
   stack ++ [its name] (it lies in the open section); Data reports the stack. *)
Fixpoint nested (stack : list (list Z)) (evs : list event) : bool :=
  match evs with
  | [] => true
  | e :: r =>
    match abs_event e with
    | Some (Section n) => names_eqb (ev_path e) (stack ++ [n]) && nested (stack ++ [n]) r
    | Some SectEnd =>
      match stack with
      | [] => false
      | _ => names_eqb (ev_path e) stack && nested (removelast stack) r
      end
    | Some (Option n _) => names_eqb (ev_path e) (stack ++ [n]) && nested stack r
    | Some (Data _) => names_eqb (ev_path e) stack && nested stack r
    | None => false
    end
  end.

(* the sections still open after the events *)
Fixpoint open_after (stack : list (list Z)) (evs : list event) : list (list Z) :=
  match evs with
  | [] => stack
  | e :: r =>
    match abs_event e with
    | Some (Section n) => open_after (stack ++ [n]) r
    | Some SectEnd => open_after (removelast stack) r
    | _ => open_after stack r
    end
  end.

(* pure grammar view (names forgotten): the depth never goes below zero *)
Fixpoint depth_ok (d : nat) (evs : list sevent) : bool :=
  match evs with
  | [] => true
  | Section _ :: r => depth_ok (S d) r
  | SectEnd :: r => match d with O => false | S k => depth_ok k r end
  | _ :: r => depth_ok d r
  end.

(* index of the first event that breaks the nesting (for the checker's report) *)
Fixpoint first_bad (stack : list (list Z)) (evs : list event) (i : nat) : option nat :=
  match evs with
  | [] => None
  | e :: r =>
    if nested stack [e] then
      first_bad (match abs_event e with
                 | Some (Section n) => stack ++ [n]
                 | Some SectEnd => removelast stack
                 | _ => stack end) r (S i)
    else Some i
  end.

(* number of getc callbacks allowed: every character once plus one end-of-input
   report per element call *)
Definition calls_ok (calls len nevents : Z) : bool := calls <=? len + nevents + 1.
