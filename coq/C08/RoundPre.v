(* C08/RoundPre.v — C09, prefix style: one element call on a printed item
   (option line, section header, section end, end of text). *)
From Coq Require Import List ZArith Lia Bool.
From MptV Require Import C08.ParseModel C08.ParseBase C08.ParseProofs C08.PrintModel C08.RoundLex.
Import ListNotations.
Local Open Scope Z_scope.

(* between two elements: no post data, nothing valid *)
Definition ready (s : pst) (E : list (list Z)) : Prop :=
  pelems (pth s) = E /\ rpost (pth s) = [] /\ plen (pth s) = 0 /\ (pkeep (pth s) = false /\ pbin (pth s) = false) /\ valid s = 0.

Lemma ready_addch s E c : ready s E -> 0 <= c < 256 ->
  pth (addch s c) = mkPath E [c] 1 (pfirst (pth s)) false true.
Proof.
  intros (A & B & C & (D & N) & _) Bc. rewrite pth_addch. unfold path_addchar.
  destruct (pbuf (pth s)); cbn [negb]; rewrite ?B, ?D, A, N, byte_of_small by lia; reflexivity.
Qed.

(* ---- names ---- *)
Lemma name_char_pre c : name_char StPre c = true ->
  1 <= c <= 255 /\ c <> 10 /\ c <> 35 /\ c <> 46 /\ c <> 61 /\ c <> 123 /\ c <> 125.
Proof.
  unfold name_char, byteb. rewrite !andb_true_iff, !negb_true_iff, !Z.leb_le, !Z.eqb_neq. tauto.
Qed.
Lemma name_char_nmc c : name_char StPre c = true -> nmc c = true.
Proof. intros H. apply name_char_pre in H. apply nmc_spec. lia. Qed.
Lemma hspace_nmc c : hspace c = true -> nmc c = true.
Proof. intros H. apply hspace_spec in H. apply nmc_spec. lia. Qed.

Record wfn (take : Z) (n : list Z) : Prop := mkWfn {
  wn_chars : Forall (fun c => name_char StPre c = true) n;
  wn_ne : n <> [];
  wn_first : isspace (hd 0 n) = false;
  wn_last : isspace (last n 0) = false;
  wn_check : ncheck_go n true take = 0;
  wn_len : len n <= IDENT_MAX }.

Lemma wf_name_wfn r raw take n : wf_name StPre r raw take n = true -> wfn take n.
Proof.
  unfold wf_name. destruct n as [|c0 n']; [discriminate|].
  rewrite !andb_true_iff, !negb_true_iff, Z.eqb_eq, Z.leb_le. intros (((((A & B) & C) & D) & E) & _).
  assert (A' : forallb (name_char StPre) (c0 :: n') = true) by (destruct r; exact A).
  constructor; auto; try discriminate. apply Forall_forall. now apply forallb_forall.
Qed.

Lemma vlr_skip_blanks B R : Forall (fun c => isspace c = true) B -> vlr (B ++ R) = vlr R.
Proof. induction 1 as [|c B Hc _ IH]; [reflexivity|]. cbn [app vlr]. now rewrite Hc. Qed.

Lemma no_sep n : Forall (fun c => name_char StPre c = true) n -> existsb (Z.eqb SEP) n = false.
Proof.
  induction 1 as [|c n Hc _ IH]; [reflexivity|]. cbn [existsb]. rewrite IH, orb_false_r.
  apply name_char_pre in Hc. unfold SEP. apply Z.eqb_neq. lia.
Qed.

Section Elements.
  Variable a : allow.

  (* the name and the blanks behind it are collected; the delimiter d is the current character *)
  Lemma name_scan take n blanks d rest s E dl :
    wfn take n -> Forall (fun c => hspace c = true) blanks -> 0 < d < 256 -> ready s E ->
    exists s2,
      format_pre fd a (lead dl ++ n ++ blanks ++ d :: rest) s = pre_loop fd a d rest s2 /\
      pth s2 = mkPath E (d :: rev blanks ++ rev n) (len (d :: rev blanks ++ rev n)) (pfirst (pth s)) true true /\
      valid s2 = len n /\ pcurr s2 = PName.
  Proof.
    intros [NC NE NF NL _ NLEN] FB Bd RD.
    destruct n as [|n0 n']; [now destruct NE|]. cbn [hd] in NF.
    inversion NC as [|? ? H0 NC']; subst. apply name_char_pre in H0 as H0'.
    unfold format_pre, nextvis. cbn [app].
    destruct (nv_lead dl (n0 :: n' ++ blanks ++ d :: rest) s) as (s1 & S1 & E1).
    rewrite E1. rewrite nv_vis; [|lia|exact NF|lia]. zb.
    change (sstart fd) with 123. zb.
    assert (RD1 : ready (with_curr (tick s1 n0) PName) E).
    { destruct S1 as (A & B & _). destruct RD as (R1 & R2 & R3 & R4 & R5).
      unfold ready. autorewrite with pst. rewrite A, B. auto. }
    assert (PA : pth (addch (with_curr (tick s1 n0) PName) n0) = mkPath E [n0] (len [n0]) (pfirst (pth s)) false true).
    { rewrite (ready_addch _ _ n0 RD1) by lia. autorewrite with pst. destruct S1 as (A & _). now rewrite A. }
    assert (VA : valid (addch (with_curr (tick s1 n0) PName) n0) = vlr []).
    { destruct RD1 as (_ & _ & _ & _ & V). autorewrite with pst in *. exact V. }
    assert (FW : Forall (fun x => nmc x = true) (n0 :: n')).
    { constructor; [now apply name_char_nmc|]. eapply Forall_impl; [|exact NC']. intros; now apply name_char_nmc. }
    pose proof (len_nonneg n'). rewrite len_cons in NLEN. unfold IDENT_MAX in NLEN.
    assert (VN : vlr (rev n' ++ [n0]) = len (n0 :: n')).
    { change (rev n' ++ [n0]) with (rev (n0 :: n')). rewrite vlr_last.
      - unfold len. now rewrite rev_length.
      - intros X. apply (f_equal (@length Z)) in X. rewrite rev_length in X. discriminate.
      - rewrite hd_rev_last. exact NL. }
    destruct blanks as [|b0 bs].
    - cbn [app].
      destruct (pre_scan a n' n0 _ d rest E [] (pfirst (pth s)) false FW Bd PA) as (s2 & E2 & P2 & V2 & C2);
        [now right|exact VA|rewrite len_cons, len_nil; unfold VALID_MOD; lia|].
      exists s2. split; [exact E2|]. cbn [rev app]. split; [exact P2|]. split; [congruence|exact C2].
    - inversion FB as [|? ? Hb FB']; subst. apply hspace_spec in Hb as Hb'.
      cbn [app].
      assert (Bb : 0 < b0 < 256) by lia.
      destruct (pre_scan a n' n0 _ b0 (bs ++ d :: rest) E [] (pfirst (pth s)) false FW Bb PA) as (s2 & E2 & P2 & V2 & C2);
        [now right|exact VA|rewrite len_cons, len_nil; unfold VALID_MOD; lia|].
      rewrite E2.
      destruct (pre_scan_blanks a bs b0 s2 d rest E (rev n' ++ [n0]) (pfirst (pth s)) FB Bd P2) as (s3 & E3 & P3 & V3 & C3).
      exists s3. split; [exact E3|]. cbn [rev]. rewrite <- !app_assoc. cbn [app].
      split; [exact P3|]. split; [congruence|exact C3].
  Qed.

  Lemma firstn_ppost E J n F K :
    firstn (Z.to_nat (len n)) (ppost (mkPath E (J ++ rev n) (len (J ++ rev n)) F K true)) = n.
  Proof.
    rewrite ppost_rev. cbn [rpost]. rewrite rev_app_distr, rev_involutive.
    unfold len. rewrite Nat2Z.id, firstn_app, Nat.sub_diag, firstn_all. cbn. apply app_nil_r.
  Qed.

  Lemma ncheck_name s E J n F K take :
    pth s = mkPath E (J ++ rev n) (len (J ++ rev n)) F K true -> valid s = len n -> n <> [] ->
    ncheck s (valid s) take = ncheck_go n true take.
  Proof.
    intros HP HV NE. unfold ncheck. rewrite HV.
    assert (0 < len n) by (destruct n; [now destruct NE|rewrite len_cons; pose proof (len_nonneg n); lia]).
    zb. replace (pbuf (pth s)) with true by (rewrite HP; reflexivity). cbn [negb].
    erewrite post_read_value; [reflexivity|exact HP].
  Qed.

  Lemma path_add_name E J n F K :
    Forall (fun c => name_char StPre c = true) n ->
    exists p1, path_add (mkPath E (J ++ rev n) (len (J ++ rev n)) F K true) (len n) = (0, p1) /\
               pelems p1 = E ++ [n] /\ bufok p1.
  Proof.
    intros NC. unfold path_add. cbn [pbuf negb plen pelems pbin].
    assert (L : len n <= len (J ++ rev n)) by (unfold len; rewrite app_length, rev_length; lia).
    pose proof (len_nonneg n). zb. cbn [orb].
    rewrite firstn_ppost, (no_sep n NC). eexists. split; [reflexivity|]. split; [reflexivity|split; reflexivity].
  Qed.

  Lemma invalidate_buf p : bufok p -> path_invalidate p = mkPath (pelems p) [] 0 (pfirst p) false true.
  Proof. intros [B N]. unfold path_invalidate. now rewrite B, N. Qed.

  (* ---- name = value line ---- *)
  Lemma option_line d n v rest s E :
    wfn (aopt a) n -> wf_value v = true -> ready s E ->
    exists s',
      format_pre fd a (print_opt d n v ++ rest) s = ((match v with [] => 3 | _ => 7 end), rest, s') /\
      pelems (pth s') = E ++ [n] /\ pcurr s' = 11 /\ valid s' = len v /\
      (v <> [] -> post_read s' (len v) = Some v) /\ pbin (pth s') = false.
  Proof.
    intros WN WV RD. unfold print_opt. rewrite <- !app_assoc. cbn [app].
    destruct (name_scan (aopt a) n (hws (d_mid1 d)) 61
                (hws (d_mid2 d) ++ print_value d v ++ hws (d_trail d) ++ tail_comment d ++ 10 :: rest) s E d WN
                (hws_hspaces _)) as (s2 & E2 & P2 & V2 & C2); [lia|exact RD|].
    rewrite E2. rewrite pre_loop_eq. unfold pre_body. cbn [fd fmt_default send sstart ostart assign oend].
    zb. cbv iota.
    unfold option_assign.
    set (s3 := with_curr s2 (Z.lor POption PName)).
    assert (P3 : pth s3 = mkPath E ((61 :: rev (hws (d_mid1 d))) ++ rev n) (len ((61 :: rev (hws (d_mid1 d))) ++ rev n))
                                 (pfirst (pth s)) true true).
    { subst s3. rewrite pth_with_curr, P2. reflexivity. }
    assert (V3 : valid s3 = len n) by (subst s3; now rewrite valid_with_curr).
    destruct WN as [NC NE NF NL NK NLEN].
    rewrite (ncheck_name s3 _ _ _ _ _ (aopt a) P3 V3 NE), NK. zb.
    rewrite P3, V3. destruct (path_add_name E (61 :: rev (hws (d_mid1 d))) n (pfirst (pth s)) true NC) as (p1 & PA & PE & PB).
    rewrite PA. zb. rewrite (invalidate_buf p1 PB), PE.
    set (s4 := mkPst _ _ _ _ _).
    destruct (parse_data_value d v rest s4 (E ++ [n]) (pfirst p1) WV) as (s5 & E5 & Q1 & [Q2 QN] & Q3 & Q4 & Q5);
      [reflexivity|reflexivity|].
    rewrite E5. pose proof (len_nonneg v). zb.
    exists s5. subst s4 s3. cbn [pcurr] in Q3. rewrite pcurr_with_curr in Q3.
    destruct v as [|y v0].
    - change (len []) with 0. zb. repeat split; auto; try (intros X; now destruct X).
    - assert (LP : 0 < len (y :: v0)) by (rewrite len_cons; pose proof (len_nonneg v0); lia).
      zb. repeat split; auto.
  Qed.

  (* section_add on a collected name *)
  Lemma section_add_name s E J n F K cur rest :
    wfn (asect a) n -> pth s = mkPath E (J ++ rev n) (len (J ++ rev n)) F K true -> valid s = len n ->
    exists s', section_add (asect a) cur rest s = (PSection, rest, s') /\
               pelems (pth s') = E ++ [n] /\ bufok (pth s') /\ pcurr s' = cur.
  Proof.
    intros [NC NE NF NL NK NLEN] HP HV. unfold section_add.
    assert (P1 : pth (with_curr s cur) = mkPath E (J ++ rev n) (len (J ++ rev n)) F K true) by now rewrite pth_with_curr.
    assert (V1 : valid (with_curr s cur) = len n) by now rewrite valid_with_curr.
    rewrite (ncheck_name _ _ _ _ _ _ (asect a) P1 V1 NE), NK. zb.
    rewrite P1, V1. destruct (path_add_name E J n F K NC) as (p1 & PA & PE & PB). rewrite PA. zb.
    eexists. split; [reflexivity|]. autorewrite with pst. auto.
  Qed.

  (* ---- section header:  name {   or   name <newline> { ---- *)
  Lemma section_head d n rest s E :
    wfn (asect a) n -> ready s E ->
    exists s',
      format_pre fd a (lead d ++ n ++ hws (d_mid1 d) ++ (if d_brace_nl d then [10] ++ ws (d_mid2 d) else []) ++ 123 :: rest) s
      = (PSection, rest, s') /\
      pelems (pth s') = E ++ [n] /\ bufok (pth s') /\ pcurr s' = Z.lor PSection PName.
  Proof.
    intros WN RD. destruct (d_brace_nl d).
    - (* brace on the next line *)
      rewrite <- app_assoc. cbn [app].
      destruct (name_scan (asect a) n (hws (d_mid1 d)) 10 (ws (d_mid2 d) ++ 123 :: rest) s E d WN (hws_hspaces _))
        as (s2 & E2 & P2 & V2 & C2); [lia|exact RD|].
      rewrite E2. rewrite pre_loop_eq. unfold pre_body. cbn [fd fmt_default send sstart ostart assign oend].
      rewrite iscomment_fd. zb. cbv iota. change (isspace 10) with true. cbn [negb].
      unfold nextvis.
      destruct (nv_ws fd _ (ws_spaces (d_mid2 d)) (123 :: rest) (with_curr s2 PName)) as (s3 & (S1 & S2 & S3) & E3).
      rewrite E3, nv_vis by (reflexivity || lia).
      unfold pre_tail. cbn [fd fmt_default sstart]. zb. cbn [negb andb].
      autorewrite with pst in S1, S2.
      destruct (section_add_name (addch (tick s3 123) 123) E (123 :: 10 :: rev (hws (d_mid1 d))) n (pfirst (pth s)) true
                 (Z.lor PSection PName) rest WN) as (s' & E4 & Q1 & Q2 & Q3).
      + rewrite pth_addch, pth_tick, S1, P2. rewrite addchar_keep by lia. reflexivity.
      + rewrite valid_addch, valid_tick, S2. exact V2.
      + exists s'. auto.
    - cbn [app].
      destruct (name_scan (asect a) n (hws (d_mid1 d)) 123 rest s E d WN (hws_hspaces _))
        as (s2 & E2 & P2 & V2 & C2); [lia|exact RD|].
      rewrite E2. rewrite pre_loop_eq. unfold pre_body. cbn [fd fmt_default send sstart ostart assign oend].
      zb. cbv iota. unfold pre_tail. cbn [fd fmt_default sstart]. zb. cbn [negb andb].
      destruct (section_add_name s2 E (123 :: rev (hws (d_mid1 d))) n (pfirst (pth s)) true
                 (Z.lor PSection PName) rest WN P2 V2) as (s' & E4 & Q1 & Q2 & Q3).
      exists s'. auto.
  Qed.

  (* ---- section end ---- *)
  Lemma section_end dc rest s E :
    ready s E ->
    exists s', format_pre fd a (lead dc ++ hws (d_trail dc) ++ 125 :: rest) s = (PSectEnd, rest, s') /\
               pelems (pth s') = E /\ pcurr s' = PSectEnd /\ pbin (pth s') = false.
  Proof.
    intros RD. unfold format_pre, nextvis.
    destruct (nv_lead dc (hws (d_trail dc) ++ 125 :: rest) s) as (s1 & S1 & E1). rewrite E1.
    destruct (nv_ws fd _ (hws_spaces (d_trail dc)) (125 :: rest) s1) as (s2 & S2 & E2). rewrite E2.
    rewrite nv_vis by (reflexivity || lia). zb. change (sstart fd) with 123. zb.
    rewrite pre_loop_eq. unfold pre_body. cbn [fd fmt_default send]. zb.
    eexists. split; [reflexivity|]. autorewrite with pst.
    destruct (same_trans _ _ _ S1 S2) as (A & _). rewrite A. destruct RD as (R1 & _ & _ & (_ & RN) & _). repeat split; auto.
  Qed.

  (* ---- end of the text ---- *)
  Lemma text_end final s :
    ready s [] ->
    exists s', format_pre fd a (lead final) s = (0, [], s').
  Proof.
    intros RD. unfold format_pre, nextvis.
    destruct (nv_lead final [] s) as (s1 & (A & _) & E1). rewrite app_nil_r in E1. rewrite E1.
    cbn [nextvis_go]. zb. autorewrite with pst. rewrite A. destruct RD as (R1 & _). rewrite R1.
    eexists. reflexivity.
  Qed.
End Elements.
