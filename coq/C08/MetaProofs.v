(* C08/MetaProofs.v — C09: every view of a stored value shows the text stored last, for all
   texts, all operation histories (refinement of the specification of MetaModel.v). *)
From Coq Require Import List ZArith Bool Lia.
From MptV Require Import C08.ParseModel C08.MetaModel.
Import ListNotations.
Local Open Scope Z_scope.

(* model state and specification text agree *)
Definition minv (st : mstate) (txt : option (list Z)) : Prop :=
  match st, txt with
  | None, None => True
  | Some (_, t), Some t' => t = t'
  | _, _ => False
  end.

Lemma store_text v : exists k, store v = Some (k, v).
Proof. unfold store, meta_new. destruct (_ <=? _); eauto. Qed.

Lemma zlen_neq_succ t : (zlen t + 1 =? zlen t) = false.
Proof. apply Z.eqb_neq. lia. Qed.

Lemma minv_step v st txt op :
  minv st txt ->
  let o := snd (meta_step v st op) in
  minv (fst (meta_step v st op)) (spec_text v txt (match o with BNew ok => ok | _ => true end) op) /\
  spec_obs (if is_new op then None else txt) o = o.
Proof.
  intros I. cbn zeta.
  destruct op; cbn [meta_step spec_text is_new fst snd];
    try (destruct (store_text v) as [k ->]; cbn [fst snd minv spec_obs]; auto; fail);
    try (cbn [minv spec_obs]; auto; fail);
    try (destruct (zlen v <=? 249); cbn [fst snd minv spec_obs]; auto; fail);
    (destruct st as [[k t]|]; destruct txt as [t'|]; cbn [minv] in I; try contradiction; subst;
     [|cbn [fst snd minv spec_obs]; auto]).
  all: try (destruct k; cbn [fst snd minv spec_obs]; rewrite ?Z.eqb_refl, ?zlen_neq_succ; auto; fail).
  - (* iterator *)
    destruct k; cbn [fst snd minv spec_obs]; auto. destruct t'; cbn [fst snd minv spec_obs]; auto.
  - (* clone *)
    destruct k; cbn [fst snd minv spec_obs]; auto. destruct (store_text t') as [k' ->]. cbn [minv]. auto.
Qed.

Theorem meta_views_faithful : forall ops v st txt,
  minv st txt -> spec_run v txt st ops = meta_run v st ops.
Proof.
  induction ops as [|op ops IH]; intros v st txt I; [reflexivity|].
  cbn [spec_run meta_run]. destruct (minv_step v st txt op I) as [I1 E1].
  destruct (meta_step v st op) as [st' o]. cbn [fst snd] in *. rewrite E1. f_equal. now apply IH.
Qed.

(* from a fresh start *)
Corollary meta_views_faithful0 v ops : spec_run v None None ops = meta_run v None ops.
Proof. now apply meta_views_faithful. Qed.

Lemma leqb_refl t : leqb t t = true.
Proof. unfold leqb. destruct (list_eq_dec _ _ _); [reflexivity|congruence]. Qed.

(* what the specification expects is the text *)
Lemma spec_obs_ok t o : obs_ok t (spec_obs (Some t) o) = true.
Proof.
  destruct o as [ok| |r f|[c|x]|n x|[c|[[e a] r]]|ok|[c|n]|r|ok]; cbn [spec_obs obs_ok]; auto using leqb_refl.
  - destruct (n =? zlen t) eqn:E; [apply Z.eqb_eq in E; subst n|]; rewrite ?Z.eqb_refl, ?orb_true_r, leqb_refl; reflexivity.
  - destruct e as [|[tag e0] e']; cbn [spec_obs obs_ok]; [destruct t; cbn [obs_ok]; auto using leqb_refl|apply leqb_refl].
  - destruct (n =? zlen t) eqn:E; [apply Z.eqb_eq in E; subst n|]; rewrite ?Z.eqb_refl, ?orb_true_r; reflexivity.
Qed.

(* hence every observation of the model made on a metatype holding text [t] shows [t] *)
Theorem meta_reads_text v k t op :
  is_new op = false -> obs_ok t (snd (meta_step v (Some (k, t)) op)) = true.
Proof.
  intros N. assert (I : minv (Some (k, t)) (Some t)) by reflexivity.
  destruct (minv_step v (Some (k, t)) (Some t) op I) as [_ E]. rewrite N in E. rewrite <- E. apply spec_obs_ok.
Qed.

(* a clone holds the same text, of any length *)
Theorem meta_clone_text v k t :
  exists k', fst (meta_step v (Some (k, t)) OClone) = Some (k', t).
Proof. destruct k; cbn [meta_step fst]; [apply store_text|eauto|eauto]. Qed.
