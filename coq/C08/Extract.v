(* Extraction of the executable parser model and the C08 specification (ExtrOcamlBasic only). *)
From MptV Require Import C08.ParseModel C08.ParseSpec.
Require Import ExtrOcamlBasic.
Extraction "c08_model.ml" parse_format parse_accept allow_init allow_variant next_fcn parse_events parse_events_b parse_node
  nested first_bad calls_ok.
