(* C08/RoundMain.v — C09, prefix style: print then parse gives the tree back, for every
   well-formed tree, every decoration list and every name-flag set. *)
From Coq Require Import List ZArith Lia Bool.
From MptV Require Import C08.ParseModel C08.ParseBase C08.ParseProofs C08.ParseConfig
  C08.PrintModel C08.RoundLex C08.RoundPre C08.RoundTree.
Import ListNotations.
Local Open Scope Z_scope.

(* ---------------------------------------------------------------- decoration does not touch the tree *)
Lemma decorate_strip : forall i ds, strip (fst (decorate ds i)) = i.
Proof.
  induction i as [n v|n ks IH] using item_ind2; intros ds.
  - cbn [decorate]. destruct (take_deco ds). reflexivity.
  - cbn [decorate]. destruct (take_deco ds) as [d r].
    set (go := fix go (ks : list item) (ds : list deco) {struct ks} : list ditem * list deco :=
                 match ks with
                 | [] => ([], ds)
                 | k :: ks' => let (dk, r1) := decorate ds k in let (dr, r2) := go ks' r1 in (dk :: dr, r2)
                 end).
    assert (G : forall r, map strip (fst (go ks r)) = ks).
    { clear - IH. induction IH as [|k ks Hk _ IHks]; intros r; [reflexivity|].
      cbn [go]. fold go. specialize (Hk r). destruct (decorate r k) as [dk r1].
      specialize (IHks r1). destruct (go ks r1) as [dr r2]. cbn [fst map] in *. now rewrite Hk, IHks. }
    specialize (G r). destruct (go ks r) as [dks r2]. destruct (take_deco r2). cbn [fst strip] in *. now rewrite G.
Qed.

Lemma decorate_list_strip l : forall ds, map strip (fst (decorate_list ds l)) = l.
Proof.
  induction l as [|k l IH]; intros ds; [reflexivity|].
  cbn [decorate_list]. pose proof (decorate_strip k ds) as Hk. destruct (decorate ds k) as [dk r1].
  specialize (IH r1). destruct (decorate_list r1 l) as [dr r2]. cbn [fst map] in *. now rewrite Hk, IH.
Qed.

(* the trees items denote carry no empty value *)
Lemma norm_abs : forall i, norm_tree (abs_item i) = abs_item i.
Proof.
  induction i as [n v|n ks IH] using item_ind2.
  - cbn. destruct v; reflexivity.
  - cbn [abs_item norm_tree]. f_equal. rewrite map_map.
    induction IH as [|k ks Hk _ IHks]; [reflexivity|]. cbn [map]. now rewrite Hk, IHks.
Qed.
Lemma norm_abs_items l : map norm_tree (abs_items l) = abs_items l.
Proof. unfold abs_items. rewrite map_map. apply map_ext. apply norm_abs. Qed.

(* ---------------------------------------------------------------- prefix style *)
Lemma close_all_lb prev b trees :
  okb prev b -> lb prev b = [mkFrame [] None (rev trees)] -> close_all b = trees.
Proof.
  intros (P0 & NE & S) L. unfold lb in L. destruct (se prev).
  - destruct (S eq_refl) as (f & p & rest & ->).
    assert (L1 : close_frame f p = mkFrame [] None (rev trees) /\ rest = []) by (inversion L; auto).
    destruct L1 as [L1 ->]. cbn [close_all close_into]. rewrite L1. cbn [fkids]. apply rev_involutive.
  - subst b. cbn [close_all close_into fkids]. apply rev_involutive.
Qed.

Lemma ready_init : ready pst_init [].
Proof. unfold ready. cbn. intuition auto. Qed.

Lemma okb_init : okb PSection builder_init.
Proof. split; [discriminate|]. split; [discriminate|]. intros X. discriminate. Qed.

Theorem pre_roundtrip a ds items :
  wf_items StPre a items = true ->
  parse_tree StPre a (print StPre ds items) = (0, abs_items items).
Proof.
  intros WF. unfold wf_items in WF. rewrite andb_true_r in WF.
  unfold print. pose proof (decorate_list_strip items ds) as ST.
  destruct (decorate_list ds items) as [dl r]. cbn [fst] in ST.
  set (final := fst (take_deco r)).
  unfold print_ditems.
  replace (map (print_ditem StPre) dl) with (map print_pre dl) by (apply map_ext; reflexivity).
  set (text := concat (map print_pre dl) ++ lead final).
  unfold parse_tree, parse_node. change (parse_format (style_fmt StPre)) with (fmt_default, 42).
  cbv iota beta. change (next_fcn 42) with (Some FamPre). cbv iota beta.
  (* the loop with exactly the fuel the items need *)
  assert (WF' : forallb (wf_item StPre a O) (map strip dl) = true) by now rewrite ST.
  destruct (all_lists_ok a dl O WF' (lead final) pst_init PSection builder_init 1%nat [] ready_init okb_init)
    as (s1 & prev1 & b1 & E1 & R1 & O1 & L1).
  destruct (text_end a final s1 R1) as (s2 & E2).
  assert (RN : loop (steps_list dl + 1) FamPre fd a PSection text pst_init builder_init
               = mkCres 0 [] s2 prev1 b1).
  { fold text in E1. rewrite E1. unfold loop. cbn [config_loop next_elem]. rewrite E2. reflexivity. }
  (* the fuel of the model is at least as good *)
  set (run := fun n => config_loop node_append n FamPre fmt_default a PSection text pst_init builder_init).
  assert (RF : run (config_fuel text) = mkCres 0 [] s2 prev1 b1).
  { pose proof (config_loop_ok builder node_append FamPre fmt_default a (config_fuel text) PSection text pst_init
                               builder_init sinv_init (config_fuel_enough text)) as [NF _].
    pose proof (config_loop_mono builder node_append FamPre fmt_default a (config_fuel text) PSection text pst_init
                                 builder_init NF (Nat.max (steps_list dl + 1) (config_fuel text)) (Nat.le_max_r _ _)) as M1.
    assert (NF2 : c_ret (loop (steps_list dl + 1) FamPre fd a PSection text pst_init builder_init) <> ROutOfFuel)
      by (rewrite RN; cbn; codes; lia).
    pose proof (config_loop_mono builder node_append FamPre fd a (steps_list dl + 1) PSection text pst_init
                                 builder_init NF2 (Nat.max (steps_list dl + 1) (config_fuel text)) (Nat.le_max_l _ _)) as M2.
    unfold run. rewrite <- M1. unfold fd, loop in *. rewrite M2. exact RN. }
  unfold run in RF. rewrite RF. cbn [c_ret c_rest c_st c_h]. change (0 <? 0) with false. cbv iota. cbn [n_ret n_tree].
  f_equal.
  rewrite (close_all_lb prev1 b1 (abs_items items) O1).
  - apply norm_abs_items.
  - rewrite L1. change (lb PSection builder_init) with builder_init. unfold builder_init.
    rewrite fold_add_kid. cbn [fname fval fkids]. rewrite app_nil_r, ST. reflexivity.
Qed.

(* adding or removing decoration never changes the parsed result *)
Theorem pre_decoration_irrelevant a d1 d2 items :
  wf_items StPre a items = true ->
  parse_tree StPre a (print StPre d1 items) = parse_tree StPre a (print StPre d2 items).
Proof. intros WF. now rewrite !pre_roundtrip. Qed.
