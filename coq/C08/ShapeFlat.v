(* C08/ShapeFlat.v — C09: what the enclosed ("%x% = #", "[x] = #") and the separated
   ("[ ] = #") section styles can express at all.  For EVERY input text the forest that
   mpt_parse_node builds in these styles is flat: options first, then sections that hold
   options only (enclosed / separated), or options only (enclosed family with distinct
   delimiters, where a section can never be closed).  The hypothesis is that the option
   names must not be empty (name flag Empty off): with the flag a line without a name
   gives a data-only element, and mpt_node_append hangs the next element below it. *)
From Coq Require Import List ZArith Lia Bool.
From MptV Require Import C08.ParseModel C08.ParseBase C08.ParseProofs C08.ParseConfig C08.ParseLinks
  C08.PrintModel C08.RoundTree C08.RoundFlat C08.RoundFlatMain.
Import ListNotations.
Local Open Scope Z_scope.

(* ---------------------------------------------------------------- flat forests *)
Definition leaf (t : tree) : bool := match t with T _ _ [] => true | _ => false end.
(* a section: no value, children are leaves *)
Definition sect (t : tree) : bool := match t with T _ None ks => forallb leaf ks | _ => false end.
(* leaves (options) first, then sections holding leaves only *)
Fixpoint flat_forest (ts : list tree) : bool :=
  match ts with
  | [] => true
  | t :: r => if leaf t then flat_forest r || forallb sect ts else forallb sect ts
  end.

(* the same as a proposition *)
Definition flatP (ts : list tree) : Prop :=
  exists opts secs, ts = opts ++ secs /\ forallb leaf opts = true /\ forallb sect secs = true.

Lemma flatP_flat ts : flatP ts -> flat_forest ts = true.
Proof.
  intros (opts & secs & -> & A & B). induction opts as [|t opts IH].
  - cbn [app]. destruct secs as [|t r]; [reflexivity|]. cbn [flat_forest]. rewrite B.
    destruct (leaf t); [apply orb_true_r|reflexivity].
  - cbn [forallb] in A. apply andb_true_iff in A. destruct A as [A1 A2].
    cbn [app flat_forest]. rewrite A1, (IH A2). reflexivity.
Qed.

Lemma flat_flatP ts : flat_forest ts = true -> flatP ts.
Proof.
  induction ts as [|t r IH]; intros H.
  - exists [], []. repeat split.
  - cbn [flat_forest] in H. destruct (leaf t) eqn:L.
    + apply orb_true_iff in H. destruct H as [H|H].
      * destruct (IH H) as (opts & secs & -> & A & B). exists (t :: opts), secs.
        split; [reflexivity|]. split; [|exact B]. cbn [forallb]. now rewrite L, A.
      * exists [], (t :: r). repeat split. exact H.
    + exists [], (t :: r). repeat split. exact H.
Qed.

(* flat_forest decides exactly "leaves, then sections of leaves" *)
Lemma flat_forest_spec ts :
  flat_forest ts = true <->
  exists opts secs, ts = opts ++ secs /\ forallb leaf opts = true /\ forallb sect secs = true.
Proof. split; [apply flat_flatP|apply flatP_flat]. Qed.

Lemma forallb_rev {A} (p : A -> bool) l : forallb p (rev l) = forallb p l.
Proof.
  induction l as [|x l IH]; [reflexivity|]. cbn [rev forallb]. rewrite forallb_app, IH. cbn [forallb].
  rewrite andb_true_r. apply andb_comm.
Qed.

Lemma flatP_leaves ts : forallb leaf ts = true -> flatP ts.
Proof. intros H. exists ts, []. rewrite app_nil_r. repeat split. exact H. Qed.

Lemma flatP_snoc ts t : flatP ts -> sect t = true -> flatP (ts ++ [t]).
Proof.
  intros (opts & secs & -> & A & B) S. exists opts, (secs ++ [t]). rewrite app_assoc.
  split; [reflexivity|]. split; [exact A|]. rewrite forallb_app, B. cbn [forallb andb]. now rewrite S.
Qed.

(* the normalisation of parse_tree (empty value = no value) keeps the shape *)
Lemma leaf_norm t : leaf (norm_tree t) = leaf t.
Proof. destruct t as [n v [|k ks]]; reflexivity. Qed.
Lemma leaves_norm ks : forallb leaf (map norm_tree ks) = forallb leaf ks.
Proof. induction ks as [|k ks IH]; [reflexivity|]. cbn [map forallb]. now rewrite leaf_norm, IH. Qed.
Lemma sect_norm t : sect t = true -> sect (norm_tree t) = true.
Proof.
  destruct t as [n [v|] ks]; intros H; [cbn in H; discriminate|].
  cbn [norm_tree sect] in *. now rewrite leaves_norm.
Qed.
Lemma sects_norm ks : forallb sect ks = true -> forallb sect (map norm_tree ks) = true.
Proof.
  induction ks as [|k ks IH]; [reflexivity|]. cbn [map forallb]. intros H. apply andb_true_iff in H.
  destruct H as [A B]. now rewrite (sect_norm _ A), (IH B).
Qed.
Lemma flatP_norm ts : flatP ts -> flatP (map norm_tree ts).
Proof.
  intros (opts & secs & -> & A & B). exists (map norm_tree opts), (map norm_tree secs).
  split; [apply map_app|]. split; [now rewrite leaves_norm|now apply sects_norm].
Qed.

(* ---------------------------------------------------------------- return codes of the element functions *)
(* the option functions: an error, Option (3) or Option|Data (7) *)
Definition r37 (x : R) : Prop := let '(ret, _, _) := x in ret < 0 \/ ret = 3 \/ ret = 7.
(* mpt_parse_option itself also reports the end of the input, outside of all sections *)
Definition r37z (s : pst) (x : R) : Prop :=
  let '(ret, _, _) := x in ret < 0 \/ ret = 3 \/ ret = 7 \/ (ret = 0 /\ pelems (pth s) = []).
(* the section name functions: an error or Section (1) *)
Definition r1 (x : R) : Prop := let '(ret, _, _) := x in ret < 0 \/ ret = 1.

Lemma option_assign_r37 f take adderr l s : adderr < 0 -> r37 (option_assign f take adderr l s).
Proof.
  intros A. unfold option_assign.
  destruct (_ <? 0); [left; destruct (_ =? RFault); codes; lia|].
  destruct (path_add _ _) as [ad p1]. destruct (ad <? 0); [left; exact A|].
  set (s1 := mkPst _ _ _ _ _). destruct (parse_data f l s1) as [[d r] s2].
  destruct (d <? 0) eqn:DN; [left; now apply Z.ltb_lt|].
  destruct (d =? 0); right; [left|right]; reflexivity.
Qed.

(* the place where the Empty flag decides: without it there is no data-only element *)
Lemma option_tail_r37 take l s : flag take NFEmpty = false -> r37 (option_tail take l s).
Proof. intros F. unfold option_tail. rewrite F. cbn [negb]. left. codes; lia. Qed.

Lemma option_body_r37 f take c l s next :
  flag take NFEmpty = false -> (forall s1, r37 (next s1)) -> r37 (option_body f take c l s next).
Proof.
  intros F NX. unfold option_body.
  destruct (isspace c).
  - destruct (assign f =? 0); [apply option_assign_r37; codes; lia|].
    destruct (c =? 10); [|apply NX].
    destruct (_ && _); [left; codes; lia|now apply option_tail_r37].
  - destruct (c =? assign f); [apply option_assign_r37; codes; lia|].
    destruct (c =? oend f); [now apply option_tail_r37|].
    destruct (iscomment f c); [|apply NX].
    destruct (negb _); [left; codes; lia|].
    destruct (endline l s) as [[c2 r2] s2]. now apply option_tail_r37.
Qed.

Lemma option_loop_r37 f take l : flag take NFEmpty = false -> forall c s, r37 (option_loop f take c l s).
Proof.
  intros F. induction l as [|x l IH]; intros c s; rewrite option_loop_eq; apply option_body_r37; auto; intros s1.
  - left. codes; lia.
  - destruct (x <? 0); [left; destruct (x =? -2); codes; lia|apply IH].
Qed.

Lemma r37_z s x : r37 x -> r37z s x.
Proof. destruct x as [[ret r] s']. intros [H|[H|H]]; unfold r37z; auto. Qed.

(* both variants of the function (araw): the reader of the second name character does not matter *)
Lemma parse_option_r37z f a l s : flag (aopt a) NFEmpty = false -> r37z s (parse_option f a l s).
Proof.
  intros F. unfold parse_option. set (named := araw a && negb (valid s =? 0) && (ostart f =? 0)).
  assert (X : let '(c, r, s1) := (if named then getchar l s else nextvis f l s) in rd l s c r s1)
    by (destruct named; [apply getchar_rd|apply nextvis_rd]).
  destruct (if named then getchar l s else nextvis f l s) as [[c r] s1]. clearbody named.
  destruct (c <? 0).
  - destruct (negb (c =? -2)); [left; codes; lia|].
    destruct (pelems (pth (with_curr s1 _))) eqn:PE.
    + right; right; right. split; [reflexivity|]. rewrite <- (rd_elems _ _ _ _ _ X).
      now autorewrite with pst in PE.
    + left. codes; lia.
  - destruct (_ && _ && _); [left; codes; lia|].
    apply r37_z. now apply option_loop_r37.
Qed.

Lemma section_add_r1 take cur l s : r1 (section_add take cur l s).
Proof.
  unfold section_add. destruct (_ <? 0); [left; destruct (_ =? RFault); codes; lia|].
  destruct (path_add _ _) as [ad p1]. destruct (ad <? 0); [left; codes; lia|right; reflexivity].
Qed.

Lemma enc_section_r1 f a l s : r1 (enc_section f a l s).
Proof.
  unfold enc_section. destruct (nextvis f l _) as [[c r] s1].
  destruct (c <=? 0); [left; codes; lia|].
  set (s2 := set_valid _). destruct (enc_loop f r s2) as [[ok r3] s3].
  destruct ok; [|left; codes; lia].
  cbv zeta. destruct (_ <? 0); [left; destruct (_ =? RFault); codes; lia|].
  destruct (path_add _ _) as [ad p1]. destruct (ad <? 0); [left; codes; lia|right; reflexivity].
Qed.

Lemma enc_other_r37z f a c l s : flag (aopt a) NFEmpty = false -> r37z s (enc_other f a c l s).
Proof.
  intros F. unfold enc_other. destruct (negb (ostart f =? 0)).
  - destruct (negb (c =? ostart f)); [left; codes; lia|].
    pose proof (parse_option_r37z f a l (addch s c) F) as Y.
    destruct (parse_option f a l (addch s c)) as [[ret r] s'].
    unfold r37z in *. autorewrite with pst in Y. exact Y.
  - pose proof (parse_option_r37z f a l (set_valid (addch s c)) F) as Y.
    destruct (parse_option f a l (set_valid (addch s c))) as [[ret r] s'].
    unfold r37z in *. autorewrite with pst in Y. exact Y.
Qed.

Lemma sep_body_r1 f a c l s next : (forall s1, r1 (next s1)) -> r1 (sep_body f a c l s next).
Proof.
  intros NX. unfold sep_body, sep_fail.
  destruct (c =? send f); [apply section_add_r1|].
  destruct (iscomment f c); [left; codes; lia|].
  destruct (negb (isspace c)); [apply NX|].
  destruct (c =? 10); [left; codes; lia|apply NX].
Qed.

Lemma sep_loop_r1 f a l : forall c s, r1 (sep_loop f a c l s).
Proof.
  induction l as [|x l IH]; intros c s; rewrite sep_loop_eq; apply sep_body_r1; intros s1; unfold sep_fail.
  - left. codes; lia.
  - destruct (x <? 0); [left; codes; lia|apply IH].
Qed.

Lemma sep_first_r1 f a l s : r1 (sep_first f a l s).
Proof.
  unfold sep_first. destruct (negb _); [|apply sep_loop_r1].
  destruct (getchar l s) as [[c r] s1].
  destruct (c <? 0); [left; destruct (c =? -2); codes; lia|apply sep_loop_r1].
Qed.

(* ---------------------------------------------------------------- one element, by the previous operation *)
Definition pk (prev : Z) : Prop := prev = 1 \/ prev = 9 \/ prev = 11.
Lemma pk_nz prev : pk prev -> prev <> 0.
Proof. unfold pk. lia. Qed.
Lemma pk_n2 prev : pk prev -> prev <> 2.
Proof. unfold pk. lia. Qed.

(* behind a section end only a section start follows; otherwise a section starts at top level only *)
Definition fstep (prev : Z) (s : pst) (x : R) : Prop :=
  let '(ret, _, _) := x in
  (prev = 2 -> ret < 0 \/ ret = 1) /\
  (pk prev -> ret <= 0 \/ (ret = 1 /\ pelems (pth s) = []) \/ ret = 2 \/ ret = 3 \/ ret = 7).

Lemma fstep_r37z prev s s' x : prev <> 2 -> r37z s' x -> fstep prev s x.
Proof.
  destruct x as [[ret r] s1]. intros P2 H. split; [intros E; now destruct P2|]. intros _.
  destruct H as [H|[H|[H|[H _]]]]; [left; lia|auto|auto|left; lia].
Qed.
Lemma fstep_r1_top prev s x : prev <> 2 -> pelems (pth s) = [] -> r1 x -> fstep prev s x.
Proof.
  destruct x as [[ret r] s1]. intros P2 PE H. split; [intros E; now destruct P2|]. intros _.
  destruct H as [H|H]; [left; lia|auto].
Qed.
Lemma fstep_r1_end s x : r1 x -> fstep 2 s x.
Proof.
  destruct x as [[ret r] s1]. intros H. split; [intros _; exact H|]. unfold pk. intros K. exfalso. lia.
Qed.
Lemma fstep_stop prev s ret r s1 : prev <> 2 -> ret <= 0 -> fstep prev s (ret, r, s1).
Proof. intros P2 H. split; [intros E; now destruct P2|]. intros _. left. exact H. Qed.
Lemma fstep_end prev s r s1 : prev <> 2 -> fstep prev s (2, r, s1).
Proof. intros P2. split; [intros E; now destruct P2|]. intros _. auto. Qed.

(* enclosed style, one delimiter *)
Lemma format_enc_fstep f a prev l s :
  sstart f = send f -> flag (aopt a) NFEmpty = false -> fstep prev s (format_enc f a prev l s).
Proof.
  intros SS F. unfold format_enc. rewrite SS, Z.eqb_refl.
  destruct (prev =? PSectEnd) eqn:P2.
  - apply Z.eqb_eq in P2. rewrite P2. apply fstep_r1_end, enc_section_r1.
  - apply Z.eqb_neq in P2.
    pose proof (nextvis_rd f l s) as X. destruct (nextvis f l s) as [[c r] s1].
    pose proof (rd_elems _ _ _ _ _ X) as PE.
    destruct (c <? 0); [apply fstep_stop; [exact P2|lia]|].
    destruct (pelems (pth s1)) as [|e es] eqn:PS; cbn [andb].
    + destruct (negb (c =? send f)).
      * eapply fstep_r37z; [exact P2|]. now apply enc_other_r37z.
      * apply fstep_r1_top; [exact P2|now rewrite <- PE|apply enc_section_r1].
    + destruct (c =? send f); cbn [negb].
      * now apply fstep_end.
      * eapply fstep_r37z; [exact P2|]. now apply enc_other_r37z.
Qed.

(* separated style *)
Lemma format_sep_fstep f a prev l s :
  prev = 2 \/ pk prev -> flag (aopt a) NFEmpty = false -> fstep prev s (format_sep f a prev l s).
Proof.
  intros PV F. unfold format_sep.
  destruct (Z.land prev 15 =? PSectEnd) eqn:P2.
  - assert (prev = 2) as -> by (destruct PV as [->|[->|[->| ->]]]; [reflexivity|discriminate..]).
    apply fstep_r1_end, sep_first_r1.
  - assert (N2 : prev <> 2) by (intros ->; discriminate).
    pose proof (nextvis_rd f l s) as X. destruct (nextvis f l s) as [[c r] s1].
    pose proof (rd_elems _ _ _ _ _ X) as PE.
    destruct (c <? 0).
    { destruct (c =? -2); apply fstep_stop; auto; codes; lia. }
    destruct (negb (c =? sstart f)).
    + destruct (negb (c =? ostart f)); eapply fstep_r37z; try exact N2; now apply parse_option_r37z.
    + destruct (pelems (pth s1)) as [|e es] eqn:PS.
      * apply fstep_r1_top; [exact N2|now rewrite <- PE|apply sep_first_r1].
      * now apply fstep_end.
Qed.

(* enclosed family, distinct delimiters: no section end, and the end of the input is accepted at top level only *)
Definition dstep (s : pst) (x : R) : Prop :=
  let '(ret, _, _) := x in
  ret < 0 \/ ret = 1 \/ ret = 3 \/ ret = 7 \/ (ret = 0 /\ pelems (pth s) = []).

Lemma dstep_r37z s s' x : pelems (pth s') = pelems (pth s) -> r37z s' x -> dstep s x.
Proof.
  destruct x as [[ret r] s1]. intros PE H. unfold dstep. rewrite <- PE.
  destruct H as [H|[H|[H|H]]]; auto.
Qed.
Lemma dstep_r1 s x : r1 x -> dstep s x.
Proof. destruct x as [[ret r] s1]. intros [H|H]; unfold dstep; auto. Qed.

Lemma format_encd_dstep f a prev l s :
  sstart f <> send f -> flag (aopt a) NFEmpty = false -> dstep s (format_enc f a prev l s).
Proof.
  intros SS F. unfold format_enc. apply Z.eqb_neq in SS. rewrite SS.
  pose proof (nextvis_rd f l s) as X. destruct (nextvis f l s) as [[c r] s1].
  pose proof (rd_elems _ _ _ _ _ X) as PE.
  destruct (c <? 0).
  - unfold dstep. autorewrite with pst. rewrite PE.
    destruct (pelems (pth s)); [destruct (c =? -2)|]; [right; right; right; right; auto|left; codes; lia..].
  - destruct (negb (c =? sstart f)).
    + eapply dstep_r37z; [exact PE|]. now apply enc_other_r37z.
    + apply dstep_r1, enc_section_r1.
Qed.

(* ---------------------------------------------------------------- mpt_node_append, inverted *)
Lemma close_all_lb prev b : close_all (lb prev b) = close_all b.
Proof. unfold lb. destruct (se prev); [|reflexivity]. destruct b as [|f0 [|p rest]]; reflexivity. Qed.

Lemma lb_sec prev b : prev = 1 \/ prev = 9 -> lb prev b = b.
Proof. intros [->| ->]; reflexivity. Qed.

(* a named element: whatever the lengths are, a success pushes the new node on the folded builder *)
Lemma na_named_inv b ret prev E n first vo h1 :
  prev <> 0 -> ret = 1 \/ ret = 3 \/ ret = 7 ->
  node_append b (mkEv ret prev (E ++ [n]) first vo) = Some (inl h1) -> h1 = mkFrame n vo [] :: lb prev b.
Proof.
  intros P0 R. unfold node_append. cbn [ev_ret ev_prev ev_path ev_val].
  assert (C1 : (Z.land ret 15 =? 0) = false) by (destruct R as [->|[->| ->]]; reflexivity).
  assert (C2 : (ret =? PSectEnd) = false) by (destruct R as [->|[->| ->]]; reflexivity).
  assert (C3 : negb (Z.land ret PSection =? 0) = true) by (destruct R as [->|[->| ->]]; reflexivity).
  rewrite C1, C2, C3.
  destruct (E ++ [n]) as [|x es] eqn:EE; [now destruct (app_cons_not_nil E [] n)|]. rewrite <- EE, last_last.
  assert (MV : (match vo with None => Some None
                | Some v => option_map (fun kv => Some (snd kv)) (meta_new v) end) = Some vo).
  { destruct vo as [v|]; [|reflexivity]. unfold meta_new. destruct (_ <=? 249); reflexivity. }
  rewrite MV. destruct (IDENT_MAX <? _); [discriminate|].
  unfold lb, se. apply Z.eqb_neq in P0. rewrite P0. cbn [negb andb].
  destruct (Z.land prev PSectEnd =? 0); cbn [negb]; [intros X; now inversion X|].
  destruct b as [|f0 [|p rest]]; intros X; inversion X; reflexivity.
Qed.

Lemma na_end_inv b prev E first vo h1 :
  node_append b (mkEv 2 prev E first vo) = Some (inl h1) -> h1 = lb prev b.
Proof.
  unfold node_append. cbn [ev_ret ev_prev]. change (Z.land 2 15 =? 0) with false.
  change (2 =? PSectEnd) with true. cbv iota.
  unfold lb, se. destruct (Z.land prev PSectEnd =? 0); cbn [negb]; [intros X; now inversion X|].
  destruct b as [|f0 [|p rest]]; intros X; inversion X; reflexivity.
Qed.

(* ---------------------------------------------------------------- one round of the loop *)
Section Steps.
  Variable a : allow.
  Variable fam : family.
  Variable f : format.

  Definition nloop := config_loop node_append.

  Lemma step_sec fuel prev l s b r s1 n :
    next_elem fam f a prev l s = (1, r, s1) -> prev <> 0 -> pelems (pth s1) = pelems (pth s) ++ [n] ->
    c_ret (nloop (S fuel) fam f a prev l s b) < 0 \/
    exists s2, pelems (pth s2) = pelems (pth s) ++ [n] /\
      nloop (S fuel) fam f a prev l s b = nloop fuel fam f a (pcurr s1) r s2 (mkFrame n None [] :: lb prev b).
  Proof.
    intros NE P0 PE. unfold nloop. cbn [config_loop]. rewrite NE.
    change (1 <=? 0) with false. change (negb (Z.land 1 PData =? 0)) with false. cbv iota.
    rewrite PE.
    destruct (node_append b _) as [[h1|[]]|] eqn:NA; [|left; cbn; codes; lia..].
    apply na_named_inv in NA; [|exact P0|left; reflexivity]. subst h1.
    change (negb (Z.land 1 PSectEnd =? 0)) with false. cbv iota.
    right. eexists. split; [|reflexivity]. cbn [pth]. now rewrite pelems_invalidate.
  Qed.

  Lemma step_opt fuel prev l s b ret r s1 n :
    next_elem fam f a prev l s = (ret, r, s1) -> ret = 3 \/ ret = 7 -> prev <> 0 ->
    pelems (pth s1) = pelems (pth s) ++ [n] ->
    c_ret (nloop (S fuel) fam f a prev l s b) < 0 \/
    exists vo s2, pelems (pth s2) = pelems (pth s) /\
      nloop (S fuel) fam f a prev l s b = nloop fuel fam f a (pcurr s1) r s2 (mkFrame n vo [] :: lb prev b).
  Proof.
    intros NE R P0 PE. unfold nloop. cbn [config_loop]. rewrite NE.
    assert (RP : (ret <=? 0) = false) by (destruct R as [->| ->]; reflexivity). rewrite RP.
    destruct (if negb (Z.land ret PData =? 0) then post_read s1 (valid s1) else Some []) as [vb|];
      [|left; cbn; codes; lia].
    rewrite PE.
    destruct (node_append b _) as [[h1|[]]|] eqn:NA; [|left; cbn; codes; lia..].
    apply na_named_inv in NA; [|exact P0|destruct R; auto]. subst h1.
    assert (SE : negb (Z.land ret PSectEnd =? 0) = true) by (destruct R as [->| ->]; reflexivity). rewrite SE.
    destruct (path_del (pth s1)) as [d p1] eqn:PD.
    destruct (path_del_elems _ _ _ PD) as [[DN _]|(DP & NE1 & PE1)].
    - replace (d <? 0) with true by (symmetry; apply Z.ltb_lt; lia). left. cbn. codes; lia.
    - replace (d <? 0) with false by (symmetry; apply Z.ltb_ge; lia).
      right. eexists _, _. split; [|reflexivity]. cbn [pth]. rewrite PE1, PE. apply removelast_last.
  Qed.

  Lemma step_end fuel prev l s b r s1 :
    next_elem fam f a prev l s = (2, r, s1) -> pelems (pth s1) = pelems (pth s) ->
    c_ret (nloop (S fuel) fam f a prev l s b) < 0 \/
    pelems (pth s) <> [] /\ exists s2, pelems (pth s2) = removelast (pelems (pth s)) /\
      nloop (S fuel) fam f a prev l s b = nloop fuel fam f a (pcurr s1) r s2 (lb prev b).
  Proof.
    intros NE PE. unfold nloop. cbn [config_loop]. rewrite NE.
    change (2 <=? 0) with false. change (negb (Z.land 2 PData =? 0)) with false. cbv iota.
    destruct (node_append b _) as [[h1|[]]|] eqn:NA; [|left; cbn; codes; lia..].
    apply na_end_inv in NA. subst h1.
    change (negb (Z.land 2 PSectEnd =? 0)) with true. cbv iota.
    destruct (path_del (pth s1)) as [d p1] eqn:PD.
    destruct (path_del_elems _ _ _ PD) as [[DN _]|(DP & NE1 & PE1)].
    - replace (d <? 0) with true by (symmetry; apply Z.ltb_lt; lia). left. cbn. codes; lia.
    - replace (d <? 0) with false by (symmetry; apply Z.ltb_ge; lia).
      right. split; [now rewrite <- PE|]. eexists. split; [|reflexivity]. cbn [pth]. now rewrite PE1, PE.
  Qed.

  Lemma step_stop fuel prev l s b ret r s1 :
    next_elem fam f a prev l s = (ret, r, s1) -> ret <= 0 ->
    nloop (S fuel) fam f a prev l s b = mkCres ret r s1 prev b.
  Proof.
    intros NE RN. unfold nloop. cbn [config_loop]. rewrite NE.
    replace (ret <=? 0) with true by (symmetry; apply Z.leb_le; lia). reflexivity.
  Qed.

  (* ---------------------------------------------------------------- enclosed / separated: the invariant *)
  Definition root (R0 : list tree) : frame := mkFrame [] None R0.

  (* in terms of the folded builder [lb prev b]:
     no section yet (options below the root) / inside a section / a section has just ended *)
  Definition INV (prev : Z) (s : pst) (b : builder) : Prop :=
    (pelems (pth s) = [] /\ pk prev /\ exists R0, lb prev b = [root R0] /\ forallb leaf R0 = true) \/
    ((exists x, pelems (pth s) = [x]) /\ pk prev /\ exists nm Rk R0,
        lb prev b = [mkFrame nm None Rk; root R0] /\ forallb leaf Rk = true /\ flatP (rev R0)) \/
    (pelems (pth s) = [] /\ prev = 2 /\ exists R0, lb prev b = [root R0] /\ flatP (rev R0)).

  Lemma INV_flat prev s b : INV prev s b -> flatP (close_all b).
  Proof.
    rewrite <- (close_all_lb prev b).
    intros [(_ & _ & R0 & -> & LV)|[(_ & _ & nm & Rk & R0 & -> & LK & FL)|(_ & _ & R0 & -> & FL)]].
    - unfold root. cbn [close_all close_into fkids]. apply flatP_leaves. now rewrite forallb_rev.
    - unfold root. cbn [close_all close_into close_frame fname fval fkids rev].
      apply flatP_snoc; [exact FL|]. cbn [sect]. now rewrite forallb_rev.
    - exact FL.
  Qed.

  Lemma INV_init : INV PSection pst_init builder_init.
  Proof. left. split; [reflexivity|]. split; [left; reflexivity|]. exists []. split; reflexivity. Qed.

  Hypothesis H_step : forall prev l s, prev = 2 \/ pk prev -> fstep prev s (next_elem fam f a prev l s).

  Lemma flat_loop : forall fuel prev l s b, INV prev s b ->
    c_ret (nloop fuel fam f a prev l s b) < 0 \/ flatP (close_all (c_h (nloop fuel fam f a prev l s b))).
  Proof.
    induction fuel as [|fuel IH]; intros prev l s b I; [left; cbn; codes; lia|].
    pose proof (next_elem_el fam f a prev l s) as EL.
    pose proof (next_elem_cur fam f a prev l s) as CU.
    assert (PV : prev = 2 \/ pk prev) by (destruct I as [(_ & K & _)|[(_ & K & _)|(_ & K & _)]]; auto).
    pose proof (H_step prev l s PV) as ST. clear PV.
    destruct (next_elem fam f a prev l s) as [[ret r] s1] eqn:NE.
    destruct EL as (_ & (_ & E1 & E2) & _). destruct ST as [ST2 STK].
    destruct (Z_le_gt_dec ret 0) as [RN|RP].
    { right. rewrite (step_stop fuel prev l s b ret r s1 NE RN). cbn [c_h]. eapply INV_flat; exact I. }
    assert (RP' : 0 < ret) by lia. specialize (CU RP'). destruct CU as (C1 & C2 & C3 & _).
    destruct I as [(PE & PK & R0 & LB & LV)|[((x & PE) & PK & nm & Rk & R0 & LB & LK & FL)|(PE & P2 & R0 & LB & FL)]].
    - (* no section yet *)
      destruct (STK PK) as [X|[[-> _]|[->|R37]]]; [lia| | |].
      + destruct (E1 (or_introl eq_refl)) as [n En].
        destruct (step_sec fuel prev l s b r s1 n NE (pk_nz _ PK) En) as [NEG|(s2 & Q2 & EQ)]; [left; exact NEG|].
        rewrite EQ. apply IH. right; left. split; [exists n; now rewrite Q2, PE|].
        split; [destruct (C1 eq_refl) as [->| ->]; unfold pk; auto|].
        exists n, [], R0. rewrite (lb_sec _ _ (C1 eq_refl)), LB. split; [reflexivity|]. split; [reflexivity|].
        apply flatP_leaves. now rewrite forallb_rev.
      + destruct (step_end fuel prev l s b r s1 NE (E2 (or_introl eq_refl))) as [NEG|(NN & _)]; [left; exact NEG|].
        now destruct NN.
      + assert (R137 : ret = 1 \/ ret = 3 \/ ret = 7) by tauto. destruct (E1 R137) as [n En].
        destruct (step_opt fuel prev l s b ret r s1 n NE R37 (pk_nz _ PK) En) as [NEG|(vo & s2 & Q2 & EQ)];
          [left; exact NEG|].
        rewrite EQ. apply IH. rewrite (C3 R37). left. split; [now rewrite Q2|]. split; [unfold pk; auto|].
        exists (T n vo [] :: R0). rewrite LB. split; [reflexivity|]. cbn [forallb leaf andb]. exact LV.
    - (* inside a section *)
      destruct (STK PK) as [X|[[_ X]|[->|R37]]]; [lia|rewrite PE in X; discriminate| |].
      + destruct (step_end fuel prev l s b r s1 NE (E2 (or_introl eq_refl))) as [NEG|(_ & s2 & Q2 & EQ)];
          [left; exact NEG|].
        rewrite EQ. apply IH. rewrite (C2 eq_refl). right; right. split; [now rewrite Q2, PE|]. split; [reflexivity|].
        exists (T nm None (rev Rk) :: R0). rewrite LB. split; [reflexivity|]. cbn [rev].
        apply flatP_snoc; [exact FL|]. cbn [sect]. now rewrite forallb_rev.
      + assert (R137 : ret = 1 \/ ret = 3 \/ ret = 7) by tauto. destruct (E1 R137) as [n En].
        destruct (step_opt fuel prev l s b ret r s1 n NE R37 (pk_nz _ PK) En) as [NEG|(vo & s2 & Q2 & EQ)];
          [left; exact NEG|].
        rewrite EQ. apply IH. rewrite (C3 R37). right; left. split; [exists x; now rewrite Q2|].
        split; [unfold pk; auto|].
        exists nm, (T n vo [] :: Rk), R0. rewrite LB. split; [reflexivity|]. split; [|exact FL].
        cbn [forallb leaf andb]. exact LK.
    - (* a section has ended: the next one starts *)
      subst prev. destruct (ST2 eq_refl) as [X| ->]; [lia|].
      destruct (E1 (or_introl eq_refl)) as [n En].
      assert (N0 : 2 <> 0) by discriminate.
      destruct (step_sec fuel 2 l s b r s1 n NE N0 En) as [NEG|(s2 & Q2 & EQ)]; [left; exact NEG|].
      rewrite EQ. apply IH. right; left. split; [exists n; now rewrite Q2, PE|].
      split; [destruct (C1 eq_refl) as [->| ->]; unfold pk; auto|].
      exists n, [], R0. rewrite (lb_sec _ _ (C1 eq_refl)), LB. split; [reflexivity|]. split; [reflexivity|exact FL].
  Qed.
End Steps.

(* ---------------------------------------------------------------- enclosed family, distinct delimiters *)
Section StepsD.
  Variable a : allow.
  Variable fam : family.
  Variable f : format.

  (* a section that was opened stays open (the elements never become empty again) and the end of the
     input is refused there; at top level the root only ever receives leaves *)
  Definition INVD (prev : Z) (s : pst) (b : builder) : Prop :=
    prev <> 0 /\
    (pelems (pth s) <> [] \/
     (pelems (pth s) = [] /\ pk prev /\ exists R0, lb prev b = [root R0] /\ forallb leaf R0 = true)).

  Lemma INVD_init : INVD PSection pst_init builder_init.
  Proof.
    split; [discriminate|]. right. split; [reflexivity|]. split; [left; reflexivity|].
    exists []. split; reflexivity.
  Qed.

  Hypothesis H_dstep : forall prev l s, dstep s (next_elem fam f a prev l s).

  Lemma leaf_loop : forall fuel prev l s b, INVD prev s b ->
    c_ret (nloop fuel fam f a prev l s b) < 0 \/
    forallb leaf (close_all (c_h (nloop fuel fam f a prev l s b))) = true.
  Proof.
    induction fuel as [|fuel IH]; intros prev l s b [P0 I]; [left; cbn; codes; lia|].
    pose proof (next_elem_el fam f a prev l s) as EL.
    pose proof (next_elem_cur fam f a prev l s) as CU.
    pose proof (H_dstep prev l s) as ST.
    destruct (next_elem fam f a prev l s) as [[ret r] s1] eqn:NE.
    destruct EL as (_ & (_ & E1 & _) & _).
    destruct ST as [RN|[->|[R37|[R37|[-> PZ]]]]].
    - left. rewrite (step_stop a fam f fuel prev l s b ret r s1 NE) by lia. cbn [c_ret]. exact RN.
    - (* a section starts: from here on every end is an error *)
      assert (RP : 0 < 1) by lia. destruct (CU RP) as (C1 & _).
      destruct (E1 (or_introl eq_refl)) as [n En].
      destruct (step_sec a fam f fuel prev l s b r s1 n NE P0 En) as [NEG|(s2 & Q2 & EQ)]; [left; exact NEG|].
      rewrite EQ. apply IH. split; [destruct (C1 eq_refl) as [->| ->]; discriminate|].
      left. rewrite Q2. intros X. now destruct (app_cons_not_nil (pelems (pth s)) [] n).
    - assert (R : ret = 3 \/ ret = 7) by auto. clear R37.
      assert (RP : 0 < ret) by lia. destruct (CU RP) as (_ & _ & C3 & _).
      assert (R137 : ret = 1 \/ ret = 3 \/ ret = 7) by tauto. destruct (E1 R137) as [n En].
      destruct (step_opt a fam f fuel prev l s b ret r s1 n NE R P0 En) as [NEG|(vo & s2 & Q2 & EQ)]; [left; exact NEG|].
      rewrite EQ. apply IH. rewrite (C3 R). split; [discriminate|].
      destruct I as [I|(PE & PK & R0 & LB & LV)]; [left; now rewrite Q2|].
      right. split; [now rewrite Q2|]. split; [unfold pk; auto|].
      exists (T n vo [] :: R0). rewrite LB. split; [reflexivity|]. cbn [forallb leaf andb]. exact LV.
    - assert (R : ret = 3 \/ ret = 7) by auto. clear R37.
      assert (RP : 0 < ret) by lia. destruct (CU RP) as (_ & _ & C3 & _).
      assert (R137 : ret = 1 \/ ret = 3 \/ ret = 7) by tauto. destruct (E1 R137) as [n En].
      destruct (step_opt a fam f fuel prev l s b ret r s1 n NE R P0 En) as [NEG|(vo & s2 & Q2 & EQ)]; [left; exact NEG|].
      rewrite EQ. apply IH. rewrite (C3 R). split; [discriminate|].
      destruct I as [I|(PE & PK & R0 & LB & LV)]; [left; now rewrite Q2|].
      right. split; [now rewrite Q2|]. split; [unfold pk; auto|].
      exists (T n vo [] :: R0). rewrite LB. split; [reflexivity|]. cbn [forallb leaf andb]. exact LV.
    - (* the end of the input is accepted: no section was ever opened *)
      right. rewrite (step_stop a fam f fuel prev l s b 0 r s1 NE) by lia. cbn [c_h].
      destruct I as [I|(_ & _ & R0 & LB & LV)]; [now destruct I|].
      rewrite <- (close_all_lb prev b), LB. unfold root. cbn [close_all close_into fkids]. now rewrite forallb_rev.
  Qed.
End StepsD.

(* ---------------------------------------------------------------- the theorems *)
Lemma parse_tree_enc a text :
  snd (parse_tree StEnc a text) =
  map norm_tree (let c := nloop (config_fuel text) FamEnc fe a PSection text pst_init builder_init in
                 if c_ret c <? 0 then [] else close_all (c_h c)).
Proof.
  unfold parse_tree, parse_node. cbn [snd]. change (parse_format (style_fmt StEnc)) with (fe, 120).
  cbv iota beta. change (next_fcn 120) with (Some FamEnc). cbv iota beta zeta. unfold nloop.
  destruct (c_ret _ <? 0); reflexivity.
Qed.
Lemma parse_tree_sep a text :
  snd (parse_tree StSep a text) =
  map norm_tree (let c := nloop (config_fuel text) FamSep fs a PSection text pst_init builder_init in
                 if c_ret c <? 0 then [] else close_all (c_h c)).
Proof.
  unfold parse_tree, parse_node. cbn [snd]. change (parse_format (style_fmt StSep)) with (fs, 32).
  cbv iota beta. change (next_fcn 32) with (Some FamSep). cbv iota beta zeta. unfold nloop.
  destruct (c_ret _ <? 0); reflexivity.
Qed.
Lemma parse_tree_encd a text :
  snd (parse_tree StEncD a text) =
  map norm_tree (let c := nloop (config_fuel text) FamEnc fed a PSection text pst_init builder_init in
                 if c_ret c <? 0 then [] else close_all (c_h c)).
Proof.
  unfold parse_tree, parse_node. cbn [snd]. change (parse_format (style_fmt StEncD)) with (fed, 120).
  cbv iota beta. change (next_fcn 120) with (Some FamEnc). cbv iota beta zeta. unfold nloop.
  destruct (c_ret _ <? 0); reflexivity.
Qed.

(* enclosed style "%x% = #": for every text, the forest is options, then sections of options *)
Theorem enc_flat : forall a text, flag (aopt a) NFEmpty = false ->
  flat_forest (snd (parse_tree StEnc a text)) = true.
Proof.
  intros a text F. rewrite parse_tree_enc. cbv zeta.
  assert (ST : forall prev l s, prev = 2 \/ pk prev -> fstep prev s (next_elem FamEnc fe a prev l s)).
  { intros prev l s _. cbn [next_elem]. now apply format_enc_fstep. }
  pose proof (flat_loop a FamEnc fe ST (config_fuel text) PSection text pst_init builder_init (INV_init)) as H.
  destruct (c_ret _ <? 0) eqn:E; [reflexivity|]. apply Z.ltb_ge in E.
  destruct H as [N|FP]; [lia|]. now apply flatP_flat, flatP_norm.
Qed.

(* separated style "[ ] = #" *)
Theorem sep_flat : forall a text, flag (aopt a) NFEmpty = false ->
  flat_forest (snd (parse_tree StSep a text)) = true.
Proof.
  intros a text F. rewrite parse_tree_sep. cbv zeta.
  assert (ST : forall prev l s, prev = 2 \/ pk prev -> fstep prev s (next_elem FamSep fs a prev l s)).
  { intros prev l s PV. cbn [next_elem]. now apply format_sep_fstep. }
  pose proof (flat_loop a FamSep fs ST (config_fuel text) PSection text pst_init builder_init (INV_init)) as H.
  destruct (c_ret _ <? 0) eqn:E; [reflexivity|]. apply Z.ltb_ge in E.
  destruct H as [N|FP]; [lia|]. now apply flatP_flat, flatP_norm.
Qed.

(* enclosed family with distinct delimiters "[x] = #": a section can never be closed, the end of
   the input inside a section is an error *)
Theorem encd_leaves : forall a text, flag (aopt a) NFEmpty = false ->
  forallb leaf (snd (parse_tree StEncD a text)) = true.
Proof.
  intros a text F. rewrite parse_tree_encd. cbv zeta.
  assert (ST : forall prev l s, dstep s (next_elem FamEnc fed a prev l s)).
  { intros prev l s. cbn [next_elem]. apply format_encd_dstep; [discriminate|exact F]. }
  pose proof (leaf_loop a FamEnc fed ST (config_fuel text) PSection text pst_init builder_init (INVD_init)) as H.
  destruct (c_ret _ <? 0) eqn:E; [reflexivity|]. apply Z.ltb_ge in E.
  destruct H as [N|FP]; [lia|]. now rewrite leaves_norm.
Qed.

(* no text at all gives a forest of another shape *)
Corollary enc_inexpressible : forall a text ts, flag (aopt a) NFEmpty = false ->
  flat_forest ts = false -> snd (parse_tree StEnc a text) <> ts.
Proof. intros a text ts F H E. rewrite <- E, enc_flat in H; [discriminate|exact F]. Qed.
Corollary sep_inexpressible : forall a text ts, flag (aopt a) NFEmpty = false ->
  flat_forest ts = false -> snd (parse_tree StSep a text) <> ts.
Proof. intros a text ts F H E. rewrite <- E, sep_flat in H; [discriminate|exact F]. Qed.
Corollary encd_inexpressible : forall a text ts, flag (aopt a) NFEmpty = false ->
  forallb leaf ts = false -> snd (parse_tree StEncD a text) <> ts.
Proof. intros a text ts F H E. rewrite <- E, encd_leaves in H; [discriminate|exact F]. Qed.

(* ---------------------------------------------------------------- examples *)
(* all name flags but Empty; both variants of mpt_parse_option *)
Definition allow_named : allow := mkAllow 255 239 false.
Definition allow_named_raw : allow := mkAllow 255 239 true.
Example allow_named_flag : flag (aopt allow_named) NFEmpty = false /\ flag (aopt allow_named_raw) NFEmpty = false.
Proof. split; reflexivity. Qed.
Example allow_init_flag : flag (aopt allow_init) NFEmpty = true.
Proof. reflexivity. Qed.

(* the theorems are not vacuous: an option and two sections.
   separated:  a = 1 / [s] / b = 2 / [t] / c = 3 *)
Definition text_sep2 : list Z :=
  [97;32;61;32;49;10; 91;115;93;10; 98;32;61;32;50;10; 91;116;93;10; 99;32;61;32;51;10].
Example sep_two_sections :
  parse_tree StSep allow_named text_sep2 =
    (0, [T [97] (Some [49]) []; T [115] None [T [98] (Some [50]) []]; T [116] None [T [99] (Some [51]) []]]) /\
  flat_forest (snd (parse_tree StSep allow_named text_sep2)) = true /\
  flat_forest (snd (parse_tree StSep allow_named_raw text_sep2)) = true.
Proof. vm_compute. repeat split. Qed.

(* enclosed:  a = 1 / %s / b = 2 / %t / c = 3 *)
Definition text_enc2 : list Z :=
  [97;32;61;32;49;10; 37;115;10; 98;32;61;32;50;10; 37;116;10; 99;32;61;32;51;10].
Example enc_two_sections :
  parse_tree StEnc allow_named text_enc2 =
    (0, [T [97] (Some [49]) []; T [115] None [T [98] (Some [50]) []]; T [116] None [T [99] (Some [51]) []]]) /\
  flat_forest (snd (parse_tree StEnc allow_named text_enc2)) = true /\
  flat_forest (snd (parse_tree StEnc allow_named_raw text_enc2)) = true.
Proof. vm_compute. repeat split. Qed.

(* distinct delimiters:  a = 1 / b = 2  is accepted;  a = 1 / [s] / b = 2  is refused (MissingData) *)
Example encd_two_options :
  parse_tree StEncD allow_named [97;32;61;32;49;10; 98;32;61;32;50;10] =
    (0, [T [97] (Some [49]) []; T [98] (Some [50]) []]) /\
  forallb leaf (snd (parse_tree StEncD allow_named [97;32;61;32;49;10; 98;32;61;32;50;10])) = true.
Proof. vm_compute. split; reflexivity. Qed.
Example encd_section_refused :
  parse_tree StEncD allow_named [97;32;61;32;49;10; 91;115;93;10; 98;32;61;32;50;10] = (MissingData, []).
Proof. vm_compute. reflexivity. Qed.

(* the hypothesis is needed: with the Empty flag (allow_init: all flags) a line without a name is
   a data-only element and the following option becomes its child.
   separated:  [s] / abc / b = 1 *)
Definition text_sep_bad : list Z := [91;115;93;10; 97;98;99;10; 98;32;61;32;49;10].
Example sep_empty_name_nests :
  parse_tree StSep allow_init text_sep_bad =
    (0, [T [115] None [T [] (Some [97;98;99]) [T [98] (Some [49]) []]]]) /\
  flat_forest (snd (parse_tree StSep allow_init text_sep_bad)) = false.
Proof. vm_compute. split; reflexivity. Qed.
(* without the flag the same text is refused (BadType) *)
Example sep_empty_name_refused : parse_tree StSep allow_named text_sep_bad = (BadType, []).
Proof. vm_compute. reflexivity. Qed.

(* enclosed:  %s / abc / b = 1 *)
Definition text_enc_bad : list Z := [37;115;10; 97;98;99;10; 98;32;61;32;49;10].
Example enc_empty_name_nests :
  parse_tree StEnc allow_init text_enc_bad =
    (0, [T [115] None [T [] (Some [97;98;99]) [T [98] (Some [49]) []]]]) /\
  flat_forest (snd (parse_tree StEnc allow_init text_enc_bad)) = false.
Proof. vm_compute. split; reflexivity. Qed.
Example enc_empty_name_refused : parse_tree StEnc allow_named text_enc_bad = (BadType, []).
Proof. vm_compute. reflexivity. Qed.

(* distinct delimiters:  abc / b = 1  gives a node that is no leaf *)
Definition text_encd_bad : list Z := [97;98;99;10; 98;32;61;32;49;10].
Example encd_empty_name_nests :
  parse_tree StEncD allow_init text_encd_bad = (0, [T [] (Some [97;98;99]) [T [98] (Some [49]) []]]) /\
  forallb leaf (snd (parse_tree StEncD allow_init text_encd_bad)) = false.
Proof. vm_compute. split; reflexivity. Qed.
Example encd_empty_name_refused : parse_tree StEncD allow_named text_encd_bad = (BadType, []).
Proof. vm_compute. reflexivity. Qed.

Print Assumptions enc_flat.
Print Assumptions sep_flat.
Print Assumptions encd_leaves.
