(* C08/RoundWitness.v — C09: witnesses for what the enclosed / separated styles cannot carry and
   for the defect of docs/C09_option_name_blank.diff (closed computations on the model). *)
From Coq Require Import List ZArith Bool.
From MptV Require Import C08.ParseModel C08.PrintModel.
Import ListNotations.
Local Open Scope Z_scope.

Definition a_asis : allow := allow_init.                       (* mpt_parse_option as it is *)
Definition a_patched : allow := allow_variant allow_init true.   (* with docs/C09_option_name_blank.diff *)

(* the option  a b = 1 : well formed for the patched variant, read back as "ab" by the code as it is *)
Definition w_blank : list item := [Opt [97; 32; 98] [49]].
Lemma option_name_blank_asis :
  forall st, st = StEnc \/ st = StSep \/ st = StEncD ->
    wf_items st a_patched w_blank = true /\
    parse_tree st a_patched (print st [] w_blank) = (0, abs_items w_blank) /\
    parse_tree st a_asis (print st [] w_blank) = (0, [T [97; 98] (Some [49]) []]).
Proof. intros st [->|[->| ->]]; vm_compute; repeat split; reflexivity. Qed.

Lemma option_name_blank_refuted :
  exists st items deco,
    wf_items st a_patched items = true /\
    parse_tree st a_asis (print st deco items) <> (0, abs_items items).
Proof. exists StSep, w_blank, []. split; [reflexivity|]. vm_compute. discriminate. Qed.

(* a newline and a comment in that place are swallowed as well: the two lines  a #c  /  b = 1  give the option "ab";
   the patched code refuses the first line (a name without value; name flags without "empty") *)
Lemma option_name_newline_asis :
  parse_tree StSep (mkAllow 255 239 false) [97; 32; 35; 99; 10; 98; 32; 61; 32; 49; 10] = (0, [T [97; 98] (Some [49]) []]) /\
  parse_tree StSep (mkAllow 255 239 true) [97; 32; 35; 99; 10; 98; 32; 61; 32; 49; 10] = (BadType, []).
Proof. vm_compute. split; reflexivity. Qed.

(* section names of the enclosed style end at the first white space: "%a b" is the section "a" and the
   rest of the name joins the next line *)
Definition w_encsec : list item := [Sec [97; 32; 98] [Opt [107] [49]]].
Lemma enc_section_blank :
  parse_tree StEnc a_patched (print StEnc [] w_encsec) = (0, [T [97] None [T [98; 32; 107] (Some [49]) []]]) /\
  parse_tree StEnc a_asis (print StEnc [] w_encsec) = (0, [T [97] None [T [98; 107] (Some [49]) []]]) /\
  forall a, a = a_asis \/ a = a_patched -> parse_tree StEnc a (print StEnc [] w_encsec) <> (0, abs_items w_encsec).
Proof. split; [vm_compute; reflexivity|]. split; [vm_compute; reflexivity|]. intros a [->| ->]; vm_compute; discriminate. Qed.
(* the separated style reads the same name back *)
Lemma sep_section_blank :
  forall a, a = a_asis \/ a = a_patched ->
    wf_items StSep a w_encsec = true /\ parse_tree StSep a (print StSep [] w_encsec) = (0, abs_items w_encsec).
Proof. intros a [->| ->]; vm_compute; split; reflexivity. Qed.

(* nesting: the inner section start ends the outer section *)
Definition w_nested : list item := [Sec [97] [Sec [98] [Opt [107] [49]]]].
Lemma nested_flattened :
  forall st, st = StEnc \/ st = StSep ->
    parse_tree st a_patched (print st [] w_nested) = (0, [T [97] None []; T [98] None [T [107] (Some [49]) []]]) /\
    parse_tree StPre a_patched (print StPre [] w_nested) = (0, abs_items w_nested).
Proof. intros st [->| ->]; vm_compute; split; reflexivity. Qed.

(* an option behind a section belongs to that section *)
Definition w_after : list item := [Sec [97] []; Opt [107] [49]].
Lemma option_after_section :
  forall st, st = StEnc \/ st = StSep ->
    parse_tree st a_patched (print st [] w_after) = (0, [T [97] None [T [107] (Some [49]) []]]) /\
    parse_tree StPre a_patched (print StPre [] w_after) = (0, abs_items w_after).
Proof. intros st [->| ->]; vm_compute; split; reflexivity. Qed.

(* what the refined alphabets admit: delimiter and assign characters where the code reads them back, white space inside names *)
Definition w_rich_sep : list item :=
  [Opt [97; 91; 93; 98] [49]; Opt [97; 98; 9; 99; 32; 100] [50];
   Sec [91; 97; 61; 98; 32; 32; 99] [Opt [120; 121; 32; 122] [51]]].
Lemma rich_names_sep :
  wf_items StSep a_asis w_rich_sep = true /\
  parse_tree StSep a_asis (print StSep [] w_rich_sep) = (0, abs_items w_rich_sep).
Proof. vm_compute. split; reflexivity. Qed.
Definition w_rich_enc : list item :=
  [Opt [97; 37; 98] [49]; Opt [97; 98; 9; 99; 32; 100] [50];
   Sec [37; 97; 61; 98] [Opt [120; 121; 32; 122] [51]]].
Lemma rich_names_enc :
  wf_items StEnc a_asis w_rich_enc = true /\
  parse_tree StEnc a_asis (print StEnc [] w_rich_enc) = (0, abs_items w_rich_enc).
Proof. vm_compute. split; reflexivity. Qed.
