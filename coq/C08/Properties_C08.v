(* C08 — Configuration parser is total and fails cleanly.
   Only theorem statements (closed by [exact] of lemmas proved in ParseProofs.v /
   ParseConfig.v), non-vacuity examples and Print Assumptions.

   Reading guide.  The input is a [list Z] behind a getc that hands out every
   element once and then -2 (an element <= 0 is a NUL byte or a read error code).
   [parse_events fam f a l] is mpt_parse_config for the family [fam] ('*' FamPre,
   'x' FamEnc, ' ' FamSep, '_' FamOpt), ANY format record [f] (delimiters, comment
   and escape characters, zero = unset), ANY name flags [a], with a path handler
   that records the events; [parse_node target fmt a l] is mpt_parse_node with ANY
   format string.  [c_rest] is the input not yet read, [calls] the number of getc
   callbacks, [c_h] the events.  ROutOfFuel / RFault are model-only codes: loop
   fuel exhausted / read outside the post data; the theorems exclude both. *)
From Coq Require Import List ZArith.
From MptV Require Import C08.ParseModel C08.ParseSpec C08.ParseBase C08.ParseProofs C08.ParseConfig C08.ParseLinks.
Import ListNotations.
Local Open Scope Z_scope.

(* The parser returns for every byte string, family, format and flag set (the outer loop
   fuel always suffices; all inner loops are structural recursions on the input), and what
   it read is a prefix of the input: every character is taken at most once. *)
Theorem C08_parse_total :
  forall fam f a l,
    let c := parse_events fam f a l in
    c_ret c <> ROutOfFuel /\ exists consumed, consumed ++ c_rest c = l.
Proof. exact parse_events_total. Qed.

Theorem C08_parse_node_total :
  forall target fmt a l,
    let n := parse_node target fmt a l in
    n_ret n <> ROutOfFuel /\ exists consumed, consumed ++ n_rest n = l.
Proof. exact parse_node_total. Qed.

(* getc callbacks: one per character read plus at most one end-of-input report per element call *)
Theorem C08_getc_count_le_length :
  forall fam f a l,
    let c := parse_events fam f a l in
    calls (c_st c) <= (len l - len (c_rest c)) + nev (c_h c) + 1.
Proof. exact parse_events_calls. Qed.

(* A failed mpt_parse_node leaves the target tree identical. *)
Theorem C08_fail_leaves_target :
  forall target fmt a l,
    n_ret (parse_node target fmt a l) < 0 -> n_tree (parse_node target fmt a l) = target.
Proof. exact parse_node_fail_leaves. Qed.

(* On success the events are well nested: every section end closes an open section, an
   option is reported inside the section that is open, and the path the handler sees is
   exactly the stack of open section names (plus the option name). *)
Theorem C08_events_well_nested :
  forall fam f a l,
    let c := parse_events fam f a l in
    0 <= c_ret c -> nested [] (c_h c) = true.
Proof. exact parse_events_nested. Qed.

(* the same in the pure grammar view Section | SectEnd | Option | Data: the depth never drops below zero *)
Theorem C08_events_depth :
  forall fam f a l,
    let c := parse_events fam f a l in
    0 <= c_ret c -> depth_ok 0 (abs_events (c_h c)) = true.
Proof. exact parse_events_depth. Qed.

(* No read outside the post data of the path: name checks and values handed to the
   handler lie inside the bytes collected (model-level statement of "no invalid access"). *)
Theorem C08_no_fault :
  forall fam f a l, c_ret (parse_events fam f a l) <> RFault.
Proof. exact parse_events_no_fault. Qed.

(* the same for mpt_parse_node; in addition mpt_node_append never has to link a sibling to the
   temporary root (the current operation an element call notes matches its return code, so the
   cursor is always at least as deep as the open sections) *)
Theorem C08_parse_node_no_fault :
  forall target fmt a l, n_ret (parse_node target fmt a l) <> RFault.
Proof. exact parse_node_no_fault. Qed.

(* one element call, any state satisfying the invariant: consumption, effect on the path
   elements by return code, invariant kept *)
Theorem C08_element_call :
  forall fam f a prev l s, el l s (next_elem fam f a prev l s).
Proof. exact next_elem_el. Qed.

(* ---- the element functions in a loop of the CALLER on its own path (the loop of mpt_parse_config written out, as
   examples/core/parse.c does it, the program behind the five parse_* ctest cases): [bin] = the path carries
   MPT_PATHFLAG(SepBinary) — mpt_path_add then refuses elements above 255 bytes instead of elements holding the
   separator and takes two bytes behind the element for the length bytes.  For both settings: the loop returns,
   reads every character at most once, calls getc once per character plus once per element call at most, never
   reads outside the post data, and on success the handler has seen a well-nested event sequence. *)
Theorem C08_caller_loop_total :
  forall bin fam f a l,
    let c := parse_events_b bin fam f a l in
    c_ret c <> ROutOfFuel /\ exists consumed, consumed ++ c_rest c = l.
Proof. exact parse_events_b_total. Qed.

Theorem C08_caller_loop_clean :
  forall bin fam f a l,
    let c := parse_events_b bin fam f a l in
    c_ret c <> RFault /\ (0 <= c_ret c -> nested [] (c_h c) = true) /\
    calls (c_st c) <= (len l - len (c_rest c)) + nev (c_h c) + 1.
Proof. exact parse_events_b_all. Qed.

Theorem C08_caller_loop_depth :
  forall bin fam f a l,
    let c := parse_events_b bin fam f a l in 0 <= c_ret c -> depth_ok 0 (abs_events (c_h c)) = true.
Proof. exact parse_events_b_depth. Qed.

(* without the flag the caller loop is mpt_parse_config itself *)
Theorem C08_caller_loop_plain :
  forall fam f a l, parse_events_b false fam f a l = parse_events fam f a l.
Proof. exact parse_events_b_false. Qed.

(* an element mpt_path_add accepts in the binary format fits its length byte; `first` is that length *)
Theorem C08_binary_add_fits :
  forall p n p',
    pinv2 p -> pbin p = true -> path_add p n = (0, p') ->
    n <= 255 /\ pbin p' = true /\ pelems p' = pelems p ++ [firstn (Z.to_nat n) (ppost p)] /\
    len (firstn (Z.to_nat n) (ppost p)) = n /\ (pelems p = [] -> pfirst p' = n).
Proof. exact path_add_bin. Qed.

(* ---- non-vacuity ---- *)
Definition txt1 : list Z :=   (* a {\n b = "x y"\n c {\n }\n}\nd=1\n *)
  [97;32;123;10;32;98;32;61;32;34;120;32;121;34;10;32;99;32;123;10;32;125;10;125;10;100;61;49;10].

Example C08_ex_events :
  map (fun e => (ev_ret e, ev_path e, ev_val e)) (c_h (parse_events FamPre fmt_default allow_init txt1)) =
  [(1, [[97]], None); (7, [[97]; [98]], Some [120;32;121]); (1, [[97]; [99]], None); (2, [[97]; [99]], None);
   (2, [[97]], None); (7, [[100]], Some [49])]
  /\ c_ret (parse_events FamPre fmt_default allow_init txt1) = 0.
Proof. vm_compute. split; reflexivity. Qed.

Example C08_ex_tree :
  n_tree (parse_node [] None allow_init txt1) =
  [T [97] None [T [98] (Some [120;32;121]) []; T [99] None []]; T [100] (Some [49]) []].
Proof. vm_compute. reflexivity. Qed.

(* a section end without open section: error, and the non-empty target is untouched *)
Example C08_ex_fail :
  let n := parse_node [T [107] (Some [49]) []] None allow_init [97;61;49;10;125;10] in
  n_ret n = MissingData /\ n_tree n = [T [107] (Some [49]) []].
Proof. vm_compute. split; reflexivity. Qed.

(* an unterminated quote swallows the rest and the open section is reported as missing data *)
Example C08_ex_unterminated :
  c_ret (parse_events FamPre fmt_default allow_init [97;123;98;61;34;120;10;125;10]) = MissingData.
Proof. vm_compute. reflexivity. Qed.

(* the other families *)
Example C08_ex_sep :
  map ev_ret (c_h (parse_events FamSep (fst (parse_format (Some [91;32;93;32;61;32;35]))) allow_init
                                [91;97;93;10;107;61;49;10;91;98;93;10])) = [1; 7; 2; 1].
Proof. vm_compute. reflexivity. Qed.
Example C08_ex_enc :
  map ev_ret (c_h (parse_events FamEnc (fst (parse_format (Some [37;120;37;32;61;32;35]))) allow_init
                                [37;97;10;107;107;61;49;10;37;98;10])) = [1; 7; 2; 1].
Proof. vm_compute. reflexivity. Qed.

(* the binary format carries a name with the separator character, the separator format refuses it (a.b { c = 1 }) *)
Example C08_ex_binary_dot :
  let t := [97;46;98;32;123;10;99;61;49;10;125;10] in
  map (fun e => (ev_ret e, ev_path e, ev_first e)) (c_h (parse_events_b true FamPre fmt_default allow_init t)) =
    [(1, [[97;46;98]], 3); (7, [[97;46;98]; [99]], 3); (2, [[97;46;98]], 3)]
  /\ c_ret (parse_events_b true FamPre fmt_default allow_init t) = 0
  /\ c_ret (parse_events_b false FamPre fmt_default allow_init t) = BadOperation.
Proof. vm_compute. repeat split; reflexivity. Qed.
(* a name of 256 bytes: refused by the binary format, read by the separator format *)
Example C08_ex_binary_256 :
  let t := repeat 97 256 ++ [61;49;10] in
  c_ret (parse_events_b true FamPre fmt_default allow_init t) = BadOperation
  /\ map ev_ret (c_h (parse_events_b false FamPre fmt_default allow_init t)) = [7].
Proof. vm_compute. split; reflexivity. Qed.

Print Assumptions C08_parse_total.
Print Assumptions C08_parse_node_total.
Print Assumptions C08_getc_count_le_length.
Print Assumptions C08_fail_leaves_target.
Print Assumptions C08_events_well_nested.
Print Assumptions C08_events_depth.
Print Assumptions C08_no_fault.
Print Assumptions C08_parse_node_no_fault.
Print Assumptions C08_element_call.
Print Assumptions C08_caller_loop_total.
Print Assumptions C08_caller_loop_clean.
Print Assumptions C08_caller_loop_depth.
Print Assumptions C08_caller_loop_plain.
Print Assumptions C08_binary_add_fits.
