(* C08 property theorems (under construction). *)
From MptV Require Import C08.ParseModel C08.ParseSpec.
From Coq Require Import List ZArith.
Import ListNotations.
Local Open Scope Z_scope.
Example C08_example_runs : c_ret (parse_events FamPre fmt_default allow_init [97; 32; 123; 10; 125; 10]) = 0.
Proof. vm_compute. reflexivity. Qed.
