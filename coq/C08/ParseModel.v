(* C08/ParseModel.v — executable mechanism model of the configuration parser
   (mptcore/parse/*.c, mptcore/config/path_{addchar,add,del,valid}.c,
   parse/node_append.c, parse/parse_node.c with node/node_move.c).
   NO proofs in this file; it is extracted and run against the C code.

   Conventions
   * characters and all C ints are [Z]; the input is a [list Z] behind a [getc]
     that hands out every element once and then -2 for ever (an element <= 0 in
     the list is a NUL byte (0) or a read error code (< 0) returned by getc);
   * the loops that read input are structural recursions on the remaining input,
     so every character is taken at most once by construction of the recursion;
     only the outer mpt_parse_config loop runs on explicit fuel ([ROutOfFuel]);
   * [path] is abstracted to (elements, post bytes, first : 8 bit, KeepPost,
     buffer present, SepBinary); separator '.' / assign 0 as MPT_PATH_INIT; without
     SepBinary element bytes can never contain '.', mpt_path_add refuses that; with
     SepBinary (a path of the caller, examples/core/parse.c) it refuses elements above
     255 bytes instead; the length bytes of that format are below the abstraction;
   * reads of the post area beyond its end give [RFault];
   * allocation failures are not modelled. *)
From Coq Require Import List ZArith Bool.
Import ListNotations.
Local Open Scope Z_scope.

(* ---------------------------------------------------------------- codes *)
Definition BadArgument : Z := -1.
Definition BadValue : Z := -2.
Definition BadType : Z := -3.
Definition BadOperation : Z := -4.
Definition MissingData : Z := -16.
Definition MissingBuffer : Z := -17.
Definition SaveFailed : Z := -128.      (* parse_config: ret = -0x80 *)
Definition RFault : Z := -9999.         (* model only: access outside the post data / unreachable link state *)
Definition ROutOfFuel : Z := -9998.     (* model only: config loop fuel exhausted *)

Definition PSection : Z := 1.
Definition PSectEnd : Z := 2.
Definition POption : Z := 3.
Definition PData : Z := 4.
Definition PName : Z := 8.

(* ---------------------------------------------------------------- ctype, "C" locale *)
Definition isspace (c : Z) : bool := ((9 <=? c) && (c <=? 13)) || (c =? 32).
Definition isdigit (c : Z) : bool := (48 <=? c) && (c <=? 57).
Definition isprint (c : Z) : bool := (32 <=? c) && (c <=? 126).
Definition isupper (c : Z) : bool := (65 <=? c) && (c <=? 90).
Definition islower (c : Z) : bool := (97 <=? c) && (c <=? 122).
Definition isalnum (c : Z) : bool := isdigit c || isupper c || islower c.
Definition tolower (c : Z) : Z := if isupper c then c + 32 else c.

(* ---------------------------------------------------------------- format *)
Record format := mkFmt {
  sstart : Z; send : Z; ostart : Z; assign : Z; oend : Z;
  esc0 : Z; esc1 : Z; esc2 : Z;
  com0 : Z; com1 : Z; com2 : Z; com3 : Z }.

(* MPT_PARSER_FORMAT_INIT: open brace, close brace, 0, equal sign, 0, escapes double and single quote, comment hash *)
Definition fmt_default : format := mkFmt 123 125 0 61 0 34 39 0 35 0 0 0.

Definition iscomment (f : format) (c : Z) : bool :=
  negb (c =? 0) && ((c =? com0 f) || (c =? com1 f) || (c =? com2 f) || (c =? com3 f)).
Definition isescape (f : format) (c : Z) : bool :=
  negb (c =? 0) && ((c =? esc0 f) || (c =? esc1 f) || (c =? esc2 f)).

Definition sp0 (c : Z) : Z := if isspace c then 0 else c.

Fixpoint take_nosp (n : nat) (s : list Z) : list Z * list Z :=
  match n, s with
  | S k, c :: r => if isspace c then ([], s) else let (a, b) := take_nosp k r in (c :: a, b)
  | _, _ => ([], s)
  end.
Fixpoint skip_sp (s : list Z) : list Z :=
  match s with c :: r => if isspace c then skip_sp r else s | [] => [] end.

(* mpt_parse_format; [None] = NULL pointer, [Some s] = the bytes before the NUL *)
Definition parse_format (str : option (list Z)) : format * Z :=
  let d := fmt_default in
  match str with
  | None => (d, 42)
  | Some [] => (d, 42)
  | Some (c0 :: s1) =>
    let f0 := mkFmt (sp0 c0) (send d) (ostart d) (assign d) (oend d) (esc0 d) (esc1 d) (esc2 d) (com0 d) (com1 d) (com2 d) (com3 d) in
    match s1 with
    | [] => (f0, 42)
    | ret :: s2 =>
      match s2 with
      | [] => (f0, ret)
      | c2 :: s3 =>
        let f2 := mkFmt (sstart f0) (sp0 c2) (ostart d) (assign d) (oend d) (esc0 d) (esc1 d) (esc2 d) (com0 d) (com1 d) (com2 d) (com3 d) in
        match s3 with
        | [] => (f2, ret)
        | c3 :: s4 =>
          let f3 := mkFmt (sstart f2) (send f2) (sp0 c3) (assign d) (oend d) (esc0 d) (esc1 d) (esc2 d) (com0 d) (com1 d) (com2 d) (com3 d) in
          match s4 with
          | [] => (f3, ret)
          | c4 :: s5 =>
            let f4 := mkFmt (sstart f3) (send f3) (ostart f3) (sp0 c4) (oend d) (esc0 d) (esc1 d) (esc2 d) (com0 d) (com1 d) (com2 d) (com3 d) in
            match s5 with
            | [] => (f4, ret)
            | c5 :: s6 =>
              let f5 := mkFmt (sstart f4) (send f4) (ostart f4) (assign f4) (sp0 c5) (esc0 d) (esc1 d) (esc2 d) (com0 d) (com1 d) (com2 d) (com3 d) in
              match s6 with
              | [] => (f5, ret)
              | _ =>
                let (cm, r1) := take_nosp 4 s6 in
                let f6 := mkFmt (sstart f5) (send f5) (ostart f5) (assign f5) (oend f5) (esc0 d) (esc1 d) (esc2 d)
                                (nth 0 cm 0) (nth 1 cm 0) (nth 2 cm 0) (nth 3 cm 0) in
                match skip_sp r1 with
                | [] => (f6, ret)
                | r2 =>
                  let (es, _) := take_nosp 3 r2 in
                  (mkFmt (sstart f6) (send f6) (ostart f6) (assign f6) (oend f6) (nth 0 es 0) (nth 1 es 0) (nth 2 es 0)
                         (com0 f6) (com1 f6) (com2 f6) (com3 f6), ret)
                end
              end
            end
          end
        end
      end
    end
  end.

(* the four families *)
Inductive family := FamPre | FamEnc | FamSep | FamOpt.
Definition next_fcn (code : Z) : option family :=
  if code =? 95 then Some FamOpt else if code =? 120 then Some FamEnc
  else if code =? 32 then Some FamSep else if code =? 42 then Some FamPre else None.

(* ---------------------------------------------------------------- name flags *)
Definition NFNumStart := 0%N. Definition NFNumCont := 1%N. Definition NFSpecial := 2%N.
Definition NFSpace := 3%N. Definition NFEmpty := 4%N. Definition NFBinary := 5%N.
Definition flag (take : Z) (bit : N) : bool := Z.testbit take (Z.of_N bit).

(* [araw] is not a name flag: it selects the variant of mpt_parse_option.  false = an option name
   the caller has started (enclosed / separated family, first character stored and valid) is
   continued with the next VISIBLE character (mpt_parse_nextvis: white space, newlines and comments
   behind the first name character are dropped); true = it is continued with the next character as
   it comes (mpt_parse_getchar), the code with docs/C09_option_name_blank.diff.  Every theorem is
   stated for all [allow] values, that is for both variants. *)
Record allow := mkAllow { asect : Z; aopt : Z; araw : bool }.
Definition allow_init := mkAllow 255 255 false.
Definition allow_variant (a : allow) (raw : bool) : allow := mkAllow (asect a) (aopt a) raw.

Definition accept_type (c : Z) : option Z :=
  let t := tolower c in
  if t =? 102 then Some 1 else if t =? 99 then Some 2 else if t =? 110 then Some 3
  else if t =? 115 then Some 4 else if t =? 119 then Some 8 else if t =? 101 then Some 16
  else if t =? 98 then Some 32 else None.

Fixpoint accept_go (s : list Z) (sect opt n : Z) : option (Z * Z * Z) :=
  match s with
  | [] => Some (sect, opt, n)
  | c :: r =>
    if isspace c then Some (sect, opt, n) else
    match accept_type c with
    | None => None
    | Some t => if isupper c then accept_go r (Z.lor sect t) opt (n + 1)
                else accept_go r sect (Z.lor opt t) (n + 1)
    end
  end.

(* mpt_parse_accept: returns (return value, flags) *)
Definition parse_accept (old : allow) (name : option (list Z)) : Z * allow :=
  match name with
  | None => (0, mkAllow 255 255 (araw old))
  | Some [] => (0, mkAllow 2 2 (araw old))
  | Some s => match accept_go s 0 0 0 with
              | None => (-2, old)
              | Some (se, op, n) => (n, mkAllow se op (araw old))
              end
  end.

(* mpt_parse_ncheck on the bytes [cs] (first character flag [fst]) *)
Fixpoint ncheck_go (cs : list Z) (fst : bool) (take : Z) : Z :=
  match cs with
  | [] => 0
  | c :: r =>
    if isspace c then (if flag take NFSpace then ncheck_go r false take else BadType)
    else if isdigit c then
      (if flag take (if fst then NFNumStart else NFNumCont) then ncheck_go r false take else BadValue)
    else if negb (isprint c) then (if flag take NFBinary then ncheck_go r false take else BadValue)
    else if negb (isalnum c) then (if flag take NFSpecial then ncheck_go r false take else BadValue)
    else ncheck_go r false take
  end.

(* ---------------------------------------------------------------- path *)
(* The post bytes are kept in REVERSE order together with their count, so that
   adding a character and asking for the post length are constant time as in C. *)
Record path := mkPathB {
  pelems : list (list Z);   (* finished elements *)
  rpost : list Z;           (* post data (bytes behind off+len up to _used), last byte first *)
  plen : Z;                 (* number of post bytes *)
  pfirst : Z;               (* uint8_t first: length of the first element, 0 when it does not fit *)
  pkeep : bool;             (* MPT_PATHFLAG(KeepPost) *)
  pbuf : bool;              (* base != NULL (and HasArray) *)
  pbin : bool }.            (* MPT_PATHFLAG(SepBinary): set by the owner of the path, never changed by the library *)
(* a path without SepBinary (MPT_PATH_INIT, the path of mpt_parse_config) *)
Notation mkPath a b c d e f := (mkPathB a b c d e f false).
Definition ppost (p : path) : list Z := rev_append (rpost p) [].   (* = rev (rpost p), linear time *)
Definition path_init := mkPath [] [] 0 0 false false.
(* the path of a caller that selects the binary element separation (examples/core/parse.c) *)
Definition path_init_b (bin : bool) := mkPathB [] [] 0 0 false false bin.
Definition SEP : Z := 46.

Definition byte_of (v : Z) : Z := v mod 256.

Definition path_addchar (p : path) (v : Z) : path :=
  if negb (pbuf p) then mkPathB (pelems p) [byte_of v] 1 (pfirst p) (pkeep p) true (pbin p)
  else match rpost p with
       | [] => mkPathB (pelems p) [byte_of v] 1 (pfirst p) (pkeep p) true (pbin p)
       | x :: r => if pkeep p then mkPathB (pelems p) (byte_of v :: x :: r) (plen p + 1) (pfirst p) true true (pbin p)
                   else mkPathB (pelems p) (byte_of v :: r) (plen p) (pfirst p) false true (pbin p)
       end.

(* the return value is ignored by the parser; an empty post area is left alone *)
Definition path_delchar (p : path) : path :=
  if negb (pbuf p) then p
  else match rpost p with
       | [] => p
       | _ :: r => mkPathB (pelems p) r (plen p - 1) (pfirst p) (pkeep p) true (pbin p)
       end.

Definition path_valid (p : path) : Z * path :=
  if negb (pbuf p) then (0, p)
  else match rpost p with
       | [] => (0, p)
       | _ => (plen p, mkPathB (pelems p) (rpost p) (plen p) (pfirst p) true true (pbin p))
       end.

(* mpt_path_add: (code, path).
   Separator format: the element must not hold the separator; one byte behind it becomes the assign character.
   Binary format (SepBinary): the element must fit a length byte (add <= UINT8_MAX); TWO bytes behind it become
   the length byte of the element and the length byte of the next one (0); `first` is the length itself. *)
Definition path_add (p : path) (n : Z) : Z * path :=
  if negb (pbuf p) then (MissingBuffer, p)
  else if (n <? 0) || (plen p <? n) then (BadValue, p)
  else let e := firstn (Z.to_nat n) (ppost p) in
    if pbin p then
      if 255 <? n then (BadValue, p)
      else (0, mkPathB (pelems p ++ [e]) (rev_append (skipn (S (S (Z.to_nat n))) (ppost p)) [])
                       (if plen p <=? n + 1 then 0 else plen p - n - 2)
                       (match pelems p with [] => n | _ => pfirst p end) false true true)
    else
    if existsb (Z.eqb SEP) e then (BadValue, p)
    else (0, mkPathB (pelems p ++ [e]) (rev_append (skipn (S (Z.to_nat n)) (ppost p)) [])
                    (if plen p <=? n then 0 else plen p - n - 1)
                    (match pelems p with [] => if 255 <? n then 0 else n | _ => pfirst p end) false true (pbin p)).

(* mpt_path_del; in the binary format the length of the last element is read from its length byte and compared
   with the length byte in front of it (the abstraction keeps the elements, so both are the length of the element) *)
Definition path_del (p : path) : Z * path :=
  match pelems p with
  | [] => (MissingData, p)
  | _ => let es := removelast (pelems p) in
         (Z.of_nat (length (last (pelems p) [])),
          mkPathB es [] 0 (match es with [] => 0 | _ => pfirst p end) false (pbuf p) (pbin p))
  end.

Definition path_invalidate (p : path) : path :=
  if negb (pbuf p) then p else mkPathB (pelems p) [] 0 (pfirst p) false true (pbin p).

(* ---------------------------------------------------------------- parser state *)
Record pst := mkPst {
  line : Z;     (* src.line *)
  calls : Z;    (* number of getc callbacks so far *)
  pth : path;
  valid : Z;    (* parser_context.valid, see VALID_MOD *)
  pcurr : Z }.  (* parser_context.curr *)

(* width of parser_context.valid *)
Definition VALID_MOD : Z := 4294967296.
Definition set_valid (s : pst) : pst :=
  let (n, p) := path_valid (pth s) in mkPst (line s) (calls s) p (n mod VALID_MOD) (pcurr s).
Definition with_path (s : pst) (p : path) := mkPst (line s) (calls s) p (valid s) (pcurr s).
Definition with_curr (s : pst) (c : Z) := mkPst (line s) (calls s) (pth s) (valid s) c.
Definition with_valid (s : pst) (v : Z) := mkPst (line s) (calls s) (pth s) v (pcurr s).
Definition fixline (ln : Z) : Z := if ln =? 0 then 1 else ln.
(* one getc call that delivered character c *)
Definition tick (s : pst) (c : Z) : pst :=
  mkPst (if c =? 10 then fixline (line s) + 1 else fixline (line s)) (calls s + 1) (pth s) (valid s) (pcurr s).
Definition tick_eof (s : pst) : pst :=
  mkPst (fixline (line s)) (calls s + 1) (pth s) (valid s) (pcurr s).
(* one getc call inside mpt_parse_endline / failed read: no line count on the value *)
Definition tick_raw (s : pst) : pst :=
  mkPst (fixline (line s)) (calls s + 1) (pth s) (valid s) (pcurr s).
Definition addch (s : pst) (c : Z) : pst := with_path s (path_addchar (pth s) c).

Definition R := (Z * list Z * pst)%type.   (* result code / character, remaining input, state *)

(* mpt_parse_endline: result 0 (a length in C, only its sign is used) or the negative getc value *)
Fixpoint endline (l : list Z) (s : pst) : R :=
  match l with
  | [] => (-2, [], tick_eof s)
  | c :: r =>
    if c =? 10 then (0, r, tick s c)
    else if c <? 0 then (c, r, tick_raw s)
    else endline r (tick_raw s)
  end.

(* mpt_parse_nextvis with mpt_parse_endline inlined as the state [incom] *)
Fixpoint nextvis_go (f : format) (incom : bool) (l : list Z) (s : pst) : R :=
  match l with
  | [] => (-2, [], tick_eof s)
  | c :: r =>
    if incom then
      if c =? 10 then nextvis_go f false r (tick s c)
      else if c <? 0 then (c, r, tick_raw s)
      else nextvis_go f true r (tick_raw s)
    else
      if c <=? 0 then (c, r, tick_raw s)
      else if isspace c then nextvis_go f false r (tick s c)
      else if iscomment f c then nextvis_go f true r (tick s c)
      else (c, r, tick s c)
  end.
Definition nextvis (f : format) (l : list Z) (s : pst) : R := nextvis_go f false l s.

(* mpt_parse_getchar with a path *)
Definition getchar (l : list Z) (s : pst) : R :=
  match l with
  | [] => (-2, [], tick_eof s)
  | c :: r => if c <=? 0 then (c, r, tick_raw s) else (c, r, addch (tick s c) c)
  end.

(* checked read of the first n post bytes *)
Definition post_read (s : pst) (n : Z) : option (list Z) :=
  if (0 <=? n) && (n <=? plen (pth s)) then Some (firstn (Z.to_nat n) (ppost (pth s))) else None.

(* mpt_parse_ncheck(base+off+len, n, take) *)
Definition ncheck (s : pst) (n : Z) (take : Z) : Z :=
  if n =? 0 then (if flag take NFEmpty then 0 else MissingData)
  else if negb (pbuf (pth s)) then BadArgument
  else match post_read s n with
       | None => RFault
       | Some cs => ncheck_go cs true take
       end.

(* ---------------------------------------------------------------- mpt_parse_data *)
(* loop body for the character c that getchar returned (c >= 0; path already extended for c > 0) *)
Inductive step := Cont (s : pst) (mtch last : Z) | Brk (s : pst) | BrkEndline (s : pst).

Definition data_body (f : format) (c : Z) (s : pst) (mtch last : Z) : step :=
  if negb (mtch =? 0) then
    let s1 :=
      if c =? mtch then
        let p1 := path_delchar (pth s) in
        if negb (last =? 92) then with_path s p1
        else with_path s (path_addchar (path_delchar p1) c)
      else s in
    let m1 := if (c =? mtch) && negb (last =? 92) then 0 else mtch in
    Cont (set_valid s1) m1 c
  else if isescape f c then Cont s c c
  else if c =? oend f then Brk s
  else if c =? 10 then Brk s
  else if (oend f =? 0) && iscomment f c && isspace last then BrkEndline s
  else if negb (isspace c) then Cont (set_valid s) mtch c
  else Cont s mtch c.

(* returns (curr at loop exit, rest, state) *)
Fixpoint data_loop (f : format) (l : list Z) (s : pst) (mtch last : Z) : R :=
  match l with
  | [] => (-2, [], tick_eof s)
  | c :: r =>
    if c <? 0 then (c, r, tick_raw s)
    else
      let s1 := if c =? 0 then tick_raw s else addch (tick s c) c in
      match data_body f c s1 mtch last with
      | Cont s2 m2 l2 => data_loop f r s2 m2 l2
      | Brk s2 => (c, r, s2)
      | BrkEndline s2 => let '(_, r2, s3) := endline r s2 in (c, r2, s3)
      end
  end.

Definition parse_data (f : format) (l : list Z) (s : pst) : R :=
  let '(c, r, s1) := data_loop f l s 0 (-1) in
  if negb (oend f =? 0) && negb (c =? oend f) then (BadValue, r, with_curr s1 PData)
  else (valid s1, r, s1).

(* name finished: ncheck, path_add, invalidate, data; [adderr] is the code for a failing path_add *)
Definition option_assign (f : format) (take : Z) (adderr : Z) (l : list Z) (s : pst) : R :=
  let nc := ncheck s (valid s) take in
  if nc <? 0 then ((if nc =? RFault then RFault else BadType), l, s)
  else let (a, p1) := path_add (pth s) (valid s) in
    if a <? 0 then (adderr, l, s)
    else
      let s1 := mkPst (line s) (calls s) (path_invalidate p1) 0 (pcurr s) in
      let '(d, r, s2) := parse_data f l s1 in
      if d <? 0 then (d, r, s2)
      else if d =? 0 then (POption, r, s2)
      else (Z.lor POption PData, r, s2).

(* ---------------------------------------------------------------- mpt_parse_option *)
(* end of the option loop: data-only element *)
Definition option_tail (take : Z) (l : list Z) (s : pst) : R :=
  let s1 := with_curr s PData in
  if negb (flag take NFEmpty) then (BadType, l, s1) else (PData, l, s1).

(* loop for the current character c (already stored in the path), then continue with getchar *)
Fixpoint option_loop (f : format) (take : Z) (c : Z) (l : list Z) (s : pst) : R :=
  let next (s1 : pst) : R :=
    match l with
    | [] => (MissingData, [], tick_eof s1)
    | c' :: r =>
      if c' <? 0 then ((if c' =? -2 then MissingData else BadArgument), r, tick_raw s1)
      else option_loop f take c' r (if c' =? 0 then tick_raw s1 else addch (tick s1 c') c')
    end in
  if isspace c then
    if assign f =? 0 then option_assign f take MissingBuffer l s
    else if c =? 10 then
      (if negb (oend f =? 0) && negb (c =? oend f) then (BadValue, l, s) else option_tail take l s)
    else next s
  else if c =? assign f then option_assign f take MissingBuffer l s
  else if c =? oend f then option_tail take l s
  else if iscomment f c then
    (if negb (oend f =? 0) then (BadValue, l, s)
     else let '(_, r2, s2) := endline l s in option_tail take r2 s2)
  else next (set_valid s).

Definition parse_option (f : format) (a : allow) (l : list Z) (s : pst) : R :=
  (* [named]: the caller stored the first name character (variant [araw], see [allow]) *)
  let named := araw a && negb (valid s =? 0) && (ostart f =? 0) in
  let '(c, r, s1) := if named then getchar l s else nextvis f l s in
  if c <? 0 then
    let s2 := with_curr s1 (if negb (valid s1 =? 0) then Z.lor POption PName else POption) in
    if negb (c =? -2) then (BadArgument, r, s2)
    else ((match pelems (pth s2) with [] => 0 | _ => MissingData end), r, s2)
  else if negb (ostart f =? 0) && negb (c =? ostart f) && negb (valid s1 =? 0) then
    (BadValue, r, with_curr s1 (Z.lor POption PName))
  else
    option_loop f (aopt a) c r (with_curr (if named then s1 else addch s1 c) (Z.lor POption PName)).

(* ---------------------------------------------------------------- mpt_parse_format_pre *)
Definition section_add (take : Z) (cur : Z) (l : list Z) (s : pst) : R :=
  let s1 := with_curr s cur in
  let nc := ncheck s1 (valid s1) take in
  if nc <? 0 then ((if nc =? RFault then RFault else BadType), l, s1)
  else let (a, p1) := path_add (pth s1) (valid s1) in
    if a <? 0 then (BadOperation, l, s1) else (PSection, l, with_path s1 p1).

Definition pre_tail (f : format) (a : allow) (c : Z) (l : list Z) (s : pst) : R :=
  if negb (sstart f =? 0) && (c =? sstart f) then section_add (asect a) (Z.lor PSection PName) l s
  else if negb (oend f =? 0) && (c =? oend f) then
    let s1 := with_curr s PData in
    let nc := ncheck s1 0 (aopt a) in
    if nc <? 0 then (BadType, l, s1) else (PData, l, s1)
  else (BadValue, l, with_curr s PName).

Fixpoint pre_loop (f : format) (a : allow) (c : Z) (l : list Z) (s : pst) : R :=
  let next (s1 : pst) : R :=
    match l with
    | [] => pre_tail f a (-2) [] (tick_eof s1)
    | c' :: r =>
      if c' <? 0 then pre_tail f a c' r (tick_raw s1)
      else pre_loop f a c' r (if c' =? 0 then tick_raw s1 else addch (tick s1 c') c')
    end in
  if c <? 0 then (MissingData, l, s)
  else if c =? send f then (PSectEnd, l, with_curr s PSectEnd)
  else if c =? sstart f then pre_tail f a c l s
  else if c =? ostart f then parse_option f a l s
  else if c =? assign f then option_assign f (aopt a) BadOperation l (with_curr s (Z.lor POption PName))
  else if c =? oend f then pre_tail f a c l s
  else if iscomment f c then let '(_, r2, s2) := endline l s in pre_tail f a c r2 s2
  else
    let s1 := with_curr s PName in
    if negb (isspace c) then next (set_valid s1)
    else if c =? 10 then
      let '(c2, r2, s2) := nextvis f l s1 in
      pre_tail f a c2 r2 (addch s2 c2)
    else next s1.

Definition format_pre (f : format) (a : allow) (l : list Z) (s : pst) : R :=
  let '(c, r, s1) := nextvis f l s in
  if c <? 0 then ((match pelems (pth s1) with [] => 0 | _ => MissingData end), r, s1)
  else if c =? sstart f then section_add (asect a) PSection r s1
  else pre_loop f a c r (addch (with_curr s1 PName) c).

(* ---------------------------------------------------------------- mpt_parse_format_enc *)
Fixpoint enc_loop (f : format) (l : list Z) (s : pst) : (bool * list Z * pst) :=
  match l with
  | [] => (false, [], tick_eof s)
  | c :: r =>
    if c <=? 0 then (false, r, tick_raw s)
    else
      let s1 := addch (tick s c) c in
      if isspace c then (true, r, s1)
      else if iscomment f c then let '(_, r2, s2) := endline r s1 in (true, r2, s2)
      else enc_loop f r (set_valid s1)
  end.

Definition enc_section (f : format) (a : allow) (l : list Z) (s : pst) : R :=
  let s0 := with_curr s PSection in
  let '(c, r, s1) := nextvis f l s0 in
  if c <=? 0 then (MissingData, r, s1)
  else
    let s2 := set_valid (addch (with_curr s1 (Z.lor PSection PName)) c) in
    let '(ok, r3, s3) := enc_loop f r s2 in
    if negb ok then (MissingData, r3, s3)
    else
      let nc := ncheck s3 (valid s3) (asect a) in
      if nc <? 0 then ((if nc =? RFault then RFault else BadType), r3, s3)
      else let (ad, p1) := path_add (pth s3) (valid s3) in
        if ad <? 0 then (BadOperation, r3, s3)
        else (PSection, r3, mkPst (line s3) (calls s3) p1 0 (pcurr s3)).

Definition enc_other (f : format) (a : allow) (c : Z) (l : list Z) (s : pst) : R :=
  let s1 := addch s c in
  if negb (ostart f =? 0) then
    (if negb (c =? ostart f) then (BadValue, l, with_curr s1 POption) else parse_option f a l s1)
  else parse_option f a l (set_valid s1).

Definition format_enc (f : format) (a : allow) (prev : Z) (l : list Z) (s : pst) : R :=
  if sstart f =? send f then
    if prev =? PSectEnd then enc_section f a l s
    else
      let '(c, r, s1) := nextvis f l s in
      if c <? 0 then (0, r, with_curr s1 0)
      else if (match pelems (pth s1) with [] => false | _ => true end) && (c =? sstart f) then
        (PSectEnd, r, with_curr s1 PSectEnd)
      else if negb (c =? sstart f) then enc_other f a c r s1
      else enc_section f a r s1
  else
    let '(c, r, s1) := nextvis f l s in
    if c <? 0 then
      let s2 := with_curr s1 PName in
      (match pelems (pth s2) with
       | [] => if c =? -2 then 0 else MissingData
       | _ => MissingData end, r, s2)
    else if negb (c =? sstart f) then enc_other f a c r s1
    else enc_section f a r s1.

(* ---------------------------------------------------------------- mpt_parse_format_sep *)
Fixpoint sep_loop (f : format) (a : allow) (c : Z) (l : list Z) (s : pst) : R :=
  let fail (r : list Z) (s1 : pst) : R := (BadValue, r, with_curr s1 PSection) in
  if c =? send f then section_add (asect a) (Z.lor PSection PName) l s
  else if iscomment f c then fail l s
  else
    let go (s1 : pst) : R :=
      match l with
      | [] => fail [] (tick_eof s1)
      | c' :: r =>
        if c' <? 0 then fail r (tick_raw s1)
        else sep_loop f a c' r (if c' =? 0 then tick_raw s1 else addch (tick s1 c') c')
      end in
    if negb (isspace c) then go (set_valid s)
    else if c =? 10 then fail l s
    else go s.

(* read the first character of the name unless start and end delimiter coincide *)
Definition sep_first (f : format) (a : allow) (l : list Z) (s : pst) : R :=
  if negb (send f =? sstart f) then
    let '(c, r, s1) := getchar l s in
    if c <? 0 then ((if c =? -2 then MissingData else BadArgument), r, s1)
    else sep_loop f a c r s1
  else sep_loop f a (sstart f) l s.

Definition format_sep (f : format) (a : allow) (prev : Z) (l : list Z) (s : pst) : R :=
  if Z.land prev 15 =? PSectEnd then sep_first f a l (with_curr s PSection)
  else
    let '(c, r, s1) := nextvis f l s in
    if c <? 0 then
      (if c =? -2 then (0, r, s1) else (BadArgument, r, with_curr s1 PName))
    else if negb (c =? sstart f) then
      (if negb (c =? ostart f) then parse_option f a r (set_valid (addch (with_curr s1 PName) c))
       else parse_option f a r s1)
    else if (match pelems (pth s1) with [] => false | _ => true end) then
      (PSectEnd, r, with_curr s1 PSectEnd)
    else sep_first f a r (with_curr s1 PSection).

Definition next_elem (fam : family) (f : format) (a : allow) (prev : Z) (l : list Z) (s : pst) : R :=
  match fam with
  | FamPre => format_pre f a l s
  | FamEnc => format_enc f a prev l s
  | FamSep => format_sep f a prev l s
  | FamOpt => parse_option f a l s
  end.

(* ---------------------------------------------------------------- mpt_parse_config *)
(* what the path handler is called with *)
Record event := mkEv {
  ev_ret : Z;                     (* current operation (return value of the element function) *)
  ev_prev : Z;                    (* parse->prev *)
  ev_path : list (list Z);        (* path elements *)
  ev_first : Z;                   (* path.first *)
  ev_val : option (list Z) }.     (* value bytes iff the Data bit is set *)

Section Config.
  Variable H : Type.
  (* handler: None = it returned a negative value; inr = unreachable link state *)
  Variable save : H -> event -> option (H + unit).

  Record cres := mkCres { c_ret : Z; c_rest : list Z; c_st : pst; c_prev : Z; c_h : H }.

  Fixpoint config_loop (fuel : nat) (fam : family) (f : format) (a : allow)
           (prev : Z) (l : list Z) (s : pst) (h : H) : cres :=
    match fuel with
    | O => mkCres ROutOfFuel l s prev h
    | S fu =>
      let '(ret, r, s1) := next_elem fam f a prev l s in
      if ret <=? 0 then mkCres ret r s1 prev h
      else
        let hasdata := negb (Z.land ret PData =? 0) in
        match (if hasdata then post_read s1 (valid s1) else Some []) with
        | None => mkCres RFault r s1 prev h
        | Some vb =>
          let ev := mkEv ret prev (pelems (pth s1)) (pfirst (pth s1)) (if hasdata then Some vb else None) in
          match save h ev with
          | None => mkCres SaveFailed r s1 prev h
          | Some (inr _) => mkCres RFault r s1 prev h
          | Some (inl h1) =>
            if negb (Z.land ret PSectEnd =? 0) then
              let (d, p1) := path_del (pth s1) in
              if d <? 0 then mkCres MissingData r (with_path s1 p1) prev h1
              else config_loop fu fam f a (pcurr s1) r (mkPst (line s1) (calls s1) p1 0 0) h1
            else
              config_loop fu fam f a (pcurr s1) r (mkPst (line s1) (calls s1) (path_invalidate (pth s1)) 0 0) h1
          end
        end
    end.
End Config.
Arguments mkCres {H}. Arguments c_ret {H}. Arguments c_rest {H}. Arguments c_st {H}.
Arguments c_prev {H}. Arguments c_h {H}. Arguments config_loop {H}.

(* fuel that always suffices (proved in ParseProofs): two elements per character *)
Definition config_fuel (l : list Z) : nat := 2 * length l + 4.

Definition pst_init : pst := mkPst 1 0 path_init 0 0.
(* start state of a caller loop on a path with / without SepBinary *)
Definition pst_init_b (bin : bool) : pst := mkPst 1 0 (path_init_b bin) 0 0.

(* mpt_parse_config with a handler that records the events *)
Definition save_log (h : list event) (e : event) : option (list event + unit) := Some (inl (h ++ [e])).
Definition parse_events (fam : family) (f : format) (a : allow) (l : list Z) : cres (list event) :=
  config_loop save_log (config_fuel l) fam f a PSection l pst_init [].
(* the same loop written by the caller on its own path (examples/core/parse.c: SepBinary) *)
Definition parse_events_b (bin : bool) (fam : family) (f : format) (a : allow) (l : list Z) : cres (list event) :=
  config_loop save_log (config_fuel l) fam f a PSection l (pst_init_b bin) [].

(* ---------------------------------------------------------------- nodes *)
(* a node: identifier bytes ([] = no identifier), value (None = no metatype), children *)
Inductive tree := T (name : list Z) (val : option (list Z)) (kids : list tree).
Definition tname (t : tree) := match t with T n _ _ => n end.
Definition tval (t : tree) := match t with T _ v _ => v end.
Definition tkids (t : tree) := match t with T _ _ k => k end.

(* mpt_meta_new as far as the bytes are concerned: the basic metatype holds text whose
   size with header stays below 256, longer text goes to a buffer metatype *)
Inductive metakind := MetaInline | MetaBuffer.
Definition meta_new (v : list Z) : option (metakind * list Z) :=
  if Z.of_nat (length v) <=? 249 then Some (MetaInline, v) else Some (MetaBuffer, v).

(* longest identifier mpt_identifier_set accepts (length + 1 <= UINT16_MAX) *)
Definition IDENT_MAX : Z := 65534.

(* open nodes from the cursor up to the temporary root; children in reverse order *)
Record frame := mkFrame { fname : list Z; fval : option (list Z); fkids : list tree }.
Definition builder := list frame.
Definition builder_init : builder := [mkFrame [] None []].

Definition close_frame (f : frame) (p : frame) : frame :=
  mkFrame (fname p) (fval p) (T (fname f) (fval f) (rev (fkids f)) :: fkids p).

(* mpt_node_append through saveAppend *)
Definition node_append (b : builder) (e : event) : option (builder + unit) :=
  let curr := ev_ret e in
  let prev := ev_prev e in
  if Z.land curr 15 =? 0 then Some (inl b)
  else if curr =? PSectEnd then
    if negb (Z.land prev PSectEnd =? 0) then
      match b with
      | f :: p :: rest => Some (inl (close_frame f p :: rest))
      | _ => None                      (* parent of the temporary root: NULL *)
      end
    else Some (inl b)
  else
    let nm := if negb (Z.land curr PSection =? 0)
              then match ev_path e with [] => None | es => Some (last es []) end
              else Some [] in
    match nm with
    | None => None
    | Some n =>
      match (match ev_val e with None => Some None | Some v => option_map (fun kv => Some (snd kv)) (meta_new v) end) with
      | None => None
      | Some mv =>
        if IDENT_MAX <? Z.of_nat (length n) then None
        else
          let nf := mkFrame n mv [] in
          if negb (prev =? 0) && (Z.land prev PSectEnd =? 0) then Some (inl (nf :: b))
          else match b with
               | f :: p :: rest => Some (inl (nf :: close_frame f p :: rest))
               | _ => Some (inr tt)    (* sibling of the temporary root: never reached *)
               end
      end
    end.

Fixpoint close_into (f : frame) (b : builder) : list tree :=
  match b with
  | [] => rev (fkids f)
  | p :: rest => close_into (close_frame f p) rest
  end.
Definition close_all (b : builder) : list tree :=
  match b with [] => [] | f :: r => close_into f r end.

(* mpt_node_locate(first, 1, id, len, charset): first node of the list with that identifier *)
Fixpoint list_eqb (a b : list Z) : bool :=
  match a, b with
  | [], [] => true
  | x :: a', y :: b' => (x =? y) && list_eqb a' b'
  | _, _ => false
  end.
Fixpoint locate (n : list Z) (dst : list tree) : option nat :=
  match dst with
  | [] => None
  | t :: r => if list_eqb (tname t) n then Some O else option_map S (locate n r)
  end.
Fixpoint update_nth {A} (i : nat) (f : A -> A) (l : list A) : list A :=
  match l, i with
  | [], _ => []
  | x :: r, O => f x :: r
  | x :: r, S k => x :: update_nth k f r
  end.

(* mpt_node_move(&src, dst): the target list after the move; what stays in src is destroyed *)
Fixpoint move_one (s : tree) (dst : list tree) {struct s} : list tree :=
  match s with
  | T n v kids =>
    match locate n dst with
    | None => dst ++ [s]
    | Some i =>
      match kids with
      | [] => dst
      | _ => update_nth i (fun d =>
               match d with
               | T dn dv [] => T dn dv kids
               | T dn dv dk =>
                 T dn dv ((fix go (ks : list tree) (acc : list tree) {struct ks} : list tree :=
                             match ks with [] => acc | k :: r => go r (move_one k acc) end) kids dk)
               end) dst
      end
    end
  end.
Fixpoint move_list (src : list tree) (dst : list tree) : list tree :=
  match src with [] => dst | s :: r => move_list r (move_one s dst) end.

(* mpt_parse_node: (return value, rest, state, target children afterwards) *)
Record nres := mkNres { n_ret : Z; n_rest : list Z; n_st : pst; n_tree : list tree }.

Definition parse_node (target : list tree) (fmtstr : option (list Z)) (a : allow) (l : list Z) : nres :=
  let (f, code) := parse_format fmtstr in
  match next_fcn code with
  | None => mkNres BadType l pst_init target
  | Some fam =>
    let c := config_loop node_append (config_fuel l) fam f a PSection l pst_init builder_init in
    if c_ret c <? 0 then mkNres (c_ret c) (c_rest c) (c_st c) target
    else
      let conf := close_all (c_h c) in
      mkNres (c_ret c) (c_rest c) (c_st c)
             (match target with
              | [] => conf
              | _ => match conf with [] => target | _ => move_list target conf end
              end)
  end.
