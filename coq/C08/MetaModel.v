(* C08/MetaModel.v — C09: the value store behind a node (mptcore/meta/meta_new.c,
   meta/meta_geninfo.c, misc/geninfo.c, misc/geninfo_clone.c, array/meta_buffer.c) as far
   as the text of a value is concerned.  Executable, NO proofs; extracted for the driver.

   mpt_meta_new keeps a text either in the basic metatype (header + text + terminator in
   at most 255 bytes: texts up to 249 bytes) or in a buffer metatype (array of char with
   a terminator appended).  The two kinds answer different conversions:
     basic  : 0 -> "s", 's' -> the text, vector of char -> text + terminator, metatype -> itself;
              iterator and buffer are refused (BadType); clone = mpt_meta_new of the text
              (AS PATCHED by docs/C09_geninfo_clone.diff: without the terminator);
     buffer : 0 -> iterator, buffer, vector of char; vector -> text + terminator; iterator -> one
              string element, the text; buffer -> the array; 's' is refused; clone shares the array.
   addref answers 0 for both (not shareable).  Texts are the bytes 1..255 the parser can
   hand over (no NUL).  Beside mpt_meta_new the two constructors are driven directly: mpt_meta_geninfo
   (+ _mpt_geninfo_set) and mpt_meta_buffer over an array holding the text WITHOUT terminator (its
   iterator serves one vector element, its vector view has no terminator). *)
From Coq Require Import List ZArith Bool.
From MptV Require Import C08.ParseModel.
Import ListNotations.
Local Open Scope Z_scope.

(* type codes of mptcore/types.h *)
Definition TyString : Z := 115.        (* 's' *)
Definition TyVecChar : Z := 67.        (* MPT_type_toVector('c') *)
Definition TyBufferPtr : Z := 11.
Definition TyIteratorPtr : Z := 134.
Definition TyMetaPtr : Z := 256.

Inductive mop := ONewV | ONewS | ONewI | ONewG | ONewB | OKind | OStr | OVec | OIter | OSelf | OBuf | ORef | OClone.

(* observations, one per operation *)
Inductive mobs :=
| BNew (ok : bool)
| BNone                                        (* no metatype to ask *)
| BKind (ret : Z) (fmt : list Z)
| BStr (r : Z + list Z)                        (* refused with a code / the text *)
| BVec (total : Z) (text : list Z)             (* length of the vector, its bytes without one terminator *)
| BIter (r : Z + (list (bool * list Z) * Z * Z))  (* refused / elements (true: string, false: vector of char), last advance code, reset code *)
| BSelf (ok : bool)
| BBuf (r : Z + Z)                             (* refused / used size of the array *)
| BRef (r : Z)
| BClone (ok : bool).

(* KRaw: a buffer metatype made directly (mpt_meta_buffer) over an array that holds the text without terminator *)
Inductive mkind := KBasic | KBuffer | KRaw.
Definition kind_of (k : metakind) : mkind := match k with MetaInline => KBasic | MetaBuffer => KBuffer end.
Definition mstate := option (mkind * list Z).

Definition zlen (v : list Z) : Z := Z.of_nat (length v).

(* mpt_meta_new *)
Definition store (v : list Z) : mstate :=
  match meta_new v with Some (k, t) => Some (kind_of k, t) | None => None end.

(* one operation on the metatype holding [st]; [v] is the text the case stores *)
Definition meta_step (v : list Z) (st : mstate) (op : mop) : mstate * mobs :=
  match op with
  | ONewV | ONewS => (store v, BNew true)
  | ONewI => (None, BNew false)                (* no text in an int: EINVAL *)
  | ONewG =>                                   (* mpt_meta_geninfo(len) + _mpt_geninfo_set: header + text + terminator in 255 bytes *)
    if zlen v <=? 249 then (Some (KBasic, v), BNew true) else (None, BNew false)
  | ONewB => (Some (KRaw, v), BNew true)
  | _ =>
    match st with
    | None => (None, BNone)
    | Some (k, t) =>
      match op, k with
      | OKind, KBasic => (st, BKind 0 [TyString])
      | OKind, _ => (st, BKind TyMetaPtr [TyIteratorPtr; TyBufferPtr; TyVecChar])
      | OStr, KBasic => (st, BStr (inr t))
      | OStr, _ => (st, BStr (inl BadType))
      | OVec, KRaw => (st, BVec (zlen t) t)
      | OVec, _ => (st, BVec (zlen t + 1) t)
      | OIter, KBasic => (st, BIter (inl BadType))
      | OIter, KBuffer => (st, BIter (inr ([(true, t)], 0, TyString)))
      | OIter, KRaw => (st, BIter (inr (match t with [] => ([], -99, 0) | _ => ([(false, t)], 0, TyVecChar) end)))
      | OSelf, _ => (st, BSelf true)
      | OBuf, KBasic => (st, BBuf (inl BadType))
      | OBuf, KBuffer => (st, BBuf (inr (zlen t + 1)))
      | OBuf, KRaw => (st, BBuf (inr (zlen t)))
      | ORef, _ => (st, BRef 0)
      | OClone, KBasic => (store t, BClone true)
      | OClone, _ => (st, BClone true)
      | _, _ => (st, BNone)
      end
    end
  end.

Fixpoint meta_run (v : list Z) (st : mstate) (ops : list mop) : list mobs :=
  match ops with
  | [] => []
  | op :: r => let (st', o) := meta_step v st op in o :: meta_run v st' r
  end.

(* ---------------------------------------------------------------- specification *)
(* What the property says about a stored value: every view that is answered shows exactly the
   text stored last (the string view the text, the vector view the text and at most one terminator,
   the iterator view the text as its only element — no element only for an empty text), and a
   clone shows the same.  Which views a metatype answers is not constrained. *)
Definition leqb (a b : list Z) : bool := if list_eq_dec Z.eq_dec a b then true else false.
Definition obs_ok (txt : list Z) (o : mobs) : bool :=
  match o with
  | BStr (inr t) => leqb t txt
  | BVec n t => ((n =? zlen txt + 1) || (n =? zlen txt)) && leqb t txt
  | BIter (inr ([], _, _)) => leqb txt []
  | BIter (inr ([(_, e)], _, _)) => leqb e txt
  | BIter (inr (_, _, _)) => false
  | BBuf (inr n) => (n =? zlen txt + 1) || (n =? zlen txt)
  | BSelf ok => ok
  | BClone ok => ok
  | _ => true
  end.

(* the observation the specification expects where the model's view decision [o] is taken over *)
Definition spec_obs (txt : option (list Z)) (o : mobs) : mobs :=
  match txt, o with
  | Some t, BStr (inr _) => BStr (inr t)
  | Some t, BVec n _ => BVec (if n =? zlen t then n else zlen t + 1) t
  | Some t, BIter (inr ([], a, r)) => BIter (inr (match t with [] => [] | _ => [(true, t)] end, a, r))
  | Some t, BIter (inr ((tag, _) :: _, a, r)) => BIter (inr ([(tag, t)], a, r))
  | Some t, BBuf (inr n) => BBuf (inr (if n =? zlen t then n else zlen t + 1))
  | Some _, BSelf _ => BSelf true
  | Some _, BClone _ => BClone true
  | _, _ => o
  end.

(* the text the specification expects a metatype to hold after [op] *)
Definition spec_text (v : list Z) (txt : option (list Z)) (ok : bool) (op : mop) : option (list Z) :=
  match op with
  | ONewV | ONewS | ONewB => Some v
  | ONewG => if ok then Some v else None       (* a text the basic metatype cannot hold may be refused *)
  | ONewI => None
  | _ => txt
  end.

Definition is_new (op : mop) : bool :=
  match op with ONewV | ONewS | ONewI | ONewG | ONewB => true | _ => false end.

Fixpoint spec_run (v : list Z) (txt : option (list Z)) (st : mstate) (ops : list mop) : list mobs :=
  match ops with
  | [] => []
  | op :: r =>
    let (st', o) := meta_step v st op in
    let txt' := spec_text v txt (match o with BNew ok => ok | _ => true end) op in
    spec_obs (if is_new op then None else txt) o :: spec_run v txt' st' r
  end.
