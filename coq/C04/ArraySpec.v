(* C04/ArraySpec.v — the specification: every handle is a plain value.

   A value is [None] (no buffer yet) or [Some (t, v)]: element type t (0 = raw
   bytes, n = POD elements of n bytes) and the byte vector v the handle reads.
   Operations are the ordinary vector operations (gaps zero filled, lengths
   exact); nothing here knows about buffers, reference counts or capacities.

   The few decisions the interface leaves to the mechanism reach the
   specification as a [hint] computed from the mechanism state BEFORE the
   operation (flags and capacity of the target's buffer) and, for a slice write,
   the number of elements the implementation accepted:
     - BufferNoCopy: a shared no-copy buffer with content cannot be made private,
       operations that need a private copy are refused ([blocked]); mpt_array_reserve
       on a no-copy buffer that is shared or immutable starts from empty content;
     - the in-place functions mpt_buffer_insert/cut/set are applied by the harness
       only to private mutable buffers ([guarded]) and refuse what exceeds the
       capacity [hsz] (documented precondition);
     - mpt_slice_write may accept fewer elements than offered ([hcnt]);
       its "prepare memory" form (element size 0) never changes a value, its
       verdict [hacc] is the implementation's;
     - the C++ slice::shift/trim and array = slice are applied by the harness only
       to a slice whose window lies inside the data ([hcons]);
     - class templates: a shared NoCopy block with content refuses every method that needs a
       private copy ([blocked], as above); pointer_array::compact leaves immutable data
       alone ([him]); template methods are applied to values of their own element type
       only ([s_tok], static typing), pointer_array::swap only to a handle that owns a block. *)
From MptV Require Import Base.Mem C04.ArrayModel.
Local Open Scope nat_scope.
Local Open Scope bool_scope.

Definition sval := option (nat * list byte).
Definition sv := (bool * sval)%type.          (* (is a slice handle, value) *)

Record hint := mkhint { hsh : bool; him : bool; hnc : bool; hsz : nat; hcnt : nat; hacc : bool; hcons : bool }.

Definition with_cons (h : hint) (c : bool) : hint :=
  mkhint (hsh h) (him h) (hnc h) (hsz h) (hcnt h) (hacc h) c.

Definition svec (v : sval) : list byte := match v with None => [] | Some (_, l) => l end.

(* ---- vector operations *)
Definition put (v : list byte) (pos : nat) (d : list byte) : list byte :=
  if length v <? pos then v ++ zeros (pos - length v) ++ d
  else firstn pos v ++ d ++ skipn (pos + length d) v.
Definition ins (v : list byte) (pos : nat) (d : list byte) : list byte :=
  if pos <? length v then firstn pos v ++ d ++ skipn pos v
  else v ++ zeros (pos - length v) ++ d.
Definition ext (v : list byte) (total : nat) : list byte := v ++ zeros (total - length v).
Definition cutv (v : list byte) (off len : nat) : list byte := firstn off v ++ skipn (off + len) v.

Definition blocked (h : hint) (v : list byte) : bool := hsh h && hnc h && negb (length v =? 0).
Definition guarded (h : hint) : bool := hsh h || him h.
Definition al3 (t a b c : nat) : bool := aligned t a && aligned t b && aligned t c.

(* result of an operation on the target value: new value and outcome *)
Definition D (v : sval) : sval * outcome := (v, ODone 0 0).
Definition Dn (v : sval) (n : nat) : sval * outcome := (v, ODone n 0).
Definition R (v : sval) : sval * outcome := (v, ORefused).
Definition G (v : sval) : sval * outcome := (v, OGuard).

Definition s_append (h : hint) (v : sval) (d : list byte) : sval * outcome :=
  match v with
  | None => D (Some (0, d))
  | Some (t, l) =>
    if negb (t =? 0) then R v else
    if blocked h l && negb (length d =? 0) then R v else D (Some (0, l ++ d))
  end.

Definition s_insert (h : hint) (v : sval) (pos : nat) (d : list byte) : sval * outcome :=
  match v with
  | None => D (Some (0, zeros pos ++ d))
  | Some (t, l) =>
    if blocked h l then R v else
    if negb (t =? 0) && negb (al3 t (length l) pos (length d)) then R v else
    D (Some (t, ins l pos d))
  end.

Definition s_set (h : hint) (v : sval) (tr : nat) (neg : bool) (off : nat) (d : list byte) : sval * outcome :=
  if tr =? 0 then R v else
  if negb (aligned tr (length d)) then R v else
  match v with
  | None => if neg && negb (off =? 0) then R v else D (Some (tr, zeros (off * tr) ++ d))
  | Some (t, l) =>
    if negb (t =? tr) then R v else
    if neg && (length l <? off * tr) then R v else
    if blocked h l then R v else
    D (Some (t, put l (if neg then length l - off * tr else off * tr) d))
  end.

Definition s_slice (h : hint) (v : sval) (off : nat) (d : list byte) (w : bool) : sval * outcome :=
  let total := off + length d in
  match v with
  | None => D (Some (0, if w then put (zeros total) off d else zeros total))
  | Some (t, l) =>
    if negb (t =? 0) && negb (al3 t off (length d) (length l)) then R v else
    if blocked h l then R v else
    D (Some (t, if w then put (ext l total) off d else ext l total))
  end.

Definition s_reserve (h : hint) (v : sval) (tr : nat) : sval * outcome :=
  match v with
  | None => D (Some (tr, []))
  | Some (t, l) =>
    if (t =? tr) && negb (guarded h && hnc h) then D v else D (Some (tr, []))
  end.

Definition s_clone (v : sval) (from : option sval) : sval * outcome :=
  match from with
  | None => D None
  | Some s =>
    match v, s with
    | Some (t, _), Some (t', _) => if negb (t =? t') then R v else D s
    | _, _ => D s
    end
  end.

Definition s_bufinsert (h : hint) (v : sval) (pos : nat) (d : list byte) : sval * outcome :=
  match v with
  | None => G v
  | Some (t, l) =>
    if guarded h then G v else
    let total := if pos <? length l then length l + length d else pos + length d in
    if total =? 0 then D v else
    if hsz h <? total then R v else
    if negb (t =? 0) && negb (al3 t (length l) pos (length d)) then R v else
    D (Some (t, ins l pos d))
  end.

Definition s_bufcut (h : hint) (v : sval) (off len : nat) : sval * outcome :=
  match v with
  | None => G v
  | Some (t, l) =>
    if guarded h then G v else
    if length l <? len then R v else
    if (len =? 0) && (length l <? off) then R v else
    if negb (len =? 0) && (length l - len <? off) then R v else
    if negb (t =? 0) && negb (aligned t off && aligned t len) then R v else
    D (Some (t, if len =? 0 then firstn off l else cutv l off len))
  end.

Definition s_bufset (h : hint) (v : sval) (tr pos : nat) (d : list byte) : sval * outcome :=
  match v with
  | None => G v
  | Some (t, l) =>
    if guarded h then G v else
    if hsz h <? pos + length d then R v else
    if t =? 0 then (if negb (tr =? 0) then R v else D (Some (t, put l pos d)))
    else if tr =? 0 then R v
    else if negb (aligned tr pos && aligned tr (length d)) then R v
    else if negb (t =? tr) then R v
    else D (Some (t, put l pos d))
  end.

Definition s_printf (h : hint) (v : sval) (text : list byte) : sval * outcome :=
  match v with
  | None => Dn (Some (1, text)) (length text)
  | Some (t, l) =>
    if negb (t =? 1) then R v else
    if blocked h l then R v else
    Dn (Some (1, l ++ text)) (length text)
  end.

Definition s_string (h : hint) (v : sval) : sval * outcome :=
  match v with
  | None => R v
  | Some (t, l) =>
    if negb (t =? 1) then R v else
    if has_zero l then Dn v (length (cstr l)) else
    if blocked h l then R v else
    Dn (Some (1, l ++ [0%N])) (length l)
  end.

Definition s_mkslice (v : sval) (from : sval) (off len : nat) : sval * outcome :=
  match s_clone v (Some from) with
  | (_, ORefused) => R v
  | _ => D (match from with
            | None => None
            | Some (t, l) => Some (t, firstn len (skipn off l)) end)
  end.

Definition s_write (h : hint) (v : sval) (nblk esz : nat) (from : bool) (d : list byte) : sval * outcome :=
  match v with
  | Some (t, l) => if negb (t =? 0) then R v else
    if esz =? 0 then
      (if nblk =? 0 then D v else if from then R v else if hacc h then D v else R v)
    else
      if nblk <? hcnt h then (v, OFault) else
      Dn (Some (0, l ++ firstn (hcnt h * esz) (norm (nblk * esz) from d))) (hcnt h)
  | None =>
    if esz =? 0 then
      (if nblk =? 0 then D v else if from then R v else if hacc h then D (Some (0, [])) else R v)
    else
      if nblk <? hcnt h then (v, OFault) else
      Dn (Some (0, firstn (hcnt h * esz) (norm (nblk * esz) from d))) (hcnt h)
  end.

(* ---- C++ entry points *)
Definition s_xassign (from : sval) : sval * outcome := D from.
Definition s_xset (d : list byte) : sval * outcome := D (Some (0, d)).
Definition s_xsetstr (text : list byte) : sval * outcome := D (Some (1, text ++ [0%N])).
Definition s_xasl (h : hint) (v w : sval) : sval * outcome :=
  if hcons h then D (Some (0, svec w)) else G v.
Definition s_xmks (from : sval) : sval * outcome :=
  D (match from with None => None | Some (t, l) => Some (t, if t =? 0 then l else []) end).
Definition s_xshift (h : hint) (v : sval) (n : nat) : sval * outcome :=
  if negb (hcons h) then G v else
  if length (svec v) <? n then R v else
  D (match v with None => None | Some (t, l) => Some (t, skipn n l) end).
Definition s_xtrim (h : hint) (v : sval) (n : nat) : sval * outcome :=
  if negb (hcons h) then G v else
  if length (svec v) <? n then R v else
  D (match v with None => None | Some (t, l) => Some (t, firstn (length l - n) l) end).

Definition resizev (l : list byte) (m : nat) : list byte := firstn m l ++ zeros (m - length l).

Definition s_xsetref (v from : sval) : sval * outcome :=
  match from with
  | Some (t, _) => if negb (t =? 0) then R v else D from
  | None => D None
  end.
Definition s_xsetval (v : sval) (tr : nat) (d : list byte) : sval * outcome :=
  if (tr =? 0) || aligned tr (length d) then D (Some (tr, d)) else R v.
Definition s_xsetlen (h : hint) (v : sval) (n : nat) : sval * outcome :=
  match v with
  | None => G v
  | Some (t, l) =>
    if guarded h then G v else
    if negb (t =? 0) then R v else
    if hsz h <? n then R v else D (Some (0, resizev l n))
  end.
Definition s_xslcopy (from : sval) : sval * outcome := D from.
Definition s_xslset (v : sval) (d : list byte) (ok : bool) : sval * outcome :=
  if ok then D (Some (0, d)) else R v.

(* ---- class templates of mptcore/array.h: the handle holds elements of [tr] bytes; positions are C longs
   ([tpos]); a template operation is applied to a value of its own element type only *)
Definition s_tok (v : sval) (tr : nat) : bool :=
  negb (tr =? 0) && match v with None => true | Some (t, _) => t =? tr end.
Definition s_tokb (v : sval) (tr : nat) : bool :=
  match v with None => false | Some _ => s_tok v tr end.

Definition s_tnew (tr : nat) : sval * outcome := D (Some (tr, [])).

Definition s_treserve (h : hint) (v : sval) (tr : nat) (len : tpos) : sval * outcome :=
  let l := svec v in
  match t_at (length l / tr) len with
  | None => R v
  | Some _ => if blocked h l then R v else D (Some (tr, l))
  end.

Definition s_tinsert (h : hint) (v : sval) (tr : nat) (pos : tpos) (d : list byte) : sval * outcome :=
  let l := svec v in
  match t_at (length l / tr) pos with
  | None => R v
  | Some p => if blocked h l then R v else D (Some (tr, ins l (p * tr) d))
  end.

Definition s_tstore (h : hint) (v : sval) (tr : nat) (pos : tpos) (off : nat) (d : list byte) : sval * outcome :=
  let l := svec v in
  let n := length l / tr in
  match t_at n pos with
  | None => R v
  | Some p => if n <=? p then R v else if blocked h l then R v else D (Some (tr, put l (p * tr + off) d))
  end.

Definition s_tresize (h : hint) (v : sval) (tr : nat) (len : tpos) : sval * outcome :=
  let l := svec v in
  match t_at (length l / tr) len with
  | None => R v
  | Some m => if blocked h l then R v else
              match len with
              | PBack _ => D (Some (tr, l))
              | _ => D (Some (tr, resizev l (m * tr)))
              end
  end.

Definition s_tdetach (h : hint) (v : sval) (tr : nat) : sval * outcome :=
  if blocked h (svec v) then R v else D (Some (tr, svec v)).

Definition s_pcompact (h : hint) (v : sval) (tr : nat) : sval * outcome :=
  match v with
  | None => D v
  | Some (t, l) => if him h then D v else D (Some (t, compactv (length l / tr) tr l))
  end.

Definition swapv (l : list byte) (tr q1 q2 : nat) : list byte :=
  put (put l (q1 * tr) (firstn tr (skipn (q2 * tr) l))) (q2 * tr) (firstn tr (skipn (q1 * tr) l)).

Definition s_pswap (h : hint) (v : sval) (tr : nat) (p1 p2 : option nat) : sval * outcome :=
  let l := svec v in
  let n := length l / tr in
  if blocked h l then R v else
  match p1, p2 with
  | Some q1, Some q2 => if (n <=? q1) || (n <=? q2) then R v else D (Some (tr, swapv l tr q1 q2))
  | _, _ => R v
  end.

Definition s_mset (h : hint) (v : sval) (ks tr : nat) (key val : list byte) : sval * outcome :=
  let l := svec v in
  match find_key (length l / tr) 0 ks tr l key with
  | Some i => s_tstore h v tr (PFwd i) ks val
  | None => s_tinsert h v tr PEnd (key ++ val)
  end.

(* reading is a function of the value: get(pos), offset(element), unused(), map::get(key), map::values(key) *)
Definition elem_at (l : list byte) (tr : nat) (pos : tpos) : option (list byte) :=
  let n := length l / tr in
  match t_at n pos with
  | None => None
  | Some p => if n <=? p then None else Some (firstn tr (skipn (p * tr) l))
  end.
Definition offset_of (l : list byte) (tr : nat) (e : list byte) : option nat := find_key (length l / tr) 0 tr tr l e.
Definition unused_of (l : list byte) (tr : nat) : nat := unusedv (length l / tr) tr l.
Definition map_get (l : list byte) (ks tr : nat) (key : list byte) : option (list byte) :=
  match find_key (length l / tr) 0 ks tr l key with
  | Some i => Some (firstn (tr - ks) (skipn (i * tr + ks) l))
  | None => None
  end.
Fixpoint map_valuesn (n ks tr : nat) (l : list byte) (key : option (list byte)) : list byte :=
  match n with
  | 0 => []
  | S n' => (if match key with None => true | Some k => list_eqb (firstn ks l) k end
             then firstn (tr - ks) (skipn ks l) else []) ++ map_valuesn n' ks tr (skipn tr l) key
  end.
Definition map_values (l : list byte) (ks tr : nat) (key : option (list byte)) : list byte :=
  map_valuesn (length l / tr) ks tr l key.

(* one operation on the vector of all handle values: only the target changes *)
Definition sstep (vs : list sv) (o : op) (h : hint) : list sv * outcome :=
  let x := target o in
  if negb (x <? length vs) then (vs, OGuard) else
  let '(k, v) := nth x vs (false, None) in
  if negb (Bool.eqb k (is_slice_op o)) then (vs, OGuard) else
  let fin (r : sval * outcome) := (lset vs x (k, fst r), snd r) in
  match o with
  | OAppend _ d => fin (s_append h v d)
  | OInsert _ pos d => fin (s_insert h v pos d)
  | OSet _ tr neg off d => fin (s_set h v tr neg off d)
  | OSlice _ off d w => fin (s_slice h v off d w)
  | OReserve _ _ tr => fin (s_reserve h v tr)
  | OClone _ y =>
    match y with
    | None => fin (s_clone v None)
    | Some j => if negb (j <? length vs) || fst (nth j vs (false, None)) then (vs, OGuard)
                else fin (s_clone v (Some (snd (nth j vs (false, None)))))
    end
  | OReduce _ => fin (D v)
  | OBufInsert _ pos d => fin (s_bufinsert h v pos d)
  | OBufCut _ off len => fin (s_bufcut h v off len)
  | OBufSet _ tr pos d => fin (s_bufset h v tr pos d)
  | OPrintf _ text => fin (s_printf h v text)
  | OString _ => fin (s_string h v)
  | ONew _ _ _ _ => fin (D (Some (0, [])))
  | OFlags _ _ _ => fin (match v with None => G v | Some _ => D v end)
  | OMkSlice _ y off len =>
    if negb (y <? length vs) || fst (nth y vs (false, None)) then (vs, OGuard)
    else fin (s_mkslice v (snd (nth y vs (false, None))) off len)
  | OWrite _ nblk esz from d => fin (s_write h v nblk esz from d)
  | OXAssign _ y =>
    if negb (y <? length vs) || fst (nth y vs (false, None)) then (vs, OGuard)
    else fin (s_xassign (snd (nth y vs (false, None))))
  | OXAppend _ d => fin (s_append h v d)
  | OXSet _ d => fin (s_xset d)
  | OXSetStr _ text => fin (s_xsetstr text)
  | OXAssignSlice _ s =>
    if negb (s <? length vs) || negb (fst (nth s vs (false, None))) then (vs, OGuard)
    else fin (s_xasl h v (snd (nth s vs (false, None))))
  | OXMkSlice _ y =>
    if negb (y <? length vs) || fst (nth y vs (false, None)) then (vs, OGuard)
    else fin (s_xmks (snd (nth y vs (false, None))))
  | OXShift _ n => fin (s_xshift h v n)
  | OXTrim _ n => fin (s_xtrim h v n)
  | OXSetRef _ y =>
    if negb (y <? length vs) || fst (nth y vs (false, None)) then (vs, OGuard)
    else fin (s_xsetref v (snd (nth y vs (false, None))))
  | OXSetVal _ tr d => fin (s_xsetval v tr d)
  | OXSetLen _ n => fin (s_xsetlen h v n)
  | OXSliceCopy _ t =>
    if negb (t <? length vs) || negb (fst (nth t vs (false, None))) then (vs, OGuard)
    else fin (s_xslcopy (snd (nth t vs (false, None))))
  | OXSliceSet _ d ok => fin (s_xslset v d ok)
  | OTNew _ tr _ len => if tr =? 0 then (vs, OGuard) else fin (s_tnew tr)
  | OTInsert _ tr _ pos d =>
    if negb (s_tok v tr && (length d =? tr)) then (vs, OGuard) else fin (s_tinsert h v tr pos d)
  | OTStore _ tr _ pos d =>
    if negb (s_tok v tr && (length d =? tr)) then (vs, OGuard) else fin (s_tstore h v tr pos 0 d)
  | OTReserve _ tr _ len => if negb (s_tok v tr) then (vs, OGuard) else fin (s_treserve h v tr len)
  | OTResize _ tr _ len => if negb (s_tok v tr) then (vs, OGuard) else fin (s_tresize h v tr len)
  | OTDetach _ tr _ => if negb (s_tok v tr) then (vs, OGuard) else fin (s_tdetach h v tr)
  | OTRead _ => fin (D v)
  | OPCompact _ tr => if negb (s_tok v tr) then (vs, OGuard) else fin (s_pcompact h v tr)
  | OPSwap _ tr p1 p2 => if negb (s_tokb v tr) then (vs, OGuard) else fin (s_pswap h v tr p1 p2)
  | OMSet _ ks tr key val =>
    if negb (s_tok v tr && (length key =? ks) && (ks + length val =? tr)) then (vs, OGuard)
    else fin (s_mset h v ks tr key val)
  end.

(* ---- the link to the mechanism state *)
Definition absh (hp : heap) (h : handle) : sv :=
  (hsl h,
   match hbuf h with
   | None => None
   | Some i => match hget hp i with
               | None => None
               | Some b => Some (btr b, if hsl h then firstn (hlen h) (skipn (hoff h) (bview b)) else bview b)
               end
   end).

Definition abs (st : state) : list sv := map (absh (sheap st)) (shnd st).

(* what the specification is told about the mechanism (see the head of this file) *)
Definition vis_count (out : outcome) : nat := match out with ODone n _ => n | _ => 0 end.
Definition accepted (out : outcome) : bool := match out with ODone _ _ => true | _ => false end.

Definition hint_base (st : state) (o : op) (out : outcome) : hint :=
  match hbuf (hnd st (target o)) with
  | None => mkhint false false false 0 (vis_count out) (accepted out) true
  | Some i => match hget (sheap st) i with
              | None => mkhint false false false 0 (vis_count out) (accepted out) true
              | Some b => mkhint (shared b) (bimm b) (bnc b) (bsize b) (vis_count out) (accepted out) true
              end
  end.

(* the slice whose window the harness checks before applying the operation *)
Definition cons_of (st : state) (o : op) : bool :=
  match o with
  | OXAssignSlice _ s => consistent st s
  | _ => consistent st (target o)
  end.

Definition hint_of (st : state) (o : op) (out : outcome) : hint :=
  with_cons (hint_base st o out) (cons_of st o).

(* value-level projection of an outcome (the mechanism number is dropped) *)
Definition vis (out : outcome) : outcome := match out with ODone n _ => ODone n 0 | o => o end.

(* run a history on the specification, hints taken from the mechanism run *)
Fixpoint srun (st : state) (vs : list sv) (ops : list op) : list (list sv * outcome) :=
  match ops with
  | [] => []
  | o :: r =>
    let '(st', out) := step st o in
    let '(vs', sout) := sstep vs o (hint_of st o out) in
    (vs', sout) :: srun st' vs' r
  end.
