(* C04/ArrayBuf.v — the buffer-level functions (mpt_buffer_set/insert/cut and the
   content transfer of detach) as vector operations on what the buffer holds. *)
From MptV Require Import Base.Mem Base.Tactics C04.ArrayModel C04.ArraySpec C04.ArrayHeap.
Local Open Scope nat_scope.
Local Open Scope bool_scope.

(* ------------------------------------------------------------------ list tools *)
Lemma nth_firstn_if {A} (l : list A) n i d : nth i (firstn n l) d = if i <? n then nth i l d else d.
Proof.
  destruct (Nat.ltb_spec i n); [apply nth_firstn'; assumption|].
  apply nth_overflow. rewrite firstn_length. lia.
Qed.

Lemma length_zeros n : length (zeros n) = n.
Proof. apply repeat_length. Qed.

Lemma nth_zeros n i : nth i (zeros n) 0%N = 0%N.
Proof.
  unfold zeros. destruct (Nat.ltb_spec i n); [apply nth_repeat'; assumption|].
  apply nth_overflow. rewrite repeat_length. assumption.
Qed.

Lemma length_nil_N : length (@nil N) = 0.
Proof. reflexivity. Qed.

Ltac len_simp :=
  repeat rewrite ?app_length, ?firstn_length, ?skipn_length, ?repeat_length, ?length_zeros.
Ltac len_simp_in H :=
  repeat rewrite ?app_length, ?firstn_length, ?skipn_length, ?repeat_length, ?length_zeros in H.

(* settle one comparison: by lia when the context decides it, by a case split otherwise *)
Ltac cmp_step :=
  match goal with
  | |- context [?a <? ?b] =>
    first [ rewrite (proj2 (Nat.ltb_lt a b)) by lia | rewrite (proj2 (Nat.ltb_ge a b)) by lia
          | destruct (Nat.ltb_spec a b) ]
  | |- context [?a <=? ?b] =>
    first [ rewrite (proj2 (Nat.leb_le a b)) by lia | rewrite (proj2 (Nat.leb_gt a b)) by lia
          | destruct (Nat.leb_spec a b) ]
  | |- context [?a =? ?b] =>
    first [ rewrite (proj2 (Nat.eqb_eq a b)) by lia | rewrite (proj2 (Nat.eqb_neq a b)) by lia
          | destruct (Nat.eqb_spec a b) ]
  end.
Ltac min_simp :=
  repeat match goal with
  | |- context [Nat.min ?a ?b] =>
    first [ rewrite (Nat.min_l a b) by lia | rewrite (Nat.min_r a b) by lia ]
  end.
Ltac min_simp_in H :=
  repeat match type of H with
  | context [Nat.min ?a ?b] =>
    first [ rewrite (Nat.min_l a b) in H by lia | rewrite (Nat.min_r a b) in H by lia ]
  end.

(* as list_eq below, with explicit splits of the index range first: [k i] splits on the index i *)
Ltac list_eq_k k :=
  apply (nth_ext' _ _ 0%N);
  [ len_simp; min_simp; lia
  | let i := fresh "i" in let Hi := fresh "Hi" in
    intros i Hi; len_simp_in Hi; min_simp_in Hi;
    repeat (rewrite ?nth_app, ?nth_firstn_if, ?nth_skipn', ?nth_zeros; len_simp; min_simp);
    k i;
    repeat cmp_step; try lia; try reflexivity; try (f_equal; lia) ].

(* two byte lists are equal: same length, same bytes (default 0 so that zero fill is transparent) *)
Ltac list_eq :=
  apply (nth_ext' _ _ 0%N);
  [ len_simp; min_simp; lia
  | let i := fresh "i" in let Hi := fresh "Hi" in
    intros i Hi; len_simp_in Hi; min_simp_in Hi;
    repeat (rewrite ?nth_app, ?nth_firstn_if, ?nth_skipn', ?nth_zeros; len_simp; min_simp);
    repeat cmp_step; try lia; try reflexivity; try (f_equal; lia) ].

Lemma wr_sem m i d : i + length d <= length m -> wr m i d = Ok (firstn i m ++ d ++ skipn (i + length d) m).
Proof. apply wr_ok. Qed.

Lemma wr_fault m i d : wr m i d <> Fault -> i + length d <= length m.
Proof. unfold wr. destruct (Nat.leb_spec (i + length d) (length m)); [auto|congruence]. Qed.

Lemma mv_sem m dst src n : src + n <= length m -> dst + n <= length m ->
  mv m dst src n = Ok (firstn dst m ++ firstn n (skipn src m) ++ skipn (dst + n) m).
Proof.
  intros H1 H2. unfold mv. rewrite rd_ok by assumption. simpl. unfold slice.
  rewrite wr_ok; rewrite firstn_length, skipn_length, Nat.min_l by lia; [reflexivity|lia].
Qed.

(* ------------------------------------------------------------------ what a buffer function may change *)
Definition keeps (b b' : buf) : Prop :=
  bref b' = bref b /\ bimm b' = bimm b /\ bnc b' = bnc b /\ btr b' = btr b /\ bsize b' = bsize b.

Lemma bview_length b : buf_wf b -> length (bview b) = bused b.
Proof. intros [L [U _]]. unfold bview. rewrite firstn_length. lia. Qed.

Lemma mod_aligned t n : aligned t n = true <-> n mod t = 0.
Proof. unfold aligned. apply Nat.eqb_eq. Qed.

Lemma aligned_add t a b : t <> 0 -> a mod t = 0 -> b mod t = 0 -> (a + b) mod t = 0.
Proof.
  intros Ht Ha Hb. rewrite Nat.add_mod by assumption. rewrite Ha, Hb. simpl. apply Nat.mod_0_l. assumption.
Qed.

(* ------------------------------------------------------------------ mpt_buffer_set *)
Definition set_cond (b : buf) (str pos len : nat) : bool :=
  (pos + len <=? bsize b) &&
  (if btr b =? 0 then str =? 0
   else negb (str =? 0) && aligned str pos && aligned str len && (btr b =? str)).

Lemma buffer_set_sem b str pos d : buf_wf b ->
  match buffer_set b str pos d with
  | Ok b' => keeps b b' /\ buf_wf b' /\ bview b' = put (bview b) pos d /\ set_cond b str pos (length d) = true
  | Err _ => set_cond b str pos (length d) = false
  | Fault => False
  end.
Proof.
  intros [L [U A]]. unfold buffer_set, set_cond.
  destruct (Nat.ltb_spec (bsize b) (pos + length d)) as [Hs|Hs].
  { rewrite (proj2 (Nat.leb_gt _ _)) by lia. reflexivity. }
  rewrite (proj2 (Nat.leb_le _ _)) by lia. cbn [andb].
  assert (Raw : forall used, used <= bsize b -> (btr b <> 0 -> used mod btr b = 0) -> used = bused b ->
    (btr b <> 0 -> pos mod btr b = 0 /\ length d mod btr b = 0) ->
    match
      (do m0 <- (if used <? pos then wr (bdata b) used (zeros (pos - used)) else Ok (bdata b));
       do m <- wr m0 pos d;
       Ok (set_used (set_data b m) (if used <? pos + length d then pos + length d else used)))
    with
    | Ok b' => keeps b b' /\ buf_wf b' /\ bview b' = put (bview b) pos d
    | Err _ => False | Fault => False end).
  { intros used Hu Hal -> Hpd.
    destruct (Nat.ltb_spec (bused b) pos) as [Hp|Hp].
    - rewrite wr_sem by (rewrite length_zeros; lia). cbn [bind].
      rewrite wr_sem by (len_simp; lia). cbn [bind].
      rewrite (proj2 (Nat.ltb_lt _ _)) by lia.
      split; [repeat split|split].
      + unfold buf_wf; cbn [bused bdata bsize btr set_used set_data]. repeat split.
        * len_simp. lia.
        * lia.
        * intros Ht. destruct (Hpd Ht). apply aligned_add; assumption.
      + unfold bview, put; cbn [bused bdata set_used set_data]. rewrite firstn_length, L, Nat.min_l by lia.
        rewrite (proj2 (Nat.ltb_lt _ _)) by lia. list_eq.
    - cbn [bind]. rewrite wr_sem by lia. cbn [bind].
      split; [repeat split|split].
      + unfold buf_wf; cbn [bused bdata bsize btr set_used set_data]. repeat split.
        * len_simp. lia.
        * destruct (Nat.ltb_spec (bused b) (pos + length d)); lia.
        * intros Ht. destruct (Hpd Ht). destruct (Nat.ltb_spec (bused b) (pos + length d)); [apply aligned_add; assumption|auto].
      + unfold bview, put; cbn [bused bdata set_used set_data]. rewrite firstn_length, L, Nat.min_l by lia.
        rewrite (proj2 (Nat.ltb_ge (bused b) pos)) by lia.
        destruct (Nat.ltb_spec (bused b) (pos + length d)); list_eq. }
  destruct (Nat.eqb_spec (btr b) 0) as [Ht|Ht].
  - destruct (Nat.eqb_spec str 0) as [Hs0|Hs0]; cbn [negb]; [|reflexivity].
    specialize (Raw (bused b) U A eq_refl ltac:(intros; contradiction)).
    destruct (do m0 <- _; _) as [b'| |]; try contradiction. intuition.
  - destruct (Nat.eqb_spec str 0) as [Hs0|Hs0]; cbn [negb andb]; [reflexivity|].
    destruct (aligned str pos) eqn:A1; cbn [negb andb]; [|reflexivity].
    destruct (aligned str (length d)) eqn:A2; cbn [negb andb]; [|reflexivity].
    destruct (Nat.eqb_spec (btr b) str) as [He|He]; cbn [negb]; [|reflexivity].
    subst str. rewrite (A Ht), Nat.sub_0_r.
    apply mod_aligned in A1, A2.
    specialize (Raw (bused b) U A eq_refl ltac:(auto)).
    destruct (do m0 <- _; _) as [b'| |]; try contradiction. intuition.
Qed.

(* ------------------------------------------------------------------ mpt_buffer_insert + the caller's store *)
Definition ins_total (b : buf) (pos len : nat) : nat := if pos <? bused b then bused b + len else pos + len.
Definition ins_cond (b : buf) (pos len : nat) : bool :=
  (ins_total b pos len =? 0) ||
  ((ins_total b pos len <=? bsize b) && negb (bimm b) &&
   ((btr b =? 0) || (aligned (btr b) (bused b) && aligned (btr b) pos && aligned (btr b) len))).

Lemma buffer_insert_sem b pos d : buf_wf b ->
  match buffer_insert b pos (length d) with
  | Ok b1 =>
    ins_cond b pos (length d) = true /\ keeps b b1 /\
    match wr (bdata b1) pos d with
    | Ok m => buf_wf (set_data b1 m) /\ bview (set_data b1 m) = ins (bview b) pos d
    | _ => False
    end
  | Err _ => ins_cond b pos (length d) = false
  | Fault => False
  end.
Proof.
  intros [L [U A]]. unfold buffer_insert, ins_cond, ins_total.
  set (total := if pos <? bused b then bused b + length d else pos + length d).
  destruct (Nat.eqb_spec total 0) as [T0|T0].
  { cbn [orb]. split; [reflexivity|]. split; [unfold keeps; auto|].
    assert (pos = 0 /\ length d = 0 /\ bused b = 0) as [-> [Ld Ub]].
    { subst total. destruct (Nat.ltb_spec pos (bused b)); lia. }
    destruct d; [|discriminate]. rewrite wr_sem by (simpl; lia). split.
    - unfold buf_wf; cbn [bused bdata bsize btr set_data]. repeat split; auto.
    - unfold bview, ins; cbn [bused bdata set_data]. rewrite Ub. reflexivity. }
  cbn [orb].
  destruct (Nat.ltb_spec (bsize b) total) as [Hs|Hs].
  { rewrite (proj2 (Nat.leb_gt _ _)) by lia. reflexivity. }
  rewrite (proj2 (Nat.leb_le _ _)) by lia. cbn [andb].
  destruct (bimm b); cbn [negb andb]; [reflexivity|].
  assert (Main : (btr b <> 0 -> bused b mod btr b = 0 /\ pos mod btr b = 0 /\ length d mod btr b = 0) ->
    match
      (do m1 <- (if (if pos <? bused b then bused b - pos else 0) =? 0 then Ok (bdata b)
                 else mv (bdata b) (total - (if pos <? bused b then bused b - pos else 0)) pos
                        (if pos <? bused b then bused b - pos else 0));
       do m2 <- (if bused b <? pos then wr m1 (bused b) (zeros (pos - bused b)) else Ok m1);
       Ok (set_used (set_data b m2) total))
    with
    | Ok b1 => keeps b b1 /\
      match wr (bdata b1) pos d with
      | Ok m => buf_wf (set_data b1 m) /\ bview (set_data b1 m) = ins (bview b) pos d
      | _ => False end
    | _ => False end).
  { intros Hal. subst total. destruct (Nat.ltb_spec pos (bused b)) as [Hp|Hp].
    - rewrite (proj2 (Nat.eqb_neq _ _)) by lia.
      rewrite mv_sem by lia. cbn [bind]. rewrite (proj2 (Nat.ltb_ge _ _)) by lia. cbn [bind].
      split; [unfold keeps; auto|]. cbn [bdata set_used set_data].
      rewrite wr_sem by (len_simp; lia). split.
      + unfold buf_wf; cbn [bused bdata bsize btr set_used set_data]. repeat split.
        * len_simp. lia.
        * lia.
        * intros Ht. destruct (Hal Ht) as [? [? ?]]. apply aligned_add; assumption.
      + unfold bview, ins; cbn [bused bdata set_used set_data]. rewrite firstn_length, L, Nat.min_l by lia.
        rewrite (proj2 (Nat.ltb_lt pos (bused b))) by lia.
        list_eq_k ltac:(fun i => split_at i pos; [|split_at i (pos + length d)]).
    - rewrite Nat.eqb_refl. cbn [bind].
      destruct (Nat.ltb_spec (bused b) pos) as [Hq|Hq].
      + rewrite wr_sem by (rewrite length_zeros; lia). cbn [bind].
        split; [unfold keeps; auto|]. cbn [bdata set_used set_data].
        rewrite wr_sem by (len_simp; lia). split.
        * unfold buf_wf; cbn [bused bdata bsize btr set_used set_data]. repeat split.
          -- len_simp. lia.
          -- lia.
          -- intros Ht. destruct (Hal Ht) as [? [? ?]]. apply aligned_add; assumption.
        * unfold bview, ins; cbn [bused bdata set_used set_data]. rewrite firstn_length, L, Nat.min_l by lia.
          rewrite (proj2 (Nat.ltb_ge pos (bused b))) by lia.
          list_eq_k ltac:(fun i => split_at i (bused b); [|split_at i pos]).
      + cbn [bind]. split; [unfold keeps; auto|]. cbn [bdata set_used set_data].
        rewrite wr_sem by lia. split.
        * unfold buf_wf; cbn [bused bdata bsize btr set_used set_data]. repeat split.
          -- len_simp. lia.
          -- lia.
          -- intros Ht. destruct (Hal Ht) as [? [? ?]]. apply aligned_add; assumption.
        * unfold bview, ins; cbn [bused bdata set_used set_data]. rewrite firstn_length, L, Nat.min_l by lia.
          rewrite (proj2 (Nat.ltb_ge pos (bused b))) by lia.
          list_eq_k ltac:(fun i => split_at i (bused b); [|split_at i pos]). }
  destruct (Nat.eqb_spec (btr b) 0) as [Ht|Ht]; cbn [negb andb orb].
  - specialize (Main ltac:(intros; contradiction)).
    destruct (do m1 <- _; _) as [b1| |]; try contradiction. intuition.
  - destruct (aligned (btr b) (bused b)) eqn:A1; cbn [negb andb]; [|reflexivity].
    destruct (aligned (btr b) pos) eqn:A2; cbn [negb andb]; [|reflexivity].
    destruct (aligned (btr b) (length d)) eqn:A3; cbn [negb andb]; [|reflexivity].
    apply mod_aligned in A1, A2, A3.
    specialize (Main ltac:(auto)).
    destruct (do m1 <- _; _) as [b1| |]; try contradiction. intuition.
Qed.

(* ------------------------------------------------------------------ mpt_buffer_cut *)
Definition cut_cond (b : buf) (off len : nat) : bool :=
  (len <=? bused b) && (if len =? 0 then off <=? bused b else off <=? bused b - len) &&
  ((btr b =? 0) || (aligned (btr b) off && aligned (btr b) len)).

Lemma aligned_sub t a b : t <> 0 -> b <= a -> a mod t = 0 -> b mod t = 0 -> (a - b) mod t = 0.
Proof.
  intros Ht Hle Ha Hb.
  apply Nat.mod_divide in Ha, Hb; try assumption. apply Nat.mod_divide; [assumption|].
  destruct Ha as [x ->], Hb as [y ->]. exists (x - y). rewrite Nat.mul_sub_distr_r. reflexivity.
Qed.

Lemma buffer_cut_sem b off len : buf_wf b ->
  match buffer_cut b off len with
  | Ok b' => cut_cond b off len = true /\ keeps b b' /\ buf_wf b' /\
             bview b' = (if len =? 0 then firstn off (bview b) else cutv (bview b) off len)
  | Err _ => cut_cond b off len = false
  | Fault => False
  end.
Proof.
  intros [L [U A]]. unfold buffer_cut, cut_cond.
  destruct (Nat.ltb_spec (bused b) len) as [Hl|Hl].
  { rewrite (proj2 (Nat.leb_gt _ _)) by lia. reflexivity. }
  rewrite (proj2 (Nat.leb_le _ _)) by lia. cbn [andb].
  assert (Main : forall len1 keep, (if len =? 0 then len1 = bused b - off /\ keep = off /\ off <= bused b
                                    else len1 = len /\ keep = bused b - len /\ off <= keep) ->
     (btr b <> 0 -> off mod btr b = 0 /\ len1 mod btr b = 0) ->
     match (do m <- (if keep - off =? 0 then Ok (bdata b) else mv (bdata b) off (off + len1) (keep - off));
            Ok (set_used (set_data b m) (off + (keep - off)))) with
     | Ok b' => keeps b b' /\ buf_wf b' /\
                bview b' = (if len =? 0 then firstn off (bview b) else cutv (bview b) off len)
     | _ => False end).
  { intros len1 keep Hk Hal. destruct (Nat.eqb_spec len 0) as [->|Hn].
    - destruct Hk as [-> [-> Ho]]. rewrite Nat.sub_diag. cbn [Nat.eqb bind].
      split; [unfold keeps; auto|]. split.
      + unfold buf_wf; cbn [bused bdata bsize btr set_used set_data]. repeat split; try lia.
        intros Ht. destruct (Hal Ht). rewrite Nat.add_0_r. assumption.
      + unfold bview; cbn [bused bdata set_used set_data]. list_eq.
    - destruct Hk as [-> [-> Ho]].
      destruct (Nat.eqb_spec (bused b - len - off) 0) as [Hz|Hz]; cbn [bind].
      + split; [unfold keeps; auto|]. split.
        * unfold buf_wf; cbn [bused bdata bsize btr set_used set_data]. repeat split; try lia.
          intros Ht. destruct (Hal Ht). rewrite Hz, Nat.add_0_r. assumption.
        * unfold bview, cutv; cbn [bused bdata set_used set_data]. list_eq.
      + rewrite mv_sem by lia. cbn [bind].
        split; [unfold keeps; auto|]. split.
        * unfold buf_wf; cbn [bused bdata bsize btr set_used set_data]. repeat split.
          -- len_simp. lia.
          -- lia.
          -- intros Ht. destruct (Hal Ht).
             replace (off + (bused b - len - off)) with (bused b - len) by lia.
             apply aligned_sub; auto.
        * unfold bview, cutv; cbn [bused bdata set_used set_data]. list_eq. }
  destruct (Nat.eqb_spec len 0) as [Hn|Hn].
  - destruct (Nat.ltb_spec (bused b) off) as [Ho|Ho].
    { rewrite (proj2 (Nat.leb_gt _ _)) by lia. reflexivity. }
    rewrite (proj2 (Nat.leb_le _ _)) by lia. cbn [bind andb].
    destruct (Nat.eqb_spec (btr b) 0) as [Ht|Ht]; cbn [negb andb orb].
    + specialize (Main (bused b - off) off ltac:(auto) ltac:(intros; contradiction)).
      destruct (do m <- _; _) as [b'| |]; try contradiction. intuition.
    + assert (A0 : aligned (btr b) len = true).
      { rewrite Hn. unfold aligned. rewrite Nat.mod_0_l by assumption. reflexivity. }
      rewrite A0, andb_true_r.
      destruct (aligned (btr b) off) eqn:A1; cbn [negb andb].
      * apply mod_aligned in A1.
        assert (A2 : (bused b - off) mod btr b = 0) by (apply aligned_sub; auto).
        assert (A2' : aligned (btr b) (bused b - off) = true) by (apply mod_aligned; exact A2).
        rewrite A2'. cbn [negb].
        specialize (Main (bused b - off) off ltac:(auto) ltac:(auto)).
        destruct (do m <- _; _) as [b'| |]; try contradiction. intuition.
      * reflexivity.
  - destruct (Nat.ltb_spec (bused b - len) off) as [Ho|Ho].
    { rewrite (proj2 (Nat.leb_gt _ _)) by lia. reflexivity. }
    rewrite (proj2 (Nat.leb_le _ _)) by lia. cbn [bind andb].
    destruct (Nat.eqb_spec (btr b) 0) as [Ht|Ht]; cbn [negb andb orb].
    + specialize (Main len (bused b - len) ltac:(auto) ltac:(intros; contradiction)).
      destruct (do m <- _; _) as [b'| |]; try contradiction. intuition.
    + destruct (aligned (btr b) off) eqn:A1; cbn [negb andb]; [|reflexivity].
      destruct (aligned (btr b) len) eqn:A2; cbn [negb andb]; [|reflexivity].
      apply mod_aligned in A1, A2.
      specialize (Main len (bused b - len) ltac:(auto) ltac:(auto)).
      destruct (do m <- _; _) as [b'| |]; try contradiction. intuition.
Qed.
