(* C04/ArrayOps.v — detach and the array-level functions: each result is a private
   transition of the target array whose new value is the vector operation of the
   specification. *)
From MptV Require Import Base.Mem Base.Tactics C04.ArrayModel C04.ArraySpec C04.ArrayHeap C04.ArrayBuf.
Local Open Scope nat_scope.
Local Open Scope bool_scope.

Ltac bsimp := cbn [bdata bsize bused btr bref bimm bnc set_tr set_used set_data set_ref set_flags new_buf].
Ltac bsimp_in H := cbn [bdata bsize bused btr bref bimm bnc set_tr set_used set_data set_ref set_flags new_buf] in H.

Lemma alloc_size_ge n : n <= alloc_size n.
Proof.
  unfold alloc_size, HDR, PAGE.
  pose proof (Nat.div_mod (n + 64 - 1) 128 ltac:(lia)).
  pose proof (Nat.mod_upper_bound (n + 64 - 1) 128 ltac:(lia)). lia.
Qed.

Lemma round_up_ge t n : n <= round_up t n.
Proof. unfold round_up. destruct (n mod t =? 0); lia. Qed.

Lemma new_buf_wf n imm nc : buf_wf (new_buf n imm nc).
Proof. unfold buf_wf, new_buf; cbn. rewrite repeat_length. repeat split; try lia. Qed.

Lemma new_buf_view n imm nc : bview (new_buf n imm nc) = [].
Proof. reflexivity. Qed.

Lemma buf_wf_set_tr_empty b t : buf_wf b -> bused b = 0 -> buf_wf (set_tr b t).
Proof.
  intros [L [U A]] Z. unfold buf_wf; cbn [bdata bsize bused btr set_tr]. repeat split; auto.
  intros Ht. rewrite Z. apply Nat.mod_0_l. assumption.
Qed.

Lemma hunref_shared hp i b : hget hp i = Some b -> 2 <= bref b ->
  hunref hp i = hset hp i (set_ref b (bref b - 1)).
Proof. intros E R. unfold hunref. rewrite E. destruct (Nat.leb_spec (bref b) 1); [lia|reflexivity]. Qed.

Lemma put_nil_0 d : put [] 0 d = d.
Proof. unfold put. simpl. rewrite skipn_nil, app_nil_r. reflexivity. Qed.

Lemma moved_buf_ok b n nc : buf_wf b -> bused b <= alloc_size n ->
  let content := slice 0 (bused b) (bdata b) in
  let nb := set_used (set_data (set_tr (new_buf n false nc) (btr b))
              (firstn 0 (repeat POISON (alloc_size n)) ++ content ++
               skipn (0 + length content) (repeat POISON (alloc_size n)))) (bused b) in
  buf_wf nb /\ bview nb = bview b.
Proof.
  intros [L [U A]] H content nb. subst content nb.
  assert (LS : length (slice 0 (bused b) (bdata b)) = bused b) by (apply length_slice; lia).
  split.
  - unfold buf_wf; bsimp. rewrite LS. repeat split; try exact A; try lia.
    len_simp. rewrite LS. simpl. lia.
  - unfold bview; bsimp. rewrite LS. unfold slice. simpl skipn at 1. simpl firstn at 2. rewrite app_nil_l. list_eq.
Qed.

Lemma fresh_copy b n nc : buf_wf b -> bused b <= n ->
  match buffer_set (set_tr (new_buf n false nc) (btr b)) (btr b) 0 (firstn (bused b) (bdata b)) with
  | Ok nx' => bref nx' = 1 /\ bimm nx' = false /\ bnc nx' = nc /\ btr nx' = btr b /\ bview nx' = bview b /\
              bused nx' = bused b /\ n <= bsize nx' /\ buf_wf nx'
  | _ => False
  end.
Proof.
  intros [L [U A]] Hn.
  assert (WN : buf_wf (set_tr (new_buf n false nc) (btr b)))
    by (apply buf_wf_set_tr_empty; [apply new_buf_wf|reflexivity]).
  pose proof (buffer_set_sem _ (btr b) 0 (firstn (bused b) (bdata b)) WN) as S.
  pose proof (alloc_size_ge n).
  assert (LF : length (firstn (bused b) (bdata b)) = bused b) by (rewrite firstn_length; lia).
  destruct (buffer_set _ _ 0 _) as [nx'| |] eqn:Eb.
  - destruct S as [[K1 [K2 [K3 [K4 K5]]]] [W' [V _]]]. bsimp_in K1. bsimp_in K2. bsimp_in K3. bsimp_in K4. bsimp_in K5.
    assert (V0 : bview nx' = bview b).
    { rewrite V. unfold bview at 2. bsimp. simpl firstn at 1. apply put_nil_0. }
    pose proof (bview_length _ W') as BL. rewrite V0 in BL. unfold bview in BL. rewrite LF in BL.
    rewrite K5. repeat (split; [solve [auto | lia]|]). exact W'.
  - unfold set_cond in S. rewrite LF in S. bsimp_in S.
    rewrite (proj2 (Nat.leb_le _ _)) in S by lia. cbn [andb] in S.
    destruct (Nat.eqb_spec (btr b) 0) as [T0|T0]; [discriminate|].
    rewrite Nat.eqb_refl in S. cbn [negb andb] in S.
    unfold aligned in S. rewrite Nat.mod_0_l, (A T0), Nat.eqb_refl in S by assumption. discriminate.
  - assumption.
Qed.

(* what detach guarantees about the private buffer *)
Definition private_copy (b b1 : buf) (len : nat) : Prop :=
  bref b1 = 1 /\ bimm b1 = false /\ bnc b1 = bnc b /\ btr b1 = btr b /\ bview b1 = bview b /\
  bused b1 = bused b /\ len <= bsize b1 /\ buf_wf b1.

Lemma detach_sem hp i b len : hget hp i = Some b -> buf_wf b -> 1 <= bref b ->
  (bused b <= len \/ (bref b = 1 /\ bimm b = false)) ->
  match detach hp i len with
  | Ok (hp', j) => exists b1, hget hp' j = Some b1 /\ ptrans hp (Some i) hp' (Some j) /\ private_copy b b1 len /\
                   (shared b && bnc b && negb (bused b =? 0)) = false
  | Err _ => (shared b && bnc b && negb (bused b =? 0)) = true
  | Fault => False
  end.
Proof.
  intros E W R Pre. unfold detach. rewrite E.
  set (len' := if btr b =? 0 then len else round_up (btr b) len).
  assert (Hl : len <= len').
  { subst len'. destruct (btr b =? 0); [lia|apply round_up_ge]. }
  destruct W as [L [U A]].
  destruct (Nat.ltb_spec (bref b) 2) as [R2|R2]; cbn [andb negb].
  - (* last reference *)
    destruct (Nat.leb_spec len' (bsize b)) as [Hs|Hs]; cbn [andb].
    + destruct (bimm b) eqn:Im; cbn [negb].
      * (* immutable: move *)
        destruct (Nat.leb_spec 2 (bref b)); [lia|].
        assert (Hu : bused b <= len') by (destruct Pre as [?|[_ ?]]; [lia|discriminate]).
        rewrite (proj2 (Nat.ltb_ge len' (bused b))) by lia.
        rewrite rd_ok by lia. cbn [bind].
        pose proof (alloc_size_ge len').
        rewrite wr_sem by (bsimp; rewrite repeat_length, length_slice by lia; lia). cbn [bind].
        destruct (moved_buf_ok b len' (bnc b) (conj L (conj U A)) ltac:(lia)) as [WN VN].
        eexists. split; [|split].
        -- rewrite hget_app_r by (rewrite length_hfree; lia). rewrite length_hfree, Nat.sub_diag. reflexivity.
        -- rewrite <- (hunref_private hp i b E ltac:(lia)).
           replace (length hp) with (length hp + 0) by lia.
           apply (P_fresh hp (Some i) 0); [reflexivity|exact WN].
        -- split; [|unfold shared; rewrite (proj2 (Nat.leb_gt _ _)) by lia; reflexivity].
           unfold private_copy. split; [reflexivity|]. split; [reflexivity|]. split; [reflexivity|].
           split; [reflexivity|]. split; [exact VN|]. split; [reflexivity|]. split; [bsimp; lia|exact WN].
      * exists b. split; [assumption|]. split; [apply P_same|].
        split; [|unfold shared; rewrite (proj2 (Nat.leb_gt _ _)) by lia; reflexivity].
        unfold private_copy. repeat split; auto; lia.
    + (* too small: move *)
      cbn [andb]. destruct (Nat.leb_spec 2 (bref b)); [lia|].
      rewrite (proj2 (Nat.ltb_ge len' (bused b))) by lia.
      rewrite rd_ok by lia. cbn [bind].
      pose proof (alloc_size_ge len').
      rewrite wr_sem by (bsimp; rewrite repeat_length, length_slice by lia; lia). cbn [bind].
      destruct (moved_buf_ok b len' (bnc b) (conj L (conj U A)) ltac:(lia)) as [WN VN].
      eexists. split; [|split].
      -- rewrite hget_app_r by (rewrite length_hfree; lia). rewrite length_hfree, Nat.sub_diag. reflexivity.
      -- rewrite <- (hunref_private hp i b E ltac:(lia)).
         replace (length hp) with (length hp + 0) by lia.
         apply (P_fresh hp (Some i) 0); [reflexivity|exact WN].
      -- split; [|unfold shared; rewrite (proj2 (Nat.leb_gt _ _)) by lia; reflexivity].
         unfold private_copy. split; [reflexivity|]. split; [reflexivity|]. split; [reflexivity|].
         split; [reflexivity|]. split; [exact VN|]. split; [reflexivity|]. split; [bsimp; lia|exact WN].
  - (* shared *)
    destruct (bnc b && negb (bused b =? 0)) eqn:Blk.
    { unfold shared. rewrite (proj2 (Nat.leb_le _ _)) by lia. rewrite <- andb_assoc. exact Blk. }
    rewrite (proj2 (Nat.leb_le 2 (bref b))) by lia.
    assert (Hu : bused b <= len') by (destruct Pre as [?|[? _]]; lia).
    rewrite (proj2 (Nat.ltb_ge len' (bused b))) by lia.
    pose proof (fresh_copy b len' (bnc b) (conj L (conj U A)) Hu) as F.
    destruct (buffer_set _ _ 0 _) as [nx'| |]; try contradiction.
    destruct F as [F1 [F2 [F3 [F4 [F5 [F6 [F7 F8]]]]]]].
    exists nx'. split; [|split].
    + rewrite hget_app_r by (rewrite length_hset; lia). rewrite length_hset, Nat.sub_diag. reflexivity.
    + rewrite <- (hunref_shared hp i b E ltac:(lia)).
      replace (length hp) with (length hp + 0) by lia.
      apply (P_fresh hp (Some i) 0); assumption.
    + split; [|unfold shared; rewrite (proj2 (Nat.leb_le _ _)) by lia; rewrite <- andb_assoc; exact Blk].
      unfold private_copy. repeat (split; [solve [auto | lia]|]). assumption.
Qed.

(* ------------------------------------------------------------------ framework for the array functions *)
Definition aval (hp : heap) (a : arr) : sval :=
  match a with None => None | Some i => option_map bval (hget hp i) end.

Definition hint_at (hp : heap) (a : arr) (cnt : nat) (acc : bool) : hint :=
  match a with
  | None => mkhint false false false 0 cnt acc true
  | Some i => match hget hp i with
              | None => mkhint false false false 0 cnt acc true
              | Some b => mkhint (shared b) (bimm b) (bnc b) (bsize b) cnt acc true
              end
  end.

Definition blk (b : buf) : bool := shared b && bnc b && negb (bused b =? 0).

Lemma blocked_blk hp i b cnt acc : hget hp i = Some b -> buf_wf b ->
  blocked (hint_at hp (Some i) cnt acc) (bview b) = blk b.
Proof.
  intros E W. unfold blocked, hint_at, blk. rewrite E. cbn [hsh hnc]. rewrite (bview_length _ W). reflexivity.
Qed.

Lemma P_fresh0 hp a b' : bref b' = 1 -> buf_wf b' -> ptrans hp a (unref_opt hp a ++ [Some b']) (Some (length hp)).
Proof.
  intros R W. replace (length hp) with (length hp + 0) by lia. apply (P_fresh hp a 0 b' R W).
Qed.

Lemma with_private_sem hp i b need len k (Q : ares -> Prop) :
  hget hp i = Some b -> buf_wf b -> 1 <= bref b -> bused b <= len ->
  (need = false -> Q (k hp i)) ->
  (need = true -> blk b = true -> Q (ARefused hp (Some i))) ->
  (need = true -> blk b = false -> forall hp1 j b1, hget hp1 j = Some b1 ->
     ptrans hp (Some i) hp1 (Some j) -> private_copy b b1 len -> Q (k hp1 j)) ->
  Q (with_private hp i need len k).
Proof.
  intros E W R Hu H0 H1 H2. unfold with_private. destruct need; [|auto].
  pose proof (detach_sem hp i b len E W R (or_introl Hu)) as D.
  destruct (detach hp i len) as [[hp1 j]| |]; [|auto|contradiction].
  destruct D as [b1 [E1 [T [PC NB]]]]. eapply H2; eauto.
Qed.

Lemma inplace_done hp a hp1 j b1 b2 :
  ptrans hp a hp1 (Some j) -> hget hp1 j = Some b1 -> bref b1 = 1 -> bref b2 = 1 -> buf_wf b2 ->
  ptrans hp a (hset hp1 j b2) (Some j) /\ aval (hset hp1 j b2) (Some j) = Some (bval b2).
Proof.
  intros T E R1 R2 W. split.
  - eapply ptrans_trans; [exact T|]. eapply P_inplace; eauto.
  - unfold aval. rewrite hget_hset, Nat.eqb_refl, (proj2 (Nat.ltb_lt _ _) (hget_lt _ _ _ E)). reflexivity.
Qed.

Lemma store_hset hp j b2 pos d : j < length hp ->
  store (hset hp j b2) j pos d = (do m <- wr (bdata b2) pos d; Ok (hset hp j (set_data b2 m))).
Proof.
  intros H. unfold store. rewrite hget_hset, Nat.eqb_refl, (proj2 (Nat.ltb_lt _ _) H). cbn [andb].
  destruct (wr (bdata b2) pos d); cbn [bind]; [rewrite hset_hset|..]; reflexivity.
Qed.

(* result of an array function against the specification's verdict for the target value *)
Definition ares_ok (hp : heap) (a : arr) (r : ares) (spec : sval * outcome) (vis : bool) : Prop :=
  match r with
  | ADone hp' a' n => ptrans hp a hp' a' /\ spec = (aval hp' a', ODone (if vis then n else 0) 0)
  | ARefused hp' a' => ptrans hp a hp' a' /\ spec = (aval hp a, ORefused) /\ aval hp' a' = aval hp a
  | AFault => False
  end.

Definition aok (hp : heap) (a : arr) : Prop :=
  forall i, a = Some i -> exists b, hget hp i = Some b /\ buf_wf b /\ 1 <= bref b.

Lemma private_aval hp i b hp1 j b1 len : hget hp i = Some b -> hget hp1 j = Some b1 -> private_copy b b1 len ->
  aval hp1 (Some j) = aval hp (Some i).
Proof.
  intros E E1 [_ [_ [_ [T [V _]]]]]. unfold aval. rewrite E, E1. simpl. unfold bval. rewrite T, V. reflexivity.
Qed.

(* ------------------------------------------------------------------ mpt_array_append *)
Lemma append_at_sem hp a hp1 j b1 d :
  ptrans hp a hp1 (Some j) -> hget hp1 j = Some b1 -> buf_wf b1 -> btr b1 = 0 ->
  (length d <> 0 -> bref b1 = 1 /\ bused b1 + length d <= bsize b1) ->
  ares_ok hp a (append_at hp1 j (bused b1) d) (Some (0, bview b1 ++ d), ODone 0 0) false.
Proof.
  intros T E W Tr Hp. unfold append_at. rewrite E.
  destruct (Nat.eqb_spec (length d) 0) as [Z|Z].
  - destruct d; [|discriminate]. cbn [ares_ok]. split; [exact T|].
    rewrite app_nil_r. unfold aval. rewrite E. simpl. unfold bval. rewrite Tr. reflexivity.
  - destruct (Hp Z) as [R S]. destruct W as [L [U A]].
    rewrite wr_sem by lia. cbn [bind lift ares_ok].
    set (b2 := set_used (set_data b1 _) _).
    assert (W2 : buf_wf b2).
    { subst b2. unfold buf_wf; bsimp. split; [len_simp; lia|]. split; [lia|intros Ht; congruence]. }
    destruct (inplace_done hp a hp1 j b1 b2 T E R R W2) as [T2 V2].
    split; [exact T2|]. rewrite V2. unfold bval. subst b2. bsimp. rewrite Tr.
    repeat f_equal. unfold bview; bsimp. list_eq.
Qed.

Lemma array_append_sem hp a d cnt acc : aok hp a ->
  ares_ok hp a (array_append hp a d) (s_append (hint_at hp a cnt acc) (aval hp a) d) false.
Proof.
  intros OK. unfold array_append. destruct a as [i|].
  - destruct (OK i eq_refl) as [b [E [W R]]]. rewrite E. cbn [aval]. rewrite E. cbn [option_map].
    unfold s_append, bval. destruct (Nat.eqb_spec (btr b) 0) as [Tr|Tr]; cbn [negb].
    2:{ cbn [ares_ok]. split; [apply P_same|]. unfold aval. rewrite E. auto. }
    rewrite (blocked_blk hp i b cnt acc E W).
    apply with_private_sem with (b := b); auto; try lia.
    + (* stays in place *)
      intros Need. apply orb_false_elim in Need. destruct Need as [N1 N2].
      apply Nat.ltb_ge in N1.
      assert (BN : (blk b && negb (length d =? 0)) = false).
      { destruct (length d =? 0); [apply andb_false_r|]. cbn [negb andb] in N2.
        apply orb_false_elim in N2. destruct N2 as [S _]. unfold blk. rewrite S. reflexivity. }
      rewrite BN. unfold D.
      apply append_at_sem; auto; [apply P_same|].
      intros Z. rewrite (proj2 (Nat.eqb_neq _ _) Z) in N2. cbn [negb andb] in N2.
      apply orb_false_elim in N2. destruct N2 as [S _]. unfold shared in S. apply Nat.leb_gt in S.
      destruct W as [L [U A]]. lia.
    + (* refused: the buffer cannot be copied *)
      intros Need B. rewrite B. cbn [andb].
      assert (length d <> 0).
      { intros Z. rewrite Z, Nat.eqb_refl in Need. cbn [negb andb] in Need. rewrite orb_false_r in Need. apply Nat.ltb_lt in Need. lia. }
      rewrite (proj2 (Nat.eqb_neq _ _) H). cbn [negb ares_ok].
      split; [apply P_same|]. unfold aval. rewrite E. auto.
    + intros Need B hp1 j b1 E1 T PC. rewrite B. cbn [andb].
      destruct PC as [R1 [I1 [N1 [T1 [V1 [U1 [S1 W1]]]]]]].
      rewrite <- U1, <- V1. unfold D.
      apply append_at_sem; auto; [congruence|]. intros _. split; [assumption|lia].
  - cbn [aval s_append]. unfold halloc.
    pose proof (append_at_sem hp None (hp ++ [Some (new_buf (length d) false false)]) (length hp)
                  (new_buf (length d) false false) d) as H.
    cbn [bused new_buf] in H. unfold D. apply H; auto.
    + apply (P_fresh0 hp None); [reflexivity|apply new_buf_wf].
    + rewrite hget_app_r by lia. rewrite Nat.sub_diag. reflexivity.
    + apply new_buf_wf.
    + intros _. split; [reflexivity|]. cbn. apply alloc_size_ge.
Qed.

(* ------------------------------------------------------------------ mpt_array_insert *)
Lemma al3_zero t : t <> 0 -> al3 t 0 0 0 = true.
Proof. intros H. unfold al3, aligned. rewrite Nat.mod_0_l by assumption. reflexivity. Qed.

Lemma insert_at_sem hp a hp1 j b1 pos d :
  ptrans hp a hp1 (Some j) -> hget hp1 j = Some b1 -> buf_wf b1 -> bref b1 = 1 -> bimm b1 = false ->
  ins_total b1 pos (length d) <= bsize b1 -> aval hp a = Some (bval b1) ->
  ares_ok hp a (insert_at hp1 j pos d)
    (if negb (btr b1 =? 0) && negb (al3 (btr b1) (length (bview b1)) pos (length d))
     then R (Some (bval b1)) else D (Some (btr b1, ins (bview b1) pos d))) false.
Proof.
  intros T E W R I S AV. unfold insert_at. rewrite E.
  pose proof (buffer_insert_sem b1 pos d W) as B. rewrite (bview_length _ W).
  assert (IC : ins_cond b1 pos (length d) =
               negb (negb (btr b1 =? 0) && negb (al3 (btr b1) (bused b1) pos (length d)))).
  { unfold ins_cond. rewrite I, (proj2 (Nat.leb_le _ _) S). cbn [negb andb].
    destruct (Nat.eqb_spec (ins_total b1 pos (length d)) 0) as [Z|Z]; cbn [orb].
    - assert (pos = 0 /\ length d = 0 /\ bused b1 = 0) as [-> [-> ->]].
      { unfold ins_total in Z. destruct (Nat.ltb_spec pos (bused b1)); lia. }
      destruct (Nat.eqb_spec (btr b1) 0); cbn [negb andb]; [reflexivity|].
      rewrite al3_zero by assumption. reflexivity.
    - unfold al3. destruct (btr b1 =? 0); cbn [negb andb orb]; [reflexivity|].
      destruct (aligned (btr b1) (bused b1) && aligned (btr b1) pos && aligned (btr b1) (length d)); reflexivity. }
  destruct (buffer_insert b1 pos (length d)) as [b2| |]; [|cbn [bind lift ares_ok]|contradiction].
  - destruct B as [C [K B]]. rewrite IC in C. apply negb_true_iff in C. rewrite C.
    cbn [bind]. rewrite store_hset by (apply (hget_lt _ _ _ E)).
    destruct (wr (bdata b2) pos d) as [m| |]; try contradiction. destruct B as [W2 V2].
    cbn [bind lift ares_ok].
    destruct K as [K1 [K2 [K3 [K4 K5]]]].
    destruct (inplace_done hp a hp1 j b1 (set_data b2 m) T E R ltac:(bsimp; lia) W2) as [T2 AV2].
    split; [exact T2|]. rewrite AV2. unfold D, bval. rewrite V2. bsimp. rewrite K4. reflexivity.
  - rewrite IC in B. apply negb_false_iff in B. rewrite B.
    split; [exact T|]. rewrite AV. split; [reflexivity|].
    unfold aval. rewrite E. reflexivity.
Qed.

Lemma array_insert_sem hp a pos d cnt acc : aok hp a ->
  ares_ok hp a (array_insert hp a pos d) (s_insert (hint_at hp a cnt acc) (aval hp a) pos d) false.
Proof.
  intros OK. unfold array_insert. destruct a as [i|].
  - destruct (OK i eq_refl) as [b [E [W R]]]. rewrite E. cbn [aval]. rewrite E. cbn [option_map].
    unfold s_insert, bval. rewrite (blocked_blk hp i b cnt acc E W).
    pose proof W as [L [U A]].
    apply with_private_sem with (b := b); auto.
    + destruct (Nat.ltb_spec (bused b) pos); lia.
    + intros Need. apply negb_false_iff in Need. apply andb_prop in Need. destruct Need as [N12 N3].
      apply andb_prop in N12. destruct N12 as [N1 N2]. apply negb_true_iff in N2, N3.
      apply Nat.leb_le in N1.
      assert (B0 : blk b = false) by (unfold blk; rewrite N2; reflexivity). rewrite B0.
      unfold shared in N2. apply Nat.leb_gt in N2.
      pose proof (insert_at_sem hp (Some i) hp i b pos d (P_same _ _) E W ltac:(lia) N3) as H.
      unfold bval in H. apply H.
      * unfold ins_total. destruct (Nat.ltb_spec pos (bused b)); destruct (Nat.ltb_spec (bused b) pos); lia.
      * unfold aval. rewrite E. reflexivity.
    + intros Need B. rewrite B. cbn [ares_ok]. split; [apply P_same|]. unfold aval. rewrite E. auto.
    + intros Need B hp1 j b1 E1 T PC. rewrite B.
      pose proof PC as [R1 [I1 [N1 [T1 [V1 [U1 [S1 W1]]]]]]].
      pose proof (insert_at_sem hp (Some i) hp1 j b1 pos d T E1 W1 R1 I1) as H.
      unfold bval in H. rewrite T1, V1 in H. apply H.
      * unfold ins_total. rewrite U1.
        destruct (Nat.ltb_spec pos (bused b)); destruct (Nat.ltb_spec (bused b) pos); lia.
      * unfold aval. rewrite E. reflexivity.
  - cbn [aval s_insert]. unfold halloc.
    rewrite hget_app_r by lia. rewrite Nat.sub_diag. cbn [hget nth_error].
    pose proof (alloc_size_ge (pos + length d)).
    cbn [bdata new_buf].
    rewrite wr_sem by (rewrite length_zeros, repeat_length; lia). cbn [bind].
    rewrite wr_sem by (len_simp; lia). cbn [bind lift ares_ok].
    set (nb := set_used (set_data _ _) _).
    assert (Wn : buf_wf nb).
    { subst nb. unfold buf_wf; bsimp. split; [len_simp; lia|]. split; [lia|intros Ht; congruence]. }
    split.
    + unfold hset. replace (length hp) with (length (hp ++ [])) at 1 by (rewrite app_nil_r; reflexivity).
      rewrite app_nil_r at 1. rewrite lset_app_end.
      apply (P_fresh0 hp None); [reflexivity|exact Wn].
    + unfold D. f_equal. unfold aval. rewrite hget_hset, Nat.eqb_refl.
      rewrite (proj2 (Nat.ltb_lt _ _)) by (rewrite app_length; simpl; lia).
      cbn [andb option_map]. unfold bval. subst nb. bsimp. repeat f_equal.
      unfold bview; bsimp. list_eq.
Qed.

(* ------------------------------------------------------------------ mpt_array_set *)
Lemma set_at_sem hp a hp1 j b1 tr pos d :
  ptrans hp a hp1 (Some j) -> hget hp1 j = Some b1 -> buf_wf b1 -> bref b1 = 1 ->
  btr b1 = tr -> tr <> 0 -> pos mod tr = 0 -> length d mod tr = 0 -> pos + length d <= bsize b1 ->
  ares_ok hp a (set_at hp1 j tr pos d) (D (Some (tr, put (bview b1) pos d))) false.
Proof.
  intros T E W R Tr Tn Ap Al S. unfold set_at. rewrite E.
  pose proof (buffer_set_sem b1 tr pos d W) as B.
  assert (C : set_cond b1 tr pos (length d) = true).
  { unfold set_cond. rewrite (proj2 (Nat.leb_le _ _) S), Tr. cbn [andb].
    rewrite (proj2 (Nat.eqb_neq _ _) Tn), Nat.eqb_refl. cbn [negb andb].
    unfold aligned. rewrite Ap, Al. reflexivity. }
  destruct (buffer_set b1 tr pos d) as [b2| |]; [|congruence|contradiction].
  destruct B as [[K1 [K2 [K3 [K4 K5]]]] [W2 [V2 _]]]. cbn [bind lift ares_ok].
  destruct (inplace_done hp a hp1 j b1 b2 T E R ltac:(lia) W2) as [T2 AV2].
  split; [exact T2|]. rewrite AV2. unfold D, bval. rewrite V2, K4, Tr. reflexivity.
Qed.

Lemma mul_mod_0 a t : t <> 0 -> (a * t) mod t = 0.
Proof. intros H. apply Nat.mod_mul. assumption. Qed.

Lemma put_nil pos d : put [] pos d = zeros pos ++ d.
Proof.
  unfold put. cbn [length]. destruct (Nat.ltb_spec 0 pos).
  - rewrite Nat.sub_0_r. reflexivity.
  - assert (pos = 0) as -> by lia. simpl. rewrite skipn_nil, app_nil_r. reflexivity.
Qed.

Lemma array_set_sem hp a tr neg off d cnt acc : aok hp a ->
  ares_ok hp a (array_set hp a tr neg off d) (s_set (hint_at hp a cnt acc) (aval hp a) tr neg off d) false.
Proof.
  intros OK. unfold array_set, s_set.
  destruct (Nat.eqb_spec tr 0) as [Tn|Tn].
  { cbn [ares_ok]. split; [apply P_same|auto]. }
  destruct (aligned tr (length d)) eqn:Al; cbn [negb].
  2:{ cbn [ares_ok]. split; [apply P_same|auto]. }
  apply mod_aligned in Al.
  destruct a as [i|].
  - destruct (OK i eq_refl) as [b [E [W R]]]. rewrite E. cbn [aval]. rewrite E. cbn [option_map].
    unfold bval. rewrite (bview_length _ W).
    destruct (Nat.eqb_spec (btr b) tr) as [Tr|Tr]; cbn [negb].
    2:{ cbn [ares_ok]. split; [apply P_same|]. unfold aval. rewrite E. auto. }
    destruct (neg && (bused b <? off * tr)) eqn:Ng.
    { cbn [ares_ok]. split; [apply P_same|]. unfold aval. rewrite E. auto. }
    rewrite (blocked_blk hp i b cnt acc E W).
    pose proof W as [L [U A]].
    set (pos := if neg then bused b - off * tr else off * tr).
    assert (Ap : pos mod tr = 0).
    { subst pos. destruct neg; [|apply mul_mod_0; assumption].
      cbn [andb] in Ng. apply Nat.ltb_ge in Ng.
      apply aligned_sub; auto; [|apply mul_mod_0; assumption]. rewrite <- Tr. apply A. lia. }
    apply with_private_sem with (b := b); auto.
    + destruct (Nat.ltb_spec (pos + length d) (bused b)); lia.
    + intros Need. apply orb_false_elim in Need. destruct Need as [N12 N3].
      apply orb_false_elim in N12. destruct N12 as [N1 N2]. apply Nat.ltb_ge in N1.
      assert (B0 : blk b = false) by (unfold blk; rewrite N3; reflexivity). rewrite B0.
      unfold shared in N3. apply Nat.leb_gt in N3. rewrite Tr.
      apply set_at_sem; auto; [apply P_same|lia].
    + intros Need B. rewrite B. cbn [ares_ok]. split; [apply P_same|]. unfold aval. rewrite E. auto.
    + intros Need B hp1 j b1 E1 T PC. rewrite B.
      pose proof PC as [R1 [I1 [N1 [T1 [V1 [U1 [S1 W1]]]]]]].
      rewrite <- V1, Tr. apply set_at_sem; auto; [congruence|].
      destruct (Nat.ltb_spec (pos + length d) (bused b)); lia.
  - cbn [aval]. destruct (neg && negb (off =? 0)).
    { cbn [ares_ok]. split; [apply P_same|auto]. }
    unfold halloc.
    set (nb := set_tr (new_buf (off * tr + length d) false false) tr).
    pose proof (set_at_sem hp None (hp ++ [Some nb]) (length hp) nb tr (off * tr) d) as H.
    rewrite <- put_nil. apply H; auto.
    + apply (P_fresh0 hp None); [reflexivity|].
      apply buf_wf_set_tr_empty; [apply new_buf_wf|reflexivity].
    + rewrite hget_app_r by lia. rewrite Nat.sub_diag. reflexivity.
    + apply buf_wf_set_tr_empty; [apply new_buf_wf|reflexivity].
    + apply mul_mod_0; assumption.
    + subst nb. bsimp. apply alloc_size_ge.
Qed.

(* ------------------------------------------------------------------ mpt_array_slice *)
Definition tl_of (hp : heap) (a : arr) : nat * list byte :=
  match aval hp a with Some p => p | None => (0, []) end.

Definition slice_refuse (hp : heap) (a : arr) (off len cnt : nat) (acc : bool) : bool :=
  match a with
  | None => false
  | Some _ =>
    let t := fst (tl_of hp a) in let l := snd (tl_of hp a) in
    (negb (t =? 0) && negb (al3 t off len (length l))) || blocked (hint_at hp a cnt acc) l
  end.

(* the private, mutable, large enough buffer an accepted mpt_array_slice leaves in the array *)
Definition sliced (hp : heap) (a : arr) (hp' : heap) (a' : arr) (off len : nat) : Prop :=
  exists j b', a' = Some j /\ hget hp' j = Some b' /\ ptrans hp a hp' a' /\ bref b' = 1 /\ bimm b' = false /\
    buf_wf b' /\ off + len <= bsize b' /\ btr b' = fst (tl_of hp a) /\
    bview b' = ext (snd (tl_of hp a)) (off + len).

Lemma ext_short l total : total <= length l -> ext l total = l.
Proof. intros H. unfold ext. replace (total - length l) with 0 by lia. apply app_nil_r. Qed.

Lemma extend_at_sem hp a hp1 j b1 total :
  ptrans hp a hp1 (Some j) -> hget hp1 j = Some b1 -> buf_wf b1 -> bref b1 = 1 -> bimm b1 = false ->
  total <= bsize b1 -> (btr b1 <> 0 -> total mod btr b1 = 0) ->
  match extend_at hp1 j (bused b1) total with
  | ADone hp' a' n => exists b', a' = Some j /\ hget hp' j = Some b' /\ ptrans hp a hp' a' /\ bref b' = 1 /\
       bimm b' = false /\ buf_wf b' /\ bsize b' = bsize b1 /\ btr b' = btr b1 /\ bview b' = ext (bview b1) total
  | _ => False
  end.
Proof.
  intros T E W R I S Al. unfold extend_at. pose proof W as [L [U A]].
  destruct (Nat.ltb_spec (bused b1) total) as [Hlt|Hge].
  - rewrite E. pose proof (buffer_insert_sem b1 (bused b1) (zeros (total - bused b1)) W) as B.
    rewrite length_zeros in B.
    assert (C : ins_cond b1 (bused b1) (total - bused b1) = true).
    { unfold ins_cond, ins_total. rewrite Nat.ltb_irrefl.
      replace (bused b1 + (total - bused b1)) with total by lia.
      rewrite (proj2 (Nat.eqb_neq total 0)) by lia. rewrite (proj2 (Nat.leb_le _ _) S), I. cbn [orb negb andb].
      destruct (Nat.eqb_spec (btr b1) 0) as [Z|Z]; [reflexivity|]. cbn [orb].
      unfold aligned. rewrite (A Z), Nat.eqb_refl.
      rewrite (aligned_sub (btr b1) total (bused b1)) by (auto; lia). reflexivity. }
    destruct (buffer_insert b1 (bused b1) (total - bused b1)) as [b2| |]; [|congruence|contradiction].
    destruct B as [_ [[K1 [K2 [K3 [K4 K5]]]] B]]. cbn [bind].
    rewrite store_hset by (apply (hget_lt _ _ _ E)).
    destruct (wr (bdata b2) (bused b1) (zeros (total - bused b1))) as [m| |]; try contradiction.
    destruct B as [W2 V2]. cbn [bind lift].
    destruct (inplace_done hp a hp1 j b1 (set_data b2 m) T E R ltac:(bsimp; lia) W2) as [T2 AV2].
    exists (set_data b2 m). split; [reflexivity|]. split.
    { rewrite hget_hset, Nat.eqb_refl, (proj2 (Nat.ltb_lt _ _) (hget_lt _ _ _ E)). reflexivity. }
    split; [exact T2|]. bsimp. repeat (split; [solve [auto | lia | congruence]|]).
    rewrite V2. unfold ins, ext. rewrite (bview_length _ W), Nat.ltb_irrefl, Nat.sub_diag. reflexivity.
  - exists b1. repeat (split; [solve [auto]|]). symmetry. apply ext_short. rewrite (bview_length _ W). lia.
Qed.

Lemma array_slice_sem hp a off len cnt acc : aok hp a ->
  match array_slice hp a off len with
  | ADone hp' a' n => slice_refuse hp a off len cnt acc = false /\ sliced hp a hp' a' off len
  | ARefused hp' a' => slice_refuse hp a off len cnt acc = true /\ hp' = hp /\ a' = a
  | AFault => False
  end.
Proof.
  intros OK. unfold array_slice, slice_refuse, sliced, tl_of. destruct a as [i|].
  - destruct (OK i eq_refl) as [b [E [W R]]]. rewrite E. cbn [aval]. rewrite E. cbn [option_map fst snd bval].
    rewrite (blocked_blk hp i b cnt acc E W). rewrite (bview_length _ W).
    pose proof W as [L [U A]].
    destruct (negb (btr b =? 0) && negb (al3 (btr b) off len (bused b))) eqn:Mis.
    { unfold al3 in Mis. rewrite Mis. auto. }
    unfold al3 in Mis. rewrite Mis. cbn [orb].
    assert (Al : btr b <> 0 -> (off + len) mod btr b = 0).
    { intros Z. rewrite (proj2 (Nat.eqb_neq _ _) Z) in Mis. cbn [negb andb] in Mis.
      apply negb_false_iff in Mis. apply andb_prop in Mis. destruct Mis as [M12 _].
      apply andb_prop in M12. destruct M12 as [M1 M2]. apply mod_aligned in M1, M2.
      apply aligned_add; assumption. }
    apply with_private_sem with (b := b); auto.
    + destruct (Nat.ltb_spec (off + len) (bused b)); lia.
    + intros Need. apply orb_false_elim in Need. destruct Need as [N12 N3].
      apply orb_false_elim in N12. destruct N12 as [N1 N2]. apply Nat.ltb_ge in N1.
      assert (B0 : blk b = false) by (unfold blk; rewrite N3; reflexivity).
      unfold shared in N3. apply Nat.leb_gt in N3.
      pose proof (extend_at_sem hp (Some i) hp i b (off + len) (P_same _ _) E W ltac:(lia) N2 N1 Al) as X.
      destruct (extend_at hp i (bused b) (off + len)) as [hp' a' n| |]; try contradiction.
      split; [exact B0|]. destruct X as [b' [-> [E' [T' [R' [I' [W' [S' [T'' V']]]]]]]]].
      exists i, b'. repeat (split; [solve [auto | lia]|]). exact V'.
    + intros Need B hp1 j b1 E1 T PC.
      pose proof PC as [R1 [I1 [N1 [T1 [V1 [U1 [S1 W1]]]]]]].
      assert (S2 : off + len <= bsize b1) by (destruct (Nat.ltb_spec (off + len) (bused b)); lia).
      pose proof (extend_at_sem hp (Some i) hp1 j b1 (off + len) T E1 W1 R1 I1 S2 ltac:(rewrite T1; exact Al)) as X.
      rewrite U1 in X.
      destruct (extend_at hp1 j (bused b) (off + len)) as [hp' a' n| |]; try contradiction.
      split; [exact B|]. destruct X as [b' [-> [E' [T' [R' [I' [W' [S' [T'' V']]]]]]]]].
      exists j, b'. repeat (split; [solve [auto | lia | congruence]|]). rewrite V', V1. reflexivity.
  - cbn [aval fst snd]. unfold halloc.
    rewrite hget_app_r by lia. rewrite Nat.sub_diag. cbn [hget nth_error].
    pose proof (alloc_size_ge (off + len)). cbn [bdata new_buf].
    rewrite wr_sem by (rewrite length_zeros, repeat_length; lia). cbn [bind lift].
    split; [reflexivity|].
    set (nb := set_used (set_data _ _) _).
    assert (Wn : buf_wf nb).
    { subst nb. unfold buf_wf; bsimp. split; [len_simp; lia|]. split; [lia|intros Ht; congruence]. }
    exists (length hp), nb. split; [reflexivity|]. split.
    { rewrite hget_hset, Nat.eqb_refl. rewrite (proj2 (Nat.ltb_lt _ _)) by (rewrite app_length; simpl; lia).
      reflexivity. }
    split.
    { unfold hset. replace (length hp) with (length (hp ++ [])) at 1 by (rewrite app_nil_r; reflexivity).
      rewrite app_nil_r at 1. rewrite lset_app_end.
      apply (P_fresh0 hp None); [reflexivity|exact Wn]. }
    subst nb. bsimp. repeat (split; [solve [auto | lia]|]).
    unfold bview, ext; bsimp. cbn [length]. rewrite Nat.sub_0_r, app_nil_l. change (firstn 0 (repeat POISON (alloc_size (off + len)))) with (@nil N). rewrite app_nil_l. list_eq.
Qed.

(* ------------------------------------------------------------------ mpt_array_reduce *)
Lemma array_reduce_sem hp a : aok hp a ->
  ares_ok hp a (array_reduce hp a) (D (aval hp a)) false.
Proof.
  intros OK. unfold array_reduce. destruct a as [i|].
  - destruct (OK i eq_refl) as [b [E [W R]]]. rewrite E.
    pose proof (detach_sem hp i b (bused b) E W R (or_introl (le_n _))) as Dt.
    destruct (detach hp i (bused b)) as [[hp1 j]| |]; [|cbn [ares_ok]; split; [apply P_same|reflexivity]|contradiction].
    destruct Dt as [b1 [E1 [T [PC _]]]]. rewrite E1. cbn [ares_ok]. split; [exact T|].
    unfold D. rewrite (private_aval hp i b hp1 j b1 _ E E1 PC). reflexivity.
  - cbn [ares_ok]. split; [apply P_same|reflexivity].
Qed.

(* ------------------------------------------------------------------ the in-place buffer functions on a private buffer *)
Lemma direct_sem hp i b (F : res buf) (spec : sval * outcome) b2v :
  hget hp i = Some b -> bref b = 1 ->
  match F with
  | Ok b2 => bref b2 = 1 /\ buf_wf b2 /\ spec = (Some (bval b2), ODone 0 0)
  | Err _ => spec = (Some (bval b), ORefused)
  | Fault => False
  end ->
  b2v = tt ->
  ares_ok hp (Some i) (lift hp (Some i) (do b1 <- F; Ok (hset hp i b1, Some i, 0))) spec false.
Proof.
  intros E R H _. destruct F as [b2| |]; cbn [bind lift ares_ok]; try contradiction.
  - destruct H as [R2 [W2 ->]].
    destruct (inplace_done hp (Some i) hp i b b2 (P_same _ _) E R R2 W2) as [T AV].
    split; [exact T|]. rewrite AV. reflexivity.
  - split; [apply P_same|]. unfold aval. rewrite E. auto.
Qed.

(* ------------------------------------------------------------------ mpt_array_slice + the caller's store *)
Definition oslice (hp : heap) (a : arr) (off : nat) (d : list byte) (w : bool) : ares :=
  match array_slice hp a off (length d) with
  | ADone hp1 (Some j) _ =>
    if w then lift hp1 (Some j) (do hp2 <- store hp1 j off d; Ok (hp2, Some j, 0))
    else ADone hp1 (Some j) 0
  | ADone _ None _ => AFault
  | r => r
  end.

Lemma store_view b off d : buf_wf b -> off + length d <= bused b ->
  match wr (bdata b) off d with
  | Ok m => buf_wf (set_data b m) /\ bview (set_data b m) = put (bview b) off d
  | _ => False
  end.
Proof.
  intros [L [U A]] H. rewrite wr_sem by lia. split.
  - unfold buf_wf; bsimp. split; [len_simp; lia|]. split; assumption.
  - unfold bview, put; bsimp. rewrite firstn_length, L, Nat.min_l by lia.
    rewrite (proj2 (Nat.ltb_ge (bused b) off)) by lia. list_eq.
Qed.

Lemma ext_length l total : length (ext l total) = Nat.max (length l) total.
Proof. unfold ext. rewrite app_length, length_zeros. lia. Qed.

Lemma oslice_sem hp a off d w cnt acc : aok hp a ->
  ares_ok hp a (oslice hp a off d w) (s_slice (hint_at hp a cnt acc) (aval hp a) off d w) false.
Proof.
  intros OK. unfold oslice. pose proof (array_slice_sem hp a off (length d) cnt acc OK) as S.
  destruct (array_slice hp a off (length d)) as [hp1 a1 n|hp1 a1|]; [| |contradiction].
  - destruct S as [Rf [j [b' [-> [E' [T [R' [I' [W' [S' [Tr V']]]]]]]]]]].
    assert (Spec : s_slice (hint_at hp a cnt acc) (aval hp a) off d w =
                   D (Some (fst (tl_of hp a),
                            if w then put (ext (snd (tl_of hp a)) (off + length d)) off d
                            else ext (snd (tl_of hp a)) (off + length d)))).
    { unfold s_slice, tl_of. unfold slice_refuse, tl_of in Rf. destruct a as [i|].
      - destruct (aval hp (Some i)) as [[t l]|] eqn:AV.
        + cbn [fst snd] in *. apply orb_false_elim in Rf. destruct Rf as [R1 R2]. rewrite R1, R2. reflexivity.
        + exfalso. destruct (OK i eq_refl) as [b [E _]]. unfold aval in AV. rewrite E in AV. discriminate.
      - cbn [aval fst snd]. unfold ext. cbn [length app]. rewrite Nat.sub_0_r. reflexivity. }
    rewrite Spec. destruct w.
    + pose proof (store_view b' off d W') as SV.
      assert (BL : off + length d <= bused b').
      { rewrite <- (bview_length _ W'), V', ext_length. lia. }
      specialize (SV BL). unfold store. rewrite E'.
      destruct (wr (bdata b') off d) as [m| |]; try contradiction. destruct SV as [W2 V2].
      cbn [bind lift ares_ok].
      destruct (inplace_done hp a hp1 j b' (set_data b' m) T E' R' ltac:(bsimp; lia) W2) as [T2 AV2].
      split; [exact T2|]. rewrite AV2. unfold D, bval. rewrite V2, V'. bsimp. rewrite Tr. reflexivity.
    + cbn [ares_ok]. split; [exact T|]. unfold D, aval. rewrite E'. cbn [option_map]. unfold bval.
      rewrite Tr, V'. reflexivity.
  - destruct S as [Rf [-> ->]]. cbn [ares_ok]. split; [apply P_same|]. split; [|reflexivity].
    unfold s_slice. unfold slice_refuse, tl_of in Rf. destruct a as [i|]; [|discriminate].
    destruct (aval hp (Some i)) as [[t l]|] eqn:AV.
    + cbn [fst snd] in Rf. apply orb_true_iff in Rf. destruct Rf as [R1|R2].
      * rewrite R1. reflexivity.
      * rewrite R2. destruct (negb (t =? 0) && negb (al3 t off (length d) (length l))); reflexivity.
    + exfalso. destruct (OK i eq_refl) as [b [E _]]. unfold aval in AV. rewrite E in AV. discriminate.
Qed.

(* ------------------------------------------------------------------ in-place functions against the specification *)
Lemma hint_private hp i b cnt acc : hget hp i = Some b -> shared b = false -> bimm b = false ->
  hint_at hp (Some i) cnt acc = mkhint false false (bnc b) (bsize b) cnt acc true.
Proof. intros E S I. unfold hint_at. rewrite E, S, I. reflexivity. Qed.

Lemma bufset_sem hp i b tr pos d cnt acc :
  hget hp i = Some b -> buf_wf b -> bref b = 1 -> shared b = false -> bimm b = false ->
  ares_ok hp (Some i) (lift hp (Some i) (do b1 <- buffer_set b tr pos d; Ok (hset hp i b1, Some i, 0)))
    (s_bufset (hint_at hp (Some i) cnt acc) (aval hp (Some i)) tr pos d) false.
Proof.
  intros E W R S I. apply (direct_sem hp i b _ _ tt E R); [|reflexivity].
  rewrite (hint_private hp i b cnt acc E S I). unfold aval. rewrite E. cbn [option_map].
  unfold s_bufset, bval, guarded. cbn [hsh him hsz orb].
  pose proof (buffer_set_sem b tr pos d W) as B. unfold set_cond in B.
  destruct (buffer_set b tr pos d) as [b2| |]; [|..].
  - destruct B as [[K1 [K2 [K3 [K4 K5]]]] [W2 [V2 C]]].
    split; [lia|]. split; [exact W2|]. rewrite V2, K4.
    apply andb_prop in C. destruct C as [C1 C2]. apply Nat.leb_le in C1.
    rewrite (proj2 (Nat.ltb_ge _ _)) by lia.
    destruct (btr b =? 0).
    + rewrite C2. reflexivity.
    + apply andb_prop in C2. destruct C2 as [C2 C5]. apply andb_prop in C2. destruct C2 as [C2 C4].
      apply andb_prop in C2. destruct C2 as [C2 C3]. apply negb_true_iff in C2.
      rewrite C2, C3, C4, C5. reflexivity.
  - destruct (Nat.ltb_spec (bsize b) (pos + length d)); [reflexivity|].
    rewrite (proj2 (Nat.leb_le _ _)) in B by lia. cbn [andb] in B.
    destruct (btr b =? 0).
    + rewrite B. reflexivity.
    + destruct (tr =? 0); [reflexivity|]. cbn [negb andb] in B.
      destruct (aligned tr pos && aligned tr (length d)); cbn [negb andb] in *; [|reflexivity].
      rewrite B. reflexivity.
  - contradiction.
Qed.

Lemma bufcut_sem hp i b off len cnt acc :
  hget hp i = Some b -> buf_wf b -> bref b = 1 -> shared b = false -> bimm b = false ->
  ares_ok hp (Some i) (lift hp (Some i) (do b1 <- buffer_cut b off len; Ok (hset hp i b1, Some i, 0)))
    (s_bufcut (hint_at hp (Some i) cnt acc) (aval hp (Some i)) off len) false.
Proof.
  intros E W R S I. apply (direct_sem hp i b _ _ tt E R); [|reflexivity].
  rewrite (hint_private hp i b cnt acc E S I). unfold aval. rewrite E. cbn [option_map].
  unfold s_bufcut, bval, guarded. cbn [hsh him orb]. rewrite (bview_length _ W).
  pose proof (buffer_cut_sem b off len W) as B. unfold cut_cond in B.
  destruct (buffer_cut b off len) as [b2| |]; [|..].
  - destruct B as [C [[K1 [K2 [K3 [K4 K5]]]] [W2 V2]]].
    split; [lia|]. split; [exact W2|]. rewrite V2, K4.
    apply andb_prop in C. destruct C as [C12 C3]. apply andb_prop in C12. destruct C12 as [C1 C2].
    apply Nat.leb_le in C1. rewrite (proj2 (Nat.ltb_ge _ _)) by lia.
    destruct (Nat.eqb_spec len 0) as [Z|Z]; cbn [negb andb].
    + apply Nat.leb_le in C2. rewrite (proj2 (Nat.ltb_ge _ _)) by lia.
      destruct (btr b =? 0); cbn [negb andb orb] in *; [reflexivity|]. rewrite C3. reflexivity.
    + apply Nat.leb_le in C2. rewrite (proj2 (Nat.ltb_ge _ _)) by lia.
      destruct (btr b =? 0); cbn [negb andb orb] in *; [reflexivity|]. rewrite C3. reflexivity.
  - destruct (Nat.ltb_spec (bused b) len); [reflexivity|].
    rewrite (proj2 (Nat.leb_le _ _)) in B by lia. cbn [andb] in B.
    destruct (Nat.eqb_spec len 0) as [Z|Z]; cbn [negb andb].
    + destruct (Nat.ltb_spec (bused b) off); [reflexivity|].
      rewrite (proj2 (Nat.leb_le _ _)) in B by lia. cbn [andb] in B.
      destruct (btr b =? 0); cbn [negb andb orb] in *; [discriminate|]. rewrite B. reflexivity.
    + destruct (Nat.ltb_spec (bused b - len) off); [reflexivity|].
      rewrite (proj2 (Nat.leb_le _ _)) in B by lia. cbn [andb] in B.
      destruct (btr b =? 0); cbn [negb andb orb] in *; [discriminate|]. rewrite B. reflexivity.
  - contradiction.
Qed.

Lemma bufinsert_sem hp i b pos d cnt acc :
  hget hp i = Some b -> buf_wf b -> bref b = 1 -> shared b = false -> bimm b = false ->
  ares_ok hp (Some i) (insert_at hp i pos d)
    (s_bufinsert (hint_at hp (Some i) cnt acc) (aval hp (Some i)) pos d) false.
Proof.
  intros E W R S I. unfold insert_at. rewrite E.
  rewrite (hint_private hp i b cnt acc E S I). unfold aval. rewrite E. cbn [option_map].
  unfold s_bufinsert, bval, guarded. cbn [hsh him hsz orb]. rewrite (bview_length _ W).
  pose proof (buffer_insert_sem b pos d W) as B. unfold ins_cond, ins_total in B. rewrite I in B.
  cbn [negb andb] in B. rewrite andb_true_r in B. unfold al3.
  destruct (buffer_insert b pos (length d)) as [b2| |]; [|cbn [bind lift ares_ok]|contradiction].
  - destruct B as [C [[K1 [K2 [K3 [K4 K5]]]] B]]. cbn [bind].
    rewrite store_hset by (apply (hget_lt _ _ _ E)).
    destruct (wr (bdata b2) pos d) as [m| |]; try contradiction. destruct B as [W2 V2].
    cbn [bind lift ares_ok].
    destruct (inplace_done hp (Some i) hp i b (set_data b2 m) (P_same _ _) E R ltac:(bsimp; lia) W2) as [T2 AV2].
    split; [exact T2|]. rewrite AV2. unfold bval. rewrite V2. bsimp. rewrite K4.
    destruct (Nat.eqb_spec (if pos <? bused b then bused b + length d else pos + length d) 0) as [Z|Z].
    + assert (pos = 0 /\ length d = 0 /\ bused b = 0) as [-> [Ld Ub]].
      { destruct (Nat.ltb_spec pos (bused b)); lia. }
      destruct d; [|discriminate]. unfold D. repeat f_equal.
      unfold ins, bview. rewrite Ub. reflexivity.
    + cbn [orb] in C. apply andb_prop in C. destruct C as [C1 C2]. apply Nat.leb_le in C1.
      rewrite (proj2 (Nat.ltb_ge _ _)) by lia.
      destruct (btr b =? 0); cbn [negb andb orb] in *; [reflexivity|]. rewrite C2. reflexivity.
  - split; [apply P_same|]. split; [|reflexivity]. unfold aval. rewrite E. cbn [option_map]. unfold bval.
    apply orb_false_elim in B. destruct B as [B1 B2]. rewrite B1.
    destruct (Nat.ltb_spec (bsize b) (if pos <? bused b then bused b + length d else pos + length d)); [reflexivity|].
    rewrite (proj2 (Nat.leb_le _ _)) in B2 by lia. cbn [andb] in B2.
    destruct (btr b =? 0); cbn [negb andb orb] in *; [discriminate|]. rewrite B2. reflexivity.
Qed.

(* ------------------------------------------------------------------ mpt_array_string *)
Lemma al3_one a b c : al3 1 a b c = true.
Proof. unfold al3, aligned. rewrite !Nat.mod_1_r. reflexivity. Qed.

Lemma array_string_sem hp a cnt acc : aok hp a ->
  ares_ok hp a (array_string hp a) (s_string (hint_at hp a cnt acc) (aval hp a)) true.
Proof.
  intros OK. unfold array_string. destruct a as [i|].
  2:{ cbn [ares_ok aval s_string]. split; [apply P_same|auto]. }
  destruct (OK i eq_refl) as [b [E [W R]]]. rewrite E.
  assert (AV : aval hp (Some i) = Some (btr b, bview b)) by (unfold aval; rewrite E; reflexivity).
  rewrite AV. unfold s_string.
  destruct (Nat.eqb_spec (btr b) 1) as [T1|T1]; cbn [negb].
  2:{ cbn [ares_ok]. split; [apply P_same|]. rewrite AV. auto. }
  fold (bview b). destruct (has_zero (bview b)) eqn:Hz.
  { cbn [ares_ok]. split; [apply P_same|]. rewrite AV. reflexivity. }
  pose proof (array_slice_sem hp (Some i) (bused b) 1 cnt acc OK) as S.
  unfold slice_refuse, sliced, tl_of in S. rewrite AV in S. cbn [fst snd] in S.
  rewrite T1, al3_one in S. cbn [negb andb orb Nat.eqb] in S.
  destruct (array_slice hp (Some i) (bused b) 1) as [hp1 a1 n|hp1 a1|]; [| |contradiction].
  - destruct S as [Bk [j [b' [-> [E' [T [R' [I' [W' [S' [Tr V']]]]]]]]]]]. rewrite Bk.
    cbn [ares_ok]. split; [exact T|]. unfold Dn. rewrite (bview_length _ W).
    unfold aval. rewrite E'. cbn [option_map]. unfold bval. rewrite Tr, V'.
    unfold ext. rewrite (bview_length _ W). replace (bused b + 1 - bused b) with 1 by lia. reflexivity.
  - destruct S as [Bk [-> ->]]. rewrite Bk. cbn [ares_ok]. split; [apply P_same|]. rewrite AV. auto.
Qed.

(* ------------------------------------------------------------------ mpt_array_reserve *)
Lemma array_reserve_sem hp a len0 tr cnt acc : aok hp a ->
  ares_ok hp a (array_reserve hp a len0 tr) (s_reserve (hint_at hp a cnt acc) (aval hp a) tr) false.
Proof.
  intros OK. unfold array_reserve. set (len := if tr =? 0 then len0 else round_up tr len0).
  destruct a as [i|].
  2:{ unfold halloc. cbn [ares_ok aval s_reserve]. split.
      - apply (P_fresh0 hp None); [reflexivity|]. apply buf_wf_set_tr_empty; [apply new_buf_wf|reflexivity].
      - unfold D, aval. rewrite hget_app_r by lia. rewrite Nat.sub_diag. reflexivity. }
  destruct (OK i eq_refl) as [b [E [W R]]]. rewrite E.
  assert (AV : aval hp (Some i) = Some (btr b, bview b)) by (unfold aval; rewrite E; reflexivity).
  rewrite AV. unfold s_reserve, guarded, hint_at. rewrite E. cbn [hsh him hnc].
  pose proof W as [L [U A]].
  destruct (shared b || bimm b) eqn:Sh; cbn [andb].
  - (* a distinct buffer is required *)
    set (keep := (btr b =? tr) && negb (bnc b)).
    assert (Hu : (if btr b =? 0 then bused b else bused b - bused b mod btr b) = bused b).
    { destruct (Nat.eqb_spec (btr b) 0) as [Z|Z]; [reflexivity|]. rewrite (A Z). lia. }
    rewrite Hu.
    destruct keep eqn:Kp.
    + subst keep. apply andb_prop in Kp. destruct Kp as [Kt Kn]. apply Nat.eqb_eq in Kt. subst tr.
      destruct (Nat.eqb_spec (bused b) 0) as [Z|Z].
      * cbn [bind lift ares_ok]. split.
        -- apply (P_fresh0 hp (Some i)); [reflexivity|].
           apply buf_wf_set_tr_empty; [apply new_buf_wf|reflexivity].
        -- unfold D, aval. rewrite hget_app_r by (rewrite length_hunref; lia).
           rewrite length_hunref, Nat.sub_diag. cbn [hget nth_error option_map]. unfold bval. bsimp.
           unfold bview at 1. bsimp. unfold bview. rewrite Z. reflexivity.
      * pose proof (fresh_copy b (if len <? bused b then bused b else len) false W
                      ltac:(destruct (Nat.ltb_spec len (bused b)); lia)) as F.
        destruct (buffer_set _ _ 0 _) as [nx'| |]; try contradiction.
        destruct F as [F1 [F2 [F3 [F4 [F5 [F6 [F7 F8]]]]]]]. cbn [bind lift ares_ok]. split.
        -- apply (P_fresh0 hp (Some i)); assumption.
        -- unfold D, aval. rewrite hget_app_r by (rewrite length_hunref; lia).
           rewrite length_hunref, Nat.sub_diag. cbn [hget nth_error option_map]. unfold bval.
           rewrite F4, F5. reflexivity.
    + cbn [Nat.eqb bind lift ares_ok]. split.
      * apply (P_fresh0 hp (Some i)); [reflexivity|].
        apply buf_wf_set_tr_empty; [apply new_buf_wf|reflexivity].
      * unfold D, aval. rewrite hget_app_r by (rewrite length_hunref; lia).
        rewrite length_hunref, Nat.sub_diag. reflexivity.
  - (* private, mutable: reuse *)
    apply orb_false_elim in Sh. destruct Sh as [S1 S2]. unfold shared in S1. apply Nat.leb_gt in S1.
    assert (R1 : bref b = 1) by lia.
    set (b0 := if btr b =? tr then b else set_used b 0).
    assert (W0 : buf_wf b0).
    { subst b0. destruct (btr b =? tr); [exact W|]. unfold buf_wf; bsimp. split; [exact L|]. split; [lia|].
      intros Z. apply Nat.mod_0_l. assumption. }
    assert (R0 : bref b0 = 1) by (subst b0; destruct (btr b =? tr); assumption).
    assert (I0 : bimm b0 = false) by (subst b0; destruct (btr b =? tr); assumption).
    assert (E0 : hget (hset hp i b0) i = Some b0).
    { rewrite hget_hset, Nat.eqb_refl, (proj2 (Nat.ltb_lt _ _) (hget_lt _ _ _ E)). reflexivity. }
    assert (T0 : ptrans hp (Some i) (hset hp i b0) (Some i)) by (eapply P_inplace; eauto).
    pose proof (detach_sem (hset hp i b0) i b0 len E0 W0 ltac:(lia) (or_intror (conj R0 I0))) as Dt.
    destruct (detach (hset hp i b0) i len) as [[hp1 j]| |]; [| |contradiction].
    + destruct Dt as [b1 [E1 [T1 [PC _]]]]. rewrite E1. cbn [ares_ok].
      destruct PC as [P1 [P2 [P3 [P4 [P5 [P6 [P7 P8]]]]]]].
      assert (W2 : buf_wf (set_tr b1 tr)).
      { destruct P8 as [L1 [U1 A1]]. unfold buf_wf; bsimp. split; [exact L1|]. split; [exact U1|].
        intros Z. rewrite P6. subst b0. destruct (Nat.eqb_spec (btr b) tr) as [Q|Q].
        - rewrite <- Q. apply A. rewrite Q. exact Z.
        - bsimp. apply Nat.mod_0_l. exact Z. }
      destruct (inplace_done hp (Some i) hp1 j b1 (set_tr b1 tr) (ptrans_trans _ _ _ _ _ _ T0 T1) E1 P1
                  ltac:(bsimp; lia) W2) as [T2 AV2].
      split; [exact T2|]. rewrite AV2. unfold bval. bsimp.
      change (bview (set_tr b1 tr)) with (bview b1). rewrite P5. subst b0.
      destruct (Nat.eqb_spec (btr b) tr) as [Q|Q]; cbn [andb negb].
      * rewrite Q. reflexivity.
      * reflexivity.
    + exfalso. apply andb_prop in Dt. destruct Dt as [Dt _]. apply andb_prop in Dt. destruct Dt as [Dt _].
      unfold shared in Dt. apply Nat.leb_le in Dt. lia.
Qed.

(* ------------------------------------------------------------------ mpt_vprintf("%s") *)
Lemma vsn_fits len text : length text < len -> vsn len text = text ++ [0%N].
Proof.
  intros H. unfold vsn. rewrite (proj2 (Nat.eqb_neq len 0)) by lia.
  rewrite firstn_all2 by lia. reflexivity.
Qed.

Lemma vsn_length len text : length (vsn len text) <= len.
Proof.
  unfold vsn. destruct (Nat.eqb_spec len 0); [simpl; lia|].
  rewrite app_length, firstn_length. simpl. lia.
Qed.

Lemma prefix_view b n : buf_wf b -> n <= bused b -> firstn n (bdata b) = firstn n (bview b).
Proof. intros [L [U A]] H. unfold bview. rewrite firstn_firstn, Nat.min_l by lia. reflexivity. Qed.

Lemma firstn_ext l t n : n <= length l -> firstn n (ext l t) = firstn n l.
Proof. intros H. unfold ext. rewrite firstn_app. replace (n - length l) with 0 by lia. simpl. apply app_nil_r. Qed.

Lemma round_gt rval : rval < (rval / 64 + 1) * 64.
Proof.
  pose proof (Nat.div_mod rval 64 ltac:(lia)). pose proof (Nat.mod_upper_bound rval 64 ltac:(lia)). lia.
Qed.

(* storing text and terminator at [used] and ending the data behind the text *)
Lemma print_store b used len text : buf_wf b -> btr b = 1 -> used + len <= bsize b -> length text < len ->
  match wr (bdata b) used (text ++ [0%N]) with
  | Ok m => buf_wf (set_used (set_data b m) (used + length text)) /\
            bview (set_used (set_data b m) (used + length text)) = firstn used (bdata b) ++ text
  | _ => False
  end.
Proof.
  intros [L [U A]] T S H. rewrite wr_sem by (rewrite app_length; simpl; lia). split.
  - unfold buf_wf; bsimp. split; [len_simp; simpl; lia|]. split; [lia|]. intros _. rewrite T. apply Nat.mod_1_r.
  - unfold bview; bsimp. rewrite app_length. simpl length.
    list_eq_k ltac:(fun i => split_at i used).
Qed.

Lemma printf_at_sem hp a hp2 k b' used len text :
  ptrans hp a hp2 (Some k) -> hget hp2 k = Some b' -> buf_wf b' -> bref b' = 1 -> bimm b' = false ->
  btr b' = 1 -> bused b' = used + len -> used + len <= bsize b' ->
  ares_ok hp a (printf_at hp2 k used len text)
    (Dn (Some (1, firstn used (bdata b') ++ text)) (length text)) true.
Proof.
  intros T E2 W' R' I' Tr U' S'. unfold printf_at, store. rewrite E2.
  pose proof W' as [L [U A]]. pose proof (vsn_length len text) as VL.
  rewrite wr_sem by lia. cbn [bind].
  set (m := firstn used (bdata b') ++ vsn len text ++ skipn (used + length (vsn len text)) (bdata b')).
  assert (Lm : length m = bsize b') by (subst m; len_simp; lia).
  set (b2 := set_data b' m).
  assert (W2 : buf_wf b2).
  { subst b2. unfold buf_wf; bsimp. split; [exact Lm|]. split; [lia|exact A]. }
  assert (E2' : hget (hset hp2 k b2) k = Some b2).
  { rewrite hget_hset, Nat.eqb_refl, (proj2 (Nat.ltb_lt _ _) (hget_lt _ _ _ E2)). reflexivity. }
  destruct ((length text =? 0) || (length text <? len)) eqn:Fit.
  - (* the text and its terminator fit *)
    rewrite E2', hset_hset. cbn [ares_ok].
    assert (Hlen : (length text = 0 /\ len = 0) \/ length text < len).
    { apply orb_prop in Fit. destruct Fit as [F|F].
      - apply Nat.eqb_eq in F. destruct (Nat.eq_dec len 0); [left; auto|right; lia].
      - apply Nat.ltb_lt in F. right; exact F. }
    set (b3 := set_used b2 (used + length text)).
    assert (W3 : buf_wf b3 /\ bview b3 = firstn used (bdata b') ++ text).
    { destruct Hlen as [[Z1 Z2]|Hlt].
      - destruct text; [|discriminate]. subst b3 b2 m. unfold vsn. rewrite Z2. cbn [Nat.eqb length app].
        split.
        + unfold buf_wf; bsimp. split; [len_simp; lia|]. split; [lia|]. intros _. rewrite Tr. apply Nat.mod_1_r.
        + unfold bview; bsimp. rewrite app_nil_r. list_eq.
      - pose proof (print_store b' used len text W' Tr S' Hlt) as P.
        rewrite wr_sem in P by (rewrite app_length; simpl; lia).
        subst b3 b2 m. rewrite (vsn_fits len text Hlt). exact P. }
    destruct W3 as [W3 V3].
    destruct (inplace_done hp a hp2 k b' b3 T E2 R' ltac:(subst b3 b2; bsimp; lia) W3) as [T3 AV3].
    split; [exact T3|]. rewrite AV3. unfold Dn, bval. rewrite V3. subst b3 b2. bsimp. rewrite Tr. reflexivity.
  - (* second attempt with more room *)
    apply orb_false_elim in Fit. destruct Fit as [F1 F2]. apply Nat.eqb_neq in F1. apply Nat.ltb_ge in F2.
    set (len2 := (length text / 64 + 1) * 64).
    assert (G2 : length text < len2) by apply round_gt.
    assert (OK2 : aok (hset hp2 k b2) (Some k)).
    { intros i Hi. inversion Hi; subst i. exists b2. split; [exact E2'|]. split; [exact W2|]. subst b2; bsimp; lia. }
    pose proof (array_slice_sem (hset hp2 k b2) (Some k) used len2 0 false OK2) as S.
    unfold slice_refuse, sliced, tl_of in S.
    assert (AV2 : aval (hset hp2 k b2) (Some k) = Some (1, bview b2)).
    { unfold aval. rewrite E2'. cbn [option_map]. unfold bval. subst b2; bsimp. rewrite Tr. reflexivity. }
    rewrite AV2 in S. cbn [fst snd] in S. rewrite al3_one in S. cbn [negb andb orb Nat.eqb] in S.
    assert (NB : blocked (hint_at (hset hp2 k b2) (Some k) 0 false) (bview b2) = false).
    { unfold blocked, hint_at. rewrite E2'. cbn [hsh]. unfold shared. subst b2; bsimp.
      rewrite R'. reflexivity. }
    rewrite NB in S.
    destruct (array_slice (hset hp2 k b2) (Some k) used len2) as [hp3 a3 n|hp3 a3|];
      [|destruct S as [S _]; discriminate|contradiction].
    destruct S as [_ [k' [b'' [-> [E3 [T3 [R3 [I3 [W3 [S3 [Tr3 V3]]]]]]]]]]].
    rewrite E3. pose proof W3 as [L3 [U3 A3]].
    rewrite (vsn_fits len2 text G2).
    assert (B3 : bused b'' = used + len2).
    { rewrite <- (bview_length _ W3), V3, ext_length, (bview_length _ W2). subst b2; bsimp. lia. }
    pose proof (print_store b'' used len2 text W3 Tr3 S3 G2) as P.
    destruct (wr (bdata b'') used (text ++ [0%N])) as [m4| |]; try contradiction.
    destruct P as [W5 V5]. cbn [bind].
    rewrite hget_hset, Nat.eqb_refl, (proj2 (Nat.ltb_lt _ _) (hget_lt _ _ _ E3)). cbn [andb].
    rewrite hset_hset. cbn [ares_ok].
    assert (T2 : ptrans hp a (hset hp2 k b2) (Some k)).
    { eapply ptrans_trans; [exact T|]. eapply P_inplace; eauto; subst b2; bsimp; lia. }
    destruct (inplace_done hp a hp3 k' b'' (set_used (set_data b'' m4) (used + length text))
                (ptrans_trans _ _ _ _ _ _ T2 T3) E3 R3 ltac:(bsimp; lia) W5) as [T5 AV5].
    split; [exact T5|]. rewrite AV5. unfold Dn, bval. rewrite V5. bsimp. rewrite Tr3.
    (* the bytes in front of the text are still those of the first buffer *)
    assert (PF : firstn used (bdata b'') = firstn used (bdata b')); [|rewrite PF; reflexivity].
    rewrite (prefix_view b'' used W3) by lia. rewrite V3.
    rewrite firstn_ext by (rewrite (bview_length _ W2); subst b2; bsimp; lia).
    rewrite <- (prefix_view b2 used W2) by (subst b2; bsimp; lia).
    subst b2 m. bsimp. rewrite firstn_app, firstn_firstn, Nat.min_id, firstn_length, L.
    replace (used - Nat.min used (bsize b')) with 0 by lia. simpl. apply app_nil_r.
Qed.

Lemma array_printf_sem hp a text cnt acc : aok hp a ->
  ares_ok hp a (array_printf hp a text) (s_printf (hint_at hp a cnt acc) (aval hp a) text) true.
Proof.
  intros OK. unfold array_printf. destruct a as [i|].
  - destruct (OK i eq_refl) as [b [E [W R]]]. rewrite E.
    assert (AV : aval hp (Some i) = Some (btr b, bview b)) by (unfold aval; rewrite E; reflexivity).
    rewrite AV. unfold s_printf.
    destruct (Nat.eqb_spec (btr b) 1) as [T1|T1]; cbn [negb].
    2:{ cbn [ares_ok]. split; [apply P_same|]. rewrite AV. auto. }
    set (len := round64 (bsize b - bused b)).
    pose proof (array_slice_sem hp (Some i) (bused b) len cnt acc OK) as S.
    unfold slice_refuse, sliced, tl_of in S. rewrite AV in S. cbn [fst snd] in S.
    rewrite T1, al3_one in S. cbn [negb andb orb Nat.eqb] in S.
    destruct (array_slice hp (Some i) (bused b) len) as [hp2 a2 n|hp2 a2|]; [| |contradiction].
    + destruct S as [Bk [k [b' [-> [E' [T [R' [I' [W' [S' [Tr V']]]]]]]]]]]. rewrite Bk.
      assert (U' : bused b' = bused b + len).
      { rewrite <- (bview_length _ W'), V', ext_length, (bview_length _ W). lia. }
      pose proof (printf_at_sem hp (Some i) hp2 k b' (bused b) len text T E' W' R' I' Tr U' S') as P.
      assert (PF : firstn (bused b) (bdata b') = bview b).
      { rewrite (prefix_view b' (bused b) W') by lia. rewrite V'.
        rewrite firstn_ext by (rewrite (bview_length _ W); lia).
        apply firstn_all2. rewrite (bview_length _ W). lia. }
      rewrite PF in P. exact P.
    + destruct S as [Bk [-> ->]]. rewrite Bk. cbn [ares_ok]. split; [apply P_same|]. rewrite AV. auto.
  - unfold halloc. set (nb := set_tr (new_buf 64 false false) 1).
    assert (Wn : buf_wf nb) by (apply buf_wf_set_tr_empty; [apply new_buf_wf|reflexivity]).
    assert (En : hget (hp ++ [Some nb]) (length hp) = Some nb).
    { rewrite hget_app_r by lia. rewrite Nat.sub_diag. reflexivity. }
    assert (OK1 : aok (hp ++ [Some nb]) (Some (length hp))).
    { intros i Hi. inversion Hi; subst i. exists nb. split; [exact En|]. split; [exact Wn|]. subst nb; bsimp; lia. }
    pose proof (array_slice_sem (hp ++ [Some nb]) (Some (length hp)) 0 (alloc_size 64) 0 false OK1) as S.
    unfold slice_refuse, sliced, tl_of in S.
    assert (AV1 : aval (hp ++ [Some nb]) (Some (length hp)) = Some (1, [])).
    { unfold aval. rewrite En. reflexivity. }
    rewrite AV1 in S. cbn [fst snd] in S. rewrite al3_one in S. cbn [negb andb orb Nat.eqb] in S.
    assert (NB : blocked (hint_at (hp ++ [Some nb]) (Some (length hp)) 0 false) [] = false).
    { unfold blocked. cbn [length Nat.eqb negb]. apply andb_false_r. }
    rewrite NB in S.
    destruct (array_slice (hp ++ [Some nb]) (Some (length hp)) 0 (alloc_size 64)) as [hp2 a2 n|hp2 a2|];
      [|destruct S as [S _]; discriminate|contradiction].
    destruct S as [_ [k [b' [-> [E' [T [R' [I' [W' [S' [Tr V']]]]]]]]]]].
    assert (T0 : ptrans hp None (hp ++ [Some nb]) (Some (length hp))).
    { apply (P_fresh0 hp None); [reflexivity|exact Wn]. }
    assert (U' : bused b' = 0 + alloc_size 64).
    { rewrite <- (bview_length _ W'), V', ext_length. cbn [length]. lia. }
    pose proof (printf_at_sem hp None hp2 k b' 0 (alloc_size 64) text
                  (ptrans_trans _ _ _ _ _ _ T0 T) E' W' R' I' Tr U' S') as P.
    cbn [firstn app] in P. exact P.
Qed.

(* ------------------------------------------------------------------ mpt_slice_write *)
Lemma window_clip (l : list byte) off0 len0 :
  let used := length l in
  let off := if used <? off0 + len0 then (if used <=? off0 then used else off0) else off0 in
  let len := if used <? off0 + len0 then (if used <=? off0 then 0 else used - off0) else len0 in
  firstn len0 (skipn off0 l) = firstn len (skipn off l) /\ off + len <= used.
Proof.
  cbn zeta. destruct (Nat.ltb_spec (length l) (off0 + len0)) as [H|H].
  - destruct (Nat.leb_spec (length l) off0) as [H2|H2].
    + split; [|lia]. rewrite skipn_all2 by lia. rewrite firstn_nil. reflexivity.
    + split; [|lia]. rewrite !firstn_all2 by (rewrite skipn_length; lia). reflexivity.
  - split; [reflexivity|lia].
Qed.

Lemma norm_length n from d : length (norm n from d) = n.
Proof.
  unfold norm. destruct from; [|apply length_zeros].
  rewrite firstn_length, app_length, length_zeros. lia.
Qed.

Lemma filled_buf_sem content :
  match filled_buf content with
  | Ok nb => bref nb = 1 /\ buf_wf nb /\ btr nb = 0 /\ bview nb = content /\ bused nb = length content
  | _ => False
  end.
Proof.
  unfold filled_buf. pose proof (alloc_size_ge (length content)). bsimp.
  rewrite wr_sem by (rewrite repeat_length; lia). cbn [bind]. split; [reflexivity|]. split.
  - unfold buf_wf; bsimp. split; [len_simp; lia|]. split; [lia|intros Z; congruence].
  - split; [reflexivity|]. split; [|reflexivity]. unfold bview; bsimp.
    change (firstn 0 (repeat POISON (alloc_size (length content)))) with (@nil N). rewrite app_nil_l.
    rewrite firstn_app, Nat.sub_diag, firstn_all. simpl. apply app_nil_r.
Qed.

Definition win (b : buf) (off len : nat) : list byte := firstn len (skipn off (bview b)).

Lemma fast_append_sem hp a hp1 j b off len nblk esz data :
  ptrans hp a hp1 (Some j) -> hget hp1 j = Some b -> buf_wf b -> bref b = 1 -> btr b = 0 ->
  off + len <= bused b -> esz <> 0 -> length data = nblk * esz ->
  match fast_append hp1 j off len nblk esz data with
  | SDone hp' a' off' len' n => exists b2, a' = Some j /\ hget hp' j = Some b2 /\ ptrans hp a hp' a' /\ btr b2 = 0 /\
      off' = off /\ n <= nblk /\ win b2 off' len' = win b off len ++ firstn (n * esz) data
  | _ => False
  end.
Proof.
  intros T E W R Tr Hw He Hd. unfold fast_append. rewrite E. pose proof W as [L [U A]].
  set (avail := bsize b - (off + len)). set (cnt := Nat.min nblk (avail / esz)).
  assert (Hc : cnt * esz <= avail).
  { subst cnt. pose proof (Nat.mul_div_le avail esz He).
    assert (Nat.min nblk (avail / esz) * esz <= (avail / esz) * esz) by (apply Nat.mul_le_mono_r; lia). lia. }
  assert (Hle : cnt * esz <= length data).
  { rewrite Hd. apply Nat.mul_le_mono_r. subst cnt; lia. }
  assert (Hf : length (firstn (cnt * esz) data) = cnt * esz) by (rewrite firstn_length; lia).
  rewrite wr_sem by (rewrite Hf; subst avail; lia).
  set (b2 := set_used (set_data b _) _).
  assert (W2 : buf_wf b2).
  { subst b2. unfold buf_wf; bsimp. split; [rewrite Hf; len_simp; subst avail; lia|]. split.
    - destruct (Nat.ltb_spec (bused b) (off + len + cnt * esz)); subst avail; lia.
    - intros Z. congruence. }
  destruct (inplace_done hp a hp1 j b b2 T E R ltac:(subst b2; bsimp; lia) W2) as [T2 AV2].
  exists b2. split; [reflexivity|]. split.
  { rewrite hget_hset, Nat.eqb_refl, (proj2 (Nat.ltb_lt _ _) (hget_lt _ _ _ E)). reflexivity. }
  split; [exact T2|]. split; [subst b2; bsimp; exact Tr|]. split; [reflexivity|]. split; [subst cnt; lia|].
  unfold win, bview. subst b2. bsimp. rewrite Hf.
  destruct (Nat.ltb_spec (bused b) (off + len + cnt * esz));
    list_eq_k ltac:(fun i => split_at i len).
Qed.

Definition whint (cnt : nat) (acc : bool) : hint := mkhint false false false 0 cnt acc true.

Definition wval (hp : heap) (a : arr) (off len : nat) : sval :=
  match a with
  | None => None
  | Some i => option_map (fun b => (btr b, win b off len)) (hget hp i)
  end.

Definition sres_ok (hp : heap) (a : arr) (v : sval) (nblk esz : nat) (from : bool) (d : list byte) (r : sres) : Prop :=
  match r with
  | SDone hp1 a1 off len n =>
    ptrans hp a hp1 a1 /\
    s_write (whint (if esz =? 0 then 0 else n) true) v nblk esz from d =
      (wval hp1 a1 off len, ODone (if esz =? 0 then 0 else n) 0)
  | SRefused hp1 a1 off len =>
    ptrans hp a hp1 a1 /\ s_write (whint 0 false) v nblk esz from d = (v, ORefused) /\ wval hp1 a1 off len = v
  | SFault => False
  end.

Lemma slow_write_some hp i b off len nblk esz from d :
  hget hp i = Some b -> buf_wf b -> btr b = 0 -> off + len <= bused b -> esz <> 0 ->
  sres_ok hp (Some i) (Some (0, win b off len)) nblk esz from d
    (slow_write hp (Some i) off len nblk (norm (nblk * esz) from d)).
Proof.
  intros E W Tr Hw He. unfold slow_write. rewrite E. pose proof W as [L [U A]].
  rewrite rd_ok by lia. cbn [bind].
  pose proof (filled_buf_sem (slice off len (bdata b) ++ norm (nblk * esz) from d)) as F.
  destruct (filled_buf _) as [nb| |]; try contradiction.
  destruct F as [F1 [F2 [F3 [F4 F5]]]]. cbn [sres_ok]. split.
  - apply (P_fresh0 hp (Some i)); assumption.
  - rewrite (proj2 (Nat.eqb_neq esz 0) He). unfold s_write, whint. cbn [hcnt negb Nat.eqb].
    rewrite (proj2 (Nat.eqb_neq esz 0) He), Nat.ltb_irrefl. unfold Dn. f_equal.
    unfold wval. rewrite hget_app_r by (rewrite length_hunref; lia).
    rewrite length_hunref, Nat.sub_diag. cbn [hget nth_error option_map]. rewrite F3. f_equal. f_equal.
    unfold win. rewrite F4. simpl skipn. rewrite norm_length.
    rewrite firstn_all2 with (l := norm _ _ _) by (rewrite norm_length; lia).
    assert (Sl : slice off len (bdata b) = firstn len (skipn off (bview b))).
    { unfold slice, bview. list_eq. }
    rewrite Sl. symmetry. apply firstn_all2. rewrite app_length, norm_length, firstn_length, skipn_length.
    rewrite (bview_length _ W). lia.
Qed.


Lemma slice_write_sem hp a off0 len0 nblk esz from d : aok hp a ->
  sres_ok hp a (wval hp a off0 len0) nblk esz from d (slice_write hp a off0 len0 nblk esz from d).
Proof.
  intros OK. unfold slice_write. destruct a as [i|].
  - destruct (OK i eq_refl) as [b [E [W R]]]. rewrite E. cbn [negb].
    assert (V0 : wval hp (Some i) off0 len0 = Some (btr b, win b off0 len0)) by (unfold wval; rewrite E; reflexivity).
    rewrite V0.
    destruct (Nat.eqb_spec (btr b) 0) as [Tr|Tr]; cbn [negb].
    2:{ cbn [sres_ok]. split; [apply P_same|]. split; [|exact V0].
        unfold s_write. rewrite (proj2 (Nat.eqb_neq _ _) Tr). reflexivity. }
    pose proof W as [L [U A]].
    pose proof (window_clip (bview b) off0 len0) as WC. cbn zeta in WC. rewrite (bview_length _ W) in WC.
    set (off := if bused b <? off0 + len0 then (if bused b <=? off0 then bused b else off0) else off0) in *.
    set (len := if bused b <? off0 + len0 then (if bused b <=? off0 then 0 else bused b - off0) else len0) in *.
    destruct WC as [WV Hw]. fold (win b off0 len0) in WV. fold (win b off len) in WV.
    rewrite Tr, WV. clearbody off len.
    assert (VW : wval hp (Some i) off len = Some (0, win b off len)).
    { unfold wval. rewrite E. cbn [option_map]. rewrite Tr. reflexivity. }
    destruct (Nat.eqb_spec esz 0) as [Ez|Ez].
    + (* prepare memory *)
      subst esz. destruct (Nat.eqb_spec nblk 0) as [Nz|Nz].
      { cbn [sres_ok Nat.eqb]. split; [apply P_same|]. rewrite VW. unfold s_write, whint. cbn [Nat.eqb negb].
        rewrite ?(proj2 (Nat.eqb_eq _ _) Nz). reflexivity. }
      destruct from.
      { cbn [sres_ok]. split; [apply P_same|]. split; [|exact VW].
        unfold s_write, whint. cbn [Nat.eqb negb]. rewrite ?(proj2 (Nat.eqb_neq _ _) Nz). reflexivity. }
      destruct (Nat.leb_spec nblk (bsize b - (off + len))) as [Ha|Ha].
      { cbn [sres_ok Nat.eqb]. split; [apply P_same|]. rewrite VW. unfold s_write, whint. cbn [Nat.eqb negb hacc].
        rewrite ?(proj2 (Nat.eqb_neq _ _) Nz). reflexivity. }
      pose proof (array_slice_sem hp (Some i) (off + len) nblk 0 false OK) as S.
      destruct (array_slice hp (Some i) (off + len) nblk) as [hp1 a1 n|hp1 a1|]; [| |contradiction].
      * destruct S as [_ [j [b' [-> [E' [T [R' [I' [W' [S' [Tr' V']]]]]]]]]]].
        unfold tl_of, aval in Tr', V'. rewrite E in Tr', V'. cbn [option_map fst snd bval] in Tr', V'.
        rewrite E'.
        assert (U' : bused b' = off + len + nblk).
        { rewrite <- (bview_length _ W'), V', ext_length, (bview_length _ W). lia. }
        pose proof (buffer_cut_sem b' (off + len) nblk W') as Ct.
        assert (CC : cut_cond b' (off + len) nblk = true).
        { unfold cut_cond. rewrite U', Tr', Tr. rewrite ?(proj2 (Nat.eqb_neq _ _) Nz).
          rewrite !(proj2 (Nat.leb_le _ _)) by lia. reflexivity. }
        destruct (buffer_cut b' (off + len) nblk) as [b2| |]; [|congruence|contradiction].
        destruct Ct as [_ [[K1 [K2 [K3 [K4 K5]]]] [W2 V2]]].
        cbn [sres_ok Nat.eqb].
        destruct (inplace_done hp (Some i) hp1 j b' b2 T E' R' ltac:(lia) W2) as [T2 AV2].
        split; [exact T2|]. unfold s_write, whint. cbn [Nat.eqb negb hacc].
        rewrite ?(proj2 (Nat.eqb_neq _ _) Nz). unfold D. f_equal.
        unfold wval. rewrite hget_hset, Nat.eqb_refl, (proj2 (Nat.ltb_lt _ _) (hget_lt _ _ _ E')).
        cbn [andb option_map]. rewrite K4, Tr', Tr. f_equal. f_equal.
        unfold win. rewrite V2, (proj2 (Nat.eqb_neq _ _) Nz), V'. unfold cutv, ext.
        pose proof (bview_length _ W) as BL. list_eq_k ltac:(fun i => idtac).
      * destruct S as [_ [-> ->]]. cbn [sres_ok]. split; [apply P_same|]. split; [|exact VW].
        unfold s_write, whint. cbn [Nat.eqb negb hacc]. rewrite ?(proj2 (Nat.eqb_neq _ _) Nz). reflexivity.
    + (* data blocks *)
      rewrite ?(proj2 (Nat.eqb_neq _ _) Ez).
      set (data := norm (nblk * esz) from d).
      assert (Ld : length data = nblk * esz) by apply norm_length.
      assert (FastOK : forall hp1 b1 off1, ptrans hp (Some i) hp1 (Some i) -> hget hp1 i = Some b1 -> buf_wf b1 ->
                bref b1 = 1 -> btr b1 = 0 -> off1 + len <= bused b1 -> win b1 off1 len = win b off len ->
                sres_ok hp (Some i) (Some (0, win b off len)) nblk esz from d
                  (fast_append hp1 i off1 len nblk esz data)).
      { intros hp1 b1 off1 T1 E1 W1 R1 Tr1 Hw1 Wn.
        pose proof (fast_append_sem hp (Some i) hp1 i b1 off1 len nblk esz data T1 E1 W1 R1 Tr1 Hw1 Ez Ld) as F.
        destruct (fast_append hp1 i off1 len nblk esz data) as [hp' a' off' len' n| |]; try contradiction.
        destruct F as [b2 [-> [E2 [T2 [Tr2 [-> [Hn Wv]]]]]]]. cbn [sres_ok].
        split; [exact T2|]. rewrite ?(proj2 (Nat.eqb_neq _ _) Ez).
        unfold s_write, whint. cbn [Nat.eqb negb hcnt]. rewrite ?(proj2 (Nat.eqb_neq _ _) Ez).
        rewrite (proj2 (Nat.ltb_ge _ _) Hn). unfold Dn. f_equal.
        unfold wval. rewrite E2. cbn [option_map]. rewrite Tr2, Wv, Wn. reflexivity. }
      destruct (bimm b || shared b) eqn:Pv; cbn [negb].
      { apply slow_write_some; auto. }
      apply orb_false_elim in Pv. destruct Pv as [Im Sh]. unfold shared in Sh. apply Nat.leb_gt in Sh.
      assert (R1 : bref b = 1) by lia.
      destruct (Nat.eqb_spec nblk 0) as [Nz|Nz].
      { cbn [sres_ok]. split; [apply P_same|]. rewrite ?(proj2 (Nat.eqb_neq _ _) Ez).
        unfold s_write, whint. cbn [Nat.eqb negb hcnt]. rewrite ?(proj2 (Nat.eqb_neq _ _) Ez).
        subst nblk. cbn [Nat.ltb Nat.leb Nat.mul firstn]. rewrite app_nil_r, VW. reflexivity. }
      destruct (Nat.leb_spec esz (bsize b - (off + len))) as [Hav|Hav].
      { apply (FastOK hp b off (P_same _ _) E W R1 Tr Hw eq_refl). }
      destruct (negb (off =? 0) && (esz <=? bsize b - (off + len) + off)) eqn:Mv.
      2:{ apply slow_write_some; auto. }
      (* move the window to the front *)
      assert (Mm : exists m, (if len =? 0 then Ok (bdata b) else mv (bdata b) 0 off len) = Ok m /\
                   length m = bsize b /\ firstn len m = firstn len (skipn off (bdata b))).
      { destruct (Nat.eqb_spec len 0) as [Lz|Lz].
        - exists (bdata b). split; [reflexivity|]. split; [exact L|]. subst len. reflexivity.
        - rewrite mv_sem by lia. eexists. split; [reflexivity|]. split; [len_simp; lia|].
          simpl firstn at 2. rewrite app_nil_l. rewrite firstn_app, firstn_firstn, Nat.min_id.
          rewrite firstn_length, skipn_length. replace (len - Nat.min len (length (bdata b) - off)) with 0 by lia.
          simpl. apply app_nil_r. }
      destruct Mm as [m [-> [Lm Fm]]].
      set (b1 := set_used (set_data b m) len).
      assert (W1 : buf_wf b1).
      { subst b1. unfold buf_wf; bsimp. split; [exact Lm|]. split; [lia|intros Z; congruence]. }
      destruct (inplace_done hp (Some i) hp i b b1 (P_same _ _) E R1 ltac:(subst b1; bsimp; lia) W1) as [T1 _].
      apply (FastOK (hset hp i b1) b1 0 T1).
      * rewrite hget_hset, Nat.eqb_refl, (proj2 (Nat.ltb_lt _ _) (hget_lt _ _ _ E)). reflexivity.
      * exact W1.
      * subst b1; bsimp; exact R1.
      * subst b1; bsimp; exact Tr.
      * subst b1; bsimp; lia.
      * unfold win, bview. subst b1. bsimp. simpl skipn. rewrite firstn_firstn, Nat.min_id, Fm.
        list_eq.
  - (* no buffer yet *)
    cbn [negb wval].
    set (off := if 0 <? off0 + len0 then (if 0 <=? off0 then 0 else off0) else off0).
    set (len := if 0 <? off0 + len0 then (if 0 <=? off0 then 0 else 0 - off0) else len0).
    assert (off = 0 /\ len = 0) as [-> ->].
    { subst off len. destruct (Nat.ltb_spec 0 (off0 + len0)); cbn [Nat.leb]; lia. }
    cbn [Nat.add Nat.sub].
    destruct (Nat.eqb_spec esz 0) as [Ez|Ez].
    + subst esz. destruct (Nat.eqb_spec nblk 0) as [Nz|Nz].
      { cbn [sres_ok Nat.eqb]. split; [apply P_same|]. unfold s_write, whint. cbn [Nat.eqb].
        rewrite ?(proj2 (Nat.eqb_eq _ _) Nz). reflexivity. }
      destruct from.
      { cbn [sres_ok]. split; [apply P_same|]. split; [|reflexivity].
        unfold s_write, whint. cbn [Nat.eqb]. rewrite ?(proj2 (Nat.eqb_neq _ _) Nz). reflexivity. }
      rewrite (proj2 (Nat.leb_gt nblk 0)) by lia.
      pose proof (array_slice_sem hp None 0 nblk 0 false OK) as S.
      destruct (array_slice hp None 0 nblk) as [hp1 a1 n|hp1 a1|]; [|destruct S as [S _]; discriminate|contradiction].
      destruct S as [_ [j [b' [-> [E' [T [R' [I' [W' [S' [Tr' V']]]]]]]]]]].
      unfold tl_of in Tr', V'. cbn [aval fst snd] in Tr', V'. rewrite E'.
      assert (U' : bused b' = nblk).
      { rewrite <- (bview_length _ W'), V', ext_length. cbn [length]. lia. }
      pose proof (buffer_cut_sem b' 0 nblk W') as Ct.
      assert (CC : cut_cond b' 0 nblk = true).
      { unfold cut_cond. rewrite U', Tr'. rewrite ?(proj2 (Nat.eqb_neq _ _) Nz).
        rewrite !(proj2 (Nat.leb_le _ _)) by lia. reflexivity. }
      destruct (buffer_cut b' 0 nblk) as [b2| |]; [|congruence|contradiction].
      destruct Ct as [_ [[K1 [K2 [K3 [K4 K5]]]] [W2 V2]]].
      cbn [sres_ok Nat.eqb].
      destruct (inplace_done hp None hp1 j b' b2 T E' R' ltac:(lia) W2) as [T2 AV2].
      split; [exact T2|]. unfold s_write, whint. cbn [Nat.eqb hacc].
      rewrite ?(proj2 (Nat.eqb_neq _ _) Nz). unfold D. f_equal.
      unfold wval. rewrite hget_hset, Nat.eqb_refl, (proj2 (Nat.ltb_lt _ _) (hget_lt _ _ _ E')).
      cbn [andb option_map]. rewrite K4, Tr'. reflexivity.
    + rewrite ?(proj2 (Nat.eqb_neq _ _) Ez). unfold slow_write.
      pose proof (filled_buf_sem (norm (nblk * esz) from d)) as F.
      destruct (filled_buf _) as [nb| |]; try contradiction.
      destruct F as [F1 [F2 [F3 [F4 F5]]]]. cbn [sres_ok]. split.
      * apply (P_fresh0 hp None); assumption.
      * rewrite ?(proj2 (Nat.eqb_neq esz 0) Ez). unfold s_write, whint. cbn [hcnt].
        rewrite ?(proj2 (Nat.eqb_neq esz 0) Ez), Nat.ltb_irrefl. unfold Dn. f_equal.
        unfold wval. rewrite hget_app_r by lia. rewrite Nat.sub_diag. cbn [hget nth_error option_map].
        rewrite F3. f_equal. f_equal. unfold win. rewrite F4. simpl skipn. rewrite norm_length. reflexivity.
Qed.

(* ------------------------------------------------------------------ C++ entry points *)
(* array::append = mpt_array_append(len, NULL) + memcpy: the same final state as mpt_array_append(len, data) *)
Lemma append_at_store hp j used d : length d <> 0 ->
  match append_at hp j used (zeros (length d)) with
  | ADone hp1 (Some j') n => lift hp1 (Some j') (do hp2 <- store hp1 j' used d; Ok (hp2, Some j', n))
  | r => r
  end = append_at hp j used d.
Proof.
  intros Hn. unfold append_at. destruct (hget hp j) as [b|] eqn:E; [|reflexivity].
  rewrite length_zeros, (proj2 (Nat.eqb_neq _ _) Hn).
  unfold wr at 1 2. rewrite length_zeros.
  destruct (Nat.leb_spec (used + length d) (length (bdata b))) as [H|H]; [|reflexivity].
  cbn [bind lift]. rewrite store_hset by (apply (hget_lt _ _ _ E)). bsimp.
  rewrite wr_sem by (len_simp; lia). cbn [bind lift]. f_equal. f_equal.
  unfold set_used, set_data; cbn. f_equal. list_eq.
Qed.

Lemma x_append_eq hp a d : x_append hp a d = array_append hp a d.
Proof.
  unfold x_append. destruct (Nat.eqb_spec (length d) 0) as [Z|Z].
  { destruct d; [reflexivity|discriminate]. }
  unfold array_append. rewrite length_zeros. destruct a as [i|].
  - destruct (hget hp i) as [b|] eqn:E; [|reflexivity].
    destruct (negb (btr b =? 0)); [reflexivity|].
    unfold with_private. destruct ((bsize b - bused b <? length d) || negb (length d =? 0) && (shared b || bimm b)).
    + destruct (detach hp i (bused b + length d)) as [[hp1 j]| |]; [|reflexivity|reflexivity].
      apply append_at_store. exact Z.
    + apply append_at_store. exact Z.
  - unfold halloc. apply append_at_store. exact Z.
Qed.

Lemma put_end (l d : list byte) : put l (length l) d = l ++ d.
Proof.
  unfold put. rewrite Nat.ltb_irrefl, firstn_all, skipn_all2 by lia. rewrite app_nil_r. reflexivity.
Qed.

Lemma x_fresh_sem hp a d : ares_ok hp a (x_fresh hp a d) (s_xset d) false.
Proof.
  unfold x_fresh. pose proof (filled_buf_sem d) as F. unfold filled_buf in F. cbn zeta in *.
  destruct (do m <- wr _ 0 d; _) as [nb| |]; try contradiction.
  destruct F as [F1 [F2 [F3 [F4 F5]]]]. cbn [ares_ok]. split.
  - apply (P_fresh0 hp a); assumption.
  - unfold s_xset, D, aval. assert (Hg : forall nb', hget (match a with Some i => hunref hp i | None => hp end ++ [Some nb']) (length hp) = Some nb').
    { intros nb'. destruct a as [i|].
      - rewrite hget_app_r by (rewrite length_hunref; lia). rewrite length_hunref, Nat.sub_diag. reflexivity.
      - rewrite hget_app_r by lia. rewrite Nat.sub_diag. reflexivity. }
    rewrite Hg. cbn [hget nth_error option_map]. unfold bval. rewrite F3, F4. reflexivity.
Qed.

Lemma x_set_sem hp a d : aok hp a -> ares_ok hp a (x_set hp a d) (s_xset d) false.
Proof.
  intros OK. unfold x_set. destruct a as [i|]; [|apply x_fresh_sem].
  destruct (OK i eq_refl) as [b [E [W R]]]. rewrite E.
  destruct (negb (btr b =? 0) || shared b) eqn:Sh; [apply x_fresh_sem|].
  apply orb_false_elim in Sh. destruct Sh as [Tr Sh]. apply negb_false_iff, Nat.eqb_eq in Tr.
  unfold shared in Sh. apply Nat.leb_gt in Sh.
  destruct ((length d <=? bused b) || negb (bsize b - bused b <? length d - bused b)) eqn:Fit; [|apply x_fresh_sem].
  pose proof W as [L [U A]].
  assert (Hs : length d <= bsize b).
  { apply orb_prop in Fit. destruct Fit as [F|F].
    - apply Nat.leb_le in F. lia.
    - apply negb_true_iff, Nat.ltb_ge in F. lia. }
  rewrite wr_sem by lia. cbn [bind lift ares_ok].
  set (b2 := set_used (set_data b _) _).
  assert (W2 : buf_wf b2).
  { subst b2. unfold buf_wf; bsimp. split; [len_simp; lia|]. split; [lia|intros Z; congruence]. }
  destruct (inplace_done hp (Some i) hp i b b2 (P_same _ _) E ltac:(lia) ltac:(subst b2; bsimp; lia) W2) as [T2 AV2].
  split; [exact T2|]. rewrite AV2. unfold s_xset, D, bval. subst b2. bsimp. rewrite Tr. repeat f_equal.
  unfold bview; bsimp. change (firstn 0 (bdata b)) with (@nil N). rewrite app_nil_l. list_eq.
Qed.

Lemma x_set_str_sem hp a text : ares_ok hp a (x_set_str hp a text) (s_xsetstr text) false.
Proof.
  unfold x_set_str. set (nb := set_tr (new_buf (length text + 1) false false) 1).
  assert (Wn : buf_wf nb) by (apply buf_wf_set_tr_empty; [apply new_buf_wf|reflexivity]).
  pose proof (alloc_size_ge (length text + 1)) as Hsz.
  pose proof (buffer_set_sem nb 1 0 text Wn) as B1.
  assert (C1 : set_cond nb 1 0 (length text) = true).
  { unfold set_cond. subst nb. bsimp. rewrite (proj2 (Nat.leb_le _ _)) by lia.
    unfold aligned. rewrite !Nat.mod_1_r. reflexivity. }
  destruct (buffer_set nb 1 0 text) as [b1| |]; [|congruence|contradiction].
  destruct B1 as [[K1 [K2 [K3 [K4 K5]]]] [W1 [V1 _]]]. cbn [bind].
  assert (V1' : bview b1 = text) by (rewrite V1; subst nb; apply put_nil_0).
  pose proof (buffer_set_sem b1 1 (length text) [0%N] W1) as B2.
  assert (C2 : set_cond b1 1 (length text) (length [0%N]) = true).
  { unfold set_cond. rewrite K5, K4. subst nb. bsimp. cbn [length]. rewrite (proj2 (Nat.leb_le _ _)) by lia.
    unfold aligned. rewrite !Nat.mod_1_r. reflexivity. }
  destruct (buffer_set b1 1 (length text) [0%N]) as [b2| |]; [|congruence|contradiction].
  destruct B2 as [[J1 [J2 [J3 [J4 J5]]]] [W2 [V2 _]]]. cbn [ares_ok]. split.
  - apply (P_fresh0 hp a); [|exact W2]. rewrite J1, K1. reflexivity.
  - unfold s_xsetstr, D, aval. assert (Hg : forall nb', hget (match a with Some i => hunref hp i | None => hp end ++ [Some nb']) (length hp) = Some nb').
    { intros nb'. destruct a as [i|].
      - rewrite hget_app_r by (rewrite length_hunref; lia). rewrite length_hunref, Nat.sub_diag. reflexivity.
      - rewrite hget_app_r by lia. rewrite Nat.sub_diag. reflexivity. }
    rewrite Hg. cbn [hget nth_error option_map]. unfold bval.
    rewrite J4, K4, V2, V1'. subst nb. bsimp. rewrite put_end. reflexivity.
Qed.

Lemma x_assign_slice_sem hp a src off len : aok hp a -> aok hp src ->
  (match src with
   | None => off + len <= 0
   | Some k => match hget hp k with Some c => off + len <= bused c | None => False end
   end) ->
  ares_ok hp a (x_assign_slice hp a src off len) (D (Some (0, svec (wval hp src off len)))) false.
Proof.
  intros OK OKs Hc. unfold x_assign_slice. destruct src as [k|].
  - destruct (OKs k eq_refl) as [c [Ec [Wc Rc]]]. rewrite Ec in *. pose proof Wc as [L [U A]].
    rewrite rd_ok by lia.
    assert (Wv : svec (wval hp (Some k) off len) = slice off len (bdata c)).
    { unfold wval. rewrite Ec. cbn [option_map svec]. unfold win, slice, bview. list_eq. }
    rewrite Wv. apply (x_set_sem hp a _ OK).
  - cbn [wval svec]. apply (x_set_sem hp a [] OK).
Qed.

(* ------------------------------------------------------------------ array::set(const value &), vector / scalar values *)
Lemma x_set_val_sem hp a tr d : ares_ok hp a (x_set_val hp a tr d) (s_xsetval (aval hp a) tr d) false.
Proof.
  unfold x_set_val. set (nb := set_tr (new_buf (length d) false false) tr).
  assert (Wn : buf_wf nb) by (apply buf_wf_set_tr_empty; [apply new_buf_wf|reflexivity]).
  pose proof (alloc_size_ge (length d)) as Hsz.
  pose proof (buffer_set_sem nb tr 0 d Wn) as B1.
  assert (C1 : set_cond nb tr 0 (length d) = (tr =? 0) || aligned tr (length d)).
  { unfold set_cond. subst nb. bsimp. rewrite (proj2 (Nat.leb_le _ _)) by lia. cbn [andb].
    destruct (Nat.eqb_spec tr 0) as [Z|Z]; cbn [negb andb orb]; [reflexivity|].
    rewrite Nat.eqb_refl, andb_true_r. unfold aligned at 1. rewrite Nat.mod_0_l by exact Z. reflexivity. }
  destruct (buffer_set nb tr 0 d) as [b1| |]; [| |contradiction].
  - destruct B1 as [[K1 [K2 [K3 [K4 K5]]]] [W1 [V1 C]]]. cbn [ares_ok]. split.
    + apply (P_fresh0 hp a); [|exact W1]. rewrite K1. reflexivity.
    + unfold s_xsetval. rewrite <- C1, C. unfold D, aval.
      assert (Hg : forall nb', hget (match a with Some i => hunref hp i | None => hp end ++ [Some nb']) (length hp) = Some nb').
      { intros nb'. destruct a as [i|].
        - rewrite hget_app_r by (rewrite length_hunref; lia). rewrite length_hunref, Nat.sub_diag. reflexivity.
        - rewrite hget_app_r by lia. rewrite Nat.sub_diag. reflexivity. }
      rewrite Hg. cbn [option_map]. unfold bval. rewrite K4, V1. subst nb. bsimp.
      change (bview (set_tr (new_buf (length d) false false) tr)) with (@nil byte). rewrite put_nil_0. reflexivity.
  - cbn [ares_ok]. split; [apply P_same|]. unfold s_xsetval. rewrite <- C1, B1. split; reflexivity.
Qed.

(* array::content::set_length on a private mutable block *)
Lemma xsetlen_sem hp i b n cnt acc :
  hget hp i = Some b -> buf_wf b -> bref b = 1 -> shared b = false -> bimm b = false ->
  ares_ok hp (Some i) (lift hp (Some i) (do b1 <- x_set_len b n; Ok (hset hp i b1, Some i, 0)))
    (s_xsetlen (hint_at hp (Some i) cnt acc) (aval hp (Some i)) n) false.
Proof.
  intros E W R S I. apply (direct_sem hp i b _ _ tt E R); [|reflexivity].
  rewrite (hint_private hp i b cnt acc E S I). unfold aval. rewrite E. cbn [option_map].
  unfold s_xsetlen, bval, guarded. cbn [hsh him hsz orb]. unfold x_set_len.
  destruct (Nat.eqb_spec (btr b) 0) as [Z|Z]; cbn [negb]; [|reflexivity].
  destruct (Nat.ltb_spec (bsize b) n) as [Hn|Hn]; [reflexivity|].
  pose proof W as [L [U A]].
  destruct (Nat.ltb_spec (bused b) n) as [Hu|Hu].
  - rewrite wr_ok by (rewrite length_zeros; lia). cbn [bind]. bsimp. split; [exact R|]. split.
    + unfold buf_wf. bsimp. rewrite !app_length, firstn_length, length_zeros, skipn_length. repeat split; try lia.
    + rewrite Z. unfold D. do 4 f_equal. unfold resizev, bview. bsimp. list_eq.
  - cbn [bind]. bsimp. split; [exact R|]. split.
    + unfold buf_wf. bsimp. repeat split; try lia.
    + rewrite Z. unfold D. do 4 f_equal. unfold resizev, bview. bsimp. list_eq.
Qed.
