(* C04/ArrayOps.v — detach and the array-level functions: each result is a private
   transition of the target array whose new value is the vector operation of the
   specification. *)
From MptV Require Import Base.Mem Base.Tactics C04.ArrayModel C04.ArraySpec C04.ArrayHeap C04.ArrayBuf.
Local Open Scope nat_scope.
Local Open Scope bool_scope.

Ltac bsimp := cbn [bdata bsize bused btr bref bimm bnc set_tr set_used set_data set_ref set_flags new_buf].
Ltac bsimp_in H := cbn [bdata bsize bused btr bref bimm bnc set_tr set_used set_data set_ref set_flags new_buf] in H.

Lemma alloc_size_ge n : n <= alloc_size n.
Proof.
  unfold alloc_size, HDR, PAGE.
  pose proof (Nat.div_mod (n + 64 - 1) 128 ltac:(lia)).
  pose proof (Nat.mod_upper_bound (n + 64 - 1) 128 ltac:(lia)). lia.
Qed.

Lemma round_up_ge t n : n <= round_up t n.
Proof. unfold round_up. destruct (n mod t =? 0); lia. Qed.

Lemma new_buf_wf n imm nc : buf_wf (new_buf n imm nc).
Proof. unfold buf_wf, new_buf; cbn. rewrite repeat_length. repeat split; try lia. Qed.

Lemma new_buf_view n imm nc : bview (new_buf n imm nc) = [].
Proof. reflexivity. Qed.

Lemma buf_wf_set_tr_empty b t : buf_wf b -> bused b = 0 -> buf_wf (set_tr b t).
Proof.
  intros [L [U A]] Z. unfold buf_wf; cbn [bdata bsize bused btr set_tr]. repeat split; auto.
  intros Ht. rewrite Z. apply Nat.mod_0_l. assumption.
Qed.

Lemma hunref_shared hp i b : hget hp i = Some b -> 2 <= bref b ->
  hunref hp i = hset hp i (set_ref b (bref b - 1)).
Proof. intros E R. unfold hunref. rewrite E. destruct (Nat.leb_spec (bref b) 1); [lia|reflexivity]. Qed.

Lemma put_nil_0 d : put [] 0 d = d.
Proof. unfold put. simpl. rewrite skipn_nil, app_nil_r. reflexivity. Qed.

Lemma moved_buf_ok b n nc : buf_wf b -> bused b <= alloc_size n ->
  let content := slice 0 (bused b) (bdata b) in
  let nb := set_used (set_data (set_tr (new_buf n false nc) (btr b))
              (firstn 0 (repeat POISON (alloc_size n)) ++ content ++
               skipn (0 + length content) (repeat POISON (alloc_size n)))) (bused b) in
  buf_wf nb /\ bview nb = bview b.
Proof.
  intros [L [U A]] H content nb. subst content nb.
  assert (LS : length (slice 0 (bused b) (bdata b)) = bused b) by (apply length_slice; lia).
  split.
  - unfold buf_wf; bsimp. rewrite LS. repeat split; try exact A; try lia.
    len_simp. rewrite LS. simpl. lia.
  - unfold bview; bsimp. rewrite LS. unfold slice. simpl skipn at 1. simpl firstn at 2. rewrite app_nil_l. list_eq.
Qed.

Lemma fresh_copy b n nc : buf_wf b -> bused b <= n ->
  match buffer_set (set_tr (new_buf n false nc) (btr b)) (btr b) 0 (firstn (bused b) (bdata b)) with
  | Ok nx' => bref nx' = 1 /\ bimm nx' = false /\ bnc nx' = nc /\ btr nx' = btr b /\ bview nx' = bview b /\
              bused nx' = bused b /\ n <= bsize nx' /\ buf_wf nx'
  | _ => False
  end.
Proof.
  intros [L [U A]] Hn.
  assert (WN : buf_wf (set_tr (new_buf n false nc) (btr b)))
    by (apply buf_wf_set_tr_empty; [apply new_buf_wf|reflexivity]).
  pose proof (buffer_set_sem _ (btr b) 0 (firstn (bused b) (bdata b)) WN) as S.
  pose proof (alloc_size_ge n).
  assert (LF : length (firstn (bused b) (bdata b)) = bused b) by (rewrite firstn_length; lia).
  destruct (buffer_set _ _ 0 _) as [nx'| |] eqn:Eb.
  - destruct S as [[K1 [K2 [K3 [K4 K5]]]] [W' [V _]]]. bsimp_in K1. bsimp_in K2. bsimp_in K3. bsimp_in K4. bsimp_in K5.
    assert (V0 : bview nx' = bview b).
    { rewrite V. unfold bview at 2. bsimp. simpl firstn at 1. apply put_nil_0. }
    pose proof (bview_length _ W') as BL. rewrite V0 in BL. unfold bview in BL. rewrite LF in BL.
    rewrite K5. repeat (split; [solve [auto | lia]|]). exact W'.
  - unfold set_cond in S. rewrite LF in S. bsimp_in S.
    rewrite (proj2 (Nat.leb_le _ _)) in S by lia. cbn [andb] in S.
    destruct (Nat.eqb_spec (btr b) 0) as [T0|T0]; [discriminate|].
    rewrite Nat.eqb_refl in S. cbn [negb andb] in S.
    unfold aligned in S. rewrite Nat.mod_0_l, (A T0), Nat.eqb_refl in S by assumption. discriminate.
  - assumption.
Qed.

(* what detach guarantees about the private buffer *)
Definition private_copy (b b1 : buf) (len : nat) : Prop :=
  bref b1 = 1 /\ bimm b1 = false /\ bnc b1 = bnc b /\ btr b1 = btr b /\ bview b1 = bview b /\
  bused b1 = bused b /\ len <= bsize b1 /\ buf_wf b1.

Lemma detach_sem hp i b len : hget hp i = Some b -> buf_wf b -> 1 <= bref b ->
  (bused b <= len \/ (bref b = 1 /\ bimm b = false)) ->
  match detach hp i len with
  | Ok (hp', j) => exists b1, hget hp' j = Some b1 /\ ptrans hp (Some i) hp' (Some j) /\ private_copy b b1 len /\
                   (shared b && bnc b && negb (bused b =? 0)) = false
  | Err _ => (shared b && bnc b && negb (bused b =? 0)) = true
  | Fault => False
  end.
Proof.
  intros E W R Pre. unfold detach. rewrite E.
  set (len' := if btr b =? 0 then len else round_up (btr b) len).
  assert (Hl : len <= len').
  { subst len'. destruct (btr b =? 0); [lia|apply round_up_ge]. }
  destruct W as [L [U A]].
  destruct (Nat.ltb_spec (bref b) 2) as [R2|R2]; cbn [andb negb].
  - (* last reference *)
    destruct (Nat.leb_spec len' (bsize b)) as [Hs|Hs]; cbn [andb].
    + destruct (bimm b) eqn:Im; cbn [negb].
      * (* immutable: move *)
        destruct (Nat.leb_spec 2 (bref b)); [lia|].
        assert (Hu : bused b <= len') by (destruct Pre as [?|[_ ?]]; [lia|discriminate]).
        rewrite (proj2 (Nat.ltb_ge len' (bused b))) by lia.
        rewrite rd_ok by lia. cbn [bind].
        pose proof (alloc_size_ge len').
        rewrite wr_sem by (bsimp; rewrite repeat_length, length_slice by lia; lia). cbn [bind].
        destruct (moved_buf_ok b len' (bnc b) (conj L (conj U A)) ltac:(lia)) as [WN VN].
        eexists. split; [|split].
        -- rewrite hget_app_r by (rewrite length_hfree; lia). rewrite length_hfree, Nat.sub_diag. reflexivity.
        -- rewrite <- (hunref_private hp i b E ltac:(lia)).
           replace (length hp) with (length hp + 0) by lia.
           apply (P_fresh hp (Some i) 0); [reflexivity|exact WN].
        -- split; [|unfold shared; rewrite (proj2 (Nat.leb_gt _ _)) by lia; reflexivity].
           unfold private_copy. split; [reflexivity|]. split; [reflexivity|]. split; [reflexivity|].
           split; [reflexivity|]. split; [exact VN|]. split; [reflexivity|]. split; [bsimp; lia|exact WN].
      * exists b. split; [assumption|]. split; [apply P_same|].
        split; [|unfold shared; rewrite (proj2 (Nat.leb_gt _ _)) by lia; reflexivity].
        unfold private_copy. repeat split; auto; lia.
    + (* too small: move *)
      cbn [andb]. destruct (Nat.leb_spec 2 (bref b)); [lia|].
      rewrite (proj2 (Nat.ltb_ge len' (bused b))) by lia.
      rewrite rd_ok by lia. cbn [bind].
      pose proof (alloc_size_ge len').
      rewrite wr_sem by (bsimp; rewrite repeat_length, length_slice by lia; lia). cbn [bind].
      destruct (moved_buf_ok b len' (bnc b) (conj L (conj U A)) ltac:(lia)) as [WN VN].
      eexists. split; [|split].
      -- rewrite hget_app_r by (rewrite length_hfree; lia). rewrite length_hfree, Nat.sub_diag. reflexivity.
      -- rewrite <- (hunref_private hp i b E ltac:(lia)).
         replace (length hp) with (length hp + 0) by lia.
         apply (P_fresh hp (Some i) 0); [reflexivity|exact WN].
      -- split; [|unfold shared; rewrite (proj2 (Nat.leb_gt _ _)) by lia; reflexivity].
         unfold private_copy. split; [reflexivity|]. split; [reflexivity|]. split; [reflexivity|].
         split; [reflexivity|]. split; [exact VN|]. split; [reflexivity|]. split; [bsimp; lia|exact WN].
  - (* shared *)
    destruct (bnc b && negb (bused b =? 0)) eqn:Blk.
    { unfold shared. rewrite (proj2 (Nat.leb_le _ _)) by lia. rewrite <- andb_assoc. exact Blk. }
    rewrite (proj2 (Nat.leb_le 2 (bref b))) by lia.
    assert (Hu : bused b <= len') by (destruct Pre as [?|[? _]]; lia).
    pose proof (fresh_copy b len' (bnc b) (conj L (conj U A)) Hu) as F.
    destruct (buffer_set _ _ 0 _) as [nx'| |]; try contradiction.
    destruct F as [F1 [F2 [F3 [F4 [F5 [F6 [F7 F8]]]]]]].
    exists nx'. split; [|split].
    + rewrite hget_app_r by (rewrite length_hset; lia). rewrite length_hset, Nat.sub_diag. reflexivity.
    + rewrite <- (hunref_shared hp i b E ltac:(lia)).
      replace (length hp) with (length hp + 0) by lia.
      apply (P_fresh hp (Some i) 0); assumption.
    + split; [|unfold shared; rewrite (proj2 (Nat.leb_le _ _)) by lia; rewrite <- andb_assoc; exact Blk].
      unfold private_copy. repeat (split; [solve [auto | lia]|]). assumption.
Qed.
