(* C04/ArrayModel.v — mechanism-level model of the copy-on-write byte arrays of
   mptcore/array/*.c.  Executable, no proofs.

   heap     : bufid -> buffer header {ref; immutable; nocopy; traits; size; used} + [size] data bytes
   handle   : what MPT_STRUCT(array) / MPT_STRUCT(slice) hold: an optional bufid (+ window off,len)
   Every function is a transcription of the C function named in its comment (the
   code as it is on /repo main, after the fix: commits); all data accesses go through
   [rd]/[wr]/[mv] (Base/Mem.v), which yield [Fault] outside the [size] bytes of the block.

   Traits: only raw buffers (traits id 0 = NULL) and POD element types without
   init/fini are modelled; a POD traits object is identified by its element size
   (1 = mpt_type_traits('c'), 4 = a harness-defined 4-byte type).  Buffers with
   init/fini callbacks belong to C05.
   Fresh malloc memory reads as POISON (0xbe: the ASan malloc fill byte), so even a
   transcription that exposes uninitialised bytes stays comparable. *)
From MptV Require Export Base.Mem.
Local Open Scope nat_scope.
Local Open Scope bool_scope.

Definition HDR := 64.     (* sizeof(struct bufferData) *)
Definition PAGE := 128.   (* _MPT_BUFFER_PSTD *)
Definition POISON : byte := 190%N.
Definition zeros (n : nat) : list byte := repeat 0%N n.

(* _mpt_buffer_alloc: granted size *)
Definition alloc_size (len : nat) : nat := ((len + HDR - 1) / PAGE + 1) * PAGE - HDR.

Record buf := mkbuf {
  bref : nat;      (* bufferData._ref *)
  bimm : bool;     (* BufferImmutable *)
  bnc : bool;      (* BufferNoCopy *)
  btr : nat;       (* _content_traits: 0 = NULL (raw), n = POD type of element size n *)
  bsize : nat;     (* _size *)
  bused : nat;     (* _used *)
  bdata : mem      (* the _size bytes behind the header *)
}.

Definition set_ref b n := mkbuf n (bimm b) (bnc b) (btr b) (bsize b) (bused b) (bdata b).
Definition set_flags b i c := mkbuf (bref b) i c (btr b) (bsize b) (bused b) (bdata b).
Definition set_tr b t := mkbuf (bref b) (bimm b) (bnc b) t (bsize b) (bused b) (bdata b).
Definition set_used b n := mkbuf (bref b) (bimm b) (bnc b) (btr b) (bsize b) n (bdata b).
Definition set_data b m := mkbuf (bref b) (bimm b) (bnc b) (btr b) (bsize b) (bused b) m.

(* _mpt_buffer_alloc(len, flags) *)
Definition new_buf (len : nat) (imm nc : bool) : buf :=
  mkbuf 1 imm nc 0 (alloc_size len) 0 (repeat POISON (alloc_size len)).

(* get_flags() & BufferShared *)
Definition shared (b : buf) : bool := 2 <=? bref b.

Definition aligned (t n : nat) : bool := n mod t =? 0.
Definition round_up (t n : nat) : nat := if n mod t =? 0 then n else n + (t - n mod t).

(* ------------------------------------------------------------------ buffer level *)

(* buffer_insert.c: the new bytes [pos, pos+len) are left as they are *)
Definition buffer_insert (b : buf) (pos len : nat) : res buf :=
  let used := bused b in
  let total := if pos <? used then used + len else pos + len in
  let keep := if pos <? used then used - pos else 0 in
  if total =? 0 then Ok b else
  if bsize b <? total then Err EInval else
  if bimm b then Err BadOperation else
  if negb (btr b =? 0) && negb (aligned (btr b) used && aligned (btr b) pos && aligned (btr b) len)
  then Err EInval else
  do m1 <- (if keep =? 0 then Ok (bdata b) else mv (bdata b) (total - keep) pos keep);
  do m2 <- (if used <? pos then wr m1 used (zeros (pos - used)) else Ok m1);
  Ok (set_used (set_data b m2) total).

(* buffer_cut.c: len = 0 truncates at off (all data behind off is the cut range) *)
Definition buffer_cut (b : buf) (off len0 : nat) : res buf :=
  let used := bused b in
  if used <? len0 then Err BadArgument else
  do '(len, keep) <- (if len0 =? 0 then (if used <? off then Err MissingData else Ok (used - off, off))
                      else if used - len0 <? off then Err MissingData else Ok (len0, used - len0));
  if negb (btr b =? 0) && negb (aligned (btr b) off && aligned (btr b) len) then Err BadArgument else
  let keep' := keep - off in
  do m <- (if keep' =? 0 then Ok (bdata b) else mv (bdata b) off (off + len) keep');
  Ok (set_used (set_data b m) (off + keep')).

(* buffer_set.c (pos, data, len); [str] = traits of the source data; NULL data = zeros (driver) *)
Definition buffer_set (b : buf) (str pos : nat) (d : list byte) : res buf :=
  let len := length d in
  let fin := pos + len in
  if bsize b <? fin then Err MissingBuffer else
  if btr b =? 0 then
    if negb (str =? 0) then Err BadArgument else
    do m0 <- (if bused b <? pos then wr (bdata b) (bused b) (zeros (pos - bused b)) else Ok (bdata b));
    do m <- wr m0 pos d;
    Ok (set_used (set_data b m) (if bused b <? fin then fin else bused b))
  else
    if str =? 0 then Err BadType else
    if negb (aligned str pos && aligned str len) then Err BadArgument else
    if negb (btr b =? str) then Err BadType else
    let used := bused b - bused b mod str in
    do m0 <- (if used <? pos then wr (bdata b) used (zeros (pos - used)) else Ok (bdata b));
    do m <- wr m0 pos d;
    Ok (set_used (set_data b m) (if used <? fin then fin else used)).

(* ------------------------------------------------------------------ heap *)
Definition heap := list (option buf).   (* None = freed block; ids are never reused *)

Definition hget (hp : heap) (i : nat) : option buf :=
  match nth_error hp i with Some (Some b) => Some b | _ => None end.

Fixpoint lset {A} (l : list A) (i : nat) (v : A) : list A :=
  match l, i with
  | [], _ => []
  | _ :: t, 0 => v :: t
  | x :: t, S j => x :: lset t j v
  end.

Definition hset (hp : heap) (i : nat) (b : buf) : heap := lset hp i (Some b).
Definition hfree (hp : heap) (i : nat) : heap := lset hp i None.
Definition halloc (hp : heap) (b : buf) : heap * nat := (hp ++ [Some b], length hp).

(* vptr->unref *)
Definition hunref (hp : heap) (i : nat) : heap :=
  match hget hp i with
  | None => hp
  | Some b => if bref b <=? 1 then hfree hp i else hset hp i (set_ref b (bref b - 1))
  end.
(* vptr->addref *)
Definition haddref (hp : heap) (i : nat) : heap :=
  match hget hp i with None => hp | Some b => hset hp i (set_ref b (bref b + 1)) end.

(* buffer_alloc.c: _mpt_buffer_alloc_detach.  Result: heap and the id of the private buffer.
   Copy path (other references remain): min(used, len) bytes are copied; a failing
   copy releases the new block and restores the reference count: nothing changed. *)
Definition detach (hp : heap) (i : nat) (len0 : nat) : res (heap * nat) :=
  match hget hp i with
  | None => Fault
  | Some b =>
    let len := if btr b =? 0 then len0 else round_up (btr b) len0 in
    if (bref b <? 2) && (len <=? bsize b) && negb (bimm b) then Ok (hp, i) else
    if negb (bref b <? 2) && bnc b && negb (bused b =? 0) then Err BadOperation else
    let nx := set_tr (new_buf len false (bnc b)) (btr b) in
    if 2 <=? bref b then
      (* other references remain: copy the content the new size allows *)
      let add := if len <? bused b then len else bused b in
      match buffer_set nx (btr b) 0 (firstn add (bdata b)) with
      | Ok nx' => Ok (hset hp i (set_ref b (bref b - 1)) ++ [Some nx'], length hp)
      | Err e => Err e
      | Fault => Fault
      end
    else
      (* last reference: move the content, release the old block *)
      let add := if len <? bused b then (if btr b =? 0 then len else bused b) else bused b in
      do src <- rd (bdata b) 0 add;
      do m <- wr (bdata nx) 0 src;
      Ok (hfree hp i ++ [Some (set_used (set_data nx m) add)], length hp)
  end.

(* ------------------------------------------------------------------ array level
   an array is [option bufid].  Result of an array function: accepted (new heap,
   new array value, returned number), refused (with the heap and array value the C
   leaves behind: a refusal after a successful detach keeps the private copy), or Fault *)
Definition arr := option nat.

Inductive ares :=
| ADone (hp : heap) (a : arr) (n : nat)
| ARefused (hp : heap) (a : arr)
| AFault.

(* run [r]; a refusal reports the state [hp], [a] reached so far *)
Definition lift (hp : heap) (a : arr) (r : res (heap * arr * nat)) : ares :=
  match r with Ok (h, a', n) => ADone h a' n | Err _ => ARefused hp a | Fault => AFault end.

(* optional detach of buffer [i], then [k] on the private buffer *)
Definition with_private (hp : heap) (i : nat) (need : bool) (len : nat)
  (k : heap -> nat -> ares) : ares :=
  if need then
    match detach hp i len with
    | Ok (hp1, j) => k hp1 j
    | Err _ => ARefused hp (Some i)
    | Fault => AFault
    end
  else k hp i.

Definition store (hp : heap) (j : nat) (pos : nat) (d : list byte) : res heap :=
  match hget hp j with
  | None => Fault
  | Some b => do m <- wr (bdata b) pos d; Ok (hset hp j (set_data b m))
  end.

(* array_append.c *)
Definition append_at (hp : heap) (j used : nat) (d : list byte) : ares :=
  match hget hp j with
  | None => AFault
  | Some b =>
    if length d =? 0 then ADone hp (Some j) 0 else
    lift hp (Some j) (do m <- wr (bdata b) used d;
                      Ok (hset hp j (set_used (set_data b m) (used + length d)), Some j, 0))
  end.

Definition array_append (hp : heap) (a : arr) (d : list byte) : ares :=
  let len := length d in
  match a with
  | None => let '(hp1, j) := halloc hp (new_buf len false false) in append_at hp1 j 0 d
  | Some i =>
    match hget hp i with
    | None => AFault
    | Some b =>
      if negb (btr b =? 0) then ARefused hp a else
      let used := bused b in
      with_private hp i ((bsize b - used <? len) || (negb (len =? 0) && (shared b || bimm b)))
        (used + len) (fun hp1 j => append_at hp1 j used d)
    end
  end.

(* array_insert.c followed by the caller's copy of [d] to the returned address *)
Definition insert_at (hp : heap) (j pos : nat) (d : list byte) : ares :=
  match hget hp j with
  | None => AFault
  | Some b =>
    lift hp (Some j) (do b2 <- buffer_insert b pos (length d);
                      do hp2 <- store (hset hp j b2) j pos d;
                      Ok (hp2, Some j, 0))
  end.

Definition array_insert (hp : heap) (a : arr) (pos : nat) (d : list byte) : ares :=
  let len := length d in
  match a with
  | None =>
    let '(hp1, j) := halloc hp (new_buf (pos + len) false false) in
    match hget hp1 j with
    | None => AFault
    | Some b =>
      lift hp a (do m <- wr (bdata b) 0 (zeros pos);
                 do m' <- wr m pos d;
                 Ok (hset hp1 j (set_used (set_data b m') (pos + len)), Some j, 0))
    end
  | Some i =>
    match hget hp i with
    | None => AFault
    | Some b =>
      let used := if bused b <? pos then pos else bused b in
      with_private hp i (negb ((used + len <=? bsize b) && negb (shared b) && negb (bimm b)))
        (used + len) (fun hp1 j => insert_at hp1 j pos d)
    end
  end.

(* array_set.c; [neg] = offset counted from the end of the data, [off] in elements *)
Definition set_at (hp : heap) (j tr pos : nat) (d : list byte) : ares :=
  match hget hp j with
  | None => AFault
  | Some b => lift hp (Some j) (do b' <- buffer_set b tr pos d; Ok (hset hp j b', Some j, 0))
  end.

Definition array_set (hp : heap) (a : arr) (tr : nat) (neg : bool) (off : nat) (d : list byte) : ares :=
  let len := length d in
  if tr =? 0 then ARefused hp a else
  if negb (aligned tr len) then ARefused hp a else
  match a with
  | None =>
    if neg && negb (off =? 0) then ARefused hp a else
    let pos := off * tr in
    let '(hp1, j) := halloc hp (set_tr (new_buf (pos + len) false false) tr) in
    set_at hp1 j tr pos d
  | Some i =>
    match hget hp i with
    | None => AFault
    | Some b =>
      if negb (btr b =? tr) then ARefused hp a else
      if neg && (bused b <? off * tr) then ARefused hp a else
      let pos := if neg then bused b - off * tr else off * tr in
      let total := pos + len in
      with_private hp i ((bsize b <? total) || bimm b || shared b)
        (if total <? bused b then bused b else total) (fun hp1 j => set_at hp1 j tr pos d)
    end
  end.

(* array_slice.c; the result address is [off] in the returned array *)
Definition extend_at (hp : heap) (j used total : nat) : ares :=
  if used <? total then
    match hget hp j with
    | None => AFault
    | Some b =>
      lift hp (Some j) (do b2 <- buffer_insert b used (total - used);
                        do hp2 <- store (hset hp j b2) j used (zeros (total - used));
                        Ok (hp2, Some j, 0))
    end
  else ADone hp (Some j) 0.

Definition array_slice (hp : heap) (a : arr) (off len : nat) : ares :=
  let total := off + len in
  match a with
  | None =>
    let '(hp1, j) := halloc hp (new_buf total false false) in
    match hget hp1 j with
    | None => AFault
    | Some b => lift hp a (do m <- wr (bdata b) 0 (zeros total);
                           Ok (hset hp1 j (set_used (set_data b m) total), Some j, 0))
    end
  | Some i =>
    match hget hp i with
    | None => AFault
    | Some b =>
      let used := bused b in
      if negb (btr b =? 0) && negb (aligned (btr b) off && aligned (btr b) len && aligned (btr b) used)
      then ARefused hp a else
      with_private hp i ((bsize b <? total) || bimm b || shared b)
        (if total <? used then used else total) (fun hp1 j => extend_at hp1 j used total)
    end
  end.

(* array_reserve.c *)
Definition array_reserve (hp : heap) (a : arr) (len0 tr : nat) : ares :=
  let len := if tr =? 0 then len0 else round_up tr len0 in
  match a with
  | None =>
    let '(hp1, j) := halloc hp (set_tr (new_buf len false false) tr) in ADone hp1 (Some j) 0
  | Some i =>
    match hget hp i with
    | None => AFault
    | Some b =>
      if shared b || bimm b then
        let keep := (btr b =? tr) && negb (bnc b) in
        let used := if keep then (if btr b =? 0 then bused b else bused b - bused b mod btr b) else 0 in
        let nx := set_tr (new_buf (if len <? used then used else len) false false) tr in
        lift hp a (do nx' <- (if used =? 0 then Ok nx else buffer_set nx tr 0 (firstn used (bdata b)));
                   Ok (hunref hp i ++ [Some nx'], Some (length hp), 0))
      else
        let b0 := if btr b =? tr then b else set_used b 0 in
        match detach (hset hp i b0) i len with
        | Ok (hp1, j) =>
          match hget hp1 j with
          | None => AFault
          | Some b1 => ADone (hset hp1 j (set_tr b1 tr)) (Some j) 0
          end
        | Err _ => ARefused (hset hp i b0) a
        | Fault => AFault
        end
    end
  end.

(* array_clone.c: [from] = None is the NULL source pointer, Some a' a source array *)
Definition array_clone (hp : heap) (a : arr) (from : option arr) : ares :=
  match from with
  | None =>
    match a with
    | None => ADone hp None 0
    | Some i => ADone (hunref hp i) None 2
    end
  | Some s =>
    if match a, s with Some i, Some k => i =? k | None, None => true | _, _ => false end
    then ADone hp a 0 else
    let differ := match a, s with
                  | Some i, Some k => match hget hp i, hget hp k with
                                      | Some b, Some c => negb (btr b =? btr c) | _, _ => false end
                  | _, _ => false end in
    if differ then ARefused hp a else
    let hp1 := match s with Some k => haddref hp k | None => hp end in
    match a with
    | None => ADone hp1 s (match s with Some _ => 1 | None => 0 end)
    | Some i => ADone (hunref hp1 i) s (match s with Some _ => 3 | None => 2 end)
    end
  end.

(* array_reduce.c; number = reported size *)
Definition array_reduce (hp : heap) (a : arr) : ares :=
  match a with
  | None => ADone hp None 0
  | Some i =>
    match hget hp i with
    | None => AFault
    | Some b =>
      match detach hp i (bused b) with
      | Ok (hp1, j) => match hget hp1 j with None => AFault | Some b1 => ADone hp1 (Some j) (bsize b1) end
      | Err _ => ADone hp a (bsize b)
      | Fault => AFault
      end
    end
  end.

(* vsnprintf(base, cap, "%s", text): bytes stored at base *)
Definition vsn (cap : nat) (text : list byte) : list byte :=
  if cap =? 0 then [] else firstn (cap - 1) text ++ [0%N].

Definition round64 (len : nat) : nat :=
  if len mod 64 =? 0 then len else len - len mod 64 + 64.

(* tail of mpt_vprintf after the first mpt_array_slice(arr, used, len) succeeded *)
Definition printf_at (hp : heap) (j used len : nat) (text : list byte) : ares :=
  let rval := length text in
  match store hp j used (vsn len text) with
  | Fault => AFault
  | Err _ => ARefused hp (Some j)
  | Ok hp2 =>
    if (rval =? 0) || (rval <? len) then
      match hget hp2 j with
      | None => AFault
      | Some b2 => ADone (hset hp2 j (set_used b2 (used + rval))) (Some j) rval
      end
    else
      let len2 := (rval / 64 + 1) * 64 in   (* while (len <= rval) len += 64, len a multiple of 64 *)
      match array_slice hp2 (Some j) used len2 with
      | ADone hp3 (Some k) _ =>
        match store hp3 k used (vsn len2 text) with
        | Ok hp4 =>
          match hget hp4 k with
          | None => AFault
          | Some b4 => ADone (hset hp4 k (set_used b4 (used + rval))) (Some k) rval
          end
        | Err _ => ARefused hp3 (Some k)
        | Fault => AFault
        end
      | ADone _ None _ => AFault
      | ARefused hp3 a3 => ARefused hp3 a3
      | AFault => AFault
      end
  end.

(* printf.c: mpt_vprintf with format "%s" and argument [text] (no NUL inside); number = result *)
Definition array_printf (hp : heap) (a : arr) (text : list byte) : ares :=
  match a with
  | None =>
    let '(hp1, j) := halloc hp (set_tr (new_buf 64 false false) 1) in
    match array_slice hp1 (Some j) 0 (alloc_size 64) with
    | ADone hp2 (Some k) _ => printf_at hp2 k 0 (alloc_size 64) text
    | ADone _ None _ => AFault
    | ARefused hp2 a2 => ARefused hp2 a2
    | AFault => AFault
    end
  | Some i =>
    match hget hp i with
    | None => AFault
    | Some b =>
      if negb (btr b =? 1) then ARefused hp a else
      let len := round64 (bsize b - bused b) in
      match array_slice hp a (bused b) len with
      | ADone hp2 (Some k) _ => printf_at hp2 k (bused b) len text
      | ADone _ None _ => AFault
      | ARefused hp2 a2 => ARefused hp2 a2
      | AFault => AFault
      end
    end
  end.

Fixpoint has_zero (l : list byte) : bool :=
  match l with [] => false | x :: t => (x =? 0)%N || has_zero t end.
Fixpoint cstr (l : list byte) : list byte :=
  match l with [] => [] | x :: t => if (x =? 0)%N then [] else x :: cstr t end.

(* array_string.c; number = strlen of the returned string *)
Definition array_string (hp : heap) (a : arr) : ares :=
  match a with
  | None => ARefused hp a
  | Some i =>
    match hget hp i with
    | None => AFault
    | Some b =>
      if negb (btr b =? 1) then ARefused hp a else
      let v := firstn (bused b) (bdata b) in
      if has_zero v then ADone hp a (length (cstr v)) else
      match array_slice hp a (bused b) 1 with
      | ADone hp1 a1 _ => ADone hp1 a1 (bused b)
      | r => r
      end
    end
  end.

(* ------------------------------------------------------------------ slices *)
Inductive sres :=
| SDone (hp : heap) (a : arr) (off len n : nat)
| SRefused (hp : heap) (a : arr) (off len : nat)
| SFault.

(* exactly n bytes of caller data (NULL = zeros) *)
Definition norm (n : nat) (from : bool) (d : list byte) : list byte :=
  if from then firstn n (d ++ zeros n) else zeros n.

(* a new block holding [content] *)
Definition filled_buf (content : list byte) : res buf :=
  let nb := new_buf (length content) false false in
  do m <- wr (bdata nb) 0 content;
  Ok (set_used (set_data nb m) (length content)).

(* slice_write.c: _fast_append *)
Definition fast_append (hp : heap) (j off len nblk esz : nat) (data : list byte) : sres :=
  match hget hp j with
  | None => SFault
  | Some b =>
    let pos := off + len in
    let avail := bsize b - pos in
    let cnt := Nat.min nblk (avail / esz) in
    let take := cnt * esz in
    match wr (bdata b) pos (firstn take data) with
    | Ok m =>
      let used := if bused b <? pos + take then pos + take else bused b in
      SDone (hset hp j (set_used (set_data b m) used)) (Some j) off (len + take) cnt
    | _ => SFault
    end
  end.

(* slice_write.c: the slow path: new block = window ++ data *)
Definition slow_write (hp : heap) (a : arr) (off len nblk : nat) (data : list byte) : sres :=
  match a with
  | Some i =>
    match hget hp i with
    | None => SFault
    | Some b =>
      match (do src <- rd (bdata b) off len; filled_buf (src ++ data)) with
      | Ok nb => SDone (hunref hp i ++ [Some nb]) (Some (length hp)) 0 (len + length data) nblk
      | _ => SFault
      end
    end
  | None =>
    match filled_buf data with
    | Ok nb => SDone (hp ++ [Some nb]) (Some (length hp)) 0 (length data) nblk
    | _ => SFault
    end
  end.

(* mpt_slice_write(sl = (a, off0, len0), nblk, from, esz) *)
Definition slice_write (hp : heap) (a : arr) (off0 len0 nblk esz : nat) (from : bool) (d : list byte) : sres :=
  let ob := match a with None => None | Some i => hget hp i end in
  if match a, ob with Some _, None => true | _, _ => false end then SFault else
  if match ob with Some b => negb (btr b =? 0) | None => false end then SRefused hp a off0 len0 else
  let used := match ob with Some b => bused b | None => 0 end in
  let size := match ob with Some b => bsize b | None => 0 end in
  (* fix slice area *)
  let off := if used <? off0 + len0 then (if used <=? off0 then used else off0) else off0 in
  let len := if used <? off0 + len0 then (if used <=? off0 then 0 else used - off0) else len0 in
  let pos := off + len in
  let avail := size - pos in
  if esz =? 0 then
    if nblk =? 0 then SDone hp a off len 0 else
    if from then SRefused hp a off len else
    if nblk <=? avail then SDone hp a off len (avail / nblk) else
    match array_slice hp a pos nblk with
    | ADone hp1 (Some j) _ =>
      match hget hp1 j with
      | None => SFault
      | Some b1 =>
        let hp2 := match buffer_cut b1 pos nblk with Ok b2 => hset hp1 j b2 | _ => hp1 end in
        SDone hp2 (Some j) off len ((avail + nblk) / nblk)
      end
    | ADone _ None _ => SFault
    | ARefused hp1 a1 => SRefused hp1 a1 off len
    | AFault => SFault
    end
  else
  let data := norm (nblk * esz) from d in
  match a, ob with
  | Some i, Some b =>
    if negb (bimm b || shared b) then
      if nblk =? 0 then SDone hp a off len 0 else
      if esz <=? avail then fast_append hp i off len nblk esz data else
      if negb (off =? 0) && (esz <=? avail + off) then
        match (if len =? 0 then Ok (bdata b) else mv (bdata b) 0 off len) with
        | Ok m => fast_append (hset hp i (set_used (set_data b m) len)) i 0 len nblk esz data
        | _ => SFault
        end
      else slow_write hp a off len nblk data
    else slow_write hp a off len nblk data
  | _, _ => slow_write hp a off len nblk data
  end.

(* ------------------------------------------------------------------ C++ entry points (mpt++/array.cpp, array.h)
   The buffers are the same C buffers; the C++ methods are thin compositions of the
   C functions above or have their own logic, transcribed here.
   array::insert(off,len,data) = mpt_array_insert + copy  -> [array_insert]   (after the proposed patch)
   array::printf / string / slice::write               -> [array_printf] / [array_string] / [slice_write] *)

(* reference<content>::operator= (array copy construction / assignment): no type check *)
Definition ref_assign (hp : heap) (a s : arr) : heap * arr :=
  if match a, s with Some i, Some k => i =? k | None, None => true | _, _ => false end then (hp, a) else
  let hp1 := match s with Some k => haddref hp k | None => hp end in
  (match a with Some i => hunref hp1 i | None => hp1 end, s).

(* array::append(len, data): mpt_array_append(this, len) (zero filled), then memcpy to the returned address *)
Definition x_append (hp : heap) (a : arr) (d : list byte) : ares :=
  if length d =? 0 then array_append hp a [] else
  let used := match a with
              | Some i => match hget hp i with Some b => bused b | None => 0 end
              | None => 0 end in
  match array_append hp a (zeros (length d)) with
  | ADone hp1 (Some j) n => lift hp1 (Some j) (do hp2 <- store hp1 j used d; Ok (hp2, Some j, n))
  | r => r
  end.

(* array::set(len, base), new-buffer part: buffer::create(len), append(len), install, copy *)
Definition x_fresh (hp : heap) (a : arr) (d : list byte) : ares :=
  match (let nb := new_buf (length d) false false in
         do m <- wr (bdata nb) 0 d; Ok (set_used (set_data nb m) (length d))) with
  | Ok nb => ADone (match a with Some i => hunref hp i | None => hp end ++ [Some nb]) (Some (length hp)) 0
  | _ => AFault
  end.

(* array::set(len, base) *)
Definition x_set (hp : heap) (a : arr) (d : list byte) : ares :=
  let len := length d in
  match a with
  | None => x_fresh hp a d
  | Some i =>
    match hget hp i with
    | None => AFault
    | Some b =>
      if negb (btr b =? 0) || shared b then x_fresh hp a d else
      if (len <=? bused b) (* set_length(len) *)
         || negb (bsize b - bused b <? len - bused b) (* buffer::append(len - used) *)
      then lift hp a (do m <- wr (bdata b) 0 d; Ok (hset hp i (set_used (set_data b m) len), a, 0))
      else x_fresh hp a d
    end
  end.

(* array::set(const value &) for a string value (after the proposed patch): new character buffer text + NUL *)
Definition x_set_str (hp : heap) (a : arr) (text : list byte) : ares :=
  let nb := set_tr (new_buf (length text + 1) false false) 1 in
  match (do b1 <- buffer_set nb 1 0 text; buffer_set b1 1 (length text) [0%N]) with
  | Ok b2 => ADone (match a with Some i => hunref hp i | None => hp end ++ [Some b2]) (Some (length hp)) 0
  | Err _ => ARefused hp a
  | Fault => AFault
  end.

(* array::operator=(const slice &): set(len, base + off) with the bytes of the slice window *)
Definition x_assign_slice (hp : heap) (a src : arr) (off len : nat) : ares :=
  match src with
  | None => x_set hp a []
  | Some k =>
    match hget hp k with
    | None => AFault
    | Some c => match rd (bdata c) off len with Ok w => x_set hp a w | _ => AFault end
    end
  end.

(* array::set(const value &) for vector / scalar values (TypeVector: raw, tr = 0; vector of a scalar type or one scalar:
   the element type's traits): buffer::create(len, traits), mpt_buffer_set(buf, traits, 0, ptr, len), install *)
Definition x_set_val (hp : heap) (a : arr) (tr : nat) (d : list byte) : ares :=
  let nb := set_tr (new_buf (length d) false false) tr in
  match buffer_set nb tr 0 d with
  | Ok b2 => ADone (match a with Some i => hunref hp i | None => hp end ++ [Some b2]) (Some (length hp)) 0
  | Err _ => ARefused hp a
  | Fault => AFault
  end.

(* array::content::set_length(len) (raw data only; the new part is zero filled) *)
Definition x_set_len (b : buf) (n : nat) : res buf :=
  if negb (btr b =? 0) then Err BadType else
  if bsize b <? n then Err MissingBuffer else
  do m <- (if bused b <? n then wr (bdata b) (bused b) (zeros (n - bused b)) else Ok (bdata b));
  Ok (set_used (set_data b m) n).

(* the content of a buffer *)
Definition bview (b : buf) : list byte := firstn (bused b) (bdata b).

(* ------------------------------------------------------------------ class templates of mptcore/array.h
   typed_array<T>, unique_array<T>, pointer_array<T>, map<K,V> hold a reference<content<T>>: the same C
   buffers with _content_traits = traits of T ([tr] = sizeof(T); POD or bitwise copy/init).  A handle
   without a buffer stands for the static default_data object (Immutable|Shared|NoCopy, size 0): its
   detach() creates a block (NoCopy for unique_array: [uq]).  Every method is a composition of the C
   functions above plus index arithmetic; transcribed AS PATCHED by docs/C04_{reserve_negative,reserve_keep,
   reserve_fail,map_get,map_set_shared,swap_bounds,ptr_swap_shared}.diff.

   A C long position / length: forward k, backward = the negative value -(k+1), or "the current length"
   (map::set/append/values call insert(length(), ...)). *)
Inductive tpos := PFwd (k : nat) | PBack (k : nat) | PEnd.

Definition t_at (used : nat) (p : tpos) : option nat :=
  match p with
  | PFwd k => Some k
  | PBack k => if used <? k + 1 then None else Some (used - (k + 1))
  | PEnd => Some used
  end.

(* content<T>::length() = _used / sizeof(T) *)
Definition t_len (hp : heap) (a : arr) (tr : nat) : nat :=
  match a with
  | Some i => match hget hp i with Some b => bused b / tr | None => 0 end
  | None => 0
  end.

(* c = _ref.detach(); n = c->detach(cnt * sizeof(T)); _ref.set_instance(n ? n : c) *)
Definition t_private (hp : heap) (a : arr) (tr : nat) (uq : bool) (cnt : nat) : ares :=
  match a with
  | None => let '(hp1, j) := halloc hp (set_tr (new_buf (cnt * tr) false uq) tr) in ADone hp1 (Some j) 0
  | Some i =>
    match detach hp i (cnt * tr) with
    | Ok (hp1, j) => ADone hp1 (Some j) 0
    | Err _ => ARefused hp a
    | Fault => AFault
    end
  end.

(* unique_array::reserve(len): negative = relative to the length; a private copy keeps all elements;
   a failing detach is a refusal *)
Definition t_reserve (hp : heap) (a : arr) (tr : nat) (uq : bool) (len : tpos) : ares :=
  let used := t_len hp a tr in
  match t_at used len with
  | None => ARefused hp a
  | Some n => t_private hp a tr uq (Nat.max n used)
  end.

(* typed_array::insert(pos, val) / unique_array::insert(pos) + assignment: reserve(max(len,pos)+1),
   content<T>::insert(pos) = mpt_buffer_insert(pos * sizeof(T), sizeof(T)), element stored *)
Definition t_insert (hp : heap) (a : arr) (tr : nat) (uq : bool) (pos : tpos) (d : list byte) : ares :=
  let used := t_len hp a tr in
  match t_at used pos with
  | None => ARefused hp a
  | Some p =>
    match t_private hp a tr uq (Nat.max p used + 1) with
    | ADone hp1 (Some j) _ => insert_at hp1 j (p * tr) d
    | ADone _ None _ => AFault
    | r => r
    end
  end.

(* unique_array::set(pos, v): position inside the elements, detach(), assignment.  [off] = offset of the
   stored bytes inside the element (map::set stores the value behind the key) *)
Definition t_store (hp : heap) (a : arr) (tr : nat) (uq : bool) (pos : tpos) (off : nat) (d : list byte) : ares :=
  let used := t_len hp a tr in
  match t_at used pos with
  | None => ARefused hp a
  | Some p =>
    if used <=? p then ARefused hp a else
    match t_private hp a tr uq used with
    | ADone hp1 (Some j) _ => lift hp1 (Some j) (do hp2 <- store hp1 j (p * tr + off) d; Ok (hp2, Some j, 0))
    | ADone _ None _ => AFault
    | r => r
    end
  end.

(* content<T>::set_length(n): buffer::trim / mpt_buffer_insert(n * sizeof(T), 0) *)
Definition t_set_length (hp : heap) (j tr n : nat) : ares :=
  match hget hp j with
  | None => AFault
  | Some b =>
    let set := n * tr in
    if set =? bused b then ADone hp (Some j) 0 else
    if set <? bused b then
      if negb (btr b =? 0) && negb (aligned (btr b) (bused b) && aligned (btr b) set) then ARefused hp (Some j)
      else ADone (hset hp j (set_used b set)) (Some j) 0
    else lift hp (Some j) (do b2 <- buffer_insert b set 0; Ok (hset hp j b2, Some j, 0))
  end.

(* unique_array::resize(len): reserve(len), then set_length(len) unless len is negative *)
Definition t_resize (hp : heap) (a : arr) (tr : nat) (uq : bool) (len : tpos) : ares :=
  match t_reserve hp a tr uq len with
  | ADone hp1 (Some j) n =>
    match len with
    | PBack _ => ADone hp1 (Some j) n
    | _ => match t_at (t_len hp a tr) len with Some m => t_set_length hp1 j tr m | None => AFault end
    end
  | r => r
  end.

(* unique_array::detach() *)
Definition t_detach (hp : heap) (a : arr) (tr : nat) (uq : bool) : ares :=
  t_private hp a tr uq (t_len hp a tr).

(* typed_array(len) / unique_array(len) / pointer_array(len), len >= 0, assigned to the handle: a new block for len
   elements replaces the reference (a negative len leaves the static default_data = clear, [array_clone] from nothing) *)
Definition t_new (hp : heap) (a : arr) (tr : nat) (uq : bool) (n : nat) : ares :=
  let hp1 := match a with Some i => hunref hp i | None => hp end in
  let '(hp2, j) := halloc hp1 (set_tr (new_buf (n * tr) false uq) tr) in ADone hp2 (Some j) 0.

(* elements of [tr] bytes; an unused pointer = all bytes zero *)
Fixpoint all_zero (l : list byte) : bool :=
  match l with [] => true | x :: t => (x =? 0)%N && all_zero t end.
Fixpoint compactv (n tr : nat) (l : list byte) : list byte :=
  match n with
  | 0 => []
  | S n' => (if all_zero (firstn tr l) then [] else firstn tr l) ++ compactv n' tr (skipn tr l)
  end.
Fixpoint unusedv (n tr : nat) (l : list byte) : nat :=
  match n with
  | 0 => 0
  | S n' => (if all_zero (firstn tr l) then 1 else 0) + unusedv n' tr (skipn tr l)
  end.

(* pointer_array::compact(): nothing for immutable data; private: mpt_array_compact moves the used
   pointers to the front (the bytes behind the new length are not part of the content and not
   modelled), set_length; shared: a new block receives the used pointers one after the other *)
Definition p_compact (hp : heap) (a : arr) (tr : nat) : ares :=
  match a with
  | None => ADone hp a 0
  | Some i =>
    match hget hp i with
    | None => AFault
    | Some b =>
      if bimm b then ADone hp a 0 else
      let keep := compactv (bused b / tr) tr (bview b) in
      if shared b then
        let nb := set_tr (new_buf (length keep) false false) tr in
        lift hp a (do m <- wr (bdata nb) 0 keep;
                   Ok (hunref hp i ++ [Some (set_used (set_data nb m) (length keep))], Some (length hp), 0))
      else
        lift hp a (do m <- wr (bdata b) 0 keep; Ok (hset hp i (set_used (set_data b m) (length keep)), a, 0))
    end
  end.

(* pointer_array::swap(p1, p2): detach(), positions inside the elements ([None] = a negative argument) *)
Definition p_swap (hp : heap) (a : arr) (tr : nat) (uq : bool) (p1 p2 : option nat) : ares :=
  let used := t_len hp a tr in
  match t_private hp a tr uq used with
  | ADone hp1 (Some j) _ =>
    match p1, p2 with
    | Some q1, Some q2 =>
      if (used <=? q1) || (used <=? q2) then ARefused hp1 (Some j) else
      match hget hp1 j with
      | None => AFault
      | Some b =>
        lift hp1 (Some j) (do e1 <- rd (bdata b) (q1 * tr) tr;
                           do e2 <- rd (bdata b) (q2 * tr) tr;
                           do m1 <- wr (bdata b) (q1 * tr) e2;
                           do m2 <- wr m1 (q2 * tr) e1;
                           Ok (hset hp1 j (set_data b m2), Some j, 0))
      end
    | _, _ => ARefused hp1 (Some j)
    end
  | ADone _ None _ => AFault
  | r => r
  end.

(* map<K,V>: elements = key ([ks] bytes) followed by the value; linear search for the first element with the key *)
Fixpoint list_eqb (a b : list byte) : bool :=
  match a, b with
  | [], [] => true
  | x :: s, y :: t => (x =? y)%N && list_eqb s t
  | _, _ => false
  end.
Fixpoint find_key (n i ks tr : nat) (l key : list byte) : option nat :=
  match n with
  | 0 => None
  | S n' => if list_eqb (firstn ks l) key then Some i else find_key n' (S i) ks tr (skipn tr l) key
  end.

(* map::set(key, value): the value of the first element with the key is replaced in private data, else
   the pair is inserted behind the elements *)
Definition m_set (hp : heap) (a : arr) (ks tr : nat) (key val : list byte) : ares :=
  let l := match a with
           | Some i => match hget hp i with Some b => bview b | None => [] end
           | None => [] end in
  match find_key (length l / tr) 0 ks tr l key with
  | Some i => t_store hp a tr false (PFwd i) ks val
  | None => t_insert hp a tr false PEnd (key ++ val)
  end.

(* the template operations are applied to handles of their own element type only (static typing) *)
Definition t_ok (hp : heap) (a : arr) (tr : nat) : bool :=
  negb (tr =? 0) &&
  match a with
  | None => true
  | Some i => match hget hp i with Some b => btr b =? tr | None => false end
  end.
(* pointer_array always owns a block (pointer_array(long len = 0)): swap is not applied to the default_data *)
Definition t_okb (hp : heap) (a : arr) (tr : nat) : bool :=
  match a with None => false | Some _ => t_ok hp a tr end.

(* ------------------------------------------------------------------ handles, operations *)
Record handle := mkh { hbuf : arr; hsl : bool; hoff : nat; hlen : nat }.
Record state := mkst { sheap : heap; shnd : list handle }.

Definition hnd (st : state) (x : nat) : handle := nth x (shnd st) (mkh None false 0 0).
Definition upd_arr (st : state) (x : nat) (hp : heap) (a : arr) : state :=
  mkst hp (lset (shnd st) x (mkh a (hsl (hnd st x)) (hoff (hnd st x)) (hlen (hnd st x)))).

Inductive op :=
| OAppend (x : nat) (d : list byte)
| OInsert (x pos : nat) (d : list byte)
| OSet (x tr : nat) (neg : bool) (off : nat) (d : list byte)
| OSlice (x off : nat) (d : list byte) (w : bool)   (* mpt_array_slice(off, |d|); w: caller stores d there *)
| OReserve (x len tr : nat)
| OClone (x : nat) (y : option nat)
| OReduce (x : nat)
| OBufInsert (x pos : nat) (d : list byte)
| OBufCut (x off len : nat)
| OBufSet (x tr pos : nat) (d : list byte)
| OPrintf (x : nat) (text : list byte)
| OString (x : nat)
| ONew (x len : nat) (imm nc : bool)
| OFlags (x : nat) (imm nc : bool)
| OMkSlice (s x off len : nat)
| OWrite (s nblk esz : nat) (from : bool) (d : list byte)
(* C++ API *)
| OXAssign (x y : nat)                 (* arr[x] = arr[y] *)
| OXAppend (x : nat) (d : list byte)
| OXSet (x : nat) (d : list byte)
| OXSetStr (x : nat) (text : list byte)
| OXAssignSlice (x s : nat)            (* arr[x] = slice s *)
| OXMkSlice (s y : nat)                (* sl[s] = slice(arr[y]) *)
| OXShift (s n : nat)
| OXTrim (s n : nat)
| OXSetRef (x y : nat)                 (* arr[x].set(reference<buffer> of arr[y]) *)
| OXSetVal (x tr : nat) (d : list byte) (* arr[x].set(value): vector / scalar of element size tr (0 = TypeVector) *)
| OXSetLen (x n : nat)                 (* array::content::set_length *)
| OXSliceCopy (s t : nat)              (* sl[s] = slice(sl[t]) *)
| OXSliceSet (s : nat) (d : list byte) (ok : bool)   (* sl[s].set(convertable &): the source delivers d / nothing *)
(* class templates of mptcore/array.h: tr = sizeof(T), uq = unique_array (NoCopy blocks) *)
| OTNew (x tr : nat) (uq : bool) (len : nat)
| OTInsert (x tr : nat) (uq : bool) (pos : tpos) (d : list byte)
| OTStore (x tr : nat) (uq : bool) (pos : tpos) (d : list byte)      (* unique_array::set *)
| OTReserve (x tr : nat) (uq : bool) (len : tpos)
| OTResize (x tr : nat) (uq : bool) (len : tpos)
| OTDetach (x tr : nat) (uq : bool)
| OTRead (x : nat)                                                   (* get / offset / unused / map::get / values *)
| OPCompact (x tr : nat)
| OPSwap (x tr : nat) (p1 p2 : option nat)
| OMSet (x ks tr : nat) (key val : list byte).

(* ODone n m: accepted; n = number visible at the value level, m = mechanism-level number *)
Inductive outcome := ODone (n m : nat) | ORefused | OGuard | OFault.

Definition target (o : op) : nat :=
  match o with
  | OAppend x _ | OInsert x _ _ | OSet x _ _ _ _ | OSlice x _ _ _ | OReserve x _ _ | OClone x _
  | OReduce x | OBufInsert x _ _ | OBufCut x _ _ | OBufSet x _ _ _ | OPrintf x _ | OString x
  | ONew x _ _ _ | OFlags x _ _ | OMkSlice x _ _ _ | OWrite x _ _ _ _
  | OXAssign x _ | OXAppend x _ | OXSet x _ | OXSetStr x _ | OXAssignSlice x _ | OXMkSlice x _
  | OXShift x _ | OXTrim x _
  | OXSetRef x _ | OXSetVal x _ _ | OXSetLen x _ | OXSliceCopy x _ | OXSliceSet x _ _
  | OTNew x _ _ _ | OTInsert x _ _ _ _ | OTStore x _ _ _ _ | OTReserve x _ _ _ | OTResize x _ _ _
  | OTDetach x _ _ | OTRead x | OPCompact x _ | OPSwap x _ _ _ | OMSet x _ _ _ _ => x
  end.

Definition is_slice_op (o : op) : bool :=
  match o with
  | OMkSlice _ _ _ _ | OWrite _ _ _ _ _ | OXMkSlice _ _ | OXShift _ _ | OXTrim _ _
  | OXSliceCopy _ _ | OXSliceSet _ _ _ => true
  | _ => false
  end.

(* the harness applies the in-place buffer functions only to a private, mutable buffer *)
Definition direct_ok (hp : heap) (a : arr) : option (nat * buf) :=
  match a with
  | None => None
  | Some i => match hget hp i with
              | Some b => if shared b || bimm b then None else Some (i, b)
              | None => None end
  end.

(* the window of handle s lies inside the data of its buffer *)
Definition consistent (st : state) (s : nat) : bool :=
  let h := hnd st s in
  match hbuf h with
  | None => hoff h + hlen h <=? 0
  | Some i => match hget (sheap st) i with Some b => hoff h + hlen h <=? bused b | None => false end
  end.

(* vis: the returned number is visible at the value level *)
Definition fin (st : state) (x : nat) (vis : bool) (r : ares) : state * outcome :=
  match r with
  | ADone hp a n => (upd_arr st x hp a, if vis then ODone n n else ODone 0 n)
  | ARefused hp a => (upd_arr st x hp a, ORefused)
  | AFault => (st, OFault)
  end.

Definition step (st : state) (o : op) : state * outcome :=
  let x := target o in
  if negb (x <? length (shnd st)) then (st, OGuard) else
  if negb (Bool.eqb (hsl (hnd st x)) (is_slice_op o)) then (st, OGuard) else
  let hp := sheap st in
  let h := hnd st x in
  let a := hbuf h in
  match o with
  | OAppend _ d => fin st x false (array_append hp a d)
  | OInsert _ pos d => fin st x false (array_insert hp a pos d)
  | OSet _ tr neg off d => fin st x false (array_set hp a tr neg off d)
  | OSlice _ off d w =>
    fin st x false
      (match array_slice hp a off (length d) with
       | ADone hp1 (Some j) _ =>
         if w then lift hp1 (Some j) (do hp2 <- store hp1 j off d; Ok (hp2, Some j, 0))
         else ADone hp1 (Some j) 0
       | ADone _ None _ => AFault
       | r => r
       end)
  | OReserve _ len tr => fin st x false (array_reserve hp a len tr)
  | OClone _ y =>
    match y with
    | Some k => if negb (k <? length (shnd st)) || hsl (hnd st k) then (st, OGuard)
                else fin st x false (array_clone hp a (Some (hbuf (hnd st k))))
    | None => fin st x false (array_clone hp a None)
    end
  | OReduce _ => fin st x false (array_reduce hp a)
  | OBufInsert _ pos d =>
    match direct_ok hp a with
    | None => (st, OGuard)
    | Some (i, b) => fin st x false (lift hp a (do b1 <- buffer_insert b pos (length d);
                                                do hp2 <- store (hset hp i b1) i pos d; Ok (hp2, a, 0)))
    end
  | OBufCut _ off len =>
    match direct_ok hp a with
    | None => (st, OGuard)
    | Some (i, b) => fin st x false (lift hp a (do b1 <- buffer_cut b off len; Ok (hset hp i b1, a, 0)))
    end
  | OBufSet _ tr pos d =>
    match direct_ok hp a with
    | None => (st, OGuard)
    | Some (i, b) => fin st x false (lift hp a (do b1 <- buffer_set b tr pos d; Ok (hset hp i b1, a, 0)))
    end
  | OPrintf _ text => fin st x true (array_printf hp a text)
  | OString _ => fin st x true (array_string hp a)
  | ONew _ len imm nc =>
    let hp1 := match a with Some i => hunref hp i | None => hp end in
    let '(hp2, j) := halloc hp1 (new_buf len imm nc) in
    (upd_arr st x hp2 (Some j), ODone 0 (alloc_size len))
  | OFlags _ imm nc =>
    match a with
    | None => (st, OGuard)
    | Some i => match hget hp i with
                | None => (st, OFault)
                | Some b => (upd_arr st x (hset hp i (set_flags b imm nc)) a, ODone 0 0)
                end
    end
  | OMkSlice _ y off len =>
    if negb (y <? length (shnd st)) || hsl (hnd st y) then (st, OGuard) else
    match array_clone hp a (Some (hbuf (hnd st y))) with
    | ADone hp1 a1 n => (mkst hp1 (lset (shnd st) x (mkh a1 true off len)), ODone 0 n)
    | ARefused _ _ => (st, ORefused)
    | AFault => (st, OFault)
    end
  | OWrite _ nblk esz from d =>
    match slice_write hp a (hoff h) (hlen h) nblk esz from d with
    | SDone hp1 a1 off len n =>
      (mkst hp1 (lset (shnd st) x (mkh a1 true off len)), if esz =? 0 then ODone 0 n else ODone n n)
    | SRefused hp1 a1 off len => (mkst hp1 (lset (shnd st) x (mkh a1 true off len)), ORefused)
    | SFault => (st, OFault)
    end
  | OXAssign _ y =>
    if negb (y <? length (shnd st)) || hsl (hnd st y) then (st, OGuard) else
    let '(hp1, a1) := ref_assign hp a (hbuf (hnd st y)) in (upd_arr st x hp1 a1, ODone 0 0)
  | OXAppend _ d => fin st x false (x_append hp a d)
  | OXSet _ d => fin st x false (x_set hp a d)
  | OXSetStr _ text => fin st x false (x_set_str hp a text)
  | OXAssignSlice _ s =>
    if negb (s <? length (shnd st)) || negb (hsl (hnd st s)) || negb (consistent st s) then (st, OGuard) else
    fin st x false (x_assign_slice hp a (hbuf (hnd st s)) (hoff (hnd st s)) (hlen (hnd st s)))
  | OXMkSlice _ y =>
    if negb (y <? length (shnd st)) || hsl (hnd st y) then (st, OGuard) else
    let s := hbuf (hnd st y) in
    let '(hp1, a1) := ref_assign hp a s in
    let len := match s with
               | Some k => match hget hp k with Some c => if btr c =? 0 then bused c else 0 | None => 0 end
               | None => 0 end in
    (mkst hp1 (lset (shnd st) x (mkh a1 true 0 len)), ODone 0 0)
  | OXShift _ n =>
    if negb (consistent st x) then (st, OGuard) else
    if hlen h <? n then (st, ORefused)
    else (mkst hp (lset (shnd st) x (mkh a true (hoff h + n) (hlen h - n))), ODone 0 0)
  | OXTrim _ n =>
    if negb (consistent st x) then (st, OGuard) else
    if hlen h <? n then (st, ORefused)
    else (mkst hp (lset (shnd st) x (mkh a true (hoff h) (hlen h - n))), ODone 0 0)
  | OXSetRef _ y =>
    if negb (y <? length (shnd st)) || hsl (hnd st y) then (st, OGuard) else
    let s := hbuf (hnd st y) in
    if match s with
       | Some k => match hget hp k with Some c => negb (btr c =? 0) | None => false end
       | None => false end
    then (st, ORefused) else
    let '(hp1, a1) := ref_assign hp a s in (upd_arr st x hp1 a1, ODone 0 0)
  | OXSetVal _ tr d => fin st x false (x_set_val hp a tr d)
  | OXSetLen _ n =>
    match direct_ok hp a with
    | None => (st, OGuard)
    | Some (i, b) => fin st x false (lift hp a (do b1 <- x_set_len b n; Ok (hset hp i b1, a, 0)))
    end
  | OXSliceCopy _ t =>
    if negb (t <? length (shnd st)) || negb (hsl (hnd st t)) then (st, OGuard) else
    let s := hbuf (hnd st t) in
    let '(hp1, a1) := ref_assign hp a s in
    (mkst hp1 (lset (shnd st) x (match s with
                                 | Some _ => mkh a1 true (hoff (hnd st t)) (hlen (hnd st t))
                                 | None => mkh a1 true 0 0 end)), ODone 0 0)
  | OXSliceSet _ d ok =>
    if negb ok then (st, ORefused) else
    match x_set hp a d with
    | ADone hp1 a1 _ => (mkst hp1 (lset (shnd st) x (mkh a1 true 0 (length d))), ODone 0 0)
    | ARefused hp1 a1 => (mkst hp1 (lset (shnd st) x (mkh a1 true (hoff h) (hlen h))), ORefused)
    | AFault => (st, OFault)
    end
  | OTNew _ tr uq len => if tr =? 0 then (st, OGuard) else fin st x false (t_new hp a tr uq len)
  | OTInsert _ tr uq pos d =>
    if negb (t_ok hp a tr && (length d =? tr)) then (st, OGuard) else fin st x false (t_insert hp a tr uq pos d)
  | OTStore _ tr uq pos d =>
    if negb (t_ok hp a tr && (length d =? tr)) then (st, OGuard) else fin st x false (t_store hp a tr uq pos 0 d)
  | OTReserve _ tr uq len => if negb (t_ok hp a tr) then (st, OGuard) else fin st x false (t_reserve hp a tr uq len)
  | OTResize _ tr uq len => if negb (t_ok hp a tr) then (st, OGuard) else fin st x false (t_resize hp a tr uq len)
  | OTDetach _ tr uq => if negb (t_ok hp a tr) then (st, OGuard) else fin st x false (t_detach hp a tr uq)
  | OTRead _ => (st, ODone 0 0)
  | OPCompact _ tr => if negb (t_ok hp a tr) then (st, OGuard) else fin st x false (p_compact hp a tr)
  | OPSwap _ tr p1 p2 => if negb (t_okb hp a tr) then (st, OGuard) else fin st x false (p_swap hp a tr false p1 p2)
  | OMSet _ ks tr key val =>
    if negb (t_ok hp a tr && (length key =? ks) && (ks + length val =? tr)) then (st, OGuard)
    else fin st x false (m_set hp a ks tr key val)
  end.

Fixpoint run (st : state) (ops : list op) : list (state * outcome) :=
  match ops with
  | [] => []
  | o :: r => let '(st', out) := step st o in (st', out) :: run st' r
  end.

(* ------------------------------------------------------------------ what a handle reads *)

Definition view (st : state) (x : nat) : list byte :=
  let h := hnd st x in
  match hbuf h with
  | None => []
  | Some i => match hget (sheap st) i with
              | None => []
              | Some b => if hsl h then firstn (hlen h) (skipn (hoff h) (bview b)) else bview b
              end
  end.

(* the heap invariant as a boolean (used by the driver on every reached state) *)
Definition count_refs (hs : list handle) (i : nat) : nat :=
  length (filter (fun h => match hbuf h with Some k => k =? i | None => false end) hs).

Definition buf_ok (b : buf) : bool :=
  (length (bdata b) =? bsize b) && (bused b <=? bsize b) &&
  ((btr b =? 0) || (negb (btr b =? 0) && (bused b mod btr b =? 0))).

Fixpoint heap_okb (hs : list handle) (hp : heap) (i : nat) : bool :=
  match hp with
  | [] => true
  | None :: t => (count_refs hs i =? 0) && heap_okb hs t (S i)
  | Some b :: t => buf_ok b && (1 <=? bref b) && (count_refs hs i =? bref b) && heap_okb hs t (S i)
  end.

Definition invb (st : state) : bool :=
  heap_okb (shnd st) (sheap st) 0 &&
  forallb (fun h => match hbuf h with Some i => i <? length (sheap st) | None => true end) (shnd st).

Definition init (n_arr n_sl : nat) : state :=
  mkst [] (repeat (mkh None false 0 0) n_arr ++ repeat (mkh None true 0 0) n_sl).
