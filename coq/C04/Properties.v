(* C04 — Copy-on-write arrays behave as independent values.
   Only statements (closed by [exact]), non-vacuity examples and Print Assumptions.

   Reading guide.  [state] = heap of reference-counted buffers (header fields ref,
   immutable, no-copy, element type, size, used + [size] data bytes) and a list of
   handles (array = optional buffer id; slice = array + window).  [step] transcribes
   mptcore/array/*.c (C04/ArrayModel.v).  [abs st] is what every handle READS: per
   handle its kind and [None] (no buffer) or [Some (element type, bytes)].  [sstep]
   (C04/ArraySpec.v) is the same operation on these plain values: it touches only
   the target's value and knows nothing about buffers or sharing.  [inv] is the heap
   invariant: every live buffer has [size] data bytes, used <= size, used a multiple
   of the element size, ref >= 1 and ref = number of handles on it; freed or unknown
   ids have no handle.  [hint_of] hands the specification the few mechanism facts
   the interface leaves open (see the head of ArraySpec.v). *)
From MptV Require Import Base.Mem C04.ArrayModel C04.ArraySpec C04.ArrayHeap C04.ArrayBuf C04.ArrayOps
  C04.ArrayTpl C04.ArrayRefine C04.ArrayEnc C04.ArrayEncProofs.

(* One operation (ANY of the 39 operations of [op] -- the C API: append, insert, typed set,
   slice, reserve, clone/clear, reduce, in-place mpt_buffer_insert/cut/set, printf, string,
   new buffer, flags, slice creation, slice write; the C++ API of mpt++/array.cpp: array
   copy/assignment, append, set(len,data), set(string value), array = slice, slice(array),
   slice::shift, slice::trim -- array::insert, printf, string and slice::write are the C
   operations; the class templates of mptcore/array.h (typed_array<T>, unique_array<T>,
   pointer_array<T>, map<K,V>, each a composition of detach / mpt_buffer_insert / element stores
   with index arithmetic on C long positions): construction with a length, insert, set,
   reserve, resize, detach, the read-only methods, pointer_array::compact / swap, map::set
   -- copy construction / assignment / clear are [OXAssign] / [OClone]; the further entry points of mpt++/array.cpp:
   array::set(reference<buffer>), array::set(value) for vector and scalar values, array::content::set_length,
   the slice copy constructor, slice::set(convertable) -- array(size_t), operator=(iovec), operator+=(iovec / span),
   prepend, insert without data and array::set(convertable) are [ONew] / [OXSet] / [OXAppend] / [OInsert]) through one handle, any state, any number of handles, any sharing and flags: the model does not fault (no access outside a buffer), the invariant is
   kept, the values of ALL handles afterwards are exactly the specification's: the
   target holds the result of the vector operation, nothing else changed. *)
Theorem C04_cow_step :
  forall st o, inv st ->
    let '(st', out) := step st o in
    out <> OFault /\ inv st' /\ sstep (abs st) o (hint_of st o out) = (abs st', vis out).
Proof. exact cow_step. Qed.

(* Every OTHER handle reads what it read before. *)
Theorem C04_others_unchanged :
  forall st o y, inv st -> y <> target o ->
    view (fst (step st o)) y = view st y.
Proof. exact cow_others. Qed.

(* Histories of any length over any number of handles: the sequence of all handle
   values and outcomes equals the run on plain values; no step faults; the invariant
   holds throughout. *)
Theorem C04_cow_histories :
  forall ops st, inv st ->
    run_abs st ops = srun st (abs st) ops /\
    Forall (fun r => snd r <> OFault /\ inv (fst r)) (run st ops).
Proof. exact cow_histories. Qed.

(* A refused (or not applied) operation changes no value. *)
Theorem C04_refused_unchanged :
  forall st o, inv st ->
    snd (step st o) = ORefused \/ snd (step st o) = OGuard -> abs (fst (step st o)) = abs st.
Proof. exact refused_unchanged. Qed.

(* No model access leaves the [size] bytes of a buffer (every access is a checked
   rd/wr/mv; outside = Fault). *)
Theorem C04_model_no_fault :
  forall st o, inv st -> snd (step st o) <> OFault.
Proof. exact model_no_fault. Qed.

(* The reference count of a buffer is the number of handles on it, in every state
   reachable from the empty one. *)
Theorem C04_ref_inv :
  forall ops n m,
    Forall (fun r => forall i b, hget (sheap (fst r)) i = Some b -> bref b = count_refs (shnd (fst r)) i)
           (run (init n m) ops).
Proof. exact ref_inv. Qed.

(* ---- class templates of mptcore/array.h (all of the above holds for their operations; in plain terms:) *)

(* get / offset / unused / elements / map::get / map::values change nothing ... *)
Theorem C04_template_read_only :
  forall st x, fst (step st (OTRead x)) = st.
Proof. exact tpl_read_only. Qed.

(* ... and what they return is a function of the value the specification holds for the handle. *)
Theorem C04_view_is_value :
  forall st x, view st x = svec (snd (nth x (abs st) (false, None))).
Proof. exact view_is_value. Qed.

(* typed_array<T>::insert(pos, value) / unique_array<T>::insert(pos) + assignment through a handle of element
   size tr (any state, any sharing, any flags, any C long position): either the handle afterwards reads its
   former bytes with the element inserted at element position p (a gap behind the end zero filled, everything
   behind p kept) or the call is refused and the handle reads what it read before; a position before the first
   element is refused.  (Every other handle: C04_others_unchanged.) *)
Theorem C04_template_insert_value :
  forall st x tr uq pos d,
    inv st -> x < length (shnd st) -> hsl (hnd st x) = false ->
    t_ok (sheap st) (hbuf (hnd st x)) tr = true -> length d = tr ->
    let '(st', out) := step st (OTInsert x tr uq pos d) in
    match t_at (length (view st x) / tr) pos with
    | None => out = ORefused /\ view st' x = view st x
    | Some p => (accepted out = true /\ view st' x = ins (view st x) (p * tr) d) \/
                (out = ORefused /\ view st' x = view st x)
    end.
Proof. exact tpl_insert_value. Qed.

(* ---- struct encode_array of mpt++/array.cpp (no encoder) as a value: the array bytes and the two counters
   [edone] / [escr]; [e_view] = what data() hands out, [e_pending] = the message in progress, the bytes in
   front of both are consumed (C04/ArrayEnc.v: the methods AS PATCHED by docs/C04_enc_*.diff; compared with
   the implementation as a specification, the array inside is the array of the theorems above). *)

(* any history over any number of objects: the counters always describe a part of the array *)
Theorem C04_enc_counters_inside :
  forall ops vs, all_inv vs -> Forall (fun r => all_inv (fst r)) (erun vs ops).
Proof. exact erun_inv. Qed.

(* an operation changes its target only: a copy is an independent value *)
Theorem C04_enc_others_unchanged :
  forall vs o y, y <> etarget o -> nth y (fst (estep vs o)) e0 = nth y vs e0.
Proof. exact estep_others. Qed.

(* a refused operation changes no object *)
Theorem C04_enc_refused_unchanged :
  forall vs o, all_inv vs ->
    snd (estep vs o) = ERefused \/ snd (estep vs o) = EGuard -> forall i, nth i (fst (estep vs o)) e0 = nth i vs e0.
Proof. exact estep_refused. Qed.

(* prepare(len) changes nothing that can be read *)
Theorem C04_enc_prepare_keeps :
  forall v n, fst (e_prepare v n) = v.
Proof. exact e_prepare_same. Qed.

(* push: the finished data stays, the data is appended to the message in progress; push(0,0) hands the message out *)
Theorem C04_enc_push_appends :
  forall v d, einv v ->
    e_view (fst (e_push v d)) = e_view v /\
    (snd (e_push v d) <> ERefused -> e_pending (fst (e_push v d)) = e_pending v ++ d).
Proof. exact e_push_view. Qed.

Theorem C04_enc_finish_hands_out :
  forall v, einv v ->
    e_view (fst (e_finish v)) = e_view v ++ e_pending v /\ e_pending (fst (e_finish v)) = [].
Proof. exact e_finish_view. Qed.

Theorem C04_enc_push_message_appends :
  forall v d1 d2, einv v ->
    e_view (fst (e_pushmsg v d1 d2)) = e_view v /\ e_pending (fst (e_pushmsg v d1 d2)) = e_pending v ++ d1 ++ d2.
Proof. exact e_pushmsg_view. Qed.

(* shift(n), n > 0, consumes the first n finished bytes or is refused (n > finished) and changes nothing *)
Theorem C04_enc_shift_consumes :
  forall v n, einv v -> n <> 0 ->
    match snd (e_shift v n) with
    | ERefused => fst (e_shift v n) = v /\ edone v < n
    | _ => e_view (fst (e_shift v n)) = skipn n (e_view v) /\ e_pending (fst (e_shift v n)) = e_pending v
    end.
Proof. exact e_shift_view. Qed.

(* shift(0) drops exactly the consumed bytes: finished data and message in progress stay and are the whole array
   afterwards; refused exactly when nothing is consumed *)
Theorem C04_enc_compact_keeps :
  forall v, einv v ->
    match snd (e_shift v 0) with
    | ERefused => fst (e_shift v 0) = v /\ e_consumed v = 0
    | _ => e_view (fst (e_shift v 0)) = e_view v /\ e_pending (fst (e_shift v 0)) = e_pending v /\
           e_consumed (fst (e_shift v 0)) = 0 /\ ebytes (fst (e_shift v 0)) = e_view v ++ e_pending v
    end.
Proof. exact e_compact_view. Qed.

(* ---- non-vacuity *)
Example C04_init_inv : inv (init 4 2).
Proof. exact (init_inv 4 2). Qed.

(* a shared buffer written through one handle: the other keeps its bytes *)
Example C04_example_shared_append :
  map (fun r => map (fun v => svec (snd v)) (abs (fst r)))
      (run (init 2 0) [OAppend 0 [1;2;3]%N; OClone 1 (Some 0); OAppend 0 [4]%N; OSet 1 1 false 0 [9]%N;
                       OBufCut 0 1 2])
  = [ [[1;2;3]; []]; [[1;2;3]; [1;2;3]]; [[1;2;3;4]; [1;2;3]]; [[1;2;3;4]; [1;2;3]]; [[1;4]; [1;2;3]] ]%N.
Proof. vm_compute. reflexivity. Qed.

Example C04_example_sharing :
  map (fun r => map hbuf (shnd (fst r)))
      (run (init 2 0) [OAppend 0 [1;2;3]%N; OClone 1 (Some 0); OAppend 0 [4]%N])
  = [ [Some 0; None]; [Some 0; Some 0]; [Some 1; Some 0] ].
Proof. vm_compute. reflexivity. Qed.

(* a slice created on a shared buffer and written through: the array keeps its bytes *)
Example C04_example_slice_write :
  map (fun r => map (fun v => svec (snd v)) (abs (fst r)))
      (run (init 1 1) [OAppend 0 [1;2;3]%N; OMkSlice 1 0 1 2; OWrite 1 2 1 true [7;8]%N; OPrintf 0 [65]%N])
  = [ [[1;2;3]; []]; [[1;2;3]; [2;3]]; [[1;2;3]; [2;3;7;8]]; [[1;2;3]; [2;3;7;8]] ]%N.
Proof. vm_compute. reflexivity. Qed.

(* C++ entry points mixed with the C API in one history *)
Example C04_example_cxx :
  map (fun r => map (fun v => svec (snd v)) (abs (fst r)))
      (run (init 2 1) [OXAppend 0 [1;2;3]%N; OXAssign 1 0; OXSet 0 [9]%N; OXMkSlice 2 1; OXShift 2 1;
                       OAppend 1 [4]%N; OXAssignSlice 0 2])
  = [ [[1;2;3]; []; []]; [[1;2;3]; [1;2;3]; []]; [[9]; [1;2;3]; []]; [[9]; [1;2;3]; [1;2;3]];
      [[9]; [1;2;3]; [2;3]]; [[9]; [1;2;3;4]; [2;3]]; [[2;3]; [1;2;3;4]; [2;3]] ]%N.
Proof. vm_compute. reflexivity. Qed.

Example C04_example_refusal :
  snd (step (fst (step (init 1 0) (OAppend 0 [1;2;3]%N))) (OBufCut 0 4 0)) = ORefused.
Proof. vm_compute. reflexivity. Qed.

(* class templates: a typed_array<uint16-like 2-byte T> shared by copy assignment; insert near the front through the
   copy keeps the tail of the copy and leaves the original alone; negative position counts from the end *)
Example C04_example_typed_insert_shared :
  map (fun r => (map (fun v => svec (snd v)) (abs (fst r)), snd r))
      (run (init 2 0) [OTInsert 0 2 false (PFwd 0) [1;1]%N; OTInsert 0 2 false PEnd [2;2]%N; OTInsert 0 2 false PEnd [3;3]%N;
                       OXAssign 1 0; OTInsert 1 2 false (PFwd 1) [9;9]%N; OTInsert 1 2 false (PBack 0) [8;8]%N;
                       OTInsert 1 2 false (PBack 9) [7;7]%N])
  = [ ([[1;1]; []], ODone 0 0); ([[1;1;2;2]; []], ODone 0 0); ([[1;1;2;2;3;3]; []], ODone 0 0);
      ([[1;1;2;2;3;3]; [1;1;2;2;3;3]], ODone 0 0);
      ([[1;1;2;2;3;3]; [1;1;9;9;2;2;3;3]], ODone 0 0);
      ([[1;1;2;2;3;3]; [1;1;9;9;2;2;8;8;3;3]], ODone 0 0);
      ([[1;1;2;2;3;3]; [1;1;9;9;2;2;8;8;3;3]], ORefused) ]%N.
Proof. vm_compute. reflexivity. Qed.

(* a private block filled exactly to its first allocation step (64 bytes = 2 elements of 32 bytes): the insert in the
   middle is accepted and moves the data to a larger block *)
Example C04_example_full_block :
  let z := repeat 0%N 31 in
  map (fun r => (map (fun h => match hbuf h with Some i => match hget (sheap (fst r)) i with
                                                         | Some b => (bused b, bsize b) | None => (0, 0) end
                                            | None => (0, 0) end) (shnd (fst r)), snd r))
      (run (init 1 0) [OTResize 0 32 false (PFwd 2); OTInsert 0 32 false (PFwd 1) (5%N :: z)])
  = [ ([(64, 64)], ODone 0 0); ([(96, 192)], ODone 0 0) ].
Proof. vm_compute. reflexivity. Qed.

(* unique_array: copies share a NoCopy block; a change through one of them is refused, nobody reads anything else *)
Example C04_example_unique_shared :
  map (fun r => (map (fun v => svec (snd v)) (abs (fst r)), snd r))
      (run (init 2 0) [OTInsert 0 1 true (PFwd 0) [1]%N; OXAssign 1 0; OTInsert 1 1 true (PFwd 0) [2]%N;
                       OTStore 1 1 true (PFwd 0) [3]%N; OTResize 1 1 true (PFwd 0); OClone 0 None;
                       OTStore 1 1 true (PBack 0) [3]%N])
  = [ ([[1]; []], ODone 0 0); ([[1]; [1]], ODone 0 0); ([[1]; [1]], ORefused); ([[1]; [1]], ORefused);
      ([[1]; [1]], ORefused); ([[]; [1]], ODone 0 2); ([[]; [3]], ODone 0 0) ]%N.
Proof. vm_compute. reflexivity. Qed.

(* pointer_array (1-byte "pointers" for brevity): compact on shared data makes a private block, swap detaches first;
   map with 1-byte keys and values: set of an existing key through a copy leaves the original alone *)
Example C04_example_pointer_map :
  map (fun r => (map (fun v => svec (snd v)) (abs (fst r)), snd r))
      (run (init 2 0) [OTResize 0 1 false (PFwd 4); OTStore 0 1 false (PFwd 1) [5]%N; OTStore 0 1 false (PFwd 3) [6]%N;
                       OXAssign 1 0; OPCompact 1 1; OPSwap 1 1 (Some 0) (Some 1); OPSwap 1 1 (Some 0) (Some 2);
                       OXAssign 1 0; OPSwap 1 1 (Some 1) (Some 3);
                       OMSet 0 1 2 [0]%N [9]%N])
  = [ ([[0;0;0;0]; []], ODone 0 0); ([[0;5;0;0]; []], ODone 0 0); ([[0;5;0;6]; []], ODone 0 0);
      ([[0;5;0;6]; [0;5;0;6]], ODone 0 0); ([[0;5;0;6]; [5;6]], ODone 0 0); ([[0;5;0;6]; [6;5]], ODone 0 0);
      ([[0;5;0;6]; [6;5]], ORefused); ([[0;5;0;6]; [0;5;0;6]], ODone 0 0); ([[0;5;0;6]; [0;6;0;5]], ODone 0 0);
      ([[0;5;0;6]; [0;6;0;5]], OGuard) ]%N.
Proof. vm_compute. reflexivity. Qed.

Example C04_example_map :
  map (fun r => (map (fun v => svec (snd v)) (abs (fst r)), snd r))
      (run (init 2 0) [OMSet 0 1 2 [1]%N [10]%N; OMSet 0 1 2 [2]%N [20]%N; OXAssign 1 0; OMSet 1 1 2 [1]%N [11]%N;
                       OMSet 1 1 2 [3]%N [30]%N; OTRead 1])
  = [ ([[1;10]; []], ODone 0 0); ([[1;10;2;20]; []], ODone 0 0); ([[1;10;2;20]; [1;10;2;20]], ODone 0 0);
      ([[1;10;2;20]; [1;11;2;20]], ODone 0 0); ([[1;10;2;20]; [1;11;2;20;3;30]], ODone 0 0);
      ([[1;10;2;20]; [1;11;2;20;3;30]], ODone 0 0) ]%N.
Proof. vm_compute. reflexivity. Qed.

(* the read-only methods as functions of the value *)
Example C04_example_reads :
  (elem_at [1;1;2;2;3;3]%N 2 (PBack 0), elem_at [1;1;2;2;3;3]%N 2 (PFwd 3), offset_of [1;1;2;2;3;3]%N 2 [2;2]%N,
   unused_of [0;0;4;0;0;0]%N 2, map_get [1;10;2;20;1;30]%N 1 2 [1]%N, map_values [1;10;2;20;1;30]%N 1 2 (Some [1]%N),
   map_values [1;10;2;20;1;30]%N 1 2 None)
  = (Some [3;3]%N, None, Some 1, 2, Some [10]%N, [10;30]%N, [10;20;30]%N).
Proof. vm_compute. reflexivity. Qed.

(* the further entry points of mpt++/array.cpp: a typed buffer is not taken over by set(reference), set(value) with a
   vector of 4-byte elements whose length is no multiple of 4 is refused, set_length zero-fills, the copy of a
   slice keeps its window, slice::set starts a new raw value *)
Example C04_example_cxx_more :
  map (fun r => (map (fun v => snd v) (abs (fst r)), snd r))
      (run (init 2 2) [OXSetVal 0 4 [1;2;3;4]%N; OXSetRef 1 0; OXSetVal 0 4 [1;2;3]%N; OXSetVal 0 0 [7;8]%N; OXSetRef 1 0;
                       OXSetLen 1 1; OXAssign 1 1; OXSetVal 1 0 [5]%N; OXSetLen 1 3; OXMkSlice 2 1; OXShift 2 1;
                       OXSliceCopy 3 2; OXSliceSet 2 [9;9]%N true; OXSliceSet 3 [] false])
  = [ ([Some (4%nat, [1;2;3;4]); None; None; None], ODone 0 0); ([Some (4%nat, [1;2;3;4]); None; None; None], ORefused);
      ([Some (4%nat, [1;2;3;4]); None; None; None], ORefused); ([Some (0%nat, [7;8]); None; None; None], ODone 0 0);
      ([Some (0%nat, [7;8]); Some (0%nat, [7;8]); None; None], ODone 0 0); ([Some (0%nat, [7;8]); Some (0%nat, [7;8]); None; None], OGuard);
      ([Some (0%nat, [7;8]); Some (0%nat, [7;8]); None; None], ODone 0 0); ([Some (0%nat, [7;8]); Some (0%nat, [5]); None; None], ODone 0 0);
      ([Some (0%nat, [7;8]); Some (0%nat, [5;0;0]); None; None], ODone 0 0);
      ([Some (0%nat, [7;8]); Some (0%nat, [5;0;0]); Some (0%nat, [5;0;0]); None], ODone 0 0);
      ([Some (0%nat, [7;8]); Some (0%nat, [5;0;0]); Some (0%nat, [0;0]); None], ODone 0 0);
      ([Some (0%nat, [7;8]); Some (0%nat, [5;0;0]); Some (0%nat, [0;0]); Some (0%nat, [0;0])], ODone 0 0);
      ([Some (0%nat, [7;8]); Some (0%nat, [5;0;0]); Some (0%nat, [9;9]); Some (0%nat, [0;0])], ODone 0 0);
      ([Some (0%nat, [7;8]); Some (0%nat, [5;0;0]); Some (0%nat, [9;9]); Some (0%nat, [0;0])], ORefused) ]%N.
Proof. vm_compute. reflexivity. Qed.

(* encode_array: two messages, one consumed, a copy, compaction through the original: the copy keeps everything *)
Example C04_example_enc :
  map (fun r => (map (fun v => (ebytes v, e_view v, e_pending v)) (fst r), snd r))
      (erun [e0; e0] [EPush 0 [1;2]%N; EFinish 0; EPrepare 0 100; EPush 0 [3]%N; EShift 0 1; ECopy 1 0; EShift 0 0;
                      EShift 0 0; EShift 0 3; EPushMsg 1 [4]%N [5;6]%N; EFinish 1])
  = [ ([([1;2], [], [1;2]); ([], [], [])], EDone 2); ([([1;2], [1;2], []); ([], [], [])], EDone 0);
      ([([1;2], [1;2], []); ([], [], [])], EDone 0); ([([1;2;3], [1;2], [3]); ([], [], [])], EDone 1);
      ([([1;2;3], [2], [3]); ([], [], [])], EDone 0); ([([1;2;3], [2], [3]); ([1;2;3], [2], [3])], EDone 0);
      ([([2;3], [2], [3]); ([1;2;3], [2], [3])], EDone 0); ([([2;3], [2], [3]); ([1;2;3], [2], [3])], ERefused);
      ([([2;3], [2], [3]); ([1;2;3], [2], [3])], ERefused);
      ([([2;3], [2], [3]); ([1;2;3;4;5;6], [2], [3;4;5;6])], EDone 0);
      ([([2;3], [2], [3]); ([1;2;3;4;5;6], [2;3;4;5;6], [])], EDone 0) ]%N.
Proof. vm_compute. reflexivity. Qed.

Example C04_enc_init_inv : all_inv [e0; e0].
Proof. exact (all_inv_init 2). Qed.

Print Assumptions C04_cow_step.
Print Assumptions C04_others_unchanged.
Print Assumptions C04_cow_histories.
Print Assumptions C04_refused_unchanged.
Print Assumptions C04_model_no_fault.
Print Assumptions C04_ref_inv.
Print Assumptions C04_template_read_only.
Print Assumptions C04_view_is_value.
Print Assumptions C04_template_insert_value.
Print Assumptions C04_enc_counters_inside.
Print Assumptions C04_enc_others_unchanged.
Print Assumptions C04_enc_refused_unchanged.
Print Assumptions C04_enc_prepare_keeps.
Print Assumptions C04_enc_push_appends.
Print Assumptions C04_enc_finish_hands_out.
Print Assumptions C04_enc_push_message_appends.
Print Assumptions C04_enc_shift_consumes.
Print Assumptions C04_enc_compact_keeps.
