(* C04 — Copy-on-write arrays behave as independent values.
   Only statements (closed by [exact]), non-vacuity examples and Print Assumptions.

   Reading guide.  [state] = heap of reference-counted buffers (header fields ref,
   immutable, no-copy, element type, size, used + [size] data bytes) and a list of
   handles (array = optional buffer id; slice = array + window).  [step] transcribes
   mptcore/array/*.c (C04/ArrayModel.v).  [abs st] is what every handle READS: per
   handle its kind and [None] (no buffer) or [Some (element type, bytes)].  [sstep]
   (C04/ArraySpec.v) is the same operation on these plain values: it touches only
   the target's value and knows nothing about buffers or sharing.  [inv] is the heap
   invariant: every live buffer has [size] data bytes, used <= size, used a multiple
   of the element size, ref >= 1 and ref = number of handles on it; freed or unknown
   ids have no handle.  [hint_of] hands the specification the few mechanism facts
   the interface leaves open (see the head of ArraySpec.v). *)
From MptV Require Import Base.Mem C04.ArrayModel C04.ArraySpec C04.ArrayHeap C04.ArrayBuf C04.ArrayOps
  C04.ArrayRefine.

(* One operation (ANY of the 24 operations of [op] -- the C API: append, insert, typed set,
   slice, reserve, clone/clear, reduce, in-place mpt_buffer_insert/cut/set, printf, string,
   new buffer, flags, slice creation, slice write; the C++ API of mpt++/array.cpp: array
   copy/assignment, append, set(len,data), set(string value), array = slice, slice(array),
   slice::shift, slice::trim -- array::insert, printf, string and slice::write are the C
   operations) through one handle, any state, any number of handles, any sharing and flags: the model does not fault (no access outside a buffer), the invariant is
   kept, the values of ALL handles afterwards are exactly the specification's: the
   target holds the result of the vector operation, nothing else changed. *)
Theorem C04_cow_step :
  forall st o, inv st ->
    let '(st', out) := step st o in
    out <> OFault /\ inv st' /\ sstep (abs st) o (hint_of st o out) = (abs st', vis out).
Proof. exact cow_step. Qed.

(* Every OTHER handle reads what it read before. *)
Theorem C04_others_unchanged :
  forall st o y, inv st -> y <> target o ->
    view (fst (step st o)) y = view st y.
Proof. exact cow_others. Qed.

(* Histories of any length over any number of handles: the sequence of all handle
   values and outcomes equals the run on plain values; no step faults; the invariant
   holds throughout. *)
Theorem C04_cow_histories :
  forall ops st, inv st ->
    run_abs st ops = srun st (abs st) ops /\
    Forall (fun r => snd r <> OFault /\ inv (fst r)) (run st ops).
Proof. exact cow_histories. Qed.

(* A refused (or not applied) operation changes no value. *)
Theorem C04_refused_unchanged :
  forall st o, inv st ->
    snd (step st o) = ORefused \/ snd (step st o) = OGuard -> abs (fst (step st o)) = abs st.
Proof. exact refused_unchanged. Qed.

(* No model access leaves the [size] bytes of a buffer (every access is a checked
   rd/wr/mv; outside = Fault). *)
Theorem C04_model_no_fault :
  forall st o, inv st -> snd (step st o) <> OFault.
Proof. exact model_no_fault. Qed.

(* The reference count of a buffer is the number of handles on it, in every state
   reachable from the empty one. *)
Theorem C04_ref_inv :
  forall ops n m,
    Forall (fun r => forall i b, hget (sheap (fst r)) i = Some b -> bref b = count_refs (shnd (fst r)) i)
           (run (init n m) ops).
Proof. exact ref_inv. Qed.

(* ---- non-vacuity *)
Example C04_init_inv : inv (init 4 2).
Proof. exact (init_inv 4 2). Qed.

(* a shared buffer written through one handle: the other keeps its bytes *)
Example C04_example_shared_append :
  map (fun r => map (fun v => svec (snd v)) (abs (fst r)))
      (run (init 2 0) [OAppend 0 [1;2;3]%N; OClone 1 (Some 0); OAppend 0 [4]%N; OSet 1 1 false 0 [9]%N;
                       OBufCut 0 1 2])
  = [ [[1;2;3]; []]; [[1;2;3]; [1;2;3]]; [[1;2;3;4]; [1;2;3]]; [[1;2;3;4]; [1;2;3]]; [[1;4]; [1;2;3]] ]%N.
Proof. vm_compute. reflexivity. Qed.

Example C04_example_sharing :
  map (fun r => map hbuf (shnd (fst r)))
      (run (init 2 0) [OAppend 0 [1;2;3]%N; OClone 1 (Some 0); OAppend 0 [4]%N])
  = [ [Some 0; None]; [Some 0; Some 0]; [Some 1; Some 0] ].
Proof. vm_compute. reflexivity. Qed.

(* a slice created on a shared buffer and written through: the array keeps its bytes *)
Example C04_example_slice_write :
  map (fun r => map (fun v => svec (snd v)) (abs (fst r)))
      (run (init 1 1) [OAppend 0 [1;2;3]%N; OMkSlice 1 0 1 2; OWrite 1 2 1 true [7;8]%N; OPrintf 0 [65]%N])
  = [ [[1;2;3]; []]; [[1;2;3]; [2;3]]; [[1;2;3]; [2;3;7;8]]; [[1;2;3]; [2;3;7;8]] ]%N.
Proof. vm_compute. reflexivity. Qed.

(* C++ entry points mixed with the C API in one history *)
Example C04_example_cxx :
  map (fun r => map (fun v => svec (snd v)) (abs (fst r)))
      (run (init 2 1) [OXAppend 0 [1;2;3]%N; OXAssign 1 0; OXSet 0 [9]%N; OXMkSlice 2 1; OXShift 2 1;
                       OAppend 1 [4]%N; OXAssignSlice 0 2])
  = [ [[1;2;3]; []; []]; [[1;2;3]; [1;2;3]; []]; [[9]; [1;2;3]; []]; [[9]; [1;2;3]; [1;2;3]];
      [[9]; [1;2;3]; [2;3]]; [[9]; [1;2;3;4]; [2;3]]; [[2;3]; [1;2;3;4]; [2;3]] ]%N.
Proof. vm_compute. reflexivity. Qed.

Example C04_example_refusal :
  snd (step (fst (step (init 1 0) (OAppend 0 [1;2;3]%N))) (OBufCut 0 4 0)) = ORefused.
Proof. vm_compute. reflexivity. Qed.

Print Assumptions C04_cow_step.
Print Assumptions C04_others_unchanged.
Print Assumptions C04_cow_histories.
Print Assumptions C04_refused_unchanged.
Print Assumptions C04_model_no_fault.
Print Assumptions C04_ref_inv.
