(* C04 — placeholder while the pipeline is brought up; replaced by the real statements. *)
From MptV Require Import Base.Mem C04.ArrayModel C04.ArraySpec.
Example C04_smoke : alloc_size 0 = 64.
Proof. reflexivity. Qed.
