(* C04/ArrayRefine.v — one operation of the mechanism refines the operation on plain
   values; every other handle keeps its value; histories; corollaries. *)
From MptV Require Import Base.Mem Base.Tactics C04.ArrayModel C04.ArraySpec C04.ArrayHeap C04.ArrayBuf C04.ArrayOps.
Local Open Scope nat_scope.
Local Open Scope bool_scope.

Lemma abs_length st : length (abs st) = length (shnd st).
Proof. unfold abs. apply map_length. Qed.

Lemma nth_abs st x : nth x (abs st) (false, None) = absh (sheap st) (hnd st x).
Proof.
  unfold abs, hnd. change (false, @None (nat * list byte)) with (absh (sheap st) (mkh None false 0 0)).
  apply map_nth.
Qed.

Lemma absh_arr hp h : hsl h = false -> absh hp h = (false, aval hp (hbuf h)).
Proof.
  intros H. unfold absh, aval. rewrite H. destruct (hbuf h) as [i|]; [|reflexivity].
  destruct (hget hp i); reflexivity.
Qed.

Lemma inv_aok st x : inv st -> aok (sheap st) (hbuf (hnd st x)).
Proof.
  intros I i Hi. destruct (inv_get st x i I Hi) as [b [E [W [R _]]]]. eauto.
Qed.

Lemma hint_of_at st o out :
  hint_of st o out = hint_at (sheap st) (hbuf (hnd st (target o))) (vis_count out) (accepted out).
Proof. reflexivity. Qed.

Lemma upd_arr_same st x : x < length (shnd st) -> upd_arr st x (sheap st) (hbuf (hnd st x)) = st.
Proof.
  intros H. unfold upd_arr. destruct st as [hp hs]. simpl. f_equal.
  unfold hnd. simpl. set (h := nth x hs _).
  replace (mkh (hbuf h) (hsl h) (hoff h) (hlen h)) with h by (destruct h; reflexivity).
  apply lset_same.
Qed.

(* an array function that meets [ares_ok] gives a correct step *)
Lemma fin_sound st x vis r (specf : hint -> sval * outcome) :
  inv st -> x < length (shnd st) -> hsl (hnd st x) = false ->
  (forall cnt acc, ares_ok (sheap st) (hbuf (hnd st x)) r
                     (specf (hint_at (sheap st) (hbuf (hnd st x)) cnt acc)) vis) ->
  let st' := fst (fin st x vis r) in
  let out := snd (fin st x vis r) in
  let sp := specf (hint_at (sheap st) (hbuf (hnd st x)) (vis_count out) (accepted out)) in
  out <> OFault /\ inv st' /\ (lset (abs st) x (false, fst sp), snd sp) = (abs st', ArraySpec.vis out).
Proof.
  intros I Hx Hs H. destruct r as [hp' a' n|hp' a'|]; cbn [fin fst snd].
  - set (out := if vis then ODone n n else ODone 0 n).
    specialize (H (vis_count out) (accepted out)). cbn [ares_ok] in H. destruct H as [T Sp].
    set (h' := mkh a' (hsl (hnd st x)) (hoff (hnd st x)) (hlen (hnd st x))).
    destruct (ptrans_sound st x _ hp' a' h' I Hx eq_refl T eq_refl) as [I' F].
    split; [subst out; destruct vis; discriminate|]. split; [exact I'|].
    unfold upd_arr. fold h'. rewrite (abs_frame st x hp' h' Hx F), Sp. cbn [fst snd].
    rewrite (absh_arr hp' h') by exact Hs. subst out h'. cbn [hbuf]. destruct vis; reflexivity.
  - specialize (H 0 false). cbn [ares_ok] in H. destruct H as [T [Sp AV]].
    set (h' := mkh a' (hsl (hnd st x)) (hoff (hnd st x)) (hlen (hnd st x))).
    destruct (ptrans_sound st x _ hp' a' h' I Hx eq_refl T eq_refl) as [I' F].
    split; [discriminate|]. split; [exact I'|].
    unfold upd_arr. fold h'. rewrite (abs_frame st x hp' h' Hx F). cbn [vis_count accepted ArraySpec.vis].
    rewrite Sp. cbn [fst snd]. rewrite (absh_arr hp' h') by exact Hs. subst h'. cbn [hbuf]. rewrite AV. reflexivity.
  - specialize (H 0 false). contradiction.
Qed.

Definition step_ok (st : state) (o : op) : Prop :=
  let '(st', out) := step st o in
  out <> OFault /\ inv st' /\ sstep (abs st) o (hint_of st o out) = (abs st', vis out).

Lemma guard_ok st o : inv st -> step st o = (st, OGuard) ->
  (forall h, sstep (abs st) o h = (abs st, OGuard)) -> step_ok st o.
Proof.
  intros I E S. unfold step_ok. rewrite E. split; [discriminate|]. split; [exact I|]. apply S.
Qed.

(* array operations: the target is an array handle *)
Lemma arr_step st o vis (r : ares) (specf : hint -> sval * outcome) :
  inv st -> target o < length (shnd st) -> hsl (hnd st (target o)) = false ->
  step st o = fin st (target o) vis r ->
  (forall h, sstep (abs st) o h =
             (lset (abs st) (target o) (false, fst (specf h)), snd (specf h))) ->
  (forall cnt acc, ares_ok (sheap st) (hbuf (hnd st (target o))) r
                     (specf (hint_at (sheap st) (hbuf (hnd st (target o))) cnt acc)) vis) ->
  step_ok st o.
Proof.
  intros I Hx Hs E S H. unfold step_ok. rewrite E.
  pose proof (fin_sound st (target o) vis r specf I Hx Hs H) as F. cbn zeta in F.
  destruct (fin st (target o) vis r) as [st' out]. cbn [fst snd] in F.
  destruct F as [F1 [F2 F3]]. split; [exact F1|]. split; [exact F2|].
  rewrite S, hint_of_at. exact F3.
Qed.


(* the two guards of [step]/[sstep] for an operation on an array handle *)
Ltac arr_guards I st x Hx Hs :=
  destruct (Nat.ltb_spec x (length (shnd st))) as [Hx|Hx];
  [ | apply guard_ok;
      [ exact I
      | unfold step; cbn [target]; rewrite (proj2 (Nat.ltb_ge _ _) Hx); reflexivity
      | intros ?h; unfold sstep; cbn [target]; rewrite abs_length, (proj2 (Nat.ltb_ge _ _) Hx); reflexivity ] ];
  destruct (hsl (hnd st x)) eqn:Hs;
  [ apply guard_ok;
      [ exact I
      | unfold step; cbn [target is_slice_op]; rewrite (proj2 (Nat.ltb_lt _ _) Hx), Hs; reflexivity
      | intros ?h; unfold sstep; cbn [target is_slice_op];
        rewrite abs_length, (proj2 (Nat.ltb_lt _ _) Hx), nth_abs; unfold absh; rewrite Hs; reflexivity ]
  | ].

Ltac arr_eq_step Hx Hs :=
  unfold step; cbn [target is_slice_op]; rewrite (proj2 (Nat.ltb_lt _ _) Hx), Hs; reflexivity.
Ltac arr_eq_spec Hx Hs :=
  intros ?h; unfold sstep; cbn [target is_slice_op];
  rewrite abs_length, (proj2 (Nat.ltb_lt _ _) Hx), nth_abs, (absh_arr _ _ Hs); reflexivity.

Lemma step_append st x d : inv st -> step_ok st (OAppend x d).
Proof.
  intros I. arr_guards I st x Hx Hs.
  eapply (arr_step st (OAppend x d) false _ (fun h => s_append h (aval (sheap st) (hbuf (hnd st x))) d));
    auto; [arr_eq_step Hx Hs | arr_eq_spec Hx Hs | ].
  intros cnt acc. apply array_append_sem, inv_aok, I.
Qed.

Lemma step_insert st x pos d : inv st -> step_ok st (OInsert x pos d).
Proof.
  intros I. arr_guards I st x Hx Hs.
  eapply (arr_step st (OInsert x pos d) false _ (fun h => s_insert h (aval (sheap st) (hbuf (hnd st x))) pos d));
    auto; [arr_eq_step Hx Hs | arr_eq_spec Hx Hs | ].
  intros cnt acc. apply array_insert_sem, inv_aok, I.
Qed.

Lemma step_set st x tr neg off d : inv st -> step_ok st (OSet x tr neg off d).
Proof.
  intros I. arr_guards I st x Hx Hs.
  eapply (arr_step st (OSet x tr neg off d) false _
            (fun h => s_set h (aval (sheap st) (hbuf (hnd st x))) tr neg off d));
    auto; [arr_eq_step Hx Hs | arr_eq_spec Hx Hs | ].
  intros cnt acc. apply array_set_sem, inv_aok, I.
Qed.

Lemma step_slice st x off d w : inv st -> step_ok st (OSlice x off d w).
Proof.
  intros I. arr_guards I st x Hx Hs.
  eapply (arr_step st (OSlice x off d w) false (oslice (sheap st) (hbuf (hnd st x)) off d w)
            (fun h => s_slice h (aval (sheap st) (hbuf (hnd st x))) off d w));
    auto; [arr_eq_step Hx Hs | arr_eq_spec Hx Hs | ].
  intros cnt acc. apply oslice_sem, inv_aok, I.
Qed.

Lemma step_reduce st x : inv st -> step_ok st (OReduce x).
Proof.
  intros I. arr_guards I st x Hx Hs.
  eapply (arr_step st (OReduce x) false _ (fun h => D (aval (sheap st) (hbuf (hnd st x)))));
    auto; [arr_eq_step Hx Hs | arr_eq_spec Hx Hs | ].
  intros cnt acc. apply array_reduce_sem, inv_aok, I.
Qed.
