(* C04/ArrayRefine.v — one operation of the mechanism refines the operation on plain
   values; every other handle keeps its value; histories; corollaries. *)
From MptV Require Import Base.Mem Base.Tactics C04.ArrayModel C04.ArraySpec C04.ArrayHeap C04.ArrayBuf C04.ArrayOps
  C04.ArrayTpl.
Local Open Scope nat_scope.
Local Open Scope bool_scope.

Lemma abs_length st : length (abs st) = length (shnd st).
Proof. unfold abs. apply map_length. Qed.

Lemma nth_abs st x : nth x (abs st) (false, None) = absh (sheap st) (hnd st x).
Proof.
  unfold abs, hnd. change (false, @None (nat * list byte)) with (absh (sheap st) (mkh None false 0 0)).
  apply map_nth.
Qed.

Lemma absh_arr hp h : hsl h = false -> absh hp h = (false, aval hp (hbuf h)).
Proof.
  intros H. unfold absh, aval. rewrite H. destruct (hbuf h) as [i|]; [|reflexivity].
  destruct (hget hp i); reflexivity.
Qed.

Lemma inv_aok st x : inv st -> aok (sheap st) (hbuf (hnd st x)).
Proof.
  intros I i Hi. destruct (inv_get st x i I Hi) as [b [E [W [R _]]]]. eauto.
Qed.

Lemma hint_of_at st o out :
  hint_of st o out =
  with_cons (hint_at (sheap st) (hbuf (hnd st (target o))) (vis_count out) (accepted out)) (cons_of st o).
Proof. reflexivity. Qed.

Lemma upd_arr_same st x : x < length (shnd st) -> upd_arr st x (sheap st) (hbuf (hnd st x)) = st.
Proof.
  intros H. unfold upd_arr. destruct st as [hp hs]. simpl. f_equal.
  unfold hnd. simpl. set (h := nth x hs _).
  replace (mkh (hbuf h) (hsl h) (hoff h) (hlen h)) with h by (destruct h; reflexivity).
  apply lset_same.
Qed.

(* an array function that meets [ares_ok] gives a correct step *)
Lemma fin_sound st x vis r (specf : hint -> sval * outcome) :
  inv st -> x < length (shnd st) -> hsl (hnd st x) = false ->
  (forall cnt acc, ares_ok (sheap st) (hbuf (hnd st x)) r
                     (specf (hint_at (sheap st) (hbuf (hnd st x)) cnt acc)) vis) ->
  let st' := fst (fin st x vis r) in
  let out := snd (fin st x vis r) in
  let sp := specf (hint_at (sheap st) (hbuf (hnd st x)) (vis_count out) (accepted out)) in
  out <> OFault /\ inv st' /\ (lset (abs st) x (false, fst sp), snd sp) = (abs st', ArraySpec.vis out).
Proof.
  intros I Hx Hs H. destruct r as [hp' a' n|hp' a'|]; cbn [fin fst snd].
  - set (out := if vis then ODone n n else ODone 0 n).
    specialize (H (vis_count out) (accepted out)). cbn [ares_ok] in H. destruct H as [T Sp].
    set (h' := mkh a' (hsl (hnd st x)) (hoff (hnd st x)) (hlen (hnd st x))).
    destruct (ptrans_sound st x _ hp' a' h' I Hx eq_refl T eq_refl) as [I' F].
    split; [subst out; destruct vis; discriminate|]. split; [exact I'|].
    unfold upd_arr. fold h'. rewrite (abs_frame st x hp' h' Hx F), Sp. cbn [fst snd].
    rewrite (absh_arr hp' h') by exact Hs. subst out h'. cbn [hbuf]. destruct vis; reflexivity.
  - specialize (H 0 false). cbn [ares_ok] in H. destruct H as [T [Sp AV]].
    set (h' := mkh a' (hsl (hnd st x)) (hoff (hnd st x)) (hlen (hnd st x))).
    destruct (ptrans_sound st x _ hp' a' h' I Hx eq_refl T eq_refl) as [I' F].
    split; [discriminate|]. split; [exact I'|].
    unfold upd_arr. fold h'. rewrite (abs_frame st x hp' h' Hx F). cbn [vis_count accepted ArraySpec.vis].
    rewrite Sp. cbn [fst snd]. rewrite (absh_arr hp' h') by exact Hs. subst h'. cbn [hbuf]. rewrite AV. reflexivity.
  - specialize (H 0 false). contradiction.
Qed.

Definition step_ok (st : state) (o : op) : Prop :=
  let '(st', out) := step st o in
  out <> OFault /\ inv st' /\ sstep (abs st) o (hint_of st o out) = (abs st', vis out).

Lemma guard_ok st o : inv st -> step st o = (st, OGuard) ->
  (forall h, sstep (abs st) o h = (abs st, OGuard)) -> step_ok st o.
Proof.
  intros I E S. unfold step_ok. rewrite E. split; [discriminate|]. split; [exact I|]. apply S.
Qed.

(* array operations: the target is an array handle *)
Lemma arr_step st o vis (r : ares) (specf : hint -> sval * outcome) :
  inv st -> target o < length (shnd st) -> hsl (hnd st (target o)) = false ->
  step st o = fin st (target o) vis r ->
  (forall h, sstep (abs st) o h =
             (lset (abs st) (target o) (false, fst (specf h)), snd (specf h))) ->
  (forall h c, specf (with_cons h c) = specf h) ->
  (forall cnt acc, ares_ok (sheap st) (hbuf (hnd st (target o))) r
                     (specf (hint_at (sheap st) (hbuf (hnd st (target o))) cnt acc)) vis) ->
  step_ok st o.
Proof.
  intros I Hx Hs E S Hc H. unfold step_ok. rewrite E.
  pose proof (fin_sound st (target o) vis r specf I Hx Hs H) as F. cbn zeta in F.
  destruct (fin st (target o) vis r) as [st' out]. cbn [fst snd] in F.
  destruct F as [F1 [F2 F3]]. split; [exact F1|]. split; [exact F2|].
  rewrite S, hint_of_at, Hc. exact F3.
Qed.


(* the two guards of [step]/[sstep] for an operation on an array handle *)
Ltac arr_guards I st x Hx Hs :=
  destruct (Nat.ltb_spec x (length (shnd st))) as [Hx|Hx];
  [ | apply guard_ok;
      [ exact I
      | unfold step; cbn [target]; rewrite (proj2 (Nat.ltb_ge _ _) Hx); reflexivity
      | intros ?h; unfold sstep; cbn [target]; rewrite abs_length, (proj2 (Nat.ltb_ge _ _) Hx); reflexivity ] ];
  destruct (hsl (hnd st x)) eqn:Hs;
  [ apply guard_ok;
      [ exact I
      | unfold step; cbn [target is_slice_op]; rewrite (proj2 (Nat.ltb_lt _ _) Hx), Hs; reflexivity
      | intros ?h; unfold sstep; cbn [target is_slice_op];
        rewrite abs_length, (proj2 (Nat.ltb_lt _ _) Hx), nth_abs; unfold absh; rewrite Hs; reflexivity ]
  | ].

Ltac arr_eq_step Hx Hs :=
  unfold step; cbn [target is_slice_op]; rewrite (proj2 (Nat.ltb_lt _ _) Hx), Hs; reflexivity.
Ltac arr_eq_spec Hx Hs :=
  intros ?h; unfold sstep; cbn [target is_slice_op];
  rewrite abs_length, (proj2 (Nat.ltb_lt _ _) Hx), nth_abs, (absh_arr _ _ Hs); reflexivity.

Lemma step_append st x d : inv st -> step_ok st (OAppend x d).
Proof.
  intros I. arr_guards I st x Hx Hs.
  eapply (arr_step st (OAppend x d) false _ (fun h => s_append h (aval (sheap st) (hbuf (hnd st x))) d));
    auto; [arr_eq_step Hx Hs | arr_eq_spec Hx Hs | ].
  intros cnt acc. apply array_append_sem, inv_aok, I.
Qed.

Lemma step_insert st x pos d : inv st -> step_ok st (OInsert x pos d).
Proof.
  intros I. arr_guards I st x Hx Hs.
  eapply (arr_step st (OInsert x pos d) false _ (fun h => s_insert h (aval (sheap st) (hbuf (hnd st x))) pos d));
    auto; [arr_eq_step Hx Hs | arr_eq_spec Hx Hs | ].
  intros cnt acc. apply array_insert_sem, inv_aok, I.
Qed.

Lemma step_set st x tr neg off d : inv st -> step_ok st (OSet x tr neg off d).
Proof.
  intros I. arr_guards I st x Hx Hs.
  eapply (arr_step st (OSet x tr neg off d) false _
            (fun h => s_set h (aval (sheap st) (hbuf (hnd st x))) tr neg off d));
    auto; [arr_eq_step Hx Hs | arr_eq_spec Hx Hs | ].
  intros cnt acc. apply array_set_sem, inv_aok, I.
Qed.

Lemma step_slice st x off d w : inv st -> step_ok st (OSlice x off d w).
Proof.
  intros I. arr_guards I st x Hx Hs.
  eapply (arr_step st (OSlice x off d w) false (oslice (sheap st) (hbuf (hnd st x)) off d w)
            (fun h => s_slice h (aval (sheap st) (hbuf (hnd st x))) off d w));
    auto; [arr_eq_step Hx Hs | arr_eq_spec Hx Hs | ].
  intros cnt acc. apply oslice_sem, inv_aok, I.
Qed.

Lemma step_reduce st x : inv st -> step_ok st (OReduce x).
Proof.
  intros I. arr_guards I st x Hx Hs.
  eapply (arr_step st (OReduce x) false _ (fun h => D (aval (sheap st) (hbuf (hnd st x)))));
    auto; [arr_eq_step Hx Hs | arr_eq_spec Hx Hs | ].
  intros cnt acc. apply array_reduce_sem, inv_aok, I.
Qed.

(* ------------------------------------------------------------------ in-place buffer functions *)
Lemma direct_some hp a i b : direct_ok hp a = Some (i, b) ->
  a = Some i /\ hget hp i = Some b /\ shared b = false /\ bimm b = false.
Proof.
  unfold direct_ok. destruct a as [k|]; [|discriminate]. destruct (hget hp k) as [c|] eqn:E; [|discriminate].
  destruct (shared c || bimm c) eqn:G; [discriminate|]. intros H. inversion H; subst.
  apply orb_false_elim in G. tauto.
Qed.

Lemma lset_abs_same st x : x < length (shnd st) -> hsl (hnd st x) = false ->
  lset (abs st) x (false, aval (sheap st) (hbuf (hnd st x))) = abs st.
Proof.
  intros Hx Hs. rewrite <- (absh_arr _ _ Hs), <- nth_abs. apply lset_same.
Qed.

Lemma direct_guard st x (specf : hint -> sval -> sval * outcome) o :
  inv st -> x < length (shnd st) -> hsl (hnd st x) = false ->
  direct_ok (sheap st) (hbuf (hnd st x)) = None ->
  (forall h v, v = None \/ guarded h = true -> specf h v = G v) ->
  (exists c, hint_of st o OGuard = with_cons (hint_at (sheap st) (hbuf (hnd st x)) 0 false) c) ->
  let h := hint_of st o OGuard in
  (lset (abs st) x (false, fst (specf h (aval (sheap st) (hbuf (hnd st x))))),
   snd (specf h (aval (sheap st) (hbuf (hnd st x))))) = (abs st, OGuard).
Proof.
  intros I Hx Hs Dk Sp [c Hh] h. subst h. rewrite Hh.
  assert (Gd0 : aval (sheap st) (hbuf (hnd st x)) = None \/
              guarded (with_cons (hint_at (sheap st) (hbuf (hnd st x)) 0 false) c) = true).
  { unfold direct_ok in Dk. destruct (hbuf (hnd st x)) as [i|] eqn:Ha; [|left; reflexivity].
    destruct (inv_get st x i I Ha) as [b [E _]]. rewrite E in Dk.
    destruct (shared b || bimm b) eqn:Gd; [|discriminate].
    right. unfold hint_at, guarded, with_cons. rewrite E. exact Gd. }
  rewrite (Sp _ _ Gd0). cbn [G fst snd]. rewrite lset_abs_same by assumption. reflexivity.
Qed.

Lemma step_direct st o x (F : buf -> res buf) (specf : hint -> sval -> sval * outcome)
  (r : heap -> arr -> nat -> buf -> ares) :
  inv st -> target o = x -> is_slice_op o = false ->
  (forall st, step st o =
     if negb (x <? length (shnd st)) then (st, OGuard) else
     if negb (Bool.eqb (hsl (hnd st x)) false) then (st, OGuard) else
     match direct_ok (sheap st) (hbuf (hnd st x)) with
     | None => (st, OGuard)
     | Some (i, b) => fin st x false (r (sheap st) (hbuf (hnd st x)) i b)
     end) ->
  (forall vs h, sstep vs o h =
     if negb (x <? length vs) then (vs, OGuard) else
     let '(k, v) := nth x vs (false, None) in
     if negb (Bool.eqb k false) then (vs, OGuard) else
     (lset vs x (k, fst (specf h v)), snd (specf h v))) ->
  (forall h v, v = None \/ guarded h = true -> specf h v = G v) ->
  (forall h c v, specf (with_cons h c) v = specf h v) ->
  (forall hp i b cnt acc, hget hp i = Some b -> buf_wf b -> bref b = 1 -> shared b = false -> bimm b = false ->
     ares_ok hp (Some i) (r hp (Some i) i b) (specf (hint_at hp (Some i) cnt acc) (aval hp (Some i))) false) ->
  step_ok st o.
Proof.
  intros I Tx Sl Es Ss Sg Sc Sem.
  destruct (Nat.ltb_spec x (length (shnd st))) as [Hx|Hx].
  2:{ unfold step_ok. rewrite Es, (proj2 (Nat.ltb_ge _ _) Hx). cbn [negb].
      rewrite Ss, abs_length, (proj2 (Nat.ltb_ge _ _) Hx). cbn [negb].
      split; [discriminate|]. split; [exact I|reflexivity]. }
  destruct (hsl (hnd st x)) eqn:Hs.
  { unfold step_ok. rewrite Es, (proj2 (Nat.ltb_lt _ _) Hx), Hs. cbn [negb Bool.eqb].
    rewrite Ss, abs_length, (proj2 (Nat.ltb_lt _ _) Hx), nth_abs. cbn [negb].
    unfold absh. rewrite Hs. cbn [Bool.eqb negb].
    split; [discriminate|]. split; [exact I|reflexivity]. }
  destruct (direct_ok (sheap st) (hbuf (hnd st x))) as [[i b]|] eqn:Dk.
  - destruct (direct_some _ _ _ _ Dk) as [Ha [E [Sh Im]]].
    destruct (inv_get st x i I Ha) as [b' [E' [W [R C]]]]. rewrite E in E'. inversion E'; subst b'.
    assert (R1 : bref b = 1). { unfold shared in Sh. apply Nat.leb_gt in Sh. lia. }
    eapply (arr_step st o false (r (sheap st) (hbuf (hnd st x)) i b) (fun h => specf h (aval (sheap st) (hbuf (hnd st x))))); rewrite ?Tx; auto.
    + rewrite Es, (proj2 (Nat.ltb_lt _ _) Hx), Hs, Dk. reflexivity.
    + intros h. rewrite Ss, abs_length, (proj2 (Nat.ltb_lt _ _) Hx), nth_abs, (absh_arr _ _ Hs). reflexivity.
    + intros cnt acc. rewrite Ha. apply Sem; auto.
  - unfold step_ok. rewrite Es, (proj2 (Nat.ltb_lt _ _) Hx), Hs, Dk. cbn [negb Bool.eqb].
    split; [discriminate|]. split; [exact I|].
    rewrite Ss, abs_length, (proj2 (Nat.ltb_lt _ _) Hx), nth_abs, (absh_arr _ _ Hs). cbn [negb Bool.eqb].
    apply (direct_guard st x specf o I Hx Hs Dk Sg). eexists. rewrite hint_of_at, Tx. reflexivity.
Qed.

Lemma step_bufset st x tr pos d : inv st -> step_ok st (OBufSet x tr pos d).
Proof.
  intros I.
  apply (step_direct st (OBufSet x tr pos d) x (fun b => buffer_set b tr pos d)
           (fun h v => s_bufset h v tr pos d)
           (fun hp a i b => lift hp a (do b1 <- buffer_set b tr pos d; Ok (hset hp i b1, a, 0)))); auto.
  - intros h v [->|Gd]; [reflexivity|]. unfold s_bufset. destruct v as [[t l]|]; [rewrite Gd|]; reflexivity.
  - intros. apply bufset_sem; auto.
Qed.

Lemma step_bufcut st x off len : inv st -> step_ok st (OBufCut x off len).
Proof.
  intros I.
  apply (step_direct st (OBufCut x off len) x (fun b => buffer_cut b off len)
           (fun h v => s_bufcut h v off len)
           (fun hp a i b => lift hp a (do b1 <- buffer_cut b off len; Ok (hset hp i b1, a, 0)))); auto.
  - intros h v [->|Gd]; [reflexivity|]. unfold s_bufcut. destruct v as [[t l]|]; [rewrite Gd|]; reflexivity.
  - intros. apply bufcut_sem; auto.
Qed.

Lemma step_bufinsert st x pos d : inv st -> step_ok st (OBufInsert x pos d).
Proof.
  intros I.
  apply (step_direct st (OBufInsert x pos d) x (fun b => buffer_insert b pos (length d))
           (fun h v => s_bufinsert h v pos d)
           (fun hp a i b => lift hp a (do b1 <- buffer_insert b pos (length d);
                                       do hp2 <- store (hset hp i b1) i pos d; Ok (hp2, a, 0)))); auto.
  - intros h v [->|Gd]; [reflexivity|]. unfold s_bufinsert. destruct v as [[t l]|]; [rewrite Gd|]; reflexivity.
  - intros hp i b cnt acc E W R S Im.
    pose proof (bufinsert_sem hp i b pos d cnt acc E W R S Im) as H. unfold insert_at in H. rewrite E in H. exact H.
Qed.

(* ------------------------------------------------------------------ new buffer, flags *)
Lemma step_new st x len imm nc : inv st -> step_ok st (ONew x len imm nc).
Proof.
  intros I. arr_guards I st x Hx Hs.
  set (a := hbuf (hnd st x)).
  eapply (arr_step st (ONew x len imm nc) false
            (ADone (unref_opt (sheap st) a ++ [Some (new_buf len imm nc)]) (Some (length (sheap st))) (alloc_size len))
            (fun h => D (Some (0, [])))); auto.
  - unfold step. cbn [target is_slice_op]. rewrite (proj2 (Nat.ltb_lt _ _) Hx), Hs. cbn [negb Bool.eqb].
    fold a. unfold halloc. destruct a as [i|]; cbn [unref_opt fin]; rewrite ?length_hunref; reflexivity.
  - arr_eq_spec Hx Hs.
  - intros cnt acc. cbn [ares_ok target]. fold a. split.
    + apply P_fresh0; [reflexivity|apply new_buf_wf].
    + unfold D, aval. rewrite hget_app_r by (rewrite length_unref_opt; lia).
      rewrite length_unref_opt, Nat.sub_diag. reflexivity.
Qed.

Lemma step_flags st x imm nc : inv st -> step_ok st (OFlags x imm nc).
Proof.
  intros I. arr_guards I st x Hx Hs.
  destruct (hbuf (hnd st x)) as [i|] eqn:Ha.
  - destruct (inv_get st x i I Ha) as [b [E [W [R C]]]].
    unfold step_ok, step. cbn [target is_slice_op]. rewrite (proj2 (Nat.ltb_lt _ _) Hx), Hs, Ha, E.
    cbn [negb Bool.eqb].
    set (h' := mkh (Some i) (hsl (hnd st x)) (hoff (hnd st x)) (hlen (hnd st x))).
    assert (Wf : buf_wf (set_flags b imm nc)) by exact W.
    destruct (reval_sound st x i b (set_flags b imm nc) h' I Hx Ha E eq_refl Wf eq_refl eq_refl) as [I' [F V]].
    split; [discriminate|]. split; [exact I'|].
    unfold sstep. cbn [target is_slice_op].
    rewrite abs_length, (proj2 (Nat.ltb_lt _ _) Hx), nth_abs, (absh_arr _ _ Hs), Ha. cbn [negb Bool.eqb].
    unfold upd_arr. fold h'. rewrite (abs_frame st x _ h' Hx F).
    rewrite (absh_arr _ h') by exact Hs. cbn [hbuf h'].
    unfold aval. fold (hval (hset (sheap st) i (set_flags b imm nc)) i). rewrite V. unfold hval. rewrite E.
    reflexivity.
  - apply guard_ok; [exact I| |].
    + unfold step. cbn [target is_slice_op]. rewrite (proj2 (Nat.ltb_lt _ _) Hx), Hs, Ha. reflexivity.
    + intros h. unfold sstep. cbn [target is_slice_op].
      rewrite abs_length, (proj2 (Nat.ltb_lt _ _) Hx), nth_abs, (absh_arr _ _ Hs), Ha. cbn [negb Bool.eqb aval G fst snd].
      pose proof (lset_abs_same st x Hx Hs) as L. rewrite Ha in L. cbn [aval] in L. rewrite L. reflexivity.
Qed.

(* ------------------------------------------------------------------ clone / clear *)
Lemma s_clone_same v : s_clone v (Some v) = D v.
Proof. unfold s_clone. destruct v as [[t l]|]; [rewrite Nat.eqb_refl|]; reflexivity. Qed.

Lemma drop_step st x : inv st -> x < length (shnd st) -> hsl (hnd st x) = false ->
  let st' := upd_arr st x (unref_opt (sheap st) (hbuf (hnd st x))) None in
  inv st' /\ abs st' = lset (abs st) x (false, None).
Proof.
  intros I Hx Hs st'. subst st'. unfold upd_arr.
  set (h' := mkh None (hsl (hnd st x)) (hoff (hnd st x)) (hlen (hnd st x))).
  destruct (drop_sound st x _ h' I Hx eq_refl eq_refl) as [I' F].
  split; [exact I'|]. rewrite (abs_frame st x _ h' Hx F). rewrite (absh_arr _ h') by exact Hs. reflexivity.
Qed.

Lemma clone_sound st x (from : option arr) (vfrom : option sval) :
  inv st -> x < length (shnd st) -> hsl (hnd st x) = false ->
  match from with
  | None => vfrom = None
  | Some s => vfrom = Some (aval (sheap st) s) /\ (forall k, s = Some k -> exists c, hget (sheap st) k = Some c)
  end ->
  let r := fin st x false (array_clone (sheap st) (hbuf (hnd st x)) from) in
  let sp := s_clone (aval (sheap st) (hbuf (hnd st x))) vfrom in
  snd r <> OFault /\ inv (fst r) /\ (lset (abs st) x (false, fst sp), snd sp) = (abs (fst r), vis (snd r)).
Proof.
  intros I Hx Hs Hf. cbn zeta. set (hp := sheap st). set (a := hbuf (hnd st x)).
  assert (Same : (lset (abs st) x (false, aval hp a), ODone 0 0) = (abs st, ODone 0 0)).
  { subst hp a. rewrite lset_abs_same by assumption. reflexivity. }
  assert (SameR : (lset (abs st) x (false, aval hp a), ORefused) = (abs st, ORefused)).
  { subst hp a. rewrite lset_abs_same by assumption. reflexivity. }
  destruct from as [s|].
  - destruct Hf as [-> Hk]. unfold array_clone. change (sheap st) with hp.
    destruct (match a, s with Some i, Some k => i =? k | None, None => true | _, _ => false end) eqn:Eq.
    + (* identical buffers *)
      assert (a = s) as <-.
      { destruct a as [i|], s as [k|]; try discriminate; [apply Nat.eqb_eq in Eq; subst|]; reflexivity. }
      cbn [fin fst snd vis]. subst hp a. rewrite upd_arr_same by assumption.
      rewrite s_clone_same. split; [discriminate|]. split; [exact I|exact Same].
    + destruct a as [i|] eqn:Ea.
      * destruct (inv_get st x i I Ea) as [b [E [W [R C]]]]. fold hp in E.
        destruct s as [k|].
        -- destruct (Hk k eq_refl) as [c Ec]. fold hp in Ec. rewrite E, Ec.
           assert (Hne : Some i <> Some k). { apply Nat.eqb_neq in Eq. congruence. }
           unfold aval. rewrite E, Ec. cbn [option_map s_clone bval].
           destruct (Nat.eqb_spec (btr b) (btr c)) as [Tq|Tq]; cbn [negb].
           ++ cbn [fin fst snd vis]. unfold upd_arr.
              set (h' := mkh (Some k) (hsl (hnd st x)) (hoff (hnd st x)) (hlen (hnd st x))).
              destruct (share_sound st x (Some i) k c h' I Hx Ea Ec Hne eq_refl) as [I' [F V]].
              split; [discriminate|]. split; [exact I'|].
              fold hp in F, V, I'. cbn [unref_opt] in *.
              rewrite (abs_frame st x _ h' Hx F). rewrite (absh_arr _ h') by exact Hs. cbn [hbuf h'].
              unfold aval. fold (hval (hunref (haddref hp k) i) k). rewrite V. unfold hval. rewrite Ec. reflexivity.
           ++ cbn [fin fst snd vis]. rewrite <- Ea. subst hp. rewrite upd_arr_same by assumption.
              split; [discriminate|]. split; [exact I|].
              pose proof SameR as S'. unfold aval in S'. rewrite E in S'. exact S'.
        -- cbn [fin fst snd vis].
           destruct (drop_step st x I Hx Hs) as [I' A']. fold a in I', A'. rewrite Ea in I', A'. fold hp in I', A'. cbn [unref_opt] in *.
           split; [discriminate|]. split; [exact I'|]. rewrite A'.
           unfold aval. rewrite E. reflexivity.
      * destruct s as [k|]; [|discriminate].
        destruct (Hk k eq_refl) as [c Ec]. fold hp in Ec.
        cbn [fin fst snd vis]. unfold upd_arr.
        set (h' := mkh (Some k) (hsl (hnd st x)) (hoff (hnd st x)) (hlen (hnd st x))).
        assert (Hne : None <> Some k) by discriminate.
        destruct (share_sound st x None k c h' I Hx Ea Ec Hne eq_refl) as [I' [F V]].
        split; [discriminate|]. split; [exact I'|].
        fold hp in F, V, I'. cbn [unref_opt] in *.
        rewrite (abs_frame st x _ h' Hx F). rewrite (absh_arr _ h') by exact Hs. cbn [hbuf h'].
        change (aval (haddref hp k) (Some k)) with (hval (haddref hp k) k). rewrite V.
        unfold hval, aval. rewrite Ec. reflexivity.
  - subst vfrom. unfold array_clone. cbn [s_clone D fst snd]. destruct a as [i|] eqn:Ea.
    + cbn [fin fst snd vis].
      destruct (drop_step st x I Hx Hs) as [I' A']. fold a in I', A'. rewrite Ea in I', A'. fold hp in I', A'. cbn [unref_opt] in *.
      split; [discriminate|]. split; [exact I'|]. rewrite A'. reflexivity.
    + cbn [fin fst snd vis]. rewrite <- Ea. subst hp. rewrite upd_arr_same by assumption.
      split; [discriminate|]. split; [exact I|]. exact Same.
Qed.

Lemma step_clone st x y : inv st -> step_ok st (OClone x y).
Proof.
  intros I. arr_guards I st x Hx Hs.
  unfold step_ok, step, sstep. cbn [target is_slice_op].
  rewrite abs_length, (proj2 (Nat.ltb_lt _ _) Hx), Hs, nth_abs, (absh_arr _ _ Hs). cbn [negb Bool.eqb].
  destruct y as [k|].
  - rewrite !nth_abs.
    destruct (Nat.ltb_spec k (length (shnd st))) as [Hk|Hk]; cbn [negb orb].
    2:{ split; [discriminate|]. split; [exact I|reflexivity]. }
    destruct (hsl (hnd st k)) eqn:Hsk.
    { unfold absh. rewrite Hsk. cbn [fst]. split; [discriminate|]. split; [exact I|reflexivity]. }
    rewrite (absh_arr _ _ Hsk). cbn [fst snd].
    pose proof (clone_sound st x (Some (hbuf (hnd st k))) (Some (aval (sheap st) (hbuf (hnd st k)))) I Hx Hs) as C.
    cbn zeta in C.
    destruct (fin st x false (array_clone (sheap st) (hbuf (hnd st x)) (Some (hbuf (hnd st k))))) as [st' out].
    cbn [fst snd] in C. apply C. split; [reflexivity|].
    intros k' Hk'. destruct (inv_get st k k' I Hk') as [c [Ec _]]. eauto.
  - pose proof (clone_sound st x None None I Hx Hs eq_refl) as C. cbn zeta in C.
    destruct (fin st x false (array_clone (sheap st) (hbuf (hnd st x)) None)) as [st' out].
    cbn [fst snd] in C. exact C.
Qed.

(* ------------------------------------------------------------------ the operations covered so far *)
Definition core_op (o : op) : bool :=
  match o with
  | OAppend _ _ | OInsert _ _ _ | OSet _ _ _ _ _ | OSlice _ _ _ _ | OClone _ _ | OReduce _
  | OBufInsert _ _ _ | OBufCut _ _ _ | OBufSet _ _ _ _ | ONew _ _ _ _ | OFlags _ _ _ => true
  | _ => false
  end.

Theorem cow_step_core st o : inv st -> core_op o = true -> step_ok st o.
Proof.
  intros I C. destruct o; try discriminate;
    auto using step_append, step_insert, step_set, step_slice, step_clone, step_reduce,
               step_bufinsert, step_bufcut, step_bufset, step_new, step_flags.
Qed.

(* ------------------------------------------------------------------ histories *)
Definition run_abs (st : state) (ops : list op) : list (list sv * outcome) :=
  map (fun r => (abs (fst r), vis (snd r))) (run st ops).

Lemma histories_gen (P : op -> bool) :
  (forall st o, inv st -> P o = true -> step_ok st o) ->
  forall ops st, inv st -> forallb P ops = true ->
    run_abs st ops = srun st (abs st) ops /\
    Forall (fun r => snd r <> OFault /\ inv (fst r)) (run st ops).
Proof.
  intros H ops. induction ops as [|o ops IH]; intros st I A.
  - split; [reflexivity|constructor].
  - cbn [forallb] in A. apply andb_prop in A. destruct A as [Po A].
    pose proof (H st o I Po) as S. unfold step_ok in S.
    unfold run_abs. cbn [run srun]. destruct (step st o) as [st' out]. destruct S as [F [I' E]].
    rewrite E. cbn [map fst snd]. destruct (IH st' I' A) as [IH1 IH2]. split.
    + f_equal. exact IH1.
    + constructor; [split; assumption|exact IH2].
Qed.

(* ------------------------------------------------------------------ corollaries *)
Lemma sstep_frame vs o h y d : y <> target o -> nth y (fst (sstep vs o h)) d = nth y vs d.
Proof.
  intros Hy. unfold sstep.
  destruct (negb (target o <? length vs)); [reflexivity|].
  destruct (nth (target o) vs (false, None)) as [k v].
  destruct (negb (Bool.eqb k (is_slice_op o))); [reflexivity|].
  assert (L : forall w, nth y (lset vs (target o) w) d = nth y vs d).
  { intros w. rewrite nth_lset. destruct (Nat.eqb_spec y (target o)); [contradiction|reflexivity]. }
  destruct o; cbn [fst]; try apply L;
    try (match goal with |- context [match ?y with Some _ => _ | None => _ end] => destruct y end);
    try (match goal with |- context [if ?c then _ else _] => destruct c end);
    cbn [fst]; try reflexivity; try apply L.
Qed.

Lemma view_abs st y : view st y = svec (snd (nth y (abs st) (false, None))).
Proof.
  rewrite nth_abs. unfold view, absh. cbn [snd]. destruct (hbuf (hnd st y)) as [i|]; [|reflexivity].
  destruct (hget (sheap st) i); reflexivity.
Qed.

Lemma others_unchanged_gen st o y : step_ok st o -> y <> target o ->
  view (fst (step st o)) y = view st y.
Proof.
  intros S Hy. unfold step_ok in S. destruct (step st o) as [st' out]. destruct S as [_ [_ E]].
  cbn [fst]. rewrite !view_abs.
  replace (abs st') with (fst (sstep (abs st) o (hint_of st o out))) by (rewrite E; reflexivity).
  rewrite sstep_frame by assumption. reflexivity.
Qed.

(* the reference count of every live buffer is the number of handles on it *)
Lemma ref_inv_of_inv st i b : inv st -> hget (sheap st) i = Some b -> bref b = count_refs (shnd st) i.
Proof. intros I E. specialize (I i). rewrite E in I. destruct I as [_ [_ C]]. auto. Qed.

Lemma init_inv n m : inv (init n m).
Proof.
  intros i. unfold init. cbn [sheap shnd]. rewrite hget_ge by (simpl; lia).
  unfold count_refs. rewrite filter_app, app_length.
  assert (Z : forall k h, hbuf h = None ->
              length (filter (fun h0 : handle => match hbuf h0 with Some k0 => k0 =? i | None => false end)
                             (repeat h k)) = 0).
  { intros k h Hh. induction k; [reflexivity|]. simpl. rewrite Hh. exact IHk. }
  rewrite !Z by reflexivity. reflexivity.
Qed.

(* ------------------------------------------------------------------ refused operations keep every value *)
Definition keeps_val (r : sval * outcome) (v : sval) : Prop :=
  snd r = ORefused \/ snd r = OGuard -> fst r = v.

Ltac crush_ifs := repeat match goal with |- context [if ?c then _ else _] => destruct c end.
Ltac keeps_tac :=
  unfold keeps_val; crush_ifs; cbn [fst snd D Dn R G]; intros [H|H]; try discriminate; reflexivity.

Lemma sstep_refused vs o h :
  snd (sstep vs o h) = ORefused \/ snd (sstep vs o h) = OGuard -> fst (sstep vs o h) = vs.
Proof.
  unfold sstep.
  destruct (negb (target o <? length vs)); [reflexivity|].
  destruct (nth (target o) vs (false, None)) as [k v] eqn:En.
  destruct (negb (Bool.eqb k (is_slice_op o))); [reflexivity|].
  assert (L : forall r : sval * outcome, keeps_val r v ->
            snd (lset vs (target o) (k, fst r), snd r) = ORefused \/
            snd (lset vs (target o) (k, fst r), snd r) = OGuard ->
            fst (lset vs (target o) (k, fst r), snd r) = vs).
  { intros r K H. cbn [fst snd] in *. rewrite (K H), <- En. apply lset_same. }
  destruct o; try (apply L).
  - unfold s_append. destruct v as [[t l]|]; keeps_tac.
  - unfold s_insert. destruct v as [[t l]|]; keeps_tac.
  - unfold s_set. destruct v as [[t l]|]; keeps_tac.
  - unfold s_slice. destruct v as [[t l]|]; keeps_tac.
  - unfold s_reserve. destruct v as [[t l]|]; keeps_tac.
  - destruct y as [j|].
    + destruct (negb (j <? length vs) || fst (nth j vs (false, None))); [reflexivity|]. apply L.
      unfold s_clone. destruct v as [[t l]|], (snd (nth j vs (false, None))) as [[t' l']|]; keeps_tac.
    + apply L. unfold s_clone. keeps_tac.
  - keeps_tac.
  - unfold s_bufinsert. destruct v as [[t l]|]; keeps_tac.
  - unfold s_bufcut. destruct v as [[t l]|]; keeps_tac.
  - unfold s_bufset. destruct v as [[t l]|]; keeps_tac.
  - unfold s_printf. destruct v as [[t l]|]; keeps_tac.
  - unfold s_string. destruct v as [[t l]|]; keeps_tac.
  - keeps_tac.
  - destruct v as [[t l]|]; keeps_tac.
  - destruct (negb (x <? length vs) || fst (nth x vs (false, None))); [reflexivity|]. apply L.
    unfold s_mkslice. destruct (s_clone v (Some (snd (nth x vs (false, None))))) as [w []];
      unfold keeps_val; cbn [fst snd D R]; intros [H|H]; try discriminate; reflexivity.
  - unfold s_write. destruct v as [[t l]|]; keeps_tac.
  - destruct (negb (y <? length vs) || fst (nth y vs (false, None))); [reflexivity|]. apply L.
    unfold s_xassign. keeps_tac.
  - unfold s_append. destruct v as [[t l]|]; keeps_tac.
  - unfold s_xset. keeps_tac.
  - unfold s_xsetstr. keeps_tac.
  - destruct (negb (s <? length vs) || negb (fst (nth s vs (false, None)))); [reflexivity|]. apply L.
    unfold s_xasl. keeps_tac.
  - destruct (negb (y <? length vs) || fst (nth y vs (false, None))); [reflexivity|]. apply L.
    unfold s_xmks. keeps_tac.
  - unfold s_xshift. keeps_tac.
  - unfold s_xtrim. keeps_tac.
  - destruct (negb (y <? length vs) || fst (nth y vs (false, None))); [reflexivity|]. apply L.
    unfold s_xsetref. destruct (snd (nth y vs (false, None))) as [[t' l']|]; keeps_tac.
  - unfold s_xsetval. keeps_tac.
  - unfold s_xsetlen. destruct v as [[t l]|]; keeps_tac.
  - destruct (negb (t <? length vs) || negb (fst (nth t vs (false, None)))); [reflexivity|]. apply L.
    unfold s_xslcopy. keeps_tac.
  - unfold s_xslset. keeps_tac.
  - destruct (tr =? 0); [reflexivity|]. apply L. unfold s_tnew. keeps_tac.
  - destruct (negb _); [reflexivity|]. apply L. unfold s_tinsert. destruct (t_at _ _); keeps_tac.
  - destruct (negb _); [reflexivity|]. apply L. unfold s_tstore. destruct (t_at _ _); keeps_tac.
  - destruct (negb _); [reflexivity|]. apply L. unfold s_treserve. destruct (t_at _ _); keeps_tac.
  - destruct (negb _); [reflexivity|]. apply L. unfold s_tresize. destruct (t_at _ _); [destruct len|]; keeps_tac.
  - destruct (negb _); [reflexivity|]. apply L. unfold s_tdetach. keeps_tac.
  - keeps_tac.
  - destruct (negb _); [reflexivity|]. apply L. unfold s_pcompact. destruct v as [[t l]|]; keeps_tac.
  - destruct (negb _); [reflexivity|]. apply L. unfold s_pswap. destruct p1, p2; keeps_tac.
  - destruct (negb _); [reflexivity|]. apply L. unfold s_mset, s_tstore, s_tinsert.
    destruct (find_key _ _ _ _ _ _); destruct (t_at _ _); keeps_tac.
Qed.

Lemma refused_unchanged_gen st o : step_ok st o ->
  snd (step st o) = ORefused \/ snd (step st o) = OGuard -> abs (fst (step st o)) = abs st.
Proof.
  intros S H. unfold step_ok in S. destruct (step st o) as [st' out]. destruct S as [_ [_ E]].
  cbn [fst snd] in *.
  assert (H' : snd (sstep (abs st) o (hint_of st o out)) = ORefused \/
               snd (sstep (abs st) o (hint_of st o out)) = OGuard).
  { rewrite E. cbn [snd]. destruct H as [->| ->]; [left|right]; reflexivity. }
  pose proof (sstep_refused _ _ _ H') as K. rewrite E in K. exact K.
Qed.

(* ------------------------------------------------------------------ reserve, printf, string *)
Lemma step_reserve st x len tr : inv st -> step_ok st (OReserve x len tr).
Proof.
  intros I. arr_guards I st x Hx Hs.
  eapply (arr_step st (OReserve x len tr) false _ (fun h => s_reserve h (aval (sheap st) (hbuf (hnd st x))) tr));
    auto; [arr_eq_step Hx Hs | arr_eq_spec Hx Hs | ].
  intros cnt acc. apply array_reserve_sem, inv_aok, I.
Qed.

Lemma step_printf st x text : inv st -> step_ok st (OPrintf x text).
Proof.
  intros I. arr_guards I st x Hx Hs.
  eapply (arr_step st (OPrintf x text) true _ (fun h => s_printf h (aval (sheap st) (hbuf (hnd st x))) text));
    auto; [arr_eq_step Hx Hs | arr_eq_spec Hx Hs | ].
  intros cnt acc. apply array_printf_sem, inv_aok, I.
Qed.

Lemma step_string st x : inv st -> step_ok st (OString x).
Proof.
  intros I. arr_guards I st x Hx Hs.
  eapply (arr_step st (OString x) true _ (fun h => s_string h (aval (sheap st) (hbuf (hnd st x)))));
    auto; [arr_eq_step Hx Hs | arr_eq_spec Hx Hs | ].
  intros cnt acc. apply array_string_sem, inv_aok, I.
Qed.

Definition array_op (o : op) : bool :=
  match o with
  | OMkSlice _ _ _ _ | OWrite _ _ _ _ _ | OXAssign _ _ | OXAppend _ _ | OXSet _ _ | OXSetStr _ _
  | OXAssignSlice _ _ | OXMkSlice _ _ | OXShift _ _ | OXTrim _ _
  | OXSetRef _ _ | OXSetVal _ _ _ | OXSetLen _ _ | OXSliceCopy _ _ | OXSliceSet _ _ _
  | OTNew _ _ _ _ | OTInsert _ _ _ _ _ | OTStore _ _ _ _ _ | OTReserve _ _ _ _ | OTResize _ _ _ _ | OTDetach _ _ _
  | OTRead _ | OPCompact _ _ | OPSwap _ _ _ _ | OMSet _ _ _ _ _ => false
  | _ => true
  end.

Theorem cow_step_arrays st o : inv st -> array_op o = true -> step_ok st o.
Proof.
  intros I C. destruct o; try discriminate;
    auto using step_append, step_insert, step_set, step_slice, step_clone, step_reduce,
               step_bufinsert, step_bufcut, step_bufset, step_new, step_flags,
               step_reserve, step_printf, step_string.
Qed.

(* ------------------------------------------------------------------ slices: creation *)
Lemma absh_sl hp h : hsl h = true -> absh hp h = (true, wval hp (hbuf h) (hoff h) (hlen h)).
Proof.
  intros H. unfold absh, wval. rewrite H. destruct (hbuf h) as [i|]; [|reflexivity].
  destruct (hget hp i); reflexivity.
Qed.

Lemma wval_hval hp hp' k off len : hval hp' k = hval hp k -> wval hp' (Some k) off len = wval hp (Some k) off len.
Proof.
  unfold hval, wval. destruct (hget hp' k) as [b'|], (hget hp k) as [b|]; cbn [option_map]; try discriminate; auto.
  unfold bval, win. intros H. inversion H as [[Ht Hv]]. rewrite Ht, Hv. reflexivity.
Qed.

Definition window (v : sval) (off len : nat) : sval :=
  match v with None => None | Some (t, l) => Some (t, firstn len (skipn off l)) end.

Lemma wval_window hp a off len : wval hp a off len = window (aval hp a) off len.
Proof. unfold wval, aval, window. destruct a as [i|]; [|reflexivity]. destruct (hget hp i); reflexivity. Qed.

Lemma lset_abs_same_sl st x : x < length (shnd st) -> hsl (hnd st x) = true ->
  lset (abs st) x (true, wval (sheap st) (hbuf (hnd st x)) (hoff (hnd st x)) (hlen (hnd st x))) = abs st.
Proof. intros Hx Hs. rewrite <- (absh_sl _ _ Hs), <- nth_abs. apply lset_same. Qed.

Lemma step_mkslice st x y off len : inv st -> step_ok st (OMkSlice x y off len).
Proof.
  intros I.
  destruct (Nat.ltb_spec x (length (shnd st))) as [Hx|Hx].
  2:{ apply guard_ok; [exact I| |].
      - unfold step. cbn [target]. rewrite (proj2 (Nat.ltb_ge _ _) Hx). reflexivity.
      - intros h. unfold sstep. cbn [target]. rewrite abs_length, (proj2 (Nat.ltb_ge _ _) Hx). reflexivity. }
  destruct (hsl (hnd st x)) eqn:Hs.
  2:{ apply guard_ok; [exact I| |].
      - unfold step. cbn [target is_slice_op]. rewrite (proj2 (Nat.ltb_lt _ _) Hx), Hs. reflexivity.
      - intros h. unfold sstep. cbn [target is_slice_op].
        rewrite abs_length, (proj2 (Nat.ltb_lt _ _) Hx), nth_abs. unfold absh. rewrite Hs. reflexivity. }
  unfold step_ok, step, sstep. cbn [target is_slice_op].
  rewrite abs_length, (proj2 (Nat.ltb_lt _ _) Hx), Hs, !nth_abs, (absh_sl _ _ Hs). cbn [negb Bool.eqb].
  destruct (Nat.ltb_spec y (length (shnd st))) as [Hy|Hy]; cbn [negb orb].
  2:{ split; [discriminate|]. split; [exact I|reflexivity]. }
  destruct (hsl (hnd st y)) eqn:Hsy.
  { unfold absh. rewrite Hsy. cbn [fst]. split; [discriminate|]. split; [exact I|reflexivity]. }
  rewrite (absh_arr _ _ Hsy). cbn [fst snd].
  set (hp := sheap st). set (a := hbuf (hnd st x)). set (s := hbuf (hnd st y)).
  set (v := wval hp a (hoff (hnd st x)) (hlen (hnd st x))).
  assert (SameR : (lset (abs st) x (true, v), ORefused) = (abs st, ORefused)).
  { subst v hp a. rewrite lset_abs_same_sl by assumption. reflexivity. }
  assert (Hk : forall k, s = Some k -> exists c, hget hp k = Some c).
  { intros k Hk'. destruct (inv_get st y k I Hk') as [c [Ec _]]. eauto. }
  unfold s_mkslice, array_clone.
  destruct (match a, s with Some i, Some k => i =? k | None, None => true | _, _ => false end) eqn:Eq.
  - (* the slice already holds this buffer: only the window changes *)
    assert (a = s) as Eas.
    { destruct a as [i|], s as [k|]; try discriminate; [apply Nat.eqb_eq in Eq; subst|]; reflexivity. }
    set (h' := mkh a true off len).
    destruct (ptrans_sound st x a hp a h' I Hx eq_refl (P_same _ _) eq_refl) as [I' F].
    split; [discriminate|]. split; [exact I'|]. fold hp in F.
    rewrite (abs_frame st x hp h' Hx F), (absh_sl _ h') by reflexivity. cbn [hbuf hoff hlen h'].
    rewrite wval_window. rewrite <- Eas.
    assert (NR : snd (s_clone v (Some (aval hp a))) <> ORefused).
    { subst v. rewrite wval_window. unfold s_clone, window. destruct (aval hp a) as [[t l]|]; cbn [D R snd].
      - rewrite Nat.eqb_refl. discriminate.
      - discriminate. }
    destruct (s_clone v (Some (aval hp a))) as [w []]; cbn [snd] in NR; try contradiction; reflexivity.
  - destruct a as [i|] eqn:Ea.
    + destruct (inv_get st x i I Ea) as [b [E [W [Rf C]]]]. fold hp in E.
      destruct s as [k|] eqn:Es.
      * destruct (Hk k eq_refl) as [c Ec]. rewrite E, Ec.
        assert (Hne : Some i <> Some k). { apply Nat.eqb_neq in Eq. congruence. }
        assert (Ev : v = Some (btr b, firstn (hlen (hnd st x)) (skipn (hoff (hnd st x)) (bview b)))).
        { subst v. unfold wval. rewrite E. reflexivity. }
        assert (Ef : aval hp (Some k) = Some (btr c, bview c)) by (unfold aval; rewrite Ec; reflexivity).
        rewrite Ev, Ef. cbn [s_clone].
        destruct (Nat.eqb_spec (btr b) (btr c)) as [Tq|Tq]; cbn [negb D R snd fst].
        -- set (h' := mkh (Some k) true off len).
           destruct (share_sound st x (Some i) k c h' I Hx Ea Ec Hne eq_refl) as [I' [F V]].
           split; [discriminate|]. split; [exact I'|]. fold hp in F, V. cbn [unref_opt] in *.
           rewrite (abs_frame st x _ h' Hx F), (absh_sl _ h') by reflexivity. cbn [hbuf hoff hlen h'].
           rewrite (wval_hval _ _ _ _ _ V). unfold wval. rewrite Ec. reflexivity.
        -- split; [discriminate|]. split; [exact I|]. rewrite <- Ev. exact SameR.
      * assert (Ev : v = Some (btr b, firstn (hlen (hnd st x)) (skipn (hoff (hnd st x)) (bview b)))).
        { subst v. unfold wval. rewrite E. reflexivity. }
        rewrite Ev. cbn [aval s_clone D snd fst].
        set (h' := mkh None true off len).
        destruct (drop_sound st x (Some i) h' I Hx Ea eq_refl) as [I' F].
        split; [discriminate|]. split; [exact I'|]. fold hp in F, I'. cbn [unref_opt] in *.
        rewrite (abs_frame st x _ h' Hx F), (absh_sl (hunref hp i) h') by reflexivity. reflexivity.
    + destruct s as [k|] eqn:Es; [|discriminate].
      destruct (Hk k eq_refl) as [c Ec].
      assert (Ev : v = None) by reflexivity. rewrite Ev.
      assert (Ef : aval hp (Some k) = Some (btr c, bview c)) by (unfold aval; rewrite Ec; reflexivity).
      rewrite Ef. cbn [s_clone D snd fst].
      set (h' := mkh (Some k) true off len).
      assert (Hne : None <> Some k) by discriminate.
      destruct (share_sound st x None k c h' I Hx Ea Ec Hne eq_refl) as [I' [F V]].
      split; [discriminate|]. split; [exact I'|]. fold hp in F, V. cbn [unref_opt] in *.
      rewrite (abs_frame st x _ h' Hx F), (absh_sl _ h') by reflexivity. cbn [hbuf hoff hlen h'].
      rewrite (wval_hval _ _ _ _ _ V). unfold wval. rewrite Ec. reflexivity.
Qed.

(* ------------------------------------------------------------------ slices: write *)
Lemma s_write_hint h v nblk esz from d :
  s_write h v nblk esz from d = s_write (whint (hcnt h) (hacc h)) v nblk esz from d.
Proof. reflexivity. Qed.

Lemma step_write st x nblk esz from d : inv st -> step_ok st (OWrite x nblk esz from d).
Proof.
  intros I.
  destruct (Nat.ltb_spec x (length (shnd st))) as [Hx|Hx].
  2:{ apply guard_ok; [exact I| |].
      - unfold step. cbn [target]. rewrite (proj2 (Nat.ltb_ge _ _) Hx). reflexivity.
      - intros h. unfold sstep. cbn [target]. rewrite abs_length, (proj2 (Nat.ltb_ge _ _) Hx). reflexivity. }
  destruct (hsl (hnd st x)) eqn:Hs.
  2:{ apply guard_ok; [exact I| |].
      - unfold step. cbn [target is_slice_op]. rewrite (proj2 (Nat.ltb_lt _ _) Hx), Hs. reflexivity.
      - intros h. unfold sstep. cbn [target is_slice_op].
        rewrite abs_length, (proj2 (Nat.ltb_lt _ _) Hx), nth_abs. unfold absh. rewrite Hs. reflexivity. }
  unfold step_ok, step, sstep. cbn [target is_slice_op].
  rewrite abs_length, (proj2 (Nat.ltb_lt _ _) Hx), Hs, nth_abs, (absh_sl _ _ Hs). cbn [negb Bool.eqb].
  pose proof (slice_write_sem (sheap st) (hbuf (hnd st x)) (hoff (hnd st x)) (hlen (hnd st x)) nblk esz from d
                (inv_aok st x I)) as S.
  destruct (slice_write (sheap st) (hbuf (hnd st x)) (hoff (hnd st x)) (hlen (hnd st x)) nblk esz from d)
    as [hp1 a1 off len n|hp1 a1 off len|]; cbn [sres_ok] in S; [| |contradiction].
  - destruct S as [T Sp].
    set (h' := mkh a1 true off len).
    destruct (ptrans_sound st x _ hp1 a1 h' I Hx eq_refl T eq_refl) as [I' F].
    split; [destruct (esz =? 0); discriminate|]. split; [exact I'|].
    rewrite s_write_hint.
    assert (Hh : whint (hcnt (hint_of st (OWrite x nblk esz from d) (if esz =? 0 then ODone 0 n else ODone n n)))
                       (hacc (hint_of st (OWrite x nblk esz from d) (if esz =? 0 then ODone 0 n else ODone n n)))
                 = whint (if esz =? 0 then 0 else n) true).
    { unfold hint_of, hint_base, with_cons. destruct (hbuf (hnd st (target (OWrite x nblk esz from d)))) as [i|];
        [destruct (hget (sheap st) i)|]; destruct (esz =? 0); reflexivity. }
    rewrite Hh, Sp. cbn [fst snd].
    rewrite (abs_frame st x hp1 h' Hx F), (absh_sl hp1 h') by reflexivity. cbn [hbuf hoff hlen h'].
    destruct (esz =? 0); reflexivity.
  - destruct S as [T [Sp Wv]].
    set (h' := mkh a1 true off len).
    destruct (ptrans_sound st x _ hp1 a1 h' I Hx eq_refl T eq_refl) as [I' F].
    split; [discriminate|]. split; [exact I'|].
    rewrite s_write_hint.
    assert (Hh : whint (hcnt (hint_of st (OWrite x nblk esz from d) ORefused))
                       (hacc (hint_of st (OWrite x nblk esz from d) ORefused)) = whint 0 false).
    { unfold hint_of, hint_base, with_cons. destruct (hbuf (hnd st (target (OWrite x nblk esz from d)))) as [i|];
        [destruct (hget (sheap st) i)|]; reflexivity. }
    rewrite Hh, Sp. cbn [fst snd vis].
    rewrite (abs_frame st x hp1 h' Hx F), (absh_sl hp1 h') by reflexivity. cbn [hbuf hoff hlen h'].
    rewrite Wv. reflexivity.
Qed.

(* ------------------------------------------------------------------ C++ entry points *)
Lemma step_xappend st x d : inv st -> step_ok st (OXAppend x d).
Proof.
  intros I. arr_guards I st x Hx Hs.
  eapply (arr_step st (OXAppend x d) false _ (fun h => s_append h (aval (sheap st) (hbuf (hnd st x))) d));
    auto; [arr_eq_step Hx Hs | arr_eq_spec Hx Hs | ].
  intros cnt acc. rewrite x_append_eq. apply array_append_sem, inv_aok, I.
Qed.

Lemma step_xset st x d : inv st -> step_ok st (OXSet x d).
Proof.
  intros I. arr_guards I st x Hx Hs.
  eapply (arr_step st (OXSet x d) false _ (fun h => s_xset d));
    auto; [arr_eq_step Hx Hs | arr_eq_spec Hx Hs | ].
  intros cnt acc. apply x_set_sem, inv_aok, I.
Qed.

Lemma step_xsetstr st x text : inv st -> step_ok st (OXSetStr x text).
Proof.
  intros I. arr_guards I st x Hx Hs.
  eapply (arr_step st (OXSetStr x text) false _ (fun h => s_xsetstr text));
    auto; [arr_eq_step Hx Hs | arr_eq_spec Hx Hs | ].
  intros cnt acc. apply x_set_str_sem.
Qed.

(* reference assignment: handle x takes over the array value [s] of another handle *)
Lemma ref_assign_sound st x s (k : bool) (off len : nat) :
  inv st -> x < length (shnd st) ->
  (forall j, s = Some j -> exists c, hget (sheap st) j = Some c) ->
  let r := ref_assign (sheap st) (hbuf (hnd st x)) s in
  let h' := mkh (snd r) k off len in
  snd r = s /\ inv (mkst (fst r) (lset (shnd st) x h')) /\ frame st x (fst r) /\
  (forall j, s = Some j -> hval (fst r) j = hval (sheap st) j).
Proof.
  intros I Hx Hk. cbn zeta. unfold ref_assign. set (hp := sheap st). set (a := hbuf (hnd st x)).
  destruct (match a, s with Some i, Some j => i =? j | None, None => true | _, _ => false end) eqn:Eq.
  - assert (a = s) as Eas.
    { destruct a as [i|], s as [j|]; try discriminate; [apply Nat.eqb_eq in Eq; subst|]; reflexivity. }
    cbn [fst snd]. split; [exact Eas|].
    destruct (ptrans_sound st x a hp a (mkh a k off len) I Hx eq_refl (P_same _ _) eq_refl) as [I' F].
    split; [exact I'|]. split; [exact F|]. intros; reflexivity.
  - cbn [fst snd]. split; [reflexivity|]. destruct s as [j|].
    + destruct (Hk j eq_refl) as [c Ec].
      assert (Hne : a <> Some j).
      { intros E. rewrite E in Eq. rewrite Nat.eqb_refl in Eq. discriminate. }
      destruct (share_sound st x a j c (mkh (Some j) k off len) I Hx eq_refl Ec Hne eq_refl) as [I' [F V]].
      fold hp in I', F, V. unfold unref_opt in I', F, V.
      split; [exact I'|]. split; [exact F|]. intros j' Hj. inversion Hj; subst. exact V.
    + destruct a as [i|] eqn:Ea; [|discriminate].
      destruct (drop_sound st x (Some i) (mkh None k off len) I Hx Ea eq_refl) as [I' F].
      fold hp in I', F. cbn [unref_opt] in I', F.
      split; [exact I'|]. split; [exact F|]. intros; discriminate.
Qed.

Lemma step_xassign st x y : inv st -> step_ok st (OXAssign x y).
Proof.
  intros I. arr_guards I st x Hx Hs.
  unfold step_ok, step, sstep. cbn [target is_slice_op].
  rewrite abs_length, (proj2 (Nat.ltb_lt _ _) Hx), Hs, !nth_abs, (absh_arr _ _ Hs). cbn [negb Bool.eqb].
  destruct (Nat.ltb_spec y (length (shnd st))) as [Hy|Hy]; cbn [negb orb].
  2:{ split; [discriminate|]. split; [exact I|reflexivity]. }
  destruct (hsl (hnd st y)) eqn:Hsy.
  { unfold absh. rewrite Hsy. cbn [fst]. split; [discriminate|]. split; [exact I|reflexivity]. }
  rewrite (absh_arr _ _ Hsy). cbn [fst snd].
  assert (Hk : forall j, hbuf (hnd st y) = Some j -> exists c, hget (sheap st) j = Some c).
  { intros j Hj. destruct (inv_get st y j I Hj) as [c [Ec _]]. eauto. }
  pose proof (ref_assign_sound st x (hbuf (hnd st y)) (hsl (hnd st x)) (hoff (hnd st x)) (hlen (hnd st x)) I Hx Hk) as R.
  cbn zeta in R. destruct (ref_assign (sheap st) (hbuf (hnd st x)) (hbuf (hnd st y))) as [hp1 a1].
  cbn [fst snd] in R. destruct R as [Ea [I' [F V]]]. subst a1.
  split; [discriminate|]. split; [exact I'|]. unfold upd_arr.
  rewrite (abs_frame st x hp1 _ Hx F). rewrite absh_arr by exact Hs. cbn [hbuf s_xassign D fst snd vis].
  f_equal. f_equal. f_equal. unfold aval. destruct (hbuf (hnd st y)) as [j|]; [|reflexivity].
  exact (eq_sym (V j eq_refl)).
Qed.

Lemma win_all b : buf_wf b -> win b 0 (bused b) = bview b.
Proof. intros W. unfold win. simpl skipn. apply firstn_all2. rewrite (bview_length _ W). lia. Qed.

Ltac slice_guards I st x Hx Hs :=
  destruct (Nat.ltb_spec x (length (shnd st))) as [Hx|Hx];
  [ | apply guard_ok;
      [ exact I
      | unfold step; cbn [target]; rewrite (proj2 (Nat.ltb_ge _ _) Hx); reflexivity
      | intros ?h; unfold sstep; cbn [target]; rewrite abs_length, (proj2 (Nat.ltb_ge _ _) Hx); reflexivity ] ];
  destruct (hsl (hnd st x)) eqn:Hs;
  [ | apply guard_ok;
      [ exact I
      | unfold step; cbn [target is_slice_op]; rewrite (proj2 (Nat.ltb_lt _ _) Hx), Hs; reflexivity
      | intros ?h; unfold sstep; cbn [target is_slice_op];
        rewrite abs_length, (proj2 (Nat.ltb_lt _ _) Hx), nth_abs; unfold absh; rewrite Hs; reflexivity ] ].

Lemma step_xmkslice st x y : inv st -> step_ok st (OXMkSlice x y).
Proof.
  intros I. slice_guards I st x Hx Hs.
  unfold step_ok, step, sstep. cbn [target is_slice_op].
  rewrite abs_length, (proj2 (Nat.ltb_lt _ _) Hx), Hs, !nth_abs, (absh_sl _ _ Hs). cbn [negb Bool.eqb].
  destruct (Nat.ltb_spec y (length (shnd st))) as [Hy|Hy]; cbn [negb orb].
  2:{ split; [discriminate|]. split; [exact I|reflexivity]. }
  destruct (hsl (hnd st y)) eqn:Hsy.
  { unfold absh. rewrite Hsy. cbn [fst]. split; [discriminate|]. split; [exact I|reflexivity]. }
  rewrite (absh_arr _ _ Hsy). cbn [fst snd].
  assert (Hk : forall j, hbuf (hnd st y) = Some j -> exists c, hget (sheap st) j = Some c).
  { intros j Hj. destruct (inv_get st y j I Hj) as [c [Ec _]]. eauto. }
  set (len := match hbuf (hnd st y) with
              | Some k => match hget (sheap st) k with Some c => if btr c =? 0 then bused c else 0 | None => 0 end
              | None => 0 end).
  pose proof (ref_assign_sound st x (hbuf (hnd st y)) true 0 len I Hx Hk) as R.
  cbn zeta in R. destruct (ref_assign (sheap st) (hbuf (hnd st x)) (hbuf (hnd st y))) as [hp1 a1].
  cbn [fst snd] in R. destruct R as [Ea [I' [F V]]]. subst a1.
  split; [discriminate|]. split; [exact I'|].
  rewrite (abs_frame st x hp1 _ Hx F). rewrite absh_sl by reflexivity. cbn [hbuf hoff hlen s_xmks D fst snd vis].
  f_equal. f_equal. f_equal. subst len. destruct (hbuf (hnd st y)) as [j|] eqn:Ey; [|reflexivity].
  rewrite (wval_hval _ _ _ _ _ (V j eq_refl)). unfold wval, aval.
  destruct (inv_get st y j I Ey) as [c [Ec [Wc _]]]. rewrite Ec. cbn [option_map]. unfold bval.
  destruct (btr c =? 0); [rewrite win_all by exact Wc; reflexivity|reflexivity].
Qed.

(* window arithmetic of slice::shift / slice::trim on a window inside the data *)
Lemma cons_len st x : inv st -> consistent st x = true ->
  length (svec (wval (sheap st) (hbuf (hnd st x)) (hoff (hnd st x)) (hlen (hnd st x)))) = hlen (hnd st x).
Proof.
  intros I C. unfold consistent in C. unfold wval. destruct (hbuf (hnd st x)) as [i|] eqn:Ha.
  - destruct (inv_get st x i I Ha) as [b [E [W _]]]. rewrite E in *. cbn [option_map svec]. apply Nat.leb_le in C.
    unfold win. rewrite firstn_length, skipn_length, (bview_length _ W). lia.
  - apply Nat.leb_le in C. cbn [svec length]. lia.
Qed.

Lemma hcons_of st o out : hcons (hint_of st o out) = cons_of st o.
Proof. reflexivity. Qed.

Lemma window_step st x off' len' : inv st -> x < length (shnd st) -> hsl (hnd st x) = true ->
  let st' := mkst (sheap st) (lset (shnd st) x (mkh (hbuf (hnd st x)) true off' len')) in
  inv st' /\ abs st' = lset (abs st) x (true, wval (sheap st) (hbuf (hnd st x)) off' len').
Proof.
  intros I Hx Hs st'. subst st'.
  destruct (ptrans_sound st x _ (sheap st) _ (mkh (hbuf (hnd st x)) true off' len') I Hx eq_refl (P_same _ _) eq_refl)
    as [I' F].
  split; [exact I'|]. rewrite (abs_frame st x _ _ Hx F), absh_sl by reflexivity. reflexivity.
Qed.

Lemma step_xshift st x n : inv st -> step_ok st (OXShift x n).
Proof.
  intros I. slice_guards I st x Hx Hs.
  unfold step_ok, step, sstep. cbn [target is_slice_op].
  rewrite abs_length, (proj2 (Nat.ltb_lt _ _) Hx), Hs, nth_abs, (absh_sl _ _ Hs). cbn [negb Bool.eqb].
  unfold s_xshift. destruct (consistent st x) eqn:C; cbn [negb].
  2:{ rewrite hcons_of. cbn [cons_of target]. rewrite C. cbn [negb G fst snd].
      split; [discriminate|]. split; [exact I|]. rewrite lset_abs_same_sl by assumption. reflexivity. }
  rewrite (cons_len st x I C).
  destruct (Nat.ltb_spec (hlen (hnd st x)) n) as [Hn|Hn].
  { rewrite hcons_of. cbn [cons_of target]. rewrite C. cbn [negb R fst snd].
    split; [discriminate|]. split; [exact I|]. rewrite lset_abs_same_sl by assumption. reflexivity. }
  rewrite hcons_of. cbn [cons_of target]. rewrite C. cbn [negb D fst snd vis].
  destruct (window_step st x (hoff (hnd st x) + n) (hlen (hnd st x) - n) I Hx Hs) as [I' A'].
  split; [discriminate|]. split; [exact I'|]. rewrite A'. f_equal. f_equal. f_equal.
  unfold wval. destruct (hbuf (hnd st x)) as [i|]; [|reflexivity].
  destruct (hget (sheap st) i) as [b|]; [|reflexivity]. cbn [option_map]. f_equal. f_equal.
  unfold win. list_eq.
Qed.

Lemma step_xtrim st x n : inv st -> step_ok st (OXTrim x n).
Proof.
  intros I. slice_guards I st x Hx Hs.
  unfold step_ok, step, sstep. cbn [target is_slice_op].
  rewrite abs_length, (proj2 (Nat.ltb_lt _ _) Hx), Hs, nth_abs, (absh_sl _ _ Hs). cbn [negb Bool.eqb].
  unfold s_xtrim. destruct (consistent st x) eqn:C; cbn [negb].
  2:{ rewrite hcons_of. cbn [cons_of target]. rewrite C. cbn [negb G fst snd].
      split; [discriminate|]. split; [exact I|]. rewrite lset_abs_same_sl by assumption. reflexivity. }
  pose proof (cons_len st x I C) as CL. rewrite CL.
  destruct (Nat.ltb_spec (hlen (hnd st x)) n) as [Hn|Hn].
  { rewrite hcons_of. cbn [cons_of target]. rewrite C. cbn [negb R fst snd].
    split; [discriminate|]. split; [exact I|]. rewrite lset_abs_same_sl by assumption. reflexivity. }
  rewrite hcons_of. cbn [cons_of target]. rewrite C. cbn [negb D fst snd vis].
  destruct (window_step st x (hoff (hnd st x)) (hlen (hnd st x) - n) I Hx Hs) as [I' A'].
  split; [discriminate|]. split; [exact I'|]. rewrite A'. f_equal. f_equal. f_equal.
  unfold wval in *. destruct (hbuf (hnd st x)) as [i|]; [|reflexivity].
  destruct (hget (sheap st) i) as [b|]; [|reflexivity]. cbn [option_map svec] in *. f_equal. f_equal.
  rewrite CL. unfold win. rewrite firstn_firstn. f_equal. lia.
Qed.

Lemma step_xassign_slice st x s : inv st -> step_ok st (OXAssignSlice x s).
Proof.
  intros I. arr_guards I st x Hx Hs.
  destruct (Nat.ltb_spec s (length (shnd st))) as [Hy|Hy].
  2:{ apply guard_ok; [exact I| |].
      - unfold step. cbn [target is_slice_op]. rewrite (proj2 (Nat.ltb_lt _ _) Hx), Hs, (proj2 (Nat.ltb_ge _ _) Hy). reflexivity.
      - intros h. unfold sstep. cbn [target is_slice_op].
        rewrite abs_length, (proj2 (Nat.ltb_lt _ _) Hx), nth_abs, (absh_arr _ _ Hs), (proj2 (Nat.ltb_ge _ _) Hy). reflexivity. }
  destruct (hsl (hnd st s)) eqn:Hss.
  2:{ apply guard_ok; [exact I| |].
      - unfold step. cbn [target is_slice_op]. rewrite (proj2 (Nat.ltb_lt _ _) Hx), Hs, (proj2 (Nat.ltb_lt _ _) Hy), Hss. reflexivity.
      - intros h. unfold sstep. cbn [target is_slice_op].
        rewrite abs_length, (proj2 (Nat.ltb_lt _ _) Hx), !nth_abs, (absh_arr _ _ Hs), (proj2 (Nat.ltb_lt _ _) Hy).
        unfold absh at 1. rewrite Hss. reflexivity. }
  destruct (consistent st s) eqn:C.
  2:{ unfold step_ok, step, sstep. cbn [target is_slice_op].
      rewrite abs_length, (proj2 (Nat.ltb_lt _ _) Hx), Hs, (proj2 (Nat.ltb_lt _ _) Hy), Hss, C, !nth_abs,
        (absh_arr _ _ Hs), (absh_sl _ _ Hss). cbn [negb orb Bool.eqb fst snd].
      unfold s_xasl. rewrite hcons_of. cbn [cons_of]. rewrite C. cbn [G fst snd].
      split; [discriminate|]. split; [exact I|]. rewrite lset_abs_same by assumption. reflexivity. }
  set (w := wval (sheap st) (hbuf (hnd st s)) (hoff (hnd st s)) (hlen (hnd st s))).
  assert (Sem : forall cnt acc, ares_ok (sheap st) (hbuf (hnd st x))
            (x_assign_slice (sheap st) (hbuf (hnd st x)) (hbuf (hnd st s)) (hoff (hnd st s)) (hlen (hnd st s)))
            ((fun _ : hint => D (Some (0, svec w))) (hint_at (sheap st) (hbuf (hnd st x)) cnt acc)) false).
  { intros cnt acc. apply x_assign_slice_sem; [apply inv_aok, I|apply inv_aok, I|].
    unfold consistent in C. destruct (hbuf (hnd st s)) as [k|].
    - destruct (hget (sheap st) k); [apply Nat.leb_le; exact C|discriminate].
    - apply Nat.leb_le; exact C. }
  pose proof (fin_sound st x false _ (fun _ => D (Some (0, svec w))) I Hx Hs Sem) as F. cbn zeta in F.
  unfold step_ok, step, sstep. cbn [target is_slice_op].
  rewrite abs_length, (proj2 (Nat.ltb_lt _ _) Hx), Hs, (proj2 (Nat.ltb_lt _ _) Hy), Hss, C, !nth_abs,
    (absh_arr _ _ Hs), (absh_sl _ _ Hss). cbn [negb orb Bool.eqb fst snd].
  destruct (fin st x false _) as [st' out]. cbn [fst snd] in F. destruct F as [F1 [F2 F3]].
  split; [exact F1|]. split; [exact F2|].
  unfold s_xasl. rewrite hcons_of. cbn [cons_of]. rewrite C. fold w. exact F3.
Qed.


(* ------------------------------------------------------------------ class templates of mptcore/array.h *)
Lemma tpl_step st o x (gm : heap -> arr -> bool) (gs : sval -> bool) (r : heap -> arr -> ares)
  (specf : hint -> sval -> sval * outcome) :
  inv st -> target o = x -> is_slice_op o = false ->
  (forall st, step st o =
     if negb (x <? length (shnd st)) then (st, OGuard) else
     if negb (Bool.eqb (hsl (hnd st x)) false) then (st, OGuard) else
     if negb (gm (sheap st) (hbuf (hnd st x))) then (st, OGuard)
     else fin st x false (r (sheap st) (hbuf (hnd st x)))) ->
  (forall vs h, sstep vs o h =
     if negb (x <? length vs) then (vs, OGuard) else
     let '(k, v) := nth x vs (false, None) in
     if negb (Bool.eqb k false) then (vs, OGuard) else
     if negb (gs v) then (vs, OGuard) else (lset vs x (k, fst (specf h v)), snd (specf h v))) ->
  (forall hp a, aok hp a -> gm hp a = gs (aval hp a)) ->
  (forall h c v, specf (with_cons h c) v = specf h v) ->
  (forall hp a cnt acc, aok hp a -> gm hp a = true ->
     ares_ok hp a (r hp a) (specf (hint_at hp a cnt acc) (aval hp a)) false) ->
  step_ok st o.
Proof.
  intros I Tx Sl Es Ss Gd Sc Sem.
  destruct (Nat.ltb_spec x (length (shnd st))) as [Hx|Hx].
  2:{ unfold step_ok. rewrite Es, (proj2 (Nat.ltb_ge _ _) Hx). cbn [negb].
      rewrite Ss, abs_length, (proj2 (Nat.ltb_ge _ _) Hx). cbn [negb].
      split; [discriminate|]. split; [exact I|reflexivity]. }
  destruct (hsl (hnd st x)) eqn:Hs.
  { unfold step_ok. rewrite Es, (proj2 (Nat.ltb_lt _ _) Hx), Hs. cbn [negb Bool.eqb].
    rewrite Ss, abs_length, (proj2 (Nat.ltb_lt _ _) Hx), nth_abs. cbn [negb].
    unfold absh. rewrite Hs. cbn [Bool.eqb negb].
    split; [discriminate|]. split; [exact I|reflexivity]. }
  pose proof (inv_aok st x I) as OK.
  destruct (gm (sheap st) (hbuf (hnd st x))) eqn:G.
  - eapply (arr_step st o false (r (sheap st) (hbuf (hnd st x))) (fun h => specf h (aval (sheap st) (hbuf (hnd st x)))));
      rewrite ?Tx; auto.
    + rewrite Es, (proj2 (Nat.ltb_lt _ _) Hx), Hs, G. reflexivity.
    + intros h. rewrite Ss, abs_length, (proj2 (Nat.ltb_lt _ _) Hx), nth_abs, (absh_arr _ _ Hs).
      cbn [negb Bool.eqb]. rewrite <- (Gd _ _ OK), G. reflexivity.
  - unfold step_ok. rewrite Es, (proj2 (Nat.ltb_lt _ _) Hx), Hs, G. cbn [negb Bool.eqb].
    split; [discriminate|]. split; [exact I|].
    rewrite Ss, abs_length, (proj2 (Nat.ltb_lt _ _) Hx), nth_abs, (absh_arr _ _ Hs).
    cbn [negb Bool.eqb]. rewrite <- (Gd _ _ OK), G. reflexivity.
Qed.

Lemma step_tnew st x tr uq n : inv st -> step_ok st (OTNew x tr uq n).
Proof.
  intros I.
  apply (tpl_step st (OTNew x tr uq n) x (fun _ _ => negb (tr =? 0)) (fun _ => negb (tr =? 0))
           (fun hp a => t_new hp a tr uq n) (fun _ _ => s_tnew tr)); auto.
  - intros s. unfold step. cbn [target is_slice_op]. destruct (tr =? 0); reflexivity.
  - intros vs h. unfold sstep. cbn [target is_slice_op]. destruct (nth x vs (false, None)) as [k v].
    destruct (tr =? 0); reflexivity.
  - intros. apply t_new_sem.
Qed.

Lemma step_tinsert st x tr uq pos d : inv st -> step_ok st (OTInsert x tr uq pos d).
Proof.
  intros I.
  apply (tpl_step st (OTInsert x tr uq pos d) x (fun hp a => t_ok hp a tr && (length d =? tr))
           (fun v => s_tok v tr && (length d =? tr))
           (fun hp a => t_insert hp a tr uq pos d) (fun h v => s_tinsert h v tr pos d)); auto.
  - intros hp a OK. rewrite (t_ok_aval hp a tr OK). reflexivity.
  - intros hp a cnt acc OK G. apply andb_prop in G. destruct G as [G1 G2]. apply Nat.eqb_eq in G2.
    apply t_insert_sem; assumption.
Qed.

Lemma step_tstore st x tr uq pos d : inv st -> step_ok st (OTStore x tr uq pos d).
Proof.
  intros I.
  apply (tpl_step st (OTStore x tr uq pos d) x (fun hp a => t_ok hp a tr && (length d =? tr))
           (fun v => s_tok v tr && (length d =? tr))
           (fun hp a => t_store hp a tr uq pos 0 d) (fun h v => s_tstore h v tr pos 0 d)); auto.
  - intros hp a OK. rewrite (t_ok_aval hp a tr OK). reflexivity.
  - intros hp a cnt acc OK G. apply andb_prop in G. destruct G as [G1 G2]. apply Nat.eqb_eq in G2.
    apply t_store_sem; auto. lia.
Qed.

Lemma step_treserve st x tr uq len : inv st -> step_ok st (OTReserve x tr uq len).
Proof.
  intros I.
  apply (tpl_step st (OTReserve x tr uq len) x (fun hp a => t_ok hp a tr) (fun v => s_tok v tr)
           (fun hp a => t_reserve hp a tr uq len) (fun h v => s_treserve h v tr len)); auto.
  - intros hp a OK. apply t_ok_aval; assumption.
  - intros hp a cnt acc OK G. apply t_reserve_sem; assumption.
Qed.

Lemma step_tresize st x tr uq len : inv st -> step_ok st (OTResize x tr uq len).
Proof.
  intros I.
  apply (tpl_step st (OTResize x tr uq len) x (fun hp a => t_ok hp a tr) (fun v => s_tok v tr)
           (fun hp a => t_resize hp a tr uq len) (fun h v => s_tresize h v tr len)); auto.
  - intros hp a OK. apply t_ok_aval; assumption.
  - intros hp a cnt acc OK G. apply t_resize_sem; assumption.
Qed.

Lemma step_tdetach st x tr uq : inv st -> step_ok st (OTDetach x tr uq).
Proof.
  intros I.
  apply (tpl_step st (OTDetach x tr uq) x (fun hp a => t_ok hp a tr) (fun v => s_tok v tr)
           (fun hp a => t_detach hp a tr uq) (fun h v => s_tdetach h v tr)); auto.
  - intros hp a OK. apply t_ok_aval; assumption.
  - intros hp a cnt acc OK G. apply t_detach_sem; assumption.
Qed.

Lemma step_pcompact st x tr : inv st -> step_ok st (OPCompact x tr).
Proof.
  intros I.
  apply (tpl_step st (OPCompact x tr) x (fun hp a => t_ok hp a tr) (fun v => s_tok v tr)
           (fun hp a => p_compact hp a tr) (fun h v => s_pcompact h v tr)); auto.
  - intros hp a OK. apply t_ok_aval; assumption.
  - intros hp a cnt acc OK G. apply p_compact_sem; assumption.
Qed.

Lemma step_pswap st x tr p1 p2 : inv st -> step_ok st (OPSwap x tr p1 p2).
Proof.
  intros I.
  apply (tpl_step st (OPSwap x tr p1 p2) x (fun hp a => t_okb hp a tr) (fun v => s_tokb v tr)
           (fun hp a => p_swap hp a tr false p1 p2) (fun h v => s_pswap h v tr p1 p2)); auto.
  - intros hp a OK. apply t_okb_aval; assumption.
  - intros hp a cnt acc OK G. apply p_swap_sem; assumption.
Qed.

Lemma step_mset st x ks tr key val : inv st -> step_ok st (OMSet x ks tr key val).
Proof.
  intros I.
  apply (tpl_step st (OMSet x ks tr key val) x
           (fun hp a => t_ok hp a tr && (length key =? ks) && (ks + length val =? tr))
           (fun v => s_tok v tr && (length key =? ks) && (ks + length val =? tr))
           (fun hp a => m_set hp a ks tr key val) (fun h v => s_mset h v ks tr key val)); auto.
  - intros hp a OK. rewrite (t_ok_aval hp a tr OK). reflexivity.
  - intros hp a cnt acc OK G. apply andb_prop in G. destruct G as [G12 G3]. apply andb_prop in G12. destruct G12 as [G1 G2].
    apply Nat.eqb_eq in G2, G3. apply m_set_sem; assumption.
Qed.

(* get / offset / unused / map::get / map::values: nothing changes; what they return is a function of the value *)
Lemma step_tread st x : inv st -> step_ok st (OTRead x).
Proof.
  intros I. arr_guards I st x Hx Hs.
  unfold step_ok, step, sstep. cbn [target is_slice_op].
  rewrite abs_length, (proj2 (Nat.ltb_lt _ _) Hx), Hs, nth_abs, (absh_arr _ _ Hs). cbn [negb Bool.eqb D fst snd vis].
  split; [discriminate|]. split; [exact I|]. rewrite lset_abs_same by assumption. reflexivity.
Qed.

(* ------------------------------------------------------------------ further C++ entry points of mpt++/array.cpp *)
Lemma step_xsetval st x tr d : inv st -> step_ok st (OXSetVal x tr d).
Proof.
  intros I. arr_guards I st x Hx Hs.
  eapply (arr_step st (OXSetVal x tr d) false _ (fun h => s_xsetval (aval (sheap st) (hbuf (hnd st x))) tr d));
    auto; [arr_eq_step Hx Hs | arr_eq_spec Hx Hs | ].
  intros cnt acc. apply x_set_val_sem.
Qed.

Lemma step_xsetlen st x n : inv st -> step_ok st (OXSetLen x n).
Proof.
  intros I.
  apply (step_direct st (OXSetLen x n) x (fun b => x_set_len b n)
           (fun h v => s_xsetlen h v n)
           (fun hp a i b => lift hp a (do b1 <- x_set_len b n; Ok (hset hp i b1, a, 0)))); auto.
  - intros h v [->|Gd]; [reflexivity|]. unfold s_xsetlen. destruct v as [[t l]|]; [rewrite Gd|]; reflexivity.
  - intros. apply xsetlen_sem; auto.
Qed.

Lemma step_xsetref st x y : inv st -> step_ok st (OXSetRef x y).
Proof.
  intros I. arr_guards I st x Hx Hs.
  unfold step_ok, step, sstep. cbn [target is_slice_op].
  rewrite abs_length, (proj2 (Nat.ltb_lt _ _) Hx), Hs, !nth_abs, (absh_arr _ _ Hs). cbn [negb Bool.eqb].
  destruct (Nat.ltb_spec y (length (shnd st))) as [Hy|Hy]; cbn [negb orb].
  2:{ split; [discriminate|]. split; [exact I|reflexivity]. }
  destruct (hsl (hnd st y)) eqn:Hsy.
  { unfold absh. rewrite Hsy. cbn [fst]. split; [discriminate|]. split; [exact I|reflexivity]. }
  rewrite (absh_arr _ _ Hsy). cbn [fst snd].
  assert (Hk : forall j, hbuf (hnd st y) = Some j -> exists c, hget (sheap st) j = Some c).
  { intros j Hj. destruct (inv_get st y j I Hj) as [c [Ec _]]. eauto. }
  set (v := aval (sheap st) (hbuf (hnd st x))).
  assert (Ty : match hbuf (hnd st y) with
               | Some k => match hget (sheap st) k with Some c => negb (btr c =? 0) | None => false end
               | None => false end = true ->
               s_xsetref v (aval (sheap st) (hbuf (hnd st y))) = R v).
  { unfold s_xsetref, aval. destruct (hbuf (hnd st y)) as [j|]; [|discriminate].
    destruct (hget (sheap st) j) as [c|]; [|discriminate]. cbn [option_map bval]. intros ->. reflexivity. }
  assert (Tn : match hbuf (hnd st y) with
               | Some k => match hget (sheap st) k with Some c => negb (btr c =? 0) | None => false end
               | None => false end = false ->
               s_xsetref v (aval (sheap st) (hbuf (hnd st y))) = D (aval (sheap st) (hbuf (hnd st y)))).
  { unfold s_xsetref, aval. destruct (hbuf (hnd st y)) as [j|]; [|reflexivity].
    destruct (hget (sheap st) j) as [c|]; [|reflexivity]. cbn [option_map bval]. intros ->. reflexivity. }
  destruct (match hbuf (hnd st y) with
            | Some k => match hget (sheap st) k with Some c => negb (btr c =? 0) | None => false end
            | None => false end) eqn:T.
  { rewrite (Ty eq_refl). cbn [R fst snd]. split; [discriminate|]. split; [exact I|].
    subst v. rewrite lset_abs_same by assumption. reflexivity. }
  rewrite (Tn eq_refl).
  pose proof (ref_assign_sound st x (hbuf (hnd st y)) (hsl (hnd st x)) (hoff (hnd st x)) (hlen (hnd st x)) I Hx Hk) as Rf.
  cbn zeta in Rf. destruct (ref_assign (sheap st) (hbuf (hnd st x)) (hbuf (hnd st y))) as [hp1 a1].
  cbn [fst snd] in Rf. destruct Rf as [Ea [I' [F V]]]. subst a1.
  split; [discriminate|]. split; [exact I'|]. unfold upd_arr.
  rewrite (abs_frame st x hp1 _ Hx F). rewrite absh_arr by exact Hs. cbn [hbuf D fst snd vis].
  f_equal. f_equal. f_equal. unfold aval. destruct (hbuf (hnd st y)) as [j|]; [|reflexivity].
  exact (eq_sym (V j eq_refl)).
Qed.

Lemma step_xslcopy st x t : inv st -> step_ok st (OXSliceCopy x t).
Proof.
  intros I. slice_guards I st x Hx Hs.
  unfold step_ok, step, sstep. cbn [target is_slice_op].
  rewrite abs_length, (proj2 (Nat.ltb_lt _ _) Hx), Hs, !nth_abs, (absh_sl _ _ Hs). cbn [negb Bool.eqb].
  destruct (Nat.ltb_spec t (length (shnd st))) as [Hy|Hy]; cbn [negb orb].
  2:{ split; [discriminate|]. split; [exact I|reflexivity]. }
  destruct (hsl (hnd st t)) eqn:Hsy.
  2:{ unfold absh. rewrite Hsy. cbn [fst negb]. split; [discriminate|]. split; [exact I|reflexivity]. }
  rewrite (absh_sl _ _ Hsy). cbn [fst snd negb].
  assert (Hk : forall j, hbuf (hnd st t) = Some j -> exists c, hget (sheap st) j = Some c).
  { intros j Hj. destruct (inv_get st t j I Hj) as [c [Ec _]]. eauto. }
  set (h' := fun a1 : arr => match hbuf (hnd st t) with
                             | Some _ => mkh a1 true (hoff (hnd st t)) (hlen (hnd st t))
                             | None => mkh a1 true 0 0 end).
  pose proof (ref_assign_sound st x (hbuf (hnd st t)) true (hoff (h' None)) (hlen (h' None)) I Hx Hk) as Rf.
  cbn zeta in Rf. destruct (ref_assign (sheap st) (hbuf (hnd st x)) (hbuf (hnd st t))) as [hp1 a1].
  cbn [fst snd] in Rf. destruct Rf as [Ea [I' [F V]]]. subst a1.
  assert (Eh : mkh (hbuf (hnd st t)) true (hoff (h' None)) (hlen (h' None)) = h' (hbuf (hnd st t))).
  { subst h'. cbn beta. destruct (hbuf (hnd st t)); reflexivity. }
  rewrite Eh in I'. subst h'. cbn beta in *.
  split; [discriminate|]. split; [exact I'|].
  rewrite (abs_frame st x hp1 _ Hx F). cbn [s_xslcopy D fst snd vis]. f_equal. f_equal.
  destruct (hbuf (hnd st t)) as [j|] eqn:Ey.
  - rewrite absh_sl by reflexivity. cbn [hbuf hoff hlen]. f_equal.
    symmetry. apply (wval_hval _ _ _ _ _ (V j eq_refl)).
  - rewrite absh_sl by reflexivity. reflexivity.
Qed.

Lemma step_xslset st x d ok : inv st -> step_ok st (OXSliceSet x d ok).
Proof.
  intros I. slice_guards I st x Hx Hs.
  unfold step_ok, step, sstep. cbn [target is_slice_op].
  rewrite abs_length, (proj2 (Nat.ltb_lt _ _) Hx), Hs, !nth_abs, (absh_sl _ _ Hs). cbn [negb Bool.eqb].
  unfold s_xslset. destruct ok; cbn [negb].
  2:{ cbn [R fst snd]. split; [discriminate|]. split; [exact I|]. rewrite lset_abs_same_sl by assumption. reflexivity. }
  pose proof (x_set_sem (sheap st) (hbuf (hnd st x)) d (inv_aok st x I)) as Sem.
  destruct (x_set (sheap st) (hbuf (hnd st x)) d) as [hp1 a1 n|hp1 a1|]; cbn [ares_ok] in Sem; [| |contradiction].
  - destruct Sem as [T Sp].
    destruct (ptrans_sound st x _ hp1 a1 (mkh a1 true 0 (length d)) I Hx eq_refl T eq_refl) as [I' F].
    split; [discriminate|]. split; [exact I'|].
    rewrite (abs_frame st x hp1 _ Hx F), absh_sl by reflexivity. cbn [hbuf hoff hlen D fst snd vis].
    assert (Av : aval hp1 a1 = Some (0, d)) by (unfold s_xset, D in Sp; congruence).
    rewrite wval_window, Av. unfold window. cbn [skipn]. rewrite firstn_all. reflexivity.
  - destruct Sem as [T [Sp AV]]. unfold s_xset, D in Sp. discriminate Sp.
Qed.

Theorem cow_step_all st o : inv st -> step_ok st o.
Proof.
  intros I. destruct o;
    auto using step_append, step_insert, step_set, step_slice, step_clone, step_reduce,
               step_bufinsert, step_bufcut, step_bufset, step_new, step_flags,
               step_reserve, step_printf, step_string, step_mkslice, step_write,
               step_xassign, step_xappend, step_xset, step_xsetstr, step_xassign_slice, step_xmkslice,
               step_xshift, step_xtrim, step_xsetref, step_xsetval, step_xsetlen, step_xslcopy, step_xslset, step_tnew, step_tinsert, step_tstore, step_treserve, step_tresize,
               step_tdetach, step_tread, step_pcompact, step_pswap, step_mset.
Qed.

(* ------------------------------------------------------------------ the statements of Properties.v *)
Theorem cow_step st o : inv st ->
  let '(st', out) := step st o in
  out <> OFault /\ inv st' /\ sstep (abs st) o (hint_of st o out) = (abs st', vis out).
Proof. intros I. exact (cow_step_all st o I). Qed.

Theorem cow_others st o y : inv st -> y <> target o -> view (fst (step st o)) y = view st y.
Proof. intros I. apply others_unchanged_gen. exact (cow_step_all st o I). Qed.

Theorem cow_histories ops st : inv st ->
  run_abs st ops = srun st (abs st) ops /\
  Forall (fun r => snd r <> OFault /\ inv (fst r)) (run st ops).
Proof.
  intros I. apply (histories_gen (fun _ => true)); auto.
  - intros s o Is _. exact (cow_step_all s o Is).
  - clear. induction ops; simpl; auto.
Qed.

Theorem refused_unchanged st o : inv st ->
  snd (step st o) = ORefused \/ snd (step st o) = OGuard -> abs (fst (step st o)) = abs st.
Proof. intros I. apply refused_unchanged_gen. exact (cow_step_all st o I). Qed.

Theorem model_no_fault st o : inv st -> snd (step st o) <> OFault.
Proof.
  intros I. pose proof (cow_step_all st o I) as S. unfold step_ok in S.
  destruct (step st o) as [st' out]. tauto.
Qed.

Theorem ref_inv ops n m :
  Forall (fun r => forall i b, hget (sheap (fst r)) i = Some b -> bref b = count_refs (shnd (fst r)) i)
         (run (init n m) ops).
Proof.
  destruct (cow_histories ops (init n m) (init_inv n m)) as [_ F].
  eapply Forall_impl; [|exact F]. intros r [_ I] i b E. apply ref_inv_of_inv; assumption.
Qed.

(* ------------------------------------------------------------------ the class templates in plain vector terms *)
(* get / offset / unused / map::get / map::values do not change the state *)
Theorem tpl_read_only st x : fst (step st (OTRead x)) = st.
Proof.
  unfold step. cbn [target is_slice_op].
  destruct (negb (x <? length (shnd st))); [reflexivity|].
  destruct (negb (Bool.eqb (hsl (hnd st x)) false)); reflexivity.
Qed.

(* what a handle reads is the byte vector of its value: every read-only method is a function of the value *)
Theorem view_is_value st x : view st x = svec (snd (nth x (abs st) (false, None))).
Proof. apply view_abs. Qed.

(* typed_array<T>::insert(pos, value) / unique_array<T>::insert(pos): the handle reads the vector with the element
   inserted at element position p (gap zero filled, nothing lost behind it), or the call is refused and the handle
   reads what it read before; a position before the first element is refused *)
Theorem tpl_insert_value st x tr uq pos d :
  inv st -> x < length (shnd st) -> hsl (hnd st x) = false ->
  t_ok (sheap st) (hbuf (hnd st x)) tr = true -> length d = tr ->
  let '(st', out) := step st (OTInsert x tr uq pos d) in
  match t_at (length (view st x) / tr) pos with
  | None => out = ORefused /\ view st' x = view st x
  | Some p => (accepted out = true /\ view st' x = ins (view st x) (p * tr) d) \/
              (out = ORefused /\ view st' x = view st x)
  end.
Proof.
  intros I Hx Hs T Ld. pose proof (cow_step_all st (OTInsert x tr uq pos d) I) as S. unfold step_ok in S.
  destruct (step st (OTInsert x tr uq pos d)) as [st' out]. destruct S as [_ [_ E]].
  unfold sstep in E. cbn [target is_slice_op] in E.
  rewrite abs_length, (proj2 (Nat.ltb_lt _ _) Hx), nth_abs, (absh_arr _ _ Hs) in E. cbn [negb Bool.eqb] in E.
  rewrite <- (t_ok_aval _ _ tr (inv_aok st x I)), T, Ld, Nat.eqb_refl in E. cbn [andb negb] in E.
  assert (Vx : view st x = svec (aval (sheap st) (hbuf (hnd st x)))).
  { rewrite view_abs, nth_abs, (absh_arr _ _ Hs). reflexivity. }
  assert (V' : forall w o, (lset (abs st) x (false, w), o) = (abs st', vis out) -> view st' x = svec w /\ vis out = o).
  { intros w o H. inversion H as [[H1 H2]]. split; [|reflexivity]. rewrite view_abs, <- H1, nth_lset, Nat.eqb_refl.
    rewrite abs_length, (proj2 (Nat.ltb_lt _ _) Hx). reflexivity. }
  rewrite Vx. unfold s_tinsert in E.
  destruct (t_at (length (svec (aval (sheap st) (hbuf (hnd st x)))) / tr) pos) as [p|].
  - destruct (blocked _ _); cbn [R D fst snd] in E.
    + right. destruct (V' _ _ E) as [V O]. split; [destruct out; cbn [vis] in O; congruence|exact V].
    + left. destruct (V' _ _ E) as [V O]. split; [destruct out; cbn [vis] in O; try discriminate; reflexivity|exact V].
  - cbn [R D fst snd] in E. destruct (V' _ _ E) as [V O]. split; [destruct out; cbn [vis] in O; congruence|exact V].
Qed.
