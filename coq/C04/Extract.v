(* Extraction of the executable model and specification of C04 (ExtrOcamlBasic only). *)
From MptV Require Import Base.Mem C04.ArrayModel C04.ArraySpec C04.ArrayEnc.
Require Import ExtrOcamlBasic.
Extraction "c04_model.ml" run srun step init abs invb view hget alloc_size
  target accepted svec elem_at offset_of unused_of map_get map_values
  erun e0 e_view.
