(* C04/ArrayHeap.v — heap, handle and reference-count lemmas; the invariant;
   private transitions of one array and their soundness (frame + invariant). *)
From MptV Require Import Base.Mem Base.Tactics C04.ArrayModel C04.ArraySpec.
Local Open Scope nat_scope.
Local Open Scope bool_scope.

(* ------------------------------------------------------------------ lset *)
Lemma length_lset {A} (l : list A) i v : length (lset l i v) = length l.
Proof. revert i; induction l as [|x l IH]; intros [|i]; simpl; auto. Qed.

Lemma nth_error_lset {A} (l : list A) i v j :
  nth_error (lset l i v) j = if (j =? i) && (i <? length l) then Some v else nth_error l j.
Proof.
  revert i j; induction l as [|x l IH]; intros i j.
  - destruct i, j; simpl; rewrite ?andb_false_r; reflexivity.
  - destruct i as [|i], j as [|j]; simpl; try reflexivity.
    rewrite IH. reflexivity.
Qed.

Lemma nth_lset {A} (l : list A) i v j d :
  nth j (lset l i v) d = if (j =? i) && (i <? length l) then v else nth j l d.
Proof.
  revert i j; induction l as [|x l IH]; intros i j.
  - destruct i, j; simpl; rewrite ?andb_false_r; reflexivity.
  - destruct i as [|i], j as [|j]; simpl; try reflexivity.
    rewrite IH. reflexivity.
Qed.

Lemma lset_same {A} (l : list A) i d : lset l i (nth i l d) = l.
Proof. revert i; induction l as [|x l IH]; intros [|i]; simpl; f_equal; auto. Qed.

Lemma lset_lset {A} (l : list A) i v w : lset (lset l i v) i w = lset l i w.
Proof. revert i; induction l as [|x l IH]; intros [|i]; simpl; f_equal; auto. Qed.

Lemma lset_app_end {A} (l : list A) x v : lset (l ++ [x]) (length l) v = l ++ [v].
Proof. induction l; simpl; f_equal; auto. Qed.

Lemma lset_app_l {A} (l r : list A) i v : i < length l -> lset (l ++ r) i v = lset l i v ++ r.
Proof. revert i; induction l as [|x l IH]; intros [|i] H; simpl in *; try lia; f_equal. apply IH; lia. Qed.

Lemma map_lset {A B} (f : A -> B) (l : list A) i v : map f (lset l i v) = lset (map f l) i (f v).
Proof. revert i; induction l as [|x l IH]; intros [|i]; simpl; f_equal; auto. Qed.

(* ------------------------------------------------------------------ heap access *)
Lemma hget_lt hp i b : hget hp i = Some b -> i < length hp.
Proof.
  unfold hget. destruct (nth_error hp i) eqn:E; [|discriminate].
  intros _. apply nth_error_Some. congruence.
Qed.

Lemma hget_ge hp i : length hp <= i -> hget hp i = None.
Proof. intros H. unfold hget. rewrite (proj2 (nth_error_None hp i) H). reflexivity. Qed.

Lemma hget_hset hp i b j :
  hget (hset hp i b) j = if (j =? i) && (i <? length hp) then Some b else hget hp j.
Proof. unfold hget, hset. rewrite nth_error_lset. destruct ((j =? i) && (i <? length hp)); reflexivity. Qed.

Lemma hget_hfree hp i j :
  hget (hfree hp i) j = if (j =? i) && (i <? length hp) then None else hget hp j.
Proof. unfold hget, hfree. rewrite nth_error_lset. destruct ((j =? i) && (i <? length hp)); reflexivity. Qed.

Lemma hget_app hp tl j : j < length hp -> hget (hp ++ tl) j = hget hp j.
Proof. intros H. unfold hget. rewrite nth_error_app1 by assumption. reflexivity. Qed.

Lemma hget_app_r hp tl j : length hp <= j -> hget (hp ++ tl) j = hget tl (j - length hp).
Proof. intros H. unfold hget. rewrite nth_error_app2 by assumption. reflexivity. Qed.

Lemma hget_junk n j : hget (repeat None n) j = None.
Proof.
  unfold hget. destruct (nth_error (repeat None n) j) as [o|] eqn:E; [|reflexivity].
  apply nth_error_In, repeat_spec in E. subst. reflexivity.
Qed.

Lemma hget_fresh hp n b j :
  hget (hp ++ repeat None n ++ [Some b]) j =
  if j =? length hp + n then Some b else hget hp j.
Proof.
  destruct (Nat.eqb_spec j (length hp + n)) as [->|Hne].
  - rewrite hget_app_r by lia. rewrite hget_app_r by (rewrite repeat_length; lia).
    rewrite repeat_length. replace (length hp + n - length hp - n) with 0 by lia. reflexivity.
  - destruct (le_lt_dec (length hp) j).
    + rewrite hget_app_r by lia. rewrite (hget_ge hp) by lia.
      destruct (le_lt_dec (n) (j - length hp)).
      * rewrite hget_app_r by (rewrite repeat_length; lia). rewrite repeat_length.
        apply hget_ge. simpl. lia.
      * rewrite hget_app by (rewrite repeat_length; lia). apply hget_junk.
    + apply hget_app. assumption.
Qed.

Lemma length_hset hp i b : length (hset hp i b) = length hp.
Proof. apply length_lset. Qed.
Lemma length_hfree hp i : length (hfree hp i) = length hp.
Proof. apply length_lset. Qed.
Lemma length_hunref hp i : length (hunref hp i) = length hp.
Proof. unfold hunref. destruct (hget hp i); [destruct (bref b <=? 1)|]; auto using length_hset, length_hfree. Qed.
Lemma length_haddref hp i : length (haddref hp i) = length hp.
Proof. unfold haddref. destruct (hget hp i); auto using length_hset. Qed.

Definition unref_opt (hp : heap) (a : arr) : heap := match a with Some i => hunref hp i | None => hp end.
Lemma length_unref_opt hp a : length (unref_opt hp a) = length hp.
Proof. destruct a; simpl; auto using length_hunref. Qed.

Lemma hset_hset hp i b c : hset (hset hp i b) i c = hset hp i c.
Proof. apply lset_lset. Qed.
Lemma hfree_hset hp i b : hfree (hset hp i b) i = hfree hp i.
Proof. apply lset_lset. Qed.

(* value of a buffer as the handles see it *)
Definition bval (b : buf) : nat * list byte := (btr b, bview b).
Definition hval (hp : heap) (i : nat) : option (nat * list byte) := option_map bval (hget hp i).

Lemma hget_hunref hp i j :
  hget (hunref hp i) j =
  match hget hp i with
  | Some b => if j =? i then (if bref b <=? 1 then None else Some (set_ref b (bref b - 1))) else hget hp j
  | None => hget hp j
  end.
Proof.
  unfold hunref. destruct (hget hp i) as [b|] eqn:E; [|reflexivity].
  pose proof (hget_lt _ _ _ E) as Hl.
  destruct (bref b <=? 1).
  - rewrite hget_hfree. destruct (j =? i); simpl; [|reflexivity].
    rewrite (proj2 (Nat.ltb_lt _ _) Hl). reflexivity.
  - rewrite hget_hset. destruct (j =? i); simpl; [|reflexivity].
    rewrite (proj2 (Nat.ltb_lt _ _) Hl). reflexivity.
Qed.

Lemma hget_haddref hp i j :
  hget (haddref hp i) j =
  match hget hp i with
  | Some b => if j =? i then Some (set_ref b (bref b + 1)) else hget hp j
  | None => hget hp j
  end.
Proof.
  unfold haddref. destruct (hget hp i) as [b|] eqn:E; [|reflexivity].
  pose proof (hget_lt _ _ _ E) as Hl.
  rewrite hget_hset. destruct (j =? i); simpl; [|reflexivity].
  rewrite (proj2 (Nat.ltb_lt _ _) Hl). reflexivity.
Qed.

(* ------------------------------------------------------------------ reference counting of handles *)
Definition isb (a : arr) (i : nat) : nat :=
  match a with Some k => if k =? i then 1 else 0 | None => 0 end.

Definition dflt := mkh None false 0 0.

Lemma count_refs_cons h hs i : count_refs (h :: hs) i = isb (hbuf h) i + count_refs hs i.
Proof.
  unfold count_refs, isb. simpl. destruct (hbuf h) as [k|]; [destruct (k =? i)|]; reflexivity.
Qed.

Lemma count_lset hs x h' i : x < length hs ->
  count_refs (lset hs x h') i + isb (hbuf (nth x hs dflt)) i = count_refs hs i + isb (hbuf h') i.
Proof.
  revert x; induction hs as [|h hs IH]; intros [|x] H; simpl in H; try lia.
  - simpl lset. rewrite !count_refs_cons. simpl nth. lia.
  - simpl lset. rewrite !count_refs_cons. simpl nth. specialize (IH x ltac:(lia)). lia.
Qed.

Lemma count_ge hs x i : hbuf (nth x hs dflt) = Some i -> 1 <= count_refs hs i.
Proof.
  revert x; induction hs as [|h hs IH]; intros [|x] H; simpl in H; try discriminate.
  - rewrite count_refs_cons. unfold isb. rewrite H, Nat.eqb_refl. lia.
  - rewrite count_refs_cons. specialize (IH _ H). lia.
Qed.

Lemma count_two hs x y i : x <> y ->
  hbuf (nth x hs dflt) = Some i -> hbuf (nth y hs dflt) = Some i -> 2 <= count_refs hs i.
Proof.
  revert x y; induction hs as [|h hs IH]; intros [|x] [|y] Hne Hx Hy; simpl in *; try discriminate; try lia.
  - rewrite count_refs_cons. unfold isb. rewrite Hx, Nat.eqb_refl. pose proof (count_ge _ _ _ Hy). lia.
  - rewrite count_refs_cons. unfold isb at 1. rewrite Hy, Nat.eqb_refl. pose proof (count_ge _ _ _ Hx). lia.
  - rewrite count_refs_cons. specialize (IH x y ltac:(lia) Hx Hy). lia.
Qed.

(* ------------------------------------------------------------------ invariant *)
Definition buf_wf (b : buf) : Prop :=
  length (bdata b) = bsize b /\ bused b <= bsize b /\ (btr b <> 0 -> bused b mod btr b = 0).

Definition inv (st : state) : Prop :=
  forall i, match hget (sheap st) i with
            | Some b => buf_wf b /\ 1 <= bref b /\ count_refs (shnd st) i = bref b
            | None => count_refs (shnd st) i = 0
            end.

Lemma inv_get st x i : inv st -> hbuf (hnd st x) = Some i ->
  exists b, hget (sheap st) i = Some b /\ buf_wf b /\ 1 <= bref b /\ count_refs (shnd st) i = bref b.
Proof.
  intros I H. specialize (I i). pose proof (count_ge _ _ _ H) as C.
  destruct (hget (sheap st) i) as [b|]; [eauto|lia].
Qed.

(* ------------------------------------------------------------------ private transitions *)
Inductive ptrans (hp : heap) (a : arr) : heap -> arr -> Prop :=
| P_same : ptrans hp a hp a
| P_inplace i b b' : a = Some i -> hget hp i = Some b -> bref b = 1 -> bref b' = 1 -> buf_wf b' ->
    ptrans hp a (hset hp i b') (Some i)
| P_fresh n b' : bref b' = 1 -> buf_wf b' ->
    ptrans hp a (unref_opt hp a ++ repeat None n ++ [Some b']) (Some (length hp + n)).

Lemma hunref_private hp i b : hget hp i = Some b -> bref b = 1 -> hunref hp i = hfree hp i.
Proof. intros E R. unfold hunref. rewrite E, R. reflexivity. Qed.

Lemma ptrans_trans hp a hp1 a1 hp2 a2 :
  ptrans hp a hp1 a1 -> ptrans hp1 a1 hp2 a2 -> ptrans hp a hp2 a2.
Proof.
  intros T1 T2. destruct T1 as [|i b b' -> E R R' W|n b' R' W]; [assumption| |].
  - (* inplace; X *)
    inversion T2 as [|i2 b2 b2' Ea E2 R2 R2' W2|n2 b2' R2' W2]; subst.
    + eapply P_inplace; eauto.
    + inversion Ea; subst i2. rewrite hset_hset. eapply P_inplace; eauto.
    + simpl unref_opt. rewrite length_hset.
      assert (Hg : hget (hset hp i b') i = Some b').
      { rewrite hget_hset, Nat.eqb_refl. rewrite (proj2 (Nat.ltb_lt _ _) (hget_lt _ _ _ E)). reflexivity. }
      rewrite (hunref_private _ _ _ Hg R'), hfree_hset, <- (hunref_private _ _ _ E R).
      apply (P_fresh hp (Some i) n2 b2'); assumption.
  - (* fresh; X *)
    set (X := unref_opt hp a) in *.
    assert (LX : length X = length hp) by apply length_unref_opt.
    assert (Hg : hget (X ++ repeat None n ++ [Some b']) (length hp + n) = Some b').
    { rewrite hget_fresh, LX, Nat.eqb_refl. reflexivity. }
    inversion T2 as [|i2 b2 b2' Ea E2 R2 R2' W2|n2 b2' R2' W2]; subst.
    + apply P_fresh; assumption.
    + inversion Ea; subst i2.
      replace (hset (X ++ repeat None n ++ [Some b']) (length hp + n) b2')
        with (X ++ repeat None n ++ [Some b2']).
      * apply P_fresh; assumption.
      * unfold hset. rewrite app_assoc. rewrite app_assoc.
        replace (length hp + n) with (length (X ++ repeat None n)) by (rewrite app_length, repeat_length; lia).
        rewrite lset_app_end. reflexivity.
    + simpl unref_opt. rewrite (hunref_private _ _ _ Hg R').
      replace (hfree (X ++ repeat None n ++ [Some b']) (length hp + n)) with (X ++ repeat None (n + 1)).
      * rewrite <- app_assoc.
        replace (repeat None (n + 1) ++ repeat None n2 ++ [Some b2'])
          with (repeat (@None buf) (n + 1 + n2) ++ [Some b2']).
        2:{ rewrite (repeat_app _ (n + 1) n2), <- app_assoc. reflexivity. }
        replace (length (X ++ repeat None n ++ [Some b']) + n2) with (length hp + (n + 1 + n2)).
        2:{ rewrite !app_length, repeat_length. simpl. lia. }
        apply P_fresh; assumption.
      * unfold hfree. rewrite app_assoc.
        replace (length hp + n) with (length (X ++ repeat None n)) by (rewrite app_length, repeat_length; lia).
        rewrite lset_app_end. rewrite repeat_app, app_assoc. reflexivity.
Qed.

(* the private buffer reached by a transition (when the transition is not the identity) *)
Lemma ptrans_target hp a hp' j : ptrans hp a hp' (Some j) ->
  (hp' = hp /\ a = Some j) \/ exists b', hget hp' j = Some b' /\ bref b' = 1 /\ buf_wf b'.
Proof.
  intros T. inversion T as [|i b b' Ea E R R' W|n b' R' W]; subst.
  - left; auto.
  - right. exists b'. rewrite hget_hset, Nat.eqb_refl, (proj2 (Nat.ltb_lt _ _) (hget_lt _ _ _ E)). auto.
  - right. exists b'. rewrite hget_fresh, length_unref_opt, Nat.eqb_refl. auto.
Qed.

(* ------------------------------------------------------------------ soundness of transitions *)
Lemma buf_wf_set_ref b n : buf_wf (set_ref b n) <-> buf_wf b.
Proof. unfold buf_wf; simpl; tauto. Qed.

Lemma absh_hval hp hp' h :
  (forall k, hbuf h = Some k -> hval hp' k = hval hp k) -> absh hp' h = absh hp h.
Proof.
  intros H. unfold absh. destruct (hbuf h) as [k|]; [|reflexivity].
  specialize (H k eq_refl). unfold hval in H.
  destruct (hget hp' k) as [b'|], (hget hp k) as [b|]; simpl in H; try discriminate; [|reflexivity].
  unfold bval in H. inversion H as [[Ht Hv]]. rewrite Ht, Hv. reflexivity.
Qed.

Lemma lset_map_ext {A B} (f g : A -> B) (l : list A) x v d :
  (forall y, y <> x -> y < length l -> f (nth y l d) = g (nth y l d)) ->
  lset (map f l) x v = lset (map g l) x v.
Proof.
  revert x; induction l as [|h l IH]; intros x H; [reflexivity|].
  destruct x as [|x]; simpl.
  - f_equal. apply map_ext_in. intros e He. destruct (In_nth _ _ d He) as [n [Hn <-]].
    apply (H (S n)); simpl; lia.
  - f_equal.
    + apply (H 0); simpl; lia.
    + apply IH. intros y Hy Hl. apply (H (S y)); simpl; lia.
Qed.

Definition frame (st : state) (x : nat) (hp' : heap) : Prop :=
  forall y k, y <> x -> hbuf (hnd st y) = Some k -> hval hp' k = hval (sheap st) k.

Lemma abs_frame st x hp' h' : x < length (shnd st) -> frame st x hp' ->
  abs (mkst hp' (lset (shnd st) x h')) = lset (abs st) x (absh hp' h').
Proof.
  intros Hx F. unfold abs. simpl. rewrite map_lset.
  apply (lset_map_ext _ _ _ _ _ dflt). intros y Hy Hl.
  apply absh_hval. intros k Hk. apply (F y k Hy Hk).
Qed.

Lemma ptrans_sound st x a hp' a' h' :
  inv st -> x < length (shnd st) -> hbuf (hnd st x) = a -> ptrans (sheap st) a hp' a' -> hbuf h' = a' ->
  inv (mkst hp' (lset (shnd st) x h')) /\ frame st x hp'.
Proof.
  intros I Hx Ha T Hh'. destruct st as [hp hs]. simpl in *. unfold hnd in Ha. simpl in Ha.
  assert (C : forall i, count_refs (lset hs x h') i + isb a i = count_refs hs i + isb a' i).
  { intros i. rewrite <- Ha, <- Hh'. apply count_lset. assumption. }
  destruct T as [|i0 b b' -> E R R' W|n b' R' W].
  - split.
    + intros i. specialize (C i). specialize (I i). simpl in *.
      replace (count_refs (lset hs x h') i) with (count_refs hs i) by lia. exact I.
    + intros y k _ _. reflexivity.
  - split.
    + intros i. specialize (C i). pose proof (I i) as Ii. simpl in *.
      rewrite hget_hset. destruct (Nat.eqb_spec i i0) as [->|Hne]; simpl.
      * rewrite (proj2 (Nat.ltb_lt _ _) (hget_lt _ _ _ E)). rewrite E in Ii. intuition lia.
      * replace (count_refs (lset hs x h') i) with (count_refs hs i) by lia. exact Ii.
    + intros y k Hy Hk. unfold hnd in Hk; simpl in *. unfold hval. rewrite hget_hset.
      destruct (Nat.eqb_spec k i0) as [->|Hne]; simpl; [|reflexivity].
      exfalso. pose proof (count_two hs x y i0 ltac:(lia) Ha Hk) as C2.
      specialize (I i0). simpl in I. rewrite E in I. lia.
  - assert (La : forall i0, a = Some i0 -> exists b, hget hp i0 = Some b /\ buf_wf b /\ 1 <= bref b /\ count_refs hs i0 = bref b).
    { intros i0 ->. apply (inv_get (mkst hp hs) x i0 I Ha). }
    split.
    + intros i. specialize (C i). pose proof (I i) as Ii. simpl in *.
      rewrite hget_fresh, length_unref_opt.
      destruct (Nat.eqb_spec i (length hp + n)) as [->|Hne].
      * rewrite (hget_ge hp) in Ii by lia.
        assert (isb a (length hp + n) = 0).
        { destruct a as [i0|]; [|reflexivity]. destruct (La i0 eq_refl) as [b [E _]].
          apply hget_lt in E. simpl. destruct (Nat.eqb_spec i0 (length hp + n)); [lia|reflexivity]. }
        simpl in C. rewrite Nat.eqb_refl in C. intuition lia.
      * destruct (Nat.eqb_spec (length hp + n) i) as [|_]; [lia|].
        destruct a as [i0|]; simpl unref_opt.
        -- rewrite hget_hunref. destruct (La i0 eq_refl) as [b [E [Wb [Rb Cb]]]]. rewrite E.
           simpl in C. destruct (Nat.eqb_spec i i0) as [->|Hne2].
           ++ rewrite Nat.eqb_refl in C. destruct (Nat.leb_spec (bref b) 1); [lia|].
              rewrite buf_wf_set_ref. simpl. intuition lia.
           ++ destruct (Nat.eqb_spec i0 i); [lia|].
              replace (count_refs (lset hs x h') i) with (count_refs hs i) by lia. exact Ii.
        -- simpl in C. replace (count_refs (lset hs x h') i) with (count_refs hs i) by lia. exact Ii.
    + intros y k Hy Hk. unfold hnd in Hk; simpl in *. unfold hval.
      destruct (inv_get (mkst hp hs) y k I Hk) as [bk [Ek [Wk [Rk Ck]]]]. simpl in *.
      pose proof (hget_lt _ _ _ Ek) as Lk.
      rewrite hget_fresh, length_unref_opt. destruct (Nat.eqb_spec k (length hp + n)); [lia|].
      destruct a as [i0|]; simpl unref_opt; [|reflexivity].
      rewrite hget_hunref. destruct (La i0 eq_refl) as [b [E [Wb [Rb Cb]]]]. rewrite E.
      destruct (Nat.eqb_spec k i0) as [->|Hne2]; [|reflexivity].
      pose proof (count_two hs x y i0 ltac:(lia) Ha Hk) as C2.
      destruct (Nat.leb_spec (bref b) 1); [lia|]. rewrite Ek in E. inversion E; subst. rewrite Ek. reflexivity.
Qed.

(* dropping the reference of handle x *)
Lemma drop_sound st x a h' :
  inv st -> x < length (shnd st) -> hbuf (hnd st x) = a -> hbuf h' = None ->
  inv (mkst (unref_opt (sheap st) a) (lset (shnd st) x h')) /\ frame st x (unref_opt (sheap st) a).
Proof.
  intros I Hx Ha Hh'. destruct st as [hp hs]. simpl in *. unfold hnd in Ha. simpl in Ha.
  assert (C : forall i, count_refs (lset hs x h') i + isb a i = count_refs hs i).
  { intros i. pose proof (count_lset hs x h' i Hx) as H. unfold dflt in H. rewrite Ha, Hh' in H. simpl in H. lia. }
  destruct a as [i0|]; simpl unref_opt.
  - destruct (inv_get (mkst hp hs) x i0 I Ha) as [b [E [Wb [Rb Cb]]]]. simpl in *.
    split.
    + intros i. specialize (C i). pose proof (I i) as Ii. simpl in *.
      rewrite hget_hunref, E. destruct (Nat.eqb_spec i i0) as [->|Hne].
      * rewrite Nat.eqb_refl in C. destruct (Nat.leb_spec (bref b) 1); [lia|].
        rewrite buf_wf_set_ref. simpl. intuition lia.
      * destruct (Nat.eqb_spec i0 i); [lia|].
        replace (count_refs (lset hs x h') i) with (count_refs hs i) by lia. exact Ii.
    + intros y k Hy Hk. unfold hnd in Hk; simpl in *. unfold hval. rewrite hget_hunref, E.
      destruct (Nat.eqb_spec k i0) as [->|Hne2]; [|reflexivity].
      pose proof (count_two hs x y i0 ltac:(lia) Ha Hk) as C2.
      destruct (Nat.leb_spec (bref b) 1); [lia|]. rewrite E. reflexivity.
  - split.
    + intros i. specialize (C i). pose proof (I i) as Ii. simpl in *.
      replace (count_refs (lset hs x h') i) with (count_refs hs i) by lia. exact Ii.
    + intros y k _ _. reflexivity.
Qed.

(* handle x takes a further reference on the live buffer k *)
Lemma share_sound st x a k c h' :
  inv st -> x < length (shnd st) -> hbuf (hnd st x) = a -> hget (sheap st) k = Some c -> a <> Some k ->
  hbuf h' = Some k ->
  inv (mkst (unref_opt (haddref (sheap st) k) a) (lset (shnd st) x h')) /\
  frame st x (unref_opt (haddref (sheap st) k) a) /\
  hval (unref_opt (haddref (sheap st) k) a) k = hval (sheap st) k.
Proof.
  intros I Hx Ha Ek Hne Hh'. destruct st as [hp hs]. simpl in *. unfold hnd in Ha. simpl in Ha.
  assert (C : forall i, count_refs (lset hs x h') i + isb a i = count_refs hs i + isb (Some k) i).
  { intros i. rewrite <- Ha, <- Hh'. apply count_lset. assumption. }
  assert (G : forall j, hget (unref_opt (haddref hp k) a) j =
              match a with
              | Some i0 => if j =? i0 then
                             match hget hp i0 with
                             | Some b => if bref b <=? 1 then None else Some (set_ref b (bref b - 1))
                             | None => None end
                           else if j =? k then Some (set_ref c (bref c + 1)) else hget hp j
              | None => if j =? k then Some (set_ref c (bref c + 1)) else hget hp j
              end).
  { intros j. destruct a as [i0|]; simpl unref_opt.
    - assert (i0 <> k) by congruence.
      rewrite hget_hunref, !hget_haddref, Ek. destruct (Nat.eqb_spec i0 k); [lia|].
      destruct (hget hp i0) as [b|] eqn:E.
      + destruct (j =? i0); reflexivity.
      + destruct (Nat.eqb_spec j i0) as [->|]; [|reflexivity].
        destruct (Nat.eqb_spec i0 k); [lia|]. exact E.
    - rewrite hget_haddref, Ek. reflexivity. }
  split; [|split].
  - intros i. specialize (C i). pose proof (I i) as Ii. simpl in *. rewrite G.
    pose proof (I k) as Ik. simpl in Ik. rewrite Ek in Ik.
    destruct a as [i0|].
    + assert (i0 <> k) by congruence.
      destruct (inv_get (mkst hp hs) x i0 I Ha) as [b [E [Wb [Rb Cb]]]]. simpl in *. rewrite E.
      destruct (Nat.eqb_spec i i0) as [->|Hne1].
      * rewrite Nat.eqb_refl in C. destruct (Nat.eqb_spec k i0); [lia|].
        destruct (Nat.leb_spec (bref b) 1); [lia|]. rewrite buf_wf_set_ref. simpl. intuition lia.
      * destruct (Nat.eqb_spec i0 i); [lia|]. destruct (Nat.eqb_spec i k) as [->|Hne2].
        -- rewrite Nat.eqb_refl in C. rewrite buf_wf_set_ref. simpl. intuition lia.
        -- destruct (Nat.eqb_spec k i); [lia|].
           replace (count_refs (lset hs x h') i) with (count_refs hs i) by lia. exact Ii.
    + simpl in C. destruct (Nat.eqb_spec i k) as [->|Hne2].
      * rewrite Nat.eqb_refl in C. rewrite buf_wf_set_ref. simpl. intuition lia.
      * destruct (Nat.eqb_spec k i); [lia|].
        replace (count_refs (lset hs x h') i) with (count_refs hs i) by lia. exact Ii.
  - intros y j Hy Hj. unfold hnd in Hj; simpl in *. unfold hval. rewrite G.
    destruct a as [i0|].
    + destruct (inv_get (mkst hp hs) x i0 I Ha) as [b [E [Wb [Rb Cb]]]]. simpl in *. rewrite E.
      destruct (Nat.eqb_spec j i0) as [->|Hne1].
      * pose proof (count_two hs x y i0 ltac:(lia) Ha Hj) as C2.
        destruct (Nat.leb_spec (bref b) 1); [lia|]. rewrite E. reflexivity.
      * destruct (Nat.eqb_spec j k) as [->|]; [rewrite Ek|]; reflexivity.
    + destruct (Nat.eqb_spec j k) as [->|]; [rewrite Ek|]; reflexivity.
  - unfold hval. rewrite G. destruct a as [i0|].
    + assert (i0 <> k) by congruence. destruct (Nat.eqb_spec k i0); [lia|].
      rewrite Nat.eqb_refl, Ek. reflexivity.
    + rewrite Nat.eqb_refl, Ek. reflexivity.
Qed.

(* a header update that keeps reference count and value (flags) *)
Lemma reval_sound st x i b b' h' :
  inv st -> x < length (shnd st) -> hbuf (hnd st x) = Some i -> hget (sheap st) i = Some b ->
  bref b' = bref b -> buf_wf b' -> bval b' = bval b -> hbuf h' = Some i ->
  inv (mkst (hset (sheap st) i b') (lset (shnd st) x h')) /\ frame st x (hset (sheap st) i b') /\
  hval (hset (sheap st) i b') i = hval (sheap st) i.
Proof.
  intros I Hx Ha E R W V Hh'. destruct st as [hp hs]. simpl in *. unfold hnd in Ha. simpl in Ha.
  assert (C : forall j, count_refs (lset hs x h') j = count_refs hs j).
  { intros j. pose proof (count_lset hs x h' j Hx) as H. unfold dflt in H. rewrite Ha, Hh' in H. lia. }
  pose proof (hget_lt _ _ _ E) as L.
  split; [|split].
  - intros j. pose proof (I j) as Ij. simpl in *. rewrite (C j), hget_hset.
    destruct (Nat.eqb_spec j i) as [->|]; simpl; [|exact Ij].
    rewrite (proj2 (Nat.ltb_lt _ _) L). rewrite E in Ij. intuition lia.
  - intros y k _ _. unfold hval. simpl. rewrite hget_hset.
    destruct (Nat.eqb_spec k i) as [->|]; simpl; [|reflexivity].
    rewrite (proj2 (Nat.ltb_lt _ _) L), E. simpl. f_equal. exact V.
  - unfold hval. rewrite hget_hset, Nat.eqb_refl, (proj2 (Nat.ltb_lt _ _) L), E. simpl. f_equal. exact V.
Qed.
