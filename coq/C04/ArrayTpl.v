(* C04/ArrayTpl.v — the class templates of mptcore/array.h (typed_array, unique_array, pointer_array, map):
   every method is a private transition of the target handle whose new value is the vector operation of
   the specification (compositions of detach / mpt_buffer_insert / stores, ArrayOps.v). *)
From MptV Require Import Base.Mem Base.Tactics C04.ArrayModel C04.ArraySpec C04.ArrayHeap C04.ArrayBuf C04.ArrayOps.
Local Open Scope nat_scope.
Local Open Scope bool_scope.

(* ------------------------------------------------------------------ element arithmetic *)
Lemma div_mul_exact n t : t <> 0 -> n mod t = 0 -> n / t * t = n.
Proof. intros Ht Hm. pose proof (Nat.div_mod n t Ht). lia. Qed.

Lemma div_le_mul n t c : t <> 0 -> n mod t = 0 -> n / t <= c -> n <= c * t.
Proof. intros Ht Hm Hc. rewrite <- (div_mul_exact n t Ht Hm). apply Nat.mul_le_mono_r. exact Hc. Qed.

Lemma lt_div_mul p n t : t <> 0 -> n mod t = 0 -> p < n / t -> p * t + t <= n.
Proof.
  intros Ht Hm Hp. rewrite <- (div_mul_exact n t Ht Hm) at 1.
  replace (p * t + t) with (S p * t) by (simpl; lia). apply Nat.mul_le_mono_r. lia.
Qed.

(* ------------------------------------------------------------------ the handle against its value *)
Lemma t_ok_aval hp a tr : aok hp a -> t_ok hp a tr = s_tok (aval hp a) tr.
Proof.
  intros OK. unfold t_ok, s_tok, aval. destruct a as [i|]; [|reflexivity].
  destruct (OK i eq_refl) as [b [E _]]. rewrite E. reflexivity.
Qed.

Lemma t_okb_aval hp a tr : aok hp a -> t_okb hp a tr = s_tokb (aval hp a) tr.
Proof.
  intros OK. unfold t_okb, s_tokb. rewrite (t_ok_aval hp a tr OK). destruct a as [i|]; [|reflexivity].
  destruct (OK i eq_refl) as [b [E _]]. unfold aval. rewrite E. reflexivity.
Qed.

Lemma t_len_aval hp a tr : aok hp a -> t_len hp a tr = length (svec (aval hp a)) / tr.
Proof.
  intros OK. unfold t_len, aval. destruct a as [i|].
  - destruct (OK i eq_refl) as [b [E [W _]]]. rewrite E. cbn [option_map bval svec]. rewrite (bview_length _ W). reflexivity.
  - cbn [svec length]. destruct tr; reflexivity.
Qed.

(* a handle of element type tr: facts about its buffer *)
Lemma t_ok_some hp i b tr : hget hp i = Some b -> buf_wf b -> t_ok hp (Some i) tr = true ->
  tr <> 0 /\ btr b = tr /\ bused b mod tr = 0.
Proof.
  intros E [L [U A]] T. unfold t_ok in T. rewrite E in T. apply andb_prop in T. destruct T as [T1 T2].
  apply negb_true_iff, Nat.eqb_neq in T1. apply Nat.eqb_eq in T2.
  split; [exact T1|]. split; [exact T2|]. rewrite <- T2. apply A. congruence.
Qed.

Lemma t_ok_nz hp a tr : t_ok hp a tr = true -> tr <> 0.
Proof. unfold t_ok. intros T. apply andb_prop in T. destruct T as [T _]. apply negb_true_iff, Nat.eqb_neq in T. exact T. Qed.

(* ------------------------------------------------------------------ detach through the handle *)
Definition tpriv_ok (hp : heap) (a : arr) (tr cnt : nat) (hp1 : heap) (j : nat) (b1 : buf) : Prop :=
  hget hp1 j = Some b1 /\ ptrans hp a hp1 (Some j) /\ buf_wf b1 /\ bref b1 = 1 /\ bimm b1 = false /\
  btr b1 = tr /\ bview b1 = svec (aval hp a) /\ cnt * tr <= bsize b1.

Lemma tpriv_aval hp a tr cnt hp1 j b1 : tpriv_ok hp a tr cnt hp1 j b1 ->
  aval hp1 (Some j) = Some (tr, svec (aval hp a)).
Proof. intros [E [_ [_ [_ [_ [T [V _]]]]]]]. unfold aval. rewrite E. cbn [option_map]. unfold bval. rewrite T, V. reflexivity. Qed.

Lemma t_ok_val hp a tr : aok hp a -> t_ok hp a tr = true -> a <> None -> aval hp a = Some (tr, svec (aval hp a)).
Proof.
  intros OK T N. destruct a as [i|]; [|contradiction]. destruct (OK i eq_refl) as [b [E [W _]]].
  destruct (t_ok_some hp i b tr E W T) as [_ [Tr _]]. unfold aval. rewrite E. cbn [option_map svec]. unfold bval. rewrite Tr. reflexivity.
Qed.

Lemma t_private_sem hp a tr uq cnt c acc : aok hp a -> t_ok hp a tr = true -> t_len hp a tr <= cnt ->
  match t_private hp a tr uq cnt with
  | ADone hp1 (Some j) _ => (exists b1, tpriv_ok hp a tr cnt hp1 j b1) /\
                            blocked (hint_at hp a c acc) (svec (aval hp a)) = false
  | ADone _ None _ => False
  | ARefused hp1 a1 => hp1 = hp /\ a1 = a /\ blocked (hint_at hp a c acc) (svec (aval hp a)) = true
  | AFault => False
  end.
Proof.
  intros OK T Hc. unfold t_private. destruct a as [i|].
  - destruct (OK i eq_refl) as [b [E [W R]]]. destruct (t_ok_some hp i b tr E W T) as [Tn [Tr Al]].
    unfold t_len in Hc. rewrite E in Hc.
    assert (Hu : bused b <= cnt * tr) by (apply div_le_mul; assumption).
    pose proof (detach_sem hp i b (cnt * tr) E W R (or_introl Hu)) as D.
    assert (AV : svec (aval hp (Some i)) = bview b) by (unfold aval; rewrite E; reflexivity).
    rewrite AV, (blocked_blk hp i b c acc E W). unfold blk.
    destruct (detach hp i (cnt * tr)) as [[hp1 j]|e|]; [| |contradiction].
    + destruct D as [b1 [E1 [P [[R1 [I1 [N1 [T1 [V1 [U1 [S1 W1]]]]]]] NB]]]].
      split; [|exact NB]. exists b1. unfold tpriv_ok. rewrite AV. repeat (split; [solve [auto | congruence]|]). exact S1.
    + auto.
  - unfold halloc. set (nb := set_tr (new_buf (cnt * tr) false uq) tr).
    assert (Wn : buf_wf nb) by (apply buf_wf_set_tr_empty; [apply new_buf_wf|reflexivity]).
    split; [|reflexivity]. exists nb. unfold tpriv_ok.
    split; [rewrite hget_app_r by lia; rewrite Nat.sub_diag; reflexivity|].
    split; [apply (P_fresh0 hp None); [reflexivity|exact Wn]|].
    split; [exact Wn|]. split; [reflexivity|]. split; [reflexivity|]. split; [reflexivity|].
    split; [reflexivity|]. subst nb. bsimp. apply alloc_size_ge.
Qed.

(* ------------------------------------------------------------------ unique_array::reserve / detach *)
Lemma t_reserve_sem hp a tr uq len cnt acc : aok hp a -> t_ok hp a tr = true ->
  ares_ok hp a (t_reserve hp a tr uq len) (s_treserve (hint_at hp a cnt acc) (aval hp a) tr len) false.
Proof.
  intros OK T. unfold t_reserve, s_treserve. rewrite (t_len_aval hp a tr OK).
  set (l := svec (aval hp a)). destruct (t_at (length l / tr) len) as [n|].
  2:{ cbn [ares_ok]. split; [apply P_same|auto]. }
  pose proof (t_private_sem hp a tr uq (Nat.max n (length l / tr)) cnt acc OK T) as P.
  rewrite (t_len_aval hp a tr OK) in P. fold l in P. specialize (P (Nat.le_max_r _ _)).
  destruct (t_private hp a tr uq _) as [hp1 [j|] m|hp1 a1|]; try contradiction.
  - destruct P as [[b1 P] B]. rewrite B. cbn [ares_ok]. split; [apply P|].
    rewrite (tpriv_aval _ _ _ _ _ _ _ P). reflexivity.
  - destruct P as [-> [-> B]]. rewrite B. cbn [ares_ok]. split; [apply P_same|auto].
Qed.

Lemma t_detach_sem hp a tr uq cnt acc : aok hp a -> t_ok hp a tr = true ->
  ares_ok hp a (t_detach hp a tr uq) (s_tdetach (hint_at hp a cnt acc) (aval hp a) tr) false.
Proof.
  intros OK T. unfold t_detach, s_tdetach.
  pose proof (t_private_sem hp a tr uq (t_len hp a tr) cnt acc OK T (Nat.le_refl _)) as P.
  destruct (t_private hp a tr uq _) as [hp1 [j|] m|hp1 a1|]; try contradiction.
  - destruct P as [[b1 P] B]. rewrite B. cbn [ares_ok]. split; [apply P|].
    rewrite (tpriv_aval _ _ _ _ _ _ _ P). reflexivity.
  - destruct P as [-> [-> B]]. rewrite B. cbn [ares_ok]. split; [apply P_same|auto].
Qed.

(* ------------------------------------------------------------------ typed_array::insert / unique_array::insert *)
(* mpt_buffer_insert + the store of the element on a private buffer whose alignment fits *)
Lemma insert_at_fits hp a hp1 j b1 pos d :
  ptrans hp a hp1 (Some j) -> hget hp1 j = Some b1 -> buf_wf b1 -> bref b1 = 1 -> bimm b1 = false ->
  ins_total b1 pos (length d) <= bsize b1 ->
  (btr b1 =? 0) || al3 (btr b1) (bused b1) pos (length d) = true ->
  ares_ok hp a (insert_at hp1 j pos d) (D (Some (btr b1, ins (bview b1) pos d))) false.
Proof.
  intros T E W R I S Al. unfold insert_at. rewrite E.
  pose proof (buffer_insert_sem b1 pos d W) as B.
  assert (IC : ins_cond b1 pos (length d) = true).
  { unfold ins_cond. rewrite I, (proj2 (Nat.leb_le _ _) S). cbn [negb andb].
    unfold al3 in Al. rewrite Al. apply orb_true_r. }
  destruct (buffer_insert b1 pos (length d)) as [b2| |]; [|congruence|contradiction].
  destruct B as [_ [K B]]. cbn [bind]. rewrite store_hset by (apply (hget_lt _ _ _ E)).
  destruct (wr (bdata b2) pos d) as [m| |]; try contradiction. destruct B as [W2 V2].
  cbn [bind lift ares_ok]. destruct K as [K1 [K2 [K3 [K4 K5]]]].
  destruct (inplace_done hp a hp1 j b1 (set_data b2 m) T E R ltac:(bsimp; lia) W2) as [T2 AV2].
  split; [exact T2|]. rewrite AV2. unfold D, bval. rewrite V2. bsimp. rewrite K4. reflexivity.
Qed.

Lemma t_insert_sem hp a tr uq pos d cnt acc : aok hp a -> t_ok hp a tr = true -> length d = tr ->
  ares_ok hp a (t_insert hp a tr uq pos d) (s_tinsert (hint_at hp a cnt acc) (aval hp a) tr pos d) false.
Proof.
  intros OK T Ld. pose proof (t_ok_nz _ _ _ T) as Tn. unfold t_insert, s_tinsert. rewrite (t_len_aval hp a tr OK).
  set (l := svec (aval hp a)). destruct (t_at (length l / tr) pos) as [p|].
  2:{ cbn [ares_ok]. split; [apply P_same|auto]. }
  pose proof (t_private_sem hp a tr uq (Nat.max p (length l / tr) + 1) cnt acc OK T) as P.
  rewrite (t_len_aval hp a tr OK) in P. fold l in P. specialize (P ltac:(lia)).
  destruct (t_private hp a tr uq _) as [hp1 [j|] m|hp1 a1|]; try contradiction.
  - destruct P as [[b1 [E [Pt [W [R [I [Tr [V S]]]]]]]] B]. rewrite B. fold l in V.
    assert (Lm : length l mod tr = 0).
    { rewrite <- V, (bview_length _ W). destruct W as [_ [_ A]]. rewrite <- Tr. apply A. congruence. }
    assert (Ul : bused b1 = length l) by (rewrite <- V, (bview_length _ W); reflexivity).
    pose proof (insert_at_fits hp a hp1 j b1 (p * tr) d Pt E W R I) as H. rewrite Tr, V in H. apply H.
    + unfold ins_total. rewrite Ul, Ld.
      assert (length l <= Nat.max p (length l / tr) * tr).
      { apply div_le_mul; auto. lia. }
      assert (p * tr <= Nat.max p (length l / tr) * tr) by (apply Nat.mul_le_mono_r; lia).
      destruct (Nat.ltb_spec (p * tr) (length l)); lia.
    + rewrite (proj2 (Nat.eqb_neq _ _) Tn). cbn [orb]. unfold al3, aligned.
      rewrite Ul, Lm, Ld, (mul_mod_0 p tr Tn), Nat.mod_same by assumption. reflexivity.
  - destruct P as [-> [-> B]]. rewrite B. cbn [ares_ok]. split; [apply P_same|auto].
Qed.

(* ------------------------------------------------------------------ unique_array::set (and the value store of map::set) *)
Lemma t_store_sem hp a tr uq pos off d cnt acc : aok hp a -> t_ok hp a tr = true -> off + length d <= tr ->
  ares_ok hp a (t_store hp a tr uq pos off d) (s_tstore (hint_at hp a cnt acc) (aval hp a) tr pos off d) false.
Proof.
  intros OK T Ld. pose proof (t_ok_nz _ _ _ T) as Tn. unfold t_store, s_tstore. rewrite (t_len_aval hp a tr OK).
  set (l := svec (aval hp a)). destruct (t_at (length l / tr) pos) as [p|].
  2:{ cbn [ares_ok]. split; [apply P_same|auto]. }
  destruct (Nat.leb_spec (length l / tr) p) as [Hp|Hp].
  { cbn [ares_ok]. split; [apply P_same|auto]. }
  pose proof (t_private_sem hp a tr uq (length l / tr) cnt acc OK T) as P.
  rewrite (t_len_aval hp a tr OK) in P. fold l in P. specialize (P (Nat.le_refl _)).
  destruct (t_private hp a tr uq _) as [hp1 [j|] m|hp1 a1|]; try contradiction.
  - destruct P as [[b1 [E [Pt [W [R [I [Tr [V S]]]]]]]] B]. rewrite B. fold l in V.
    assert (Lm : length l mod tr = 0).
    { rewrite <- V, (bview_length _ W). destruct W as [_ [_ A]]. rewrite <- Tr. apply A. congruence. }
    assert (Ul : bused b1 = length l) by (rewrite <- V, (bview_length _ W); reflexivity).
    pose proof (lt_div_mul p (length l) tr Tn Lm Hp) as Hin.
    pose proof (store_view b1 (p * tr + off) d W ltac:(lia)) as SV.
    unfold store. rewrite E. destruct (wr (bdata b1) (p * tr + off) d) as [m'| |]; try contradiction.
    destruct SV as [W2 V2]. cbn [bind lift ares_ok].
    destruct (inplace_done hp a hp1 j b1 (set_data b1 m') Pt E R ltac:(bsimp; lia) W2) as [T2 AV2].
    split; [exact T2|]. rewrite AV2. unfold D, bval. rewrite V2, V. bsimp. rewrite Tr. reflexivity.
  - destruct P as [-> [-> B]]. rewrite B. cbn [ares_ok]. split; [apply P_same|auto].
Qed.

(* ------------------------------------------------------------------ content<T>::set_length, unique_array::resize *)
Lemma t_set_length_sem hp a hp1 j b1 tr n : tr <> 0 ->
  ptrans hp a hp1 (Some j) -> hget hp1 j = Some b1 -> buf_wf b1 -> bref b1 = 1 -> bimm b1 = false -> btr b1 = tr ->
  n * tr <= bsize b1 ->
  ares_ok hp a (t_set_length hp1 j tr n) (D (Some (tr, resizev (bview b1) (n * tr)))) false.
Proof.
  intros Tn Pt E W R I Tr S. unfold t_set_length. rewrite E.
  pose proof W as [L [U A]].
  assert (Au : bused b1 mod tr = 0) by (rewrite <- Tr; apply A; congruence).
  destruct (Nat.eqb_spec (n * tr) (bused b1)) as [Eq|Ne].
  - cbn [ares_ok]. split; [exact Pt|]. unfold D, aval. rewrite E. cbn [option_map]. unfold bval, resizev.
    rewrite Tr, (bview_length _ W), Eq, Nat.sub_diag. cbn [zeros repeat]. rewrite app_nil_r.
    rewrite firstn_all2 by (rewrite (bview_length _ W); lia). reflexivity.
  - destruct (Nat.ltb_spec (n * tr) (bused b1)) as [Lt|Ge].
    + rewrite Tr, (proj2 (Nat.eqb_neq _ _) Tn). unfold aligned. rewrite Au, (mul_mod_0 n tr Tn). cbn [negb andb Nat.eqb].
      set (b2 := set_used b1 (n * tr)).
      assert (W2 : buf_wf b2).
      { subst b2. unfold buf_wf; bsimp. split; [exact L|]. split; [lia|]. intros _. rewrite Tr. apply mul_mod_0. exact Tn. }
      cbn [ares_ok].
      destruct (inplace_done hp a hp1 j b1 b2 Pt E R ltac:(subst b2; bsimp; lia) W2) as [T2 AV2].
      split; [exact T2|]. rewrite AV2. unfold D, bval. subst b2. bsimp. rewrite Tr. repeat f_equal.
      unfold resizev, bview; bsimp. rewrite firstn_firstn, Nat.min_l by lia.
      rewrite firstn_length, Nat.min_l by lia.
      replace (n * tr - bused b1) with 0 by lia. cbn [zeros repeat]. rewrite app_nil_r. reflexivity.
    + pose proof (buffer_insert_sem b1 (n * tr) [] W) as B. cbn [length] in B.
      assert (IC : ins_cond b1 (n * tr) 0 = true).
      { unfold ins_cond, ins_total. rewrite (proj2 (Nat.ltb_ge _ _) Ge), Nat.add_0_r, I, (proj2 (Nat.leb_le _ _) S).
        cbn [negb andb]. rewrite Tr. unfold aligned. rewrite Au, (mul_mod_0 n tr Tn), Nat.mod_0_l by exact Tn.
        cbn [Nat.eqb andb]. rewrite !orb_true_r. reflexivity. }
      destruct (buffer_insert b1 (n * tr) 0) as [b2| |]; [|congruence|contradiction].
      destruct B as [_ [K B]]. cbn [bind lift ares_ok].
      assert (Lb : n * tr + 0 <= length (bdata b2)).
      { destruct (wr (bdata b2) (n * tr) []) eqn:Ew; try contradiction.
        apply (wr_fault (bdata b2) (n * tr) []). rewrite Ew. discriminate. }
      rewrite wr_sem in B by exact Lb. cbn [length app] in B. rewrite Nat.add_0_r, firstn_skipn in B.
      replace (set_data b2 (bdata b2)) with b2 in B by (destruct b2; reflexivity).
      destruct B as [W2 V2]. destruct K as [K1 [K2 [K3 [K4 K5]]]].
      destruct (inplace_done hp a hp1 j b1 b2 Pt E R ltac:(lia) W2) as [T2 AV2].
      split; [exact T2|]. rewrite AV2. unfold D, bval. rewrite V2, K4, Tr. repeat f_equal.
      unfold ins, resizev. rewrite (bview_length _ W), (proj2 (Nat.ltb_ge _ _) Ge).
      rewrite firstn_all2 by (rewrite (bview_length _ W); lia). rewrite app_nil_r. reflexivity.
Qed.

Lemma t_resize_sem hp a tr uq len cnt acc : aok hp a -> t_ok hp a tr = true ->
  ares_ok hp a (t_resize hp a tr uq len) (s_tresize (hint_at hp a cnt acc) (aval hp a) tr len) false.
Proof.
  intros OK T. pose proof (t_ok_nz _ _ _ T) as Tn. unfold t_resize, t_reserve, s_tresize.
  rewrite (t_len_aval hp a tr OK). set (l := svec (aval hp a)).
  destruct (t_at (length l / tr) len) as [n|] eqn:At.
  2:{ cbn [ares_ok]. split; [apply P_same|auto]. }
  pose proof (t_private_sem hp a tr uq (Nat.max n (length l / tr)) cnt acc OK T) as P.
  rewrite (t_len_aval hp a tr OK) in P. fold l in P. specialize (P (Nat.le_max_r _ _)).
  destruct (t_private hp a tr uq _) as [hp1 [j|] m|hp1 a1|]; try contradiction.
  - destruct P as [[b1 P] B]. rewrite B. pose proof P as [E [Pt [W [R [I [Tr [V S]]]]]]]. fold l in V.
    assert (Keep : ares_ok hp a (ADone hp1 (Some j) m) (D (Some (tr, l))) false).
    { cbn [ares_ok]. split; [exact Pt|]. rewrite (tpriv_aval _ _ _ _ _ _ _ P). reflexivity. }
    assert (Len : ares_ok hp a (t_set_length hp1 j tr n) (D (Some (tr, resizev l (n * tr)))) false).
    { rewrite <- V. apply t_set_length_sem; auto.
      eapply Nat.le_trans; [|exact S]. apply Nat.mul_le_mono_r. lia. }
    destruct len; [exact Len|exact Keep|exact Len].
  - destruct P as [-> [-> B]]. rewrite B. cbn [ares_ok]. split; [apply P_same|auto].
Qed.

(* ------------------------------------------------------------------ construction *)
Lemma t_new_sem hp a tr uq n : ares_ok hp a (t_new hp a tr uq n) (s_tnew tr) false.
Proof.
  unfold t_new, s_tnew, halloc. set (nb := set_tr (new_buf (n * tr) false uq) tr).
  assert (Wn : buf_wf nb) by (apply buf_wf_set_tr_empty; [apply new_buf_wf|reflexivity]).
  fold (unref_opt hp a). rewrite length_unref_opt. cbn [ares_ok]. split.
  - apply P_fresh0; [reflexivity|exact Wn].
  - unfold D, aval. rewrite hget_app_r by (rewrite length_unref_opt; lia).
    rewrite length_unref_opt, Nat.sub_diag. reflexivity.
Qed.

(* ------------------------------------------------------------------ pointer_array::compact *)
Lemma compactv_length n tr l : n * tr <= length l ->
  exists k, k <= n /\ length (compactv n tr l) = k * tr.
Proof.
  revert l. induction n as [|n IH]; intros l H.
  - exists 0. split; [lia|reflexivity].
  - cbn [compactv]. destruct (IH (skipn tr l)) as [k [Hk Hl]].
    { rewrite skipn_length. simpl in H. lia. }
    assert (Lf : length (firstn tr l) = tr) by (rewrite firstn_length; simpl in H; lia).
    destruct (all_zero (firstn tr l)).
    + exists k. split; [lia|]. cbn [app]. exact Hl.
    + exists (S k). split; [lia|]. rewrite app_length, Lf, Hl. simpl. lia.
Qed.

Lemma p_compact_sem hp a tr cnt acc : aok hp a -> t_ok hp a tr = true ->
  ares_ok hp a (p_compact hp a tr) (s_pcompact (hint_at hp a cnt acc) (aval hp a) tr) false.
Proof.
  intros OK T. unfold p_compact, s_pcompact. destruct a as [i|].
  2:{ cbn [aval ares_ok]. split; [apply P_same|reflexivity]. }
  destruct (OK i eq_refl) as [b [E [W R]]]. destruct (t_ok_some hp i b tr E W T) as [Tn [Tr Al]].
  rewrite E. cbn [aval]. rewrite E. cbn [option_map]. unfold bval.
  assert (Hm : him (hint_at hp (Some i) cnt acc) = bimm b) by (unfold hint_at; rewrite E; reflexivity).
  rewrite Hm. destruct (bimm b) eqn:Im.
  { cbn [ares_ok]. split; [apply P_same|]. unfold D, aval. rewrite E. reflexivity. }
  rewrite (bview_length _ W). set (keep := compactv (bused b / tr) tr (bview b)).
  destruct (compactv_length (bused b / tr) tr (bview b)) as [k [Hk Lk]].
  { rewrite (bview_length _ W), div_mul_exact by assumption. lia. }
  fold keep in Lk. pose proof W as [L [U A]].
  assert (Kle : length keep <= bused b).
  { rewrite Lk. rewrite <- (div_mul_exact (bused b) tr Tn Al). apply Nat.mul_le_mono_r. exact Hk. }
  destruct (shared b) eqn:Sh.
  - (* shared: a new block *)
    pose proof (alloc_size_ge (length keep)) as Ha. bsimp.
    rewrite wr_sem by (rewrite repeat_length; lia). cbn [bind lift ares_ok].
    set (nb := set_used (set_data _ _) _).
    assert (Wn : buf_wf nb).
    { subst nb. unfold buf_wf; bsimp. split; [len_simp; lia|]. split; [lia|]. intros _. rewrite Lk. apply mul_mod_0. exact Tn. }
    split.
    + apply (P_fresh0 hp (Some i)); [reflexivity|exact Wn].
    + unfold D, aval. rewrite hget_app_r by (rewrite length_hunref; lia). rewrite length_hunref, Nat.sub_diag.
      cbn [hget nth_error option_map]. unfold bval. subst nb. bsimp. rewrite Tr. repeat f_equal.
      unfold bview; bsimp. cbn [firstn app]. list_eq.
  - (* private: in place *)
    assert (R1 : bref b = 1). { unfold shared in Sh. apply Nat.leb_gt in Sh. lia. }
    rewrite wr_sem by lia. cbn [bind lift ares_ok].
    set (b2 := set_used (set_data b _) _).
    assert (W2 : buf_wf b2).
    { subst b2. unfold buf_wf; bsimp. split; [len_simp; lia|]. split; [lia|]. intros _. rewrite Tr, Lk. apply mul_mod_0. exact Tn. }
    destruct (inplace_done hp (Some i) hp i b b2 (P_same _ _) E R1 ltac:(subst b2; bsimp; lia) W2) as [T2 AV2].
    split; [exact T2|]. rewrite AV2. unfold D, bval. subst b2. bsimp. repeat f_equal.
    unfold bview; bsimp. cbn [firstn app]. list_eq.
Qed.

(* ------------------------------------------------------------------ pointer_array::swap *)
Lemma elem_view b off n : buf_wf b -> off + n <= bused b ->
  slice off n (bdata b) = firstn n (skipn off (bview b)).
Proof. intros [L [U A]] H. unfold slice, bview. list_eq. Qed.

Lemma p_swap_sem hp a tr uq p1 p2 cnt acc : aok hp a -> t_okb hp a tr = true ->
  ares_ok hp a (p_swap hp a tr uq p1 p2) (s_pswap (hint_at hp a cnt acc) (aval hp a) tr p1 p2) false.
Proof.
  intros OK Tb. assert (N : a <> None) by (destruct a; [discriminate|discriminate Tb]).
  assert (T : t_ok hp a tr = true) by (destruct a; [exact Tb|contradiction]).
  pose proof (t_ok_nz _ _ _ T) as Tn. unfold p_swap, s_pswap. rewrite (t_len_aval hp a tr OK).
  set (l := svec (aval hp a)).
  pose proof (t_private_sem hp a tr uq (length l / tr) cnt acc OK T) as P.
  rewrite (t_len_aval hp a tr OK) in P. fold l in P. specialize (P (Nat.le_refl _)).
  destruct (t_private hp a tr uq _) as [hp1 [j|] m|hp1 a1|]; try contradiction.
  2:{ destruct P as [-> [-> B]]. rewrite B. cbn [ares_ok]. split; [apply P_same|auto]. }
  destruct P as [[b1 P] B]. rewrite B. pose proof P as [E [Pt [W [Rf [I [Tr [V S]]]]]]]. fold l in V.
  assert (Ref : ares_ok hp a (ARefused hp1 (Some j)) (R (aval hp a)) false).
  { cbn [ares_ok]. split; [exact Pt|]. split; [reflexivity|].
    rewrite (tpriv_aval _ _ _ _ _ _ _ P). symmetry. apply t_ok_val; assumption. }
  destruct p1 as [q1|]; [|exact Ref]. destruct p2 as [q2|]; [|exact Ref].
  destruct (Nat.leb_spec (length l / tr) q1) as [H1|H1]; cbn [orb]; [exact Ref|].
  destruct (Nat.leb_spec (length l / tr) q2) as [H2|H2]; [exact Ref|].
  rewrite E.
  assert (Lm : length l mod tr = 0).
  { rewrite <- V, (bview_length _ W). destruct W as [_ [_ A]]. rewrite <- Tr. apply A. congruence. }
  assert (Ul : bused b1 = length l) by (rewrite <- V, (bview_length _ W); reflexivity).
  pose proof (lt_div_mul q1 (length l) tr Tn Lm H1) as In1.
  pose proof (lt_div_mul q2 (length l) tr Tn Lm H2) as In2.
  pose proof W as [L [U A]].
  rewrite !rd_ok by lia. cbn [bind].
  rewrite (elem_view b1 (q1 * tr) tr W) by lia. rewrite (elem_view b1 (q2 * tr) tr W) by lia. rewrite V.
  set (e1 := firstn tr (skipn (q1 * tr) l)). set (e2 := firstn tr (skipn (q2 * tr) l)).
  assert (L1 : length e1 = tr) by (subst e1; rewrite firstn_length, skipn_length; lia).
  assert (L2 : length e2 = tr) by (subst e2; rewrite firstn_length, skipn_length; lia).
  pose proof (store_view b1 (q1 * tr) e2 W ltac:(lia)) as S1.
  destruct (wr (bdata b1) (q1 * tr) e2) as [m1| |]; try contradiction. destruct S1 as [W1 V1]. cbn [bind].
  pose proof (store_view (set_data b1 m1) (q2 * tr) e1 W1 ltac:(bsimp; lia)) as S2. bsimp_in S2.
  destruct (wr m1 (q2 * tr) e1) as [m2| |]; try contradiction. destruct S2 as [W2 V2]. cbn [bind lift ares_ok].
  change (set_data (set_data b1 m1) m2) with (set_data b1 m2) in W2, V2.
  destruct (inplace_done hp a hp1 j b1 (set_data b1 m2) Pt E Rf ltac:(bsimp; lia) W2) as [T2 AV2].
  split; [exact T2|]. rewrite AV2. unfold D, bval. rewrite V2, V1, V. bsimp. rewrite Tr. reflexivity.
Qed.

(* ------------------------------------------------------------------ map::set *)
Lemma m_set_sem hp a ks tr key val cnt acc : aok hp a -> t_ok hp a tr = true ->
  length key = ks -> ks + length val = tr ->
  ares_ok hp a (m_set hp a ks tr key val) (s_mset (hint_at hp a cnt acc) (aval hp a) ks tr key val) false.
Proof.
  intros OK T Lk Lv. unfold m_set, s_mset.
  assert (El : match a with
               | Some i => match hget hp i with Some b => bview b | None => [] end
               | None => [] end = svec (aval hp a)).
  { unfold aval. destruct a as [i|]; [|reflexivity]. destruct (hget hp i); reflexivity. }
  rewrite El. destruct (find_key _ 0 ks tr _ key) as [i|].
  - apply t_store_sem; auto. lia.
  - apply t_insert_sem; auto. rewrite app_length. lia.
Qed.
