(* C04/ArrayEncProofs.v — properties of the encode_array specification (C04/ArrayEnc.v) *)
From MptV Require Import Base.Mem C04.ArrayEnc.
Require Import List Arith Bool Lia.
Import ListNotations.
Local Open Scope nat_scope.

Lemma skipn_skipn {A} (a b : nat) (l : list A) : skipn a (skipn b l) = skipn (b + a) l.
Proof.
  revert l. induction b as [|b IH]; intros l; [reflexivity|].
  destruct l as [|h t]; [rewrite !skipn_nil; reflexivity|]. cbn [skipn Nat.add]. apply IH.
Qed.

(* the two counters describe a part of the array *)
Definition einv (v : enc) : Prop := edone v + escr v <= length (ebytes v).

Lemma e_parts v : einv v ->
  ebytes v = firstn (e_consumed v) (ebytes v) ++ e_view v ++ e_pending v.
Proof.
  intros I. unfold e_view, e_pending.
  rewrite <- (firstn_skipn (e_consumed v) (ebytes v)) at 1. f_equal.
  rewrite <- (firstn_skipn (edone v) (skipn (e_consumed v) (ebytes v))) at 1. f_equal.
  rewrite skipn_skipn. reflexivity.
Qed.

Lemma e_view_length v : einv v -> length (e_view v) = edone v.
Proof. unfold einv, e_view, e_consumed. intros I. rewrite firstn_length, skipn_length. lia. Qed.

Lemma e_pending_length v : einv v -> length (e_pending v) = escr v.
Proof. unfold einv, e_pending, e_consumed. intros I. rewrite skipn_length. lia. Qed.

(* ---- every method keeps the invariant *)
Lemma e_push_inv v d : einv v -> einv (fst (e_push v d)).
Proof.
  unfold e_push, einv. destruct (length d =? 0); cbn [fst ebytes edone escr]; [auto|].
  rewrite app_length. lia.
Qed.
Lemma e_finish_inv v : einv v -> einv (fst (e_finish v)).
Proof. unfold e_finish, einv. cbn [fst ebytes edone escr]. lia. Qed.
Lemma e_shift_inv v n : einv v -> einv (fst (e_shift v n)).
Proof.
  unfold e_shift, einv, e_consumed. intros I.
  destruct (n =? 0).
  - destruct (Nat.leb_spec (length (ebytes v)) (edone v + escr v)); cbn [fst ebytes edone escr]; [exact I|].
    rewrite skipn_length. lia.
  - destruct (edone v <? n); cbn [fst ebytes edone escr]; lia.
Qed.
Lemma e_pushmsg_inv v d1 d2 : einv v -> einv (fst (e_pushmsg v d1 d2)).
Proof. unfold e_pushmsg, einv. cbn [fst ebytes edone escr]. rewrite !app_length. lia. Qed.

(* ---- what the reader sees *)
(* data appended to the message in progress is not handed out, the finished data stays *)
Lemma e_push_view v d : einv v ->
  e_view (fst (e_push v d)) = e_view v /\ (snd (e_push v d) <> ERefused -> e_pending (fst (e_push v d)) = e_pending v ++ d).
Proof.
  unfold e_push, einv. intros I. destruct (length d =? 0) eqn:Z; cbn [fst snd]; [split; [reflexivity|congruence]|].
  unfold e_view, e_pending, e_consumed. cbn [ebytes edone escr]. rewrite app_length.
  replace (length (ebytes v) + length d - edone v - (escr v + length d)) with (length (ebytes v) - edone v - escr v) by lia.
  split.
  - rewrite skipn_app, firstn_app, skipn_length.
    replace (edone v - (length (ebytes v) - (length (ebytes v) - edone v - escr v))) with 0 by lia.
    replace (length (ebytes v) - edone v - escr v - length (ebytes v)) with 0 by lia.
    cbn [skipn firstn]. rewrite app_nil_r. reflexivity.
  - intros _. rewrite skipn_app. f_equal.
    replace (length (ebytes v) - edone v - escr v + edone v - length (ebytes v)) with 0 by lia. reflexivity.
Qed.

(* finishing the message hands it out behind the finished data *)
Lemma e_finish_view v : einv v -> e_view (fst (e_finish v)) = e_view v ++ e_pending v /\ e_pending (fst (e_finish v)) = [].
Proof.
  unfold e_finish, einv. intros I. cbn [fst]. unfold e_view, e_pending, e_consumed. cbn [ebytes edone escr]. split.
  - replace (length (ebytes v) - (edone v + escr v) - 0) with (length (ebytes v) - edone v - escr v) by lia.
    set (c := length (ebytes v) - edone v - escr v).
    rewrite <- (firstn_skipn (edone v) (firstn (edone v + escr v) (skipn c (ebytes v)))).
    rewrite firstn_firstn, Nat.min_l by lia. f_equal.
    rewrite firstn_all2 by (rewrite skipn_length; lia). rewrite skipn_skipn. f_equal; lia.
  - apply skipn_all2. lia.
Qed.

(* prepare changes nothing that can be read *)
Lemma e_prepare_same v n : fst (e_prepare v n) = v.
Proof. reflexivity. Qed.

(* shift(n), n > 0: the first n finished bytes are consumed, or the call is refused and nothing changes *)
Lemma e_shift_view v n : einv v -> n <> 0 ->
  match snd (e_shift v n) with
  | ERefused => fst (e_shift v n) = v /\ edone v < n
  | _ => e_view (fst (e_shift v n)) = skipn n (e_view v) /\ e_pending (fst (e_shift v n)) = e_pending v
  end.
Proof.
  unfold e_shift, einv. intros I Hn. rewrite (proj2 (Nat.eqb_neq _ _) Hn).
  destruct (Nat.ltb_spec (edone v) n); cbn [fst snd]; [split; [reflexivity|assumption]|].
  unfold e_view, e_pending, e_consumed. cbn [ebytes edone escr]. split.
  - rewrite skipn_firstn_comm, skipn_skipn. f_equal. f_equal. lia.
  - f_equal. lia.
Qed.

(* shift(0): the consumed bytes are dropped, finished data and message in progress stay;
   refused exactly when there is nothing to drop *)
Lemma e_compact_view v : einv v ->
  match snd (e_shift v 0) with
  | ERefused => fst (e_shift v 0) = v /\ e_consumed v = 0
  | _ => e_view (fst (e_shift v 0)) = e_view v /\ e_pending (fst (e_shift v 0)) = e_pending v /\
         e_consumed (fst (e_shift v 0)) = 0 /\ ebytes (fst (e_shift v 0)) = e_view v ++ e_pending v
  end.
Proof.
  unfold e_shift, einv. intros I. cbn [Nat.eqb].
  destruct (Nat.leb_spec (length (ebytes v)) (edone v + escr v)); cbn [fst snd].
  - split; [reflexivity|unfold e_consumed; lia].
  - assert (C : e_consumed (mkenc (skipn (e_consumed v) (ebytes v)) (edone v) (escr v)) = 0).
    { unfold e_consumed. cbn [ebytes edone escr]. rewrite skipn_length. lia. }
    unfold e_view, e_pending. rewrite C. cbn [ebytes edone escr skipn Nat.add].
    split; [reflexivity|]. split; [rewrite skipn_skipn; f_equal; lia|]. split; [reflexivity|].
    rewrite <- (firstn_skipn (edone v) (skipn (e_consumed v) (ebytes v))) at 1. f_equal.
    rewrite skipn_skipn. reflexivity.
Qed.

(* push(message): both parts are appended to the message in progress *)
Lemma e_pushmsg_view v d1 d2 : einv v ->
  e_view (fst (e_pushmsg v d1 d2)) = e_view v /\ e_pending (fst (e_pushmsg v d1 d2)) = e_pending v ++ d1 ++ d2.
Proof.
  unfold e_pushmsg, einv. intros I. cbn [fst]. unfold e_view, e_pending, e_consumed. cbn [ebytes edone escr].
  rewrite !app_length.
  replace (length (ebytes v) + (length d1 + length d2) - edone v - (escr v + length d1 + length d2))
    with (length (ebytes v) - edone v - escr v) by lia.
  split.
  - rewrite skipn_app, firstn_app, skipn_length.
    replace (edone v - (length (ebytes v) - (length (ebytes v) - edone v - escr v))) with 0 by lia.
    replace (length (ebytes v) - edone v - escr v - length (ebytes v)) with 0 by lia.
    cbn [skipn firstn]. rewrite app_nil_r. reflexivity.
  - rewrite skipn_app. f_equal.
    replace (length (ebytes v) - edone v - escr v + edone v - length (ebytes v)) with 0 by lia. reflexivity.
Qed.

(* ---- several objects: an operation changes its target only (copies are independent values) *)
Lemma nth_eset l i j v : nth j (eset l i v) e0 = if (j =? i) && (i <? length l) then v else nth j l e0.
Proof.
  revert i j. induction l as [|h t IH]; intros i j.
  - cbn [eset length]. rewrite Bool.andb_false_r. reflexivity.
  - destruct i as [|i]; destruct j as [|j]; cbn [eset nth length]; try reflexivity.
    rewrite IH. cbn [Nat.eqb]. replace (S i <? S (length t)) with (i <? length t) by reflexivity. reflexivity.
Qed.

Lemma eset_length l i v : length (eset l i v) = length l.
Proof. revert i. induction l as [|h t IH]; intros [|i]; cbn [eset length]; auto. Qed.

Theorem estep_others vs o y : y <> etarget o -> nth y (fst (estep vs o)) e0 = nth y vs e0.
Proof.
  intros Hy. unfold estep. destruct (negb (etarget o <? length vs)); [reflexivity|].
  assert (L : forall w, nth y (eset vs (etarget o) w) e0 = nth y vs e0).
  { intros w. rewrite nth_eset. rewrite (proj2 (Nat.eqb_neq _ _) Hy). reflexivity. }
  destruct o; cbn [fst]; try apply L.
  destruct (negb (f <? length vs)); [reflexivity|]. apply L.
Qed.

Definition all_inv (vs : list enc) : Prop := forall i, einv (nth i vs e0).

Lemma e0_inv : einv e0.
Proof. unfold einv, e0. cbn. lia. Qed.

Theorem estep_inv vs o : all_inv vs -> all_inv (fst (estep vs o)).
Proof.
  intros A. unfold estep. destruct (negb (etarget o <? length vs)); [exact A|].
  assert (L : forall w, einv w -> all_inv (eset vs (etarget o) w)).
  { intros w Iw i. rewrite nth_eset. destruct ((i =? etarget o) && (etarget o <? length vs)); [exact Iw|apply A]. }
  destruct o; cbn [fst].
  - apply L, e_push_inv, A.
  - apply L, e_finish_inv, A.
  - apply L, A.
  - apply L, e_shift_inv, A.
  - destruct (negb (f <? length vs)); [exact A|]. apply L, A.
  - apply L, e_pushmsg_inv, A.
Qed.

(* a refused or guarded operation changes no object *)
Theorem estep_refused vs o : all_inv vs ->
  snd (estep vs o) = ERefused \/ snd (estep vs o) = EGuard -> forall i, nth i (fst (estep vs o)) e0 = nth i vs e0.
Proof.
  intros A. unfold estep. destruct (negb (etarget o <? length vs)); [reflexivity|].
  assert (L : forall r : enc * eout, (snd r = ERefused \/ snd r = EGuard -> fst r = nth (etarget o) vs e0) ->
            snd (eset vs (etarget o) (fst r), snd r) = ERefused \/ snd (eset vs (etarget o) (fst r), snd r) = EGuard ->
            forall i, nth i (fst (eset vs (etarget o) (fst r), snd r)) e0 = nth i vs e0).
  { intros r K H i. cbn [fst snd] in *. rewrite nth_eset.
    destruct (Nat.eqb_spec i (etarget o)) as [->|]; cbn [andb]; [|reflexivity].
    destruct (etarget o <? length vs); [apply K, H|reflexivity]. }
  destruct o; cbn [etarget] in *.
  - apply L. unfold e_push. destruct (length d =? 0); cbn [fst snd]; [reflexivity|intros [H|H]; discriminate].
  - apply L. cbn [e_finish fst snd]. intros [H|H]; discriminate.
  - apply L. reflexivity.
  - apply L. unfold e_shift. destruct (n =? 0).
    + destruct (length _ <=? _); cbn [fst snd]; [reflexivity|intros [H|H]; discriminate].
    + destruct (_ <? n); cbn [fst snd]; [reflexivity|intros [H|H]; discriminate].
  - destruct (negb (f <? length vs)); [reflexivity|]. apply L. cbn [fst snd]. intros [H|H]; discriminate.
  - apply L. cbn [e_pushmsg fst snd]. intros [H|H]; discriminate.
Qed.

(* histories of any length over any number of objects *)
Theorem erun_inv ops vs : all_inv vs -> Forall (fun r => all_inv (fst r)) (erun vs ops).
Proof.
  revert vs. induction ops as [|o ops IH]; intros vs A; cbn [erun]; [constructor|].
  pose proof (estep_inv vs o A) as S. destruct (estep vs o) as [vs' out]. cbn [fst] in S.
  constructor; [exact S|apply IH, S].
Qed.

Lemma all_inv_init n : all_inv (repeat e0 n).
Proof.
  intros i. revert i. induction n as [|n IH]; intros i; cbn [repeat nth].
  - destruct i; apply e0_inv.
  - destruct i; [apply e0_inv|apply IH].
Qed.
