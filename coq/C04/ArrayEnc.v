(* C04/ArrayEnc.v — struct encode_array of mpt++/array.cpp without an encoder, as a plain value.

   An encode_array holds an array and two counters: the last [edone + escr] bytes of the array are
   the finished data ([edone] bytes, handed out by data()) followed by the data of the message in
   progress ([escr] bytes); everything before is consumed.  The methods are compared with this
   SPECIFICATION only (no mechanism model of its own: the array inside is the array of
   C04/ArrayModel.v, mpt_array_push belongs to the encoder properties):
     push(len, data)   append to the message in progress      push(0, 0)   finish the message
     prepare(len)      reserve space, nothing readable changes (AS PATCHED, docs/C04_enc_prepare.diff)
     shift(n), n > 0   consume n finished bytes
     shift(0)          drop the consumed bytes (AS PATCHED, docs/C04_enc_shift.diff)
     push(message)     append all parts of the message (AS PATCHED, docs/C04_enc_push_message.diff)
     copy assignment   the target becomes an independent copy
   No proofs in this file. *)
From MptV Require Import Base.Mem.
Local Open Scope nat_scope.

Record enc := mkenc { ebytes : list byte; edone : nat; escr : nat }.

Inductive eop :=
| EPush (e : nat) (d : list byte)
| EFinish (e : nat)
| EPrepare (e n : nat)
| EShift (e n : nat)
| ECopy (e f : nat)
| EPushMsg (e : nat) (d1 d2 : list byte).

Inductive eout := EDone (n : nat) | ERefused | EGuard.

Definition etarget (o : eop) : nat :=
  match o with EPush e _ | EFinish e | EPrepare e _ | EShift e _ | ECopy e _ | EPushMsg e _ _ => e end.

(* the consumed prefix, what data() hands out, the message in progress *)
Definition e_consumed (v : enc) : nat := length (ebytes v) - edone v - escr v.
Definition e_view (v : enc) : list byte := firstn (edone v) (skipn (e_consumed v) (ebytes v)).
Definition e_pending (v : enc) : list byte := skipn (e_consumed v + edone v) (ebytes v).

Definition e_push (v : enc) (d : list byte) : enc * eout :=
  if length d =? 0 then (v, ERefused)
  else (mkenc (ebytes v ++ d) (edone v) (escr v + length d), EDone (length d)).
Definition e_finish (v : enc) : enc * eout := (mkenc (ebytes v) (edone v + escr v) 0, EDone 0).
Definition e_prepare (v : enc) (n : nat) : enc * eout := (v, EDone 0).
Definition e_shift (v : enc) (n : nat) : enc * eout :=
  if n =? 0 then
    if length (ebytes v) <=? edone v + escr v then (v, ERefused)
    else (mkenc (skipn (e_consumed v) (ebytes v)) (edone v) (escr v), EDone 0)
  else if edone v <? n then (v, ERefused)
  else (mkenc (ebytes v) (edone v - n) (escr v), EDone 0).
Definition e_pushmsg (v : enc) (d1 d2 : list byte) : enc * eout :=
  (mkenc (ebytes v ++ d1 ++ d2) (edone v) (escr v + length d1 + length d2), EDone 0).

Definition e0 : enc := mkenc [] 0 0.

Fixpoint eset (l : list enc) (i : nat) (v : enc) : list enc :=
  match l, i with
  | [], _ => []
  | _ :: t, 0 => v :: t
  | h :: t, S k => h :: eset t k v
  end.

Definition estep (vs : list enc) (o : eop) : list enc * eout :=
  let x := etarget o in
  if negb (x <? length vs) then (vs, EGuard) else
  let v := nth x vs e0 in
  let fin (r : enc * eout) := (eset vs x (fst r), snd r) in
  match o with
  | EPush _ d => fin (e_push v d)
  | EFinish _ => fin (e_finish v)
  | EPrepare _ n => fin (e_prepare v n)
  | EShift _ n => fin (e_shift v n)
  | ECopy _ f => if negb (f <? length vs) then (vs, EGuard) else fin (nth f vs e0, EDone 0)
  | EPushMsg _ d1 d2 => fin (e_pushmsg v d1 d2)
  end.

Fixpoint erun (vs : list enc) (ops : list eop) : list (list enc * eout) :=
  match ops with
  | [] => []
  | o :: r => let '(vs', out) := estep vs o in (vs', out) :: erun vs' r
  end.
