(* C16/IdentSpec.v — the abstract specification: a name is a charset and a byte
   string (the stored bytes, i.e. a text name carries its terminating zero; an
   unset name is (0, [])).  It knows nothing about storage sizes, inline
   capacity, pointers or the heap. *)
From MptV Require Import Base.Mem C16.IdentModel.
Local Open Scope nat_scope.

Definition aval := (N * list byte)%type.

Definition unset : aval := (0%N, []).
Definition name_val (s : list byte) : aval := (CS_UTF8, s ++ [0%N]).
Definition raw_val (n : nat) : aval := (0%N, zeros n).

(* the C string at the start of a buffer *)
Fixpoint cstr (bs : list byte) : list byte :=
  match bs with
  | [] => []
  | b :: r => if N.eqb b 0 then [] else b :: cstr r
  end.

(* the name a caller passes as (buffer, length) or (buffer, negative length) *)
Definition arg_name (bs : list byte) (len : option nat) : list byte :=
  match len with Some n => firstn n bs | None => cstr bs end.

Fixpoint bytes_eqb (a b : list byte) : bool :=
  match a, b with
  | [], [] => true
  | x :: a', y :: b' => N.eqb x y && bytes_eqb a' b'
  | _, _ => false
  end.

Definition aval_eqb (a b : aval) : bool := N.eqb (fst a) (fst b) && bytes_eqb (snd a) (snd b).

(* set: any text name of up to 65534 bytes, any zeroed raw block of up to 65535 bytes *)
Definition sset (v : aval) (name : option (list byte)) (len : option nat) : aval * bool :=
  match name, len with
  | None, None => (v, false)
  | None, Some n => if lim16 <? n then (v, false) else (raw_val n, true)
  | Some bs, _ =>
    let s := arg_name bs len in
    if lim16 <? length s + 1 then (v, false) else (name_val s, true)
  end.

(* compare with a text name: equal exactly for that name.  Compare without a
   name (NULL, n): equal exactly for n+1 zero bytes, or nothing stored and n = 0. *)
Definition scompare (v : aval) (name : option (list byte)) (nlen : option nat) : bool :=
  match name, nlen with
  | Some bs, _ => aval_eqb v (name_val (arg_name bs nlen))
  | None, Some n =>
    bytes_eqb (snd v) (zeros (n + 1)) || ((n =? 0) && (length (snd v) =? 0))
  | None, None => false
  end.

(* an operation's arguments respect the C calling convention: the caller's buffer
   holds at least [len] bytes / a terminated string *)
Definition name_ok (name : option (list byte)) (len : option nat) : Prop :=
  match name, len with
  | Some bs, Some n => n <= length bs
  | Some bs, None => In 0%N bs
  | None, _ => True
  end.

Definition op_ok (o : op) : Prop :=
  match o with
  | OSet _ name len | OXSet _ name len => name_ok name len
  | OCompare _ name nlen | OXEqual _ name nlen => name_ok name nlen
  | OXNew _ total => 16 <= total      (* the storage holds at least sizeof(identifier) *)
  | _ => True
  end.

Definition sstep (s : list aval) (o : op) : list aval * out :=
  match o with
  | OSet i name len =>
    match nth_error s i with
    | Some v => let '(v', ok) := sset v name len in
                (set_nth s i v', if ok then ODone else ORefused)
    | None => (s, ORefused)
    end
  | OCopy i None =>
    match nth_error s i with
    | Some _ => (set_nth s i unset, ODone)
    | None => (s, ORefused)
    end
  | OCopy i (Some j) =>
    match nth_error s i, nth_error s j with
    | Some _, Some v => (set_nth s i v, ODone)
    | _, _ => (s, ORefused)
    end
  | OCompare i name nlen =>
    match nth_error s i with
    | Some v => (s, OEq (scompare v name nlen))
    | None => (s, ORefused)
    end
  | OInequal i j =>
    match nth_error s i, nth_error s j with
    | Some a, Some b => (s, OEq (aval_eqb a b))
    | _, _ => (s, ORefused)
    end
  | ONew len => (s, if lim16 <? len then ORefused else ODone)
  | ONode _ => (s, ODone)
  (* the C++ class: set_name is set, equal is "compare = 0", operator= is copy *)
  | OXSet i name len =>
    match nth_error s i with
    | Some v => let '(v', ok) := sset v name len in
                (set_nth s i v', if ok then ODone else ORefused)
    | None => (s, ORefused)
    end
  | OXEqual i name nlen =>
    match nth_error s i with
    | Some v => (s, OEq (scompare v name nlen))
    | None => (s, ORefused)
    end
  (* name(): the stored bytes of a text name, nothing for any other content *)
  | OXName i =>
    match nth_error s i with
    | Some v => (s, OName (if N.eqb (fst v) CS_UTF8 then Some (snd v) else None))
    | None => (s, ORefused)
    end
  | OXAssign i j =>
    match nth_error s i, nth_error s j with
    | Some _, Some v => (set_nth s i v, ODone)
    | _, _ => (s, ORefused)
    end
  (* a copy-constructed object holds the name of its source *)
  | OXCtor i j =>
    match nth_error s i, nth_error s j with
    | Some _, Some v => if i =? j then (s, ORefused) else (set_nth s i v, ODone)
    | _, _ => (s, ORefused)
    end
  (* a constructed object holds no name *)
  | OXNew i _ =>
    match nth_error s i with
    | Some _ => (set_nth s i unset, ODone)
    | None => (s, ORefused)
    end
  (* the new name is a part of the current one: what was stored from [off] on *)
  | OSetSelf i off len =>
    match nth_error s i with
    | Some v => let '(bs, l) := self_arg (snd v) off len in
                let '(v', ok) := sset v (Some bs) l in
                (set_nth s i v', if ok then ODone else ORefused)
    | None => (s, ORefused)
    end
  end.

Definition sobs (s : list aval) : list slot_obs :=
  map (fun v => (length (snd v), fst v, snd v)) s.

Fixpoint srun (s : list aval) (ops : list op) : list obs :=
  match ops with
  | [] => []
  | o :: r => let '(s', out) := sstep s o in Step out (sobs s') 0 :: srun s' r
  end.

(* property-level view of a mechanism observation *)
Definition pout (o : out) : out :=
  match o with
  | OCmp c => OEq (match c with CEq => true | _ => false end)
  | OSign s => OEq (match s with SZero => true | _ => false end)
  | OMax (Some _) => ODone
  | OMax None => ORefused
  | o => o
  end.

Definition pobs (o : obs) : obs :=
  match o with Step out s _ => Step (pout out) s 0 | Crash => Crash end.

(* abstraction of a mechanism state *)
Definition acontent (h : heap) (id : ident) : list byte :=
  match idata h id with Ok d => d | _ => [] end.

Definition absid (h : heap) (id : ident) : aval := (ics id, acontent h id).
Definition absw (w : world) : list aval := map (absid (wh w)) (wids w).
