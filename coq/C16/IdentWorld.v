(* C16/IdentWorld.v — several identifiers over one heap: the world invariant
   (every identifier represented, allocated names owned by exactly one
   identifier, every live block owned), its preservation by every operation,
   and the refinement of the mechanism by the specification. *)
From MptV Require Import Base.Mem Base.Tactics C16.IdentModel C16.IdentSpec C16.IdentProofs.
Local Open Scope nat_scope.

(* ------------------------------------------------------------------ heap steps *)
Definition hfree_tok (h : heap) (t : nat) : heap :=
  mkheap (hnext h) (hdel (hlive h) t) (t :: hfreed h).

Lemma hinv_alloc h dd : hinv h -> hinv (snd (halloc h dd)).
Proof.
  intros (N1 & N2 & B1 & B2 & C). unfold hinv, toks in *. simpl.
  repeat split.
  - constructor; auto. intros Hin. apply B1 in Hin. lia.
  - exact N2.
  - destruct H as [E|E]; [lia|]. apply B1 in E. lia.
  - destruct H as [E|E].
    + subst t. intros Hf. apply B2 in Hf. lia.
    + apply B1 in E. tauto.
  - intros t Ht. apply B2 in Ht. lia.
  - intros t Ht. destruct (Nat.eq_dec t (hnext h)); [auto|].
    destruct (C t) as [E|E]; [lia|auto|auto].
Qed.

Lemma hinv_free h t : hinv h -> In t (toks h) -> hinv (hfree_tok h t).
Proof.
  intros (N1 & N2 & B1 & B2 & C) Ht. unfold hinv, toks, hfree_tok in *. simpl.
  destruct (NoDup_hdel (hlive h) t N1) as [D1 D2].
  repeat split.
  - exact D1.
  - constructor; auto. apply B1 in Ht. tauto.
  - apply In_hdel in H. apply B1 in H. tauto.
  - intros [E|E].
    + subst t0. contradiction.
    + apply In_hdel in H. apply B1 in H. tauto.
  - intros u [E|E]; [subst u; apply B1 in Ht; tauto|auto].
  - intros u Hu. destruct (Nat.eq_dec u t); [auto|].
    destruct (C u Hu) as [E|E]; [|auto]. left. apply In_hdel_neq; auto.
Qed.

Lemma upd_heap_eq h a a' dd :
  upd_heap h a a' dd =
  let h1 := if external a' then snd (halloc h dd) else h in
  if external a then hfree_tok h1 (iptr a) else h1.
Proof. reflexivity. Qed.

Section Replace.
  Variables (h : heap) (a a' : ident) (d dd : list byte) (cs : N).
  Hypothesis Hh : hinv h.
  Hypothesis Ha : idok h a d.
  Hypothesis Hn : newid h a a' cs dd.

  Let h1 := if external a' then snd (halloc h dd) else h.
  Let h' := upd_heap h a a' dd.

  Lemma old_tok_live : external a = true -> In (iptr a) (toks h).
  Proof.
    intros E. destruct Ha as (_ & R & _). unfold idrep in R. rewrite E in R.
    destruct R as [_ R]. eapply hfind_In; eauto.
  Qed.

  Lemma h1_inv : hinv h1.
  Proof. unfold h1. destruct (external a'); [apply hinv_alloc|]; auto. Qed.

  Lemma toks_h1 t : In t (toks h1) <-> (external a' = true /\ t = hnext h) \/ In t (toks h).
  Proof.
    unfold h1. destruct (external a'); unfold toks; simpl.
    - split; [intros [E|E]; auto|intros [[_ E]|E]; auto].
    - split; [auto|intros [[E _]|E]; [discriminate|auto]].
  Qed.

  Lemma hfind_h1 t x : hfind (hlive h) t = Some x -> hfind (hlive h1) t = Some x.
  Proof.
    intros E. unfold h1. destruct (external a'); [|exact E]. simpl.
    apply hfind_after_alloc; auto.
  Qed.

  Lemma upd_heap_inv : hinv h'.
  Proof.
    unfold h'. rewrite upd_heap_eq. fold h1. cbv zeta.
    destruct (external a) eqn:E; [|apply h1_inv].
    apply hinv_free; [apply h1_inv|]. apply toks_h1. right. apply old_tok_live; auto.
  Qed.

  (* blocks of the other identifiers are untouched *)
  Lemma hfind_upd t x :
    hfind (hlive h) t = Some x -> (external a = true -> t <> iptr a) -> hfind (hlive h') t = Some x.
  Proof.
    intros E1 E2. unfold h'. rewrite upd_heap_eq. fold h1. cbv zeta.
    destruct (external a); [|apply hfind_h1; auto].
    unfold hfree_tok. cbn [hlive]. rewrite hfind_hdel_other by (intros E; apply E2; auto).
    apply hfind_h1; auto.
  Qed.

  Lemma fresh_not_old : external a = true -> iptr a <> hnext h.
  Proof.
    intros E. apply old_tok_live in E. destruct Hh as (_ & _ & B & _). apply B in E. lia.
  Qed.

  Lemma hfind_new : external a' = true -> hfind (hlive h') (hnext h) = Some dd.
  Proof.
    intros E. unfold h'. rewrite upd_heap_eq. cbv zeta. rewrite E.
    assert (X : hfind (hlive (snd (halloc h dd))) (hnext h) = Some dd).
    { simpl. rewrite Nat.eqb_refl. reflexivity. }
    destruct (external a) eqn:Ea; [|exact X].
    unfold hfree_tok. cbn [hlive]. rewrite hfind_hdel_other; [exact X|].
    apply fresh_not_old; auto.
  Qed.

  Lemma toks_upd t :
    In t (toks h') ->
    (external a' = true /\ t = hnext h) \/ (In t (toks h) /\ (external a = true -> t <> iptr a)).
  Proof.
    unfold h'. rewrite upd_heap_eq. fold h1. cbv zeta.
    destruct (external a) eqn:E.
    - unfold hfree_tok, toks. simpl. intros Hin.
      destruct (NoDup_hdel (hlive h1) (iptr a)) as [_ D2]; [apply h1_inv|].
      assert (t <> iptr a) by (intros X; subst t; contradiction).
      apply In_hdel in Hin. apply toks_h1 in Hin. destruct Hin as [Hin|Hin]; [auto|].
      right. auto.
    - intros Hin. apply toks_h1 in Hin. destruct Hin; [auto|]. right. split; [auto|discriminate].
  Qed.

  Lemma new_ok : idok h' a' dd.
  Proof.
    destruct Hn as (N1 & N2 & N3 & N4 & N5 & N6).
    unfold idok. split; [exact N4|]. split; [|split; [auto|rewrite N1; exact N6]].
    unfold idrep. destruct (external a') eqn:E.
    - destruct N5 as [P1 P2]. split; [exact P1|]. rewrite P2. apply hfind_new; auto.
    - exact N5.
  Qed.

  Lemma frame_ok id x :
    idok h id x -> (external id = true -> external a = true -> iptr id <> iptr a) -> idok h' id x.
  Proof.
    intros (W & R & L & Nm) Hne. unfold idok. split; [exact W|]. split; [|split; assumption].
    unfold idrep in *. destruct (external id) eqn:E; [|exact R].
    destruct R as [R1 R2]. split; [exact R1|]. apply hfind_upd; auto.
  Qed.
End Replace.

(* ------------------------------------------------------------------ world invariant *)
Definition winv (w : world) : Prop :=
  hinv (wh w) /\
  (forall i id, nth_error (wids w) i = Some id -> exists d, idok (wh w) id d) /\
  (forall i j a b, nth_error (wids w) i = Some a -> nth_error (wids w) j = Some b -> i <> j ->
     external a = true -> external b = true -> iptr a <> iptr b) /\
  (forall t, In t (toks (wh w)) ->
     exists i id, nth_error (wids w) i = Some id /\ external id = true /\ iptr id = t).

Lemma idok_fun h id d1 d2 : idok h id d1 -> idok h id d2 -> d1 = d2.
Proof. intros H1 H2. apply idata_ok in H1. apply idata_ok in H2. congruence. Qed.

Lemma replace_slot w i a d a' cs dd :
  winv w -> nth_error (wids w) i = Some a -> idok (wh w) a d -> newid (wh w) a a' cs dd ->
  let w' := mkw (upd_heap (wh w) a a' dd) (set_nth (wids w) i a') in
  winv w' /\ absw w' = set_nth (absw w) i (cs, dd).
Proof.
  intros (Hh & Hids & Hdis & Hown) Hi Ha Hn w'.
  pose proof (nth_error_lt _ _ _ Hi) as Hlt.
  assert (Hnew : idok (wh w') a' dd) by (apply (new_ok (wh w) a a' d dd cs); auto).
  assert (Hframe : forall k id x, k <> i -> nth_error (wids w) k = Some id -> idok (wh w) id x -> idok (wh w') id x).
  { intros k id x Hk Hid Hx. apply (frame_ok (wh w) a a' dd); auto.
    intros E1 E2. apply (Hdis k i id a); auto. }
  assert (Hfresh : forall k id, nth_error (wids w) k = Some id -> external id = true -> iptr id <> hnext (wh w)).
  { intros k id Hid E. destruct (Hids _ _ Hid) as [x Hx].
    apply (fresh_not_old (wh w) id x); auto. }
  split.
  - unfold winv. cbn [wh wids w']. split; [|split; [|split]].
    + apply (upd_heap_inv (wh w) a a' d dd); auto.
    + intros k id Hk. destruct (Nat.eq_dec k i) as [E|E].
      * subst k. rewrite nth_error_set_nth_eq in Hk by auto. inversion Hk; subst. eauto.
      * rewrite nth_error_set_nth_neq in Hk by auto.
        destruct (Hids _ _ Hk) as [x Hx]. exists x. apply (Hframe k); auto.
    + intros k j x y Hk Hj Hkj Ex Ey.
      destruct Hn as (N1 & N2 & N3 & N4 & N5 & N6).
      destruct (Nat.eq_dec k i) as [E1|E1]; destruct (Nat.eq_dec j i) as [E2|E2]; try lia.
      * subst k. rewrite nth_error_set_nth_eq in Hk by auto. inversion Hk; subst x.
        rewrite nth_error_set_nth_neq in Hj by auto.
        rewrite Ex in N5. destruct N5 as [_ P]. rewrite P.
        intros X. symmetry in X. revert X. apply (Hfresh j); auto.
      * subst j. rewrite nth_error_set_nth_eq in Hj by auto. inversion Hj; subst y.
        rewrite nth_error_set_nth_neq in Hk by auto.
        rewrite Ey in N5. destruct N5 as [_ P]. rewrite P. apply (Hfresh k); auto.
      * rewrite nth_error_set_nth_neq in Hk, Hj by auto. apply (Hdis k j); auto.
    + intros t Ht. apply (toks_upd (wh w) a a' dd) in Ht; auto.
      destruct Ht as [[E1 E2]|[E1 E2]].
      * exists i, a'. rewrite nth_error_set_nth_eq by auto. repeat split; auto.
        destruct Hn as (N1 & N2 & N3 & N4 & N5 & N6). rewrite E1 in N5. destruct N5 as [_ P]. congruence.
      * destruct (Hown t E1) as (k & id & Hk & Ek & Et).
        assert (k <> i).
        { intros X. subst k. rewrite Hi in Hk. inversion Hk; subst id. apply E2; auto. }
        exists k, id. rewrite nth_error_set_nth_neq by auto. auto.
  - unfold absw. cbn [wh wids w']. rewrite map_set_nth.
    assert (E : absid (upd_heap (wh w) a a' dd) a' = (cs, dd)).
    { unfold absid. change (upd_heap (wh w) a a' dd) with (wh w'). rewrite (acontent_ok _ _ _ Hnew).
      destruct Hn as (N1 & _). rewrite N1. reflexivity. }
    rewrite E. apply set_nth_map_ext.
    intros k x Hk Hx. destruct (Hids _ _ Hx) as [dx Hdx].
    unfold absid. rewrite (acontent_ok _ _ _ Hdx).
    change (upd_heap (wh w) a a' dd) with (wh w').
    rewrite (acontent_ok _ _ _ (Hframe k x dx Hk Hx Hdx)). reflexivity.
Qed.

Lemma absw_nth w i id d :
  nth_error (wids w) i = Some id -> idok (wh w) id d -> nth_error (absw w) i = Some (ics id, d).
Proof.
  intros H1 H2. unfold absw. rewrite nth_error_map, H1. simpl.
  unfold absid. rewrite (acontent_ok _ _ _ H2). reflexivity.
Qed.

Lemma absw_none w i : nth_error (wids w) i = None -> nth_error (absw w) i = None.
Proof. intros H. unfold absw. rewrite nth_error_map, H. reflexivity. Qed.

(* the observation of the identifiers is the observation of their abstraction *)
Lemma obs_slots_abs h ids :
  (forall i id, nth_error ids i = Some id -> exists d, idok h id d) ->
  obs_slots h ids = Ok (sobs (map (absid h) ids)).
Proof.
  induction ids as [|id r IH]; intros H; simpl; [reflexivity|].
  destruct (H 0 id eq_refl) as [d Hd].
  rewrite (idata_ok _ _ _ Hd). cbn [bind].
  rewrite IH by (intros i x Hx; apply (H (S i)); exact Hx). cbn [bind].
  rewrite (acontent_ok _ _ _ Hd).
  destruct Hd as (_ & _ & L & _). rewrite L. reflexivity.
Qed.

(* ------------------------------------------------------------------ objects come and go (C++ class) *)
(* the object of a slot whose content is inline is exchanged for another object
   with inline content (its storage is given up, a new object is constructed);
   the capacity of the slot may change *)
Lemma exchange_inline_slot w i a a' d' :
  winv w -> nth_error (wids w) i = Some a -> external a = false ->
  external a' = false -> idok (wh w) a' d' ->
  winv (mkw (wh w) (set_nth (wids w) i a')) /\
  absw (mkw (wh w) (set_nth (wids w) i a')) = set_nth (absw w) i (ics a', d').
Proof.
  intros (Hh & Hids & Hdis & Hown) Hi Ea Ea' Hok.
  pose proof (nth_error_lt _ _ _ Hi) as Hlt.
  split.
  - unfold winv. cbn [wh wids]. split; [exact Hh|]. split; [|split].
    + intros k id Hk. destruct (Nat.eq_dec k i) as [E|E].
      * subst k. rewrite nth_error_set_nth_eq in Hk by auto. inversion Hk; subst. eauto.
      * rewrite nth_error_set_nth_neq in Hk by auto. eauto.
    + intros k j x y Hk Hj Hkj Ex Ey.
      destruct (Nat.eq_dec k i) as [E1|E1].
      * subst k. rewrite nth_error_set_nth_eq in Hk by auto. inversion Hk; subst x. congruence.
      * destruct (Nat.eq_dec j i) as [E2|E2].
        -- subst j. rewrite nth_error_set_nth_eq in Hj by auto. inversion Hj; subst y. congruence.
        -- rewrite nth_error_set_nth_neq in Hk, Hj by auto. apply (Hdis k j); auto.
    + intros t Ht. destruct (Hown t Ht) as (k & id & Hk & Ek & Et).
      assert (k <> i) by (intros X; subst k; rewrite Hi in Hk; inversion Hk; subst id; congruence).
      exists k, id. rewrite nth_error_set_nth_neq by auto. auto.
  - unfold absw. cbn [wh wids]. rewrite map_set_nth. f_equal.
    unfold absid. rewrite (acontent_ok _ _ _ Hok). reflexivity.
Qed.

(* ~identifier(): the slot holds no name and no allocation afterwards *)
Lemma fini_step w i id :
  winv w -> nth_error (wids w) i = Some id ->
  exists h1 id1, xfini (wh w) id = Ok (h1, id1, true) /\
    winv (mkw h1 (set_nth (wids w) i id1)) /\
    absw (mkw h1 (set_nth (wids w) i id1)) = set_nth (absw w) i unset /\
    external id1 = false.
Proof.
  intros Hw Hi. pose proof Hw as (Hh & Hids & _).
  destruct (Hids _ _ Hi) as [d Hd].
  pose proof (iset_closed (wh w) id d None (Some 0) Hd Hh I) as Hc.
  unfold sset in Hc. destruct (Nat.ltb_spec lim16 0) as [X|_]; [inversion X|].
  destruct Hc as (id' & E1 & E2).
  destruct (replace_slot w i id d id' _ _ Hw Hi Hd E2) as [A C].
  eexists _, id'. split; [exact E1|]. split; [exact A|]. split; [exact C|].
  destruct E2 as (_ & N2 & _). apply ext_false. rewrite N2. simpl. lia.
Qed.

(* ~identifier() followed by identifier(sz) on new storage for the slot *)
Lemma reinit_step w i id sz :
  winv w -> nth_error (wids w) i = Some id -> 16 <= sz ->
  exists h1 id1 fresh, xfini (wh w) id = Ok (h1, id1, true) /\ ident_init sz = Some fresh /\
    external fresh = false /\
    winv (mkw h1 (set_nth (wids w) i fresh)) /\
    absw (mkw h1 (set_nth (wids w) i fresh)) = set_nth (absw w) i unset /\
    idok h1 fresh [] /\ imax fresh = Nat.min (sz - 4) 252.
Proof.
  intros Hw Hi Hsz.
  destruct (fini_step w i id Hw Hi) as (h1 & id1 & E1 & A & C & Ee).
  destruct (ident_init_ok sz Hsz) as (fresh & F1 & F2 & F3 & _ & F5 & F6).
  assert (Hf : idok h1 fresh []) by (apply (idok_inline_heap heap0); auto).
  assert (Hi1 : nth_error (wids (mkw h1 (set_nth (wids w) i id1))) i = Some id1).
  { cbn [wids]. apply nth_error_set_nth_eq. eapply nth_error_lt; eauto. }
  destruct (exchange_inline_slot _ i id1 fresh [] A Hi1 Ee F3 Hf) as [A2 C2].
  cbn [wh wids] in A2, C2. rewrite set_nth_set_nth in A2, C2.
  exists h1, id1, fresh. split; [exact E1|]. split; [exact F1|]. split; [exact F3|].
  split; [exact A2|]. split; [|split; [exact Hf|exact F6]].
  rewrite C2, C, set_nth_set_nth, F5. reflexivity.
Qed.

(* ~identifier() on slot i, then identifier(const identifier &) from slot j on 16 bytes of
   new storage: the new object holds the source's name, its capacity is 12 *)
Lemma xctor_step w i j id from df :
  winv w -> i <> j -> nth_error (wids w) i = Some id -> nth_error (wids w) j = Some from ->
  idok (wh w) from df ->
  exists h1 id1 h2 id',
    xfini (wh w) id = Ok (h1, id1, true) /\ xcopy_init h1 from = Ok (h2, id', true) /\
    winv (mkw h2 (set_nth (wids w) i id')) /\
    absw (mkw h2 (set_nth (wids w) i id')) = set_nth (absw w) i (ics from, df) /\
    imax id' = 12.
Proof.
  intros Hw E Ei Ej Hdf.
  destruct (reinit_step w i id 16 Hw Ei (le_n 16)) as (h1 & id1 & fresh & E1 & F1 & F3 & A2 & C2 & Hf & F6).
  exists h1, id1. unfold xcopy_init, SIZEOF_IDENT. rewrite F1.
  set (w2 := mkw h1 (set_nth (wids w) i fresh)) in *.
  assert (Hi2 : nth_error (wids w2) i = Some fresh).
  { cbn [wids w2]. apply nth_error_set_nth_eq. eapply nth_error_lt; eauto. }
  assert (Hj2 : nth_error (wids w2) j = Some from).
  { cbn [wids w2]. rewrite nth_error_set_nth_neq by auto. exact Ej. }
  pose proof A2 as (Hh2 & Hids2 & _).
  destruct (Hids2 _ _ Hj2) as [df2 Hdf2].
  destruct (icopy_closed (wh w2) fresh [] from df2 Hf Hdf2 Hh2) as (id' & G1 & G2).
  cbn [wh w2] in G1.
  destruct (replace_slot w2 i fresh [] id' (ics from) df2 A2 Hi2 Hf G2) as [A3 C3].
  assert (Edf : df2 = df).
  { pose proof (absw_nth w2 j from df2 Hj2 Hdf2) as X. rewrite C2 in X.
    rewrite nth_error_set_nth_neq in X by auto. rewrite (absw_nth _ _ _ _ Ej Hdf) in X. congruence. }
  cbn [wh wids w2] in A3, C3. rewrite set_nth_set_nth in A3, C3.
  eexists _, id'. split; [exact E1|]. split; [exact G1|]. split; [exact A3|].
  split.
  - rewrite C3. fold w2. rewrite C2, set_nth_set_nth, Edf. reflexivity.
  - destruct G2 as (_ & _ & N3 & _). rewrite N3, F6. reflexivity.
Qed.

(* ------------------------------------------------------------------ one step *)
(* the argument made from the identifier's own bytes respects the calling convention *)
Lemma self_arg_ok d off len : name_ok (Some (fst (self_arg d off len))) (snd (self_arg d off len)).
Proof.
  unfold self_arg. destruct len as [n|]; cbn [fst snd name_ok]; [apply Nat.le_min_r|].
  destruct (existsb (N.eqb 0) (skipn off d)) eqn:E; cbn [fst snd name_ok]; [|apply Nat.le_refl].
  apply existsb_exists in E. destruct E as (x & Hin & Hx). apply N.eqb_eq in Hx. subst x. exact Hin.
Qed.

Lemma mstep_refines w o :
  winv w -> op_ok o ->
  exists w' out, mstep w o = Ok (w', out) /\ winv w' /\ sstep (absw w) o = (absw w', pout out).
Proof.
  intros Hw Hok. pose proof Hw as (Hh & Hids & Hdis & Hown).
  destruct o as [i name len|i [j|]|i name nlen|i j|len|len|i name len|i name nlen|i|i j|i j|i total|i off len]; cbn [mstep sstep op_ok] in *.
  - (* set *)
    destruct (nth_error (wids w) i) as [id|] eqn:Ei.
    2:{ rewrite (absw_none _ _ Ei). exists w, ORefused. auto. }
    destruct (Hids _ _ Ei) as [d Hd]. rewrite (absw_nth _ _ _ _ Ei Hd).
    pose proof (iset_closed (wh w) id d name len Hd Hh Hok) as Hc.
    destruct (sset (ics id, d) name len) as [v' [|]].
    + destruct Hc as (id' & E1 & E2). rewrite E1. cbn [lift_set bind].
      destruct (replace_slot w i id d id' (fst v') (snd v') Hw Ei Hd E2) as [A C].
      eexists _, ODone. split; [reflexivity|]. split; [exact A|].
      rewrite C. destruct v'; reflexivity.
    + destruct Hc as [E1 E2]. rewrite E1. cbn [lift_set bind].
      rewrite (set_nth_same _ _ _ Ei).
      exists w, ORefused. destruct w as [h0 ids0]. simpl. split; [reflexivity|]. split; [exact Hw|].
      subst v'. rewrite set_nth_same; [reflexivity|]. apply (absw_nth (mkw h0 ids0)); auto.
  - (* copy i j *)
    destruct (nth_error (wids w) i) as [id|] eqn:Ei.
    2:{ rewrite (absw_none _ _ Ei). exists w, ORefused. auto. }
    destruct (Hids _ _ Ei) as [d Hd]. rewrite (absw_nth _ _ _ _ Ei Hd).
    destruct (nth_error (wids w) j) as [from|] eqn:Ej.
    2:{ rewrite (absw_none _ _ Ej). exists w, ORefused. auto. }
    destruct (Hids _ _ Ej) as [df Hdf]. rewrite (absw_nth _ _ _ _ Ej Hdf).
    destruct (Nat.eqb_spec i j) as [E|E].
    + subst j. rewrite Ei in Ej. inversion Ej; subst from.
      assert (icopy_self id = true).
      { unfold icopy_self. destruct Hd as (_ & R & _). unfold idrep in R.
        destruct (external id); [|reflexivity]. destruct R as [R _].
        rewrite (base_of_ext _ R). reflexivity. }
      rewrite H. exists w, ODone. split; [reflexivity|]. split; [exact Hw|].
      rewrite set_nth_same; [reflexivity|]. apply absw_nth; assumption.
    + destruct (icopy_closed (wh w) id d from df Hd Hdf Hh) as (id' & E1 & E2).
      rewrite E1. cbn [lift_set bind].
      destruct (replace_slot w i id d id' (ics from) df Hw Ei Hd E2) as [A C].
      eexists _, ODone. split; [reflexivity|]. split; [exact A|].
      rewrite C. reflexivity.
  - (* copy i NULL *)
    destruct (nth_error (wids w) i) as [id|] eqn:Ei.
    2:{ rewrite (absw_none _ _ Ei). exists w, ORefused. auto. }
    destruct (Hids _ _ Ei) as [d Hd]. rewrite (absw_nth _ _ _ _ Ei Hd).
    pose proof (iset_closed (wh w) id d None (Some 0) Hd Hh I) as Hc.
    unfold sset in Hc. destruct (Nat.ltb_spec lim16 0) as [X|_]; [inversion X|].
    destruct Hc as (id' & E1 & E2). rewrite E1. cbn [lift_set bind].
    destruct (replace_slot w i id d id' _ _ Hw Ei Hd E2) as [A C].
    eexists _, ODone. split; [reflexivity|]. split; [exact A|].
    rewrite C. reflexivity.
  - (* compare *)
    destruct (nth_error (wids w) i) as [id|] eqn:Ei.
    2:{ rewrite (absw_none _ _ Ei). exists w, ORefused. auto. }
    destruct (Hids _ _ Ei) as [d Hd]. rewrite (absw_nth _ _ _ _ Ei Hd).
    destruct (icompare_closed (wh w) id d name nlen Hd Hok) as (c & E1 & E2).
    rewrite E1. cbn [bind]. exists w, (OCmp c). split; [reflexivity|]. split; [exact Hw|].
    rewrite <- E2. destruct c; reflexivity.
  - (* inequal *)
    destruct (nth_error (wids w) i) as [a|] eqn:Ei.
    2:{ rewrite (absw_none _ _ Ei). exists w, ORefused. auto. }
    destruct (Hids _ _ Ei) as [da Hda]. rewrite (absw_nth _ _ _ _ Ei Hda).
    destruct (nth_error (wids w) j) as [b|] eqn:Ej.
    2:{ rewrite (absw_none _ _ Ej). exists w, ORefused. auto. }
    destruct (Hids _ _ Ej) as [db Hdb]. rewrite (absw_nth _ _ _ _ Ej Hdb).
    destruct (iinequal_closed (wh w) a da b db Hda Hdb) as (s & E1 & E2).
    rewrite E1. cbn [bind]. exists w, (OSign s). split; [reflexivity|]. split; [exact Hw|].
    rewrite <- E2. destruct s; reflexivity.
  - (* new *)
    eexists w, _. split; [reflexivity|]. split; [exact Hw|].
    unfold new_size. destruct (lim16 <? len); [reflexivity|].
    unfold ident_init.
    match goal with |- context [if ?c then None else _] => destruct c eqn:Ec end; [|reflexivity].
    exfalso. apply Nat.ltb_lt in Ec. unfold HSZE in *.
    destruct ((32 <? len + 4) && (len + 4 <=? 256)) eqn:Eb.
    + apply andb_true_iff in Eb. destruct Eb as [Eb _]. apply Nat.ltb_lt in Eb.
      unfold ladder in Ec. destruct (Nat.ltb_spec 32 (len + 4)); [|lia].
      revert Ec. generalize (len + 4). intros n.
      repeat match goal with |- context [if ?a <? ?b then _ else _] => destruct (Nat.ltb_spec a b) end; lia.
    + lia.
  - (* node *)
    eexists w, _. split; [reflexivity|]. split; [exact Hw|].
    unfold ident_init.
    match goal with |- context [if ?c then None else _] => destruct c eqn:Ec end; [|reflexivity].
    exfalso. apply Nat.ltb_lt in Ec. unfold HSZE, node_ident_size, NODE_PRE in *.
    destruct ((64 <? len + 40) && (len + 40 <=? 256)) eqn:Eb.
    + unfold ladder in Ec. revert Ec. generalize (len + 40). intros n.
      repeat match goal with |- context [if ?a <? ?b then _ else _] => destruct (Nat.ltb_spec a b) end; lia.
    + lia.
  - (* C++ set_name: mpt_identifier_set *)
    unfold xset_name.
    destruct (nth_error (wids w) i) as [id|] eqn:Ei.
    2:{ rewrite (absw_none _ _ Ei). exists w, ORefused. auto. }
    destruct (Hids _ _ Ei) as [d Hd]. rewrite (absw_nth _ _ _ _ Ei Hd).
    pose proof (iset_closed (wh w) id d name len Hd Hh Hok) as Hc.
    destruct (sset (ics id, d) name len) as [v' [|]].
    + destruct Hc as (id' & E1 & E2). rewrite E1. cbn [lift_set bind].
      destruct (replace_slot w i id d id' (fst v') (snd v') Hw Ei Hd E2) as [A C].
      eexists _, ODone. split; [reflexivity|]. split; [exact A|].
      rewrite C. destruct v'; reflexivity.
    + destruct Hc as [E1 E2]. rewrite E1. cbn [lift_set bind].
      rewrite (set_nth_same _ _ _ Ei).
      exists w, ORefused. destruct w as [h0 ids0]. simpl. split; [reflexivity|]. split; [exact Hw|].
      subst v'. rewrite set_nth_same; [reflexivity|]. apply (absw_nth (mkw h0 ids0)); auto.
  - (* C++ equal: compare = 0 *)
    destruct (nth_error (wids w) i) as [id|] eqn:Ei.
    2:{ rewrite (absw_none _ _ Ei). exists w, ORefused. auto. }
    destruct (Hids _ _ Ei) as [d Hd]. rewrite (absw_nth _ _ _ _ Ei Hd).
    destruct (icompare_closed (wh w) id d name nlen Hd Hok) as (c & E1 & E2).
    unfold xequal. rewrite E1. cbn [bind]. eexists w, _. split; [reflexivity|]. split; [exact Hw|].
    rewrite <- E2. destruct c; reflexivity.
  - (* C++ name *)
    destruct (nth_error (wids w) i) as [id|] eqn:Ei.
    2:{ rewrite (absw_none _ _ Ei). exists w, ORefused. auto. }
    destruct (Hids _ _ Ei) as [d Hd]. rewrite (absw_nth _ _ _ _ Ei Hd).
    unfold xname. cbn [fst snd].
    destruct (N.eqb (ics id) CS_UTF8); cbn [negb].
    + rewrite (idata_ok _ _ _ Hd). cbn [bind].
      eexists w, _. split; [reflexivity|]. split; [exact Hw|reflexivity].
    + eexists w, _. split; [reflexivity|]. split; [exact Hw|reflexivity].
  - (* C++ operator= *)
    destruct (nth_error (wids w) i) as [id|] eqn:Ei.
    2:{ rewrite (absw_none _ _ Ei). exists w, ORefused. auto. }
    destruct (Hids _ _ Ei) as [d Hd]. rewrite (absw_nth _ _ _ _ Ei Hd).
    destruct (nth_error (wids w) j) as [from|] eqn:Ej.
    2:{ rewrite (absw_none _ _ Ej). exists w, ORefused. auto. }
    destruct (Hids _ _ Ej) as [df Hdf]. rewrite (absw_nth _ _ _ _ Ej Hdf).
    destruct (Nat.eqb_spec i j) as [E|E].
    + subst j. rewrite Ei in Ej. inversion Ej; subst from. cbv zeta.
      exists w, ODone. split; [reflexivity|]. split; [exact Hw|].
      rewrite set_nth_same; [reflexivity|]. apply absw_nth; assumption.
    + destruct (icopy_closed (wh w) id d from df Hd Hdf Hh) as (id' & E1 & E2).
      unfold xassign. rewrite E1. cbn [bind].
      destruct (replace_slot w i id d id' (ics from) df Hw Ei Hd E2) as [A C].
      eexists _, ODone. split; [reflexivity|]. split; [exact A|].
      rewrite C. reflexivity.
  - (* C++: destructor on slot i, then copy construction from slot j *)
    destruct (nth_error (wids w) i) as [id|] eqn:Ei.
    2:{ rewrite (absw_none _ _ Ei). exists w, ORefused. auto. }
    destruct (Hids _ _ Ei) as [d Hd]. rewrite (absw_nth _ _ _ _ Ei Hd).
    destruct (nth_error (wids w) j) as [from|] eqn:Ej.
    2:{ rewrite (absw_none _ _ Ej). exists w, ORefused. auto. }
    destruct (Hids _ _ Ej) as [df Hdf]. rewrite (absw_nth _ _ _ _ Ej Hdf).
    destruct (Nat.eqb_spec i j) as [E|E].
    + exists w, ORefused. auto.
    + destruct (xctor_step w i j id from df Hw E Ei Ej Hdf) as (h1 & id1 & h2 & id' & E1 & G1 & A3 & C3 & _).
      rewrite E1. cbn [bind]. rewrite G1. cbn [bind].
      eexists _, ODone. split; [reflexivity|]. split; [exact A3|].
      rewrite C3. reflexivity.
  - (* C++: destructor on slot i, then identifier(total) *)
    destruct (nth_error (wids w) i) as [id|] eqn:Ei.
    2:{ rewrite (absw_none _ _ Ei). exists w, ORefused. auto. }
    destruct (Hids _ _ Ei) as [d Hd]. rewrite (absw_nth _ _ _ _ Ei Hd).
    destruct (reinit_step w i id total Hw Ei Hok) as (h1 & id1 & fresh & E1 & F1 & F3 & A2 & C2 & Hf & _).
    unfold xinit. rewrite F1, E1. cbn [bind].
    eexists _, ODone. split; [reflexivity|]. split; [exact A2|]. rewrite C2. reflexivity.
  - (* set from the identifier's own content *)
    destruct (nth_error (wids w) i) as [id|] eqn:Ei.
    2:{ rewrite (absw_none _ _ Ei). exists w, ORefused. auto. }
    destruct (Hids _ _ Ei) as [d Hd]. rewrite (absw_nth _ _ _ _ Ei Hd).
    rewrite (idata_ok _ _ _ Hd). cbn [bind snd].
    pose proof (self_arg_ok d off len) as Hn.
    destruct (self_arg d off len) as [bs l]. cbn [fst snd] in Hn.
    pose proof (iset_closed (wh w) id d (Some bs) l Hd Hh Hn) as Hc.
    destruct (sset (ics id, d) (Some bs) l) as [v' [|]].
    + destruct Hc as (id' & E1 & E2). rewrite E1. cbn [lift_set bind].
      destruct (replace_slot w i id d id' (fst v') (snd v') Hw Ei Hd E2) as [A C].
      eexists _, ODone. split; [reflexivity|]. split; [exact A|].
      rewrite C. destruct v'; reflexivity.
    + destruct Hc as [E1 E2]. rewrite E1. cbn [lift_set bind].
      rewrite (set_nth_same _ _ _ Ei).
      exists w, ORefused. destruct w as [h0 ids0]. simpl. split; [reflexivity|]. split; [exact Hw|].
      subst v'. rewrite set_nth_same; [reflexivity|]. apply (absw_nth (mkw h0 ids0)); auto.
Qed.

(* a set whose name lies inside the identifier's own content (any offset, any
   length request, inline or allocated content) needs no precondition *)
Lemma set_self_refines w i off len :
  winv w ->
  exists w' out, mstep w (OSetSelf i off len) = Ok (w', out) /\ winv w' /\
                 sstep (absw w) (OSetSelf i off len) = (absw w', pout out).
Proof. intros Hw. apply mstep_refines; [exact Hw|exact I]. Qed.

(* ------------------------------------------------------------------ histories *)
Theorem mrun_refines ops : forall w,
  winv w -> Forall op_ok ops -> map pobs (mrun w ops) = srun (absw w) ops.
Proof.
  induction ops as [|o r IH]; intros w Hw Hok; [reflexivity|].
  inversion Hok as [|? ? H1 H2]; subst.
  destruct (mstep_refines w o Hw H1) as (w' & out & E1 & E2 & E3).
  cbn [mrun srun]. rewrite E1, E3.
  destruct E2 as (Hh & Hids & Hrest).
  rewrite (obs_slots_abs _ _ Hids). cbn [map pobs]. fold (absw w').
  rewrite (IH w'); [reflexivity| |assumption].
  unfold winv; auto.
Qed.

Lemma mrun_no_crash ops : forall w, winv w -> Forall op_ok ops -> ~ In Crash (mrun w ops).
Proof.
  intros w Hw Hok Hin. apply (in_map pobs) in Hin. rewrite mrun_refines in Hin by auto.
  simpl in Hin. clear Hw Hok. revert Hin. generalize (absw w). induction ops as [|o r IH]; intros s; simpl; [tauto|].
  destruct (sstep s o) as [s' out]. intros [E|E]; [discriminate|eauto].
Qed.

Fixpoint sexec (s : list aval) (ops : list op) : list aval :=
  match ops with [] => s | o :: r => sexec (fst (sstep s o)) r end.

Lemma mexec_refines ops : forall w, winv w -> Forall op_ok ops ->
  exists w', mexec w ops = Some w' /\ winv w' /\ absw w' = sexec (absw w) ops.
Proof.
  induction ops as [|o r IH]; intros w Hw Hok; [exists w; auto|].
  inversion Hok as [|? ? H1 H2]; subst.
  destruct (mstep_refines w o Hw H1) as (w' & out & E1 & E2 & E3).
  cbn [mexec sexec]. rewrite E1, E3. cbn [fst]. apply IH; auto.
Qed.
