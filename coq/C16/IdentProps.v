(* C16/IdentProps.v — the property-level statements, derived from the closed
   forms (IdentProofs), the world invariant (IdentWorld) and the cleanup (IdentHeap). *)
From MptV Require Import Base.Mem Base.Tactics C16.IdentModel C16.IdentSpec C16.IdentProofs
  C16.IdentWorld C16.IdentHeap.
Local Open Scope nat_scope.

(* what a successful set leaves behind, in terms a reader can check *)
Definition stored (h : heap) (id : ident) (cs : N) (d : list byte) : Prop :=
  idata h id = Ok d /\ ilen id = length d /\ ics id = cs /\ idok h id d /\ hinv h.

Lemma set_result h id d name len v' :
  hinv h -> idok h id d -> name_ok name len -> sset (ics id, d) name len = (v', true) ->
  exists h' id', iset h id name len = Ok (h', id', true) /\ stored h' id' (fst v') (snd v') /\
                 imax id' = imax id.
Proof.
  intros Hh Hid Hok Hs. pose proof (iset_closed h id d name len Hid Hh Hok) as Hc.
  rewrite Hs in Hc. destruct Hc as (id' & E1 & E2).
  pose proof (new_ok h id id' d (snd v') (fst v') Hh Hid E2) as Hnew.
  exists (upd_heap h id id' (snd v')), id'. split; [exact E1|].
  destruct E2 as (N1 & N2 & N3 & _).
  split; [|exact N3].
  unfold stored. split; [apply idata_ok; exact Hnew|]. split; [exact N2|]. split; [exact N1|].
  split; [exact Hnew|]. apply (upd_heap_inv h id id' d); auto.
Qed.

Lemma firstn_length_self {A} (l : list A) : firstn (length l) l = l.
Proof. apply firstn_all. Qed.

Lemma set_get h id d bs :
  hinv h -> idok h id d -> length bs + 1 <= lim16 ->
  exists h' id', iset h id (Some bs) (Some (length bs)) = Ok (h', id', true) /\
                 stored h' id' CS_UTF8 (bs ++ [0%N]) /\ imax id' = imax id.
Proof.
  intros Hh Hid Hl.
  apply (set_result h id d (Some bs) (Some (length bs)) (name_val bs)); auto.
  - simpl. lia.
  - unfold sset, arg_name. rewrite firstn_all.
    destruct (Nat.ltb_spec lim16 (length bs + 1)); [lia|reflexivity].
Qed.

Lemma cstr_nozero bs : ~ In 0%N bs -> cstr (bs ++ [0%N]) = bs.
Proof.
  induction bs as [|b r IH]; simpl; intros H; [reflexivity|].
  destruct (N.eqb_spec b 0); [exfalso; apply H; auto|]. rewrite IH; auto.
Qed.

Lemma set_get_cstring h id d bs :
  hinv h -> idok h id d -> ~ In 0%N bs -> length bs + 1 <= lim16 ->
  exists h' id', iset h id (Some (bs ++ [0%N])) None = Ok (h', id', true) /\
                 stored h' id' CS_UTF8 (bs ++ [0%N]) /\ imax id' = imax id.
Proof.
  intros Hh Hid Hz Hl.
  apply (set_result h id d (Some (bs ++ [0%N])) None (name_val bs)); auto.
  - simpl. apply in_or_app. right. simpl. auto.
  - unfold sset, arg_name. rewrite (cstr_nozero bs Hz).
    destruct (Nat.ltb_spec lim16 (length bs + 1)); [lia|reflexivity].
Qed.

Lemma set_raw h id d n :
  hinv h -> idok h id d -> n <= lim16 ->
  exists h' id', iset h id None (Some n) = Ok (h', id', true) /\
                 stored h' id' 0%N (zeros n) /\ imax id' = imax id.
Proof.
  intros Hh Hid Hl.
  apply (set_result h id d None (Some n) (raw_val n)); auto.
  - exact I.
  - unfold sset. destruct (Nat.ltb_spec lim16 n); [lia|reflexivity].
Qed.

Lemma set_too_long h id bs : lim16 < length bs + 1 ->
  iset h id (Some bs) (Some (length bs)) = Ok (h, id, false).
Proof.
  intros H. unfold iset, iset_go. destruct (Nat.ltb_spec lim16 (length bs + 1)); [reflexivity|lia].
Qed.

Lemma refused_unchanged h id d name len h' id' :
  hinv h -> idok h id d -> name_ok name len ->
  iset h id name len = Ok (h', id', false) -> h' = h /\ id' = id.
Proof.
  intros Hh Hid Hok E. pose proof (iset_closed h id d name len Hid Hh Hok) as Hc.
  destruct (sset (ics id, d) name len) as [v' [|]].
  - destruct Hc as (x & E1 & _). rewrite E1 in E. inversion E.
  - destruct Hc as [E1 _]. rewrite E1 in E. inversion E. auto.
Qed.

Lemma compare_iff_equal h id d bs n :
  idok h id d -> n <= length bs ->
  exists c, icompare h id (Some bs) (Some n) = Ok c /\
            (c = CEq <-> (ics id, d) = name_val (firstn n bs)).
Proof.
  intros Hid Hn. destruct (icompare_closed h id d (Some bs) (Some n) Hid Hn) as (c & E1 & E2).
  exists c. split; [exact E1|]. unfold scompare, arg_name in E2. rewrite <- aval_eqb_eq, <- E2.
  destruct c; simpl; split; congruence.
Qed.

Lemma compare_cstring_iff_equal h id d bs :
  idok h id d -> ~ In 0%N bs ->
  exists c, icompare h id (Some (bs ++ [0%N])) None = Ok c /\
            (c = CEq <-> (ics id, d) = name_val bs).
Proof.
  intros Hid Hz.
  assert (Hok : name_ok (Some (bs ++ [0%N])) None) by (simpl; apply in_or_app; right; simpl; auto).
  destruct (icompare_closed h id d _ None Hid Hok) as (c & E1 & E2).
  exists c. split; [exact E1|]. unfold scompare, arg_name in E2. rewrite (cstr_nozero bs Hz) in E2.
  rewrite <- aval_eqb_eq, <- E2. destruct c; simpl; split; congruence.
Qed.

Lemma inequal_iff_equal h a da b db :
  idok h a da -> idok h b db ->
  exists s, iinequal h a b = Ok s /\ (s = SZero <-> (ics a, da) = (ics b, db)).
Proof.
  intros Ha Hb. destruct (iinequal_closed h a da b db Ha Hb) as (s & E1 & E2).
  exists s. split; [exact E1|]. rewrite <- aval_eqb_eq, <- E2.
  destruct s; simpl; split; congruence.
Qed.

(* copy between two different identifiers of a world *)
Lemma copy_equal_src_untouched w i j a b db :
  winv w -> i <> j -> nth_error (wids w) i = Some a -> nth_error (wids w) j = Some b ->
  idok (wh w) b db ->
  exists w' a',
    mstep w (OCopy i (Some j)) = Ok (w', ODone) /\ winv w' /\
    absw w' = set_nth (absw w) i (ics b, db) /\
    nth_error (wids w') j = Some b /\ idok (wh w') b db /\
    nth_error (wids w') i = Some a' /\ idok (wh w') a' db /\ ics a' = ics b /\
    iinequal (wh w') a' b = Ok SZero.
Proof.
  intros Hw Hij Hi Hj Hdb. pose proof Hw as (Hh & Hids & Hdis & Hown).
  destruct (Hids _ _ Hi) as [da Hda].
  destruct (icopy_closed (wh w) a da b db Hda Hdb Hh) as (a' & E1 & E2).
  destruct (replace_slot w i a da a' (ics b) db Hw Hi Hda E2) as [A C].
  pose proof (new_ok (wh w) a a' da db (ics b) Hh Hda E2) as Hnew.
  assert (Hb' : idok (upd_heap (wh w) a a' db) b db).
  { apply (frame_ok (wh w) a a' db); auto. intros X Y. apply (Hdis j i b a); auto. }
  eexists _, a'. split.
  { cbn [mstep]. rewrite Hi, Hj. destruct (Nat.eqb_spec i j); [contradiction|].
    rewrite E1. reflexivity. }
  cbn [wh wids]. split; [exact A|]. split; [exact C|].
  split; [rewrite nth_error_set_nth_neq by auto; exact Hj|].
  split; [exact Hb'|].
  split; [apply nth_error_set_nth_eq; eapply nth_error_lt; eauto|].
  split; [exact Hnew|].
  destruct E2 as (N1 & _). split; [exact N1|].
  destruct (iinequal_closed _ a' db b db Hnew Hb') as (s & F1 & F2).
  rewrite F1. f_equal.
  assert (X : aval_eqb (ics a', db) (ics b, db) = true) by (apply aval_eqb_eq; rewrite N1; reflexivity).
  rewrite X in F2. destruct s; simpl in F2; congruence.
Qed.

Lemma absw_init sizes : Forall (fun s => 16 <= s) sizes ->
  absw (init_world sizes) = repeat unset (length sizes).
Proof.
  intros H. unfold absw, init_world. cbn [wh wids].
  induction H as [|s r Hs Hr IH]; simpl; [reflexivity|].
  destruct (ident_init_ok s Hs) as (x & E1 & E2 & _ & _ & E3 & _). rewrite E1. simpl.
  rewrite IH. f_equal. unfold absid. rewrite (acontent_ok _ _ _ E2), E3. reflexivity.
Qed.

Lemma history_refines_names sizes ops :
  Forall (fun s => 16 <= s) sizes -> Forall op_ok ops ->
  map pobs (mrun (init_world sizes) ops) = srun (repeat unset (length sizes)) ops.
Proof.
  intros Hs Hok. rewrite <- (absw_init sizes Hs). apply mrun_refines; auto. apply init_world_inv; auto.
Qed.

(* the size ladder of mpt_identifier_new provides the requested inline capacity *)
Lemma ladder_ge l : l <= 256 -> l <= ladder 8 32 l /\ ladder 8 32 l <= 256.
Proof.
  intros H. unfold ladder.
  repeat match goal with |- context [if ?a <? ?b then _ else _] => destruct (Nat.ltb_spec a b) end; lia.
Qed.

Lemma new_capacity len : len <= 252 ->
  exists sz id, new_size len = Some sz /\ ident_init sz = Some id /\
                32 <= sz <= 256 /\ len <= imax id /\ imax id = sz - 4.
Proof.
  intros H. unfold new_size, HSZE.
  assert (L : lim16 <? len = false) by (apply Nat.ltb_ge; unfold lim16; lia).
  rewrite L.
  set (sz := if (32 <? len + 4) && (len + 4 <=? 256) then ladder 8 32 (len + 4) else 32).
  assert (Hsz : len + 4 <= sz /\ 32 <= sz <= 256).
  { unfold sz. destruct (Nat.ltb_spec 32 (len + 4)); destruct (Nat.leb_spec (len + 4) 256); cbn [andb]; try lia.
    pose proof (ladder_ge (len + 4)). lia. }
  exists sz. unfold ident_init, HSZE, IDENT_MAX. destruct (Nat.ltb_spec sz 4); [lia|].
  eexists. split; [reflexivity|]. split; [reflexivity|]. cbn [imax].
  rewrite Nat.min_l by lia. lia.
Qed.

Lemma new_limit len : new_size len = None <-> lim16 < len.
Proof.
  unfold new_size. destruct (Nat.ltb_spec lim16 len); split; intros; try lia; try discriminate; auto.
Qed.

(* data of the non-vacuity examples in Properties.v *)
Definition ex_long : list byte := [1;2;3;4;5;6;7;8;9;10;11;12;13]%N.
Definition ex_short : list byte := [65;66;67;68;69;70;71;72;73;74;75]%N.
Definition ex_other : list byte := [65;66;67;68;69;70;71;72;73;74;76]%N.

