(* C16/IdentModel.v — mechanism-level model of mptcore/misc/identifier.c
   (+ the size ladders of mpt_identifier_new and mpt_node_new).
   Executable, no proofs.  Every function is a transcription of the C function
   named in its comment.

   Layout (mptcore/core.h, LP64):
       offset 0  uint16_t _len      stored length (incl. the terminator of names)
       offset 2  uint8_t  _charset
       offset 3  uint8_t  _max      number of inline bytes = storage size - 4
       offset 4  char     _val[4]   \  inline bytes _val[0.._max) ...
       offset 8  char    *_base     /  ... of which _val[4..12) ARE the pointer field
   The overlay is modelled literally: the inline area is a list of [cell]s, a
   cell holds either a data byte or one (opaque) byte of a stored pointer.
   Reading the field [_base] looks at cells 4..12: eight pointer cells give the
   stored pointer back, eight zero bytes are NULL, anything else is a wild
   pointer.  Reading a pointer cell as data faults.  The heap is ghost state:
   allocation tokens, live blocks with their bytes, freed tokens; freeing
   anything but NULL or a live token faults ("bad free"). *)
From MptV Require Export Base.Mem.
Local Open Scope nat_scope.

(* ---------- constants of identifier.c / core.h ---------- *)
Definition HSZE := 4.                    (* MPT_IDENT_HSZE *)
Definition IDENT_MAX := 252.             (* MPT_IDENT_MAX = 0x100 - HSZE *)
Definition BASE_OFF := 4.                (* offsetof(_base) - offsetof(_val) *)
Definition PTR_SIZE := 8.                (* sizeof(char * ) *)
Definition lim16 := 255 * 257.           (* UINT16_MAX, never unfolded *)
Definition CS_UTF8 : N := 1%N.           (* MPT_CHARSET(UTF8) *)
Definition NODE_PRE := 40.               (* sizeof(node) - sizeof(identifier) *)

Inductive cell := B (b : byte) | P.
Inductive ptr := PNull | PTok (t : nat) | PGarbage.

Record ident := mkid {
  ilen : nat;          (* _len *)
  ics  : N;            (* _charset *)
  imax : nat;          (* _max *)
  ival : list cell;    (* _val[0.._max), cells 4..12 overlay _base *)
  iptr : nat           (* the allocation token that pointer cells stand for *)
}.

Record heap := mkheap {
  hnext  : nat;                          (* tokens 0..hnext-1 have been allocated *)
  hlive  : list (nat * list byte);       (* live blocks *)
  hfreed : list nat                      (* tokens handed to free(), latest first *)
}.

Definition heap0 := mkheap 0 [] [].

(* ---------- checked access to the inline cells ---------- *)
Definition crd (v : list cell) (i n : nat) : res (list cell) :=
  if i + n <=? length v then Ok (firstn n (skipn i v)) else Fault.

Definition cupd (v : list cell) (i : nat) (d : list cell) : list cell :=
  firstn i v ++ d ++ skipn (i + length d) v.

Definition cwr (v : list cell) (i : nat) (d : list cell) : res (list cell) :=
  if i + length d <=? length v then Ok (cupd v i d) else Fault.

(* interpret cells as data bytes; a pointer byte is not data *)
Fixpoint bytes_of (c : list cell) : res (list byte) :=
  match c with
  | [] => Ok []
  | B b :: r => do x <- bytes_of r; Ok (b :: x)
  | P :: _ => Fault
  end.

Definition is_ptr_cell (c : cell) := match c with P => true | B _ => false end.
Definition is_zero_cell (c : cell) := match c with B b => N.eqb b 0 | P => false end.

Definition zeros (n : nat) : list byte := repeat 0%N n.
Definition zcells (n : nat) : list cell := repeat (B 0%N) n.
Definition pcells : list cell := repeat P PTR_SIZE.

(* value of the field id->_base *)
Definition base_of (id : ident) : ptr :=
  let s := firstn PTR_SIZE (skipn BASE_OFF (ival id)) in
  if negb (length s =? PTR_SIZE) then PGarbage
  else if forallb is_ptr_cell s then PTok (iptr id)
  else if forallb is_zero_cell s then PNull
  else PGarbage.

Definition is_null (p : ptr) := match p with PNull => true | _ => false end.

(* id->_len > id->_max *)
Definition external (id : ident) : bool := imax id <? ilen id.

(* ---------- ghost heap ---------- *)
Fixpoint hfind (l : list (nat * list byte)) (t : nat) : option (list byte) :=
  match l with
  | [] => None
  | (k, d) :: r => if k =? t then Some d else hfind r t
  end.

Fixpoint hdel (l : list (nat * list byte)) (t : nat) : list (nat * list byte) :=
  match l with
  | [] => []
  | (k, d) :: r => if k =? t then r else (k, d) :: hdel r t
  end.

(* malloc(length d) followed by filling the block with d *)
Definition halloc (h : heap) (d : list byte) : nat * heap :=
  (hnext h, mkheap (S (hnext h)) ((hnext h, d) :: hlive h) (hfreed h)).

(* free(p): NULL is a no-op, a live block is released, everything else is a bad free *)
Definition hfree (h : heap) (p : ptr) : res heap :=
  match p with
  | PNull => Ok h
  | PGarbage => Fault
  | PTok t =>
    match hfind (hlive h) t with
    | Some _ => Ok (mkheap (hnext h) (hdel (hlive h) t) (t :: hfreed h))
    | None => Fault
    end
  end.

(* read n bytes through p *)
Definition hrd (h : heap) (p : ptr) (n : nat) : res (list byte) :=
  match p with
  | PTok t => match hfind (hlive h) t with Some d => rd d 0 n | None => Fault end
  | _ => Fault
  end.

(* ---------- mpt_identifier_init on fresh storage of [sz] bytes ---------- *)
Definition ident_init (sz : nat) : option ident :=
  if sz <? HSZE then None
  else let m := Nat.min (sz - HSZE) IDENT_MAX in
       Some (mkid 0 0%N m (zcells m) 0).

(* the doubling loop of mpt_identifier_new / mpt_node_new *)
Fixpoint ladder (fuel size len : nat) : nat :=
  match fuel with
  | 0 => size
  | S f => if size <? len then ladder f (2 * size) len else size
  end.

(* mpt_identifier_new: storage size chosen for a requested length *)
Definition new_size (len : nat) : option nat :=
  if lim16 <? len then None
  else
    let l := len + HSZE in
    let size := 32 in
    Some (if (size <? l) && (l <=? 256) then ladder 8 size l else size).

(* mpt_node_new: size of the identifier part of the node *)
Definition node_ident_size (len : nat) : nat :=
  let l := len + NODE_PRE in
  let size := 64 in
  (if (size <? l) && (l <=? 256) then ladder 8 size l else size) - NODE_PRE.

(* ---------- mpt_identifier_data: the [_len] stored bytes ---------- *)
Definition idata (h : heap) (id : ident) : res (list byte) :=
  if external id then hrd h (base_of id) (ilen id)
  else do c <- crd (ival id) 0 (ilen id); bytes_of c.

(* strlen of a caller buffer; running off its end faults *)
Fixpoint strlen (bs : list byte) : res nat :=
  match bs with
  | [] => Fault
  | b :: r => if N.eqb b 0 then Ok 0 else do n <- strlen r; Ok (S n)
  end.

(* ---------- mpt_identifier_set ----------
   [name] = the bytes of the caller's buffer (None: NULL), [len] = None for a
   negative length.  Result: new heap, new identifier, true iff a non-null
   address is returned. *)
Definition iset_go (h : heap) (id : ident) (name : option (list byte)) (len nlen : nat) (cs : N)
  : res (heap * ident * bool) :=
  if lim16 <? nlen then Ok (h, id, false)
  else if imax id <? nlen then
    (* length exceeds reserved size *)
    do d <- match name with
            | Some bs => do x <- rd bs 0 len; Ok (x ++ [0%N])
            | None => Ok (zeros nlen)
            end;
    let '(t, h1) := halloc h d in
    (* clear old allocation *)
    do h2 <- (if external id then hfree h1 (base_of id) else Ok h1);
    do v1 <- cwr (ival id) 0 (zcells (imax id));
    do v2 <- cwr v1 BASE_OFF pcells;
    Ok (h2, mkid nlen cs (imax id) v2 t, true)
  else
    (* local data sufficient *)
    let addr := if external id then base_of id else PNull in
    do v1 <- (if negb (len =? 0) then
                do x <- match name with
                        | Some bs => rd bs 0 len
                        | None => Ok (zeros len)
                        end;
                do v <- cwr (ival id) 0 (map B x);
                let post := imax id - len in
                if negb (post =? 0) then cwr v len (zcells post) else Ok v
              else cwr (ival id) 0 (zcells (imax id)));
    (* clear potential old allocation *)
    do h1 <- hfree h addr;
    Ok (h1, mkid nlen cs (imax id) v1 (iptr id), true).

Definition iset (h : heap) (id : ident) (name : option (list byte)) (len : option nat)
  : res (heap * ident * bool) :=
  match name, len with
  | None, None => Ok (h, id, false)
  | None, Some n => iset_go h id None n n 0%N
  | Some bs, None => do n <- strlen bs; iset_go h id name n (n + 1) CS_UTF8
  | Some bs, Some n => iset_go h id name n (n + 1) CS_UTF8
  end.

(* ---------- mpt_identifier_copy (id != from, from != NULL) ---------- *)
Definition icopy (h : heap) (id from : ident) : res (heap * ident * bool) :=
  let old := if external id then base_of id else PNull in
  do src <- idata h from;
  if ilen from <=? imax id then
    (* dest = id->_val *)
    do v0 <- (if negb (is_null old) then cwr (ival id) BASE_OFF (zcells PTR_SIZE) else Ok (ival id));
    do v1 <- cwr v0 0 (map B src);
    do h1 <- hfree h old;
    Ok (h1, mkid (ilen from) (ics from) (imax id) v1 (iptr id), true)
  else
    let '(t, h1) := halloc h src in
    do v0 <- (if negb (is_null old) then cwr (ival id) BASE_OFF (zcells PTR_SIZE) else Ok (ival id));
    do h2 <- hfree h1 old;
    do v1 <- cwr v0 0 (zcells 4);
    do v2 <- cwr v1 BASE_OFF pcells;
    Ok (h2, mkid (ilen from) (ics from) (imax id) v2 t, true).

(* copy onto itself: returns the data address *)
Definition icopy_self (id : ident) : bool :=
  if external id then negb (is_null (base_of id)) else true.

(* ---------- mpt_identifier_compare ---------- *)
Inductive cmpres := CEq | CDiff (n : nat) | CErr (e : err).

(* index of the first position where the predicate holds *)
Fixpoint first_nonzero (l : list byte) (i : nat) : option nat :=
  match l with
  | [] => None
  | b :: r => if N.eqb b 0 then first_nonzero r (S i) else Some i
  end.

Fixpoint first_diff (a b : list byte) (i : nat) : option nat :=
  match a, b with
  | x :: a', y :: b' => if N.eqb x y then first_diff a' b' (S i) else Some i
  | _, _ => None
  end.

Definition icompare (h : heap) (id : ident) (name : option (list byte)) (nlen : option nat)
  : res cmpres :=
  if (match name with Some _ => true | None => false end) && negb (N.eqb (ics id) CS_UTF8)
  then Ok (CErr BadType)
  else
    match (match nlen, name with
           | Some n, _ => Ok (Some n)
           | None, None => Ok None
           | None, Some bs => do n <- strlen bs; Ok (Some n)
           end) with
    | Fault => Fault
    | Err e => Err e
    | Ok None => Ok (CErr BadArgument)
    | Ok (Some n) =>
      if (n =? 0) && (ilen id =? 0) then Ok CEq
      else if negb (n + 1 =? ilen id) then Ok (CErr MissingData)
      else
        do base <- idata h id;
        match name with
        | None =>
          match first_nonzero base 0 with Some i => Ok (CDiff (i + 1)) | None => Ok CEq end
        | Some bs =>
          do nm <- rd bs 0 n;
          match first_diff (firstn n base) nm 0 with
          | Some i => Ok (CDiff (i + 1))
          | None => if N.eqb (nth n base 0%N) 0 then Ok CEq else Ok (CDiff n)
          end
        end
    end.

(* ---------- mpt_identifier_inequal: sign of the result ---------- *)
Inductive sign := SZero | SNeg | SPos.

Fixpoint memcmp (a b : list byte) : sign :=
  match a, b with
  | x :: a', y :: b' =>
    if N.eqb x y then memcmp a' b' else if N.ltb x y then SNeg else SPos
  | _, _ => SZero
  end.

Definition iinequal (h : heap) (id cmp : ident) : res sign :=
  if negb (N.eqb (ics id) (ics cmp)) then Ok (if N.ltb (ics id) (ics cmp) then SNeg else SPos)
  else if negb (ilen id =? ilen cmp) then Ok (if ilen id <? ilen cmp then SNeg else SPos)
  else
    do a <- idata h id;
    do b <- idata h cmp;
    Ok (memcmp a b).

(* ---------- mpt++/identifier.cpp: class identifier ----------
   Every member is a forward to the C functions above; the model entry points
   are therefore compositions of the operations above and add nothing to the
   cell/heap mechanism. *)
Definition SIZEOF_IDENT := 16.           (* sizeof(identifier) on LP64 *)

(* identifier::identifier(size_t total): mpt_identifier_init(this, total);
   the caller vouches for [total] bytes of storage behind [this] *)
Definition xinit (total : nat) : option ident := ident_init total.

(* identifier::identifier(const identifier &id):
   mpt_identifier_init(this, sizeof( *this)); mpt_identifier_copy(this, &id) *)
Definition xcopy_init (h : heap) (from : ident) : res (heap * ident * bool) :=
  match ident_init SIZEOF_IDENT with
  | Some fresh => icopy h fresh from
  | None => Fault
  end.

(* identifier::~identifier(): set_name(0, 0) *)
Definition xfini (h : heap) (id : ident) : res (heap * ident * bool) :=
  iset h id None (Some 0).

(* bool identifier::set_name(name, nlen): mpt_identifier_set(...) ? true : false *)
Definition xset_name (h : heap) (id : ident) (name : option (list byte)) (len : option nat)
  : res (heap * ident * bool) := iset h id name len.

(* bool identifier::equal(name, nlen): mpt_identifier_compare(...) ? false : true *)
Definition xequal (h : heap) (id : ident) (name : option (list byte)) (nlen : option nat) : res bool :=
  do c <- icompare h id name nlen;
  Ok (match c with CEq => true | _ => false end).

(* const char *identifier::name(): NULL unless _charset == UTF8, else
   mpt_identifier_data(this); the result is the [_len] bytes behind that address *)
Definition xname (h : heap) (id : ident) : res (option (list byte)) :=
  if negb (N.eqb (ics id) CS_UTF8) then Ok None
  else do d <- idata h id; Ok (Some d).

(* identifier &identifier::operator=(const identifier &id), this != &id:
   mpt_identifier_copy(this, &id); the result of the copy is dropped *)
Definition xassign (h : heap) (id from : ident) : res (heap * ident) :=
  do '(h', id', _) <- icopy h id from; Ok (h', id').

(* ---------- a world: several identifiers sharing one heap ---------- *)
Record world := mkw { wh : heap; wids : list ident }.

Fixpoint set_nth {A} (l : list A) (i : nat) (x : A) : list A :=
  match l, i with
  | [], _ => []
  | _ :: r, 0 => x :: r
  | y :: r, S k => y :: set_nth r k x
  end.

Inductive op :=
| OSet (i : nat) (name : option (list byte)) (len : option nat)
| OCopy (i : nat) (j : option nat)
| OCompare (i : nat) (name : option (list byte)) (nlen : option nat)
| OInequal (i j : nat)
| ONew (len : nat)
| ONode (len : nat)
(* members of the C++ class identifier (mpt++/identifier.cpp) *)
| OXSet (i : nat) (name : option (list byte)) (len : option nat)      (* set_name *)
| OXEqual (i : nat) (name : option (list byte)) (nlen : option nat)   (* equal *)
| OXName (i : nat)                                                    (* name *)
| OXAssign (i j : nat)                                                (* operator= *)
| OXCtor (i j : nat)     (* the object in slot i is destroyed, a copy-constructed object takes its place *)
| OXNew (i total : nat)  (* the object in slot i is destroyed, identifier(total) takes its place *)
(* the name lies inside the identifier's own current content (aliasing source):
   mpt_identifier_set(id, data(id) + off, len) *)
| OSetSelf (i off : nat) (len : option nat).

(* The argument a caller makes out of the identifier's own stored bytes [d]:
   the buffer starts [off] bytes into them (at their end when there are fewer)
   and ends where they end.  An explicit length is cut to what is left; the
   strlen interface (None) is used only when a terminator lies in the buffer,
   else the whole rest is announced -- so the caller keeps the C calling
   convention whatever the content is.  harness/c16_ident.c (ops seta/setaz)
   makes the same choice from _len and the stored bytes. *)
Definition self_arg (d : list byte) (off : nat) (len : option nat) : list byte * option nat :=
  let bs := skipn off d in
  match len with
  | Some n => (bs, Some (Nat.min n (length bs)))
  | None => if existsb (N.eqb 0) bs then (bs, None) else (bs, Some (length bs))
  end.

Inductive out :=
| ODone | ORefused
| OCmp (c : cmpres) | OEq (b : bool)
| OSign (s : sign)
| OMax (m : option nat)
| OName (d : option (list byte))
| OFault.

Definition lift_set (w : world) (i : nat) (r : res (heap * ident * bool)) : res (world * out) :=
  do '(h, id, ok) <- r;
  Ok (mkw h (set_nth (wids w) i id), if ok then ODone else ORefused).

Definition mstep (w : world) (o : op) : res (world * out) :=
  match o with
  | OSet i name len =>
    match nth_error (wids w) i with
    | Some id => lift_set w i (iset (wh w) id name len)
    | None => Ok (w, ORefused)
    end
  | OCopy i None =>
    match nth_error (wids w) i with
    | Some id => lift_set w i (iset (wh w) id None (Some 0))
    | None => Ok (w, ORefused)
    end
  | OCopy i (Some j) =>
    match nth_error (wids w) i, nth_error (wids w) j with
    | Some id, Some from =>
      if i =? j then Ok (w, if icopy_self id then ODone else ORefused)
      else lift_set w i (icopy (wh w) id from)
    | _, _ => Ok (w, ORefused)
    end
  | OCompare i name nlen =>
    match nth_error (wids w) i with
    | Some id => do c <- icompare (wh w) id name nlen; Ok (w, OCmp c)
    | None => Ok (w, ORefused)
    end
  | OInequal i j =>
    match nth_error (wids w) i, nth_error (wids w) j with
    | Some a, Some b => do s <- iinequal (wh w) a b; Ok (w, OSign s)
    | _, _ => Ok (w, ORefused)
    end
  | ONew len =>
    Ok (w, OMax (match new_size len with
                 | Some sz => match ident_init sz with Some id => Some (imax id) | None => None end
                 | None => None
                 end))
  | ONode len =>
    Ok (w, OMax (match ident_init (node_ident_size len) with Some id => Some (imax id) | None => None end))
  | OXSet i name len =>
    match nth_error (wids w) i with
    | Some id => lift_set w i (xset_name (wh w) id name len)
    | None => Ok (w, ORefused)
    end
  | OXEqual i name nlen =>
    match nth_error (wids w) i with
    | Some id => do b <- xequal (wh w) id name nlen; Ok (w, OEq b)
    | None => Ok (w, ORefused)
    end
  | OXName i =>
    match nth_error (wids w) i with
    | Some id => do d <- xname (wh w) id; Ok (w, OName d)
    | None => Ok (w, ORefused)
    end
  | OXAssign i j =>
    match nth_error (wids w) i, nth_error (wids w) j with
    | Some id, Some from =>
      if i =? j then (let _ := icopy_self id in Ok (w, ODone))
      else do '(h, id') <- xassign (wh w) id from;
           Ok (mkw h (set_nth (wids w) i id'), ODone)
    | _, _ => Ok (w, ORefused)
    end
  | OXCtor i j =>
    match nth_error (wids w) i, nth_error (wids w) j with
    | Some id, Some from =>
      if i =? j then Ok (w, ORefused)
      else
        do '(h1, _, _) <- xfini (wh w) id;            (* the old object of the slot is destroyed *)
        do '(h2, id', _) <- xcopy_init h1 from;       (* a new one is copy-constructed on 16 bytes *)
        Ok (mkw h2 (set_nth (wids w) i id'), ODone)
    | _, _ => Ok (w, ORefused)
    end
  | OXNew i total =>
    match nth_error (wids w) i, xinit total with
    | Some id, Some fresh =>
      do '(h1, _, _) <- xfini (wh w) id;
      Ok (mkw h1 (set_nth (wids w) i fresh), ODone)
    | _, _ => Ok (w, ORefused)
    end
  | OSetSelf i off len =>
    (* the source bytes are the identifier's own: they are read where the C code
       reads them, i.e. before anything of the identifier or its block is given
       up (memcpy first, free / clearing afterwards; the inline-to-inline move of
       overlapping ranges is a memmove, see docs/C16_alias_overlap.diff) *)
    match nth_error (wids w) i with
    | Some id =>
      do d <- idata (wh w) id;
      let '(bs, l) := self_arg d off len in
      lift_set w i (iset (wh w) id (Some bs) l)
    | None => Ok (w, ORefused)
    end
  end.

(* what is observed of a world: (len, charset, bytes) of every identifier, number of live blocks *)
Definition slot_obs := (nat * N * list byte)%type.

Fixpoint obs_slots (h : heap) (ids : list ident) : res (list slot_obs) :=
  match ids with
  | [] => Ok []
  | id :: r =>
    do d <- idata h id;
    do x <- obs_slots h r;
    Ok ((ilen id, ics id, d) :: x)
  end.

Inductive obs :=
| Step (o : out) (s : list slot_obs) (live : nat)
| Crash.

Fixpoint mrun (w : world) (ops : list op) : list obs :=
  match ops with
  | [] => []
  | o :: r =>
    match mstep w o with
    | Ok (w', out) =>
      match obs_slots (wh w') (wids w') with
      | Ok s => Step out s (length (hlive (wh w'))) :: mrun w' r
      | _ => [Crash]
      end
    | _ => [Crash]
    end
  end.

(* state after a history (None when the model faulted) *)
Fixpoint mexec (w : world) (ops : list op) : option world :=
  match ops with
  | [] => Some w
  | o :: r => match mstep w o with Ok (w', _) => mexec w' r | _ => None end
  end.

(* the cleanup every owner performs: mpt_identifier_set(id, 0, 0) on each identifier *)
Definition clear_ops (n : nat) : list op := map (fun i => OSet i None (Some 0)) (seq 0 n).

(* number of blocks still allocated after the cleanup *)
Definition mfinish (w : world) : option nat :=
  match mexec w (clear_ops (length (wids w))) with
  | Some w' => Some (length (hlive (wh w')))
  | None => None
  end.

Fixpoint init_ids (sizes : list nat) : list ident :=
  match sizes with
  | [] => []
  | s :: r => match ident_init s with Some id => id :: init_ids r | None => init_ids r end
  end.

Definition init_world (sizes : list nat) : world := mkw heap0 (init_ids sizes).

(* live blocks after a history followed by the cleanup *)
Definition mend (w : world) (ops : list op) : option nat :=
  match mexec w ops with Some w' => mfinish w' | None => None end.

(* [mrun] and [mend] in one pass (what the driver calls) *)
Fixpoint mrun_end (w : world) (ops : list op) : list obs * option nat :=
  match ops with
  | [] => ([], mfinish w)
  | o :: r =>
    match mstep w o with
    | Ok (w', out) =>
      match obs_slots (wh w') (wids w') with
      | Ok s => let '(l, e) := mrun_end w' r in (Step out s (length (hlive (wh w'))) :: l, e)
      | _ => ([Crash], None)
      end
    | _ => ([Crash], None)
    end
  end.
