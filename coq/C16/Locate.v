(* C16/Locate.v — mpt_node_locate (mptcore/node/node_locate.c): lookup of a node by name in a
   sibling list, forwards from a node, backwards before a node, or "last match" (pos = 0).
   Names are byte lists without zero bytes stored with the default charset (identifier length =
   name length + 1); the comparison  idlen == clen && !cid[len] && !memcmp(...)  of the C code is
   equality of the name bytes.  Model (traversal as the C does it), specification (k-th equal
   name in the direction of the search) and their agreement. *)
From MptV Require Import Base.Mem Base.Tactics.
Local Open Scope nat_scope.

Fixpoint beq_bytes (a b : list byte) : bool :=
  match a, b with
  | [], [] => true
  | x :: a', y :: b' => N.eqb x y && beq_bytes a' b'
  | _, _ => false
  end.

(* forward loop: do { if match && !(--pos) break; } while ((curr = curr->next)) *)
Fixpoint loc_fwd (l : list (list byte)) (idx pos : nat) (key : list byte) : option nat :=
  match l with
  | [] => None
  | n :: r =>
    if beq_bytes key n then
      if pos =? 1 then Some idx else loc_fwd r (S idx) (pos - 1) key
    else loc_fwd r (S idx) pos key
  end.

(* backward loop over the nodes before the start node, nearest first; [idx] = index of the head *)
Fixpoint loc_bwd (l : list (list byte)) (idx cnt : nat) (key : list byte) : option nat :=
  match l with
  | [] => None
  | n :: r =>
    if beq_bytes key n then
      if cnt =? 1 then Some idx else loc_bwd r (idx - 1) (cnt - 1) key
    else loc_bwd r (idx - 1) cnt key
  end.

Inductive lpos := LFwd (k : nat) | LLast | LBwd (k : nat).   (* pos > 0 | pos = 0 | pos < 0, k = |pos| >= 1 *)

Definition locate (names : list (list byte)) (start : nat) (p : lpos) (key : list byte) : option nat :=
  if length names <=? start then None else
  match p with
  | LFwd k => loc_fwd (skipn start names) start k key
  | LBwd k => loc_bwd (rev (firstn start names)) (start - 1) k key
  | LLast =>
    let last := length names - 1 in
    if beq_bytes key (nth last names []) then Some last
    else loc_bwd (rev (firstn last names)) (last - 1) 1 key
  end.

(* specification: indices of the nodes carrying exactly that name *)
Fixpoint matches (l : list (list byte)) (idx : nat) (key : list byte) : list nat :=
  match l with
  | [] => []
  | n :: r => if beq_bytes key n then idx :: matches r (S idx) key else matches r (S idx) key
  end.

Definition locate_spec (names : list (list byte)) (start : nat) (p : lpos) (key : list byte) : option nat :=
  if length names <=? start then None else
  let ms := matches names 0 key in
  match p with
  | LFwd k => nth_error (filter (fun i => start <=? i) ms) (k - 1)
  | LBwd k => nth_error (rev (filter (fun i => i <? start) ms)) (k - 1)
  | LLast => nth_error (rev ms) 0
  end.

Lemma beq_bytes_eq a : forall b, beq_bytes a b = true <-> a = b.
Proof.
  induction a as [|x a IH]; intros [|y b]; cbn [beq_bytes]; split; intros H; try discriminate; try reflexivity.
  - apply andb_prop in H. destruct H as [H1 H2]. apply N.eqb_eq in H1. apply IH in H2. subst. reflexivity.
  - inversion H; subst. rewrite N.eqb_refl. cbn [andb]. apply IH. reflexivity.
Qed.

(* ---------- agreement of the traversal with the specification ---------- *)
Lemma firstn_app_exact' {A} (a b : list A) : firstn (length a) (a ++ b) = a.
Proof. rewrite firstn_app, Nat.sub_diag, firstn_all. cbn. apply app_nil_r. Qed.

Lemma matches_app a : forall b idx key,
  matches (a ++ b) idx key = matches a idx key ++ matches b (idx + length a) key.
Proof.
  induction a as [|n a IH]; intros b idx key; cbn [app matches length].
  - rewrite Nat.add_0_r. reflexivity.
  - rewrite IH. replace (S idx + length a) with (idx + S (length a)) by lia.
    destruct (beq_bytes key n); reflexivity.
Qed.

Lemma matches_range l : forall idx key i, In i (matches l idx key) -> idx <= i < idx + length l.
Proof.
  induction l as [|n l IH]; intros idx key i H; cbn [matches] in H; [contradiction|].
  cbn [length]. destruct (beq_bytes key n).
  - destruct H as [<-|H]; [lia|]. apply IH in H. lia.
  - apply IH in H. lia.
Qed.

Lemma filter_all {A} (f : A -> bool) l : (forall x, In x l -> f x = true) -> filter f l = l.
Proof.
  induction l as [|x l IH]; intros H; [reflexivity|]. cbn [filter].
  rewrite (H x (or_introl eq_refl)). f_equal. apply IH. intros y Hy. apply H. right. assumption.
Qed.

Lemma filter_none {A} (f : A -> bool) l : (forall x, In x l -> f x = false) -> filter f l = [].
Proof.
  induction l as [|x l IH]; intros H; [reflexivity|]. cbn [filter].
  rewrite (H x (or_introl eq_refl)). apply IH. intros y Hy. apply H. right. assumption.
Qed.

Lemma loc_fwd_spec l : forall idx k key, 1 <= k ->
  loc_fwd l idx k key = nth_error (matches l idx key) (k - 1).
Proof.
  induction l as [|n l IH]; intros idx k key Hk; cbn [loc_fwd matches].
  - destruct (k - 1); reflexivity.
  - destruct (beq_bytes key n).
    + destruct (Nat.eqb_spec k 1) as [->|Hne]; [reflexivity|].
      rewrite IH by lia. replace (k - 1) with (S (k - 1 - 1)) at 2 by lia. reflexivity.
    + apply IH. assumption.
Qed.

Lemma loc_bwd_spec l : forall k key, 1 <= k ->
  loc_bwd (rev l) (length l - 1) k key = nth_error (rev (matches l 0 key)) (k - 1).
Proof.
  induction l as [|n l IH] using rev_ind; intros k key Hk.
  - cbn. destruct (k - 1); reflexivity.
  - rewrite rev_app_distr. cbn [rev app loc_bwd].
    rewrite matches_app, rev_app_distr. cbn [matches Nat.add].
    rewrite app_length. cbn [length].
    replace (length l + 1 - 1) with (length l) by lia.
    destruct (beq_bytes key n).
    + cbn [rev app].
      destruct (Nat.eqb_spec k 1) as [->|Hne]; [reflexivity|].
      rewrite IH by lia. replace (k - 1) with (S (k - 1 - 1)) at 2 by lia. reflexivity.
    + cbn [rev app]. apply IH. assumption.
Qed.

Theorem locate_refines_spec names start p key :
  (match p with LFwd k | LBwd k => 1 <= k | LLast => True end) ->
  locate names start p key = locate_spec names start p key.
Proof.
  intros Hk. unfold locate, locate_spec.
  destruct (Nat.leb_spec (length names) start) as [|Hs]; [reflexivity|].
  assert (Hsplit : names = firstn start names ++ skipn start names) by (symmetry; apply firstn_skipn).
  assert (Hlf : length (firstn start names) = start) by (rewrite firstn_length; lia).
  destruct p as [k| |k].
  - rewrite loc_fwd_spec by assumption. f_equal.
    rewrite Hsplit at 2. rewrite matches_app, filter_app, Hlf. cbn [Nat.add].
    rewrite filter_none, filter_all; [reflexivity| |].
    + intros i Hi. apply matches_range in Hi. apply Nat.leb_le. lia.
    + intros i Hi. apply matches_range in Hi. apply Nat.leb_gt. lia.
  - (* last match *)
    assert (Hne : names <> []) by (intros ->; cbn in Hs; lia).
    pose proof (app_removelast_last [] Hne) as Hlast.
    set (body := removelast names) in *. set (lst := last names []) in *.
    assert (Hlen : length names = S (length body)) by (rewrite Hlast, app_length; cbn; lia).
    assert (Hnth : nth (length names - 1) names [] = lst).
    { rewrite Hlast at 2. rewrite app_nth2 by lia. replace (length names - 1 - length body) with 0 by lia. reflexivity. }
    assert (Hfirst : firstn (length names - 1) names = body).
    { rewrite Hlast at 2. replace (length names - 1) with (length body) by lia. apply firstn_app_exact'. }
    rewrite Hnth, Hfirst.
    rewrite Hlast at 3. rewrite matches_app, rev_app_distr. cbn [matches Nat.add].
    destruct (beq_bytes key lst).
    + cbn [rev app nth_error]. f_equal. lia.
    + cbn [rev app]. replace (length names - 1 - 1) with (length body - 1) by lia.
      rewrite (loc_bwd_spec body 1 key) by lia. reflexivity.
  - replace (start - 1) with (length (firstn start names) - 1) by lia.
    rewrite loc_bwd_spec by assumption. f_equal. f_equal.
    rewrite Hsplit at 2. rewrite matches_app, filter_app, Hlf. cbn [Nat.add].
    rewrite filter_all, filter_none; [rewrite app_nil_r; reflexivity| |].
    + intros i Hi. apply matches_range in Hi. apply Nat.ltb_ge. lia.
    + intros i Hi. apply matches_range in Hi. apply Nat.ltb_lt. lia.
Qed.
