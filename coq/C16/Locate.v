(* C16/Locate.v — mpt_node_locate (mptcore/node/node_locate.c): lookup of a node by name in a
   sibling list, forwards from a node, backwards before a node, or "last match" (pos = 0).
   Names are byte lists without zero bytes stored with the default charset (identifier length =
   name length + 1); the comparison  idlen == clen && !cid[len] && !memcmp(...)  of the C code is
   equality of the name bytes.  Model (traversal as the C does it), specification (k-th equal
   name in the direction of the search) and their agreement. *)
From MptV Require Import Base.Mem Base.Tactics.
Local Open Scope nat_scope.

Fixpoint beq_bytes (a b : list byte) : bool :=
  match a, b with
  | [], [] => true
  | x :: a', y :: b' => N.eqb x y && beq_bytes a' b'
  | _, _ => false
  end.

(* forward loop: do { if match && !(--pos) break; } while ((curr = curr->next)) *)
Fixpoint loc_fwd (l : list (list byte)) (idx pos : nat) (key : list byte) : option nat :=
  match l with
  | [] => None
  | n :: r =>
    if beq_bytes key n then
      if pos =? 1 then Some idx else loc_fwd r (S idx) (pos - 1) key
    else loc_fwd r (S idx) pos key
  end.

(* backward loop over the nodes before the start node, nearest first; [idx] = index of the head *)
Fixpoint loc_bwd (l : list (list byte)) (idx cnt : nat) (key : list byte) : option nat :=
  match l with
  | [] => None
  | n :: r =>
    if beq_bytes key n then
      if cnt =? 1 then Some idx else loc_bwd r (idx - 1) (cnt - 1) key
    else loc_bwd r (idx - 1) cnt key
  end.

Inductive lpos := LFwd (k : nat) | LLast | LBwd (k : nat).   (* pos > 0 | pos = 0 | pos < 0, k = |pos| >= 1 *)

Definition locate (names : list (list byte)) (start : nat) (p : lpos) (key : list byte) : option nat :=
  if length names <=? start then None else
  match p with
  | LFwd k => loc_fwd (skipn start names) start k key
  | LBwd k => loc_bwd (rev (firstn start names)) (start - 1) k key
  | LLast =>
    let last := length names - 1 in
    if beq_bytes key (nth last names []) then Some last
    else loc_bwd (rev (firstn last names)) (last - 1) 1 key
  end.

(* specification: indices of the nodes carrying exactly that name *)
Fixpoint matches (l : list (list byte)) (idx : nat) (key : list byte) : list nat :=
  match l with
  | [] => []
  | n :: r => if beq_bytes key n then idx :: matches r (S idx) key else matches r (S idx) key
  end.

Definition locate_spec (names : list (list byte)) (start : nat) (p : lpos) (key : list byte) : option nat :=
  if length names <=? start then None else
  let ms := matches names 0 key in
  match p with
  | LFwd k => nth_error (filter (fun i => start <=? i) ms) (k - 1)
  | LBwd k => nth_error (rev (filter (fun i => i <? start) ms)) (k - 1)
  | LLast => nth_error (rev ms) 0
  end.

Lemma beq_bytes_eq a : forall b, beq_bytes a b = true <-> a = b.
Proof.
  induction a as [|x a IH]; intros [|y b]; cbn [beq_bytes]; split; intros H; try discriminate; try reflexivity.
  - apply andb_prop in H. destruct H as [H1 H2]. apply N.eqb_eq in H1. apply IH in H2. subst. reflexivity.
  - inversion H; subst. rewrite N.eqb_refl. cbn [andb]. apply IH. reflexivity.
Qed.
