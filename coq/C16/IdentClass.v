(* C16/IdentClass.v — property-level statements about the C++ class identifier
   (mpt++/identifier.cpp): its members are compositions of the C operations, so
   the statements follow from the closed forms and the world invariant. *)
From MptV Require Import Base.Mem Base.Tactics C16.IdentModel C16.IdentSpec C16.IdentProofs
  C16.IdentWorld C16.IdentHeap C16.IdentProps.
Local Open Scope nat_scope.

(* what slot i of an invariant world holds is what the abstraction says *)
Lemma slot_content w i id cs d :
  winv w -> nth_error (wids w) i = Some id -> nth_error (absw w) i = Some (cs, d) ->
  idok (wh w) id d /\ ics id = cs.
Proof.
  intros (_ & Hids & _) Hi Ha. destruct (Hids _ _ Hi) as [x Hx].
  rewrite (absw_nth _ _ _ _ Hi Hx) in Ha. inversion Ha; subst. auto.
Qed.

(* set_name is mpt_identifier_set, the destructor is set_name(0, 0) = the owner's cleanup *)
Lemma set_name_is_set w i name len : mstep w (OXSet i name len) = mstep w (OSet i name len).
Proof. reflexivity. Qed.

Lemma dtor_is_clear w i id :
  nth_error (wids w) i = Some id ->
  mstep w (OSet i None (Some 0)) = lift_set w i (xfini (wh w) id).
Proof. intros H. cbn [mstep]. rewrite H. reflexivity. Qed.

(* operator= is mpt_identifier_copy (also onto itself) in every invariant world *)
Lemma assign_is_copy w i j : winv w -> mstep w (OXAssign i j) = mstep w (OCopy i (Some j)).
Proof.
  intros Hw. pose proof Hw as (Hh & Hids & _). cbn [mstep].
  destruct (nth_error (wids w) i) as [id|] eqn:Ei; [|reflexivity].
  destruct (nth_error (wids w) j) as [from|] eqn:Ej; [|reflexivity].
  destruct (Hids _ _ Ei) as [d Hd]. destruct (Hids _ _ Ej) as [df Hdf].
  destruct (Nat.eqb_spec i j) as [E|E].
  - cbv zeta. unfold icopy_self. destruct Hd as (_ & R & _). unfold idrep in R.
    destruct (external id); [|reflexivity]. destruct R as [R _].
    rewrite (base_of_ext _ R). reflexivity.
  - destruct (icopy_closed (wh w) id d from df Hd Hdf Hh) as (id' & E1 & _).
    unfold xassign, lift_set. rewrite E1. reflexivity.
Qed.

(* equal(name, n) is true exactly when the identifier holds that text name *)
Lemma xequal_iff_equal h id d bs n :
  idok h id d -> n <= length bs ->
  exists b, xequal h id (Some bs) (Some n) = Ok b /\
            (b = true <-> (ics id, d) = name_val (firstn n bs)).
Proof.
  intros Hid Hn. destruct (compare_iff_equal h id d bs n Hid Hn) as (c & E1 & E2).
  unfold xequal. rewrite E1. cbn [bind]. eexists. split; [reflexivity|].
  rewrite <- E2. destruct c; split; intros; congruence.
Qed.

(* name() hands out the stored bytes of a text name and nothing for other content *)
Lemma xname_reads h id d :
  idok h id d ->
  xname h id = Ok (if N.eqb (ics id) CS_UTF8 then Some d else None).
Proof.
  intros Hid. unfold xname. destruct (N.eqb (ics id) CS_UTF8); cbn [negb]; [|reflexivity].
  rewrite (idata_ok _ _ _ Hid). reflexivity.
Qed.

(* set_name(bs) then name(): exactly bs and its terminator *)
Lemma xset_name_then_name h id d bs :
  hinv h -> idok h id d -> length bs + 1 <= lim16 ->
  exists h' id', xset_name h id (Some bs) (Some (length bs)) = Ok (h', id', true) /\
                 xname h' id' = Ok (Some (bs ++ [0%N])) /\ imax id' = imax id.
Proof.
  intros Hh Hid Hl. destruct (set_get h id d bs Hh Hid Hl) as (h' & id' & E1 & (S1 & S2 & S3 & S4 & S5) & E3).
  exists h', id'. split; [exact E1|]. split; [|exact E3].
  rewrite (xname_reads _ _ _ S4), S3. reflexivity.
Qed.

(* copy construction into slot i from slot j (the previous object of slot i is
   destroyed first): succeeds, the new object has the 16-byte layout (capacity
   12) whatever the size of the source, holds the source's bytes and charset
   and compares equal; the source object is the identical record and still
   holds its bytes; all other objects keep their content; invariant kept. *)
Lemma ctor_copy_equal_src_untouched w i j a b db :
  winv w -> i <> j -> nth_error (wids w) i = Some a -> nth_error (wids w) j = Some b ->
  idok (wh w) b db ->
  exists w' a',
    mstep w (OXCtor i j) = Ok (w', ODone) /\ winv w' /\
    absw w' = set_nth (absw w) i (ics b, db) /\
    nth_error (wids w') j = Some b /\ idok (wh w') b db /\
    nth_error (wids w') i = Some a' /\ idok (wh w') a' db /\ ics a' = ics b /\ imax a' = 12 /\
    iinequal (wh w') a' b = Ok SZero /\
    xname (wh w') a' = xname (wh w) b.
Proof.
  intros Hw E Hi Hj Hdb.
  destruct (xctor_step w i j a b db Hw E Hi Hj Hdb) as (h1 & id1 & h2 & a' & E1 & G1 & A & C & M).
  pose proof (nth_error_lt _ _ _ Hi) as Hlt.
  set (w' := mkw h2 (set_nth (wids w) i a')) in *.
  assert (Hi' : nth_error (wids w') i = Some a') by (apply nth_error_set_nth_eq; exact Hlt).
  assert (Hj' : nth_error (wids w') j = Some b).
  { cbn [wids w']. rewrite nth_error_set_nth_neq by auto. exact Hj. }
  assert (Hlen : i < length (absw w)) by (unfold absw; rewrite map_length; exact Hlt).
  destruct (slot_content w' i a' (ics b) db A Hi') as [Ha' Ecs].
  { rewrite C. apply nth_error_set_nth_eq. exact Hlen. }
  destruct (slot_content w' j b (ics b) db A Hj') as [Hb' _].
  { rewrite C, nth_error_set_nth_neq by auto. apply absw_nth; assumption. }
  exists w', a'. split.
  { cbn [mstep]. rewrite Hi, Hj. destruct (Nat.eqb_spec i j); [contradiction|].
    rewrite E1. cbn [bind]. rewrite G1. reflexivity. }
  split; [exact A|]. split; [exact C|]. split; [exact Hj'|]. split; [exact Hb'|].
  split; [exact Hi'|]. split; [exact Ha'|]. split; [exact Ecs|]. split; [exact M|].
  split.
  - destruct (iinequal_closed _ a' db b db Ha' Hb') as (s & F1 & F2).
    rewrite F1. f_equal.
    assert (X : aval_eqb (ics a', db) (ics b, db) = true) by (apply aval_eqb_eq; rewrite Ecs; reflexivity).
    rewrite X in F2. destruct s; simpl in F2; congruence.
  - rewrite (xname_reads _ _ _ Ha'), (xname_reads _ _ _ Hdb), Ecs. reflexivity.
Qed.

(* identifier(total) into slot i (the previous object is destroyed first): the
   new object holds no name, has the capacity the storage allows, its previous
   allocation is gone with the old object; everything else keeps its content *)
Lemma xnew_unset w i a total :
  winv w -> nth_error (wids w) i = Some a -> 16 <= total ->
  exists w' a',
    mstep w (OXNew i total) = Ok (w', ODone) /\ winv w' /\
    absw w' = set_nth (absw w) i unset /\
    nth_error (wids w') i = Some a' /\ idok (wh w') a' [] /\ external a' = false /\
    imax a' = Nat.min (total - 4) 252 /\ xname (wh w') a' = Ok None.
Proof.
  intros Hw Hi Ht.
  destruct (reinit_step w i a total Hw Hi Ht) as (h1 & id1 & fresh & E1 & F1 & F3 & A & C & Hf & F6).
  pose proof (nth_error_lt _ _ _ Hi) as Hlt.
  exists (mkw h1 (set_nth (wids w) i fresh)), fresh. split.
  { cbn [mstep]. rewrite Hi. unfold xinit. rewrite F1, E1. reflexivity. }
  split; [exact A|]. split; [exact C|].
  split; [apply nth_error_set_nth_eq; exact Hlt|]. split; [exact Hf|]. split; [exact F3|].
  split; [exact F6|].
  cbn [wh]. rewrite (xname_reads _ _ _ Hf).
  assert (Hlen : i < length (absw w)) by (unfold absw; rewrite map_length; exact Hlt).
  destruct (slot_content _ i fresh 0%N [] A) as [_ Ecs].
  { cbn [wids]. apply nth_error_set_nth_eq. exact Hlt. }
  { rewrite C. apply nth_error_set_nth_eq. exact Hlen. }
  rewrite Ecs. reflexivity.
Qed.

Lemma mexec_xset_clear l : forall w,
  mexec w (map (fun i => OXSet i None (Some 0)) l) = mexec w (map (fun i => OSet i None (Some 0)) l).
Proof.
  induction l as [|k l IH]; intros w; [reflexivity|].
  cbn [map mexec]. rewrite set_name_is_set. destruct (mstep w (OSet k None (Some 0))) as [[w1 o]| |]; auto.
Qed.

(* destroying every object (the destructor is set_name(0, 0)) of any invariant
   world leaves no live block and every object without a name *)
Lemma destroy_all_no_live w :
  winv w ->
  exists w', mexec w (map (fun i => OXSet i None (Some 0)) (seq 0 (length (wids w)))) = Some w' /\
             winv w' /\ hlive (wh w') = [] /\ absw w' = repeat unset (length (wids w)).
Proof.
  intros Hw. destruct (cleanup_releases_all w Hw) as (w' & E & R).
  exists w'. split; [|exact R]. rewrite <- E. unfold clear_ops.
  apply mexec_xset_clear.
Qed.

(* data of the non-vacuity examples *)
Definition ex_text : list byte := [77;80;84]%N.
