(* Extraction of the executable model and specification of C16 (ExtrOcamlBasic only). *)
From MptV Require Import Base.Mem C16.IdentModel C16.IdentSpec C16.Locate.
Require Import ExtrOcamlBasic.
Extraction "c16_model.ml" mrun_end srun absw init_world new_size ident_init locate locate_spec LFwd LLast LBwd.
