(* C16/IdentProofs.v — lemmas about cells, the ghost heap and one identifier:
   representation predicate [idok], the closed forms of mpt_identifier_set /
   _copy on a represented identifier, compare / inequal decide equality. *)
From MptV Require Import Base.Mem Base.Tactics C16.IdentModel C16.IdentSpec.
Local Open Scope nat_scope.

(* ------------------------------------------------------------------ lists *)
Lemma length_set_nth {A} (l : list A) i x : length (set_nth l i x) = length l.
Proof. revert i; induction l; intros [|i]; simpl; auto. Qed.

Lemma nth_error_set_nth_eq {A} (l : list A) i x :
  i < length l -> nth_error (set_nth l i x) i = Some x.
Proof. revert i; induction l; intros [|i] H; simpl in *; try lia; auto. apply IHl; lia. Qed.

Lemma nth_error_set_nth_neq {A} (l : list A) i j x :
  i <> j -> nth_error (set_nth l i x) j = nth_error l j.
Proof.
  revert i j; induction l; intros [|i] [|j] H; simpl; auto; try lia; try (apply IHl; lia).
Qed.

Lemma map_set_nth {A C} (f : A -> C) (l : list A) i x :
  map f (set_nth l i x) = set_nth (map f l) i (f x).
Proof. revert i; induction l; intros [|i]; simpl; auto. f_equal; apply IHl. Qed.

Lemma set_nth_map_ext {A C} (f g : A -> C) (l : list A) i v :
  (forall k x, k <> i -> nth_error l k = Some x -> f x = g x) ->
  set_nth (map f l) i v = set_nth (map g l) i v.
Proof.
  revert i; induction l as [|a l IH]; intros [|i] H; simpl; auto.
  - f_equal. apply map_ext_in. intros x Hx.
    destruct (In_nth_error _ _ Hx) as [k Hk]. apply (H (S k)); [lia|exact Hk].
  - f_equal; [apply (H 0); [lia|reflexivity]|].
    apply IH. intros k x Hk Hx. apply (H (S k)); [lia|exact Hx].
Qed.

Lemma set_nth_same {A} (l : list A) i x : nth_error l i = Some x -> set_nth l i x = l.
Proof.
  revert i; induction l; intros [|i] H; simpl in *; try discriminate; auto.
  - inversion H; auto.
  - f_equal; auto.
Qed.

Lemma nth_error_lt {A} (l : list A) i x : nth_error l i = Some x -> i < length l.
Proof. intros H. apply nth_error_Some. congruence. Qed.

(* ------------------------------------------------------------------ cells *)
Lemma cupd_length v i d : i + length d <= length v -> length (cupd v i d) = length v.
Proof. intros H. unfold cupd. rewrite !app_length, firstn_length, skipn_length. lia. Qed.

Lemma cwr_ok v i d : i + length d <= length v -> cwr v i d = Ok (cupd v i d).
Proof. intros H. unfold cwr. destruct (Nat.leb_spec (i + length d) (length v)); [reflexivity|lia]. Qed.

Lemma crd_ok v i n : i + n <= length v -> crd v i n = Ok (firstn n (skipn i v)).
Proof. intros H. unfold crd. destruct (Nat.leb_spec (i + n) (length v)); [reflexivity|lia]. Qed.

Lemma bytes_of_map l : bytes_of (map B l) = Ok l.
Proof. induction l; simpl; auto. rewrite IHl. reflexivity. Qed.

Lemma slice_cupd v i d :
  i + length d <= length v -> firstn (length d) (skipn i (cupd v i d)) = d.
Proof.
  intros H. unfold cupd.
  rewrite skipn_app, firstn_length, Nat.min_l by lia.
  rewrite skipn_all2 by (rewrite firstn_length; lia).
  rewrite Nat.sub_diag. simpl.
  rewrite firstn_app, Nat.sub_diag, firstn_all. simpl. apply app_nil_r.
Qed.

Lemma firstn_cupd0 v d : length d <= length v -> firstn (length d) (cupd v 0 d) = d.
Proof. intros H. apply (slice_cupd v 0 d). simpl; lia. Qed.

Lemma cupd_full v d : length d = length v -> cupd v 0 d = d.
Proof.
  intros H. unfold cupd. simpl. rewrite skipn_all2 by lia. apply app_nil_r.
Qed.

Lemma zcells_length n : length (zcells n) = n.
Proof. apply repeat_length. Qed.
Lemma zeros_length n : length (zeros n) = n.
Proof. apply repeat_length. Qed.
Lemma pcells_length : length pcells = 8.
Proof. reflexivity. Qed.

Lemma map_B_zeros n : map B (zeros n) = zcells n.
Proof. unfold zeros, zcells. induction n; simpl; congruence. Qed.

Lemma firstn_repeat {A} (x : A) n k : k <= n -> firstn k (repeat x n) = repeat x k.
Proof. revert n; induction k; intros [|n] H; simpl; auto; try lia. f_equal. apply IHk. lia. Qed.

(* ------------------------------------------------------------------ heap *)
Definition toks (h : heap) : list nat := map fst (hlive h).

Lemma hfind_In l t d : hfind l t = Some d -> In t (map fst l).
Proof.
  induction l as [|[k x] l IH]; simpl; [discriminate|].
  destruct (Nat.eqb_spec k t); auto.
Qed.

Lemma In_hfind l t : In t (map fst l) -> exists d, hfind l t = Some d.
Proof.
  induction l as [|[k x] l IH]; simpl; [tauto|].
  intros [H|H]; destruct (Nat.eqb_spec k t); eauto; congruence.
Qed.

Lemma hfind_hdel_other l t u : t <> u -> hfind (hdel l t) u = hfind l u.
Proof.
  intros H. induction l as [|[k x] l IH]; simpl; auto.
  destruct (Nat.eqb_spec k t); simpl.
  - subst. destruct (Nat.eqb_spec t u); [congruence|reflexivity].
  - rewrite IH. reflexivity.
Qed.

Lemma In_hdel l t u : In u (map fst (hdel l t)) -> In u (map fst l).
Proof.
  induction l as [|[k x] l IH]; simpl; auto.
  destruct (Nat.eqb_spec k t); simpl; tauto.
Qed.

Lemma In_hdel_neq l t u : u <> t -> In u (map fst l) -> In u (map fst (hdel l t)).
Proof.
  intros H. induction l as [|[k x] l IH]; simpl; auto.
  destruct (Nat.eqb_spec k t); simpl; intros [E|E]; subst; auto; congruence.
Qed.

Lemma NoDup_hdel l t : NoDup (map fst l) -> NoDup (map fst (hdel l t)) /\ ~ In t (map fst (hdel l t)).
Proof.
  induction l as [|[k x] l IH]; simpl; intros H.
  - split; [constructor|tauto].
  - inversion H as [|? ? Hn Hd]; subst.
    destruct (Nat.eqb_spec k t); simpl.
    + subst. auto.
    + destruct (IH Hd) as [A C]. split.
      * constructor; auto. intros Hin. apply Hn. eapply In_hdel; eauto.
      * intros [E|E]; auto.
Qed.

Lemma length_hdel l t : In t (map fst l) -> S (length (hdel l t)) = length l.
Proof.
  induction l as [|[k x] l IH]; simpl; [tauto|].
  destruct (Nat.eqb_spec k t); simpl; auto.
  intros [E|E]; [congruence|]. rewrite IH; auto.
Qed.

(* heap invariant: tokens are handed out once, a token is live or freed (once), never both *)
Definition hinv (h : heap) : Prop :=
  NoDup (toks h) /\ NoDup (hfreed h) /\
  (forall t, In t (toks h) -> t < hnext h /\ ~ In t (hfreed h)) /\
  (forall t, In t (hfreed h) -> t < hnext h) /\
  (forall t, t < hnext h -> In t (toks h) \/ In t (hfreed h)).

Lemma hinv0 : hinv heap0.
Proof.
  unfold hinv, toks; simpl. repeat split; try constructor; try tauto; intros; lia.
Qed.

(* ------------------------------------------------------------------ one identifier *)
Definition idwf (id : ident) : Prop :=
  length (ival id) = imax id /\ 12 <= imax id /\ ilen id <= lim16.

(* [d] are the stored bytes of [id] in heap [h] *)
Definition idrep (h : heap) (id : ident) (d : list byte) : Prop :=
  if external id
  then firstn 8 (skipn 4 (ival id)) = pcells /\ hfind (hlive h) (iptr id) = Some d
  else firstn (ilen id) (ival id) = map B d.

Definition named (cs : N) (d : list byte) : Prop := cs = CS_UTF8 -> exists s, d = s ++ [0%N].

Definition idok (h : heap) (id : ident) (d : list byte) : Prop :=
  idwf id /\ idrep h id d /\ length d = ilen id /\ named (ics id) d.

Lemma base_of_ext id : firstn 8 (skipn 4 (ival id)) = pcells -> base_of id = PTok (iptr id).
Proof. intros H. unfold base_of, PTR_SIZE, BASE_OFF. rewrite H. reflexivity. Qed.

Lemma rd0_all (d : list byte) : rd d 0 (length d) = Ok d.
Proof. rewrite rd_ok by (simpl; lia). unfold slice. simpl. apply f_equal, firstn_all. Qed.

Lemma idata_ok h id d : idok h id d -> idata h id = Ok d.
Proof.
  intros (W & R & L & _). unfold idata. unfold idrep in R.
  destruct (external id).
  - destruct R as [R1 R2]. rewrite (base_of_ext _ R1). unfold hrd. rewrite R2, <- L. apply rd0_all.
  - destruct W as (W1 & W2 & W3).
    assert (ilen id <= length (ival id)).
    { rewrite <- L. rewrite <- (map_length B d), <- R. rewrite firstn_length. lia. }
    rewrite crd_ok by (simpl; lia). simpl. rewrite R. simpl. apply bytes_of_map.
Qed.

Lemma acontent_ok h id d : idok h id d -> acontent h id = d.
Proof. intros H. unfold acontent. rewrite (idata_ok _ _ _ H). reflexivity. Qed.

Lemma ext_iff id : external id = true <-> imax id < ilen id.
Proof. unfold external. apply Nat.ltb_lt. Qed.
Lemma ext_false id : external id = false <-> ilen id <= imax id.
Proof. unfold external. apply Nat.ltb_ge. Qed.

(* effect of one replacement of the content of [id] on the heap: a fresh block
   when the new content is allocated, then release of the old block *)
Definition upd_heap (h : heap) (id id' : ident) (d' : list byte) : heap :=
  let h1 := if external id' then snd (halloc h d') else h in
  if external id then mkheap (hnext h1) (hdel (hlive h1) (iptr id)) (iptr id :: hfreed h1) else h1.

Lemma hfree_old h h1 id d :
  idrep h id d -> (external id = true -> hfind (hlive h1) (iptr id) = Some d) ->
  hfree h1 (if external id then base_of id else PNull) =
  Ok (if external id then mkheap (hnext h1) (hdel (hlive h1) (iptr id)) (iptr id :: hfreed h1) else h1).
Proof.
  intros R F. unfold idrep in R. destruct (external id); [|reflexivity].
  destruct R as [R1 R2]. rewrite (base_of_ext _ R1). simpl. rewrite (F eq_refl). reflexivity.
Qed.

Lemma hfree_old' h h1 id d :
  idrep h id d -> (external id = true -> hfind (hlive h1) (iptr id) = Some d) ->
  (if external id then hfree h1 (base_of id) else Ok h1) =
  Ok (if external id then mkheap (hnext h1) (hdel (hlive h1) (iptr id)) (iptr id :: hfreed h1) else h1).
Proof.
  intros R F. rewrite <- (hfree_old h h1 id d R F). destruct (external id); reflexivity.
Qed.

Lemma old_is_null h id d : idrep h id d ->
  is_null (if external id then base_of id else PNull) = negb (external id).
Proof.
  unfold idrep. destruct (external id); [|reflexivity]. intros [R _]. rewrite (base_of_ext _ R). reflexivity.
Qed.

(* a live token of [h] is still found after a fresh allocation *)
Lemma hfind_after_alloc h dd t x :
  hinv h -> hfind (hlive h) t = Some x -> hfind ((hnext h, dd) :: hlive h) t = Some x.
Proof.
  intros (_ & _ & Hb & _) Hx. simpl.
  destruct (Nat.eqb_spec (hnext h) t) as [E|E]; [|exact Hx].
  apply hfind_In in Hx. apply Hb in Hx. lia.
Qed.

(* what set / copy leave behind: the new identifier [id'] holding [dd] *)
Definition newid (h : heap) (id id' : ident) (cs : N) (dd : list byte) : Prop :=
  ics id' = cs /\ ilen id' = length dd /\ imax id' = imax id /\ idwf id' /\
  (if external id'
   then firstn 8 (skipn 4 (ival id')) = pcells /\ iptr id' = hnext h
   else firstn (ilen id') (ival id') = map B dd) /\
  named cs dd.

Lemma strlen_cstr bs : In 0%N bs -> strlen bs = Ok (length (cstr bs)) /\ firstn (length (cstr bs)) bs = cstr bs.
Proof.
  induction bs as [|b r IH]; simpl; [tauto|].
  intros H. destruct (N.eqb_spec b 0); [auto|].
  destruct H as [H|H]; [congruence|]. destruct (IH H) as [E1 E2].
  rewrite E1. simpl. rewrite E2. auto.
Qed.

Lemma arg_len_ok bs len : name_ok (Some bs) len ->
  exists n, (match len with Some n => Ok n | None => strlen bs end) = Ok n /\
            n = length (arg_name bs len) /\ rd bs 0 n = Ok (arg_name bs len).
Proof.
  destruct len as [n|]; simpl; intros H.
  - exists n. rewrite firstn_length, Nat.min_l by lia. repeat split.
    rewrite rd_ok by (simpl; lia). reflexivity.
  - destruct (strlen_cstr bs H) as [E1 E2]. eexists. split; [exact E1|]. split; [reflexivity|].
    assert (length (cstr bs) <= length bs).
    { rewrite <- E2 at 1. rewrite firstn_length. lia. }
    rewrite rd_ok by (simpl; lia). unfold slice. simpl. rewrite E2. reflexivity.
Qed.

(* the inline image written by mpt_identifier_set *)
Lemma inl_cells v mx len x (X : res (list byte)) :
  X = Ok x -> length v = mx -> length x = len -> len <= mx ->
  (if negb (len =? 0) then
     do x <- X;
     do v1 <- cwr v 0 (map B x);
     let post := mx - len in
     if negb (post =? 0) then cwr v1 len (zcells post) else Ok v1
   else cwr v 0 (zcells mx)) = Ok (map B x ++ zcells (mx - len)).
Proof.
  intros HX Hv Hx Hl. subst X.
  destruct (Nat.eqb_spec len 0) as [E|E]; cbn [negb bind].
  - subst len. destruct x; [|discriminate]. simpl. rewrite Nat.sub_0_r.
    rewrite cwr_ok by (rewrite zcells_length; simpl; lia).
    rewrite cupd_full by (rewrite zcells_length; lia). reflexivity.
  - rewrite cwr_ok by (rewrite map_length; simpl; lia). cbn [bind].
    assert (Hc : cupd v 0 (map B x) = map B x ++ skipn len v).
    { unfold cupd. simpl. rewrite map_length, Hx. reflexivity. }
    destruct (Nat.eqb_spec (mx - len) 0) as [P0|P0]; cbn [negb].
    + rewrite P0. simpl. rewrite Hc, skipn_all2 by lia. reflexivity.
    + rewrite cwr_ok by (rewrite cupd_length, zcells_length; rewrite ?map_length; simpl; lia).
      f_equal. rewrite Hc. unfold cupd.
      rewrite firstn_app, map_length, Hx, Nat.sub_diag. simpl.
      rewrite firstn_all2 by (rewrite map_length; lia). rewrite app_nil_r.
      rewrite zcells_length.
      rewrite skipn_all2; [rewrite app_nil_r; reflexivity|].
      rewrite app_length, map_length, skipn_length. lia.
Qed.

Lemma firstn_inl x ln nlen mx :
  length x = ln -> ln <= nlen -> nlen <= mx ->
  firstn nlen (map B x ++ zcells (mx - ln)) = map B (x ++ zeros (nlen - ln)).
Proof.
  intros Hx H1 H2. rewrite firstn_app, map_length, Hx.
  rewrite firstn_all2 by (rewrite map_length; lia).
  rewrite map_app, map_B_zeros. f_equal. unfold zcells. apply firstn_repeat. lia.
Qed.

(* the caller's data as the model reads it: x = the [ln] bytes taken from the buffer *)
Definition argd (nm : option (list byte)) (ln nlen : nat) (x : list byte) : Prop :=
  length x = ln /\
  match nm with
  | Some bs => rd bs 0 ln = Ok x /\ nlen = ln + 1
  | None => x = zeros ln /\ nlen = ln
  end.

Lemma iset_go_closed h id d nm ln nlen cs x :
  idok h id d -> hinv h -> argd nm ln nlen x -> nlen <= lim16 ->
  named cs (x ++ zeros (nlen - ln)) ->
  exists id', iset_go h id nm ln nlen cs = Ok (upd_heap h id id' (x ++ zeros (nlen - ln)), id', true) /\
              newid h id id' cs (x ++ zeros (nlen - ln)).
Proof.
  intros (W & R & L & Nm) Hh (Hx & Ha) Hlim Hnamed.
  destruct W as (W1 & W2 & W3).
  set (dd := x ++ zeros (nlen - ln)) in *.
  assert (Hdd : length dd = nlen).
  { unfold dd. rewrite app_length, zeros_length. destruct nm; destruct Ha; lia. }
  unfold iset_go.
  destruct (Nat.ltb_spec lim16 nlen) as [|_]; [lia|].
  destruct (Nat.ltb_spec (imax id) nlen) as [Hext|Hinl].
  - (* allocated *)
    assert (Hd : match nm with
                 | Some bs => do x <- rd bs 0 ln; Ok (x ++ [0%N])
                 | None => Ok (zeros nlen) end = Ok dd).
    { unfold dd. destruct nm as [bs|]; destruct Ha as [E1 E2].
      - rewrite E1. simpl. replace (nlen - ln) with 1 by lia. reflexivity.
      - rewrite E2, Nat.sub_diag. simpl. rewrite app_nil_r. rewrite E1. reflexivity. }
    rewrite Hd. cbn [bind halloc].
    set (h1 := mkheap (S (hnext h)) ((hnext h, dd) :: hlive h) (hfreed h)).
    rewrite (hfree_old' h h1 id d R).
    2:{ intros E. unfold idrep in R. rewrite E in R. apply hfind_after_alloc; tauto. }
    cbn [bind].
    rewrite cwr_ok by (rewrite zcells_length; simpl; lia). cbn [bind].
    rewrite cupd_full by (rewrite zcells_length; lia).
    rewrite cwr_ok by (rewrite zcells_length, pcells_length; unfold BASE_OFF; lia). cbn [bind].
    set (id' := mkid nlen cs (imax id) (cupd (zcells (imax id)) BASE_OFF pcells) (hnext h)).
    assert (Ee : external id' = true) by (apply ext_iff; simpl; lia).
    exists id'. split.
    + unfold upd_heap. rewrite Ee. reflexivity.
    + unfold newid, idwf. rewrite Ee. subst id'. cbn [ics ilen imax ival iptr].
      repeat split; auto; try lia.
      * rewrite cupd_length; rewrite zcells_length, ?pcells_length; unfold BASE_OFF; lia.
      * apply (slice_cupd (zcells (imax id)) 4 pcells). rewrite zcells_length, pcells_length. lia.
  - (* local *)
    rewrite (inl_cells (ival id) (imax id) ln x); auto.
    2:{ destruct nm; destruct Ha; auto. congruence. }
    2:{ destruct nm; destruct Ha; lia. }
    cbn [bind].
    rewrite (hfree_old h h id d R) by (unfold idrep in R; intros E; rewrite E in R; tauto).
    cbn [bind].
    set (id' := mkid nlen cs (imax id) (map B x ++ zcells (imax id - ln)) (iptr id)).
    assert (Ee : external id' = false) by (apply ext_false; simpl; lia).
    exists id'. split.
    + unfold upd_heap. rewrite Ee. reflexivity.
    + unfold newid, idwf. rewrite Ee. subst id'. cbn [ics ilen imax ival iptr].
      repeat split; auto; try lia.
      * rewrite app_length, map_length, zcells_length. destruct nm; destruct Ha; lia.
      * apply firstn_inl; auto. destruct nm; destruct Ha; lia.
Qed.

Lemma named_name s : named CS_UTF8 (s ++ [0%N]).
Proof. intros _. eauto. Qed.
Lemma named_raw d : named 0%N d.
Proof. intros H. discriminate. Qed.

(* closed form of mpt_identifier_set on a represented identifier *)
Lemma iset_closed h id d name len :
  idok h id d -> hinv h -> name_ok name len ->
  match sset (ics id, d) name len with
  | (v', true) =>
    exists id', iset h id name len = Ok (upd_heap h id id' (snd v'), id', true) /\
                newid h id id' (fst v') (snd v')
  | (v', false) => iset h id name len = Ok (h, id, false) /\ v' = (ics id, d)
  end.
Proof.
  intros Hid Hh Hok.
  destruct name as [bs|].
  - destruct (arg_len_ok bs len Hok) as (n & E1 & E2 & E3).
    unfold sset. set (s := arg_name bs len) in *.
    assert (Hgo : iset h id (Some bs) len = iset_go h id (Some bs) n (n + 1) CS_UTF8).
    { unfold iset. destruct len; simpl in E1.
      - inversion E1. reflexivity.
      - rewrite E1. reflexivity. }
    rewrite Hgo.
    destruct (Nat.ltb_spec lim16 (length s + 1)) as [Hl|Hl].
    + split; [|reflexivity]. unfold iset_go.
      destruct (Nat.ltb_spec lim16 (n + 1)); [reflexivity|lia].
    + destruct (iset_go_closed h id d (Some bs) n (n + 1) CS_UTF8 s Hid Hh) as (id' & A & C).
      * split; [lia|]. split; [exact E3|reflexivity].
      * lia.
      * replace (n + 1 - n) with 1 by lia. apply named_name.
      * replace (n + 1 - n) with 1 in * by lia. exists id'. split; assumption.
  - destruct len as [n|]; unfold sset; [|split; reflexivity].
    cbn [iset].
    destruct (Nat.ltb_spec lim16 n) as [Hl|Hl].
    + split; [|reflexivity]. unfold iset_go.
      destruct (Nat.ltb_spec lim16 n); [reflexivity|lia].
    + destruct (iset_go_closed h id d None n n 0%N (zeros n) Hid Hh) as (id' & A & C).
      * split; [apply zeros_length|]. split; reflexivity.
      * lia.
      * apply named_raw.
      * rewrite Nat.sub_diag in *. simpl in *. rewrite app_nil_r in *.
        exists id'. split; assumption.
Qed.

(* closed form of mpt_identifier_copy between two different represented identifiers *)
Lemma icopy_closed h id d from df :
  idok h id d -> idok h from df -> hinv h ->
  exists id', icopy h id from = Ok (upd_heap h id id' df, id', true) /\
              newid h id id' (ics from) df.
Proof.
  intros (W & R & L & Nm) Hf Hh.
  destruct W as (W1 & W2 & W3).
  pose proof (idata_ok _ _ _ Hf) as Hd.
  destruct Hf as (Wf & Rf & Lf & Nf). destruct Wf as (_ & _ & Wf3).
  unfold icopy. rewrite Hd. cbn [bind].
  rewrite (old_is_null h id d R), negb_involutive.
  assert (Hv0 : exists v0, (if external id then cwr (ival id) BASE_OFF (zcells PTR_SIZE) else Ok (ival id)) = Ok v0
                           /\ length v0 = imax id).
  { destruct (external id).
    - rewrite cwr_ok by (rewrite zcells_length; unfold BASE_OFF, PTR_SIZE; lia).
      eexists; split; [reflexivity|]. rewrite cupd_length; [lia|].
      rewrite zcells_length; unfold BASE_OFF, PTR_SIZE; lia.
    - eexists; split; [reflexivity|lia]. }
  destruct Hv0 as (v0 & Ev0 & Lv0).
  destruct (Nat.leb_spec (ilen from) (imax id)) as [Hinl|Hext].
  - rewrite Ev0. cbn [bind].
    rewrite cwr_ok by (rewrite map_length; simpl; lia). cbn [bind].
    rewrite (hfree_old h h id d R) by (unfold idrep in R; intros E; rewrite E in R; tauto).
    cbn [bind].
    set (id' := mkid (ilen from) (ics from) (imax id) (cupd v0 0 (map B df)) (iptr id)).
    assert (Ee : external id' = false) by (apply ext_false; simpl; lia).
    exists id'. split.
    + unfold upd_heap. rewrite Ee. reflexivity.
    + unfold newid, idwf. rewrite Ee. subst id'. cbn [ics ilen imax ival iptr].
      repeat split; auto; try lia.
      * rewrite cupd_length; rewrite ?map_length; simpl; lia.
      * rewrite <- Lf. rewrite <- (map_length B df). apply firstn_cupd0. rewrite map_length. lia.
  - cbn [halloc].
    set (h1 := mkheap (S (hnext h)) ((hnext h, df) :: hlive h) (hfreed h)).
    rewrite Ev0. cbn [bind].
    rewrite (hfree_old h h1 id d R).
    2:{ intros E. unfold idrep in R. rewrite E in R. apply hfind_after_alloc; tauto. }
    cbn [bind].
    rewrite cwr_ok by (rewrite zcells_length; simpl; lia). cbn [bind].
    assert (L1 : length (cupd v0 0 (zcells 4)) = imax id).
    { rewrite cupd_length; rewrite ?zcells_length; simpl; lia. }
    rewrite cwr_ok by (rewrite L1, pcells_length; unfold BASE_OFF; lia). cbn [bind].
    set (id' := mkid (ilen from) (ics from) (imax id) (cupd (cupd v0 0 (zcells 4)) BASE_OFF pcells) (hnext h)).
    assert (Ee : external id' = true) by (apply ext_iff; simpl; lia).
    exists id'. split.
    + unfold upd_heap. rewrite Ee. reflexivity.
    + unfold newid, idwf. rewrite Ee. subst id'. cbn [ics ilen imax ival iptr].
      repeat split; auto; try lia;
        try (rewrite cupd_length; rewrite L1, ?pcells_length; unfold BASE_OFF; lia);
        try (apply (slice_cupd (cupd v0 0 (zcells 4)) 4 pcells); rewrite L1, pcells_length; lia).
Qed.

(* ------------------------------------------------------------------ comparison *)
Lemma bytes_eqb_eq a b : bytes_eqb a b = true <-> a = b.
Proof.
  revert b; induction a as [|x a IH]; intros [|y b]; simpl; split; intros H; try discriminate; auto.
  - apply andb_true_iff in H. destruct H as [H1 H2]. apply N.eqb_eq in H1. apply IH in H2. congruence.
  - inversion H; subst. rewrite N.eqb_refl. apply IH. reflexivity.
Qed.

Lemma aval_eqb_eq a b : aval_eqb a b = true <-> a = b.
Proof.
  destruct a as [c1 d1], b as [c2 d2]. unfold aval_eqb. simpl. rewrite andb_true_iff, N.eqb_eq, bytes_eqb_eq.
  split; [intros [? ?]; congruence|intros H; inversion H; auto].
Qed.

Lemma bool_eq_iff (a b : bool) : (a = true <-> b = true) -> a = b.
Proof. destruct a, b; intros [H1 H2]; try reflexivity; [symmetry; apply H1; reflexivity|apply H2; reflexivity]. Qed.

Lemma first_diff_none a b i : length a = length b -> (first_diff a b i = None <-> a = b).
Proof.
  revert b i; induction a as [|x a IH]; intros [|y b] i H; simpl in *; try discriminate.
  - tauto.
  - destruct (N.eqb_spec x y).
    + subst. rewrite IH by lia. split; [congruence|intros E; inversion E; auto].
    + split; [discriminate|intros E; inversion E; congruence].
Qed.

Lemma first_nonzero_none l i : first_nonzero l i = None <-> l = zeros (length l).
Proof.
  revert i; induction l as [|b l IH]; intros i; simpl.
  - tauto.
  - destruct (N.eqb_spec b 0).
    + subst. rewrite IH. unfold zeros. simpl. split; [congruence|intros E; injection E; auto].
    + split; [discriminate|]. unfold zeros; simpl. intros E; inversion E; congruence.
Qed.

Lemma memcmp_zero a b : length a = length b -> (memcmp a b = SZero <-> a = b).
Proof.
  revert b; induction a as [|x a IH]; intros [|y b] H; simpl in *; try discriminate.
  - tauto.
  - destruct (N.eqb_spec x y).
    + subst. rewrite IH by lia. split; [congruence|intros E; inversion E; auto].
    + split; [destruct (N.ltb x y); discriminate|intros E; inversion E; congruence].
Qed.

Definition is_ceq (c : cmpres) : bool := match c with CEq => true | _ => false end.
Definition is_szero (s : sign) : bool := match s with SZero => true | _ => false end.

Lemma nth_last_app (s : list byte) (z : byte) : nth (length s) (s ++ [z]) 0%N = z.
Proof. rewrite app_nth2 by lia. rewrite Nat.sub_diag. reflexivity. Qed.

Lemma icompare_closed h id d name nlen :
  idok h id d -> name_ok name nlen ->
  exists c, icompare h id name nlen = Ok c /\ is_ceq c = scompare (ics id, d) name nlen.
Proof.
  intros Hid Hok. pose proof (idata_ok _ _ _ Hid) as Hd.
  destruct Hid as (W & R & L & Nm).
  unfold icompare.
  destruct name as [bs|].
  - cbn [andb]. unfold scompare.
    destruct (N.eqb_spec (ics id) CS_UTF8) as [Ecs|Ecs]; cbn [negb].
    2:{ eexists. split; [reflexivity|]. unfold aval_eqb. simpl.
        destruct (N.eqb_spec (ics id) CS_UTF8); [contradiction|reflexivity]. }
    destruct (arg_len_ok bs nlen Hok) as (n & E1 & E2 & E3).
    set (s := arg_name bs nlen) in *.
    assert (Er : (match nlen, Some bs with
                  | Some n, _ => Ok (Some n)
                  | None, None => Ok None
                  | None, Some bs => do n <- strlen bs; Ok (Some n)
                  end) = Ok (Some n)).
    { destruct nlen; simpl in E1; [inversion E1; reflexivity|rewrite E1; reflexivity]. }
    rewrite Er.
    destruct (Nm Ecs) as [s' Es'].
    assert (Ls' : length s' + 1 = ilen id).
    { rewrite <- L, Es', app_length. reflexivity. }
    replace ((n =? 0) && (ilen id =? 0)) with false.
    2:{ symmetry. apply andb_false_iff. right. apply Nat.eqb_neq. lia. }
    destruct (Nat.eqb_spec (n + 1) (ilen id)) as [En|En]; cbn [negb].
    + rewrite Hd. cbn [bind]. rewrite E3. cbn [bind].
      assert (Hf : firstn n d = s').
      { rewrite Es'. rewrite firstn_app. replace (n - length s') with 0 by lia.
        simpl. rewrite app_nil_r. apply firstn_all2. lia. }
      rewrite Hf.
      destruct (first_diff s' s 0) eqn:Efd.
      * eexists. split; [reflexivity|]. simpl. symmetry.
        apply not_true_is_false. intros Ha. apply aval_eqb_eq in Ha.
        unfold name_val in Ha. inversion Ha as [[Hc Hb]]. rewrite Es' in Hb.
        apply app_inj_tail in Hb. destruct Hb as [Hb _].
        apply (first_diff_none s' s 0) in Hb; [congruence|lia].
      * apply first_diff_none in Efd; [|lia].
        assert (Ed : d = s ++ [0%N]) by congruence.
        clear Hf. rewrite Ed.
        replace n with (length s) by lia. rewrite nth_last_app. simpl.
        eexists. split; [reflexivity|]. simpl. symmetry. apply aval_eqb_eq.
        unfold name_val. rewrite Ecs. reflexivity.
    + eexists. split; [reflexivity|]. simpl. symmetry.
      apply not_true_is_false. intros Ha. apply aval_eqb_eq in Ha.
      unfold name_val in Ha. inversion Ha as [[Hc Hb]].
      apply (f_equal (@length byte)) in Hb. rewrite app_length in Hb. simpl in Hb. lia.
  - cbn [andb]. unfold scompare. destruct nlen as [n|].
    2:{ eexists. split; reflexivity. }
    cbn [snd]. rewrite L.
    destruct (Nat.eqb_spec n 0) as [En0|En0]; destruct (Nat.eqb_spec (ilen id) 0) as [El0|El0]; cbn [andb].
    + eexists. split; [reflexivity|]. simpl. rewrite orb_true_r. reflexivity.
    + rewrite orb_false_r.
      destruct (Nat.eqb_spec (n + 1) (ilen id)) as [En|En]; cbn [negb].
      * rewrite Hd. cbn [bind].
        destruct (first_nonzero d 0) eqn:Ef.
        -- eexists. split; [reflexivity|]. simpl. symmetry. apply not_true_is_false.
           intros Ha. apply bytes_eqb_eq in Ha.
           assert (first_nonzero d 0 = None) by (apply first_nonzero_none; rewrite L, <- En; exact Ha).
           congruence.
        -- eexists. split; [reflexivity|]. simpl. symmetry. apply bytes_eqb_eq.
           apply first_nonzero_none in Ef. rewrite L, <- En in Ef. exact Ef.
      * eexists. split; [reflexivity|]. simpl. symmetry. apply not_true_is_false.
        intros Ha. apply bytes_eqb_eq in Ha. apply (f_equal (@length byte)) in Ha.
        rewrite zeros_length in Ha. lia.
    + rewrite orb_false_r.
      destruct (Nat.eqb_spec (n + 1) (ilen id)) as [En|En]; cbn [negb]; [lia|].
      eexists. split; [reflexivity|]. simpl. symmetry. apply not_true_is_false.
      intros Ha. apply bytes_eqb_eq in Ha. apply (f_equal (@length byte)) in Ha.
      rewrite zeros_length in Ha. lia.
    + rewrite orb_false_r.
      destruct (Nat.eqb_spec (n + 1) (ilen id)) as [En|En]; cbn [negb].
      * rewrite Hd. cbn [bind].
        destruct (first_nonzero d 0) eqn:Ef.
        -- eexists. split; [reflexivity|]. simpl. symmetry. apply not_true_is_false.
           intros Ha. apply bytes_eqb_eq in Ha.
           assert (first_nonzero d 0 = None) by (apply first_nonzero_none; rewrite L, <- En; exact Ha).
           congruence.
        -- eexists. split; [reflexivity|]. simpl. symmetry. apply bytes_eqb_eq.
           apply first_nonzero_none in Ef. rewrite L, <- En in Ef. exact Ef.
      * eexists. split; [reflexivity|]. simpl. symmetry. apply not_true_is_false.
        intros Ha. apply bytes_eqb_eq in Ha. apply (f_equal (@length byte)) in Ha.
        rewrite zeros_length in Ha. lia.
Qed.

Lemma iinequal_closed h a da b db :
  idok h a da -> idok h b db ->
  exists s, iinequal h a b = Ok s /\ is_szero s = aval_eqb (ics a, da) (ics b, db).
Proof.
  intros Ha Hb.
  pose proof (idata_ok _ _ _ Ha) as Hda. pose proof (idata_ok _ _ _ Hb) as Hdb.
  destruct Ha as (_ & _ & La & _), Hb as (_ & _ & Lb & _).
  unfold iinequal, aval_eqb. cbn [fst snd].
  destruct (N.eqb_spec (ics a) (ics b)) as [Ec|Ec]; cbn [negb andb].
  2:{ eexists. split; [reflexivity|]. destruct (N.ltb (ics a) (ics b)); reflexivity. }
  destruct (Nat.eqb_spec (ilen a) (ilen b)) as [El|El]; cbn [negb].
  - rewrite Hda, Hdb. cbn [bind]. eexists. split; [reflexivity|].
    apply bool_eq_iff. rewrite bytes_eqb_eq.
    rewrite <- (memcmp_zero da db) by lia.
    destruct (memcmp da db); simpl; split; congruence.
  - eexists. split; [reflexivity|].
    replace (bytes_eqb da db) with false.
    + destruct (ilen a <? ilen b); reflexivity.
    + symmetry. apply not_true_is_false. intros E. apply bytes_eqb_eq in E. subst. lia.
Qed.

(* ------------------------------------------------------------------ a fresh identifier *)
Lemma ident_init_ok sz : 16 <= sz ->
  exists id, ident_init sz = Some id /\ idok heap0 id [] /\ external id = false /\
             ilen id = 0 /\ ics id = 0%N /\ imax id = Nat.min (sz - 4) 252.
Proof.
  intros H. unfold ident_init, HSZE, IDENT_MAX.
  destruct (Nat.ltb_spec sz 4); [lia|].
  eexists. split; [reflexivity|].
  assert (12 <= Nat.min (sz - 4) 252) by (apply Nat.min_glb; lia).
  repeat split; cbn [ival imax ilen ics]; try reflexivity; try lia.
  - apply zcells_length.
  - intros X. discriminate.
Qed.

(* inline content does not depend on the heap *)
Lemma idok_inline_heap h h' id d : external id = false -> idok h id d -> idok h' id d.
Proof.
  intros E (W & R & L & Nm). unfold idok, idrep in *. rewrite E in *. auto.
Qed.

Lemma set_nth_set_nth {A} (l : list A) i x y : set_nth (set_nth l i x) i y = set_nth l i y.
Proof. revert i; induction l; intros [|i]; simpl; auto. f_equal; apply IHl. Qed.
