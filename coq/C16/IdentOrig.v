(* C16/IdentOrig.v — mpt_identifier_copy as it was BEFORE the fix: commit
   "fix: mpt_identifier_copy to local data of an identifier with allocated name".
   Kept (executable, no proofs) so that Properties.v can exhibit the defect on
   the same cell/heap model: the memcpy into the local bytes replaces the
   pointer cells, the following free() then sees a wild pointer. *)
From MptV Require Import Base.Mem C16.IdentModel.
Local Open Scope nat_scope.

Definition with_val (id : ident) (v : list cell) : ident :=
  mkid (ilen id) (ics id) (imax id) v (iptr id).

Definition icopy_orig (h : heap) (id from : ident) : res (heap * ident * bool) :=
  do src <- idata h from;
  if ilen from <=? imax id then
    (* dest = id->_val; memcpy(dest, base, from->_len) *)
    do v1 <- cwr (ival id) 0 (map B src);
    (* if (id->_len > id->_max) { free(id->_base); id->_base = 0; } *)
    do '(h1, v2) <- (if external id then
                       do hh <- hfree h (base_of (with_val id v1));
                       do v <- cwr v1 BASE_OFF (zcells PTR_SIZE);
                       Ok (hh, v)
                     else Ok (h, v1));
    Ok (h1, mkid (ilen from) (ics from) (imax id) v2 (iptr id), true)
  else
    let '(t, h1) := halloc h src in
    do '(h2, v1) <- (if external id then
                       do hh <- hfree h1 (base_of id);
                       do v <- cwr (ival id) BASE_OFF (zcells PTR_SIZE);
                       Ok (hh, v)
                     else Ok (h1, ival id));
    do v2 <- cwr v1 0 (zcells 4);
    do v3 <- cwr v2 BASE_OFF pcells;
    Ok (h2, mkid (ilen from) (ics from) (imax id) v3 t, true).
