(* C16 — Names are stored and compared faithfully at every length.
   This file holds only the property theorems (each closed by [exact] of a lemma
   proved elsewhere), their non-vacuity examples and Print Assumptions.

   Reading guide.  [ident] is the mechanism state of one struct identifier
   (IdentModel.v): _len, _charset, _max and the _max inline cells, of which cells
   4..12 are the bytes of the pointer field _base; [heap] is ghost state (tokens
   handed out by malloc, live blocks, tokens passed to free).  [iset], [icopy],
   [icompare], [iinequal], [idata] transcribe mpt_identifier_set/_copy/_compare/
   _inequal/_data; a bad free, a read of pointer bytes as data or an access
   outside the cells makes them return [Fault].
   [idok h id d] says: identifier [id] is well formed for ANY inline capacity
   >= 12 (storage size >= 16) and holds the bytes [d] in heap [h] (inline, or in
   the live block its pointer cells name);  [hinv h]: the heap bookkeeping is
   consistent;  [winv w]: every identifier of world [w] is [idok], allocated
   names are owned by exactly one identifier and every live block is owned.
   [stored h id cs d] = reading [id] back (mpt_identifier_data, _len) yields
   exactly [d] with its length, charset [cs], and the invariants still hold.
   [lim16] is 65535.  A text name is stored with its terminating zero, so the
   longest permitted text name has 65534 bytes. *)
From MptV Require Import C16.Locate.
From MptV Require Import Base.Mem C16.IdentModel C16.IdentSpec C16.IdentProofs
  C16.IdentWorld C16.IdentHeap C16.IdentProps C16.IdentClass C16.IdentOrig.

(* set, then read back: any byte string whose stored length fits 16 bit, any
   storage size, whatever the identifier held before (inline or allocated). *)
Theorem C16_set_get :
  forall h id d bs,
    hinv h -> idok h id d -> length bs + 1 <= lim16 ->
    exists h' id', iset h id (Some bs) (Some (length bs)) = Ok (h', id', true) /\
                   stored h' id' CS_UTF8 (bs ++ [0%N]) /\ imax id' = imax id.
Proof. exact set_get. Qed.

(* the same through the strlen interface (negative length) *)
Theorem C16_set_get_cstring :
  forall h id d bs,
    hinv h -> idok h id d -> ~ In 0%N bs -> length bs + 1 <= lim16 ->
    exists h' id', iset h id (Some (bs ++ [0%N])) None = Ok (h', id', true) /\
                   stored h' id' CS_UTF8 (bs ++ [0%N]) /\ imax id' = imax id.
Proof. exact set_get_cstring. Qed.

(* set without a name reserves n zero bytes, n up to 65535 (n = 0 clears) *)
Theorem C16_set_raw :
  forall h id d n,
    hinv h -> idok h id d -> n <= lim16 ->
    exists h' id', iset h id None (Some n) = Ok (h', id', true) /\
                   stored h' id' 0%N (zeros n) /\ imax id' = imax id.
Proof. exact set_raw. Qed.

(* a name that is too long is refused and nothing at all changes; and any
   refusal of set leaves heap and identifier as they were *)
Theorem C16_set_too_long_refused :
  forall h id bs, lim16 < length bs + 1 ->
    iset h id (Some bs) (Some (length bs)) = Ok (h, id, false).
Proof. exact set_too_long. Qed.

Theorem C16_refused_unchanged :
  forall h id d name len h' id',
    hinv h -> idok h id d -> name_ok name len ->
    iset h id name len = Ok (h', id', false) -> h' = h /\ id' = id.
Proof. exact refused_unchanged. Qed.

(* copy between two different identifiers of arbitrary (different) storage sizes:
   succeeds, the target now holds the source's bytes and charset and compares
   equal to it, the source object is literally untouched and still holds its
   bytes, every other identifier keeps its content ([absw] changes at i only),
   and the invariant (no dangling, no double owner, no unowned block) holds. *)
Theorem C16_copy_equal_src_untouched :
  forall w i j a b db,
    winv w -> i <> j -> nth_error (wids w) i = Some a -> nth_error (wids w) j = Some b ->
    idok (wh w) b db ->
    exists w' a',
      mstep w (OCopy i (Some j)) = Ok (w', ODone) /\ winv w' /\
      absw w' = set_nth (absw w) i (ics b, db) /\
      nth_error (wids w') j = Some b /\ idok (wh w') b db /\
      nth_error (wids w') i = Some a' /\ idok (wh w') a' db /\ ics a' = ics b /\
      iinequal (wh w') a' b = Ok SZero.
Proof. exact copy_equal_src_untouched. Qed.

(* compare reports 0 exactly when the identifier holds that text name *)
Theorem C16_compare_iff_equal :
  forall h id d bs n,
    idok h id d -> n <= length bs ->
    exists c, icompare h id (Some bs) (Some n) = Ok c /\
              (c = CEq <-> (ics id, d) = name_val (firstn n bs)).
Proof. exact compare_iff_equal. Qed.

Theorem C16_compare_cstring_iff_equal :
  forall h id d bs,
    idok h id d -> ~ In 0%N bs ->
    exists c, icompare h id (Some (bs ++ [0%N])) None = Ok c /\
              (c = CEq <-> (ics id, d) = name_val bs).
Proof. exact compare_cstring_iff_equal. Qed.

(* inequal reports 0 exactly for equal charset and equal bytes, whatever the two
   storage sizes and whether either side is inline or allocated *)
Theorem C16_inequal_iff_equal :
  forall h a da b db,
    idok h a da -> idok h b db ->
    exists s, iinequal h a b = Ok s /\ (s = SZero <-> (ics a, da) = (ics b, db)).
Proof. exact inequal_iff_equal. Qed.

(* every history of set / copy / clear / compare / inequal operations AND of the
   members of the C++ class (set_name, equal, name, operator=, destruction
   followed by copy construction or by construction with a total size) on any
   number of identifiers of any sizes >= 16: what is observed after every step
   (result class, and length, charset, bytes of every identifier) is what the
   plain list-of-names specification yields; in particular no step faults. *)
Theorem C16_history_refines_names :
  forall sizes ops,
    Forall (fun s => 16 <= s) sizes -> Forall op_ok ops ->
    map pobs (mrun (init_world sizes) ops) = srun (repeat unset (length sizes)) ops.
Proof. exact history_refines_names. Qed.

Theorem C16_step_refines_names :
  forall w o, winv w -> op_ok o ->
    exists w' out, mstep w o = Ok (w', out) /\ winv w' /\ sstep (absw w) o = (absw w', pout out).
Proof. exact mstep_refines. Qed.

(* the name may lie INSIDE the identifier's own current content (prefix stripping,
   truncation in place: mpt_identifier_set(id, data(id) + off, len), operation
   OSetSelf): from every invariant world, for every offset and length request,
   whether the content is inline or a separate block and whether the new name
   stays allocated or becomes inline, the step does not fault, keeps the heap
   invariant and stores exactly that part of the previous bytes (specification:
   sset on [skipn off] of the previous value); no side condition on the operation. *)
Theorem C16_set_from_own_content :
  forall w i off len, winv w ->
    exists w' out, mstep w (OSetSelf i off len) = Ok (w', out) /\ winv w' /\
                   sstep (absw w) (OSetSelf i off len) = (absw w', pout out).
Proof. exact set_self_refines. Qed.

(* heap discipline over ALL histories: the run never faults (a bad free, a read
   through a wild pointer or outside the storage would be a fault); the
   invariant holds in the state reached; after the owner's cleanup
   (set(id,0,0) on every identifier) no block is live, and the freed tokens are
   exactly the allocated tokens, each freed once. *)
Theorem C16_heap_discipline :
  forall sizes ops,
    Forall (fun s => 16 <= s) sizes -> Forall op_ok ops ->
    ~ In Crash (mrun (init_world sizes) ops) /\
    exists w w',
      mexec (init_world sizes) ops = Some w /\ winv w /\
      mexec w (clear_ops (length (wids w))) = Some w' /\
      hlive (wh w') = [] /\ NoDup (hfreed (wh w')) /\
      (forall t, In t (hfreed (wh w')) <-> t < hnext (wh w')) /\
      mend (init_world sizes) ops = Some 0.
Proof. exact heap_discipline_all. Qed.

(* mpt_identifier_new: the storage chosen for a requested length up to 252 holds
   that length inline; lengths above 65535 (only those) are refused *)
Theorem C16_new_capacity :
  forall len, len <= 252 ->
    exists sz id, new_size len = Some sz /\ ident_init sz = Some id /\
                  32 <= sz <= 256 /\ len <= imax id /\ imax id = sz - 4.
Proof. exact new_capacity. Qed.

Theorem C16_new_limit : forall len, new_size len = None <-> lim16 < len.
Proof. exact new_limit. Qed.

(* ---- the C++ class identifier (mpt++/identifier.cpp) ----
   [xset_name], [xequal], [xname], [xassign], [xcopy_init], [xfini], [xinit]
   (IdentModel.v) are the members written as compositions of the C operations;
   the world operations OXSet / OXEqual / OXName / OXAssign / OXCtor / OXNew run
   them on the slots of a world, and the step / history / heap-discipline
   theorems above range over them as well ([op] has these constructors). *)

(* set_name is mpt_identifier_set, operator= is mpt_identifier_copy (self
   assignment included): every theorem about set / copy above holds for them *)
Theorem C16_class_set_name_is_set :
  forall w i name len, mstep w (OXSet i name len) = mstep w (OSet i name len).
Proof. exact set_name_is_set. Qed.

Theorem C16_class_assign_is_copy :
  forall w i j, winv w -> mstep w (OXAssign i j) = mstep w (OCopy i (Some j)).
Proof. exact assign_is_copy. Qed.

(* equal(name, n) answers true exactly when the identifier holds that text name *)
Theorem C16_class_equal_iff_equal :
  forall h id d bs n,
    idok h id d -> n <= length bs ->
    exists b, xequal h id (Some bs) (Some n) = Ok b /\
              (b = true <-> (ics id, d) = name_val (firstn n bs)).
Proof. exact xequal_iff_equal. Qed.

(* name() hands out exactly the stored bytes of a text name and NULL for any
   other content; after set_name(bs) that is bs with its terminator *)
Theorem C16_class_name_reads :
  forall h id d, idok h id d ->
    xname h id = Ok (if N.eqb (ics id) CS_UTF8 then Some d else None).
Proof. exact xname_reads. Qed.

Theorem C16_class_set_name_then_name :
  forall h id d bs,
    hinv h -> idok h id d -> length bs + 1 <= lim16 ->
    exists h' id', xset_name h id (Some bs) (Some (length bs)) = Ok (h', id', true) /\
                   xname h' id' = Ok (Some (bs ++ [0%N])) /\ imax id' = imax id.
Proof. exact xset_name_then_name. Qed.

(* copy construction (after the destructor of the object that occupied the slot):
   the new object has the 16-byte layout whatever the source's size, holds the
   source's bytes and charset, compares equal, name() agrees; the source object
   is the identical record and still holds its bytes; every other object keeps
   its content; the invariant (no dangling / doubly owned / unowned block) holds *)
Theorem C16_class_copy_ctor_equal_src_untouched :
  forall w i j a b db,
    winv w -> i <> j -> nth_error (wids w) i = Some a -> nth_error (wids w) j = Some b ->
    idok (wh w) b db ->
    exists w' a',
      mstep w (OXCtor i j) = Ok (w', ODone) /\ winv w' /\
      absw w' = set_nth (absw w) i (ics b, db) /\
      nth_error (wids w') j = Some b /\ idok (wh w') b db /\
      nth_error (wids w') i = Some a' /\ idok (wh w') a' db /\ ics a' = ics b /\ imax a' = 12 /\
      iinequal (wh w') a' b = Ok SZero /\
      xname (wh w') a' = xname (wh w) b.
Proof. exact ctor_copy_equal_src_untouched. Qed.

(* identifier(total) (after the destructor of the previous object of the slot):
   no name, inline, capacity total-4 (at most 252), the others untouched *)
Theorem C16_class_ctor_unset :
  forall w i a total,
    winv w -> nth_error (wids w) i = Some a -> 16 <= total ->
    exists w' a',
      mstep w (OXNew i total) = Ok (w', ODone) /\ winv w' /\
      absw w' = set_nth (absw w) i unset /\
      nth_error (wids w') i = Some a' /\ idok (wh w') a' [] /\ external a' = false /\
      imax a' = Nat.min (total - 4) 252 /\ xname (wh w') a' = Ok None.
Proof. exact xnew_unset. Qed.

(* running the destructor (set_name(0, 0)) on every object of ANY invariant
   world leaves no live block, and every object without a name *)
Theorem C16_class_destroy_all_no_live_block :
  forall w, winv w ->
    exists w', mexec w (map (fun i => OXSet i None (Some 0)) (seq 0 (length (wids w)))) = Some w' /\
               winv w' /\ hlive (wh w') = [] /\ absw w' = repeat unset (length (wids w)).
Proof. exact destroy_all_no_live. Qed.

(* ---- non-vacuity ---- *)
(* the hypotheses are met by every freshly initialised identifier of 16..256 bytes *)
Example C16_fresh_ok :
  forall sz, 16 <= sz ->
    exists id, ident_init sz = Some id /\ idok heap0 id [] /\ external id = false /\
               ilen id = 0 /\ ics id = 0%N /\ imax id = Nat.min (sz - 4) 252.
Proof. exact ident_init_ok. Qed.

Example C16_init_inv : winv (init_world [16; 32; 256]).
Proof. apply init_world_inv. repeat constructor. Qed.

(* a concrete history on two 16-byte identifiers (inline capacity 12): a 13-byte
   name is allocated (1 live block), an 11-byte name stays inline, copying the
   inline name over the allocated one (it covers the pointer bytes) releases the
   block (0 live) and both compare equal; then a long name goes back in. *)
Example C16_history_example :
  mrun (init_world [16; 16])
       [OSet 0 (Some ex_long) (Some 13);
        OSet 1 (Some ex_short) (Some 11);
        OCopy 0 (Some 1);
        OInequal 0 1;
        OCompare 0 (Some ex_short) (Some 11);
        OCompare 0 (Some ex_other) (Some 11);
        OSet 1 None (Some 20);
        OCopy 0 (Some 1)]
  = [Step ODone [(14, 1%N, ex_long ++ [0%N]); (0, 0%N, [])] 1;
     Step ODone [(14, 1%N, ex_long ++ [0%N]); (12, 1%N, ex_short ++ [0%N])] 1;
     Step ODone [(12, 1%N, ex_short ++ [0%N]); (12, 1%N, ex_short ++ [0%N])] 0;
     Step (OSign SZero) [(12, 1%N, ex_short ++ [0%N]); (12, 1%N, ex_short ++ [0%N])] 0;
     Step (OCmp CEq) [(12, 1%N, ex_short ++ [0%N]); (12, 1%N, ex_short ++ [0%N])] 0;
     Step (OCmp (CDiff 11)) [(12, 1%N, ex_short ++ [0%N]); (12, 1%N, ex_short ++ [0%N])] 0;
     Step ODone [(12, 1%N, ex_short ++ [0%N]); (20, 0%N, zeros 20)] 1;
     Step ODone [(20, 0%N, zeros 20); (20, 0%N, zeros 20)] 2].
Proof. vm_compute. reflexivity. Qed.

Example C16_cleanup_example :
  mend (init_world [16; 16])
       [OSet 0 (Some ex_long) (Some 13); OSet 1 None (Some 20); OCopy 0 (Some 1)]
  = Some 0.
Proof. vm_compute. reflexivity. Qed.

(* the C++ members on a 32-byte and a 16-byte object: a 14-byte name is inline
   in the first; copy construction into the second slot puts it on 16 bytes of
   storage, where it needs a block (1 live); name() and equal() read it back;
   a raw set makes name() answer NULL; assignment of the 3 raw bytes releases
   the block; identifier(24) leaves slot 0 without a name; self assignment *)
Example C16_class_history_example :
  mrun (init_world [32; 16])
       [OXSet 0 (Some ex_long) (Some 13);
        OXCtor 1 0;
        OXName 1;
        OXEqual 1 (Some ex_long) (Some 13);
        OXSet 0 None (Some 3);
        OXName 0;
        OXAssign 1 0;
        OXNew 0 24;
        OXAssign 0 0]
  = [Step ODone [(14, 1%N, ex_long ++ [0%N]); (0, 0%N, [])] 0;
     Step ODone [(14, 1%N, ex_long ++ [0%N]); (14, 1%N, ex_long ++ [0%N])] 1;
     Step (OName (Some (ex_long ++ [0%N]))) [(14, 1%N, ex_long ++ [0%N]); (14, 1%N, ex_long ++ [0%N])] 1;
     Step (OEq true) [(14, 1%N, ex_long ++ [0%N]); (14, 1%N, ex_long ++ [0%N])] 1;
     Step ODone [(3, 0%N, zeros 3); (14, 1%N, ex_long ++ [0%N])] 1;
     Step (OName None) [(3, 0%N, zeros 3); (14, 1%N, ex_long ++ [0%N])] 1;
     Step ODone [(3, 0%N, zeros 3); (3, 0%N, zeros 3)] 0;
     Step ODone [(0, 0%N, []); (3, 0%N, zeros 3)] 0;
     Step ODone [(0, 0%N, []); (3, 0%N, zeros 3)] 0].
Proof. vm_compute. reflexivity. Qed.

(* destruction of an object with an allocated name by copy construction over it,
   and the final destructors: nothing stays allocated *)
Example C16_class_cleanup_example :
  mend (init_world [16; 32])
       [OXSet 0 (Some ex_long) (Some 13); OXSet 1 (Some ex_text) (Some 3); OXCtor 0 1;
        OXSet 1 None (Some 40); OXCtor 0 1; OXNew 1 16]
  = Some 0.
Proof. vm_compute. reflexivity. Qed.

(* the code before the fix: copying more than 4 inline bytes over an identifier
   with an allocated name overwrote the pointer before it was passed to free() *)
Example C16_unfixed_copy_bad_free :
  let w := init_world [16; 16] in
  match mexec w [OSet 0 (Some ex_long) (Some 13); OSet 1 (Some ex_short) (Some 5)] with
  | Some w' =>
    match nth_error (wids w') 0, nth_error (wids w') 1 with
    | Some a, Some b => IdentOrig.icopy_orig (wh w') a b = Fault
    | _, _ => False
    end
  | None => False
  end.
Proof. vm_compute. reflexivity. Qed.

(* lookup of a node by name in a sibling list (mpt_node_locate, names stored through the
   identifier code): the traversal of the C function — forwards from a node, backwards before it,
   or "last match" — returns exactly the k-th node whose name equals the key in that direction *)
Theorem C16_locate_refines_spec :
  forall names start p key,
    (match p with LFwd k | LBwd k => 1 <= k | LLast => True end) ->
    locate names start p key = locate_spec names start p key.
Proof. exact locate_refines_spec. Qed.

Example C16_locate_example :
  locate [[65;66]; [67]; [65;66]; [65]]%N 3 (LBwd 2) [65;66]%N = Some 0 /\
  locate [[65;66]; [67]; [65;66]; [65]]%N 0 LLast [65;66]%N = Some 2.
Proof. vm_compute. auto. Qed.

Print Assumptions C16_set_get.
Print Assumptions C16_set_get_cstring.
Print Assumptions C16_set_raw.
Print Assumptions C16_set_too_long_refused.
Print Assumptions C16_refused_unchanged.
Print Assumptions C16_copy_equal_src_untouched.
Print Assumptions C16_compare_iff_equal.
Print Assumptions C16_compare_cstring_iff_equal.
Print Assumptions C16_inequal_iff_equal.
Print Assumptions C16_history_refines_names.
Print Assumptions C16_step_refines_names.
Print Assumptions C16_set_from_own_content.
Print Assumptions C16_heap_discipline.
Print Assumptions C16_new_capacity.
Print Assumptions C16_new_limit.
Print Assumptions C16_locate_refines_spec.
Print Assumptions C16_class_set_name_is_set.
Print Assumptions C16_class_assign_is_copy.
Print Assumptions C16_class_equal_iff_equal.
Print Assumptions C16_class_name_reads.
Print Assumptions C16_class_set_name_then_name.
Print Assumptions C16_class_copy_ctor_equal_src_untouched.
Print Assumptions C16_class_ctor_unset.
Print Assumptions C16_class_destroy_all_no_live_block.
