(* C16/IdentHeap.v — fresh identifiers satisfy the invariant; the owner's
   cleanup releases everything; heap discipline over all histories. *)
From MptV Require Import Base.Mem Base.Tactics C16.IdentModel C16.IdentSpec C16.IdentProofs C16.IdentWorld.
Local Open Scope nat_scope.

(* ------------------------------------------------------------------ initial state *)
Lemma init_ids_ok sizes : Forall (fun s => 16 <= s) sizes ->
  forall i id, nth_error (init_ids sizes) i = Some id -> idok heap0 id [] /\ external id = false.
Proof.
  induction 1 as [|s r Hs Hr IH]; intros i id Hi; simpl in Hi.
  - destruct i; discriminate.
  - destruct (ident_init_ok s Hs) as (x & E1 & E2 & E3 & _). rewrite E1 in Hi.
    destruct i; simpl in Hi; [inversion Hi; subst; auto|eauto].
Qed.

Lemma init_world_inv sizes : Forall (fun s => 16 <= s) sizes -> winv (init_world sizes).
Proof.
  intros H. unfold winv, init_world. cbn [wh wids]. split; [apply hinv0|]. split; [|split].
  - intros i id Hi. exists []. apply (init_ids_ok sizes H i id Hi).
  - intros i j a b Ha Hb _ Ea _. destruct (init_ids_ok sizes H i a Ha) as [_ E]. congruence.
  - intros t [].
Qed.

Lemma init_ids_length sizes : Forall (fun s => 16 <= s) sizes -> length (init_ids sizes) = length sizes.
Proof.
  induction 1 as [|s r Hs Hr IH]; simpl; [reflexivity|].
  destruct (ident_init_ok s Hs) as (x & E1 & _). rewrite E1. simpl. congruence.
Qed.

(* ------------------------------------------------------------------ cleanup *)
Definition clr (i : nat) : op := OSet i None (Some 0).

Lemma clear_ops_ok n : Forall op_ok (clear_ops n).
Proof. unfold clear_ops. apply Forall_forall. intros o Ho. apply in_map_iff in Ho. destruct Ho as (i & E & _). subst. exact I. Qed.

Lemma sstep_clr s k v : nth_error s k = Some v -> fst (sstep s (clr k)) = set_nth s k unset.
Proof.
  intros E. unfold clr. cbn [sstep]. rewrite E. unfold sset.
  destruct (Nat.ltb_spec lim16 0) as [X|_]; [inversion X|]. reflexivity.
Qed.

Lemma sexec_clear m : forall k s i, k + m <= length s ->
  nth_error (sexec s (map clr (seq k m))) i =
  if (k <=? i) && (i <? k + m) && (i <? length s) then Some unset else nth_error s i.
Proof.
  induction m as [|m IH]; intros k s i Hk.
  - simpl. replace ((k <=? i) && (i <? k + 0)) with false; [reflexivity|].
    symmetry. apply andb_false_iff.
    destruct (Nat.leb_spec k i); [right; apply Nat.ltb_ge; lia|auto].
  - cbn [seq map sexec].
    destruct (nth_error s k) as [v|] eqn:Ev.
    2:{ apply nth_error_None in Ev. lia. }
    rewrite (sstep_clr s k v Ev).
    rewrite IH by (rewrite length_set_nth; lia). rewrite length_set_nth.
    destruct (Nat.eq_dec i k) as [E|E].
    + subst i. rewrite nth_error_set_nth_eq by lia.
      destruct (Nat.leb_spec (S k) k); [lia|]. cbn [andb].
      destruct (Nat.leb_spec k k); [|lia].
      destruct (Nat.ltb_spec k (k + S m)); [|lia].
      destruct (Nat.ltb_spec k (length s)); [|lia]. reflexivity.
    + rewrite nth_error_set_nth_neq by lia.
      destruct (Nat.leb_spec (S k) i); destruct (Nat.leb_spec k i); try lia; cbn [andb];
        destruct (Nat.ltb_spec i (S k + m)); destruct (Nat.ltb_spec i (k + S m)); try lia; reflexivity.
Qed.

Lemma sexec_length ops : forall s, length (sexec s ops) = length s.
Proof.
  induction ops as [|o r IH]; intros s; [reflexivity|]. cbn [sexec]. rewrite IH.
  destruct o as [i name len|i [j|]|i name nlen|i j|len|len|i name len|i name nlen|i|i j|i j|i total|i off len]; cbn [sstep].
  - destruct (nth_error s i); [|reflexivity]. destruct (sset a name len). apply length_set_nth.
  - destruct (nth_error s i); [|reflexivity]. destruct (nth_error s j); [apply length_set_nth|reflexivity].
  - destruct (nth_error s i); [apply length_set_nth|reflexivity].
  - destruct (nth_error s i); reflexivity.
  - destruct (nth_error s i); [|reflexivity]. destruct (nth_error s j); reflexivity.
  - reflexivity.
  - reflexivity.
  - destruct (nth_error s i); [|reflexivity]. destruct (sset a name len). apply length_set_nth.
  - destruct (nth_error s i); reflexivity.
  - destruct (nth_error s i); reflexivity.
  - destruct (nth_error s i); [|reflexivity]. destruct (nth_error s j); [apply length_set_nth|reflexivity].
  - destruct (nth_error s i); [|reflexivity]. destruct (nth_error s j); [|reflexivity].
    destruct (i =? j); [reflexivity|apply length_set_nth].
  - destruct (nth_error s i); [apply length_set_nth|reflexivity].
  - destruct (nth_error s i) as [a|]; [|reflexivity]. destruct (self_arg (snd a) off len) as [bs l].
    destruct (sset a (Some bs) l). apply length_set_nth.
Qed.

(* an invariant world in which no identifier holds an allocated name has an empty heap *)
Lemma no_external_no_live w :
  winv w -> (forall i id, nth_error (wids w) i = Some id -> external id = false) -> hlive (wh w) = [].
Proof.
  intros (_ & _ & _ & Hown) Hne.
  destruct (hlive (wh w)) as [|[t x] l] eqn:E; [reflexivity|].
  destruct (Hown t) as (i & id & Hi & He & _).
  - unfold toks. rewrite E. simpl. auto.
  - rewrite (Hne _ _ Hi) in He. discriminate.
Qed.

Lemma cleanup_releases_all w :
  winv w ->
  exists w', mexec w (clear_ops (length (wids w))) = Some w' /\ winv w' /\
             hlive (wh w') = [] /\ absw w' = repeat unset (length (wids w)).
Proof.
  intros Hw.
  destruct (mexec_refines _ w Hw (clear_ops_ok (length (wids w)))) as (w' & E1 & E2 & E3).
  exists w'. split; [exact E1|]. split; [exact E2|].
  assert (Hlen : length (absw w) = length (wids w)) by (unfold absw; apply map_length).
  assert (Habs : forall i v, nth_error (absw w') i = Some v -> v = unset).
  { intros i v Hv. rewrite E3 in Hv. unfold clear_ops in Hv.
    change (map (fun i => OSet i None (Some 0))) with (map clr) in Hv.
    rewrite sexec_clear in Hv by lia.
    destruct (Nat.ltb_spec i (length (absw w))) as [Hi|Hi].
    - replace ((0 <=? i) && (i <? 0 + length (wids w))) with true in Hv; [simpl in Hv; congruence|].
      symmetry. apply andb_true_iff. split; [reflexivity|apply Nat.ltb_lt; lia].
    - rewrite andb_false_r in Hv. apply nth_error_lt in Hv. lia. }
  split.
  - apply no_external_no_live; [exact E2|].
    intros i id Hi. destruct E2 as (_ & Hids & _). destruct (Hids _ _ Hi) as [d Hd].
    pose proof (Habs i _ (absw_nth _ _ _ _ Hi Hd)) as Hu. inversion Hu; subst d.
    destruct Hd as (_ & _ & L & _). apply ext_false. simpl in L. lia.
  - apply (nth_ext _ _ unset unset).
    + rewrite repeat_length, E3, sexec_length. exact Hlen.
    + intros i Hi.
      destruct (nth_error (absw w') i) as [v|] eqn:Ev; [|apply nth_error_None in Ev; lia].
      rewrite (nth_error_nth _ _ _ Ev). rewrite (Habs _ _ Ev).
      destruct (Nat.ltb_spec i (length (wids w))).
      * symmetry. apply nth_repeat'. assumption.
      * rewrite nth_overflow by (rewrite repeat_length; lia). reflexivity.
Qed.

(* with nothing live, the heap invariant says: the freed tokens are exactly the
   allocated ones, each once *)
Lemma hinv_empty h : hinv h -> hlive h = [] ->
  NoDup (hfreed h) /\ (forall t, In t (hfreed h) <-> t < hnext h) /\ length (hfreed h) = hnext h.
Proof.
  intros (_ & N2 & _ & B2 & C) E. split; [exact N2|].
  assert (Hiff : forall t, In t (hfreed h) <-> t < hnext h).
  { intros t. split; [apply B2|]. intros Ht. destruct (C t Ht) as [X|X]; [|exact X].
    unfold toks in X. rewrite E in X. destruct X. }
  split; [exact Hiff|].
  assert (P1 : incl (hfreed h) (seq 0 (hnext h))).
  { intros t Ht. apply in_seq. apply Hiff in Ht. lia. }
  assert (P2 : incl (seq 0 (hnext h)) (hfreed h)).
  { intros t Ht. apply in_seq in Ht. apply Hiff. lia. }
  pose proof (NoDup_incl_length N2 P1) as L1.
  pose proof (NoDup_incl_length (seq_NoDup (hnext h) 0) P2) as L2.
  rewrite seq_length in *. lia.
Qed.

(* ------------------------------------------------------------------ heap discipline *)
Theorem heap_discipline_all sizes ops :
  Forall (fun s => 16 <= s) sizes -> Forall op_ok ops ->
  ~ In Crash (mrun (init_world sizes) ops) /\
  exists w w',
    mexec (init_world sizes) ops = Some w /\ winv w /\
    mexec w (clear_ops (length (wids w))) = Some w' /\
    hlive (wh w') = [] /\ NoDup (hfreed (wh w')) /\
    (forall t, In t (hfreed (wh w')) <-> t < hnext (wh w')) /\
    mend (init_world sizes) ops = Some 0.
Proof.
  intros Hs Hok. pose proof (init_world_inv sizes Hs) as H0.
  split; [apply mrun_no_crash; auto|].
  destruct (mexec_refines ops _ H0 Hok) as (w & E1 & E2 & _).
  destruct (cleanup_releases_all w E2) as (w' & F1 & F2 & F3 & _).
  destruct F2 as (Hh & _).
  destruct (hinv_empty _ Hh F3) as (G1 & G2 & _).
  exists w, w'.
  split; [exact E1|]. split; [exact E2|]. split; [exact F1|]. split; [exact F3|].
  split; [exact G1|]. split; [exact G2|].
  unfold mend, mfinish. rewrite E1, F1, F3. reflexivity.
Qed.

(* the one-pass function of the driver agrees with mrun / mend *)
Lemma mrun_end_eq ops : forall w,
  ~ In Crash (mrun w ops) -> mrun_end w ops = (mrun w ops, mend w ops).
Proof.
  unfold mend. induction ops as [|o r IH]; intros w Hc; [reflexivity|].
  cbn [mrun_end mrun mexec] in *.
  destruct (mstep w o) as [[w' out]| |]; try (exfalso; apply Hc; simpl; auto; fail).
  destruct (obs_slots (wh w') (wids w')); try (exfalso; apply Hc; simpl; auto; fail).
  rewrite IH by (intros X; apply Hc; simpl; auto). reflexivity.
Qed.
