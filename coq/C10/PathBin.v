(* C10/PathBin.v — the binary-length path format (MPT_PATHFLAG(SepBinary)):
   building a path element by element with mpt_path_add gives the byte layout
     e1 |e1| |e2|  e2 |e2| |e3|  ...  en |en| 0
   (every element is followed by its own length - read backwards by mpt_path_last /
   mpt_path_del - and by the length of the NEXT element, which mpt_path_next moves into
   [first]), and walking that layout with mpt_path_next gives back exactly the
   elements, whatever bytes they contain (the separator too), for lengths up to 255. *)
From MptV Require Import Base.Mem Base.Tactics C10.ConfigModel C10.ConfigSpec C10.PathProofs C10.PathAdd.
Local Open Scope nat_scope.

Definition blen (e : list byte) : byte := N.of_nat (length e).

Fixpoint benc (es : list (list byte)) : list byte :=
  match es with
  | [] => []
  | e :: r => e ++ [blen e; blen (hd [] r)] ++ benc r
  end.

Definition short (e : list byte) : Prop := length e <= 255.

(* the path as path.flags |= SepBinary leaves it ([pstep _ PBin]) *)
Definition path_bin (p : path) : path :=
  mkpath (pbase p) (poff p) (plen p) (pfirst p) true (parr p) (pkeep p) (psep p) (passign p).

Lemma rdb_app_r m1 m2 i b : nth_error m2 (i - length m1) = Some b -> length m1 <= i -> rdb (m1 ++ m2) i = Done b.
Proof. intros H Hle. unfold rdb. rewrite nth_error_app2 by assumption. rewrite H. reflexivity. Qed.

Lemma rdn_mid pre e post : rdn (pre ++ e ++ post) (length pre) (length e) = Done e.
Proof.
  unfold rdn. rewrite !app_length.
  destruct (Nat.leb_spec (length pre + length e) (length pre + (length e + length post))); [|lia].
  f_equal. unfold slice. rewrite skipn_app, skipn_all, Nat.sub_diag. cbn [app skipn].
  rewrite firstn_app, firstn_all, Nat.sub_diag. cbn [firstn]. apply app_nil_r.
Qed.

(* ---------------------------------------------------------------- walking the layout *)
Lemma bwalk : forall es pre fuel ar kp sep asg,
  length es < fuel ->
  path_walk fuel (mkpath (pre ++ benc es) (length pre) (length (benc es)) (length (hd [] es))
                         true ar kp sep asg) = Done es.
Proof.
  induction es as [|e r IH]; intros pre fuel ar kp sep asg Hf.
  - destruct fuel as [|fuel]; [cbn in Hf; lia|]. reflexivity.
  - destruct fuel as [|fuel]; [cbn in Hf; lia|]. cbn [length] in Hf.
    cbn [benc hd path_walk].
    set (n := length e). set (tail := [blen e; blen (hd [] r)] ++ benc r).
    assert (Hlen : length (e ++ tail) = n + 2 + length (benc r)).
    { unfold tail. rewrite !app_length. cbn [length]. fold n. lia. }
    unfold path_next. cbn [plen pbin pfirst pbase poff psep passign parr pkeep].
    rewrite Hlen. destruct (Nat.eqb_spec (n + 2 + length (benc r)) 0); [lia|].
    assert (Hrd : rdb (pre ++ e ++ tail) (length pre + n + 1) = Done (blen (hd [] r))).
    { apply rdb_app_r; [|lia]. replace (length pre + n + 1 - length pre) with (n + 1) by lia.
      rewrite nth_error_app2 by (fold n; lia). fold n. replace (n + 1 - n) with 1 by lia. reflexivity. }
    rewrite Hrd. cbn [cbind].
    destruct (Nat.ltb_spec (n + 2 + length (benc r)) (n + 2)); [lia|].
    unfold tail. rewrite (rdn_mid pre e). cbn [cbind].
    replace (n + 2 + length (benc r) - (n + 2)) with (length (benc r)) by lia.
    replace (N.to_nat (blen (hd [] r))) with (length (hd [] r)) by (unfold blen; rewrite Nnat.Nat2N.id; reflexivity).
    replace (pre ++ e ++ [blen e; blen (hd [] r)] ++ benc r)
      with ((pre ++ e ++ [blen e; blen (hd [] r)]) ++ benc r) by (rewrite <- !app_assoc; reflexivity).
    replace (length pre + (n + 2)) with (length (pre ++ e ++ [blen e; blen (hd [] r)]))
      by (rewrite !app_length; cbn [length]; fold n; lia).
    rewrite IH by lia. reflexivity.
Qed.

(* ---------------------------------------------------------------- one mpt_path_add *)
(* array path in binary mode that holds exactly the layout of [es] *)
Definition btight (p : path) (es : list (list byte)) : Prop :=
  pbin p = true /\ poff p = 0 /\ pbase p = benc es /\ plen p = length (benc es) /\
  pfirst p = length (hd [] es) /\ Forall short es.

Lemma benc_cons e r : benc (e :: r) = e ++ [blen e; blen (hd [] r)] ++ benc r.
Proof. reflexivity. Qed.

Lemma benc_length_pos e r : 2 <= length (benc (e :: r)).
Proof. cbn [benc]. rewrite !app_length. cbn [length]. lia. Qed.

(* the layout ends in the 0 that stands for "no next element" *)
Lemma benc_snoc : forall es e, es <> [] ->
  benc (es ++ [e]) = firstn (length (benc es) - 1) (benc es) ++ [blen e] ++ e ++ [blen e; 0%N].
Proof.
  induction es as [|x r IH]; intros e Hne; [congruence|].
  destruct r as [|y r'].
  - cbn [app benc hd]. rewrite ?app_nil_r. rewrite app_length. cbn [length].
    replace (length x + 2 - 1) with (length x + 1) by lia.
    rewrite firstn_app, firstn_all2 by lia. replace (length x + 1 - length x) with 1 by lia.
    cbn [firstn]. rewrite <- !app_assoc. reflexivity.
  - change ((x :: y :: r') ++ [e]) with (x :: ((y :: r') ++ [e])).
    rewrite (benc_cons x ((y :: r') ++ [e])), (benc_cons x (y :: r')).
    rewrite IH by discriminate.
    change (hd [] ((y :: r') ++ [e])) with y. change (hd [] (y :: r')) with y.
    set (B := benc (y :: r')).
    assert (HB : 2 <= length B) by apply benc_length_pos.
    rewrite !app_length. cbn [length].
    replace (length x + (2 + length B) - 1) with (length x + (2 + (length B - 1))) by lia.
    rewrite firstn_app, (firstn_all2 x) by lia.
    replace (length x + (2 + (length B - 1)) - length x) with (2 + (length B - 1)) by lia.
    cbn [firstn Nat.add app]. rewrite <- !app_assoc. reflexivity.
Qed.

Lemma path_add_bin p es e :
  btight p es -> (parr p = true \/ e <> []) -> (es <> [] -> parr p = true) -> short e ->
  exists p', path_add (path_post p e) (length e) = Done p' /\ btight p' (es ++ [e]) /\ parr p' = true.
Proof.
  intros (Hbin & Hoff & Hbase & Hlen & Hfirst & Hshort) Harr Harr' He.
  set (n := length e). set (L := length (benc es)) in *.
  assert (Hq : exists kp, path_post p e =
            mkpath (benc es ++ e) 0 L (pfirst p) true true kp (psep p) (passign p) /\
            (parr p = true \/ L = 0)).
  { unfold path_post. destruct e as [|c e'].
    - destruct Harr as [Ha|Ha]; [|congruence]. exists (pkeep p). split; [|left; assumption].
      destruct p; cbn in *. subst. rewrite app_nil_r. reflexivity.
    - exists true. rewrite Hoff, Hbin, Hbase, Hlen. cbn [Nat.add]. split.
      + f_equal. destruct (parr p); [reflexivity|]. unfold L. rewrite firstn_all. reflexivity.
      + destruct es as [|x r]; [right; reflexivity|left; apply Harr'; discriminate]. }
  destruct Hq as (kp & Hq & _). rewrite Hq. unfold path_add.
  cbn [parr pbase poff plen pbin psep passign pfirst negb andb Nat.add].
  rewrite app_length. fold n L.
  destruct (Nat.ltb_spec (L + n) L); [lia|].
  replace (L + n - L) with n by lia. destruct (Nat.ltb_spec n n); [lia|]. cbn [cbind].
  destruct (Nat.ltb_spec 255 n) as [Hbig|_]; [unfold short in He; fold n in He; lia|].
  replace (n - n) with 0 by lia. change (0 <? 2) with true. cbv iota. cbn [cbind Nat.sub].
  set (d0 := (benc es ++ e) ++ repeat 0%N 2).
  assert (Hd0 : length d0 = L + n + 2) by (unfold d0; rewrite !app_length; cbn; fold n L; lia).
  assert (Hsh : Forall short (es ++ [e])) by (apply Forall_app; split; [assumption|constructor; [assumption|constructor]]).
  destruct (Nat.eqb_spec L 0) as [Hz|Hz].
  - (* first element *)
    assert (Hes : es = []).
    { destruct es as [|x r]; [reflexivity|]. pose proof (benc_length_pos x r). fold L in H1. lia. }
    subst es. cbn [cbind]. rewrite Hz. cbn [Nat.add].
    rewrite setnth_ok by lia. cbn [cbind].
    set (d1 := firstn n d0 ++ N.of_nat n :: skipn (S n) d0).
    assert (Hd1 : d1 = e ++ [blen e; 0%N]).
    { unfold d1, d0. cbn [benc app repeat]. unfold n, blen.
      rewrite firstn_app, firstn_all, Nat.sub_diag. cbn [firstn]. rewrite app_nil_r.
      rewrite skipn_app, skipn_all2 by lia. replace (S (length e) - length e) with 1 by lia.
      reflexivity. }
    assert (Hl1 : length d1 = n + 2) by (rewrite Hd1, app_length; cbn [length]; fold n; lia).
    rewrite setnth_ok by lia. eexists. split; [reflexivity|].
    split; [|reflexivity]. unfold btight. cbn [pbin poff pbase plen pfirst app hd benc].
    assert (Hd : firstn (n + 1) d1 ++ 0%N :: skipn (S (n + 1)) d1 = e ++ [blen e; 0%N]).
    { rewrite Hd1. unfold n. rewrite firstn_app, firstn_all2 by lia.
      replace (length e + 1 - length e) with 1 by lia. cbn [firstn].
      rewrite skipn_all2 by (rewrite app_length; cbn [length]; lia). rewrite <- app_assoc. reflexivity. }
    rewrite Hd.
    split; [reflexivity|]. split; [reflexivity|]. split; [reflexivity|]. split.
    { rewrite !app_length. cbn [length]. fold n. lia. }
    split; [|assumption].
    unfold u8. fold n. rewrite Nat.mod_small by (unfold short in He; fold n in He; lia). reflexivity.
  - (* a further element: the 0 at the end of the layout becomes the length of the new one *)
    assert (Hne : es <> []) by (intros ->; apply Hz; reflexivity).
    destruct (Nat.eqb_spec L 0) as [|_]; [lia|].
    cbn [cbind]. rewrite setnth_ok by lia. cbn [cbind].
    set (d1 := firstn (L - 1) d0 ++ N.of_nat n :: skipn (S (L - 1)) d0).
    assert (Hd1 : d1 = firstn (L - 1) (benc es) ++ [blen e] ++ e ++ [0%N; 0%N]).
    { unfold d1, d0. rewrite <- app_assoc. rewrite firstn_app.
      replace (L - 1 - length (benc es)) with 0 by (fold L; lia). rewrite firstn_O, app_nil_r.
      rewrite skipn_app. replace (S (L - 1) - length (benc es)) with 0 by (fold L; lia).
      rewrite skipn_all2 by (fold L; lia). reflexivity. }
    assert (Hl1 : length d1 = L + n + 2).
    { rewrite Hd1, !app_length, firstn_length. cbn [length]. fold L n. lia. }
    rewrite setnth_ok by lia. cbn [cbind].
    set (d2 := firstn (L + n) d1 ++ N.of_nat n :: skipn (S (L + n)) d1).
    assert (Hd2 : d2 = firstn (L - 1) (benc es) ++ [blen e] ++ e ++ [blen e; 0%N]).
    { unfold d2. rewrite Hd1.
      replace (firstn (L - 1) (benc es) ++ [blen e] ++ e ++ [0%N; 0%N])
        with ((firstn (L - 1) (benc es) ++ [blen e] ++ e) ++ [0%N; 0%N]) by (rewrite <- !app_assoc; reflexivity).
      assert (Hx : length (firstn (L - 1) (benc es) ++ [blen e] ++ e) = L + n).
      { rewrite !app_length, firstn_length. cbn [length]. fold L n. lia. }
      rewrite firstn_app, Hx, Nat.sub_diag, firstn_O, app_nil_r. rewrite <- Hx at 1. rewrite firstn_all.
      rewrite skipn_app, skipn_all2 by lia. rewrite Hx. replace (S (L + n) - (L + n)) with 1 by lia.
      cbn [skipn app]. rewrite <- !app_assoc. reflexivity. }
    assert (Hl2 : length d2 = L + n + 2).
    { rewrite Hd2, !app_length, firstn_length. cbn [length]. fold L n. lia. }
    rewrite setnth_ok by lia. eexists. split; [reflexivity|]. split; [|reflexivity].
    unfold btight. cbn [pbin poff pbase plen pfirst].
    assert (Hd3 : firstn (L + n + 1) d2 ++ 0%N :: skipn (S (L + n + 1)) d2 = benc (es ++ [e])).
    { rewrite benc_snoc by assumption. fold L. rewrite Hd2.
      replace (firstn (L - 1) (benc es) ++ [blen e] ++ e ++ [blen e; 0%N])
        with ((firstn (L - 1) (benc es) ++ [blen e] ++ e ++ [blen e]) ++ [0%N]) by (rewrite <- !app_assoc; reflexivity).
      assert (Hx : length (firstn (L - 1) (benc es) ++ [blen e] ++ e ++ [blen e]) = L + n + 1).
      { rewrite !app_length, firstn_length. cbn [length]. fold L n. lia. }
      rewrite firstn_app, Hx, Nat.sub_diag, firstn_O, app_nil_r. rewrite <- Hx at 1. rewrite firstn_all.
      rewrite skipn_all2 by (rewrite app_length, Hx; cbn [length]; lia). reflexivity. }
    rewrite Hd3.
    split; [reflexivity|]. split; [reflexivity|]. split; [reflexivity|]. split.
    { rewrite <- Hd3, app_length, firstn_length. cbn [length]. rewrite skipn_length. lia. }
    split; [|assumption].
    destruct (Nat.eqb_spec (plen p) 0) as [Hp0|_]; [fold L in Hlen; lia|].
    rewrite Hfirst. destruct es as [|x r]; [congruence|reflexivity].
Qed.

(* ---------------------------------------------------------------- a whole path *)
Lemma build_bin : forall es p done, btight p done -> (parr p = true \/ hd [] es <> []) ->
  (done <> [] -> parr p = true) -> Forall short es ->
  exists p', build p es = Done p' /\ btight p' (done ++ es).
Proof.
  induction es as [|e es IH]; intros p done Ht Ha Ha' Hf.
  - exists p. rewrite app_nil_r. split; [reflexivity|assumption].
  - inversion Hf; subst. cbn [hd] in Ha.
    destruct (path_add_bin p done e Ht Ha Ha' H1) as (p1 & Hadd & Ht1 & Ha1).
    cbn [build]. rewrite Hadd. cbn [cbind].
    destruct (IH p1 (done ++ [e]) Ht1 (or_introl Ha1) (fun _ => Ha1) H2) as (p' & Hb & Ht').
    exists p'. split; [assumption|]. rewrite <- app_assoc in Ht'. exact Ht'.
Qed.

(* from the empty path in binary mode: the layout, and the walk gives back the elements *)
Lemma path_rebuild_bin sep assign es :
  hd [] es <> [] -> Forall short es ->
  exists p, build (path_bin (path_init sep assign)) es = Done p /\
    pbin p = true /\ poff p = 0 /\ plen p = length (pbase p) /\ pbase p = benc es /\ pwalk p = Done es.
Proof.
  intros Hhd Hf.
  assert (Ht : btight (path_bin (path_init sep assign)) []).
  { repeat split; constructor. }
  destruct (build_bin es (path_bin (path_init sep assign)) [] Ht (or_intror Hhd)) as (p & Hb & Ht'); [congruence|assumption|].
  cbn [app] in Ht'. destruct Ht' as (Hbin & Hoff & Hbase & Hlen & Hfirst & _).
  exists p. split; [assumption|]. split; [assumption|]. split; [assumption|].
  split; [congruence|]. split; [assumption|].
  unfold pwalk. destruct p as [b o l f bi ar kp s a]. cbn [pbin poff pbase plen pfirst] in *. subst.
  apply (bwalk es [] (S (length (benc es))) ar kp s a).
  clear. induction es as [|e r IH]; [cbn; lia|]. cbn [benc length]. rewrite !app_length. cbn [length]. lia.
Qed.

(* [path_bin] is the history step "bin" (path.flags |= SepBinary) *)
Lemma path_bin_step p : fst (pstep p PBin) = path_bin p.
Proof. reflexivity. Qed.
