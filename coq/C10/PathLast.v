(* C10/PathLast.v — mpt_path_last and mpt_path_del in separator mode, on ANY well-formed path
   (any offset: after mpt_path_next calls; with or without array storage and post data):
   mpt_path_last reduces the path to exactly its last element, mpt_path_del removes exactly the
   last element (and the post data) and returns its length. *)
From MptV Require Import Base.Mem Base.Tactics C10.ConfigModel C10.ConfigSpec C10.PathProofs C10.PathAdd.
Local Open Scope nat_scope.

(* a byte string is one element, or ends in  separator + one element *)
Lemma last_sep_decomp sep : forall b, nosep sep b \/ exists a e, b = a ++ sep :: e /\ nosep sep e.
Proof.
  induction b as [|c b IH]; [left; reflexivity|].
  destruct IH as [Hn|(a & e & -> & He)].
  - destruct (beq c sep) eqn:Ec.
    + right. exists [], b. apply beq_true in Ec. subst. split; [reflexivity|assumption].
    + left. unfold nosep in *. cbn [index_of]. rewrite Ec, Hn. reflexivity.
  - right. exists (c :: a), e. split; [reflexivity|assumption].
Qed.

Lemma nosep_snoc sep e x : nosep sep (e ++ [x]) -> nosep sep e /\ beq x sep = false.
Proof.
  unfold nosep. intros H. destruct (index_of sep e) as [k|] eqn:E.
  - rewrite (index_of_app_some _ _ [x] _ E) in H. discriminate.
  - split; [reflexivity|]. rewrite index_of_app_none in H by assumption. cbn [index_of] in H.
    destruct (beq x sep); [discriminate|reflexivity].
Qed.

Lemma rdb_mid pre x rest : rdb (pre ++ x :: rest) (length pre) = Done x.
Proof. unfold rdb. rewrite nth_error_app2 by lia. rewrite Nat.sub_diag. reflexivity. Qed.

(* the backward scan runs over an element without separator *)
Lemma back_scan_elem sep : forall e pre rest len, nosep sep e ->
  back_scan (pre ++ e ++ rest) sep (length pre + length e) len =
  back_scan (pre ++ e ++ rest) sep (length pre) (len + length e).
Proof.
  induction e as [|x e IH] using rev_ind; intros pre rest len Hn.
  - cbn [length]. rewrite !Nat.add_0_r. reflexivity.
  - destruct (nosep_snoc _ _ _ Hn) as [He Hx].
    rewrite app_length. cbn [length]. replace (length pre + (length e + 1)) with (S (length pre + length e)) by lia.
    cbn [back_scan].
    replace (pre ++ (e ++ [x]) ++ rest) with ((pre ++ e) ++ x :: rest) by (rewrite <- !app_assoc; reflexivity).
    rewrite <- (app_length pre e), rdb_mid. cbn [cbind]. rewrite Hx.
    rewrite app_length. replace ((pre ++ e) ++ x :: rest) with (pre ++ e ++ (x :: rest)) by (rewrite <- app_assoc; reflexivity).
    rewrite IH by assumption. f_equal. lia.
Qed.

(* the whole scan: stops behind the last separator (or at the start) with the length of the last element *)
Lemma back_scan_spec sep b rest :
  (nosep sep b /\ back_scan (b ++ rest) sep (length b) 0 = Done (0, length b)) \/
  (exists a e, b = a ++ sep :: e /\ nosep sep e /\
     back_scan (b ++ rest) sep (length b) 0 = Done (length a + 1, length e)).
Proof.
  destruct (last_sep_decomp sep b) as [Hn|(a & e & -> & He)].
  - left. split; [assumption|].
    pose proof (back_scan_elem sep b [] rest 0 Hn) as H. cbn [app length Nat.add] in H. rewrite H. reflexivity.
  - right. exists a, e. split; [reflexivity|]. split; [assumption|].
    pose proof (back_scan_elem sep e (a ++ [sep]) rest 0 He) as H.
    replace ((a ++ [sep]) ++ e ++ rest) with ((a ++ sep :: e) ++ rest) in H by (rewrite <- !app_assoc; reflexivity).
    replace (length (a ++ [sep]) + length e) with (length (a ++ sep :: e)) in H by (rewrite !app_length; cbn; lia).
    rewrite H. rewrite app_length. cbn [length]. replace (length a + 1) with (S (length a)) by lia.
    cbn [back_scan].
    replace ((a ++ sep :: e) ++ rest) with (a ++ sep :: (e ++ rest)) by (rewrite <- app_assoc; reflexivity).
    rewrite rdb_mid. cbn [cbind]. replace (beq sep sep) with true by (symmetry; apply beq_true; reflexivity).
    reflexivity.
Qed.

Lemma del_scan_back m sep : forall n k, del_scan m sep n k = back_scan m sep n k.
Proof.
  induction n as [|n IH]; intros k; cbn [del_scan back_scan]; [reflexivity|].
  destruct (rdb m n) as [c|x| |]; cbn [cbind]; [|reflexivity|reflexivity|reflexivity].
  destruct (beq c sep); [reflexivity|apply IH].
Qed.

Lemma body_split p : plen p <> 0 -> poff p + (plen p - 1) <= length (pbase p) ->
  skipn (poff p) (pbase p) = body p ++ skipn (plen p - 1) (skipn (poff p) (pbase p)).
Proof. intros _ _. unfold body, slice. symmetry. apply firstn_skipn. Qed.

Lemma last_snoc {A} (l : list A) x d : last (l ++ [x]) d = x.
Proof. apply last_last. Qed.

(* mpt_path_last: the path becomes exactly its last element *)
Lemma path_last_spec p : pwf p -> plen p <> 0 ->
  exists e p', path_last p = Done (length e, p') /\
    e = last (elems p) [] /\ pwf p' /\ elems p' = [e] /\
    rdn (pbase p') (poff p') (length e) = Done e /\ same_store p p' /\
    poff p' + plen p' = poff p + plen p.
Proof.
  intros [Hb Hw] Hn. destruct (Hw Hn) as [Hbound _].
  pose proof (body_length p Hn Hbound) as Hbl.
  set (b := body p) in *. set (sep := psep p).
  assert (Hel : elems p = split sep b).
  { unfold elems. destruct (Nat.eqb_spec (plen p) 0); [lia|reflexivity]. }
  unfold path_last. destruct (Nat.eqb_spec (plen p) 0); [lia|]. rewrite Hb.
  rewrite (body_split p Hn Hbound). fold b. rewrite <- Hbl.
  set (rest := skipn (length b) (skipn (poff p) (pbase p))).
  assert (Hmk : forall pre e, b = pre ++ e -> nosep sep e ->
     let p' := mkpath (pbase p) (poff p + length pre) (length e + 1) (if 255 <? length e then 0 else length e)
                      false (parr p) (pkeep p) (psep p) (passign p) in
     body p' = e /\ pwf p' /\ elems p' = [e] /\ rdn (pbase p') (poff p') (length e) = Done e /\ same_store p p' /\
     poff p' + plen p' = poff p + plen p).
  { intros pre e Hpe He p'.
    assert (Hlen : length b = length pre + length e) by (rewrite Hpe, app_length; reflexivity).
    assert (Hbody : body p' = e).
    { unfold body, p'. cbn [poff plen pbase]. replace (length e + 1 - 1) with (length e) by lia.
      assert (He' : e = skipn (length pre) b) by (rewrite Hpe, skipn_app, skipn_all, Nat.sub_diag; reflexivity).
      rewrite He' at 2. unfold b, body. rewrite slice_skipn by lia. f_equal. lia. }
    split; [exact Hbody|]. split.
    { split; [reflexivity|]. intros _. cbn [poff plen pbase p']. split; [lia|].
      unfold first_ok. rewrite Hbody. cbn [pfirst psep p']. fold sep. rewrite (index_of_none_split _ _ He). cbn [hd].
      destruct (255 <? length e); [left|right]; reflexivity. }
    split.
    { unfold elems. cbn [plen psep p']. destruct (Nat.eqb_spec (length e + 1) 0); [lia|]. rewrite Hbody.
      apply index_of_none_split. exact He. }
    split.
    { unfold rdn. cbn [poff pbase p']. destruct (Nat.leb_spec (poff p + length pre + length e) (length (pbase p))); [|lia].
      f_equal. rewrite <- Hbody at 2. unfold body, p'. cbn [poff plen pbase]. f_equal. lia. }
    split; [unfold same_store, p'; cbn; repeat split; symmetry; exact Hb|]. cbn [poff plen p']. lia. }
  destruct (back_scan_spec sep b rest) as [[Hnb Hs]|(a & e & Hab & He & Hs)]; fold sep; rewrite Hs; cbn [cbind].
  - destruct (Hmk [] b eq_refl Hnb) as (Hbody & Hw' & He' & Hrd & Hss & Hend). cbn [length] in *.
    rewrite Nat.add_0_r in *.
    eexists b, _. split; [reflexivity|]. split.
    { rewrite Hel, (index_of_none_split _ _ Hnb). reflexivity. }
    split; [exact Hw'|]. split; [exact He'|]. split; [exact Hrd|]. split; [exact Hss|exact Hend].
  - assert (Hpe : b = (a ++ [sep]) ++ e) by (rewrite Hab, <- app_assoc; reflexivity).
    destruct (Hmk (a ++ [sep]) e Hpe He) as (Hbody & Hw' & He' & Hrd & Hss & Hend).
    rewrite app_length in *. cbn [length] in *.
    eexists e, _. split; [reflexivity|]. split.
    { rewrite Hel, Hab, split_snoc by assumption. symmetry. apply last_snoc. }
    split; [exact Hw'|]. split; [exact He'|]. split; [exact Hrd|]. split; [exact Hss|exact Hend].
Qed.

Lemma removelast_snoc {A} (l : list A) x : removelast (l ++ [x]) = l.
Proof. apply removelast_last. Qed.

Lemma slice_of_firstn {A} (l : list A) i n m : i + n <= m -> slice i n (firstn m l) = slice i n l.
Proof.
  intros H. unfold slice. rewrite skipn_firstn_comm, firstn_firstn, Nat.min_l by lia. reflexivity.
Qed.

(* mpt_path_del: the last element and the post data are gone, the elements in front stay *)
Lemma path_del_spec p : pwf p -> plen p <> 0 ->
  exists e p', path_del p = Done (length e, p') /\
    e = last (elems p) [] /\ elems p' = removelast (elems p) /\ pwf p' /\
    pkeep p' = false /\ poff p' = poff p /\ psep p' = psep p /\
    (parr p = true -> length (pbase p') = poff p' + plen p').
Proof.
  intros [Hb Hw] Hn. destruct (Hw Hn) as [Hbound Hfirst].
  pose proof (body_length p Hn Hbound) as Hbl.
  set (b := body p) in *. set (sep := psep p) in *.
  assert (Hel : elems p = split sep b).
  { unfold elems. destruct (Nat.eqb_spec (plen p) 0); [lia|reflexivity]. }
  unfold path_del. destruct (Nat.eqb_spec (plen p) 0); [lia|]. rewrite Hb.
  rewrite del_scan_back, (body_split p Hn Hbound). fold b. rewrite <- Hbl.
  set (rest := skipn (length b) (skipn (poff p) (pbase p))).
  destruct (back_scan_spec sep b rest) as [[Hnb Hs]|(a & e & Hab & He & Hs)]; fold sep; rewrite Hs; cbn [cbind].
  - (* a single element: the path becomes empty *)
    rewrite Nat.add_0_r.
    assert (Hcut : (if parr p then if length (pbase p) <? poff p then Fail BadValue else Done (firstn (poff p) (pbase p))
                    else Done (pbase p)) =
                   Done (if parr p then firstn (poff p) (pbase p) else pbase p)).
    { destruct (parr p); [|reflexivity]. destruct (Nat.ltb_spec (length (pbase p)) (poff p)); [lia|reflexivity]. }
    rewrite Hcut. cbn [cbind Nat.eqb].
    eexists b, _. split; [reflexivity|]. split.
    { rewrite Hel, (index_of_none_split _ _ Hnb). reflexivity. }
    split.
    { rewrite Hel, (index_of_none_split _ _ Hnb). reflexivity. }
    split.
    { split; [reflexivity|]. cbn [plen]. congruence. }
    cbn [pkeep poff psep plen pbase parr]. repeat split.
    intros Ha. rewrite Ha, firstn_length, Nat.min_l by lia. lia.
  - assert (Hlb : length b = length a + 1 + length e) by (rewrite Hab, app_length; cbn; lia).
    assert (Hcut : (if parr p then if length (pbase p) <? poff p + (length a + 1) then Fail BadValue
                                  else Done (firstn (poff p + (length a + 1)) (pbase p))
                    else Done (pbase p)) =
                   Done (if parr p then firstn (poff p + (length a + 1)) (pbase p) else pbase p)).
    { destruct (parr p); [|reflexivity].
      destruct (Nat.ltb_spec (length (pbase p)) (poff p + (length a + 1))); [lia|reflexivity]. }
    rewrite Hcut. cbn [cbind]. destruct (Nat.eqb_spec (length a + 1) 0); [lia|].
    set (base' := if parr p then firstn (poff p + (length a + 1)) (pbase p) else pbase p).
    set (p' := mkpath base' (poff p) (length a + 1) (pfirst p) false (parr p) false (psep p) (passign p)).
    assert (Hbody : body p' = a).
    { unfold body, p'. cbn [poff plen pbase]. replace (length a + 1 - 1) with (length a) by lia.
      assert (Hs1 : slice (poff p) (length a) base' = slice (poff p) (length a) (pbase p)).
      { unfold base'. destruct (parr p); [|reflexivity]. apply slice_of_firstn. lia. }
      rewrite Hs1. assert (Ha : a = firstn (length a) b) by (rewrite Hab, firstn_app, Nat.sub_diag, firstn_all; cbn; rewrite app_nil_r; reflexivity).
      rewrite Ha at 2. unfold b, body. rewrite slice_firstn by lia. reflexivity. }
    eexists e, p'. split; [reflexivity|]. split.
    { rewrite Hel, Hab, split_snoc by assumption. symmetry. apply last_snoc. }
    split.
    { unfold elems at 1. cbn [plen psep p']. destruct (Nat.eqb_spec (length a + 1) 0); [lia|].
      rewrite Hbody, Hel, Hab, split_snoc by assumption. fold sep. symmetry. apply removelast_snoc. }
    split.
    { split; [reflexivity|]. intros _. cbn [poff plen pbase p']. split.
      - unfold base'. destruct (parr p); [rewrite firstn_length|]; lia.
      - unfold first_ok. rewrite Hbody. cbn [pfirst psep p']. fold sep.
        unfold first_ok in Hfirst. fold b sep in Hfirst. rewrite Hab, hd_split_snoc in Hfirst by assumption. exact Hfirst. }
    cbn [pkeep poff psep plen pbase parr p']. repeat split.
    intros Ha. unfold base'. rewrite Ha, firstn_length, Nat.min_l by lia. reflexivity.
Qed.
