(* C10/LocateProofs.v — mpt_node_locate finds the k-th matching node in the direction asked for
   (through the traversal proof of C16/Locate.v), the default key is equality of names, and the
   lookup of mpt_node_query / the store (find_idx, aquery of TreeQuery.v) IS
   mpt_node_locate(list, 1, element, length, -1). *)
From MptV Require Import Base.Mem Base.Tactics C10.ConfigModel C10.ConfigSpec C10.PathProofs C10.TreeQuery
  C16.Locate C10.LocateModel.
Local Open Scope nat_scope.

(* one node seen by C16's traversal: a name that equals the probe exactly when the node matches *)
Definition flag (k : lkey) (n : ident) : list byte := if kmatch k n then [1%N] else [0%N].
Definition probe : list byte := [1%N].

Lemma flag_match k n : beq_bytes probe (flag k n) = kmatch k n.
Proof. unfold flag, probe. destruct (kmatch k n); reflexivity. Qed.

Lemma gfwd_loc k l : forall idx pos, gfwd k l idx pos = loc_fwd (map (flag k) l) idx pos probe.
Proof.
  induction l as [|n l IH]; intros idx pos; cbn [gfwd loc_fwd map]; [reflexivity|].
  rewrite flag_match. destruct (kmatch k n); [destruct (pos =? 1); [reflexivity|]|]; apply IH.
Qed.

Lemma gbwd_loc k l : forall idx cnt, gbwd k l idx cnt = loc_bwd (map (flag k) l) idx cnt probe.
Proof.
  induction l as [|n l IH]; intros idx cnt; cbn [gbwd loc_bwd map]; [reflexivity|].
  rewrite flag_match. destruct (kmatch k n); [destruct (cnt =? 1); [reflexivity|]|]; apply IH.
Qed.

Lemma gmatches_matches k l : forall idx, gmatches k l idx = matches (map (flag k) l) idx probe.
Proof.
  induction l as [|n l IH]; intros idx; cbn [gmatches matches map]; [reflexivity|].
  rewrite flag_match, IH. reflexivity.
Qed.

Definition res_of (o : option nat) : lres := match o with Some i => LFound i | None => LNone end.

(* the traversal of node_locate.c is C16's [locate] on the match flags *)
Lemma node_locate_is_locate ids s p k :
  s < length ids -> (klen k = 0 \/ kptr k <> 0) ->
  node_locate ids (Some s) p k = res_of (locate (map (flag k) ids) s p probe).
Proof.
  intros Hs Hk. unfold node_locate, locate.
  assert (Hg : negb (klen k =? 0) && (kptr k =? 0) = false).
  { destruct Hk as [->|Hp]; [reflexivity|]. apply Nat.eqb_neq in Hp. rewrite Hp. apply andb_false_r. }
  rewrite Hg, map_length. destruct (Nat.leb_spec (length ids) s); [lia|].
  destruct p as [c| |c].
  - rewrite gfwd_loc, skipn_map. reflexivity.
  - rewrite <- flag_match.
    replace (flag k (nth (length ids - 1) ids (0, IPtr 0))) with (nth (length ids - 1) (map (flag k) ids) [])
      by (rewrite (nth_indep _ [] (flag k (0, IPtr 0))) by (rewrite map_length; lia); apply map_nth).
    destruct (beq_bytes probe (nth (length ids - 1) (map (flag k) ids) [])); [reflexivity|].
    rewrite gbwd_loc, map_rev, firstn_map. reflexivity.
  - rewrite gbwd_loc, map_rev, firstn_map. reflexivity.
Qed.

(* mpt_node_locate = the k-th match in the direction of the search, for every list of identifiers
   (names, nameless, pointer identifiers, any character sets), every key and every position *)
Theorem node_locate_kth ids s p k :
  s < length ids -> (klen k = 0 \/ kptr k <> 0) ->
  (match p with LFwd c | LBwd c => 1 <= c | LLast => True end) ->
  node_locate ids (Some s) p k = res_of (locate_kth ids s p k).
Proof.
  intros Hs Hk Hp. rewrite node_locate_is_locate by assumption.
  rewrite locate_refines_spec by assumption.
  unfold locate_spec, locate_kth. rewrite map_length.
  destruct (Nat.leb_spec (length ids) s); [lia|].
  rewrite gmatches_matches. reflexivity.
Qed.

Lemma gmatches_sound k l : forall idx i, In i (gmatches k l idx) ->
  idx <= i /\ exists n, nth_error l (i - idx) = Some n /\ kmatch k n = true.
Proof.
  induction l as [|n l IH]; intros idx i H; cbn [gmatches] in H; [contradiction|].
  destruct (kmatch k n) eqn:E.
  - destruct H as [<-|H].
    + split; [lia|]. exists n. rewrite Nat.sub_diag. split; [reflexivity|assumption].
    + destruct (IH _ _ H) as (Hle & m & Hn & Hm). split; [lia|]. exists m.
      replace (i - idx) with (S (i - S idx)) by lia. split; assumption.
  - destruct (IH _ _ H) as (Hle & m & Hn & Hm). split; [lia|]. exists m.
    replace (i - idx) with (S (i - S idx)) by lia. split; assumption.
Qed.

(* what is found is a node of the list and it matches *)
Theorem node_locate_sound ids s p k i :
  s < length ids -> (klen k = 0 \/ kptr k <> 0) ->
  (match p with LFwd c | LBwd c => 1 <= c | LLast => True end) ->
  node_locate ids (Some s) p k = LFound i ->
  exists n, nth_error ids i = Some n /\ kmatch k n = true /\
    match p with LFwd _ => s <= i | LBwd _ => i < s | LLast => True end.
Proof.
  intros Hs Hk Hp H. rewrite node_locate_kth in H by assumption.
  unfold locate_kth in H.
  assert (Hin : In i (gmatches k ids 0) /\ match p with LFwd _ => s <= i | LBwd _ => i < s | LLast => True end).
  { destruct p as [c| |c]; cbn [res_of] in H.
    - destruct (nth_error _ _) eqn:E in H; [|discriminate]. injection H as <-.
      apply nth_error_In, filter_In in E. destruct E as [E1 E2]. apply Nat.leb_le in E2. split; assumption.
    - destruct (nth_error _ _) eqn:E in H; [|discriminate]. injection H as <-.
      apply nth_error_In, in_rev in E. split; [assumption|exact I].
    - destruct (nth_error _ _) eqn:E in H; [|discriminate]. injection H as <-.
      apply nth_error_In, in_rev, filter_In in E. destruct E as [E1 E2]. apply Nat.ltb_lt in E2. split; assumption. }
  destruct Hin as [Hin Hd]. destruct (gmatches_sound _ _ _ _ Hin) as (_ & n & Hn & Hm).
  rewrite Nat.sub_0_r in Hn. exists n. repeat split; assumption.
Qed.

(* NULL list / NULL identifier with a length: refused (EFAULT), whatever else is asked *)
Lemma node_locate_null ids p k : node_locate ids None p k = LEfault.
Proof. reflexivity. Qed.
Lemma node_locate_null_ident ids s p k : klen k <> 0 -> kptr k = 0 -> node_locate ids (Some s) p k = LEfault.
Proof.
  intros Hl Hp. unfold node_locate. rewrite Hp. apply Nat.eqb_neq in Hl. rewrite Hl. reflexivity.
Qed.

(* ---------------------------------------------------------------- the default key *)
Lemma firstn_app_all {A} (a b : list A) : firstn (length a) (a ++ b) = a.
Proof. rewrite firstn_app, Nat.sub_diag, firstn_all. cbn. apply app_nil_r. Qed.

(* against a stored name the default key is equality of the name bytes (any bytes, any length) *)
Lemma kmatch_name nm key : kmatch (key_of_name key) (ident_of_name nm) = bytes_eqb nm key.
Proof.
  unfold kmatch, key_of_name, ident_of_name. cbn [kcs klen kmem kptr id_bytes Nat.eqb negb].
  replace (length key + 1 =? 0) with false by (symmetry; apply Nat.eqb_neq; lia).
  cbn [andb]. rewrite app_length. cbn [length].
  destruct (Nat.eqb_spec (length key + 1) (length nm + 1)) as [Hl|Hl].
  - assert (Hl' : length key = length nm) by lia.
    replace (length key + 1 =? length key) with false by (symmetry; apply Nat.eqb_neq; lia).
    rewrite Hl'. rewrite app_nth2 by lia. rewrite Nat.sub_diag. cbn [nth orb andb N.eqb].
    rewrite firstn_app_all. rewrite <- Hl', firstn_all.
    destruct (Nat.eqb_spec (length key) 0) as [Hz|Hz]; [|reflexivity].
    destruct key; [|cbn in Hz; lia]. destruct nm; [reflexivity|cbn in Hl'; lia].
  - cbn [andb]. symmetry. apply bytes_eqb_neq. intros ->. lia.
Qed.

(* identifiers of another character set (nameless nodes, pointer identifiers, ..) never match a name *)
Lemma kmatch_other_charset key cs d : cs <> 1 -> kmatch (key_of_name key) (cs, d) = false.
Proof.
  intros H. unfold kmatch, key_of_name. cbn [kcs].
  replace (1 =? cs) with false by (symmetry; apply Nat.eqb_neq; lia). reflexivity.
Qed.

(* ---------------------------------------------------------------- the lookup of the store *)
Lemma gfwd_find nm l : forall i,
  gfwd (key_of_name nm) (map (fun k => ident_of_name (nname' k)) l) i 1 = option_map fst (find_idx nm l i).
Proof.
  induction l as [|k l IH]; intros i; cbn [gfwd map find_idx]; [reflexivity|].
  rewrite kmatch_name. destruct (bytes_eqb (nname' k) nm); [reflexivity|apply IH].
Qed.

(* find_idx - the search by which aquery / mpt_node_query / every theorem about the store walks one
   level - is mpt_node_locate(first, 1, name, length, -1) on the identifiers of that level *)
Theorem store_lookup_is_node_locate nm l : l <> [] ->
  node_locate (map (fun k => ident_of_name (nname' k)) l) (Some 0) (LFwd 1) (key_of_name nm) =
  res_of (option_map fst (find_idx nm l 0)).
Proof.
  intros Hl. unfold node_locate. cbn [key_of_name klen kptr Nat.eqb andb].
  rewrite andb_false_r. rewrite map_length.
  destruct l as [|k l]; [congruence|]. cbn [length Nat.leb skipn]. rewrite gfwd_find. reflexivity.
Qed.

(* ... and with foreign nodes (other character sets) between the names it finds the same NAMED node *)
Lemma gmatches_first k l : forall idx, gfwd k l idx 1 = hd_error (gmatches k l idx).
Proof.
  induction l as [|n l IH]; intros idx; cbn [gfwd gmatches]; [reflexivity|].
  destruct (kmatch k n); [reflexivity|apply IH].
Qed.

(* ---------------------------------------------------------------- mpt_node_query over lifted forests *)
Lemma path_next_shorter p l p' : path_next p = Done (l, p') -> plen p' < plen p.
Proof.
  unfold path_next. destruct (Nat.eqb_spec (plen p) 0) as [|Hn]; [discriminate|].
  destruct (pbin p).
  - destruct (rdb _ _); cbn [cbind]; try discriminate.
    destruct (Nat.ltb_spec (plen p) (pfirst p + 2)); [discriminate|]. intros Hx. injection Hx as _ <-. cbn. lia.
  - destruct (Nat.eqb_spec (pfirst p) 0) as [Hf|Hf]; cbn [negb].
    + destruct (memchr _ _ _ _) as [e| | |]; cbn [cbind]; try discriminate.
      destruct e as [k|].
      * destruct (Nat.ltb_spec (plen p) (k + 1)); [discriminate|]. intros Hx. injection Hx as _ <-. cbn. lia.
      * destruct (Nat.ltb_spec (plen p) (plen p)); [lia|]. intros Hx. injection Hx as _ <-. cbn. lia.
    + cbn [cbind]. destruct (Nat.ltb_spec (plen p) (pfirst p + 1)); [discriminate|].
      intros Hx. injection Hx as _ <-. cbn. lia.
Qed.

Definition glue (pre : option trail) (r : cres (option trail * path)) : cres (option trail * path) :=
  match r with
  | Done (None, q) => Done (pre, q)
  | Done (Some t, q) => Done (Some (match pre with Some a => a ++ t | None => t end), q)
  | x => x
  end.

Lemma lift_kids nd : lkids' (lift_node nd) = map lift_node (nkids' nd).
Proof. destruct nd; reflexivity. Qed.
Lemma lift_ids l : map lid' (map lift_node l) = map (fun k => ident_of_name (nname' k)) l.
Proof. rewrite map_map. apply map_ext. intros [nm v ks]. reflexivity. Qed.

Lemma find_idx_nth nm l : forall i j k, find_idx nm l i = Some (j, k) -> i <= j /\ nth_error l (j - i) = Some k.
Proof.
  induction l as [|x l IH]; intros i j k H; cbn [find_idx] in H; [discriminate|].
  destruct (bytes_eqb (nname' x) nm).
  - injection H as <- <-. rewrite Nat.sub_diag. split; [lia|reflexivity].
  - destruct (IH _ _ _ H) as [Hle Hn]. split; [lia|]. replace (j - i) with (S (j - S i)) by lia. exact Hn.
Qed.

(* the loop of node_query.c around mpt_node_locate computes what the nested search of the store model
   (query_kids, about which the refinement theorems speak) computes *)
Lemma lquery_loop_spec : forall fuel nd p pre, plen p < fuel -> nkids' nd <> [] ->
  lquery_loop fuel (map lift_node (nkids' nd)) p pre = glue pre (query_kids nd p).
Proof.
  induction fuel as [|fuel IH]; intros nd p pre Hf Hk; [lia|].
  rewrite query_kids_unfold. cbn [lquery_loop].
  destruct (path_next p) as [[clen p']|e| |] eqn:Hn; try reflexivity.
  destruct (rdn (pbase p) (poff p) clen) as [nm|e| |]; try reflexivity.
  rewrite lift_ids, store_lookup_is_node_locate by assumption. rewrite qloc_find.
  destruct (find_idx nm (nkids' nd) 0) as [[j k]|] eqn:Ef; cbn [option_map fst res_of]; [|reflexivity].
  destruct (find_idx_nth _ _ _ _ _ Ef) as [_ Hnth]. rewrite Nat.sub_0_r in Hnth.
  rewrite nth_error_map, Hnth. cbn [option_map]. rewrite lift_kids.
  destruct (nkids' k) as [|k1 kk] eqn:Ek.
  - cbn [map glue]. destruct pre; reflexivity.
  - rewrite <- Ek. remember (map lift_node (nkids' k)) as L eqn:HL.
    destruct L as [|l0 L']; [rewrite Ek in HL; discriminate|]. rewrite HL.
    rewrite IH by (try (apply path_next_shorter in Hn; lia); rewrite Ek; discriminate).
    destruct (query_kids k p') as [[[t|] q]|e| |]; cbn [glue]; try reflexivity; destruct pre; try reflexivity;
      rewrite <- app_assoc; reflexivity.
Qed.

Theorem lquery_is_node_query f p : lquery (map lift_node f) p = node_query f p.
Proof.
  unfold lquery, node_query. destruct f as [|k f]; [reflexivity|].
  change (map lift_node (k :: f)) with (lift_node k :: map lift_node f).
  destruct (plen p =? 0); [reflexivity|].
  change (lift_node k :: map lift_node f) with (map lift_node (nkids' (Node [] None (k :: f)))).
  rewrite lquery_loop_spec by (cbn; try lia; discriminate).
  unfold query_in. destruct (query_kids _ p) as [[[t|] q]|e| |]; reflexivity.
Qed.
