(* C10/RootRefine.v — the C++ config::root (item slot arrays) refines the same
   history specification as the global store. *)
From MptV Require Import Base.Mem Base.Tactics C10.ConfigModel C10.ConfigSpec C10.PathProofs
  C10.TreeQuery C10.TreeOps C10.TreeAssign C10.StoreRefine C10.ItemProofs.
Local Open Scope nat_scope.

Lemma item_query_key a p : pwf p -> item_query a p = Done (iquery a (elems p)).
Proof. intros Hw. unfold item_query. apply (item_query_spec (elems p) (Item None None a) p Hw eq_refl). Qed.

Lemma touch_idem e : touch (touch e) = touch e.
Proof. destruct e; reflexivity. Qed.

Lemma upd_gen_twice (L : key -> entry) q v k :
  upd_gen (upd_gen L q None) q (Some v) k = upd_gen L q (Some v) k.
Proof.
  unfold upd_gen. destruct (key_eqb k q); [reflexivity|].
  destruct (key_proper_prefix k q); [apply touch_idem|reflexivity].
Qed.

Lemma root_assign_spec a p v : iwf a -> pwf p -> Forall name_ok (elems p) ->
  match elems p with
  | [] => root_assign a p v = Done (a, RcRefused)
  | q => exists a', root_assign a p v = Done (a', RcOk) /\ iwf a' /\
         forall k, k <> [] -> ilook a' k = upd_gen (ilook a) q (Some (Some v)) k
  end.
Proof.
  intros Hwf Hw Hok. unfold root_assign. destruct (elems p) as [|n r] eqn:He.
  - apply elems_nil_iff in He. rewrite He. reflexivity.
  - assert (Hz : plen p <> 0) by (intros H; apply elems_nil_iff in H; congruence).
    destruct (Nat.eqb_spec (plen p) 0); [congruence|].
    destruct (item_reserve_spec (n :: r) (S (plen p)) a p Hw He ltac:(discriminate) Hok ltac:(lia) Hwf)
      as (a' & t & x & Hres & Hwf' & Htr & Hl).
    rewrite Hres. cbn [cbind]. eexists. split; [reflexivity|]. split.
    + apply (iwf_upd_at_same a' (n :: r) t x Htr Hwf'); [reflexivity|].
      intros Hx. apply iwfi_unfold. cbn. apply iwfi_unfold. assumption.
    + intros k Hk. rewrite (ilook_setval a' (n :: r) t x Htr (Some v) k Hk).
      rewrite <- (upd_gen_twice (ilook a) (n :: r) (Some v) k). apply upd_gen_ext. apply Hl. assumption.
Qed.

(* root_remove / root_drop: [G] is what the slot becomes *)
Lemma root_unuse_spec a p (G : item -> item) : iwf a -> pwf p -> elems p <> [] ->
  (forall x, iname' (G x) = None) -> (forall x, iwfi x -> iwfi (G x)) ->
  exists a' r,
    (let* t := item_query a p in
     match t with
     | None => Done (a, RcNotFound)
     | Some tr => Done (iupd_at a tr G, RcRemoved)
     end) = Done (a', r) /\ iwf a' /\ r <> RcOk /\
    (is_removed r = true <-> ilook a (elems p) <> Absent) /\
    forall k, ilook a' k = if is_removed r && key_prefix (elems p) k then Absent else ilook a k.
Proof.
  intros Hwf Hw Hne HG HW. rewrite (item_query_key a p Hw). cbn [cbind].
  destruct (iquery a (elems p)) as [t|] eqn:Eq.
  - destruct (iquery_some _ _ _ Eq) as (x & Htr).
    exists (iupd_at a t G), RcRemoved. split; [reflexivity|].
    split; [eapply iwf_upd_at_unuse; eauto; apply HW; apply iwfi_unfold; pose proof (itrail_item_at _ _ _ _ Htr)|].
    { (* the item found is well formed *)
      clear -Htr Hwf. induction Htr as [a n i x Hf | a n m i x t y Hf Hm Ht IH].
      - destruct (ifind_first _ _ _ _ Hf) as (_ & Hn & _). eapply iwf_elems; eauto.
      - destruct (ifind_first _ _ _ _ Hf) as (_ & Hn & _). apply IH. eapply iwf_elems; eauto. }
    split; [discriminate|]. split.
    + split; [|reflexivity]. intros _. rewrite (itrail_ilook _ _ _ _ Htr). discriminate.
    + intros k. cbn [is_removed andb]. apply (ilook_unuse a (elems p) t x Htr Hwf G (HG x) k).
  - exists a, RcNotFound. split; [reflexivity|]. split; [assumption|]. split; [discriminate|]. split.
    + split; [discriminate|]. intros Hx. exfalso. apply Hx. apply iquery_none; assumption.
    + intros k. reflexivity.
Qed.

Lemma root_query_spec a p : pwf p -> elems p <> [] -> root_query a p = Done (ilook a (elems p)).
Proof.
  intros Hw Hne. unfold root_query. rewrite (item_query_key a p Hw). cbn [cbind].
  destruct (iquery a (elems p)) as [t|] eqn:Eq.
  - destruct (iquery_some _ _ _ Eq) as (x & Htr).
    rewrite (itrail_item_at _ _ _ _ Htr), (itrail_ilook _ _ _ _ Htr). reflexivity.
  - rewrite (iquery_none _ _ Hne Eq). reflexivity.
Qed.

(* ---------------------------------------------------------------- histories *)
Definition RI (a : list item) (h : list sop) : Prop :=
  iwf a /\ forall k, k <> [] -> ilook a k = slook h k.

(* the private store does not treat the empty path as an element: queries of it
   report absence, lazy removal refuses it *)
Definition rop_ok (o : rop) : Prop :=
  match o with
  | RAssign p v => pwf p /\ Forall name_ok (elems p)
  | RRemove p => pwf p
  | RDrop p => pwf p /\ elems p <> []
  | RQuery p => pwf p /\ elems p <> []
  end.

Definition rhop_of (o : rop) : hop :=
  match o with
  | RAssign p v => HAssign [] (elems p) v
  | RRemove p => HRemove [] (elems p)
  | RDrop p => HRemove [] (elems p)
  | RQuery p => HQuery [] (elems p)
  end.

Lemma unuse_refines a h q a' r : RI a h -> q <> [] -> iwf a' -> r <> RcOk ->
  (is_removed r = true <-> ilook a q <> Absent) ->
  (forall k, ilook a' k = if is_removed r && key_prefix q k then Absent else ilook a k) ->
  let '(h', sout) := sstep h (HRemove [] q) true in
  obs (OutRc r) = obs sout /\ RI a' h'.
Proof.
  intros [Hwf HR] Hq Hwf' Hnok Hiff Hl. cbn [sstep app].
  destruct q as [|n q]; [congruence|]. cbn [slookup].
  rewrite <- (HR (n :: q)) by discriminate.
  destruct (ilook a (n :: q)) eqn:Et.
  - assert (Hf : is_removed r = false).
    { destruct (is_removed r) eqn:E; [|reflexivity]. exfalso. apply (proj1 Hiff); reflexivity. }
    split; [destruct r; cbn in *; try reflexivity; try discriminate; congruence|].
    split; [assumption|]. intros k Hk. rewrite Hl, Hf. cbn [andb]. apply HR. assumption.
  - assert (Ht : is_removed r = true) by (apply (proj2 Hiff); discriminate).
    split; [destruct r; cbn in *; try discriminate; reflexivity|].
    split; [assumption|]. intros k Hk. rewrite Hl, Ht. cbn [andb slook].
    destruct (key_prefix (n :: q) k); [reflexivity|]. apply HR. assumption.
Qed.

Lemma rstep_refines a h o : RI a h -> rop_ok o ->
  let '(a', out) := rstep a o in
  let '(h', sout) := sstep h (rhop_of o) (accepted out) in
  obs out = obs sout /\ RI a' h'.
Proof.
  intros HRI Hok. pose proof HRI as [Hwf HR].
  destruct o as [p v|p|p|p]; cbn [rop_ok rhop_of rstep] in *.
  - destruct Hok as (Hw & Hn). pose proof (root_assign_spec a p v Hwf Hw Hn) as Ha.
    cbn [sstep app]. destruct (elems p) as [|n r] eqn:He.
    + rewrite Ha. cbn. split; [reflexivity|assumption].
    + destruct Ha as (a' & Ha & Hwf' & Hl). rewrite Ha. cbn [accepted].
      split; [reflexivity|]. split; [assumption|].
      intros k Hk. rewrite (Hl k Hk), slook_assign. apply upd_gen_ext. apply HR. assumption.
  - unfold root_remove. destruct (Nat.eqb_spec (plen p) 0) as [Hz|Hz].
    + apply elems_nil_iff in Hz. rewrite Hz. cbn. split; [reflexivity|]. split; [apply iwf_nil|].
      intros k Hk. rewrite ilook_nil. unfold key_proper_prefix. destruct k; [congruence|reflexivity].
    + assert (Hne : elems p <> []) by (intros H; apply Hz; apply elems_nil_iff; assumption).
      destruct (root_unuse_spec a p (fun _ => Item None None []) Hwf Hok Hne (fun _ => eq_refl))
        as (a' & r & Hr & Hwf' & Hnok & Hiff & Hl).
      { intros x _. cbn. split; [constructor|exact I]. }
      rewrite Hr. apply (unuse_refines a h (elems p) a' r HRI Hne Hwf' Hnok Hiff Hl).
  - destruct Hok as [Hw Hne]. unfold root_drop.
    assert (Hz : plen p <> 0) by (intros H; apply Hne; apply elems_nil_iff; assumption).
    destruct (Nat.eqb_spec (plen p) 0); [congruence|].
    destruct (root_unuse_spec a p (fun x => Item None (ival' x) (ielems' x)) Hwf Hw Hne (fun _ => eq_refl))
      as (a' & r & Hr & Hwf' & Hnok & Hiff & Hl).
    { intros x Hx. apply iwfi_unfold. cbn. apply iwfi_unfold. assumption. }
    rewrite Hr. apply (unuse_refines a h (elems p) a' r HRI Hne Hwf' Hnok Hiff Hl).
  - destruct Hok as [Hw Hne]. rewrite (root_query_spec a p Hw Hne). cbn [sstep app slookup].
    split; [|assumption]. destruct (elems p) as [|n q]; [congruence|]. cbn [slookup].
    rewrite HR by discriminate. reflexivity.
Qed.

Lemma rrun_refines : forall ops a h, RI a h -> Forall rop_ok ops ->
  map obs (fst (rrun a ops)) = map obs (fst (srun h (map rhop_of ops) (fst (rrun a ops)))).
Proof.
  induction ops as [|o ops IH]; intros a h HR Hok; [reflexivity|].
  inversion Hok as [|? ? Ho Hok']; subst.
  pose proof (rstep_refines a h o HR Ho) as Hs.
  cbn [rrun map srun]. destruct (rstep a o) as [a' out].
  specialize (IH a').
  destruct (rrun a' ops) as [outs af] eqn:Ec. cbn [fst tl].
  destruct (sstep h (rhop_of o) (accepted out)) as [h' sout]. destruct Hs as [Ho' HR'].
  specialize (IH h' HR' Hok'). cbn [fst] in IH.
  destruct (srun h' (map rhop_of ops) outs) as [souts hf]. cbn [fst map] in *.
  rewrite Ho', IH. reflexivity.
Qed.

Lemma RI_init : RI [] [].
Proof. split; [apply iwf_nil|]. intros k _. apply ilook_nil. Qed.
